import Splipy.Lemmas.C16Integral
import Splipy.Lemmas.C16IntegralReal
import Splipy.Lemmas.C16Quadrature
import Splipy.Lemmas.C16Vector
import Splipy.Lemmas.C16Center
import Splipy.Lemmas.C16Model
import Splipy.Lemmas.C16Integrate
import Splipy.Lemmas.C16IntegrateReal
import Splipy.Lemmas.C16CenterModel
import Splipy.Lemmas.C16CenterReal
import Splipy.Lemmas.C16Bridge
import Splipy.Lemmas.C16Composite
import Splipy.Lemmas.C16Invariance
import Splipy.Lemmas.C16VolumeExact
import Splipy.Lemmas.C16Spans
import Splipy.Lemmas.C16VolumeReal
import Splipy.Lemmas.C16VolumeWhole
import Splipy.Lemmas.C16VolumeInsert
import Mathlib.Algebra.Order.Archimedean.Real.Basic

/-!
# Property C16 — lengths, areas, volumes, centres and curvatures are representation independent

Three kinds of theorems (kernel-checked; ordered field `K` unless `ℝ` is written):

**(A) About the EXECUTABLE model functions of `Model/Measure.lean`** (model ↔ specification):
* `Basis.integrate`: `C16_integrate_spec_open/_periodic` (returns `intF(t1) − intF(t0)` per function,
  periodic: summed over the wrapped images) and `C16_integrate_is_integral(_periodic)` (`ℝ`:
  `= ∫_{t0}^{t1} B_c`), from `Basis.Valid` and tolerance-exact end points ALONE — no condition on
  knot multiplicities.
* `Obj.center`: `C16_center_curve_spec`, `C16_center_curve_is_integral_mean(_periodic)`,
  `C16_center_surface_is_integral_mean` (non-rational; surfaces: non-periodic directions),
  `C16_center_curve_rational` (projective formula), `C16_center_insert_knot_invariant`.
* `Obj.lengthData`, `Obj.curvatureData`, `Obj.torsionData`, `Obj.areaData`, `Obj.volume` of
  NON-RATIONAL objects: `C16_lengthData_spec`, `C16_curvatureData_spec(_planar)`,
  `C16_torsionData_spec`, `C16_volume_spec` (each model result is the speed / cross products /
  Jacobian of the specification derivatives of the MAP at the nodes, via C03), the representation
  independence `C16_curvature_torsion_insert_knot_invariant`, `C16_curvature_insert_knot_invariant_planar`
  (via C04), `C16_curvature_torsion_rotation_partial`, `C16_curvature_torsion_scaling_partial`
  (rotated / scaled control NET as hypothesis); exactness `C16_volume_exact` (no `hF`: the Jacobian
  determinant IS a tensor polynomial on every element, constant sign per element assumed),
  `C16_volume_is_integral` (`ℝ`: `= Σ_elements ∫∫∫ |det J|`), representation independence
  `C16_volume_insert_knot_invariant` (`o'.volume = o.volume` for insertion in the first direction);
  `C16_volume_exact_partial`, `C16_area_planar_exact_partial` (general integrand / planar area with
  the tensor-polynomial hypothesis `hF`), `C16_gauss_rule_exact_composite`.

**(B) About the specification** (`intF`, `Bpoly`, `B`): `C16_basis_integral_identity`, `_span`,
`_continuity`, `_real`, `C16_basis_integrals_sum`, `C16_quadrature_exact_basis`,
`C16_center_integral_mean`.

**(C) Free-standing algebra used by (A)** (node-wise identities between vectors, abstract rules):
`C16_quadrature_exact_polynomial/_tensor2/_tensor3`, `C16_volume_rule_exact_order2`,
`C16_exact_invariances_*`, `C16_frenet`, `C16_curvature_torsion_rigid/_scaling`,
`C16_torsion_scalar_numerator_zero`, `C16_center_equivariance(_rational)`.  They mention no model
function; their link to the code is (A) where stated, otherwise the correspondence run.

**Gauss–Legendre.**  The rule enters as the hypothesis `RuleExact` / `GaussRule` = the moment
equations `Σ w_i x_i^k = ∫_{-1}^{1} t^k` for `k ≤ D`; exactness for every polynomial of degree `≤ D` is
PROVED from them for every number of nodes.  That real nodes with `D = 2m−1` exist is proved for
`m ≤ 3` only and otherwise assumed; the executable model is run with the float nodes numpy returns
(as exact rationals), which satisfy the moment equations only to rounding — `harness/props/C16.py`
checks that to `1e-14` for `m ≤ 8`; the exactness THEOREMS are therefore statements about the ideal
rule over `ℝ`, not about the rational run.

**NOT proved** (and no identity): the quadrature-ERROR clauses of the property —
  (1) invariance of length / area / volume under knot insertion, order elevation and splitting when
      the integrand is not a polynomial of degree `≤ 2p+1` per span (curve lengths of order `> 2`,
      3-D surface areas, everything rational, volumes of order `> 5`);
  (2) convergence to the analytic values for circles, spheres, cylinders and tori.
These are covered by the model-independent oracle only; C16 is PARTIAL for exactly these clauses.
Also not proved: `hF` of `C16_area_planar_exact_partial` (planar area; for volumes it is discharged
in `C16_volume_exact`); model-level invariance of `Obj.volume` under insertion in directions 1, 2,
under `raise_order`, `swap`, `reverse`, split-and-sum, and of the planar area under anything; `Obj.center` for volumes and
rational / periodic surfaces; `curvatureData`/`torsionData`/`lengthData` of RATIONAL curves (the
closed-form derivative path) and `frenetData`; order elevation and reversal of curvature/torsion at
model level; the link from `Obj.rotate/scale` to the net hypotheses of the `_partial` theorems
(property C09).
-/

open Splipy Splipy.Affine Polynomial

section integrals

variable {K : Type} [Field K] [LinearOrder K] [IsStrictOrderedRing K]

/-- **Basis integrals, antiderivative identity.**  `τ` is the knot vector extended by one knot at
each end (`[k0] + knots + [k_last]`), `q = p−1` the degree of the basis, `N` the number of
degree-`q+1` functions on `τ`.  On every non-empty knot span `μ`:
the function the code evaluates as antiderivative,
`intF s τ q N i t = (τ (i+q+1) − τ i)/(q+1) · Σ_{i ≤ j < N} B_{j,q+1}(t)`,
and the basis function `B_{i,q}` are (one-sidedly at the span ends) the values of two polynomials
`intFpoly`, `Bpoly` with `intFpoly' = Bpoly`. -/
theorem C16_basis_integral_identity (τ : ℕ → K) (hτ : Monotone τ) (μ q N i : ℕ) (hN : μ < N)
    (hμ : τ μ < τ (μ+1)) :
    derivative (intFpoly τ μ q i) = Bpoly τ μ q i ∧
    ∀ (s : Side) (t : K), s.mem (τ μ) (τ (μ+1)) t →
      intF s τ q N i t = (intFpoly τ μ q i).eval t ∧ B s τ q i t = (Bpoly τ μ q i).eval t :=
  ⟨derivative_intFpoly τ hτ μ hμ q i,
   fun s t h => ⟨intF_eq_eval s τ hτ μ q N i hN t h, B_eq_eval_Bpoly s τ hτ μ q i t h⟩⟩

/-- **`integrate(t0,t1)` on one span is the integral of the polynomial piece**, the integral being
defined by antiderivatives: for `t0`, `t1` in one knot span (each taken with the side that makes
it a member: a lower limit at the left span end from the right, an upper limit at the right span
end from the left — what `evaluate` does at the domain end), the code's value
`intF(t1) − intF(t0)` equals `P(t1) − P(t0)` for EVERY antiderivative `P` of the piece of
`B_{i,q}`. -/
theorem C16_basis_integral_span (τ : ℕ → K) (hτ : Monotone τ) (μ q N i : ℕ) (hN : μ < N)
    (s0 s1 : Side) (t0 t1 : K) (h0 : s0.mem (τ μ) (τ (μ+1)) t0) (h1 : s1.mem (τ μ) (τ (μ+1)) t1)
    (P : K[X]) (hP : derivative P = Bpoly τ μ q i) :
    intF s1 τ q N i t1 - intF s0 τ q N i t0 = P.eval t1 - P.eval t0 :=
  intF_sub_eq_antiderivative τ hτ μ q N i hN s0 s1 t0 t1 h0 h1 P hP

omit [IsStrictOrderedRing K] in
/-- **Several spans**: `intF` is continuous at every point that occurs at most `q+1` times in `τ`
(every interior knot: a basis of order `p = q+1` has interior multiplicities `≤ p`), so the
per-span differences of `C16_basis_integral_span` telescope: for `t0`, `t1` in different spans
`intF(t1) − intF(t0)` is the sum of the integrals of the pieces in between. -/
theorem C16_basis_integral_continuity (τ : ℕ → K) (hτ : Monotone τ) (ξ : K) (q N i : ℕ)
    (hm : ∀ j, τ j = ξ → τ (j+(q+1)) ≠ ξ) :
    intF .left τ q N i ξ = intF .right τ q N i ξ :=
  intF_left_eq_right τ hτ ξ q N i hm

/-- **The list `integrate(t0,t1)` returns adds up to `t1 − t0`** (any two points of the domain,
`q+1 ≤ μ < N` says that the spans lie in the domain of the extended basis): the weights `center`
uses add up to the parametric size.  The entry with extended index `0`, which the code drops, is
zero (`intF_zero_sub`). -/
theorem C16_basis_integrals_sum (s0 s1 : Side) (τ : ℕ → K) (hτ : Monotone τ) (μ0 μ1 q N : ℕ)
    (hq0 : q + 1 ≤ μ0) (hN0 : μ0 < N) (hq1 : q + 1 ≤ μ1) (hN1 : μ1 < N) (t0 t1 : K)
    (h0 : s0.mem (τ μ0) (τ (μ0+1)) t0) (h1 : s1.mem (τ μ1) (τ (μ1+1)) t1) :
    ∑ i ∈ Finset.Ico 1 N, (intF s1 τ q N i t1 - intF s0 τ q N i t0) = t1 - t0 :=
  sum_intF_sub s0 s1 τ hτ μ0 μ1 q N hq0 hN0 hq1 hN1 t0 t1 h0 h1

end integrals

/-- **`integrate` is the integral** (`K = ℝ`, Mathlib's interval integral), any sub-interval.
`τ` = extended knot vector, `a` in the span `μ0 ≥ q+1` of the domain (`τ μ0 ≤ a < τ (μ0+1)`),
`a < b ≤ τ (μ0+k+1)`, `μ0 + k < N`; NO condition on knot multiplicities
(`intF_left_eq_right_of_domain`: where a B-spline of the tail sum jumps, the factor
`τ (i+q+1) − τ i` vanishes or the jumps cancel).  Then `B_{i,q}` is integrable on `[a,b]` and

  `∫_a^b B_{i,q}(x) dx = intF(b⁻) − intF(a⁺)`,

the number `integrate(a,b)` returns for the extended index `i` (lower limit evaluated from the
right, upper limit from the left — at an interior knot both sides agree,
`C16_basis_integral_continuity`; at the domain end `evaluate` takes the left limit). -/
theorem C16_basis_integral_real (s : Side) (τ : ℕ → ℝ) (hτ : Monotone τ) (q N i μ0 : ℕ) (a : ℝ)
    (hq : q + 1 ≤ μ0) (ha : τ μ0 ≤ a) (ha' : a < τ (μ0+1)) (k : ℕ) (hN : μ0 + k < N) (b : ℝ)
    (hab : a < b) (hb : b ≤ τ (μ0+k+1)) :
    IntervalIntegrable (fun x => B s τ q i x) MeasureTheory.volume a b ∧
      ∫ x in a..b, B s τ q i x = intF .left τ q N i b - intF .right τ q N i a :=
  integral_B_eq_intF_multi s τ hτ q N i μ0 a hq ha ha' k hN b hab hb

section integrate_model

variable {K : Type} [Field K] [LinearOrder K] [IsStrictOrderedRing K] [FloorRing K]

/-- **The executable `Basis.integrate` computes `intF(t1) − intF(t0)`, non-periodic basis.**
Only `Basis.Valid b` is assumed (no hypothesis about evaluated rows: C01 is applied to the
integration basis `b.aug` = `BSplineBasis(p+1, [k0]+knots+[k_last])`, which is proved valid, and the
constructor call is proved to succeed).  `t0`, `t1` in the domain and exact for the tolerance
(knots or at least `tol` away from every knot; cf. `C01_evaluate_snap`).  Result: `num_functions`
numbers, number `c` being
`b.intEntry t0 t1 c = intF s1 τ' (p−1) (n+1) (c+1) t1 − intF s0 τ' (p−1) (n+1) (c+1) t0`
on the extended knots `τ' = b.aug.kn` (`s` = right, except left at the domain end). -/
theorem C16_integrate_spec_open {b : Basis K} (hv : b.Valid) (hper : b.periodic = -1)
    {tol t0 t1 : K} (htol : 0 < tol) (hex0 : b.ExactAt tol t0) (hex1 : b.ExactAt tol t1)
    (h0 : b.start ≤ t0) (h0' : t0 ≤ b.stop) (h1 : b.start ≤ t1) (h1' : t1 ≤ b.stop) :
    ∃ r, b.integrate tol t0 t1 = .ok r ∧ r.size = b.numFunctions ∧
      ∀ c, c < b.numFunctions → r.getD c 0 = b.intEntry t0 t1 c :=
  Basis.integrate_nonperiodic hv hper htol hex0 hex1 h0 h0' h1 h1'

/-- **… periodic basis**: number `c` is the sum of `intEntry i` over all wrapped images
`i ≡ c (mod num_functions)` ("periodic collapse = sum of images"). -/
theorem C16_integrate_spec_periodic {b : Basis K} (hv : b.Valid) (hper : 0 ≤ b.periodic)
    {tol t0 t1 : K} (htol : 0 < tol) (hex0 : b.ExactAt tol t0) (hex1 : b.ExactAt tol t1)
    (h0 : b.start ≤ t0) (h0' : t0 ≤ b.stop) (h1 : b.start ≤ t1) (h1' : t1 ≤ b.stop) :
    ∃ r, b.integrate tol t0 t1 = .ok r ∧ r.size = b.numFunctions ∧
      ∀ c, c < b.numFunctions → r.getD c 0
        = ∑ i ∈ (Finset.range b.nAll).filter (fun i => i % b.numFunctions = c),
            b.intEntry t0 t1 i :=
  Basis.integrate_periodic hv hper htol hex0 hex1 h0 h0' h1 h1'

end integrate_model

/-- **`integrate(t0,t1)[c] = ∫_{t0}^{t1} B_c`** (`K = ℝ`, Mathlib's interval integral; non-periodic
basis): for EVERY valid basis (no condition on knot multiplicities) and every sub-interval
`start ≤ t0 < t1 ≤ stop` with end points that are exact for the tolerance, the
executable model of `BSplineBasis.integrate` returns exactly the integrals of the basis functions
(`B s b.kn (p−1) c`, either side `s`). -/
theorem C16_integrate_is_integral {b : Basis ℝ} (hv : b.Valid) (hper : b.periodic = -1)
    (s : Side) {tol t0 t1 : ℝ} (htol : 0 < tol)
    (hex0 : b.ExactAt tol t0) (hex1 : b.ExactAt tol t1)
    (h0 : b.start ≤ t0) (hlt : t0 < t1) (h1 : t1 ≤ b.stop) :
    ∃ r, b.integrate tol t0 t1 = .ok r ∧ r.size = b.numFunctions ∧
      ∀ c, c < b.numFunctions → r.getD c 0 = ∫ x in t0..t1, B s b.kn (b.order - 1) c x := by
  obtain ⟨r, hr, hs, hg⟩ := Basis.integrate_nonperiodic hv hper htol hex0 hex1 h0
    (le_trans hlt.le h1) (le_trans h0 hlt.le) h1
  exact ⟨r, hr, hs, fun c hc => by
    rw [hg c hc, Basis.intEntry_eq_integral hv s c h0 hlt h1]⟩

/-- **… periodic basis**: entry `c` is the sum of the integrals of all images `i ≡ c`, i.e. the
integral of the periodic basis function number `c` (C01: its value is the sum of the images). -/
theorem C16_integrate_is_integral_periodic {b : Basis ℝ} (hv : b.Valid) (hper : 0 ≤ b.periodic)
    (s : Side) {tol t0 t1 : ℝ} (htol : 0 < tol)
    (hex0 : b.ExactAt tol t0) (hex1 : b.ExactAt tol t1)
    (h0 : b.start ≤ t0) (hlt : t0 < t1) (h1 : t1 ≤ b.stop) :
    ∃ r, b.integrate tol t0 t1 = .ok r ∧ r.size = b.numFunctions ∧
      ∀ c, c < b.numFunctions → r.getD c 0
        = ∑ i ∈ (Finset.range b.nAll).filter (fun i => i % b.numFunctions = c),
            ∫ x in t0..t1, B s b.kn (b.order - 1) i x := by
  obtain ⟨r, hr, hs, hg⟩ := Basis.integrate_periodic hv hper htol hex0 hex1 h0
    (le_trans hlt.le h1) (le_trans h0 hlt.le) h1
  refine ⟨r, hr, hs, fun c hc => ?_⟩
  rw [hg c hc]
  exact Finset.sum_congr rfl (fun i _ => Basis.intEntry_eq_integral hv s i h0 hlt h1)

/-- **The executable `Obj.center` of a non-rational curve** (valid non-periodic basis, control net
`n × nc`, `start`/`end` exact for the tolerance): component `k` is
`(Σ_j intEntry(start,end,j)·cps[j][k]) / (end − start)` — `(1/|Ω|)·Σ_j (∫B_j)·P_j`. -/
theorem C16_center_curve_spec {K : Type} [Field K] [LinearOrder K] [IsStrictOrderedRing K]
    [FloorRing K] (o : Obj K) (tol : K) (n nc : ℕ) (hsh : o.cps.shape = [n, nc])
    (hb : o.bases.size = 1) (hrat : o.rational = false) (hv : (o.basis 0).Valid)
    (hper : (o.basis 0).periodic = -1) (hn : n = (o.basis 0).numFunctions) (htol : 0 < tol)
    (hexs : (o.basis 0).ExactAt tol (o.basis 0).start)
    (hexe : (o.basis 0).ExactAt tol (o.basis 0).stop) :
    ∃ r, o.center tol = .ok r ∧ r.size = nc ∧ ∀ k, k < nc →
      r.getD k 0 = (∑ j ∈ Finset.range n,
          (o.basis 0).intEntry (o.basis 0).start (o.basis 0).stop j * o.cps.get (j * nc + k))
        / ((o.basis 0).stop - (o.basis 0).start) :=
  Obj.center_curve_intEntry o tol n nc hsh hb hrat hv hper hn htol hexs hexe

/-- **`center()` of a curve is the exact integral mean of the evaluated map** (`K = ℝ`): component
`k` of the model's result is `(1/|Ω|) ∫_Ω x_k(t) dt` with `x_k = Σ_j cps[j][k]·B_j` the spline the
curve evaluates (C02).  No quadrature is involved. -/
theorem C16_center_curve_is_integral_mean (o : Obj ℝ) (tol : ℝ) (n nc : ℕ)
    (hsh : o.cps.shape = [n, nc]) (hb : o.bases.size = 1) (hrat : o.rational = false)
    (hv : (o.basis 0).Valid) (hper : (o.basis 0).periodic = -1)
    (hn : n = (o.basis 0).numFunctions) (htol : 0 < tol)
    (hexs : (o.basis 0).ExactAt tol (o.basis 0).start)
    (hexe : (o.basis 0).ExactAt tol (o.basis 0).stop) (s : Side) :
    ∃ r, o.center tol = .ok r ∧ r.size = nc ∧ ∀ k, k < nc →
      r.getD k 0 = (∫ x in (o.basis 0).start..(o.basis 0).stop,
          splineVal s (o.basis 0).kn ((o.basis 0).order - 1) n (fun j => o.cps.get (j * nc + k)) x)
        / ((o.basis 0).stop - (o.basis 0).start) :=
  Obj.center_curve_integral_mean o tol n nc hsh hb hrat hv hper hn htol hexs hexe s

/-- **… periodic curve**: the integral mean of the periodic spline `Σ_{i<nAll} cps[i mod n]·B_i`
(the periodic basis function number `c` is the sum of its wrapped images, C01). -/
theorem C16_center_curve_is_integral_mean_periodic (o : Obj ℝ) (tol : ℝ) (n nc : ℕ)
    (hsh : o.cps.shape = [n, nc]) (hb : o.bases.size = 1) (hrat : o.rational = false)
    (hv : (o.basis 0).Valid) (hper : 0 ≤ (o.basis 0).periodic)
    (hn : n = (o.basis 0).numFunctions) (htol : 0 < tol)
    (hexs : (o.basis 0).ExactAt tol (o.basis 0).start)
    (hexe : (o.basis 0).ExactAt tol (o.basis 0).stop) (s : Side) :
    ∃ r, o.center tol = .ok r ∧ r.size = nc ∧ ∀ k, k < nc →
      r.getD k 0 = (∫ x in (o.basis 0).start..(o.basis 0).stop,
          splineVal s (o.basis 0).kn ((o.basis 0).order - 1) (o.basis 0).nAll
            (fun i => o.cps.get ((i % n) * nc + k)) x)
        / ((o.basis 0).stop - (o.basis 0).start) :=
  Obj.center_curve_integral_mean_periodic o tol n nc hsh hb hrat hv hper hn htol hexs hexe s

/-- **`center()` of a non-rational SURFACE is the exact integral mean** (`K = ℝ`, both directions
valid and non-periodic): component `k` is
`(1/|Ω|) ∫∫_Ω Σ_a Σ_j cps[a][j][k]·B_a(u)·B_j(v) dv du`. -/
theorem C16_center_surface_is_integral_mean (o : Obj ℝ) (tol : ℝ) (n1 n2 nc : ℕ)
    (hsh : o.cps.shape = [n1, n2, nc]) (hb : o.bases.size = 2) (hrat : o.rational = false)
    (hv0 : (o.basis 0).Valid) (hv1 : (o.basis 1).Valid)
    (hper0 : (o.basis 0).periodic = -1) (hper1 : (o.basis 1).periodic = -1)
    (hn1 : n1 = (o.basis 0).numFunctions) (hn2 : n2 = (o.basis 1).numFunctions)
    (htol : 0 < tol)
    (hexs0 : (o.basis 0).ExactAt tol (o.basis 0).start)
    (hexe0 : (o.basis 0).ExactAt tol (o.basis 0).stop)
    (hexs1 : (o.basis 1).ExactAt tol (o.basis 1).start)
    (hexe1 : (o.basis 1).ExactAt tol (o.basis 1).stop) (s : Side) :
    ∃ r, o.center tol = .ok r ∧ r.size = nc ∧ ∀ k, k < nc →
      r.getD k 0 = (∫ u in (o.basis 0).start..(o.basis 0).stop,
          ∫ v in (o.basis 1).start..(o.basis 1).stop,
            ∑ a ∈ Finset.range n1, ∑ j ∈ Finset.range n2,
              o.cps.get ((a * n2 + j) * nc + k) * B s (o.basis 0).kn ((o.basis 0).order - 1) a u
                * B s (o.basis 1).kn ((o.basis 1).order - 1) j v)
        / (((o.basis 0).stop - (o.basis 0).start) * ((o.basis 1).stop - (o.basis 1).start)) :=
  Obj.center_surface_integral_mean o tol n1 n2 nc hsh hb hrat hv0 hv1 hper0 hper1 hn1 hn2
    htol hexs0 hexe0 hexs1 hexe1 s

/-- **`center()` of a RATIONAL curve** (model level, any ordered field): with
`N = basis.integrate(start,end)` and `S_k = Σ_j N_j·cps[j][k]` on the homogeneous control net, the
result is the projective centre `(S_k/|Ω|)/(S_w/|Ω|)` — "integrate in projective coordinates, then
project", as the docstring of `SplineObject.center` says. -/
theorem C16_center_curve_rational {K : Type} [Field K] [LinearOrder K] [FloorRing K]
    (o : Obj K) (tol : K) (n nc : ℕ) (hsh : o.cps.shape = [n, nc]) (hnc : 1 ≤ nc)
    (hb : o.bases.size = 1) (hrat : o.rational = true) (N : Array K)
    (hN : (o.basis 0).integrate tol (o.basis 0).start (o.basis 0).stop = .ok N) :
    ∃ r, o.center tol = .ok r ∧ r.size = nc - 1 ∧ ∀ k, k < nc - 1 →
      r.getD k 0 = ((∑ j ∈ Finset.range n, N.getD j 0 * o.cps.get (j * nc + k))
          / ((o.basis 0).stop - (o.basis 0).start))
        / ((∑ j ∈ Finset.range n, N.getD j 0 * o.cps.get (j * nc + (nc - 1)))
          / ((o.basis 0).stop - (o.basis 0).start)) :=
  Obj.center_curve_rational o tol n nc hsh hnc hb hrat N hN

/-- **`center()` is invariant under knot insertion** (model level, `K = ℝ`, non-rational curve):
if `o' = o.insert_knot(xs)` (any list of values of `[start, end)`, `Obj.insertKnots`) then
`o'.center() = o.center()` — both are the integral mean of the same function (C04: `C04_object`,
`C04_curve`) over the same domain (any multiplicities of the inserted knots).  Side condition: `start`/`end` are
exact for the tolerance in both knot vectors (true when distinct knots are at least `tol` apart). -/
theorem C16_center_insert_knot_invariant (o : Obj ℝ) (tol : ℝ) (n nc : ℕ)
    (hsh : o.cps.shape = [n, nc]) (hb : o.bases.size = 1) (hrat : o.rational = false)
    (hv : (o.basis 0).Valid) (hper : (o.basis 0).periodic = -1)
    (hn : n = (o.basis 0).numFunctions) (htol : 0 < tol)
    (hexs : (o.basis 0).ExactAt tol (o.basis 0).start)
    (hexe : (o.basis 0).ExactAt tol (o.basis 0).stop)
    (xs : List ℝ) (hxs : ∀ x ∈ xs, (o.basis 0).start ≤ x ∧ x < (o.basis 0).stop)
    (o' : Obj ℝ) (ho' : o.insertKnots xs 0 = .ok o')
    (hexs' : (o'.basis 0).ExactAt tol (o'.basis 0).start)
    (hexe' : (o'.basis 0).ExactAt tol (o'.basis 0).stop) :
    o'.center tol = o.center tol :=
  Obj.center_insertKnots o tol n nc hsh hb hrat hv hper hn htol hexs hexe xs hxs o' ho'
    hexs' hexe'

section model_bridges

open Measure

variable {K : Type} [Field K] [LinearOrder K] [IsStrictOrderedRing K] [FloorRing K]

/-- **`Obj.lengthData` (executable `Curve.length` up to the square root) computes the squared speed
of the MAP at the mapped Gauss nodes.**  Non-rational curve, valid basis (open or periodic), nodes
admissible (in the domain, exact for the tolerance): the result is `(mapped weights, [‖x'(u)‖² : u ∈
nodes])` with `x'(u) = Obj.specD1 … u true 1 = Σ_j rowSpec_j(u)·P_j`, the specification's first
derivative of the evaluated map (property C03: `C03_nonrational_curve(_open/_periodic)` spell it out
as `splineDeriv`). -/
theorem C16_lengthData_spec {o : Obj K} {b1 : Basis K} (hb : o.bases = #[b1]) (hv1 : b1.Valid)
    {nc : ℕ} (hs : o.cps.shape = [b1.numFunctions, nc]) (hr : o.rational = false) {tol : K}
    (htol : 0 < tol) (x w : List K) (t0 t1 : Option K)
    (hne : (gaussMap (o.lengthSpans tol t0 t1).toList x w).1 ≠ [])
    (hadm : ∀ u ∈ (gaussMap (o.lengthSpans tol t0 t1).toList x w).1, b1.Admissible tol u)
    (hneA1 : b1.periodic < 0 → (gaussMap (o.lengthSpans tol t0 t1).toList x w).1 ≠ [] := by (first | assumption | (simp; done) | skip)) :
    o.lengthData tol x w t0 t1
      = .ok ((gaussMap (o.lengthSpans tol t0 t1).toList x w).2,
             (gaussMap (o.lengthSpans tol t0 t1).toList x w).1.map
               (fun u => sqNorm (o.specD1 b1 nc u true 1))) :=
  Obj.lengthData_spec hb hv1 hs hr htol x w t0 t1 hne hadm

/-- **`Obj.curvatureData` of a non-rational space curve** is, per parameter, `(‖v×a‖², ‖v‖²)` with
`v`, `a` the specification's first and second derivative vectors of the map (`Obj.specVec`, as
`Fin 3 → K`); `curvature = √(first)/(√second)³` wherever `v ≠ 0` (the quotient and the roots are
taken outside the model: no `x/0` convention enters). -/
theorem C16_curvatureData_spec {o : Obj K} {b1 : Basis K} (hb : o.bases = #[b1]) (hv1 : b1.Valid)
    (hs : o.cps.shape = [b1.numFunctions, 3]) (hr : o.rational = false) {tol : K}
    (htol : 0 < tol) {ts : List K} (hne : ts ≠ []) (hadm : ∀ u ∈ ts, b1.Admissible tol u)
    (a : Bool)
    (hneA1 : b1.periodic < 0 → ts ≠ [] := by (first | assumption | (simp; done) | skip)) :
    o.curvatureData tol ts a = .ok (ts.map (fun u =>
      (normSq (cross (o.specVec b1 u a 1) (o.specVec b1 u a 2)), normSq (o.specVec b1 u a 1)))) :=
  Obj.curvatureData_vec hb hv1 hs hr htol hne hadm a

/-- **… of a non-rational PLANAR curve** (dimension 2): `((v×a)_z², ‖v‖²)`. -/
theorem C16_curvatureData_spec_planar {o : Obj K} {b1 : Basis K} (hb : o.bases = #[b1])
    (hv1 : b1.Valid) (hs : o.cps.shape = [b1.numFunctions, 2]) (hr : o.rational = false) {tol : K}
    (htol : 0 < tol) {ts : List K} (hne : ts ≠ []) (hadm : ∀ u ∈ ts, b1.Admissible tol u)
    (a : Bool)
    (hneA1 : b1.periodic < 0 → ts ≠ [] := by (first | assumption | (simp; done) | skip)) :
    o.curvatureData tol ts a = .ok (ts.map (fun u =>
      (cross2 (o.specD1 b1 2 u a 1) (o.specD1 b1 2 u a 2)
         * cross2 (o.specD1 b1 2 u a 1) (o.specD1 b1 2 u a 2), sqNorm (o.specD1 b1 2 u a 1)))) :=
  Obj.curvatureData_spec2 hb hv1 hs hr htol hne hadm a

/-- **`Obj.torsionData` of a non-rational space curve**: per parameter `((v×a)·a', ‖v×a‖²)` with
the first three derivative vectors of the map; planar curves give `none` ("zeros",
`Obj.torsionData_planar`).  `torsion = first/second` wherever `v×a ≠ 0`. -/
theorem C16_torsionData_spec {o : Obj K} {b1 : Basis K} (hb : o.bases = #[b1]) (hv1 : b1.Valid)
    (hs : o.cps.shape = [b1.numFunctions, 3]) (hr : o.rational = false) {tol : K}
    (htol : 0 < tol) {ts : List K} (hne : ts ≠ []) (hadm : ∀ u ∈ ts, b1.Admissible tol u)
    (a : Bool)
    (hneA1 : b1.periodic < 0 → ts ≠ [] := by (first | assumption | (simp; done) | skip)) :
    o.torsionData tol ts a = .ok (some (ts.map (fun u =>
      (dot (cross (o.specVec b1 u a 1) (o.specVec b1 u a 2)) (o.specVec b1 u a 3),
       normSq (cross (o.specVec b1 u a 1) (o.specVec b1 u a 2)))))) :=
  Obj.torsionData_vec hb hv1 hs hr htol hne hadm a

/-- **Knot insertion leaves the executable curvature and torsion data unchanged** (non-rational
space curve on a valid non-periodic basis; `o' = o.insert_knot(xs)`, any values of `[start,end)`;
same parameters, admissible for both knot vectors): C04 (`C04_object`, `C04_curve`) says every
derivative of the map is unchanged, the bridges above say the data are functions of those
derivatives. -/
theorem C16_curvature_torsion_insert_knot_invariant {o o' : Obj K} {b1 : Basis K}
    (hb : o.bases = #[b1]) (hv1 : b1.Valid) (hper : b1.periodic = -1)
    (hs : o.cps.shape = [b1.numFunctions, 3]) (hr : o.rational = false) (xs : List K)
    (hxs : ∀ x ∈ xs, b1.start ≤ x ∧ x < b1.stop) (ho' : o.insertKnots xs 0 = .ok o') {tol : K}
    (htol : 0 < tol) {ts : List K} (hne : ts ≠ []) (hadm : ∀ u ∈ ts, b1.Admissible tol u)
    (hadm' : ∀ u ∈ ts, (o'.basis 0).Admissible tol u) (a : Bool)
    (hneA1 : b1.periodic < 0 → ts ≠ [] := by (first | assumption | (simp; done) | skip)) :
    o'.curvatureData tol ts a = o.curvatureData tol ts a ∧
    o'.torsionData tol ts a = o.torsionData tol ts a :=
  ⟨Obj.curvatureData_insertKnots hb hv1 hper hs hr xs hxs ho' htol hne hadm hadm' a,
   Obj.torsionData_insertKnots hb hv1 hper hs hr xs hxs ho' htol hne hadm hadm' a⟩

/-- … and the planar curvature data. -/
theorem C16_curvature_insert_knot_invariant_planar {o o' : Obj K} {b1 : Basis K}
    (hb : o.bases = #[b1]) (hv1 : b1.Valid) (hper : b1.periodic = -1)
    (hs : o.cps.shape = [b1.numFunctions, 2]) (hr : o.rational = false) (xs : List K)
    (hxs : ∀ x ∈ xs, b1.start ≤ x ∧ x < b1.stop) (ho' : o.insertKnots xs 0 = .ok o') {tol : K}
    (htol : 0 < tol) {ts : List K} (hne : ts ≠ []) (hadm : ∀ u ∈ ts, b1.Admissible tol u)
    (hadm' : ∀ u ∈ ts, (o'.basis 0).Admissible tol u) (a : Bool)
    (hneA1 : b1.periodic < 0 → ts ≠ [] := by (first | assumption | (simp; done) | skip)) :
    o'.curvatureData tol ts a = o.curvatureData tol ts a :=
  Obj.curvatureData_insertKnots_planar hb hv1 hper hs hr xs hxs ho' htol hne hadm hadm' a

/-- **Rotating the control net leaves the executable curvature and torsion data unchanged.**
`hnet` says that every control point of `o'` is the rotated control point of `o` (`p ↦ p R`,
Euler–Rodrigues parameters with `a²+b²+c²+d² = 1`) — what `SplineObject.rotate` does (property C09);
bases unchanged.  The data contain no division, so nothing is assumed about `v`, `v×a`.
`_partial`: the link `Obj.rotate ↦ hnet` is property C09's and is taken as hypothesis; translation
needs no theorem (derivative rows sum to zero, `C16_exact_invariances_translation`). -/
theorem C16_curvature_torsion_rotation_partial {o o' : Obj K} {b1 : Basis K}
    (hb : o.bases = #[b1]) (hb' : o'.bases = #[b1]) (hv1 : b1.Valid)
    (hs : o.cps.shape = [b1.numFunctions, 3]) (hs' : o'.cps.shape = [b1.numFunctions, 3])
    (hr : o.rational = false) (hr' : o'.rational = false) {qa qb qc qd : K}
    (hq : qa * qa + qb * qb + qc * qc + qd * qd = 1)
    (hnet : ∀ j, j < b1.numFunctions → ∀ k : Fin 3, o'.cps.get (j * 3 + k.val)
      = rotatePoint qa qb qc qd (fun k' => o.cps.get (j * 3 + k'.val)) k)
    {tol : K} (htol : 0 < tol) {ts : List K} (hne : ts ≠ []) (hadm : ∀ u ∈ ts, b1.Admissible tol u)
    (a : Bool)
    (hneA1 : b1.periodic < 0 → ts ≠ [] := by (first | assumption | (simp; done) | skip)) :
    o'.curvatureData tol ts a = o.curvatureData tol ts a ∧
    o'.torsionData tol ts a = o.torsionData tol ts a :=
  Obj.curvature_torsion_data_rotate hb hb' hv1 hs hs' hr hr' hq hnet htol hne hadm a

/-- **Uniformly scaling the control net by `t`**: `curvatureData ↦ (t⁴·‖v×a‖², t²·‖v‖²)`,
`torsionData ↦ (t³·(v×a)·a', t⁴·‖v×a‖²)`: curvature `× 1/|t|`, torsion `× 1/t` wherever the quotients
are defined.  `_partial` as above (`hnet` is what `SplineObject.scale` does). -/
theorem C16_curvature_torsion_scaling_partial {o o' : Obj K} {b1 : Basis K}
    (hb : o.bases = #[b1]) (hb' : o'.bases = #[b1]) (hv1 : b1.Valid)
    (hs : o.cps.shape = [b1.numFunctions, 3]) (hs' : o'.cps.shape = [b1.numFunctions, 3])
    (hr : o.rational = false) (hr' : o'.rational = false) (t : K)
    (hnet : ∀ j, j < b1.numFunctions → ∀ k : Fin 3,
      o'.cps.get (j * 3 + k.val) = t * o.cps.get (j * 3 + k.val))
    {tol : K} (htol : 0 < tol) {ts : List K} (hne : ts ≠ []) (hadm : ∀ u ∈ ts, b1.Admissible tol u)
    (a : Bool)
    (hneA1 : b1.periodic < 0 → ts ≠ [] := by (first | assumption | (simp; done) | skip)) :
    o'.curvatureData tol ts a = .ok (ts.map (fun u =>
      ((t ^ 2) ^ 2 * normSq (cross (o.specVec b1 u a 1) (o.specVec b1 u a 2)),
       t ^ 2 * normSq (o.specVec b1 u a 1)))) ∧
    o'.torsionData tol ts a = .ok (some (ts.map (fun u =>
      (t ^ 3 * dot (cross (o.specVec b1 u a 1) (o.specVec b1 u a 2)) (o.specVec b1 u a 3),
       (t ^ 2) ^ 2 * normSq (cross (o.specVec b1 u a 1) (o.specVec b1 u a 2)))))) :=
  Obj.curvature_torsion_data_scale hb hb' hv1 hs hs' hr hr' t hnet htol hne hadm a

/-- **`Obj.volume` (executable `Volume.volume`) is the composite rule applied to the absolute
Jacobian determinant of the MAP.**  Non-rational volume, valid bases, rules with as many weights as
nodes, admissible nodes: with `(u, W1)`, `(v, W2)`, `(w, W3)` the mapped nodes/weights of the three
directions,
`volume = Σ_i Σ_j Σ_k W1_i W2_j W3_k · |det[∂_u x; ∂_v x; ∂_w x](u_i, v_j, w_k)|` (`gaussSum3`,
`jac3`, `Obj.specD3` = the specification's partial derivatives, C03). -/
theorem C16_volume_spec {o : Obj K} {b1 b2 b3 : Basis K} (hb : o.bases = #[b1, b2, b3])
    (hv1 : b1.Valid) (hv2 : b2.Valid) (hv3 : b3.Valid)
    (hs : o.cps.shape = [b1.numFunctions, b2.numFunctions, b3.numFunctions, 3])
    (hr : o.rational = false) {tol : K} (htol : 0 < tol) (x1 wt1 x2 wt2 x3 wt3 : List K)
    (hl1 : x1.length = wt1.length) (hl2 : x2.length = wt2.length) (hl3 : x3.length = wt3.length)
    (hadm1 : ∀ u ∈ (gaussMap (b1.knotSpans tol false).toList x1 wt1).1, b1.Admissible tol u)
    (hadm2 : ∀ u ∈ (gaussMap (b2.knotSpans tol false).toList x2 wt2).1, b2.Admissible tol u)
    (hadm3 : ∀ u ∈ (gaussMap (b3.knotSpans tol false).toList x3 wt3).1, b3.Admissible tol u)
    (hneA1 : b1.periodic < 0 → (gaussMap (b1.knotSpans tol false).toList x1 wt1).1 ≠ [] := by (first | assumption | (simp; done) | skip))
    (hneA2 : b2.periodic < 0 → (gaussMap (b2.knotSpans tol false).toList x2 wt2).1 ≠ [] := by (first | assumption | (simp; done) | skip))
    (hneA3 : b3.periodic < 0 → (gaussMap (b3.knotSpans tol false).toList x3 wt3).1 ≠ [] := by (first | assumption | (simp; done) | skip)) :
    o.volume tol x1 wt1 x2 wt2 x3 wt3 = .ok
      (gaussSum3 (gaussMap (b1.knotSpans tol false).toList x1 wt1).2
        (gaussMap (b2.knotSpans tol false).toList x2 wt2).2
        (gaussMap (b3.knotSpans tol false).toList x3 wt3).2 (fun i j k =>
          |jac3
            (o.specD3 b1 b2 b3 3 ((gaussMap (b1.knotSpans tol false).toList x1 wt1).1.getD i 0)
              ((gaussMap (b2.knotSpans tol false).toList x2 wt2).1.getD j 0)
              ((gaussMap (b3.knotSpans tol false).toList x3 wt3).1.getD k 0) 1 0 0)
            (o.specD3 b1 b2 b3 3 ((gaussMap (b1.knotSpans tol false).toList x1 wt1).1.getD i 0)
              ((gaussMap (b2.knotSpans tol false).toList x2 wt2).1.getD j 0)
              ((gaussMap (b3.knotSpans tol false).toList x3 wt3).1.getD k 0) 0 1 0)
            (o.specD3 b1 b2 b3 3 ((gaussMap (b1.knotSpans tol false).toList x1 wt1).1.getD i 0)
              ((gaussMap (b2.knotSpans tol false).toList x2 wt2).1.getD j 0)
              ((gaussMap (b3.knotSpans tol false).toList x3 wt3).1.getD k 0) 0 0 1)|)) :=
  Obj.volume_spec hb hv1 hv2 hv3 hs hr htol x1 wt1 x2 wt2 x3 wt3 hl1 hl2 hl3 hadm1 hadm2 hadm3

/-- **`Volume.volume()` is EXACT for piecewise polynomial Jacobians** (model level).  Rules: any
lists `(x_d, w_d)` satisfying the moment equations up to degree `D_d` (`GaussRule`; `D = 2m−1` for
the `m`-point Gauss–Legendre rule, which is what `leggauss(order+1)` returns up to rounding — the
harness checks the moment equations of numpy's nodes to `1e-14`; existence of exact real nodes is
the hypothesis, proved for `m ≤ 3`).  If on every element `e1×e2×e3` (consecutive distinct knots)
the absolute Jacobian determinant of the map agrees at the element's nodes with
`Σ_c P_c'(u)R_c'(v)T_c'(w)`, `deg ≤ D_d`, then the executable `Obj.volume` returns
`Σ_elements Σ_c ΔP_c·ΔR_c·ΔT_c`, the integral of that polynomial over the parametric box, defined by
antiderivatives.
`_partial`: hypothesis `hF` is not discharged here.  It holds for every non-rational volume whose
Jacobian keeps one sign on each element and has degree `3p_d − 4 ≤ 2p_d + 1` (orders `≤ 5`): the
partial derivatives are polynomials there (`Lemmas/Deriv.lean`: `Bpoly`), `|J| = ±J` is a polynomial,
and every polynomial is such a sum; that last chain (from `Bpoly` to the family `P, R, T`) is not
formalised. -/
theorem C16_volume_exact_partial [CharZero K] {o : Obj K} {b1 b2 b3 : Basis K}
    (hb : o.bases = #[b1, b2, b3]) (hv1 : b1.Valid) (hv2 : b2.Valid) (hv3 : b3.Valid)
    (hs : o.cps.shape = [b1.numFunctions, b2.numFunctions, b3.numFunctions, 3])
    (hr : o.rational = false) {tol : K} (htol : 0 < tol) {x1 wt1 x2 wt2 x3 wt3 : List K}
    {D1 D2 D3 : ℕ} (hr1 : GaussRule x1 wt1 D1) (hr2 : GaussRule x2 wt2 D2)
    (hr3 : GaussRule x3 wt3 D3)
    (hadm1 : ∀ u ∈ (gaussMap (b1.knotSpans tol false).toList x1 wt1).1, b1.Admissible tol u)
    (hadm2 : ∀ u ∈ (gaussMap (b2.knotSpans tol false).toList x2 wt2).1, b2.Admissible tol u)
    (hadm3 : ∀ u ∈ (gaussMap (b3.knotSpans tol false).toList x3 wt3).1, b3.Admissible tol u)
    {ι : Type} (fam : K × K → K × K → K × K → Finset ι)
    (P R T : K × K → K × K → K × K → ι → Polynomial K)
    (hF : ∀ e1 ∈ elements (b1.knotSpans tol false).toList,
      ∀ e2 ∈ elements (b2.knotSpans tol false).toList,
      ∀ e3 ∈ elements (b3.knotSpans tol false).toList,
      (∀ c ∈ fam e1 e2 e3, (derivative (P e1 e2 e3 c)).natDegree ≤ D1 ∧
        (derivative (R e1 e2 e3 c)).natDegree ≤ D2 ∧ (derivative (T e1 e2 e3 c)).natDegree ≤ D3) ∧
      ∀ i j k, i < wt1.length → j < wt2.length → k < wt3.length →
        (fun u v w => |jac3 (o.specD3 b1 b2 b3 3 u v w 1 0 0) (o.specD3 b1 b2 b3 3 u v w 0 1 0)
            (o.specD3 b1 b2 b3 3 u v w 0 0 1)|)
          ((x1.getD i 0 + 1) / 2 * (e1.2 - e1.1) + e1.1) ((x2.getD j 0 + 1) / 2 * (e2.2 - e2.1) + e2.1)
          ((x3.getD k 0 + 1) / 2 * (e3.2 - e3.1) + e3.1)
          = ∑ c ∈ fam e1 e2 e3,
              (derivative (P e1 e2 e3 c)).eval ((x1.getD i 0 + 1) / 2 * (e1.2 - e1.1) + e1.1)
              * (derivative (R e1 e2 e3 c)).eval ((x2.getD j 0 + 1) / 2 * (e2.2 - e2.1) + e2.1)
              * (derivative (T e1 e2 e3 c)).eval ((x3.getD k 0 + 1) / 2 * (e3.2 - e3.1) + e3.1))
    (hneA1 : b1.periodic < 0 → (gaussMap (b1.knotSpans tol false).toList x1 wt1).1 ≠ [] := by (first | assumption | (simp; done) | skip))
    (hneA2 : b2.periodic < 0 → (gaussMap (b2.knotSpans tol false).toList x2 wt2).1 ≠ [] := by (first | assumption | (simp; done) | skip))
    (hneA3 : b3.periodic < 0 → (gaussMap (b3.knotSpans tol false).toList x3 wt3).1 ≠ [] := by (first | assumption | (simp; done) | skip)) :
    o.volume tol x1 wt1 x2 wt2 x3 wt3 = .ok
      (((elements (b1.knotSpans tol false).toList).map (fun e1 =>
        ((elements (b2.knotSpans tol false).toList).map (fun e2 =>
          ((elements (b3.knotSpans tol false).toList).map (fun e3 =>
            ∑ c ∈ fam e1 e2 e3,
              ((P e1 e2 e3 c).eval e1.2 - (P e1 e2 e3 c).eval e1.1)
              * ((R e1 e2 e3 c).eval e2.2 - (R e1 e2 e3 c).eval e2.1)
              * ((T e1 e2 e3 c).eval e3.2 - (T e1 e2 e3 c).eval e3.1))).sum)).sum)).sum) := by
  rw [Obj.volume_spec hb hv1 hv2 hv3 hs hr htol x1 wt1 x2 wt2 x3 wt3 hr1.1 hr2.1 hr3.1
    hadm1 hadm2 hadm3]
  congr 1
  exact gaussSum3_exact hr1 hr2 hr3 _ _ _
    (fun u v w => |jac3 (o.specD3 b1 b2 b3 3 u v w 1 0 0) (o.specD3 b1 b2 b3 3 u v w 0 1 0)
      (o.specD3 b1 b2 b3 3 u v w 0 0 1)|) fam P R T hF

/-- **`Volume.volume()` is EXACT for non-rational volumes** — hypothesis `hF` of
`C16_volume_exact_partial` DISCHARGED.  For a non-rational volume on valid non-periodic bases whose
distinct knots are more than `tol` apart (`Basis.SepStrict`: then every element of `knot_spans()` is
one knot span, `Basis.spanCover_of_sepStrict`), rules satisfying the Gauss moment equations up to
degree `D_d ≥ 3p_d − 4` (= the degree of the Jacobian determinant in direction `d`; for
`leggauss(p_d+1)`, `D_d = 2p_d+1`, i.e. orders `p_d ≤ 5`) with nodes in `(−1,1)`, nodes admissible
(exact for the tolerance), and a Jacobian determinant of CONSTANT SIGN on every open element
(`hsign` — exactly what the absolute value in the source needs; without it `|J|` is not a
polynomial and no rule is exact): the executable `Obj.volume` returns
`Σ_{e1,e2,e3} (±1)·boxIntegral`, where `Obj.boxIntegral` is the integral of the Jacobian
determinant's polynomial piece (`Obj.jacP/jacR/jacT`: products of `Bpoly` pieces, one differentiated
per row, times 3×3 determinants of control points — `Obj.jac3_eq_tensor`) over the element, defined
by antiderivatives, and `±1 = Obj.boxSign` its sign there. -/
theorem C16_volume_exact [CharZero K] {o : Obj K} {b1 b2 b3 : Basis K}
    (hb : o.bases = #[b1, b2, b3]) (hv1 : b1.Valid) (hv2 : b2.Valid) (hv3 : b3.Valid)
    (hp1 : b1.periodic = -1) (hp2 : b2.periodic = -1) (hp3 : b3.periodic = -1)
    (hs : o.cps.shape = [b1.numFunctions, b2.numFunctions, b3.numFunctions, 3])
    (hr : o.rational = false) {tol : K} (htol : 0 < tol)
    (hsep1 : b1.SepStrict tol) (hsep2 : b2.SepStrict tol) (hsep3 : b3.SepStrict tol)
    {x1 wt1 x2 wt2 x3 wt3 : List K} {D1 D2 D3 : ℕ} (hr1 : GaussRule x1 wt1 D1)
    (hr2 : GaussRule x2 wt2 D2) (hr3 : GaussRule x3 wt3 D3)
    (hD1 : (b1.order - 1 - 1) + (b1.order - 1) + (b1.order - 1) ≤ D1)
    (hD2 : (b2.order - 1) + (b2.order - 1 - 1) + (b2.order - 1) ≤ D2)
    (hD3 : (b3.order - 1) + (b3.order - 1) + (b3.order - 1 - 1) ≤ D3)
    (hx1 : ∀ i, i < wt1.length → -1 < x1.getD i 0 ∧ x1.getD i 0 < 1)
    (hx2 : ∀ i, i < wt2.length → -1 < x2.getD i 0 ∧ x2.getD i 0 < 1)
    (hx3 : ∀ i, i < wt3.length → -1 < x3.getD i 0 ∧ x3.getD i 0 < 1)
    (hadm1 : ∀ u ∈ (gaussMap (b1.knotSpans tol false).toList x1 wt1).1, b1.Admissible tol u)
    (hadm2 : ∀ u ∈ (gaussMap (b2.knotSpans tol false).toList x2 wt2).1, b2.Admissible tol u)
    (hadm3 : ∀ u ∈ (gaussMap (b3.knotSpans tol false).toList x3 wt3).1, b3.Admissible tol u)
    (hne1 : (gaussMap (b1.knotSpans tol false).toList x1 wt1).1 ≠ [])
    (hne2 : (gaussMap (b2.knotSpans tol false).toList x2 wt2).1 ≠ [])
    (hne3 : (gaussMap (b3.knotSpans tol false).toList x3 wt3).1 ≠ [])
    (hsign : ∀ e1 ∈ elements (b1.knotSpans tol false).toList,
      ∀ e2 ∈ elements (b2.knotSpans tol false).toList,
      ∀ e3 ∈ elements (b3.knotSpans tol false).toList,
      (∀ u v w, e1.1 < u → u < e1.2 → e2.1 < v → v < e2.2 → e3.1 < w → w < e3.2 →
        0 ≤ o.jacSpec b1 b2 b3 u v w) ∨
      (∀ u v w, e1.1 < u → u < e1.2 → e2.1 < v → v < e2.2 → e3.1 < w → w < e3.2 →
        o.jacSpec b1 b2 b3 u v w ≤ 0)) :
    o.volume tol x1 wt1 x2 wt2 x3 wt3 = .ok
      (((elements (b1.knotSpans tol false).toList).map (fun e1 =>
        ((elements (b2.knotSpans tol false).toList).map (fun e2 =>
          ((elements (b3.knotSpans tol false).toList).map (fun e3 =>
            o.boxSign b1 b2 b3 e1 e2 e3 *
              o.boxIntegral b1 b2 b3
                (b1.spanOf tol (b1.spanCover_of_sepStrict hv1 tol htol.le hsep1) e1)
                (b2.spanOf tol (b2.spanCover_of_sepStrict hv2 tol htol.le hsep2) e2)
                (b3.spanOf tol (b3.spanCover_of_sepStrict hv3 tol htol.le hsep3) e3)
                e1 e2 e3)).sum)).sum)).sum) :=
  Obj.volume_exact hb hv1 hv2 hv3 hp1 hp2 hp3 hs hr htol hr1 hr2 hr3 hD1 hD2 hD3 hx1 hx2 hx3
    (b1.spanCover_of_sepStrict hv1 tol htol.le hsep1) (b2.spanCover_of_sepStrict hv2 tol htol.le hsep2)
    (b3.spanCover_of_sepStrict hv3 tol htol.le hsep3) hadm1 hadm2 hadm3 hne1 hne2 hne3 hsign

/-- **`Surface.area()` of a planar non-rational surface** (model level): bridge and exactness in
one statement.  The finished number of `Obj.areaData` is `Σ_elements Σ_c ΔP_c·ΔR_c` whenever the
absolute Jacobian `|(∂_u x × ∂_v x)_z|` of the map agrees on every element, at its nodes, with
`Σ_c P_c'(u)R_c'(v)` of degrees `≤ D1, D2`.  `_partial` for the same reason as
`C16_volume_exact_partial` (`hF`: one sign per element, degree `2p_d − 3`). -/
theorem C16_area_planar_exact_partial [CharZero K] {o : Obj K} {b1 b2 : Basis K}
    (hb : o.bases = #[b1, b2]) (hv1 : b1.Valid) (hv2 : b2.Valid)
    (hs : o.cps.shape = [b1.numFunctions, b2.numFunctions, 2]) (hr : o.rational = false) {tol : K}
    (htol : 0 < tol) {x1 wt1 x2 wt2 : List K} {D1 D2 : ℕ} (hr1 : GaussRule x1 wt1 D1)
    (hr2 : GaussRule x2 wt2 D2)
    (hne1 : (gaussMap (b1.knotSpans tol false).toList x1 wt1).1 ≠ [])
    (hne2 : (gaussMap (b2.knotSpans tol false).toList x2 wt2).1 ≠ [])
    (hadm1 : ∀ u ∈ (gaussMap (b1.knotSpans tol false).toList x1 wt1).1, b1.Admissible tol u)
    (hadm2 : ∀ u ∈ (gaussMap (b2.knotSpans tol false).toList x2 wt2).1, b2.Admissible tol u)
    {ι : Type} (fam : K × K → K × K → Finset ι) (P R : K × K → K × K → ι → Polynomial K)
    (hF : ∀ e1 ∈ elements (b1.knotSpans tol false).toList,
      ∀ e2 ∈ elements (b2.knotSpans tol false).toList,
      (∀ c ∈ fam e1 e2, (derivative (P e1 e2 c)).natDegree ≤ D1 ∧
        (derivative (R e1 e2 c)).natDegree ≤ D2) ∧
      ∀ i j, i < wt1.length → j < wt2.length →
        (fun u v => |cross2 (o.specD2 b1 b2 2 u v 1 0) (o.specD2 b1 b2 2 u v 0 1)|)
          ((x1.getD i 0 + 1) / 2 * (e1.2 - e1.1) + e1.1) ((x2.getD j 0 + 1) / 2 * (e2.2 - e2.1) + e2.1)
          = ∑ c ∈ fam e1 e2,
              (derivative (P e1 e2 c)).eval ((x1.getD i 0 + 1) / 2 * (e1.2 - e1.1) + e1.1)
              * (derivative (R e1 e2 c)).eval ((x2.getD j 0 + 1) / 2 * (e2.2 - e2.1) + e2.1))
    (hneA1 : b1.periodic < 0 → (gaussMap (b1.knotSpans tol false).toList x1 wt1).1 ≠ [] := by (first | assumption | (simp; done) | skip))
    (hneA2 : b2.periodic < 0 → (gaussMap (b2.knotSpans tol false).toList x2 wt2).1 ≠ [] := by (first | assumption | (simp; done) | skip)) :
    ∃ W1 W2 J, o.areaData tol x1 wt1 x2 wt2 = .ok (W1, W2, J, some
      (((elements (b1.knotSpans tol false).toList).map (fun e1 =>
        ((elements (b2.knotSpans tol false).toList).map (fun e2 =>
          ∑ c ∈ fam e1 e2,
            ((P e1 e2 c).eval e1.2 - (P e1 e2 c).eval e1.1)
            * ((R e1 e2 c).eval e2.2 - (R e1 e2 c).eval e2.1))).sum)).sum)) := by
  have h := Obj.areaData_spec_planar hb hv1 hv2 hs hr htol x1 wt1 x2 wt2 hr1.1 hr2.1 hne1 hne2
    hadm1 hadm2
  simp only [] at h
  have hx := gaussSum2_exact hr1 hr2 (b1.knotSpans tol false).toList (b2.knotSpans tol false).toList
    (fun u v => |cross2 (o.specD2 b1 b2 2 u v 1 0) (o.specD2 b1 b2 2 u v 0 1)|) fam P R hF
  rw [hx] at h
  exact ⟨_, _, _, h⟩

/-- **`Volume.volume()` IS the volume integral** (`K = ℝ`, Mathlib's interval integrals): under the
hypotheses of `C16_volume_exact` the executable `Obj.volume` returns
`Σ_{e1,e2,e3} ∫_{e1} ∫_{e2} ∫_{e3} |det J(u,v,w)| dw dv du`, `J = Obj.jacSpec` the Jacobian
determinant of the evaluated MAP (specification partial derivatives, C03) — a quantity that depends
on the map and on the element partition only.  (`Obj.volume_eq_whole`: the element sum of the first
direction collapses to ONE integral `∫_{start}^{end}`.) -/
theorem C16_volume_is_integral {o : Obj ℝ} {b1 b2 b3 : Basis ℝ} (hb : o.bases = #[b1, b2, b3])
    (hv1 : b1.Valid) (hv2 : b2.Valid) (hv3 : b3.Valid) (hp1 : b1.periodic = -1)
    (hp2 : b2.periodic = -1) (hp3 : b3.periodic = -1)
    (hs : o.cps.shape = [b1.numFunctions, b2.numFunctions, b3.numFunctions, 3])
    (hr : o.rational = false) {tol : ℝ} (htol : 0 < tol)
    (hsep1 : b1.SepStrict tol) (hsep2 : b2.SepStrict tol) (hsep3 : b3.SepStrict tol)
    {x1 wt1 x2 wt2 x3 wt3 : List ℝ} {D1 D2 D3 : ℕ} (hr1 : GaussRule x1 wt1 D1)
    (hr2 : GaussRule x2 wt2 D2) (hr3 : GaussRule x3 wt3 D3)
    (hD1 : (b1.order - 1 - 1) + (b1.order - 1) + (b1.order - 1) ≤ D1)
    (hD2 : (b2.order - 1) + (b2.order - 1 - 1) + (b2.order - 1) ≤ D2)
    (hD3 : (b3.order - 1) + (b3.order - 1) + (b3.order - 1 - 1) ≤ D3)
    (hx1 : ∀ i, i < wt1.length → -1 < x1.getD i 0 ∧ x1.getD i 0 < 1)
    (hx2 : ∀ i, i < wt2.length → -1 < x2.getD i 0 ∧ x2.getD i 0 < 1)
    (hx3 : ∀ i, i < wt3.length → -1 < x3.getD i 0 ∧ x3.getD i 0 < 1)
    (hadm1 : ∀ u ∈ (gaussMap (b1.knotSpans tol false).toList x1 wt1).1, b1.Admissible tol u)
    (hadm2 : ∀ u ∈ (gaussMap (b2.knotSpans tol false).toList x2 wt2).1, b2.Admissible tol u)
    (hadm3 : ∀ u ∈ (gaussMap (b3.knotSpans tol false).toList x3 wt3).1, b3.Admissible tol u)
    (hne1 : (gaussMap (b1.knotSpans tol false).toList x1 wt1).1 ≠ [])
    (hne2 : (gaussMap (b2.knotSpans tol false).toList x2 wt2).1 ≠ [])
    (hne3 : (gaussMap (b3.knotSpans tol false).toList x3 wt3).1 ≠ [])
    (hsign : ∀ e1 ∈ elements (b1.knotSpans tol false).toList,
      ∀ e2 ∈ elements (b2.knotSpans tol false).toList,
      ∀ e3 ∈ elements (b3.knotSpans tol false).toList,
      (∀ u v w, e1.1 < u → u < e1.2 → e2.1 < v → v < e2.2 → e3.1 < w → w < e3.2 →
        0 ≤ o.jacSpec b1 b2 b3 u v w) ∨
      (∀ u v w, e1.1 < u → u < e1.2 → e2.1 < v → v < e2.2 → e3.1 < w → w < e3.2 →
        o.jacSpec b1 b2 b3 u v w ≤ 0)) :
    o.volume tol x1 wt1 x2 wt2 x3 wt3 = .ok
      (((elements (b1.knotSpans tol false).toList).map (fun e1 =>
        ((elements (b2.knotSpans tol false).toList).map (fun e2 =>
          ((elements (b3.knotSpans tol false).toList).map (fun e3 =>
            ∫ u in e1.1..e1.2, ∫ v in e2.1..e2.2, ∫ w in e3.1..e3.2,
              |o.jacSpec b1 b2 b3 u v w|)).sum)).sum)).sum) :=
  Obj.volume_eq_integral hb hv1 hv2 hv3 hp1 hp2 hp3 hs hr htol hsep1 hsep2 hsep3 hr1 hr2 hr3
    hD1 hD2 hD3 hx1 hx2 hx3 hadm1 hadm2 hadm3 hne1 hne2 hne3 hsign

/-- **Representation independence of `Volume.volume()` under knot insertion** — the clause the
property is named after, about the executable `Obj.volume` itself (`K = ℝ`):
if `o' = o.insert_knot(xs, direction=0)` (any values of `[start, end)`, `Obj.insertKnots`) then
`o'.volume() = o.volume()`, for non-rational volumes on valid non-periodic bases (first order `≥ 2`)
with strictly separated knots before and after, rules satisfying the Gauss moment equations up to
degree `3p_d − 4` with nodes in `(−1,1)`, admissible nodes, and a Jacobian determinant of constant
sign on every element of BOTH partitions (`hsign`, `hsign'`: the second follows from the first when
the refined elements subdivide the old ones; it is stated separately to avoid that list argument).
Proof: both volumes are `∫_{start}^{end} H(u) du` with `H` depending on the map only
(`Obj.volume_eq_whole`), the map is unchanged (C04: `Obj.volume_insert_specD3`), and the integral is
additive over the refined elements.
Not proved (no theorem, oracle only): insertion in directions 1 and 2 (the same argument with the
roles of the directions exchanged), `raise_order`, `swap`, `reverse`, split-and-sum; the planar
`Surface.area` (its `hF` is still a hypothesis: `C16_area_planar_exact_partial`); and nothing of this
kind can hold for `Curve.length` / 3-D `Surface.area` / rational objects, whose integrands are not
polynomial (`lengthData` is the speed at the nodes, `C16_lengthData_spec`; the square root is taken
outside and no rule is exact for it) — those clauses are quadrature-ERROR statements. -/
theorem C16_volume_insert_knot_invariant {o o' : Obj ℝ} {b1 b2 b3 : Basis ℝ}
    (hb : o.bases = #[b1, b2, b3]) (hv1 : b1.Valid) (hv2 : b2.Valid) (hv3 : b3.Valid)
    (hp1 : b1.periodic = -1) (hp2 : b2.periodic = -1) (hp3 : b3.periodic = -1)
    (ho1 : 2 ≤ b1.order)
    (hs : o.cps.shape = [b1.numFunctions, b2.numFunctions, b3.numFunctions, 3])
    (hr : o.rational = false) {tol : ℝ} (htol : 0 < tol)
    (hsep1 : b1.SepStrict tol) (hsep2 : b2.SepStrict tol) (hsep3 : b3.SepStrict tol)
    {x1 wt1 x2 wt2 x3 wt3 : List ℝ} {D1 D2 D3 : ℕ} (hr1 : GaussRule x1 wt1 D1)
    (hr2 : GaussRule x2 wt2 D2) (hr3 : GaussRule x3 wt3 D3)
    (hD1 : (b1.order - 1 - 1) + (b1.order - 1) + (b1.order - 1) ≤ D1)
    (hD2 : (b2.order - 1) + (b2.order - 1 - 1) + (b2.order - 1) ≤ D2)
    (hD3 : (b3.order - 1) + (b3.order - 1) + (b3.order - 1 - 1) ≤ D3)
    (hx1 : ∀ i, i < wt1.length → -1 < x1.getD i 0 ∧ x1.getD i 0 < 1)
    (hx2 : ∀ i, i < wt2.length → -1 < x2.getD i 0 ∧ x2.getD i 0 < 1)
    (hx3 : ∀ i, i < wt3.length → -1 < x3.getD i 0 ∧ x3.getD i 0 < 1)
    (hadm1 : ∀ u ∈ (gaussMap (b1.knotSpans tol false).toList x1 wt1).1, b1.Admissible tol u)
    (hadm2 : ∀ u ∈ (gaussMap (b2.knotSpans tol false).toList x2 wt2).1, b2.Admissible tol u)
    (hadm3 : ∀ u ∈ (gaussMap (b3.knotSpans tol false).toList x3 wt3).1, b3.Admissible tol u)
    (hne1 : (gaussMap (b1.knotSpans tol false).toList x1 wt1).1 ≠ [])
    (hne2 : (gaussMap (b2.knotSpans tol false).toList x2 wt2).1 ≠ [])
    (hne3 : (gaussMap (b3.knotSpans tol false).toList x3 wt3).1 ≠ [])
    (hsign : ∀ e1 ∈ elements (b1.knotSpans tol false).toList,
      ∀ e2 ∈ elements (b2.knotSpans tol false).toList,
      ∀ e3 ∈ elements (b3.knotSpans tol false).toList,
      (∀ u v w, e1.1 < u → u < e1.2 → e2.1 < v → v < e2.2 → e3.1 < w → w < e3.2 →
        0 ≤ o.jacSpec b1 b2 b3 u v w) ∨
      (∀ u v w, e1.1 < u → u < e1.2 → e2.1 < v → v < e2.2 → e3.1 < w → w < e3.2 →
        o.jacSpec b1 b2 b3 u v w ≤ 0))
    (xs : List ℝ) (hxs : ∀ x ∈ xs, b1.start ≤ x ∧ x < b1.stop) (ho' : o.insertKnots xs 0 = .ok o')
    (hsep1' : (o'.basis 0).SepStrict tol)
    (hadm1' : ∀ u ∈ (gaussMap ((o'.basis 0).knotSpans tol false).toList x1 wt1).1,
      (o'.basis 0).Admissible tol u)
    (hne1' : (gaussMap ((o'.basis 0).knotSpans tol false).toList x1 wt1).1 ≠ [])
    (hsign' : ∀ e1 ∈ elements ((o'.basis 0).knotSpans tol false).toList,
      ∀ e2 ∈ elements (b2.knotSpans tol false).toList,
      ∀ e3 ∈ elements (b3.knotSpans tol false).toList,
      (∀ u v w, e1.1 < u → u < e1.2 → e2.1 < v → v < e2.2 → e3.1 < w → w < e3.2 →
        0 ≤ o.jacSpec b1 b2 b3 u v w) ∨
      (∀ u v w, e1.1 < u → u < e1.2 → e2.1 < v → v < e2.2 → e3.1 < w → w < e3.2 →
        o.jacSpec b1 b2 b3 u v w ≤ 0)) :
    o'.volume tol x1 wt1 x2 wt2 x3 wt3 = o.volume tol x1 wt1 x2 wt2 x3 wt3 :=
  Obj.volume_insertKnots_dir0 hb hv1 hv2 hv3 hp1 hp2 hp3 ho1 hs hr htol hsep1 hsep2 hsep3 hr1 hr2
    hr3 hD1 hD2 hD3 hx1 hx2 hx3 hadm1 hadm2 hadm3 hne1 hne2 hne3 hsign xs hxs ho' hsep1' hadm1'
    hne1' hsign'

end model_bridges

/-- **The moment equations give exactness for EVERY number of nodes** (model-level, one
direction).  `GaussRule x w D`: the lists the model receives have equal length and satisfy
`Σ_i w_i x_i^k = ∫_{-1}^{1} t^k dt` for `k ≤ D` (`D = 2m−1` for `m` Gauss–Legendre nodes; existence
of such real nodes is the hypothesis — proved for `m ≤ 3`, checked numerically to `1e-14` for
numpy's nodes `m ≤ 8` by `harness/props/C16.py`).  Then the composite sum the model forms
(`gaussMap` + `gaussSum1`) of any `g` that agrees on every element, at its nodes, with a polynomial
`(Q e)'` of degree `≤ D` is `Σ_e (Q_e(b) − Q_e(a))`. -/
theorem C16_gauss_rule_exact_composite {K : Type} [Field K] [CharZero K] {x w : List K} {D : ℕ}
    (hr : GaussRule x w D) (spans : List K) (g : K → K) (Q : K × K → Polynomial K)
    (hQ : ∀ e ∈ elements spans, (derivative (Q e)).natDegree ≤ D ∧
      ∀ i, i < w.length → g ((x.getD i 0 + 1) / 2 * (e.2 - e.1) + e.1)
        = (derivative (Q e)).eval ((x.getD i 0 + 1) / 2 * (e.2 - e.1) + e.1)) :
    Measure.gaussSum1 (Measure.gaussMap spans x w).2
        (fun i => g ((Measure.gaussMap spans x w).1.getD i 0))
      = ((elements spans).map (fun e => (Q e).eval e.2 - (Q e).eval e.1)).sum :=
  gaussSum1_exact hr spans g Q hQ

section quadrature

variable {K : Type} [Field K] [CharZero K]

/-- **Composite quadrature is exact for piecewise polynomials.**  Hypothesis `RuleExact x w D`:
the rule `(x_i, w_i)_{i<m}` integrates the monomials `X^k`, `k ≤ D`, exactly over `[-1,1]`
(`Σ w_i x_i^k · (k+1) = 1 − (−1)^(k+1)`); for the `m`-point Gauss–Legendre rule `D = 2m−1`
(taken as hypothesis: the nodes are irrational; proved for `m = 1` (`ruleExact_midpoint`), `m = 2`
(`ruleExact_gauss2`, any field with a root of `1/3`) and `m = 3` (`ruleExact_gauss3`, root of `3/5`)).  Conclusion: the rule mapped to the spans
`[k_j, k_{j+1}]`, `j < n`, exactly as `Curve.length` / `Surface.area` / `Volume.volume` map it
(`t = (x+1)/2·(k_{j+1}−k_j)+k_j`, `w' = w/2·(k_{j+1}−k_j)`), applied to an integrand that is on span
`j` a polynomial `(Q j)'` of degree `≤ D`, returns `Σ_j (Q_j(k_{j+1}) − Q_j(k_j))` — the integral,
defined by antiderivatives. -/
theorem C16_quadrature_exact_polynomial {m : ℕ} {x w : Fin m → K} {D : ℕ} (h : RuleExact x w D)
    (n : ℕ) (k : ℕ → K) (Q : ℕ → K[X]) (hQ : ∀ j, j < n → (derivative (Q j)).natDegree ≤ D) :
    ∑ j ∈ Finset.range n, ∑ i, (w i / 2 * (k (j+1) - k j))
        * (derivative (Q j)).eval ((x i + 1) / 2 * (k (j+1) - k j) + k j)
      = ∑ j ∈ Finset.range n, ((Q j).eval (k (j+1)) - (Q j).eval (k j)) :=
  h.composite n k Q hQ

/-- Tensor-product rule on a rectangle `[a1,b1]×[a2,b2]` (one element of `Surface.area`): exact for
every finite sum of products `P_c'(u)·R_c'(v)` with `deg P_c' ≤ D1`, `deg R_c' ≤ D2` — every
bivariate polynomial of those degrees, e.g. the Jacobian `x_u y_v − x_v y_u` of a planar
non-rational surface of orders `(p1,p2)` (degrees `≤ 2p1−3 ≤ 2p1+1`, `2p2−3`), PROVIDED it keeps
one sign on the element (the code integrates `|J|`). -/
theorem C16_quadrature_exact_tensor2 {m1 m2 : ℕ} {x1 w1 : Fin m1 → K} {x2 w2 : Fin m2 → K}
    {D1 D2 : ℕ} (h1 : RuleExact x1 w1 D1) (h2 : RuleExact x2 w2 D2) (a1 b1 a2 b2 : K)
    {ι : Type} (s : Finset ι) (P R : ι → K[X])
    (hP : ∀ c ∈ s, (derivative (P c)).natDegree ≤ D1)
    (hR : ∀ c ∈ s, (derivative (R c)).natDegree ≤ D2) :
    ∑ i, ∑ j, (w1 i / 2 * (b1 - a1)) * (w2 j / 2 * (b2 - a2)) *
        ∑ c ∈ s, (derivative (P c)).eval ((x1 i + 1) / 2 * (b1 - a1) + a1)
                 * (derivative (R c)).eval ((x2 j + 1) / 2 * (b2 - a2) + a2)
      = ∑ c ∈ s, ((P c).eval b1 - (P c).eval a1) * ((R c).eval b2 - (R c).eval a2) :=
  h1.tensor2 h2 a1 b1 a2 b2 s P R hP hR

/-- Tensor-product rule on a box (one element of `Volume.volume`): exact for every trivariate
polynomial of degrees `≤ D1, D2, D3`; the Jacobian determinant of a non-rational volume of orders
`p_k` has degree `3p_k − 4` in direction `k`, which is `≤ 2p_k + 1` iff `p_k ≤ 5` ("moderate
order"), again PROVIDED it keeps one sign. -/
theorem C16_quadrature_exact_tensor3 {m1 m2 m3 : ℕ} {x1 w1 : Fin m1 → K} {x2 w2 : Fin m2 → K}
    {x3 w3 : Fin m3 → K} {D1 D2 D3 : ℕ} (h1 : RuleExact x1 w1 D1) (h2 : RuleExact x2 w2 D2)
    (h3 : RuleExact x3 w3 D3) (a1 b1 a2 b2 a3 b3 : K) {ι : Type} (s : Finset ι)
    (P R T : ι → K[X]) (hP : ∀ c ∈ s, (derivative (P c)).natDegree ≤ D1)
    (hR : ∀ c ∈ s, (derivative (R c)).natDegree ≤ D2)
    (hT : ∀ c ∈ s, (derivative (T c)).natDegree ≤ D3) :
    ∑ i, ∑ j, ∑ l, (w1 i / 2 * (b1 - a1)) * (w2 j / 2 * (b2 - a2)) * (w3 l / 2 * (b3 - a3)) *
        ∑ c ∈ s, (derivative (P c)).eval ((x1 i + 1) / 2 * (b1 - a1) + a1)
                 * (derivative (R c)).eval ((x2 j + 1) / 2 * (b2 - a2) + a2)
                 * (derivative (T c)).eval ((x3 l + 1) / 2 * (b3 - a3) + a3)
      = ∑ c ∈ s, ((P c).eval b1 - (P c).eval a1) * ((R c).eval b2 - (R c).eval a2)
                   * ((T c).eval b3 - (T c).eval a3) :=
  h1.tensor3 h2 h3 a1 b1 a2 b2 a3 b3 s P R T hP hR hT

/-- **The rule the code really uses in a direction of order 2** (`leggauss(3)`: nodes `0, ±√(3/5)`,
weights `8/9, 5/9`; `r` any square root of `3/5`) is exact on every element for all trivariate
polynomials of degree `≤ 5` per direction.  The Jacobian determinant of a non-rational tri-LINEAR
volume (all orders 2) has degree `3·2 − 4 = 2` per direction: `Volume.volume()` of such a volume is
exact element by element wherever the Jacobian keeps one sign.  (Same statement for the area of a
planar bilinear surface with `C16_quadrature_exact_tensor2`; `ruleExact_gauss2` is `leggauss(2)`.) -/
theorem C16_volume_rule_exact_order2 {r : K} (hr : r * r = 3 / 5) (a1 b1 a2 b2 a3 b3 : K)
    {ι : Type} (s : Finset ι) (P R T : ι → K[X])
    (hP : ∀ c ∈ s, (derivative (P c)).natDegree ≤ 5)
    (hR : ∀ c ∈ s, (derivative (R c)).natDegree ≤ 5)
    (hT : ∀ c ∈ s, (derivative (T c)).natDegree ≤ 5) :
    let x : Fin 3 → K := ![-r, 0, r]
    let w : Fin 3 → K := ![5/9, 8/9, 5/9]
    ∑ i, ∑ j, ∑ l, (w i / 2 * (b1 - a1)) * (w j / 2 * (b2 - a2)) * (w l / 2 * (b3 - a3)) *
        ∑ c ∈ s, (derivative (P c)).eval ((x i + 1) / 2 * (b1 - a1) + a1)
                 * (derivative (R c)).eval ((x j + 1) / 2 * (b2 - a2) + a2)
                 * (derivative (T c)).eval ((x l + 1) / 2 * (b3 - a3) + a3)
      = ∑ c ∈ s, ((P c).eval b1 - (P c).eval a1) * ((R c).eval b2 - (R c).eval a2)
                   * ((T c).eval b3 - (T c).eval a3) := by
  intro x w
  have h := ruleExact_gauss3 r hr
  exact h.tensor3 h h a1 b1 a2 b2 a3 b3 s P R T hP hR hT

end quadrature

section quadrature_basis

variable {K : Type} [Field K] [LinearOrder K] [IsStrictOrderedRing K]

/-- The two routes to a basis integral agree: a rule exact to degree `D ≥ q`, mapped to a knot
span `[a,b] ⊆ [τ μ, τ (μ+1)]`, applied to the piece of `B_{i,q}`, gives exactly the difference of
the function `integrate` evaluates.  (So e.g. centres computed by quadrature or by `integrate`
coincide, and quadrature of any spline is representation independent on polynomial integrands.) -/
theorem C16_quadrature_exact_basis {m : ℕ} {x w : Fin m → K} {D : ℕ} (h : RuleExact x w D)
    (τ : ℕ → K) (hτ : Monotone τ) (μ q i : ℕ) (hμ : τ μ < τ (μ+1)) (hD : q ≤ D) (a b : K) :
    ∑ j, (w j / 2 * (b - a)) * (Bpoly τ μ q i).eval ((x j + 1) / 2 * (b - a) + a)
      = (intFpoly τ μ q i).eval b - (intFpoly τ μ q i).eval a := by
  have hd := derivative_intFpoly τ hτ μ hμ q i
  have := h.span a b (intFpoly τ μ q i) (by rw [hd]; exact le_trans (natDegree_Bpoly_le τ μ q i) hD)
  rwa [hd] at this

end quadrature_basis

section invariances

variable {K : Type} [Field K]

/-- **Rigid motion, rotation part** (`a²+b²+c²+d² = 1`: the Euler–Rodrigues parameters of
`rotation_matrix`; `rotatePoint` is `p ↦ p R`, what `rotate` does to every control point).
At every quadrature node, with `β¹, β², β³` the basis-derivative weights of the three parametric
directions (`du = Σ β¹_i c_i`, …): the squared speed, the squared area element and the Jacobian
determinant of the rotated object equal those of the original — `length`, `area`, `volume` are
unchanged node by node, no quadrature error involved. -/
theorem C16_exact_invariances_rotation {a b c d : K} (h : a * a + b * b + c * c + d * d = 1)
    {ι : Type} (s : Finset ι) (β1 β2 β3 : ι → K) (cp : ι → Fin 3 → K) :
    let rc := fun i => rotatePoint a b c d (cp i)
    normSq (comb s β1 rc) = normSq (comb s β1 cp) ∧
    normSq (cross (comb s β1 rc) (comb s β2 rc)) = normSq (cross (comb s β1 cp) (comb s β2 cp)) ∧
    det3 (rows3 (comb s β1 rc) (comb s β2 rc) (comb s β3 rc))
      = det3 (rows3 (comb s β1 cp) (comb s β2 cp) (comb s β3 cp)) := by
  intro rc
  simp only [rc, comb_rotate]
  exact ⟨rotatePoint_normSq h _, rotatePoint_cross_normSq h _ _, det3_rows_rotate h _ _ _⟩

/-- **Rigid motion, translation part**: derivative rows of a basis sum to zero (`dB_sum_zero`,
`Lemmas/Basic.lean`), so translating the control points changes no derivative vector, hence no
speed / area element / Jacobian. -/
theorem C16_exact_invariances_translation {ι : Type} (s : Finset ι) (β : ι → K)
    (cp : ι → Fin 3 → K) (x : Fin 3 → K) (hβ : ∑ i ∈ s, β i = 0) :
    comb s β (fun i k => cp i k + x k) = comb s β cp :=
  comb_translate s β cp x hβ

/-- **Uniform scaling by `t`**: squared speed `× t²`, squared area element `× t⁴`, Jacobian
`× t³` at every node; see `C16_exact_invariances_scaling_abs` for the roots / absolute values. -/
theorem C16_exact_invariances_scaling (t : K) {ι : Type} (s : Finset ι) (β1 β2 β3 : ι → K)
    (cp : ι → Fin 3 → K) :
    let sc := fun i => smul3 t (cp i)
    normSq (comb s β1 sc) = t ^ 2 * normSq (comb s β1 cp) ∧
    normSq (cross (comb s β1 sc) (comb s β2 sc))
      = (t ^ 2) ^ 2 * normSq (cross (comb s β1 cp) (comb s β2 cp)) ∧
    det3 (rows3 (comb s β1 sc) (comb s β2 sc) (comb s β3 sc))
      = t ^ 3 * det3 (rows3 (comb s β1 cp) (comb s β2 cp) (comb s β3 cp)) := by
  intro sc
  simp only [sc, comb_smul3]
  exact ⟨normSq_smul3 _ _, normSq_cross_smul3 _ _ _, det3_rows_smul3 _ _ _ _⟩

/-- **Reversal and swap, integrand part**: reversing a direction negates one derivative vector,
swapping two directions exchanges two of them; squared speed, squared area element and `|J|` do not
notice. -/
theorem C16_exact_invariances_signs (u v w : Fin 3 → K) :
    normSq (fun i => - u i) = normSq u ∧
    normSq (cross (fun i => - u i) v) = normSq (cross u v) ∧
    normSq (cross v u) = normSq (cross u v) ∧
    det3 (rows3 (fun i => - u i) v w) = - det3 (rows3 u v w) ∧
    det3 (rows3 u (fun i => - v i) w) = - det3 (rows3 u v w) ∧
    det3 (rows3 u v (fun i => - w i)) = - det3 (rows3 u v w) ∧
    det3 (rows3 v u w) = - det3 (rows3 u v w) ∧
    det3 (rows3 w v u) = - det3 (rows3 u v w) ∧
    det3 (rows3 u w v) = - det3 (rows3 u v w) := by
  refine ⟨normSq_neg u, ?_, ?_, det3_rows_neg_first u v w, det3_rows_neg_second u v w,
    det3_rows_neg_third u v w, det3_rows_swap12 u v w, det3_rows_swap13 u v w,
    det3_rows_swap23 u v w⟩
  · rw [cross_neg_left, normSq_neg]
  · rw [cross_swap, normSq_neg]

end invariances

section invariances_ordered

variable {K : Type} [Field K] [LinearOrder K] [IsStrictOrderedRing K]

/-- Uniform scaling, with the root and the absolute value the code takes: if `σ ≥ 0` is the speed
(`σ² = ‖v‖²`) then `|t|·σ ≥ 0` is the speed of the scaled object; if `α ≥ 0` is the area element
then `t²·α` is the scaled one; `|J|` scales by `|t|³`.  Hence `length × |t|`, `area × t²`,
`volume × |t|³`, node by node. -/
theorem C16_exact_invariances_scaling_abs (t : K) (v u : Fin 3 → K) (J σ α : K)
    (hσ : σ * σ = normSq v) (hσ0 : 0 ≤ σ) (hα : α * α = normSq (cross v u)) (hα0 : 0 ≤ α) :
    ((|t| * σ) * (|t| * σ) = normSq (smul3 t v) ∧ 0 ≤ |t| * σ) ∧
    ((t ^ 2 * α) * (t ^ 2 * α) = normSq (cross (smul3 t v) (smul3 t u)) ∧ 0 ≤ t ^ 2 * α) ∧
    |t ^ 3 * J| = |t| ^ 3 * |J| := by
  refine ⟨⟨?_, mul_nonneg (abs_nonneg t) hσ0⟩, ⟨?_, mul_nonneg (sq_nonneg t) hα0⟩, ?_⟩
  · rw [normSq_smul3, ← hσ]
    have : |t| * |t| = t ^ 2 := by rw [abs_mul_abs_self]; ring
    linear_combination (σ * σ) * this
  · rw [normSq_cross_smul3, ← hα]
    ring
  · rw [abs_mul, abs_pow]

/-- **Reversal, node part**: a symmetric rule (`x (σ i) = − x i`, `w (σ i) = w i` for a permutation
`σ` of the node indices — true for Gauss–Legendre) has, on every span `[a,b]`, a node set that the
reflection `t ↦ a+b−t` maps onto itself with the same weights: for ANY function `g`
(speed, area element, `|J|` — no polynomial hypothesis) the rule gives the same value for `g` and
for `g` read backwards.  With `C16_exact_invariances_signs` (and `B_reflect`/`dB_reflect` of
`Lemmas/Basic.lean` for the reversed basis): `length`, `area`, `volume` are unchanged by `reverse`
and `swap` exactly. -/
theorem C16_exact_invariances_reversal {m : ℕ} (x w : Fin m → K) (σ : Equiv.Perm (Fin m))
    (hx : ∀ i, x (σ i) = - x i) (hw : ∀ i, w (σ i) = w i) (a b : K) (g : K → K) :
    ∑ i, (w i / 2 * (b - a)) * g ((x i + 1) / 2 * (b - a) + a)
      = ∑ i, (w i / 2 * (b - a)) * g (a + b - ((x i + 1) / 2 * (b - a) + a)) :=
  rule_reflect x w σ hx hw a b g

end invariances_ordered

section frenet

variable {K : Type} [Field K]

/-- **Frenet frame.**  `v` velocity, `a` acceleration, `s = |v|`, `m = |v × a|` given by their
defining equations (square-root witnesses; `m ≠ 0` says `v × a ≠ 0`).  With `T = v/s`,
`B = (v × a)/m`, `N = B × T` (as `Curve.tangent/binormal/normal` compute them):
`T, N, B` are orthonormal and right-handed (`T × N = B`). -/
theorem C16_frenet {v a : Fin 3 → K} {s m : K} (hs : s * s = normSq v) (hs0 : s ≠ 0)
    (hm : m * m = normSq (cross v a)) (hm0 : m ≠ 0) :
    dot (frenetT v s) (frenetT v s) = 1 ∧ dot (frenetN v a s m) (frenetN v a s m) = 1 ∧
    dot (frenetB v a m) (frenetB v a m) = 1 ∧
    dot (frenetT v s) (frenetN v a s m) = 0 ∧ dot (frenetT v s) (frenetB v a m) = 0 ∧
    dot (frenetN v a s m) (frenetB v a m) = 0 ∧
    cross (frenetT v s) (frenetN v a s m) = frenetB v a m :=
  ⟨frenet_TT hs hs0, frenet_NN hs hs0 hm hm0, frenet_BB hm hm0, frenet_TN, frenet_TB, frenet_NB,
   frenet_T_cross_N hs hs0⟩

/-- **Curvature and torsion are invariant under rigid motion** (free vectors): `κ² = ‖v×a‖²/‖v‖⁶`
and `τ = (v×a)·a'/‖v×a‖²` of the rotated derivative vectors equal those of the original, at a
REGULAR point with non-vanishing `v × a` (hypotheses `hv`, `hw`: where they fail Python returns `nan`
and Lean's `x/0 = 0` would make the statement vacuous — the division-free model-level statements are
`C16_curvature_torsion_rotation_partial` / `C16_curvature_torsion_insert_knot_invariant`). -/
theorem C16_curvature_torsion_rigid {a b c d : K} (h : a * a + b * b + c * c + d * d = 1)
    (v acc jerk : Fin 3 → K) (_hv : normSq v ≠ 0) (_hw : normSq (cross v acc) ≠ 0) :
    curvatureSq (rotatePoint a b c d v) (rotatePoint a b c d acc) = curvatureSq v acc ∧
    torsion (rotatePoint a b c d v) (rotatePoint a b c d acc) (rotatePoint a b c d jerk)
      = torsion v acc jerk :=
  ⟨curvatureSq_rotate h v acc, torsion_rotate h v acc jerk⟩

/-- Uniform scaling by `t ≠ 0` at a regular point with `v × a ≠ 0`: `κ² ↦ κ²/t²` (curvature
`× 1/|t|`), `τ ↦ τ/t`. -/
theorem C16_curvature_torsion_scaling {t : K} (ht : t ≠ 0) (v acc jerk : Fin 3 → K)
    (_hv : normSq v ≠ 0) (_hw : normSq (cross v acc) ≠ 0) :
    curvatureSq (smul3 t v) (smul3 t acc) = curvatureSq v acc / t ^ 2 ∧
    torsion (smul3 t v) (smul3 t acc) (smul3 t jerk) = torsion v acc jerk / t :=
  ⟨curvatureSq_smul3 ht v acc, torsion_smul3 ht v acc jerk⟩

/-- **Scalar vs array input of `Curve.torsion`.**  The array branch of the source forms
`(v×a)·a'`, the scalar branch of the pinned source forms `dot(w, a)` with `w = v×a` and `a` the
ACCELERATION — which is identically zero.  So on the pinned tree `torsion(t)` returns `0/‖v×a‖²`
for every curve, and "scalar call = array call" fails wherever the torsion is not zero
(finding `torsion-scalar-branch-uses-acceleration`).  The executable model
(`Obj.torsionData`) uses one formula, `(v×a)·a'`, for both input forms. -/
theorem C16_torsion_scalar_numerator_zero (v a : Fin 3 → K) : dot (cross v a) a = 0 :=
  dot_cross_self_right v a

end frenet

section center

variable {K : Type} [Field K]

/-- **`center` commutes with affine maps (non-rational objects).**  `center = Σ_i ω_i c_i / |Ω|`
over the multi-indices `i` of the control net (`ω_i` = product of the basis integrals of the
directions).  If the weights add up to the parametric size — `C16_basis_integrals_sum` per
direction, `sum_product_weights` for tensor products — then for every matrix `A` and vector `x`
(row convention of the code: `c ↦ c A + x`; rotations, mirrors, scalings, translations)
`center(c A + x) = center(c) A + x`. -/
theorem C16_center_equivariance {ι : Type} {d : ℕ} (s : Finset ι) (ω : ι → K) (size : K)
    (hsum : ∑ i ∈ s, ω i = size) (hsize : size ≠ 0) (c : ι → Fin d → K)
    (A : Fin d → Fin d → K) (x : Fin d → K) :
    centerOf s ω size (fun i k => vecMulD (c i) A k + x k)
      = fun k => vecMulD (centerOf s ω size c) A k + x k :=
  centerOf_affine s ω size hsum hsize c A x

/-- **… and for rational objects** (projective centre `Σ ω_i X_i / Σ ω_i w_i` of the homogeneous
control points `(X_i, w_i)`; the maps act as `(X, w) ↦ (X A + w x, w)`): equivariant whenever the
denominator does not vanish; no property of the `ω_i` is needed. -/
theorem C16_center_equivariance_rational {ι : Type} {d : ℕ} (s : Finset ι) (ω : ι → K) (size : K)
    (hsize : size ≠ 0) (c : ι → Fin d → K) (wt : ι → K) (hW : ∑ i ∈ s, ω i * wt i ≠ 0)
    (A : Fin d → Fin d → K) (x : Fin d → K) :
    centerRat s ω size (fun i k => vecMulD (c i) A k + wt i * x k) wt
      = fun k => vecMulD (centerRat s ω size c wt) A k + x k :=
  centerRat_affine s ω size hsize c wt hW A x

/-- **`center` is the integral mean of the map itself**: on every non-empty span the polynomial
`Σ_i c_i·intFpoly_i`, whose end-point difference `center` forms, is an antiderivative of the
polynomial piece `Σ_i c_i·Bpoly_i` of the spline.  The centre therefore depends only on the spline
FUNCTION: every operation that keeps the function (knot insertion — `boehm_splineVal`; order
elevation; reversal/swap up to the substitution) keeps the centre, and since the integrand is a
polynomial no quadrature error is involved at all. -/
theorem C16_center_integral_mean [LinearOrder K] [IsStrictOrderedRing K] (τ : ℕ → K)
    (hτ : Monotone τ) (μ : ℕ) (hμ : τ μ < τ (μ+1)) (q : ℕ) (s : Finset ℕ) (c : ℕ → K) :
    derivative (∑ i ∈ s, C (c i) * intFpoly τ μ q i) = ∑ i ∈ s, C (c i) * Bpoly τ μ q i :=
  derivative_sum_intFpoly τ hτ μ hμ q s c

end center

/-! ## Non-vacuity: the hypotheses are satisfiable -/

/-- A strictly increasing knot sequence over `ℚ`. -/
example : Monotone (fun n : ℕ => (n : ℚ)) := fun _ _ h => Nat.cast_le.mpr h

/-- `C16_basis_integral_identity` on uniform knots, span 3, cubic pieces. -/
example : derivative (intFpoly (fun n : ℕ => (n : ℚ)) 3 2 1) = Bpoly (fun n : ℕ => (n : ℚ)) 3 2 1 :=
  (C16_basis_integral_identity (fun n : ℕ => (n : ℚ)) (fun _ _ h => Nat.cast_le.mpr h) 3 2 7 1
    (by norm_num) (by norm_num)).1

/-- `C16_basis_integrals_sum` on uniform knots: points `7/2` (span 3) and `5` (span 4, from the
left). -/
example : ∑ i ∈ Finset.Ico 1 7,
      (intF .left (fun n : ℕ => (n : ℚ)) 2 7 i 5 - intF .right (fun n : ℕ => (n : ℚ)) 2 7 i (7/2))
    = 5 - 7/2 :=
  C16_basis_integrals_sum .right .left (fun n : ℕ => (n : ℚ)) (fun _ _ h => Nat.cast_le.mpr h)
    3 4 2 7 (by norm_num) (by norm_num) (by norm_num) (by norm_num) (7/2) 5
    (by constructor <;> norm_num) (by constructor <;> norm_num)

/-- `C16_basis_integral_real` on uniform real knots: `∫_{7/2}^{11/2} B_{1,2}` over three spans. -/
example : ∫ x in (7/2 : ℝ)..(11/2), B .right (fun n : ℕ => (n : ℝ)) 2 1 x
    = intF .left (fun n : ℕ => (n : ℝ)) 2 9 1 (11/2) - intF .right (fun n : ℕ => (n : ℝ)) 2 9 1 (7/2) :=
  (C16_basis_integral_real .right (fun n : ℕ => (n : ℝ)) (fun _ _ h => Nat.cast_le.mpr h) 2 9 1 3
    (7/2) (by norm_num) (by norm_num) (by norm_num) 2 (by norm_num) (11/2) (by norm_num)
    (by norm_num)).2

/-- `C16_integrate_spec_open` on the open quadratic basis of C01 (double interior knot), interval
`[1/2, 3]` reaching the domain end. -/
example : ∃ r, C01_exOpen.integrate (1/1000) (1/2) 3 = .ok r ∧ r.size = C01_exOpen.numFunctions ∧
    ∀ c, c < C01_exOpen.numFunctions → r.getD c 0 = C01_exOpen.intEntry (1/2) 3 c :=
  C16_integrate_spec_open C01_exOpen_valid rfl (by norm_num) C01_exOpen_exact_half
    C01_exOpen_exact_stop (by rw [C01_exOpen_start]; norm_num) (by rw [C01_exOpen_stop]; norm_num)
    (by rw [C01_exOpen_start]; norm_num) (by rw [C01_exOpen_stop])

/-- `C16_integrate_spec_periodic` on the periodic quadratic basis of C01, interval `[0, 1/2]`. -/
example : ∃ r, C01_exPer.integrate (1/1000) 0 (1/2) = .ok r ∧ r.size = C01_exPer.numFunctions ∧
    ∀ c, c < C01_exPer.numFunctions → r.getD c 0
      = ∑ i ∈ (Finset.range C01_exPer.nAll).filter (fun i => i % C01_exPer.numFunctions = c),
          C01_exPer.intEntry 0 (1/2) i :=
  C16_integrate_spec_periodic C01_exPer_valid (by decide) (by norm_num) C01_exPer_exact_zero
    C01_exPer_exact_half (by rw [C01_exPer_start]) (by rw [C01_exPer_stop]; norm_num)
    (by rw [C01_exPer_start]; norm_num) (by rw [C01_exPer_stop]; norm_num)

/-- A real basis meeting the hypotheses of `C16_integrate_is_integral`: the linear Bernstein basis. -/
noncomputable def C16_exReal : Basis ℝ := ⟨2, #[0, 0, 1, 1], -1⟩

theorem C16_exReal_kn (i : ℕ) : C16_exReal.kn i = if i < 2 then 0 else 1 := by
  rcases Nat.lt_or_ge i 4 with h | h
  · interval_cases i <;> norm_num [Basis.kn, C16_exReal]
  · rw [C16_exReal.kn_of_ge (by simpa [C16_exReal] using h), if_neg (by omega)]
    norm_num [Basis.kn, C16_exReal]

theorem C16_exReal_valid : C16_exReal.Valid where
  order_pos := by decide
  size_ge := by decide
  sorted := by
    intro i _
    rw [C16_exReal_kn, C16_exReal_kn]
    split_ifs <;> first | omega | norm_num
  periodic_ge := by decide
  periodic_le := Or.inr rfl
  start_lt_stop := by
    unfold Basis.start Basis.stop
    rw [C16_exReal_kn, C16_exReal_kn]
    norm_num [C16_exReal]
  ghosts := fun h => absurd h (by decide)

/-- `C16_integrate_is_integral` on `[0,1]`: the model returns `∫_0^1 B_c` for both functions. -/
example : ∃ r, C16_exReal.integrate (1/1000) 0 1 = .ok r ∧ r.size = C16_exReal.numFunctions ∧
    ∀ c, c < C16_exReal.numFunctions →
      r.getD c 0 = ∫ x in (0:ℝ)..1, B .right C16_exReal.kn (C16_exReal.order - 1) c x := by
  have hex : ∀ t : ℝ, (t = 0 ∨ t = 1) → C16_exReal.ExactAt (1/1000) t := by
    intro t ht i _
    rw [C16_exReal_kn]
    rcases ht with rfl | rfl <;> split_ifs <;> norm_num
  have hs : C16_exReal.start = 0 := by unfold Basis.start; rw [C16_exReal_kn]; norm_num [C16_exReal]
  have he : C16_exReal.stop = 1 := by unfold Basis.stop; rw [C16_exReal_kn]; norm_num [C16_exReal]
  exact C16_integrate_is_integral C16_exReal_valid rfl .right (by norm_num)
    (hex 0 (Or.inl rfl)) (hex 1 (Or.inr rfl)) (by rw [hs]) (by norm_num) (by rw [he])

/-- The straight segment from `(0,0)` to `(1,2)` as a curve over `C16_exReal`. -/
noncomputable def C16_exCurve : Obj ℝ :=
  { bases := #[C16_exReal], cps := { shape := [2, 2], data := #[0, 0, 1, 2] }, rational := false }

/-- `C16_center_curve_is_integral_mean` applies to it: the model's centre is the integral mean. -/
example : ∃ r, C16_exCurve.center (1/1000) = .ok r ∧ r.size = 2 ∧ ∀ k, k < 2 →
    r.getD k 0 = (∫ x in C16_exReal.start..C16_exReal.stop,
        splineVal .right C16_exReal.kn (C16_exReal.order - 1) 2
          (fun j => C16_exCurve.cps.get (j * 2 + k)) x) / (C16_exReal.stop - C16_exReal.start) := by
  have hex : ∀ t : ℝ, (t = 0 ∨ t = 1) → C16_exReal.ExactAt (1/1000) t := by
    intro t ht i _
    rw [C16_exReal_kn]
    rcases ht with rfl | rfl <;> split_ifs <;> norm_num
  have hs : C16_exReal.start = 0 := by unfold Basis.start; rw [C16_exReal_kn]; norm_num [C16_exReal]
  have he : C16_exReal.stop = 1 := by unfold Basis.stop; rw [C16_exReal_kn]; norm_num [C16_exReal]
  have hb0 : C16_exCurve.basis 0 = C16_exReal := rfl
  have := C16_center_curve_is_integral_mean C16_exCurve (1/1000) 2 2 rfl rfl rfl
    (by rw [hb0]; exact C16_exReal_valid) (by rw [hb0]; rfl) (by rw [hb0]; rfl)
    (by norm_num)
    (by rw [hb0, hs]; exact hex 0 (Or.inl rfl)) (by rw [hb0, he]; exact hex 1 (Or.inr rfl)) .right
  rwa [hb0] at this

/-- `GaussRule` is satisfiable: the midpoint rule as the lists the model receives. -/
example : GaussRule (K := ℚ) [0] [2] 1 := by
  refine ⟨rfl, ?_⟩
  intro k hk
  interval_cases k <;> norm_num

/-- Rules satisfying `RuleExact`: midpoint = 1-point Gauss–Legendre (`D = 1`), Simpson (`D = 3`);
`ruleExact_gauss2` gives the 2-point Gauss–Legendre rule in any field with a root of `1/3`. -/
example : RuleExact (K := ℚ) (fun _ : Fin 1 => 0) (fun _ => 2) 1 := ruleExact_midpoint
example : RuleExact (K := ℚ) ![-1, 0, 1] ![1/3, 4/3, 1/3] 3 := ruleExact_simpson

/-- The symmetric-rule hypothesis of `C16_exact_invariances_reversal` for Simpson's nodes. -/
example : ∃ σ : Equiv.Perm (Fin 3),
    (∀ i, (![-1, 0, 1] : Fin 3 → ℚ) (σ i) = - (![-1, 0, 1] : Fin 3 → ℚ) i) ∧
    (∀ i, (![1/3, 4/3, 1/3] : Fin 3 → ℚ) (σ i) = (![1/3, 4/3, 1/3] : Fin 3 → ℚ) i) := by
  refine ⟨Fin.revPerm, ?_, ?_⟩ <;> intro i <;> fin_cases i <;> simp [Fin.revPerm, Fin.rev]

/-- Rotation parameters over `ℚ` (a rotation by `2·atan(4/3)` about the x-axis). -/
example : (3/5 : ℚ) * (3/5) + (4/5) * (4/5) + 0 * 0 + 0 * 0 = 1 := by norm_num

/-- Frenet hypotheses over `ℚ`: `v = (3,4,0)`, `a = (0,0,1)`, `|v| = 5`, `v × a = (4,−3,0)`,
`|v × a| = 5`. -/
example : dot (frenetT (![3, 4, 0] : Fin 3 → ℚ) 5) (frenetN ![3, 4, 0] ![0, 0, 1] 5 5) = 0 ∧
    cross (frenetT (![3, 4, 0] : Fin 3 → ℚ) 5) (frenetN ![3, 4, 0] ![0, 0, 1] 5 5)
      = frenetB ![3, 4, 0] ![0, 0, 1] 5 := by
  have h := C16_frenet (K := ℚ) (v := ![3, 4, 0]) (a := ![0, 0, 1]) (s := 5) (m := 5)
    (by simp [normSq, dot]; norm_num) (by norm_num)
    (by simp [normSq, dot, cross]; norm_num) (by norm_num)
  exact ⟨h.2.2.2.1, h.2.2.2.2.2.2⟩

/-! ## Non-vacuity of `C16_volume_exact`: all hypotheses hold for a concrete volume over `ℚ` -/

section volume_example
open Measure

/-- The linear Bernstein basis on `[0,1]` over `ℚ`. -/
def C16_exB : Basis ℚ := ⟨2, #[0, 0, 1, 1], -1⟩

theorem C16_exB_kn (i : ℕ) : C16_exB.kn i = if i < 2 then 0 else 1 := by
  rcases Nat.lt_or_ge i 4 with h | h
  · interval_cases i <;> norm_num [Basis.kn, C16_exB]
  · rw [C16_exB.kn_of_ge (by simpa [C16_exB] using h), if_neg (by omega)]
    norm_num [Basis.kn, C16_exB]

theorem C16_exB_valid : C16_exB.Valid where
  order_pos := by decide
  size_ge := by decide
  sorted := by
    intro i _
    rw [C16_exB_kn, C16_exB_kn]
    split_ifs <;> first | omega | norm_num
  periodic_ge := by decide
  periodic_le := Or.inr rfl
  start_lt_stop := by
    unfold Basis.start Basis.stop
    rw [C16_exB_kn, C16_exB_kn]
    norm_num [C16_exB]
  ghosts := fun h => absurd h (by decide)

theorem C16_exB_sep : C16_exB.SepStrict (1/1000) := by
  intro i j
  rw [C16_exB_kn, C16_exB_kn]
  split_ifs <;> norm_num

theorem C16_exB_spans : C16_exB.knotSpans (1/1000) false = #[0, 1] := by
  simp [Basis.knotSpans, C16_exB, Basis.kn]
  norm_num [abs_of_nonneg, abs_of_neg]

/-- A rational 3-point rule with nodes in `(−1,1)` satisfying the moment equations up to degree 3. -/
theorem C16_exRule : GaussRule (K := ℚ) [-1/2, 0, 1/2] [4/3, -2/3, 4/3] 3 := by
  refine ⟨rfl, ?_⟩
  intro k hk
  interval_cases k <;> simp [Fin.sum_univ_succ] <;> norm_num

/-- The degenerate trilinear volume with all control points `0` (its Jacobian vanishes). -/
def C16_exVol : Obj ℚ :=
  { bases := #[C16_exB, C16_exB, C16_exB],
    cps := { shape := [2, 2, 2, 3], data := Array.replicate 24 0 }, rational := false }

theorem C16_exVol_jac (u v w : ℚ) : C16_exVol.jacSpec C16_exB C16_exB C16_exB u v w = 0 := by
  have h : ∀ k, C16_exVol.cps.get k = 0 := by
    intro k
    simp [Tensor.get, C16_exVol, Array.getD]
  simp [Obj.jacSpec, Obj.specD3, h, jac3, Array.getD]

/-- `C16_volume_exact` applies (every hypothesis is proved for this volume and this rule). -/
example : ∃ V, C16_exVol.volume (1/1000) [-1/2, 0, 1/2] [4/3, -2/3, 4/3] [-1/2, 0, 1/2] [4/3, -2/3, 4/3]
    [-1/2, 0, 1/2] [4/3, -2/3, 4/3] = .ok V := by
  have hnodes : (gaussMap (C16_exB.knotSpans (1/1000) false).toList [-1/2, 0, 1/2] [4/3, -2/3, 4/3]).1
      = [1/4, 1/2, 3/4] := by
    rw [C16_exB_spans]
    simp [gaussMap]
    norm_num
  have hadm : ∀ u ∈ (gaussMap (C16_exB.knotSpans (1/1000) false).toList [-1/2, 0, 1/2] [4/3, -2/3, 4/3]).1,
      C16_exB.Admissible (1/1000) u := by
    rw [hnodes]
    intro u hu
    have hs : C16_exB.start = 0 := by unfold Basis.start; rw [C16_exB_kn]; norm_num [C16_exB]
    have he : C16_exB.stop = 1 := by unfold Basis.stop; rw [C16_exB_kn]; norm_num [C16_exB]
    refine ⟨?_, ?_, fun h => absurd h (by decide)⟩
    · intro i _
      rw [C16_exB_kn]
      simp only [List.mem_cons, List.not_mem_nil, or_false] at hu
      rcases hu with rfl | rfl | rfl <;> split_ifs <;> norm_num
    · intro _
      rw [hs, he]
      simp only [List.mem_cons, List.not_mem_nil, or_false] at hu
      rcases hu with rfl | rfl | rfl <;> norm_num
  have hx : ∀ i, i < ([4/3, -2/3, 4/3] : List ℚ).length →
      -1 < ([-1/2, 0, 1/2] : List ℚ).getD i 0 ∧ ([-1/2, 0, 1/2] : List ℚ).getD i 0 < 1 := by
    intro i hi
    have : i < 3 := hi
    interval_cases i <;> norm_num
  have hne : (gaussMap (C16_exB.knotSpans (1/1000) false).toList [-1/2, 0, 1/2] [4/3, -2/3, 4/3]).1 ≠ [] := by
    rw [hnodes]; simp
  exact ⟨_, C16_volume_exact (o := C16_exVol) rfl C16_exB_valid C16_exB_valid C16_exB_valid rfl rfl rfl
    rfl rfl (by norm_num) C16_exB_sep C16_exB_sep C16_exB_sep C16_exRule C16_exRule C16_exRule
    (by decide) (by decide) (by decide) hx hx hx hadm hadm hadm hne hne hne
    (fun e1 _ e2 _ e3 _ => Or.inl (fun u v w _ _ _ _ _ _ => by rw [C16_exVol_jac]))⟩

end volume_example
