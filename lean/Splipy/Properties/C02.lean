import Splipy.Model.Object
/-! Property theorems for C02 (under construction). -/
