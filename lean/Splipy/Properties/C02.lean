import Splipy.Lemmas.TensorEvalDefault
import Splipy.Lemmas.TensorEvalDefault2
import Splipy.Lemmas.TensorEvalPeriodic

/-!
# Property C02: object evaluation equals the tensor-product NURBS definition

`o.evaluate tol params tensor` is the executable model of `SplineObject.evaluate(*params,
tensor=…)` before the final `squeeze` reshape (`tol` = `state.knot_tolerance`, every parameter is a
list; a Python scalar is the one-element list).  The result is a `Tensor` (shape + flat C-order
data); `t.get k` reads flat index `k`, so entry `(i₁,i₂,c)` of an `m₁ × m₂ × nc` result is
`t.get ((i₁*m₂ + i₂)*nc + c)`, and the control point `P[j₁,j₂][c]` of an `n₁ × n₂ × nc` net is
`o.cps.get ((j₁*n₂ + j₂)*nc + c)`.

Vocabulary (defined in `Splipy/Lemmas/TensorEvalObj.lean`, `…/EvalRow.lean`):
* `b.rowVal tol u j = (b.evaluate tol (snap b tol u) 0 true).getD j 0` — the number the code uses for
  basis function `j` at the parameter `u` (`_validate_domain` snaps, then `b.evaluate` is called).
* `b.specRow u j` — the specification value: `B (effSide b u true) b.kn (order-1) j u` for a
  non-periodic basis (`C02_specRow_nonperiodic`), the sum of the wrapped images
  `Σ_{i ≡ j mod n} B … i (b.wrap u)` for a periodic one (`C02_specRow_periodic`).
* `b.Admissible tol u` — `u` is exact (`b.ExactAt tol u`: a knot, or at least `tol` away from every
  knot), lies in `[start, stop]` if `b` is non-periodic, and `b.wrap u` is exact if `b` is periodic.
* `o.OutOfDomain tol params` — some non-periodic direction has an EMPTY parameter list (the real
  code takes `min(p)`, which raises `ValueError` on an empty sequence) or a snapped parameter outside
  `[start, stop]` (spelled out in `C02_outside_raises`).
* `b.ShiftOK tol us m` / `b.SeamContinuous tol` — hypotheses of the period-shift theorems, see
  `C02_periodic_wraps_curve`.
-/

open Splipy Splipy.Tensor

variable {K : Type} [Field K] [LinearOrder K] [IsStrictOrderedRing K] [FloorRing K]

/-! ## 1. L11 — index algebra of the array model -/

omit [LinearOrder K] [IsStrictOrderedRing K] [FloorRing K] in
/-- Read-back of `build3`: flat index `(a*m + r)*inner + i` holds `f a r i`. -/
theorem C02_build3_readback (shape : List ℕ) (ax m : ℕ) (f : ℕ → ℕ → ℕ → K) {a r i : ℕ}
    (ha : a < prod (shape.take ax)) (hr : r < m) (hi : i < prod (shape.drop (ax + 1))) :
    (build3 shape ax m f).get ((a * m + r) * prod (shape.drop (ax + 1)) + i) = f a r i :=
  build3_readback shape ax m f ha hr hi

omit [LinearOrder K] [IsStrictOrderedRing K] [FloorRing K] in
/-- One-axis contraction (`np.tensordot(M, t, axes=(1, ax))` + `transpose_fix`): shape, data size
and entry formula `(applyAxis M t ax)[a, r, i] = Σ_j M[r][j] · t[a, j, i]`. -/
theorem C02_applyAxis (M : Mat K) (t : Tensor K) (ax : ℕ) (h : ax < t.shape.length) :
    (applyAxis M t ax).shape = t.shape.set ax M.size ∧
    (applyAxis M t ax).data.size = prod (applyAxis M t ax).shape ∧
    ∀ a r i, a < prod (t.shape.take ax) → r < M.size → i < prod (t.shape.drop (ax + 1)) →
      (applyAxis M t ax).at3 ax a r i
        = ∑ j ∈ Finset.range (t.shape.getD ax 1), (M.getD r #[]).getD j 0 * t.at3 ax a j i :=
  ⟨applyAxis_shape M t ax, applyAxis_wf M t ax h,
    fun _ _ _ ha hr hi => applyAxis_at3 M t ax h ha hr hi⟩

/-! ## 2. `C02_tensor_eval` — the module-level `evaluate(bases, cps, tensor=True)` -/

omit [LinearOrder K] [IsStrictOrderedRing K] [FloorRing K] in
/-- Curves: `result[i₁, c] = Σ_{j₁} N₁[i₁][j₁] · P[j₁, c]`. -/
theorem C02_tensor_eval_curve (N1 : Mat K) (cps : Tensor K) {n1 nc : ℕ}
    (hs : cps.shape = [n1, nc]) :
    (Obj.contractGrid [N1] cps).shape = [N1.size, nc] ∧
    (Obj.contractGrid [N1] cps).data.size = N1.size * nc ∧
    ∀ i1 c, i1 < N1.size → c < nc →
      (Obj.contractGrid [N1] cps).get (i1 * nc + c)
        = ∑ j1 ∈ Finset.range n1, (N1.getD i1 #[]).getD j1 0 * cps.get (j1 * nc + c) :=
  ⟨(contractGrid1_size N1 cps hs).1, (contractGrid1_size N1 cps hs).2,
    fun _ _ h1 hc => contractGrid1_get N1 cps hs h1 hc⟩

omit [LinearOrder K] [IsStrictOrderedRing K] [FloorRing K] in
/-- Surfaces: `result[i₁, i₂, c] = Σ_{j₁} Σ_{j₂} N₁[i₁][j₁] · N₂[i₂][j₂] · P[j₁, j₂, c]`. -/
theorem C02_tensor_eval_surface (N1 N2 : Mat K) (cps : Tensor K) {n1 n2 nc : ℕ}
    (hs : cps.shape = [n1, n2, nc]) :
    (Obj.contractGrid [N1, N2] cps).shape = [N1.size, N2.size, nc] ∧
    (Obj.contractGrid [N1, N2] cps).data.size = N1.size * N2.size * nc ∧
    ∀ i1 i2 c, i1 < N1.size → i2 < N2.size → c < nc →
      (Obj.contractGrid [N1, N2] cps).get ((i1 * N2.size + i2) * nc + c)
        = ∑ j1 ∈ Finset.range n1, ∑ j2 ∈ Finset.range n2,
            (N1.getD i1 #[]).getD j1 0 * (N2.getD i2 #[]).getD j2 0
              * cps.get ((j1 * n2 + j2) * nc + c) :=
  ⟨(contractGrid2_size N1 N2 cps hs).1, (contractGrid2_size N1 N2 cps hs).2,
    fun _ _ _ h1 h2 hc => contractGrid2_get N1 N2 cps hs h1 h2 hc⟩

omit [LinearOrder K] [IsStrictOrderedRing K] [FloorRing K] in
/-- Volumes: `result[i₁,i₂,i₃,c] = ΣΣΣ N₁[i₁][j₁]·N₂[i₂][j₂]·N₃[i₃][j₃]·P[j₁,j₂,j₃,c]`. -/
theorem C02_tensor_eval_volume (N1 N2 N3 : Mat K) (cps : Tensor K) {n1 n2 n3 nc : ℕ}
    (hs : cps.shape = [n1, n2, n3, nc]) :
    (Obj.contractGrid [N1, N2, N3] cps).shape = [N1.size, N2.size, N3.size, nc] ∧
    (Obj.contractGrid [N1, N2, N3] cps).data.size = N1.size * N2.size * N3.size * nc ∧
    ∀ i1 i2 i3 c, i1 < N1.size → i2 < N2.size → i3 < N3.size → c < nc →
      (Obj.contractGrid [N1, N2, N3] cps).get (((i1 * N2.size + i2) * N3.size + i3) * nc + c)
        = ∑ j1 ∈ Finset.range n1, ∑ j2 ∈ Finset.range n2, ∑ j3 ∈ Finset.range n3,
            (N1.getD i1 #[]).getD j1 0 * (N2.getD i2 #[]).getD j2 0 * (N3.getD i3 #[]).getD j3 0
              * cps.get (((j1 * n2 + j2) * n3 + j3) * nc + c) :=
  ⟨(contractGrid3_size N1 N2 N3 cps hs).1, (contractGrid3_size N1 N2 N3 cps hs).2,
    fun _ _ _ _ h1 h2 h3 hc => contractGrid3_get N1 N2 N3 cps hs h1 h2 h3 hc⟩

/-! ## 5. `C02_pointwise_is_diagonal` — `tensor=False` (the `einsum` form) -/

omit [LinearOrder K] [IsStrictOrderedRing K] [FloorRing K] in
/-- Curves: row `i` of the pointwise form is row `i` of the grid form. -/
theorem C02_pointwise_is_diagonal_curve (N1 : Mat K) (cps : Tensor K) (m : ℕ) {n1 nc : ℕ}
    (hs : cps.shape = [n1, nc]) {i c : ℕ} (hi : i < m) (h1 : i < N1.size) (hc : c < nc) :
    (Obj.contractPointwise [N1] cps m).get (i * nc + c)
      = (Obj.contractGrid [N1] cps).get (i * nc + c) := by
  rw [contractPointwise1_get N1 cps m hs hi hc, contractGrid1_get N1 cps hs h1 hc]

omit [LinearOrder K] [IsStrictOrderedRing K] [FloorRing K] in
/-- Surfaces: row `i` of the pointwise form is the grid entry `(i, i)`. -/
theorem C02_pointwise_is_diagonal_surface (N1 N2 : Mat K) (cps : Tensor K) (m : ℕ)
    {n1 n2 nc : ℕ} (hs : cps.shape = [n1, n2, nc]) {i c : ℕ} (hi : i < m) (h1 : i < N1.size)
    (h2 : i < N2.size) (hc : c < nc) :
    (Obj.contractPointwise [N1, N2] cps m).get (i * nc + c)
      = (Obj.contractGrid [N1, N2] cps).get ((i * N2.size + i) * nc + c) := by
  rw [contractPointwise2_get N1 N2 cps m hs hi hc, contractGrid2_get N1 N2 cps hs h1 h2 hc]

omit [LinearOrder K] [IsStrictOrderedRing K] [FloorRing K] in
/-- Volumes: row `i` of the pointwise form is the grid entry `(i, i, i)`. -/
theorem C02_pointwise_is_diagonal_volume (N1 N2 N3 : Mat K) (cps : Tensor K) (m : ℕ)
    {n1 n2 n3 nc : ℕ} (hs : cps.shape = [n1, n2, n3, nc]) {i c : ℕ} (hi : i < m)
    (h1 : i < N1.size) (h2 : i < N2.size) (h3 : i < N3.size) (hc : c < nc) :
    (Obj.contractPointwise [N1, N2, N3] cps m).get (i * nc + c)
      = (Obj.contractGrid [N1, N2, N3] cps).get (((i * N2.size + i) * N3.size + i) * nc + c) := by
  rw [contractPointwise3_get N1 N2 N3 cps m hs hi hc,
    contractGrid3_get N1 N2 N3 cps hs h1 h2 h3 hc]

omit [LinearOrder K] [IsStrictOrderedRing K] [FloorRing K] in
/-- The pointwise form has shape `m × nc` and the explicit entries
`Σ_{j₁} Σ_{j₂} N₁[i][j₁]·N₂[i][j₂]·P[j₁,j₂,c]` (surfaces). -/
theorem C02_pointwise_eval_surface (N1 N2 : Mat K) (cps : Tensor K) (m : ℕ) {n1 n2 nc : ℕ}
    (hs : cps.shape = [n1, n2, nc]) :
    (Obj.contractPointwise [N1, N2] cps m).shape = [m, nc] ∧
    ∀ i c, i < m → c < nc →
      (Obj.contractPointwise [N1, N2] cps m).get (i * nc + c)
        = ∑ j1 ∈ Finset.range n1, ∑ j2 ∈ Finset.range n2,
            (N1.getD i #[]).getD j1 0 * (N2.getD i #[]).getD j2 0
              * cps.get ((j1 * n2 + j2) * nc + c) :=
  ⟨by rw [contractPointwise_shape, hs]; rfl,
    fun _ _ hi hc => contractPointwise2_get N1 N2 cps m hs hi hc⟩

/-- Object level, curves (rational or not): `evaluate(us, tensor=False)` succeeds together with
`evaluate(us)` and has the same entries. -/
theorem C02_pointwise_is_diagonal_obj_curve {o : Obj K} {b1 : Basis K} (hb : o.bases = #[b1])
    {n1 nc : ℕ} (hs : o.cps.shape = [n1, nc]) (hnc : o.rational = true → 1 ≤ nc) (tol : K)
    (us : List K) (hdom : ¬ o.OutOfDomain tol [us]) :
    ∃ rg rp, o.evaluate tol [us] true = .ok rg ∧ o.evaluate tol [us] false = .ok rp ∧
      rp.shape = [us.length, o.dimension] ∧ rp.data.size = us.length * o.dimension ∧
      ∀ i c, i < us.length → c < o.dimension →
        rp.get (i * o.dimension + c) = rg.get (i * o.dimension + c) :=
  Obj.evaluate1_pointwise_diag hb hs hnc tol us hdom

/-- Object level, surfaces (rational or not): point `i` of `evaluate(us, vs, tensor=False)` is the
grid point `(i, i)` of `evaluate(us, vs)`. -/
theorem C02_pointwise_is_diagonal_obj_surface {o : Obj K} {b1 b2 : Basis K}
    (hb : o.bases = #[b1, b2]) {n1 n2 nc : ℕ} (hs : o.cps.shape = [n1, n2, nc])
    (hnc : o.rational = true → 1 ≤ nc) (tol : K) (us vs : List K)
    (hlen : vs.length = us.length) (hdom : ¬ o.OutOfDomain tol [us, vs]) :
    ∃ rg rp, o.evaluate tol [us, vs] true = .ok rg ∧ o.evaluate tol [us, vs] false = .ok rp ∧
      rp.shape = [us.length, o.dimension] ∧ rp.data.size = us.length * o.dimension ∧
      ∀ i c, i < us.length → c < o.dimension →
        rp.get (i * o.dimension + c) = rg.get ((i * vs.length + i) * o.dimension + c) :=
  Obj.evaluate2_pointwise_diag hb hs hnc tol us vs hlen hdom

/-- Object level, volumes (rational or not). -/
theorem C02_pointwise_is_diagonal_obj_volume {o : Obj K} {b1 b2 b3 : Basis K}
    (hb : o.bases = #[b1, b2, b3]) {n1 n2 n3 nc : ℕ} (hs : o.cps.shape = [n1, n2, n3, nc])
    (hnc : o.rational = true → 1 ≤ nc) (tol : K) (us vs ws : List K)
    (hlen2 : vs.length = us.length) (hlen3 : ws.length = us.length)
    (hdom : ¬ o.OutOfDomain tol [us, vs, ws]) :
    ∃ rg rp, o.evaluate tol [us, vs, ws] true = .ok rg ∧
      o.evaluate tol [us, vs, ws] false = .ok rp ∧
      rp.shape = [us.length, o.dimension] ∧ rp.data.size = us.length * o.dimension ∧
      ∀ i c, i < us.length → c < o.dimension →
        rp.get (i * o.dimension + c)
          = rg.get (((i * vs.length + i) * ws.length + i) * o.dimension + c) :=
  Obj.evaluate3_pointwise_diag hb hs hnc tol us vs ws hlen2 hlen3 hdom

/-! ## 6. `C02_outside_raises` — error behaviour (any parametric dimension) -/

/-- `evaluate` raises `ValueError` exactly when (`tensor=False` and
`len({len(p) for p in params}) != 1`) or some non-periodic direction has an EMPTY parameter list
(`min()` of an empty sequence) or a snapped parameter outside `[start, end]`.  Periodic directions
never raise (they accept the empty list too: the result then has a zero-length axis). -/
theorem C02_outside_raises (o : Obj K) (tol : K) (params : List (List K)) (tensor : Bool) :
    o.evaluate tol params tensor = .error .value ↔
      (tensor = false ∧ (params.map List.length).eraseDups.length ≠ 1) ∨
      (∃ bp ∈ List.zip o.bases.toList params, bp.1.periodic < 0 ∧
        (bp.2 = [] ∨
          ∃ t ∈ bp.2, snap bp.1 tol t < bp.1.start ∨ bp.1.stop < snap bp.1 tol t)) := by
  constructor
  · intro h
    by_contra hc
    rw [not_or] at hc
    rw [o.evaluate_ok tol params tensor hc.1 hc.2] at h
    cases h
  · rintro (h | h)
    · exact o.evaluate_error_len tol params tensor h
    · exact o.evaluate_error_dom tol params tensor h

/-- … and otherwise it returns a value (no other exception is possible), namely `evalCore` of the
snapped parameters. -/
theorem C02_ok_otherwise (o : Obj K) (tol : K) (params : List (List K)) (tensor : Bool)
    (h1 : ¬ (tensor = false ∧ (params.map List.length).eraseDups.length ≠ 1))
    (h2 : ¬ o.OutOfDomain tol params) :
    o.evaluate tol params tensor = .ok (o.evalCore tol (o.snapParams tol params) tensor) :=
  o.evaluate_ok tol params tensor h1 h2

/-- The only exception `evaluate` can raise is `ValueError`. -/
theorem C02_error_is_value (o : Obj K) (tol : K) (params : List (List K)) (tensor : Bool)
    (e : PyErr) (h : o.evaluate tol params tensor = .error e) : e = .value := by
  by_cases h1 : tensor = false ∧ (params.map List.length).eraseDups.length ≠ 1
  · rw [o.evaluate_error_len tol params tensor h1] at h
    cases h; rfl
  · by_cases h2 : o.OutOfDomain tol params
    · rw [o.evaluate_error_dom tol params tensor h2] at h
      cases h; rfl
    · rw [o.evaluate_ok tol params tensor h1 h2] at h
      cases h

omit [Field K] [LinearOrder K] [IsStrictOrderedRing K] [FloorRing K] in
/-- Meaning of the length test: the set of lengths has one element iff there is at least one
parameter list and all lists have the same length. -/
theorem C02_length_test (params : List (List K)) :
    (params.map List.length).eraseDups.length = 1 ↔
      params ≠ [] ∧ ∀ p ∈ params, ∀ q ∈ params, p.length = q.length := by
  rw [eraseDups_length_eq_one_iff]
  constructor
  · rintro ⟨h1, h2⟩
    refine ⟨fun h => h1 (by rw [h]; rfl), fun p hp q hq => ?_⟩
    exact h2 _ (List.mem_map.mpr ⟨p, hp, rfl⟩) _ (List.mem_map.mpr ⟨q, hq, rfl⟩)
  · rintro ⟨h1, h2⟩
    refine ⟨fun h => h1 (List.map_eq_nil_iff.mp h), ?_⟩
    intro a ha b hb
    obtain ⟨p, hp, rfl⟩ := List.mem_map.mp ha
    obtain ⟨q, hq, rfl⟩ := List.mem_map.mp hb
    exact h2 p hp q hq

/-- An object all of whose directions are periodic accepts every real parameter. -/
theorem C02_periodic_accepts_any_real (o : Obj K) (tol : K) (params : List (List K))
    (hper : ∀ b ∈ o.bases.toList, 0 ≤ b.periodic) :
    ∃ res, o.evaluate tol params true = .ok res := by
  refine ⟨_, o.evaluate_ok tol params true (by simp) ?_⟩
  rintro ⟨bp, hbp, h, -⟩
  have := hper bp.1 (List.of_mem_zip hbp).1
  omega

/-- … also in the pointwise form, provided the lists have one common length. -/
theorem C02_periodic_accepts_any_real_pointwise (o : Obj K) (tol : K) (params : List (List K))
    (hper : ∀ b ∈ o.bases.toList, 0 ≤ b.periodic)
    (hlen : (params.map List.length).eraseDups.length = 1) :
    ∃ res, o.evaluate tol params false = .ok res := by
  refine ⟨_, o.evaluate_ok tol params false (fun h => h.2 hlen) ?_⟩
  rintro ⟨bp, hbp, h, -⟩
  have := hper bp.1 (List.of_mem_zip hbp).1
  omega

/-- An empty parameter list in a non-periodic direction raises `ValueError` (every calling form). -/
theorem C02_empty_nonperiodic_raises (o : Obj K) (tol : K) (params : List (List K))
    (tensor : Bool) {b : Basis K} (hb : (b, []) ∈ List.zip o.bases.toList params)
    (hper : b.periodic < 0) :
    o.evaluate tol params tensor = .error .value :=
  o.evaluate_error_dom tol params tensor ⟨(b, []), hb, hper, Or.inl rfl⟩

/-! ## 2'. `C02_tensor_eval` at object level: result entries in terms of the code's basis rows

No validity assumption: for ANY bases, tolerance and parameters that pass the domain check. -/

/-- Non-rational curve. -/
theorem C02_tensor_eval_obj_curve {o : Obj K} {b1 : Basis K} (hb : o.bases = #[b1])
    {n1 nc : ℕ} (hs : o.cps.shape = [n1, nc]) (hr : o.rational = false) (tol : K)
    (us : List K) (hdom : ¬ o.OutOfDomain tol [us]) :
    ∃ res, o.evaluate tol [us] true = .ok res ∧
      res.shape = [us.length, nc] ∧ res.data.size = us.length * nc ∧
      ∀ i1 c, i1 < us.length → c < nc →
        res.get (i1 * nc + c)
          = ∑ j1 ∈ Finset.range n1, b1.rowVal tol (us.getD i1 0) j1 * o.cps.get (j1 * nc + c) :=
  Obj.evaluate1_grid_nonrational hb hs hr tol us hdom

/-- Non-rational surface. -/
theorem C02_tensor_eval_obj_surface {o : Obj K} {b1 b2 : Basis K} (hb : o.bases = #[b1, b2])
    {n1 n2 nc : ℕ} (hs : o.cps.shape = [n1, n2, nc]) (hr : o.rational = false) (tol : K)
    (us vs : List K) (hdom : ¬ o.OutOfDomain tol [us, vs]) :
    ∃ res, o.evaluate tol [us, vs] true = .ok res ∧
      res.shape = [us.length, vs.length, nc] ∧ res.data.size = us.length * vs.length * nc ∧
      ∀ i1 i2 c, i1 < us.length → i2 < vs.length → c < nc →
        res.get ((i1 * vs.length + i2) * nc + c)
          = ∑ j1 ∈ Finset.range n1, ∑ j2 ∈ Finset.range n2,
              b1.rowVal tol (us.getD i1 0) j1 * b2.rowVal tol (vs.getD i2 0) j2
                * o.cps.get ((j1 * n2 + j2) * nc + c) :=
  Obj.evaluate2_grid_nonrational hb hs hr tol us vs hdom

/-- Non-rational volume. -/
theorem C02_tensor_eval_obj_volume {o : Obj K} {b1 b2 b3 : Basis K}
    (hb : o.bases = #[b1, b2, b3]) {n1 n2 n3 nc : ℕ} (hs : o.cps.shape = [n1, n2, n3, nc])
    (hr : o.rational = false) (tol : K) (us vs ws : List K)
    (hdom : ¬ o.OutOfDomain tol [us, vs, ws]) :
    ∃ res, o.evaluate tol [us, vs, ws] true = .ok res ∧
      res.shape = [us.length, vs.length, ws.length, nc] ∧
      res.data.size = us.length * vs.length * ws.length * nc ∧
      ∀ i1 i2 i3 c, i1 < us.length → i2 < vs.length → i3 < ws.length → c < nc →
        res.get (((i1 * vs.length + i2) * ws.length + i3) * nc + c)
          = ∑ j1 ∈ Finset.range n1, ∑ j2 ∈ Finset.range n2, ∑ j3 ∈ Finset.range n3,
              b1.rowVal tol (us.getD i1 0) j1 * b2.rowVal tol (vs.getD i2 0) j2
                * b3.rowVal tol (ws.getD i3 0) j3
                * o.cps.get (((j1 * n2 + j2) * n3 + j3) * nc + c) :=
  Obj.evaluate3_grid_nonrational hb hs hr tol us vs ws hdom

/-- Rational curve: the same rows in numerator and denominator (no validity assumption; a zero
denominator gives Lean's `x / 0 = 0`, see `C02_rational_curve` for positivity). -/
theorem C02_rational_rows_curve {o : Obj K} {b1 : Basis K} (hb : o.bases = #[b1])
    {n1 dim : ℕ} (hs : o.cps.shape = [n1, dim + 1]) (hr : o.rational = true) (tol : K)
    (us : List K) (hdom : ¬ o.OutOfDomain tol [us]) :
    ∃ res, o.evaluate tol [us] true = .ok res ∧
      res.shape = [us.length, dim] ∧ res.data.size = us.length * dim ∧
      ∀ i1 c, i1 < us.length → c < dim →
        res.get (i1 * dim + c)
          = (∑ j1 ∈ Finset.range n1,
              b1.rowVal tol (us.getD i1 0) j1 * o.cps.get (j1 * (dim + 1) + c))
            / (∑ j1 ∈ Finset.range n1,
              b1.rowVal tol (us.getD i1 0) j1 * o.cps.get (j1 * (dim + 1) + dim)) :=
  Obj.evaluate1_grid_rational hb hs hr tol us hdom

/-- Rational surface: the same rows in numerator and denominator. -/
theorem C02_rational_rows_surface {o : Obj K} {b1 b2 : Basis K} (hb : o.bases = #[b1, b2])
    {n1 n2 dim : ℕ} (hs : o.cps.shape = [n1, n2, dim + 1]) (hr : o.rational = true) (tol : K)
    (us vs : List K) (hdom : ¬ o.OutOfDomain tol [us, vs]) :
    ∃ res, o.evaluate tol [us, vs] true = .ok res ∧
      res.shape = [us.length, vs.length, dim] ∧ res.data.size = us.length * vs.length * dim ∧
      ∀ i1 i2 c, i1 < us.length → i2 < vs.length → c < dim →
        res.get ((i1 * vs.length + i2) * dim + c)
          = (∑ j1 ∈ Finset.range n1, ∑ j2 ∈ Finset.range n2,
              b1.rowVal tol (us.getD i1 0) j1 * b2.rowVal tol (vs.getD i2 0) j2
                * o.cps.get ((j1 * n2 + j2) * (dim + 1) + c))
            / (∑ j1 ∈ Finset.range n1, ∑ j2 ∈ Finset.range n2,
              b1.rowVal tol (us.getD i1 0) j1 * b2.rowVal tol (vs.getD i2 0) j2
                * o.cps.get ((j1 * n2 + j2) * (dim + 1) + dim)) :=
  Obj.evaluate2_grid_rational hb hs hr tol us vs hdom

/-- Rational volume: the same rows in numerator and denominator. -/
theorem C02_rational_rows_volume {o : Obj K} {b1 b2 b3 : Basis K}
    (hb : o.bases = #[b1, b2, b3]) {n1 n2 n3 dim : ℕ}
    (hs : o.cps.shape = [n1, n2, n3, dim + 1]) (hr : o.rational = true) (tol : K)
    (us vs ws : List K) (hdom : ¬ o.OutOfDomain tol [us, vs, ws]) :
    ∃ res, o.evaluate tol [us, vs, ws] true = .ok res ∧
      res.shape = [us.length, vs.length, ws.length, dim] ∧
      res.data.size = us.length * vs.length * ws.length * dim ∧
      ∀ i1 i2 i3 c, i1 < us.length → i2 < vs.length → i3 < ws.length → c < dim →
        res.get (((i1 * vs.length + i2) * ws.length + i3) * dim + c)
          = (∑ j1 ∈ Finset.range n1, ∑ j2 ∈ Finset.range n2, ∑ j3 ∈ Finset.range n3,
              b1.rowVal tol (us.getD i1 0) j1 * b2.rowVal tol (vs.getD i2 0) j2
                * b3.rowVal tol (ws.getD i3 0) j3
                * o.cps.get (((j1 * n2 + j2) * n3 + j3) * (dim + 1) + c))
            / (∑ j1 ∈ Finset.range n1, ∑ j2 ∈ Finset.range n2, ∑ j3 ∈ Finset.range n3,
              b1.rowVal tol (us.getD i1 0) j1 * b2.rowVal tol (vs.getD i2 0) j2
                * b3.rowVal tol (ws.getD i3 0) j3
                * o.cps.get (((j1 * n2 + j2) * n3 + j3) * (dim + 1) + dim)) :=
  Obj.evaluate3_grid_rational hb hs hr tol us vs ws hdom

/-! ## 3. `C02_nonrational_is_spline_sum` — with C01: the rows are the specification B-splines -/

omit [IsStrictOrderedRing K] in
/-- `specRow` of a non-periodic basis: the `j`-th B-spline, right-continuous except at the domain
end, where it is the limit from inside (`effSide`). -/
theorem C02_specRow_nonperiodic {b : Basis K} (h : b.periodic = -1) (u : K) (j : ℕ) :
    b.specRow u j = B (effSide b u true) b.kn (b.order - 1) j u := by
  unfold Basis.specRow; rw [if_pos h]

/-- `specRow` of a periodic basis: all wrapped images at the wrapped point. -/
theorem C02_specRow_periodic {b : Basis K} (h : 0 ≤ b.periodic) (u : K) (j : ℕ) :
    b.specRow u j = ∑ i ∈ (Finset.range b.nAll).filter (fun i => i % b.numFunctions = j),
      B (effSide b (b.wrap u) true) b.kn (b.order - 1) i (b.wrap u) :=
  Basis.specRow_periodic h u j

/-- For valid bases and admissible parameters the code's row is the specification row; the rows
are non-negative and sum to one. -/
theorem C02_row_is_spec {b : Basis K} (hv : b.Valid) {tol u : K} (htol : 0 < tol)
    (h : b.Admissible tol u) :
    (∀ j, j < b.numFunctions → b.rowVal tol u j = b.specRow u j) ∧
    (∀ j, 0 ≤ b.rowVal tol u j) ∧
    ∑ j ∈ Finset.range b.numFunctions, b.rowVal tol u j = 1 :=
  ⟨fun _ hj => Basis.rowVal_eq_specRow hv htol h hj, fun j => Basis.rowVal_nonneg hv htol h j,
    Basis.rowVal_sum hv htol h⟩

/-- Non-rational curve (periodic or not): `σ(uᵢ)[c] = Σ_j N_j(uᵢ) · P_j[c]`. -/
theorem C02_nonrational_is_spline_sum_curve {o : Obj K} {b1 : Basis K} (hb : o.bases = #[b1])
    (hv1 : b1.Valid) {nc : ℕ} (hs : o.cps.shape = [b1.numFunctions, nc])
    (hr : o.rational = false) {tol : K} (htol : 0 < tol) {us : List K}
    (hus : ∀ u ∈ us, b1.Admissible tol u)
    (hne1 : b1.periodic < 0 → us ≠ []) :
    ∃ res, o.evaluate tol [us] true = .ok res ∧
      res.shape = [us.length, nc] ∧ res.data.size = us.length * nc ∧
      ∀ i1 c, i1 < us.length → c < nc →
        res.get (i1 * nc + c)
          = ∑ j1 ∈ Finset.range b1.numFunctions,
              b1.specRow (us.getD i1 0) j1 * o.cps.get (j1 * nc + c) :=
  Obj.evaluate1_spec_nonrational hb hv1 hs hr htol hus

/-- Non-rational surface (each direction periodic or not):
`σ(uᵢ, vₖ)[c] = Σ_{j₁} Σ_{j₂} N_{j₁}(uᵢ) · M_{j₂}(vₖ) · P_{j₁ j₂}[c]`. -/
theorem C02_nonrational_is_spline_sum_surface {o : Obj K} {b1 b2 : Basis K}
    (hb : o.bases = #[b1, b2]) (hv1 : b1.Valid) (hv2 : b2.Valid) {nc : ℕ}
    (hs : o.cps.shape = [b1.numFunctions, b2.numFunctions, nc]) (hr : o.rational = false)
    {tol : K} (htol : 0 < tol) {us vs : List K}
    (hus : ∀ u ∈ us, b1.Admissible tol u) (hvs : ∀ v ∈ vs, b2.Admissible tol v)
    (hne1 : b1.periodic < 0 → us ≠ [])
    (hne2 : b2.periodic < 0 → vs ≠ []) :
    ∃ res, o.evaluate tol [us, vs] true = .ok res ∧
      res.shape = [us.length, vs.length, nc] ∧ res.data.size = us.length * vs.length * nc ∧
      ∀ i1 i2 c, i1 < us.length → i2 < vs.length → c < nc →
        res.get ((i1 * vs.length + i2) * nc + c)
          = ∑ j1 ∈ Finset.range b1.numFunctions, ∑ j2 ∈ Finset.range b2.numFunctions,
              b1.specRow (us.getD i1 0) j1 * b2.specRow (vs.getD i2 0) j2
                * o.cps.get ((j1 * b2.numFunctions + j2) * nc + c) :=
  Obj.evaluate2_spec_nonrational hb hv1 hv2 hs hr htol hus hvs

/-- Non-rational volume. -/
theorem C02_nonrational_is_spline_sum_volume {o : Obj K} {b1 b2 b3 : Basis K}
    (hb : o.bases = #[b1, b2, b3]) (hv1 : b1.Valid) (hv2 : b2.Valid) (hv3 : b3.Valid) {nc : ℕ}
    (hs : o.cps.shape = [b1.numFunctions, b2.numFunctions, b3.numFunctions, nc])
    (hr : o.rational = false) {tol : K} (htol : 0 < tol) {us vs ws : List K}
    (hus : ∀ u ∈ us, b1.Admissible tol u) (hvs : ∀ v ∈ vs, b2.Admissible tol v)
    (hws : ∀ w ∈ ws, b3.Admissible tol w)
    (hne1 : b1.periodic < 0 → us ≠ [])
    (hne2 : b2.periodic < 0 → vs ≠ [])
    (hne3 : b3.periodic < 0 → ws ≠ []) :
    ∃ res, o.evaluate tol [us, vs, ws] true = .ok res ∧
      res.shape = [us.length, vs.length, ws.length, nc] ∧
      res.data.size = us.length * vs.length * ws.length * nc ∧
      ∀ i1 i2 i3 c, i1 < us.length → i2 < vs.length → i3 < ws.length → c < nc →
        res.get (((i1 * vs.length + i2) * ws.length + i3) * nc + c)
          = ∑ j1 ∈ Finset.range b1.numFunctions, ∑ j2 ∈ Finset.range b2.numFunctions,
            ∑ j3 ∈ Finset.range b3.numFunctions,
              b1.specRow (us.getD i1 0) j1 * b2.specRow (vs.getD i2 0) j2
                * b3.specRow (ws.getD i3 0) j3
                * o.cps.get (((j1 * b2.numFunctions + j2) * b3.numFunctions + j3) * nc + c) :=
  Obj.evaluate3_spec_nonrational hb hv1 hv2 hv3 hs hr htol hus hvs hws

/-- Non-periodic non-rational curve, spelled out with the specification `B` and without the
auxiliary vocabulary: exact in-domain parameters. -/
theorem C02_nonrational_is_spline_sum_curve_open {o : Obj K} {b1 : Basis K}
    (hb : o.bases = #[b1]) (hv1 : b1.Valid) (hp1 : b1.periodic = -1) {nc : ℕ}
    (hs : o.cps.shape = [b1.numFunctions, nc]) (hr : o.rational = false) {tol : K}
    (htol : 0 < tol) {us : List K}
    (hus : ∀ u ∈ us, b1.ExactAt tol u ∧ b1.start ≤ u ∧ u ≤ b1.stop) (hne : us ≠ []) :
    ∃ res, o.evaluate tol [us] true = .ok res ∧
      res.shape = [us.length, nc] ∧ res.data.size = us.length * nc ∧
      ∀ i1 c, i1 < us.length → c < nc →
        res.get (i1 * nc + c)
          = ∑ j1 ∈ Finset.range b1.numFunctions,
              B (effSide b1 (us.getD i1 0) true) b1.kn (b1.order - 1) j1 (us.getD i1 0)
                * o.cps.get (j1 * nc + c) := by
  obtain ⟨res, h1, h2, h3, h4⟩ := Obj.evaluate1_spec_nonrational hb hv1 hs hr htol
    (fun u hu => ⟨(hus u hu).1, fun _ => (hus u hu).2,
      fun h => by rw [hp1] at h; exact absurd h (by decide)⟩) (fun _ => hne)
  refine ⟨res, h1, h2, h3, fun i1 c hi hc => ?_⟩
  rw [h4 i1 c hi hc]
  exact Finset.sum_congr rfl (fun j _ => by rw [Basis.specRow_nonperiodic hp1])

/-- Non-periodic non-rational surface, spelled out with the specification `B`. -/
theorem C02_nonrational_is_spline_sum_surface_open {o : Obj K} {b1 b2 : Basis K}
    (hb : o.bases = #[b1, b2]) (hv1 : b1.Valid) (hv2 : b2.Valid) (hp1 : b1.periodic = -1)
    (hp2 : b2.periodic = -1) {nc : ℕ}
    (hs : o.cps.shape = [b1.numFunctions, b2.numFunctions, nc]) (hr : o.rational = false)
    {tol : K} (htol : 0 < tol) {us vs : List K}
    (hus : ∀ u ∈ us, b1.ExactAt tol u ∧ b1.start ≤ u ∧ u ≤ b1.stop)
    (hvs : ∀ v ∈ vs, b2.ExactAt tol v ∧ b2.start ≤ v ∧ v ≤ b2.stop)
    (hne1 : us ≠ []) (hne2 : vs ≠ []) :
    ∃ res, o.evaluate tol [us, vs] true = .ok res ∧
      res.shape = [us.length, vs.length, nc] ∧ res.data.size = us.length * vs.length * nc ∧
      ∀ i1 i2 c, i1 < us.length → i2 < vs.length → c < nc →
        res.get ((i1 * vs.length + i2) * nc + c)
          = ∑ j1 ∈ Finset.range b1.numFunctions, ∑ j2 ∈ Finset.range b2.numFunctions,
              B (effSide b1 (us.getD i1 0) true) b1.kn (b1.order - 1) j1 (us.getD i1 0)
                * B (effSide b2 (vs.getD i2 0) true) b2.kn (b2.order - 1) j2 (vs.getD i2 0)
                * o.cps.get ((j1 * b2.numFunctions + j2) * nc + c) := by
  obtain ⟨res, h1, h2, h3, h4⟩ := Obj.evaluate2_spec_nonrational hb hv1 hv2 hs hr htol
    (fun u hu => ⟨(hus u hu).1, fun _ => (hus u hu).2,
      fun h => by rw [hp1] at h; exact absurd h (by decide)⟩)
    (fun v hv => ⟨(hvs v hv).1, fun _ => (hvs v hv).2,
      fun h => by rw [hp2] at h; exact absurd h (by decide)⟩) (fun _ => hne1) (fun _ => hne2)
  refine ⟨res, h1, h2, h3, fun i1 i2 c hi1 hi2 hc => ?_⟩
  rw [h4 i1 i2 c hi1 hi2 hc]
  exact Finset.sum_congr rfl (fun j1 _ => Finset.sum_congr rfl (fun j2 _ => by
    rw [Basis.specRow_nonperiodic hp1, Basis.specRow_nonperiodic hp2]))

/-- Arbitrary (non-exact) parameters: if distinct knot values are at least `tol` apart, evaluating
is evaluating at the snapped parameters (curves; every calling form, errors included) … -/
theorem C02_evaluate_snap_curve {o : Obj K} {b1 : Basis K} (hb : o.bases = #[b1])
    (hv1 : b1.Valid) {tol : K} (htol : 0 < tol) (hs1 : b1.Separated tol) (us : List K)
    (tensor : Bool) :
    o.evaluate tol [us] tensor = o.evaluate tol [us.map (snap b1 tol)] tensor :=
  Obj.evaluate1_snap hb hv1 htol hs1 us tensor

/-- … surfaces … -/
theorem C02_evaluate_snap_surface {o : Obj K} {b1 b2 : Basis K} (hb : o.bases = #[b1, b2])
    (hv1 : b1.Valid) (hv2 : b2.Valid) {tol : K} (htol : 0 < tol)
    (hs1 : b1.Separated tol) (hs2 : b2.Separated tol) (us vs : List K) (tensor : Bool) :
    o.evaluate tol [us, vs] tensor
      = o.evaluate tol [us.map (snap b1 tol), vs.map (snap b2 tol)] tensor :=
  Obj.evaluate2_snap hb hv1 hv2 htol hs1 hs2 us vs tensor

/-- … volumes … -/
theorem C02_evaluate_snap_volume {o : Obj K} {b1 b2 b3 : Basis K} (hb : o.bases = #[b1, b2, b3])
    (hv1 : b1.Valid) (hv2 : b2.Valid) (hv3 : b3.Valid) {tol : K} (htol : 0 < tol)
    (hs1 : b1.Separated tol) (hs2 : b2.Separated tol) (hs3 : b3.Separated tol)
    (us vs ws : List K) (tensor : Bool) :
    o.evaluate tol [us, vs, ws] tensor
      = o.evaluate tol [us.map (snap b1 tol), vs.map (snap b2 tol), ws.map (snap b3 tol)]
          tensor :=
  Obj.evaluate3_snap hb hv1 hv2 hv3 htol hs1 hs2 hs3 us vs ws tensor

/-- … and for a non-periodic basis a snapped parameter inside the domain is admissible, so all
theorems of this file apply to the snapped parameters. -/
theorem C02_snapped_admissible {b : Basis K} (hv : b.Valid) (hper : b.periodic = -1) {tol : K}
    (hsep : b.Separated tol) {u : K} (h1 : b.start ≤ snap b tol u) (h2 : snap b tol u ≤ b.stop) :
    b.Admissible tol (snap b tol u) :=
  Basis.admissible_snap hv hper hsep h1 h2

/-! ## 4. `C02_rational` — NURBS quotient with positive denominators -/

/-- Rational curve, all weights positive: every denominator is positive (no division by zero) and
the result is `Σ_j N_j P_j[c] / Σ_j N_j w_j` with the same basis values. -/
theorem C02_rational_curve {o : Obj K} {b1 : Basis K} (hb : o.bases = #[b1])
    (hv1 : b1.Valid) {dim : ℕ} (hs : o.cps.shape = [b1.numFunctions, dim + 1])
    (hr : o.rational = true)
    (hw : ∀ j1, j1 < b1.numFunctions → 0 < o.cps.get (j1 * (dim + 1) + dim))
    {tol : K} (htol : 0 < tol) {us : List K} (hus : ∀ u ∈ us, b1.Admissible tol u)
    (hne1 : b1.periodic < 0 → us ≠ []) :
    ∃ res, o.evaluate tol [us] true = .ok res ∧
      res.shape = [us.length, dim] ∧ res.data.size = us.length * dim ∧
      ∀ i1, i1 < us.length →
        0 < (∑ j1 ∈ Finset.range b1.numFunctions,
              b1.specRow (us.getD i1 0) j1 * o.cps.get (j1 * (dim + 1) + dim)) ∧
        ∀ c, c < dim →
          res.get (i1 * dim + c)
            = (∑ j1 ∈ Finset.range b1.numFunctions,
                b1.specRow (us.getD i1 0) j1 * o.cps.get (j1 * (dim + 1) + c))
              / (∑ j1 ∈ Finset.range b1.numFunctions,
                b1.specRow (us.getD i1 0) j1 * o.cps.get (j1 * (dim + 1) + dim)) :=
  Obj.evaluate1_spec_rational hb hv1 hs hr hw htol hus

/-- Rational surface, all weights positive. -/
theorem C02_rational_surface {o : Obj K} {b1 b2 : Basis K} (hb : o.bases = #[b1, b2])
    (hv1 : b1.Valid) (hv2 : b2.Valid) {dim : ℕ}
    (hs : o.cps.shape = [b1.numFunctions, b2.numFunctions, dim + 1]) (hr : o.rational = true)
    (hw : ∀ j1 j2, j1 < b1.numFunctions → j2 < b2.numFunctions →
      0 < o.cps.get ((j1 * b2.numFunctions + j2) * (dim + 1) + dim))
    {tol : K} (htol : 0 < tol) {us vs : List K}
    (hus : ∀ u ∈ us, b1.Admissible tol u) (hvs : ∀ v ∈ vs, b2.Admissible tol v)
    (hne1 : b1.periodic < 0 → us ≠ [])
    (hne2 : b2.periodic < 0 → vs ≠ []) :
    ∃ res, o.evaluate tol [us, vs] true = .ok res ∧
      res.shape = [us.length, vs.length, dim] ∧ res.data.size = us.length * vs.length * dim ∧
      ∀ i1 i2, i1 < us.length → i2 < vs.length →
        0 < (∑ j1 ∈ Finset.range b1.numFunctions, ∑ j2 ∈ Finset.range b2.numFunctions,
              b1.specRow (us.getD i1 0) j1 * b2.specRow (vs.getD i2 0) j2
                * o.cps.get ((j1 * b2.numFunctions + j2) * (dim + 1) + dim)) ∧
        ∀ c, c < dim →
          res.get ((i1 * vs.length + i2) * dim + c)
            = (∑ j1 ∈ Finset.range b1.numFunctions, ∑ j2 ∈ Finset.range b2.numFunctions,
                b1.specRow (us.getD i1 0) j1 * b2.specRow (vs.getD i2 0) j2
                  * o.cps.get ((j1 * b2.numFunctions + j2) * (dim + 1) + c))
              / (∑ j1 ∈ Finset.range b1.numFunctions, ∑ j2 ∈ Finset.range b2.numFunctions,
                b1.specRow (us.getD i1 0) j1 * b2.specRow (vs.getD i2 0) j2
                  * o.cps.get ((j1 * b2.numFunctions + j2) * (dim + 1) + dim)) :=
  Obj.evaluate2_spec_rational hb hv1 hv2 hs hr hw htol hus hvs

/-- Rational volume, all weights positive. -/
theorem C02_rational_volume {o : Obj K} {b1 b2 b3 : Basis K}
    (hb : o.bases = #[b1, b2, b3]) (hv1 : b1.Valid) (hv2 : b2.Valid) (hv3 : b3.Valid) {dim : ℕ}
    (hs : o.cps.shape = [b1.numFunctions, b2.numFunctions, b3.numFunctions, dim + 1])
    (hr : o.rational = true)
    (hw : ∀ j1 j2 j3, j1 < b1.numFunctions → j2 < b2.numFunctions → j3 < b3.numFunctions →
      0 < o.cps.get (((j1 * b2.numFunctions + j2) * b3.numFunctions + j3) * (dim + 1) + dim))
    {tol : K} (htol : 0 < tol) {us vs ws : List K}
    (hus : ∀ u ∈ us, b1.Admissible tol u) (hvs : ∀ v ∈ vs, b2.Admissible tol v)
    (hws : ∀ w ∈ ws, b3.Admissible tol w)
    (hne1 : b1.periodic < 0 → us ≠ [])
    (hne2 : b2.periodic < 0 → vs ≠ [])
    (hne3 : b3.periodic < 0 → ws ≠ []) :
    ∃ res, o.evaluate tol [us, vs, ws] true = .ok res ∧
      res.shape = [us.length, vs.length, ws.length, dim] ∧
      res.data.size = us.length * vs.length * ws.length * dim ∧
      ∀ i1 i2 i3, i1 < us.length → i2 < vs.length → i3 < ws.length →
        0 < (∑ j1 ∈ Finset.range b1.numFunctions, ∑ j2 ∈ Finset.range b2.numFunctions,
            ∑ j3 ∈ Finset.range b3.numFunctions,
              b1.specRow (us.getD i1 0) j1 * b2.specRow (vs.getD i2 0) j2
                * b3.specRow (ws.getD i3 0) j3
                * o.cps.get (((j1 * b2.numFunctions + j2) * b3.numFunctions + j3) * (dim + 1)
                    + dim)) ∧
        ∀ c, c < dim →
          res.get (((i1 * vs.length + i2) * ws.length + i3) * dim + c)
            = (∑ j1 ∈ Finset.range b1.numFunctions, ∑ j2 ∈ Finset.range b2.numFunctions,
                ∑ j3 ∈ Finset.range b3.numFunctions,
                  b1.specRow (us.getD i1 0) j1 * b2.specRow (vs.getD i2 0) j2
                    * b3.specRow (ws.getD i3 0) j3
                    * o.cps.get (((j1 * b2.numFunctions + j2) * b3.numFunctions + j3) * (dim + 1)
                        + c))
              / (∑ j1 ∈ Finset.range b1.numFunctions, ∑ j2 ∈ Finset.range b2.numFunctions,
                ∑ j3 ∈ Finset.range b3.numFunctions,
                  b1.specRow (us.getD i1 0) j1 * b2.specRow (vs.getD i2 0) j2
                    * b3.specRow (ws.getD i3 0) j3
                    * o.cps.get (((j1 * b2.numFunctions + j2) * b3.numFunctions + j3) * (dim + 1)
                        + dim)) :=
  Obj.evaluate3_spec_rational hb hv1 hv2 hv3 hs hr hw htol hus hvs hws

/-! ## `C02_periodic_wraps` — periodic directions wrap by the period -/

/-- The specification row of a periodic basis depends on the parameter only modulo the period
(the domain end `stop` itself is evaluated as the left limit, hence the two exclusions). -/
theorem C02_specRow_add_period {b : Basis K} (hv : b.Valid) (hper : 0 ≤ b.periodic) (u : K)
    (m : ℤ) (h1 : u ≠ b.stop) (h2 : u + m * (b.stop - b.start) ≠ b.stop) (j : ℕ) :
    b.specRow (u + m * (b.stop - b.start)) j = b.specRow u j :=
  Basis.specRow_add_period hv hper u m h1 h2 j

/-- Periodic basis whose seam is continuous (`b.SeamContinuous tol`: the seam knot has multiplicity
`< order`, and `start`, `stop` are exact): the code's basis row is invariant under shifts by whole
periods at EVERY exact parameter, the domain end `stop` included (uses the C08 seam lemma
`evaluate_value_shift`). -/
theorem C02_rowVal_add_period {b : Basis K} (hv : b.Valid) (hper : 0 ≤ b.periodic) {tol : K}
    (htol : 0 < tol) (hseam : b.SeamContinuous tol) {u : K} (m : ℤ) (hex : b.ExactAt tol u)
    (hex' : b.ExactAt tol (u + m * (b.stop - b.start))) (j : ℕ) :
    b.rowVal tol (u + m * (b.stop - b.start)) j = b.rowVal tol u j :=
  Basis.rowVal_add_period hv hper htol hseam m hex hex' j

/-- Curve: shifting every parameter `u` by `m u` whole periods does not change the result of
`evaluate`, in either calling form.  `b.ShiftOK tol us m` is: nothing is shifted (`∀ u ∈ us, m u = 0`),
or the direction is periodic, all original and shifted parameters are exact, and EITHER none of them
is the domain end `stop` OR the seam is continuous (`b.SeamContinuous tol`, which is necessary at
`stop`: with a seam knot of full multiplicity the row at `stop` is the left limit and differs from
the row at `start = stop - T`). -/
theorem C02_periodic_wraps_curve {o : Obj K} {b1 : Basis K} (hb : o.bases = #[b1])
    (hv1 : b1.Valid) {tol : K} (htol : 0 < tol) (us : List K)
    (m1 : K → ℤ) (h1 : b1.ShiftOK tol us m1) (tensor : Bool) :
    o.evaluate tol [us.map (fun u => u + m1 u * (b1.stop - b1.start))] tensor
      = o.evaluate tol [us] tensor :=
  Obj.evaluate1_periodic_shift hb hv1 htol us m1 h1 tensor

/-- Surface: the same, direction by direction. -/
theorem C02_periodic_wraps_surface {o : Obj K} {b1 b2 : Basis K} (hb : o.bases = #[b1, b2])
    (hv1 : b1.Valid) (hv2 : b2.Valid) {tol : K} (htol : 0 < tol) (us vs : List K)
    (m1 m2 : K → ℤ) (h1 : b1.ShiftOK tol us m1) (h2 : b2.ShiftOK tol vs m2) (tensor : Bool) :
    o.evaluate tol [us.map (fun u => u + m1 u * (b1.stop - b1.start)),
                    vs.map (fun v => v + m2 v * (b2.stop - b2.start))] tensor
      = o.evaluate tol [us, vs] tensor :=
  Obj.evaluate2_periodic_shift hb hv1 hv2 htol us vs m1 m2 h1 h2 tensor

/-- Volume: the same, direction by direction. -/
theorem C02_periodic_wraps_volume {o : Obj K} {b1 b2 b3 : Basis K}
    (hb : o.bases = #[b1, b2, b3]) (hv1 : b1.Valid) (hv2 : b2.Valid) (hv3 : b3.Valid) {tol : K}
    (htol : 0 < tol) (us vs ws : List K) (m1 m2 m3 : K → ℤ) (h1 : b1.ShiftOK tol us m1)
    (h2 : b2.ShiftOK tol vs m2) (h3 : b3.ShiftOK tol ws m3) (tensor : Bool) :
    o.evaluate tol [us.map (fun u => u + m1 u * (b1.stop - b1.start)),
                    vs.map (fun v => v + m2 v * (b2.stop - b2.start)),
                    ws.map (fun w => w + m3 w * (b3.stop - b3.start))] tensor
      = o.evaluate tol [us, vs, ws] tensor :=
  Obj.evaluate3_periodic_shift hb hv1 hv2 hv3 htol us vs ws m1 m2 m3 h1 h2 h3 tensor

/-! ## 7. `C02_identity_map` — no control points given -/

/-- The model's `greville()` returns the Greville abscissae `ξ_i = (τ_{i+1}+…+τ_{i+p-1})/(p-1)` of
the specification (order ≥ 2; for order 1 Python divides by zero). -/
theorem C02_greville {b : Basis K} (hp : 2 ≤ b.order) :
    b.greville = .ok (Array.ofFn (n := b.numFunctions)
      (fun i => grevilleAbscissa b.kn (b.order - 1) i.val)) :=
  Basis.greville_eq b hp

/-- Default curve of a valid non-periodic basis of order ≥ 2: the constructor succeeds, the
control points are `(ξ_j, 0)`, and evaluation at exact in-domain parameters returns `(u, 0)`. -/
theorem C02_identity_map_curve (b : Basis K) (hv : b.Valid) (hper : b.periodic = -1)
    (hp : 2 ≤ b.order) {tol : K} (htol : 0 < tol) {us : List K}
    (hus : ∀ u ∈ us, b.ExactAt tol u ∧ b.start ≤ u ∧ u ≤ b.stop) (hne : us ≠ []) :
    ∃ o res, Obj.default #[b] false = .ok o ∧
      o.bases = #[b] ∧ o.rational = false ∧ o.cps.shape = [b.numFunctions, 2] ∧
      (∀ j, j < b.numFunctions →
        o.cps.get (j * 2 + 0) = grevilleAbscissa b.kn (b.order - 1) j ∧
        o.cps.get (j * 2 + 1) = 0) ∧
      o.evaluate tol [us] true = .ok res ∧ res.shape = [us.length, 2] ∧
      ∀ i, i < us.length → res.get (i * 2 + 0) = us.getD i 0 ∧ res.get (i * 2 + 1) = 0 :=
  Obj.default_curve_identity b hv hper hp htol hus hne

/-- Default rational curve: control points `(ξ_j, 0, 1)`; evaluation returns `(u, 0)`. -/
theorem C02_identity_map_curve_rational (b : Basis K) (hv : b.Valid) (hper : b.periodic = -1)
    (hp : 2 ≤ b.order) {tol : K} (htol : 0 < tol) {us : List K}
    (hus : ∀ u ∈ us, b.ExactAt tol u ∧ b.start ≤ u ∧ u ≤ b.stop) (hne : us ≠ []) :
    ∃ o res, Obj.default #[b] true = .ok o ∧
      o.bases = #[b] ∧ o.rational = true ∧ o.cps.shape = [b.numFunctions, 3] ∧
      (∀ j, j < b.numFunctions →
        o.cps.get (j * 3 + 0) = grevilleAbscissa b.kn (b.order - 1) j ∧
        o.cps.get (j * 3 + 1) = 0 ∧ o.cps.get (j * 3 + 2) = 1) ∧
      o.evaluate tol [us] true = .ok res ∧ res.shape = [us.length, 2] ∧
      ∀ i, i < us.length → res.get (i * 2 + 0) = us.getD i 0 ∧ res.get (i * 2 + 1) = 0 :=
  Obj.default_curve_identity_rational b hv hper hp htol hus hne

/-- Default surface of two valid non-periodic bases of order ≥ 2: control points
`(ξ¹_{j₁}, ξ²_{j₂})`; evaluation at exact in-domain parameters returns `(u, v)`. -/
theorem C02_identity_map_surface (b1 b2 : Basis K) (hv1 : b1.Valid) (hv2 : b2.Valid)
    (hper1 : b1.periodic = -1) (hper2 : b2.periodic = -1) (hp1 : 2 ≤ b1.order)
    (hp2 : 2 ≤ b2.order) {tol : K} (htol : 0 < tol) {us vs : List K}
    (hus : ∀ u ∈ us, b1.ExactAt tol u ∧ b1.start ≤ u ∧ u ≤ b1.stop)
    (hvs : ∀ v ∈ vs, b2.ExactAt tol v ∧ b2.start ≤ v ∧ v ≤ b2.stop)
    (hne1 : us ≠ []) (hne2 : vs ≠ []) :
    ∃ o res, Obj.default #[b1, b2] false = .ok o ∧
      o.bases = #[b1, b2] ∧ o.rational = false ∧
      o.cps.shape = [b1.numFunctions, b2.numFunctions, 2] ∧
      (∀ j1 j2, j1 < b1.numFunctions → j2 < b2.numFunctions →
        o.cps.get ((j1 * b2.numFunctions + j2) * 2 + 0)
          = grevilleAbscissa b1.kn (b1.order - 1) j1 ∧
        o.cps.get ((j1 * b2.numFunctions + j2) * 2 + 1)
          = grevilleAbscissa b2.kn (b2.order - 1) j2) ∧
      o.evaluate tol [us, vs] true = .ok res ∧ res.shape = [us.length, vs.length, 2] ∧
      ∀ i1 i2, i1 < us.length → i2 < vs.length →
        res.get ((i1 * vs.length + i2) * 2 + 0) = us.getD i1 0 ∧
        res.get ((i1 * vs.length + i2) * 2 + 1) = vs.getD i2 0 :=
  Obj.default_surface_identity b1 b2 hv1 hv2 hper1 hper2 hp1 hp2 htol hus hvs hne1 hne2

/-- Default rational surface: control points `(ξ¹_{j₁}, ξ²_{j₂}, 1)`; evaluation returns `(u, v)`. -/
theorem C02_identity_map_surface_rational (b1 b2 : Basis K) (hv1 : b1.Valid) (hv2 : b2.Valid)
    (hper1 : b1.periodic = -1) (hper2 : b2.periodic = -1) (hp1 : 2 ≤ b1.order)
    (hp2 : 2 ≤ b2.order) {tol : K} (htol : 0 < tol) {us vs : List K}
    (hus : ∀ u ∈ us, b1.ExactAt tol u ∧ b1.start ≤ u ∧ u ≤ b1.stop)
    (hvs : ∀ v ∈ vs, b2.ExactAt tol v ∧ b2.start ≤ v ∧ v ≤ b2.stop)
    (hne1 : us ≠ []) (hne2 : vs ≠ []) :
    ∃ o res, Obj.default #[b1, b2] true = .ok o ∧
      o.bases = #[b1, b2] ∧ o.rational = true ∧
      o.cps.shape = [b1.numFunctions, b2.numFunctions, 3] ∧
      (∀ j1 j2, j1 < b1.numFunctions → j2 < b2.numFunctions →
        o.cps.get ((j1 * b2.numFunctions + j2) * 3 + 0)
          = grevilleAbscissa b1.kn (b1.order - 1) j1 ∧
        o.cps.get ((j1 * b2.numFunctions + j2) * 3 + 1)
          = grevilleAbscissa b2.kn (b2.order - 1) j2 ∧
        o.cps.get ((j1 * b2.numFunctions + j2) * 3 + 2) = 1) ∧
      o.evaluate tol [us, vs] true = .ok res ∧ res.shape = [us.length, vs.length, 2] ∧
      ∀ i1 i2, i1 < us.length → i2 < vs.length →
        res.get ((i1 * vs.length + i2) * 2 + 0) = us.getD i1 0 ∧
        res.get ((i1 * vs.length + i2) * 2 + 1) = vs.getD i2 0 :=
  Obj.default_surface_identity_rational b1 b2 hv1 hv2 hper1 hper2 hp1 hp2 htol hus hvs hne1 hne2

/-- Default volume of three valid non-periodic bases of order ≥ 2: control points
`(ξ¹_{j₁}, ξ²_{j₂}, ξ³_{j₃})`; evaluation at exact in-domain parameters returns `(u, v, w)`. -/
theorem C02_identity_map_volume (b1 b2 b3 : Basis K) (hv1 : b1.Valid) (hv2 : b2.Valid)
    (hv3 : b3.Valid) (hper1 : b1.periodic = -1) (hper2 : b2.periodic = -1)
    (hper3 : b3.periodic = -1) (hp1 : 2 ≤ b1.order) (hp2 : 2 ≤ b2.order) (hp3 : 2 ≤ b3.order)
    {tol : K} (htol : 0 < tol) {us vs ws : List K}
    (hus : ∀ u ∈ us, b1.ExactAt tol u ∧ b1.start ≤ u ∧ u ≤ b1.stop)
    (hvs : ∀ v ∈ vs, b2.ExactAt tol v ∧ b2.start ≤ v ∧ v ≤ b2.stop)
    (hws : ∀ w ∈ ws, b3.ExactAt tol w ∧ b3.start ≤ w ∧ w ≤ b3.stop)
    (hne1 : us ≠ []) (hne2 : vs ≠ []) (hne3 : ws ≠ []) :
    ∃ o res, Obj.default #[b1, b2, b3] false = .ok o ∧
      o.bases = #[b1, b2, b3] ∧ o.rational = false ∧
      o.cps.shape = [b1.numFunctions, b2.numFunctions, b3.numFunctions, 3] ∧
      (∀ j1 j2 j3, j1 < b1.numFunctions → j2 < b2.numFunctions → j3 < b3.numFunctions →
        o.cps.get (((j1 * b2.numFunctions + j2) * b3.numFunctions + j3) * 3 + 0)
          = grevilleAbscissa b1.kn (b1.order - 1) j1 ∧
        o.cps.get (((j1 * b2.numFunctions + j2) * b3.numFunctions + j3) * 3 + 1)
          = grevilleAbscissa b2.kn (b2.order - 1) j2 ∧
        o.cps.get (((j1 * b2.numFunctions + j2) * b3.numFunctions + j3) * 3 + 2)
          = grevilleAbscissa b3.kn (b3.order - 1) j3) ∧
      o.evaluate tol [us, vs, ws] true = .ok res ∧
      res.shape = [us.length, vs.length, ws.length, 3] ∧
      ∀ i1 i2 i3, i1 < us.length → i2 < vs.length → i3 < ws.length →
        res.get (((i1 * vs.length + i2) * ws.length + i3) * 3 + 0) = us.getD i1 0 ∧
        res.get (((i1 * vs.length + i2) * ws.length + i3) * 3 + 1) = vs.getD i2 0 ∧
        res.get (((i1 * vs.length + i2) * ws.length + i3) * 3 + 2) = ws.getD i3 0 :=
  Obj.default_volume_identity b1 b2 b3 hv1 hv2 hv3 hper1 hper2 hper3 hp1 hp2 hp3 htol hus hvs hws
    hne1 hne2 hne3

/-- Default rational volume: control points `(ξ¹_{j₁}, ξ²_{j₂}, ξ³_{j₃}, 1)`; evaluation returns
`(u, v, w)`. -/
theorem C02_identity_map_volume_rational (b1 b2 b3 : Basis K) (hv1 : b1.Valid) (hv2 : b2.Valid)
    (hv3 : b3.Valid) (hper1 : b1.periodic = -1) (hper2 : b2.periodic = -1)
    (hper3 : b3.periodic = -1) (hp1 : 2 ≤ b1.order) (hp2 : 2 ≤ b2.order) (hp3 : 2 ≤ b3.order)
    {tol : K} (htol : 0 < tol) {us vs ws : List K}
    (hus : ∀ u ∈ us, b1.ExactAt tol u ∧ b1.start ≤ u ∧ u ≤ b1.stop)
    (hvs : ∀ v ∈ vs, b2.ExactAt tol v ∧ b2.start ≤ v ∧ v ≤ b2.stop)
    (hws : ∀ w ∈ ws, b3.ExactAt tol w ∧ b3.start ≤ w ∧ w ≤ b3.stop)
    (hne1 : us ≠ []) (hne2 : vs ≠ []) (hne3 : ws ≠ []) :
    ∃ o res, Obj.default #[b1, b2, b3] true = .ok o ∧
      o.bases = #[b1, b2, b3] ∧ o.rational = true ∧
      o.cps.shape = [b1.numFunctions, b2.numFunctions, b3.numFunctions, 4] ∧
      (∀ j1 j2 j3, j1 < b1.numFunctions → j2 < b2.numFunctions → j3 < b3.numFunctions →
        o.cps.get (((j1 * b2.numFunctions + j2) * b3.numFunctions + j3) * 4 + 0)
          = grevilleAbscissa b1.kn (b1.order - 1) j1 ∧
        o.cps.get (((j1 * b2.numFunctions + j2) * b3.numFunctions + j3) * 4 + 1)
          = grevilleAbscissa b2.kn (b2.order - 1) j2 ∧
        o.cps.get (((j1 * b2.numFunctions + j2) * b3.numFunctions + j3) * 4 + 2)
          = grevilleAbscissa b3.kn (b3.order - 1) j3 ∧
        o.cps.get (((j1 * b2.numFunctions + j2) * b3.numFunctions + j3) * 4 + 3) = 1) ∧
      o.evaluate tol [us, vs, ws] true = .ok res ∧
      res.shape = [us.length, vs.length, ws.length, 3] ∧
      ∀ i1 i2 i3, i1 < us.length → i2 < vs.length → i3 < ws.length →
        res.get (((i1 * vs.length + i2) * ws.length + i3) * 3 + 0) = us.getD i1 0 ∧
        res.get (((i1 * vs.length + i2) * ws.length + i3) * 3 + 1) = vs.getD i2 0 ∧
        res.get (((i1 * vs.length + i2) * ws.length + i3) * 3 + 2) = ws.getD i3 0 :=
  Obj.default_volume_identity_rational b1 b2 b3 hv1 hv2 hv3 hper1 hper2 hper3 hp1 hp2 hp3 htol
    hus hvs hws hne1 hne2 hne3

omit [LinearOrder K] [IsStrictOrderedRing K] [FloorRing K] in
/-- Order-1 bases have no Greville points: the constructor without control points raises
`ZeroDivisionError` (so `2 ≤ order` in `C02_identity_map_*` is necessary). -/
theorem C02_identity_map_order_one_raises (b : Basis K) (hp : b.order = 1)
    (hn : 0 < b.numFunctions) (rational : Bool) :
    Obj.default #[b] rational = .error .zeroDiv := by
  have hg : b.greville = .error .zeroDiv := by
    unfold Basis.greville
    simp only []
    rw [if_pos ⟨hp, hn⟩]
  unfold Obj.default
  simp [List.mapM_cons, hg]

/-! ## 8. `C02_bounding_box` -/

/-- Convex combinations stay between the bounds of the combined values. -/
theorem C02_convex_combination_bounds (n : ℕ) (w x : ℕ → K) (lo hi : K)
    (hw : ∀ j, j < n → 0 ≤ w j) (hs : ∑ j ∈ Finset.range n, w j = 1)
    (hx : ∀ j, j < n → lo ≤ x j ∧ x j ≤ hi) :
    lo ≤ ∑ j ∈ Finset.range n, w j * x j ∧ ∑ j ∈ Finset.range n, w j * x j ≤ hi :=
  ⟨le_convex_sum n w x lo hw hs (fun j hj => (hx j hj).1),
    convex_sum_le n w x hi hw hs (fun j hj => (hx j hj).2)⟩

/-- What `bounding_box()` reports for coordinate `c`: bounds of that coordinate over all control
points (`pI` = flat point index). -/
theorem C02_bounding_box_spec (o : Obj K) {c pI : ℕ} (hc : c < o.dimension)
    (hp : pI < o.cps.size / o.ncomp) :
    ((o.boundingBox).getD c (0, 0)).1 ≤ o.cps.get (pI * o.ncomp + c) ∧
      o.cps.get (pI * o.ncomp + c) ≤ ((o.boundingBox).getD c (0, 0)).2 :=
  boundingBox_spec o hc hp

/-- Non-rational curve: every coordinate of every evaluated point lies in the reported box. -/
theorem C02_bounding_box_curve {o : Obj K} {b1 : Basis K} (hb : o.bases = #[b1])
    (hv1 : b1.Valid) {nc : ℕ} (hs : o.cps.shape = [b1.numFunctions, nc])
    (hr : o.rational = false) {tol : K} (htol : 0 < tol) {us : List K}
    (hus : ∀ u ∈ us, b1.Admissible tol u)
    (hne1 : b1.periodic < 0 → us ≠ []) :
    ∃ res, o.evaluate tol [us] true = .ok res ∧
      ∀ i1 c, i1 < us.length → c < nc →
        ((o.boundingBox).getD c (0, 0)).1 ≤ res.get (i1 * nc + c) ∧
        res.get (i1 * nc + c) ≤ ((o.boundingBox).getD c (0, 0)).2 :=
  Obj.evaluate1_in_bbox hb hv1 hs hr htol hus

/-- Non-rational surface. -/
theorem C02_bounding_box_surface {o : Obj K} {b1 b2 : Basis K} (hb : o.bases = #[b1, b2])
    (hv1 : b1.Valid) (hv2 : b2.Valid) {nc : ℕ}
    (hs : o.cps.shape = [b1.numFunctions, b2.numFunctions, nc]) (hr : o.rational = false)
    {tol : K} (htol : 0 < tol) {us vs : List K}
    (hus : ∀ u ∈ us, b1.Admissible tol u) (hvs : ∀ v ∈ vs, b2.Admissible tol v)
    (hne1 : b1.periodic < 0 → us ≠ [])
    (hne2 : b2.periodic < 0 → vs ≠ []) :
    ∃ res, o.evaluate tol [us, vs] true = .ok res ∧
      ∀ i1 i2 c, i1 < us.length → i2 < vs.length → c < nc →
        ((o.boundingBox).getD c (0, 0)).1 ≤ res.get ((i1 * vs.length + i2) * nc + c) ∧
        res.get ((i1 * vs.length + i2) * nc + c) ≤ ((o.boundingBox).getD c (0, 0)).2 :=
  Obj.evaluate2_in_bbox hb hv1 hv2 hs hr htol hus hvs

/-- Non-rational volume. -/
theorem C02_bounding_box_volume {o : Obj K} {b1 b2 b3 : Basis K}
    (hb : o.bases = #[b1, b2, b3]) (hv1 : b1.Valid) (hv2 : b2.Valid) (hv3 : b3.Valid) {nc : ℕ}
    (hs : o.cps.shape = [b1.numFunctions, b2.numFunctions, b3.numFunctions, nc])
    (hr : o.rational = false) {tol : K} (htol : 0 < tol) {us vs ws : List K}
    (hus : ∀ u ∈ us, b1.Admissible tol u) (hvs : ∀ v ∈ vs, b2.Admissible tol v)
    (hws : ∀ w ∈ ws, b3.Admissible tol w)
    (hne1 : b1.periodic < 0 → us ≠ [])
    (hne2 : b2.periodic < 0 → vs ≠ [])
    (hne3 : b3.periodic < 0 → ws ≠ []) :
    ∃ res, o.evaluate tol [us, vs, ws] true = .ok res ∧
      ∀ i1 i2 i3 c, i1 < us.length → i2 < vs.length → i3 < ws.length → c < nc →
        ((o.boundingBox).getD c (0, 0)).1
            ≤ res.get (((i1 * vs.length + i2) * ws.length + i3) * nc + c) ∧
        res.get (((i1 * vs.length + i2) * ws.length + i3) * nc + c)
            ≤ ((o.boundingBox).getD c (0, 0)).2 :=
  Obj.evaluate3_in_bbox hb hv1 hv2 hv3 hs hr htol hus hvs hws



/-! ## Non-vacuity: concrete objects over `ℚ` meeting the hypotheses -/

/-- Linear basis on `[0,1]` (two functions). -/
def C02_exLin : Basis ℚ := ⟨2, #[0, 0, 1, 1], -1⟩

theorem C02_exLin_valid : C02_exLin.Valid where
  order_pos := by decide
  size_ge := by decide
  sorted := by
    intro i hi
    have hi' : i + 1 < 4 := hi
    have hi'' : i < 3 := by omega
    interval_cases i <;> norm_num [Basis.kn, C02_exLin]
  periodic_ge := by decide
  periodic_le := by decide
  start_lt_stop := by norm_num [Basis.start, Basis.stop, Basis.kn, C02_exLin]
  ghosts := fun h => absurd h (by decide)

theorem C02_exLin_start : C02_exLin.start = 0 := by norm_num [Basis.start, Basis.kn, C02_exLin]
theorem C02_exLin_stop : C02_exLin.stop = 1 := by norm_num [Basis.stop, Basis.kn, C02_exLin]

theorem C02_exLin_exact_half : C02_exLin.ExactAt (1/1000) (1/2) := by
  intro i hi
  have hi' : i < 4 := hi
  interval_cases i <;> norm_num [Basis.kn, C02_exLin, abs_of_nonneg, abs_of_neg]

theorem C02_exLin_exact_one : C02_exLin.ExactAt (1/1000) 1 := by
  intro i hi
  have hi' : i < 4 := hi
  interval_cases i <;> norm_num [Basis.kn, C02_exLin, abs_of_nonneg, abs_of_neg]

theorem C02_exLin_adm : ∀ u ∈ [(1/2 : ℚ), 1], C02_exLin.Admissible (1/1000) u := by
  intro u hu
  simp only [List.mem_cons, List.not_mem_nil, or_false] at hu
  rcases hu with rfl | rfl
  · exact ⟨C02_exLin_exact_half, fun _ => by rw [C02_exLin_start, C02_exLin_stop]; norm_num,
      fun h => absurd h (by decide)⟩
  · exact ⟨C02_exLin_exact_one, fun _ => by rw [C02_exLin_start, C02_exLin_stop]; norm_num,
      fun h => absurd h (by decide)⟩

theorem C02_exOpen_adm : ∀ u ∈ [(1/2 : ℚ), 3], C01_exOpen.Admissible (1/1000) u := by
  intro u hu
  simp only [List.mem_cons, List.not_mem_nil, or_false] at hu
  rcases hu with rfl | rfl
  · exact ⟨C01_exOpen_exact_half, fun _ => by rw [C01_exOpen_start, C01_exOpen_stop]; norm_num,
      fun h => absurd h (by decide)⟩
  · exact ⟨C01_exOpen_exact_stop, fun _ => by rw [C01_exOpen_start, C01_exOpen_stop]; norm_num,
      fun h => absurd h (by decide)⟩

theorem C02_exPer_adm : ∀ u ∈ [(7/2 : ℚ)], C01_exPer.Admissible (1/1000) u := by
  intro u hu
  simp only [List.mem_cons, List.not_mem_nil, or_false] at hu
  subst hu
  exact ⟨C01_exPer_exact_seven_halves, fun h => absurd h (by decide),
    fun _ => by rw [C01_exPer_wrap]; exact C01_exPer_exact_half⟩

/-- Non-rational quadratic curve in the plane (6 control points). -/
def C02_exCurve : Obj ℚ :=
  ⟨#[C01_exOpen], ⟨[6, 2], #[0,0, 1,2, 2,1, 3,3, 4,0, 5,1]⟩, false⟩

/-- Rational quadratic curve in the plane (6 control points, weights 1,2,1,1,3,1). -/
def C02_exCurveRat : Obj ℚ :=
  ⟨#[C01_exOpen], ⟨[6, 3], #[0,0,1, 1,2,2, 2,1,1, 3,3,1, 4,0,3, 5,1,1]⟩, true⟩

/-- Periodic non-rational curve (4 control points). -/
def C02_exCurvePer : Obj ℚ := ⟨#[C01_exPer], ⟨[4, 2], #[0,0, 1,0, 1,1, 0,1]⟩, false⟩

/-- Bilinear surfaces (2 × 2 control points), non-rational in 3-space and rational in the plane. -/
def C02_exSurf : Obj ℚ :=
  ⟨#[C02_exLin, C02_exLin], ⟨[2, 2, 3], #[0,0,0, 0,1,1, 1,0,2, 1,1,5]⟩, false⟩

def C02_exSurfRat : Obj ℚ :=
  ⟨#[C02_exLin, C02_exLin], ⟨[2, 2, 3], #[0,0,1, 0,1,2, 1,0,1, 2,2,2]⟩, true⟩

/-- Trilinear volumes (2 × 2 × 2 control points). -/
def C02_exVol : Obj ℚ :=
  ⟨#[C02_exLin, C02_exLin, C02_exLin],
    ⟨[2, 2, 2, 1], #[0, 1, 2, 3, 4, 5, 6, 7]⟩, false⟩

def C02_exVolRat : Obj ℚ :=
  ⟨#[C02_exLin, C02_exLin, C02_exLin],
    ⟨[2, 2, 2, 2], #[0,1, 1,1, 2,2, 3,1, 4,1, 5,3, 6,1, 7,1]⟩, true⟩

/-- Periodic × open surface and open × periodic × open volume (one component). -/
def C02_exSurfPer : Obj ℚ :=
  ⟨#[C01_exPer, C02_exLin], ⟨[4, 2, 1], #[0, 1, 2, 3, 4, 5, 6, 7]⟩, false⟩

def C02_exVolPer : Obj ℚ :=
  ⟨#[C02_exLin, C01_exPer, C02_exLin],
    ⟨[2, 4, 2, 1], #[0, 1, 2, 3, 4, 5, 6, 7, 8, 9, 10, 11, 12, 13, 14, 15]⟩, false⟩

theorem C02_exLin_separated : C02_exLin.Separated (1/1000) := by
  intro i j hi hj
  have hi' : i < 4 := hi
  have hj' : j < 4 := hj
  interval_cases i <;> interval_cases j <;>
    norm_num [Basis.kn, C02_exLin, abs_of_nonneg, abs_of_neg]

theorem C02_exPer_exact_three : C01_exPer.ExactAt (1/1000) 3 := by
  intro i hi
  have hi' : i < 8 := hi
  interval_cases i <;> norm_num [Basis.kn, C01_exPer, abs_of_nonneg, abs_of_neg]

theorem C02_exPer_exact_six : C01_exPer.ExactAt (1/1000) 6 := by
  intro i hi
  have hi' : i < 8 := hi
  interval_cases i <;> norm_num [Basis.kn, C01_exPer, abs_of_nonneg, abs_of_neg]

/-- The seam knot `0` of `C01_exPer` has multiplicity 2 < 3. -/
theorem C02_exPer_seam : C01_exPer.SeamContinuous (1/1000) := by
  refine ⟨?_, by rw [C01_exPer_start]; exact C01_exPer_exact_zero,
    by rw [C01_exPer_stop]; exact C02_exPer_exact_three⟩
  intro j hj h
  have hj' : j + 2 < 8 := hj
  have hj'' : j < 6 := by omega
  rw [C01_exPer_start] at h ⊢
  interval_cases j <;> simp [Basis.kn, C01_exPer] at h ⊢

/-- Shape and data / exception of a result, for the kernel-evaluated examples. -/
def C02_view (r : PyM (Tensor ℚ)) : Option (List ℕ × List ℚ) :=
  match r with | .ok t => some (t.shape, t.data.toList) | .error _ => none

def C02_err (r : PyM (Tensor ℚ)) : Option PyErr :=
  match r with | .ok _ => none | .error e => some e

/-! ### 1. index algebra -/

example := (C02_build3_readback [2, 3] 0 2 (fun a r i => ((a + r + i : ℕ) : ℚ)) (a := 0) (r := 1)
  (i := 2) (by decide) (by decide) (by decide) : _ = _)

example := (C02_applyAxis (K := ℚ) #[#[1, 2], #[3, 4], #[5, 6]] ⟨[2, 2], #[1, 0, 0, 1]⟩ 0
  (by decide) : _ ∧ _)

/-! ### 2. / 5. array-level contraction -/

example := (C02_tensor_eval_curve (K := ℚ) #[#[1, 2], #[3, 4]] ⟨[2, 1], #[5, 6]⟩ rfl : _ ∧ _)
example := (C02_tensor_eval_surface (K := ℚ) #[#[1, 2], #[3, 4]] #[#[1, 0]] ⟨[2, 1, 1], #[5, 6]⟩
  rfl : _ ∧ _)
example := (C02_tensor_eval_volume (K := ℚ) #[#[1, 2]] #[#[1]] #[#[2], #[3]]
  ⟨[2, 1, 1, 1], #[5, 6]⟩ rfl : _ ∧ _)

example : (Obj.contractGrid [#[#[1, 2], #[3, 4]], #[#[1, 0]]]
    (⟨[2, 1, 1], #[5, 6]⟩ : Tensor ℚ)).data = #[17, 39] := by decide +kernel

example := (C02_pointwise_is_diagonal_curve (K := ℚ) #[#[1, 2], #[3, 4]] ⟨[2, 1], #[5, 6]⟩ 2 rfl
  (i := 1) (c := 0) (by decide) (by decide) (by decide) : _ = _)

example := (C02_pointwise_is_diagonal_surface (K := ℚ) #[#[1, 2], #[3, 4]] #[#[1], #[2]]
  ⟨[2, 1, 1], #[5, 6]⟩ 2 rfl (i := 1) (c := 0) (by decide) (by decide) (by decide) (by decide)
  : _ = _)

example := (C02_pointwise_is_diagonal_volume (K := ℚ) #[#[1, 2], #[3, 4]] #[#[1], #[2]]
  #[#[1], #[1]] ⟨[2, 1, 1, 1], #[5, 6]⟩ 2 rfl (i := 1) (c := 0) (by decide) (by decide)
  (by decide) (by decide) (by decide) : _ = _)

example := (C02_pointwise_eval_surface (K := ℚ) #[#[1, 2], #[3, 4]] #[#[1], #[2]]
  ⟨[2, 1, 1], #[5, 6]⟩ 2 rfl : _ ∧ _)

example : (Obj.contractPointwise [#[#[1, 2], #[3, 4]], #[#[1], #[2]]]
    (⟨[2, 1, 1], #[5, 6]⟩ : Tensor ℚ) 2).data = #[17, 78] := by decide +kernel

/-! ### 6. error behaviour, including the empty-list forms (kernel-evaluated) -/

/-- C02_outside_raises: the parameter `4` is outside `[0, 3]`. -/
example : C02_exCurve.evaluate (1/1000) [[4]] true = .error .value := by
  rw [C02_outside_raises]
  right
  refine ⟨(C01_exOpen, [4]), by simp [C02_exCurve], by decide, Or.inr ⟨4, by simp, Or.inr ?_⟩⟩
  rw [snap_of_exact _ (by norm_num) C01_exOpen_exact_four, C01_exOpen_stop]
  norm_num

/-- C02_outside_raises: `tensor=False` with lists of different lengths. -/
example : C02_exSurf.evaluate (1/1000) [[1/2], [1/2, 1]] false = .error .value := by
  rw [C02_outside_raises]
  left
  exact ⟨rfl, by decide⟩

/-- C02_outside_raises / C02_empty_nonperiodic_raises: empty list in a non-periodic direction. -/
example : C02_exCurve.evaluate (1/1000) [[]] true = .error .value :=
  C02_empty_nonperiodic_raises C02_exCurve (1/1000) [[]] true (b := C01_exOpen)
    (by simp [C02_exCurve]) (by decide)

example : C02_exSurfPer.evaluate (1/1000) [[1/2], []] true = .error .value :=
  C02_empty_nonperiodic_raises C02_exSurfPer (1/1000) [[1/2], []] true (b := C02_exLin)
    (by simp [C02_exSurfPer]) (by decide)

/-- The empty-list table of the real code, evaluated by the kernel on the model.
Non-periodic direction empty ⇒ `ValueError` (tensor and pointwise). -/
example : C02_err (C02_exCurve.evaluate (1/1000) [[]] true) = some .value := by decide +kernel
example : C02_err (C02_exCurve.evaluate (1/1000) [[]] false) = some .value := by decide +kernel
example : C02_err (C02_exSurf.evaluate (1/1000) [[], [1/2]] true) = some .value := by
  decide +kernel
example : C02_err (C02_exSurf.evaluate (1/1000) [[1/2], []] true) = some .value := by
  decide +kernel
example : C02_err (C02_exSurf.evaluate (1/1000) [[], []] true) = some .value := by decide +kernel
example : C02_err (C02_exSurf.evaluate (1/1000) [[], []] false) = some .value := by
  decide +kernel
example : C02_err (C02_exVol.evaluate (1/1000) [[1/2], [], [1/2]] true) = some .value := by
  decide +kernel
example : C02_err (C02_exVol.evaluate (1/1000) [[], [], []] false) = some .value := by
  decide +kernel
/-- Pointwise form with lists of different lengths (one of them empty) ⇒ `ValueError`. -/
example : C02_err (C02_exSurfPer.evaluate (1/1000) [[], [1/2]] false) = some .value := by
  decide +kernel
/-- Periodic direction empty ⇒ success with a zero-length axis. -/
example : C02_view (C02_exCurvePer.evaluate (1/1000) [[]] true) = some ([0, 2], []) := by
  decide +kernel
example : C02_view (C02_exCurvePer.evaluate (1/1000) [[]] false) = some ([0, 2], []) := by
  decide +kernel
example : C02_view (C02_exSurfPer.evaluate (1/1000) [[], [1/2]] true) = some ([0, 1, 1], []) := by
  decide +kernel
example : C02_view (C02_exVolPer.evaluate (1/1000) [[1/2, 1], [], [1/2]] true)
    = some ([2, 0, 1, 1], []) := by decide +kernel
/-- Mixed: periodic direction empty but the non-periodic direction empty too ⇒ `ValueError`. -/
example : C02_err (C02_exSurfPer.evaluate (1/1000) [[], []] true) = some .value := by
  decide +kernel
example : C02_err (C02_exSurfPer.evaluate (1/1000) [[], []] false) = some .value := by
  decide +kernel
/-- Periodic direction empty, other direction outside its domain ⇒ `ValueError`. -/
example : C02_err (C02_exSurfPer.evaluate (1/1000) [[], [4]] true) = some .value := by
  decide +kernel

/-- C02_ok_otherwise / C02_error_is_value / C02_length_test. -/
example := C02_ok_otherwise C02_exCurve (1/1000) [[1/2, 3]] true (by simp)
  (Obj.not_outOfDomain1 rfl C01_exOpen_valid (by norm_num) C02_exOpen_adm)

example : PyErr.value = .value :=
  (C02_error_is_value C02_exCurve (1/1000) [[]] true .value
    (C02_empty_nonperiodic_raises C02_exCurve (1/1000) [[]] true (b := C01_exOpen)
      (by simp [C02_exCurve]) (by decide))).symm

example : (([[1, 2], [3, 4]] : List (List ℚ)).map List.length).eraseDups.length = 1 :=
  (C02_length_test _).mpr ⟨by simp, by simp⟩

/-- C02_periodic_accepts_any_real (+ pointwise form). -/
example := (C02_periodic_accepts_any_real C02_exCurvePer (1/1000) [[-100, 7/2, 1000]]
  (by intro b hb; simp [C02_exCurvePer] at hb; subst hb; decide) : ∃ _, _)

example := (C02_periodic_accepts_any_real_pointwise C02_exCurvePer (1/1000) [[-100, 7/2, 1000]]
  (by intro b hb; simp [C02_exCurvePer] at hb; subst hb; decide) (by decide) : ∃ _, _)

example : C02_view (C02_exCurvePer.evaluate (1/1000) [[-100, 7/2, 1000]] false)
    = some ([3, 2], [1/2, 1, 3/4, 1/8, 1, 1/2]) := by decide +kernel

/-! ### 2'. object-level entries (rows of the code) -/

example := (C02_tensor_eval_obj_curve (o := C02_exCurve) rfl (n1 := 6) (nc := 2) rfl rfl (1/1000)
  [1/2, 3] (Obj.not_outOfDomain1 rfl C01_exOpen_valid (by norm_num) C02_exOpen_adm) : ∃ _, _)

example := (C02_tensor_eval_obj_surface (o := C02_exSurf) rfl (n1 := 2) (n2 := 2) (nc := 3) rfl
  rfl (1/1000) [1/2, 1] [1/2, 1]
  (Obj.not_outOfDomain2 rfl C02_exLin_valid C02_exLin_valid (by norm_num) C02_exLin_adm
    C02_exLin_adm) : ∃ _, _)

example := (C02_tensor_eval_obj_volume (o := C02_exVol) rfl (n1 := 2) (n2 := 2) (n3 := 2)
  (nc := 1) rfl rfl (1/1000) [1/2, 1] [1/2, 1] [1/2, 1]
  (Obj.not_outOfDomain3 rfl C02_exLin_valid C02_exLin_valid C02_exLin_valid (by norm_num)
    C02_exLin_adm C02_exLin_adm C02_exLin_adm) : ∃ _, _)

example := (C02_rational_rows_curve (o := C02_exCurveRat) rfl (n1 := 6) (dim := 2) rfl rfl
  (1/1000) [1/2, 3]
  (Obj.not_outOfDomain1 rfl C01_exOpen_valid (by norm_num) C02_exOpen_adm) : ∃ _, _)

example := (C02_rational_rows_surface (o := C02_exSurfRat) rfl (n1 := 2) (n2 := 2) (dim := 2) rfl
  rfl (1/1000) [1/2, 1] [1/2, 1]
  (Obj.not_outOfDomain2 rfl C02_exLin_valid C02_exLin_valid (by norm_num) C02_exLin_adm
    C02_exLin_adm) : ∃ _, _)

example := (C02_rational_rows_volume (o := C02_exVolRat) rfl (n1 := 2) (n2 := 2) (n3 := 2)
  (dim := 1) rfl rfl (1/1000) [1/2, 1] [1/2, 1] [1/2, 1]
  (Obj.not_outOfDomain3 rfl C02_exLin_valid C02_exLin_valid C02_exLin_valid (by norm_num)
    C02_exLin_adm C02_exLin_adm C02_exLin_adm) : ∃ _, _)

/-- Pointwise = diagonal at object level (curve, rational surface, rational volume). -/
example := (C02_pointwise_is_diagonal_obj_curve (o := C02_exCurveRat) rfl (n1 := 6) (nc := 3) rfl
  (fun _ => by decide) (1/1000) [1/2, 3]
  (Obj.not_outOfDomain1 rfl C01_exOpen_valid (by norm_num) C02_exOpen_adm) : ∃ _, _)

example := (C02_pointwise_is_diagonal_obj_surface (o := C02_exSurfRat) rfl (n1 := 2) (n2 := 2)
  (nc := 3) rfl (fun _ => by decide) (1/1000) [1/2, 1] [1/2, 1] rfl
  (Obj.not_outOfDomain2 rfl C02_exLin_valid C02_exLin_valid (by norm_num) C02_exLin_adm
    C02_exLin_adm) : ∃ _, _)

example := (C02_pointwise_is_diagonal_obj_volume (o := C02_exVolRat) rfl (n1 := 2) (n2 := 2)
  (n3 := 2) (nc := 2) rfl (fun _ => by decide) (1/1000) [1/2, 1] [1/2, 1] [1/2, 1] rfl rfl
  (Obj.not_outOfDomain3 rfl C02_exLin_valid C02_exLin_valid C02_exLin_valid (by norm_num)
    C02_exLin_adm C02_exLin_adm C02_exLin_adm) : ∃ _, _)

example : C02_view (C02_exSurfRat.evaluate (1/1000) [[1/2, 1], [1/2, 1]] true)
    = some ([2, 2, 2], [1/2, 1/2, 1/2, 3/4, 1, 2/3, 1, 1]) := by decide +kernel
example : C02_view (C02_exSurfRat.evaluate (1/1000) [[1/2, 1], [1/2, 1]] false)
    = some ([2, 2], [1/2, 1/2, 1, 1]) := by decide +kernel

/-! ### 3. spline sums -/

example := (C02_specRow_nonperiodic (b := C01_exOpen) rfl (1/2) 1 : _ = _)
example := (C02_specRow_periodic (b := C01_exPer) (by decide) (7/2) 1 : _ = _)
example := (C02_row_is_spec C01_exOpen_valid (tol := 1/1000) (u := 1/2) (by norm_num)
  (C02_exOpen_adm _ (by simp)) : _ ∧ _)
example := (C02_row_is_spec C01_exPer_valid (tol := 1/1000) (u := 7/2) (by norm_num)
  (C02_exPer_adm _ (by simp)) : _ ∧ _)

example := (C02_nonrational_is_spline_sum_curve (o := C02_exCurve) rfl C01_exOpen_valid
  (nc := 2) rfl rfl (tol := 1/1000) (by norm_num) C02_exOpen_adm (fun _ => by simp) : ∃ _, _)

example := (C02_nonrational_is_spline_sum_curve_open (o := C02_exCurve) rfl C01_exOpen_valid rfl
  (nc := 2) rfl rfl (tol := 1/1000) (by norm_num) (us := [1/2, 3])
  (fun u hu => ⟨(C02_exOpen_adm u hu).1, (C02_exOpen_adm u hu).2.1 rfl⟩) (by simp) : ∃ _, _)

/-- Periodic curve evaluated outside `[start, stop]`. -/
example := (C02_nonrational_is_spline_sum_curve (o := C02_exCurvePer) rfl C01_exPer_valid
  (nc := 2) rfl rfl (tol := 1/1000) (by norm_num) C02_exPer_adm (fun _ => by simp) : ∃ _, _)

example := (C02_nonrational_is_spline_sum_surface (o := C02_exSurf) rfl C02_exLin_valid
  C02_exLin_valid (nc := 3) rfl rfl (tol := 1/1000) (by norm_num) C02_exLin_adm C02_exLin_adm
  (fun _ => by simp) (fun _ => by simp) : ∃ _, _)

/-- Mixed periodic × open surface. -/
example := (C02_nonrational_is_spline_sum_surface (o := C02_exSurfPer) rfl C01_exPer_valid
  C02_exLin_valid (nc := 1) rfl rfl (tol := 1/1000) (by norm_num) C02_exPer_adm C02_exLin_adm
  (fun _ => by simp) (fun _ => by simp) : ∃ _, _)

example := (C02_nonrational_is_spline_sum_surface_open (o := C02_exSurf) rfl C02_exLin_valid
  C02_exLin_valid rfl rfl (nc := 3) rfl rfl (tol := 1/1000) (by norm_num) (us := [1/2, 1])
  (vs := [1/2, 1])
  (fun u hu => ⟨(C02_exLin_adm u hu).1, (C02_exLin_adm u hu).2.1 rfl⟩)
  (fun u hu => ⟨(C02_exLin_adm u hu).1, (C02_exLin_adm u hu).2.1 rfl⟩) (by simp) (by simp)
  : ∃ _, _)

example := (C02_nonrational_is_spline_sum_volume (o := C02_exVol) rfl C02_exLin_valid
  C02_exLin_valid C02_exLin_valid (nc := 1) rfl rfl (tol := 1/1000) (by norm_num)
  C02_exLin_adm C02_exLin_adm C02_exLin_adm (fun _ => by simp) (fun _ => by simp)
  (fun _ => by simp) : ∃ _, _)

example : C02_view (C02_exCurve.evaluate (1/1000) [[1/2, 3]] true)
    = some ([2, 2], [7/8, 11/8, 5, 1]) := by decide +kernel

/-- C02_evaluate_snap_* / C02_snapped_admissible: separated knots, arbitrary parameters. -/
example := (C02_evaluate_snap_curve (o := C02_exCurve) rfl C01_exOpen_valid
  (tol := 1/1000) (by norm_num) C01_exOpen_separated [1/3, 2] true : _ = _)

example := (C02_evaluate_snap_surface (o := C02_exSurf) rfl C02_exLin_valid C02_exLin_valid
  (tol := 1/1000) (by norm_num) C02_exLin_separated C02_exLin_separated [1/3] [2/3, 5] false
  : _ = _)

example := (C02_evaluate_snap_volume (o := C02_exVol) rfl C02_exLin_valid C02_exLin_valid
  C02_exLin_valid (tol := 1/1000) (by norm_num) C02_exLin_separated C02_exLin_separated
  C02_exLin_separated [1/3] [2/3] [1/7] true : _ = _)

example : C01_exOpen.Admissible (1/1000) (snap C01_exOpen (1/1000) (1/3)) :=
  C02_snapped_admissible C01_exOpen_valid rfl C01_exOpen_separated (by decide +kernel)
    (by decide +kernel)

/-! ### 4. rational objects -/

/-- C02_rational_curve: all weights positive. -/
example := (C02_rational_curve (o := C02_exCurveRat) rfl C01_exOpen_valid (dim := 2) rfl rfl
  (by
    intro j hj
    have hj' : j < 6 := hj
    interval_cases j <;> norm_num [Tensor.get, C02_exCurveRat])
  (tol := 1/1000) (by norm_num) C02_exOpen_adm (fun _ => by simp) : ∃ _, _)

example := (C02_rational_surface (o := C02_exSurfRat) rfl C02_exLin_valid C02_exLin_valid
  (dim := 2) rfl rfl
  (by
    intro j1 j2 h1 h2
    have h1' : j1 < 2 := h1
    have h2' : j2 < 2 := h2
    interval_cases j1 <;> interval_cases j2 <;>
      norm_num [Tensor.get, C02_exSurfRat, Basis.numFunctions, C02_exLin])
  (tol := 1/1000) (by norm_num) C02_exLin_adm C02_exLin_adm (fun _ => by simp) (fun _ => by simp)
  : ∃ _, _)

example := (C02_rational_volume (o := C02_exVolRat) rfl C02_exLin_valid C02_exLin_valid
  C02_exLin_valid (dim := 1) rfl rfl
  (by
    intro j1 j2 j3 h1 h2 h3
    have h1' : j1 < 2 := h1
    have h2' : j2 < 2 := h2
    have h3' : j3 < 2 := h3
    interval_cases j1 <;> interval_cases j2 <;> interval_cases j3 <;>
      norm_num [Tensor.get, C02_exVolRat, Basis.numFunctions, C02_exLin])
  (tol := 1/1000) (by norm_num) C02_exLin_adm C02_exLin_adm C02_exLin_adm (fun _ => by simp)
  (fun _ => by simp) (fun _ => by simp) : ∃ _, _)

example : C02_view (C02_exCurveRat.evaluate (1/1000) [[1/2, 3]] true)
    = some ([2, 2], [7/13, 11/13, 5, 1]) := by decide +kernel

/-! ### periodic wraps -/

example := (C02_specRow_add_period C01_exPer_valid (by decide) (1/2) 1
  (by rw [C01_exPer_stop]; norm_num) (by rw [C01_exPer_stop, C01_exPer_start]; norm_num) 2
  : _ = _)

/-- At the domain end itself: `3 + 1·T = 6` (continuous seam). -/
example := (C02_rowVal_add_period C01_exPer_valid (by decide) (tol := 1/1000) (by norm_num)
  C02_exPer_seam (u := 3) 1 C02_exPer_exact_three
  (by rw [C01_exPer_stop, C01_exPer_start]; norm_num; exact C02_exPer_exact_six) 2 : _ = _)

/-- C02_periodic_wraps_curve: `1/2 + 1·T = 7/2` (no parameter at the domain end). -/
example : C02_exCurvePer.evaluate (1/1000)
      [[(1/2 : ℚ)].map (fun u => u + ((fun _ => 1 : ℚ → ℤ) u : ℚ)
        * (C01_exPer.stop - C01_exPer.start))] true
    = C02_exCurvePer.evaluate (1/1000) [[1/2]] true :=
  C02_periodic_wraps_curve (o := C02_exCurvePer) rfl C01_exPer_valid (by norm_num) [1/2]
    (fun _ => 1)
    (Or.inr (Or.inl ⟨by decide, by
      intro u hu
      simp only [List.mem_cons, List.not_mem_nil, or_false] at hu
      subst hu
      refine ⟨C01_exPer_exact_half, ?_, ?_, ?_⟩
      · rw [C01_exPer_stop, C01_exPer_start]; norm_num; exact C01_exPer_exact_seven_halves
      · rw [C01_exPer_stop]; norm_num
      · rw [C01_exPer_stop, C01_exPer_start]; norm_num⟩)) true

theorem C02_exPer_shift_stop :
    C01_exPer.ShiftOK (1/1000) [3] (fun _ => 1) :=
  Or.inr (Or.inr ⟨by decide, C02_exPer_seam, by
    intro u hu
    simp only [List.mem_cons, List.not_mem_nil, or_false] at hu
    subst hu
    exact ⟨C02_exPer_exact_three,
      by rw [C01_exPer_stop, C01_exPer_start]; norm_num; exact C02_exPer_exact_six⟩⟩)

/-- C02_periodic_wraps_*: the parameter IS the domain end, `3 + 1·T = 6` (continuous seam). -/
example := (C02_periodic_wraps_curve (o := C02_exCurvePer) rfl C01_exPer_valid
  (tol := 1/1000) (by norm_num) [3] (fun _ => 1) C02_exPer_shift_stop false : _ = _)

example := (C02_periodic_wraps_surface (o := C02_exSurfPer) rfl C01_exPer_valid C02_exLin_valid
  (tol := 1/1000) (by norm_num) [3] [1/2, 1] (fun _ => 1) (fun _ => 0) C02_exPer_shift_stop
  (Or.inl (fun _ _ => rfl)) true : _ = _)

example := (C02_periodic_wraps_volume (o := C02_exVolPer) rfl C02_exLin_valid C01_exPer_valid
  C02_exLin_valid (tol := 1/1000) (by norm_num) [1/2] [3] [1] (fun _ => 0) (fun _ => 1)
  (fun _ => 0) (Or.inl (fun _ _ => rfl)) C02_exPer_shift_stop (Or.inl (fun _ _ => rfl)) true
  : _ = _)

example : C02_view (C02_exCurvePer.evaluate (1/1000) [[6, 7/2]] true)
    = C02_view (C02_exCurvePer.evaluate (1/1000) [[3, 1/2]] true) := by decide +kernel

/-! ### 7. identity maps -/

example := (C02_greville (b := C01_exOpen) (by decide) : _ = _)

example := (C02_identity_map_curve C01_exOpen C01_exOpen_valid rfl (by decide)
  (tol := 1/1000) (by norm_num) (us := [1/2, 3])
  (fun u hu => ⟨(C02_exOpen_adm u hu).1, (C02_exOpen_adm u hu).2.1 rfl⟩) (by simp) : ∃ _, _)

example := (C02_identity_map_curve_rational C01_exOpen C01_exOpen_valid rfl (by decide)
  (tol := 1/1000) (by norm_num) (us := [1/2, 3])
  (fun u hu => ⟨(C02_exOpen_adm u hu).1, (C02_exOpen_adm u hu).2.1 rfl⟩) (by simp) : ∃ _, _)

example := (C02_identity_map_surface C01_exOpen C02_exLin C01_exOpen_valid C02_exLin_valid rfl rfl
  (by decide) (by decide) (tol := 1/1000) (by norm_num) (us := [1/2, 3]) (vs := [1/2, 1])
  (fun u hu => ⟨(C02_exOpen_adm u hu).1, (C02_exOpen_adm u hu).2.1 rfl⟩)
  (fun u hu => ⟨(C02_exLin_adm u hu).1, (C02_exLin_adm u hu).2.1 rfl⟩) (by simp) (by simp)
  : ∃ _, _)

example := (C02_identity_map_surface_rational C01_exOpen C02_exLin C01_exOpen_valid
  C02_exLin_valid rfl rfl (by decide) (by decide) (tol := 1/1000) (by norm_num)
  (us := [1/2, 3]) (vs := [1/2, 1])
  (fun u hu => ⟨(C02_exOpen_adm u hu).1, (C02_exOpen_adm u hu).2.1 rfl⟩)
  (fun u hu => ⟨(C02_exLin_adm u hu).1, (C02_exLin_adm u hu).2.1 rfl⟩) (by simp) (by simp)
  : ∃ _, _)

example := (C02_identity_map_volume C01_exOpen C02_exLin C02_exLin C01_exOpen_valid
  C02_exLin_valid C02_exLin_valid rfl rfl rfl (by decide) (by decide) (by decide)
  (tol := 1/1000) (by norm_num) (us := [1/2, 3]) (vs := [1/2, 1]) (ws := [1/2, 1])
  (fun u hu => ⟨(C02_exOpen_adm u hu).1, (C02_exOpen_adm u hu).2.1 rfl⟩)
  (fun u hu => ⟨(C02_exLin_adm u hu).1, (C02_exLin_adm u hu).2.1 rfl⟩)
  (fun u hu => ⟨(C02_exLin_adm u hu).1, (C02_exLin_adm u hu).2.1 rfl⟩) (by simp) (by simp)
  (by simp) : ∃ _, _)

example := (C02_identity_map_volume_rational C01_exOpen C02_exLin C02_exLin C01_exOpen_valid
  C02_exLin_valid C02_exLin_valid rfl rfl rfl (by decide) (by decide) (by decide)
  (tol := 1/1000) (by norm_num) (us := [1/2, 3]) (vs := [1/2, 1]) (ws := [1/2, 1])
  (fun u hu => ⟨(C02_exOpen_adm u hu).1, (C02_exOpen_adm u hu).2.1 rfl⟩)
  (fun u hu => ⟨(C02_exLin_adm u hu).1, (C02_exLin_adm u hu).2.1 rfl⟩)
  (fun u hu => ⟨(C02_exLin_adm u hu).1, (C02_exLin_adm u hu).2.1 rfl⟩) (by simp) (by simp)
  (by simp) : ∃ _, _)

/-- Kernel-evaluated: the default rational volume of three linear bases maps `(1/2,1,1/2)` to
itself. -/
example : (match Obj.default #[C02_exLin, C02_exLin, C02_exLin] true with
    | .ok o => C02_view (o.evaluate (1/1000) [[1/2], [1], [1/2]] true)
    | .error _ => none) = some ([1, 1, 1, 3], [1/2, 1, 1/2]) := by decide +kernel

example : (match Obj.default #[C01_exOpen, C02_exLin] true with
    | .ok o => C02_view (o.evaluate (1/1000) [[1/2, 3], [1/2]] true)
    | .error _ => none) = some ([2, 1, 2], [1/2, 1/2, 3, 1/2]) := by decide +kernel

/-- C02_identity_map_order_one_raises. -/
example : Obj.default #[(⟨1, #[0, 1], -1⟩ : Basis ℚ)] false = .error .zeroDiv :=
  C02_identity_map_order_one_raises _ rfl (by decide) false

/-! ### 8. bounding box -/

example := (C02_convex_combination_bounds (K := ℚ) 2 (fun _ => 1/2) (fun j => j) 0 1
  (fun _ _ => by norm_num) (by norm_num [Finset.sum_range_succ])
  (fun j hj => by interval_cases j <;> norm_num) : _ ∧ _)

example := (C02_bounding_box_spec C02_exCurve (c := 1) (pI := 3) (by decide) (by decide) : _ ∧ _)

example := (C02_bounding_box_curve (o := C02_exCurve) rfl C01_exOpen_valid
  (nc := 2) rfl rfl (tol := 1/1000) (by norm_num) C02_exOpen_adm (fun _ => by simp) : ∃ _, _)

example := (C02_bounding_box_surface (o := C02_exSurf) rfl C02_exLin_valid
  C02_exLin_valid (nc := 3) rfl rfl (tol := 1/1000) (by norm_num) C02_exLin_adm C02_exLin_adm
  (fun _ => by simp) (fun _ => by simp) : ∃ _, _)

example := (C02_bounding_box_volume (o := C02_exVol) rfl C02_exLin_valid
  C02_exLin_valid C02_exLin_valid (nc := 1) rfl rfl (tol := 1/1000) (by norm_num)
  C02_exLin_adm C02_exLin_adm C02_exLin_adm (fun _ => by simp) (fun _ => by simp)
  (fun _ => by simp) : ∃ _, _)

example : C02_exCurve.boundingBox = [(0, 5), (0, 3)] := by decide +kernel
