import Splipy.Lemmas.C17Tables
import Splipy.Lemmas.C17Compute
import Splipy.Lemmas.C17Catalogue
import Splipy.Lemmas.C17Twins
import Splipy.Lemmas.C17Equiv

/-!
# Property C17 — the multipatch model identifies shared entities for any orientation and add order

Theorems about the executable model `Splipy.Orientation` / `Splipy.Model` (files
`Model/Orientation.lean`, `Model/Catalogue.lean`), which the correspondence run ties to
`splipy/splinemodel.py`.

Where a statement is restricted to parametric dimension ≤ 3 it is proved by kernel evaluation
over ALL 1 / 2 / 8 / 48 orientations and all 3^pardim sections (`Lemmas/C17Tables.lean`); this is
a proof because the enumerations are proved complete (`C17_orientation_enumeration`,
`mem_allSecs`).  The group laws and the composition law of `map_array` are proved for every
parametric dimension.
-/

open Splipy Splipy.MP

/-- `Orientation.all n` (the search order of `Orientation.compute`: `permutations × product`)
    lists exactly the well-formed orientations of parametric dimension `n`; there are 2, 8, 48
    of them for curves, surfaces, volumes. -/
theorem C17_orientation_enumeration :
    (∀ n o, o ∈ Orientation.all n ↔ o.WF n) ∧
    (Orientation.all 1).length = 2 ∧ (Orientation.all 2).length = 8 ∧ (Orientation.all 3).length = 48 :=
  ⟨Orientation.mem_all, by decide, by decide, by decide⟩

/-- The orientations of any parametric dimension `n` form a group under `Orientation.__mul__`:
    closure, identity (`Orientation.compute(cpa)`), associativity, two-sided inverse.
    Generic in `n` (no enumeration). -/
theorem C17_orientation_group (n : ℕ) :
    (Orientation.identity n).WF n ∧
    (∀ a b : Orientation, a.WF n → b.WF n → (a * b).WF n) ∧
    (∀ a : Orientation, a.WF n → Orientation.identity n * a = a ∧ a * Orientation.identity n = a) ∧
    (∀ a b c : Orientation, a.WF n → b.WF n → c.WF n → (a * b) * c = a * (b * c)) ∧
    (∀ a : Orientation, a.WF n → a.inv.WF n ∧ a * a.inv = Orientation.identity n ∧
        a.inv * a = Orientation.identity n) :=
  ⟨Orientation.identity_wf n, fun _ _ => Orientation.mul_wf,
   fun _ ha => ⟨Orientation.identity_mul ha, Orientation.mul_identity ha⟩,
   fun _ _ _ => Orientation.mul_assoc',
   fun _ ha => ⟨Orientation.inv_wf ha, Orientation.mul_inv ha, Orientation.inv_mul ha⟩⟩

/-- `map_array` of a product, in the direction documented in `__mul__`/`map_array`
    (`a` maps A→B, `b` maps B→C, `a*b` maps A→C; `map_array` takes an array of the mapped system
    to the reference system):  `(a*b).map_array(X) = a.map_array(b.map_array(X))`,
    for every parametric dimension `n`, every array shape with positive extents, every content.
    Also on index tuples: shape and source multi-index of every entry. -/
theorem C17_map_array_compose {α : Type} [Inhabited α] {n : ℕ} {a b : Orientation}
    (ha : a.WF n) (hb : b.WF n) (X : NdArr α) (hX : X.shape.length = n)
    (hpos : ∀ m ∈ X.shape, 0 < m) :
    (a * b).mapArray X = a.mapArray (b.mapArray X) ∧
    (a * b).mapShape X.shape = a.mapShape (b.mapShape X.shape) ∧
    ∀ i, InRange i ((a * b).mapShape X.shape) →
      (a * b).mapIndex X.shape i = b.mapIndex X.shape (a.mapIndex (b.mapShape X.shape) i) := by
  have hcb : b.toReindex.Consistent X.shape.length = true := by
    rw [hX]; exact Orientation.toReindex_consistent hb
  have hca : a.toReindex.Consistent b.toReindex.axes.length = true := by
    show a.toReindex.Consistent b.perm.length = true
    rw [hb.isPerm.length]; exact Orientation.toReindex_consistent ha
  refine ⟨Orientation.mapArray_mul ha hb X hX hpos, ?_, ?_⟩
  · unfold Orientation.mapShape
    rw [Orientation.toReindex_mul ha hb]
    exact Reindex.comp_shape _ _ _ hca
  · intro i hi
    unfold Orientation.mapIndex Orientation.mapShape at *
    rw [Orientation.toReindex_mul ha hb] at hi ⊢
    rw [Reindex.comp_shape _ _ _ hca] at hi
    exact Reindex.comp_index _ _ _ _ hcb hca hpos hi

/-- `map_section` and `view_section` commute with `map_array` on every section
    (pardim ≤ 3, all orientations, all 3^pardim sections; table checked by the kernel):
    if `Y = o.map_array(X)` then `Y[o.map_section(s)] = o.view_section(s).map_array(X[s])`. -/
theorem C17_map_section_commutes {α : Type} [Inhabited α] {n : ℕ} (hn : n ≤ 3) {o : Orientation}
    (ho : o.WF n) {sec : Sec} (hs : sec.length = n) (X : NdArr α) (hX : X.shape.length = n)
    (hpos : ∀ m ∈ X.shape, 0 < m) :
    (o.mapArray X).sect (o.mapSection sec) = (o.viewSection sec).mapArray (X.sect sec) := by
  have ht := sectionTable hn ho hs
  simp only [sectionRow, Bool.and_eq_true, decide_eq_true_eq] at ht
  obtain ⟨⟨⟨⟨⟨⟨heq, hc1⟩, hc2⟩, hc3⟩, _⟩, _⟩, _⟩ := ht
  have hco : o.toReindex.Consistent X.shape.length = true := by
    rw [hX]; exact Orientation.toReindex_consistent ho
  unfold Orientation.mapArray NdArr.sect
  rw [← Reindex.apply_comp _ _ X hco (by
        show (Sec.toReindex (o.mapSection sec)).Consistent o.perm.length = true
        rw [ho.isPerm.length]; exact hc2) hpos,
      ← Reindex.apply_comp _ _ X (by rw [hX]; exact hc1) hc3 hpos, heq]

/-- `view_section` yields a well-formed orientation of the section's dimension, and
    `map_section` a section of the same dimension (pardim ≤ 3). -/
theorem C17_view_section {n : ℕ} (hn : n ≤ 3) {o : Orientation} (ho : o.WF n) {sec : Sec}
    (hs : sec.length = n) :
    (o.viewSection sec).WF (secTgtDim sec) ∧ (o.mapSection sec).length = n ∧
    secTgtDim (o.mapSection sec) = secTgtDim sec := by
  have ht := sectionTable hn ho hs
  simp only [sectionRow, Bool.and_eq_true, decide_eq_true_eq] at ht
  exact ⟨ht.1.1.2, ht.1.2, ht.2⟩

/-- Soundness of `Orientation.compute`: a returned orientation is a well-formed orientation
    of the parametric dimension that maps `b`'s control net (as compared by the code: rational
    promotion, weights divided by their sum) onto `a`'s and matches the bases
    (`matches(…, reverse=flip[i])` on the normalised knot vectors); it is the FIRST such
    orientation in the search order, and the preliminary checks hold.
    The only error `compute` raises is `OrientationError`. -/
theorem C17_compute_sound (a b : Obj) (o : Orientation) (h : Orientation.compute a b = .ok o) :
    o.WF a.pardim ∧ o.mapArray (compareNets a b).2 = (compareNets a b).1 ∧ basesMatch o a b = true ∧
    a.pardim = b.pardim ∧ a.dimension = b.dimension ∧
    ∃ before after, Orientation.all a.pardim = before ++ o :: after ∧ ∀ o' ∈ before, ¬ Fits o' a b := by
  obtain ⟨hpre, hfind⟩ := (compute_ok_iff a b o).1 h
  have hfit : Fits o a b := List.find?_some hfind
  obtain ⟨_, hmap, hbm⟩ := (fits_iff o a b).1 hfit
  refine ⟨(Orientation.mem_all _ _).1 (List.mem_of_find?_eq_some hfind), hmap, hbm, hpre.1, hpre.2.1, ?_⟩
  obtain ⟨_, before, after, heq, hb⟩ := List.find?_eq_some_iff_append.1 hfind
  refine ⟨before, after, heq, fun o' ho' hf => ?_⟩
  have h1 := hb o' ho'
  have h2 : fitsB a b o' = true := hf
  rw [h2] at h1
  simp at h1

theorem C17_compute_error_class (a b : Obj) (e : MErr) (h : Orientation.compute a b = .error e) :
    e = .orientation := compute_error a b e h

/-- Completeness of `Orientation.compute`: if the parametric and physical dimensions agree and
    SOME well-formed orientation fits (`b` being an array object: as many axes as bases), then
    `compute` does not raise.  Together with soundness: `compute a b` raises iff no orientation
    fits. -/
theorem C17_compute_complete (a b : Obj) (hb : b.shape.length = b.pardim)
    (hp : a.pardim = b.pardim) (hd : a.dimension = b.dimension)
    (hex : ∃ o : Orientation, o.WF a.pardim ∧ Fits o a b) :
    ∃ o', Orientation.compute a b = .ok o' := compute_complete a b hb hp hd hex

/-- Hence `a ≈ b :⇔ Orientation.compute(a, b)` does not raise is an equivalence relation:
    reflexive (identity), symmetric (inverse orientation; `matches(…, reverse)` is symmetric),
    transitive (product orientation, flags combine by xor) — on well-formed objects (`Obj.Good`:
    as many array axes as bases, flat data of the right size, positive extents, non-constant knot
    vectors).

    PARTIAL: symmetry and transitivity are proved for objects of EQUAL rationality flag.  Missing:
    the mixed case (one object rational, the other not), where `compute` normalises the weights by
    a sum that depends on the pair; it needs the invariance of `Σ w` under axis permutation and
    reversal of the net, which is not proved here. -/
theorem C17_equiv_partial :
    (∀ a : Obj, a.Good → Equiv a a) ∧
    (∀ a b : Obj, a.Good → b.Good → a.rational = b.rational → Equiv a b → Equiv b a) ∧
    (∀ a b c : Obj, a.Good → b.Good → c.Good → a.rational = b.rational → b.rational = c.rational →
      Equiv a b → Equiv b c → Equiv a c) :=
  ⟨fun _ => Equiv.refl', fun _ _ => Equiv.symm', fun _ _ _ => Equiv.trans'⟩

/-- `Obj.Good` is satisfiable (a straight segment). -/
example : ∃ x : Obj, x.Good :=
  ⟨⟨[{ order := 2, knots := #[0, 0, 1, 1], periodic := -1 }], ⟨[2], #[[0, 0], [1, 0]]⟩, false⟩,
   ⟨rfl, rfl, by decide, fun i hi => by
      have : i = 0 := by simpa [Obj.pardim] using hi
      subst this; simp [KnotsOK]⟩⟩

/-- **Vertices are canonical** (catalogue of dimension 0, exact `VertexDict` keys, any state):
    once a point has been looked up with `add=True`, every point object with the same key
    (`controlpoints`, weight dropped when rational — exactly the code's key) resolves to the same
    node, with or without `add`, and the vertex dictionary does not grow. -/
theorem C17_vertex_canonical (m m1 : Model) (obj obj' : Obj) (id : ℕ) (o : Orientation)
    (hkey : pointKey obj' = pointKey obj)
    (h : m.lookupPoint obj true = .ok (m1, id, o)) (add : Bool) :
    ∃ m2, m1.lookupPoint obj' add = .ok (m2, id, Orientation.identity 0) ∧ m2.verts = m1.verts :=
  Model.lookupPoint_after_add m m1 obj obj' id o hkey h add

/-- **Catalogue, one level, any state (partial).**  After `ObjectCatalogue._add(obj, lower)`
    in ANY model state, the tail of `lookup` (`Model.resolve`: candidate scan, twins policy)
    run for any object `obj'` that `Orientation.compute` matches to `obj` (e.g. any re-oriented
    copy), arriving with ANY permutation `lower'` of the stored codimension-1 nodes, returns the
    SAME node (the id just created) together with the orientation `compute obj obj'` — the
    node is filed under every permutation of its facet nodes (`set(permutations(…))`) and found
    again under each of them.  Twins filed earlier under the same key must not match `obj'`
    and must be tolerated by the twins policy.

    MISSING for the full `C17_catalogue_canonical`: the induction over dimension and over the
    insertion list showing that the recursive lower-level lookups of a re-oriented copy return a
    permutation of the stored facet nodes (equivalent sections have equivalent, hence by induction
    identical, facet nodes) and leave the state unchanged, the invariant that a key is present
    with all its permutations or not at all, and the counting consequences (#nodes = #cells,
    `higher_nodes`, `boundary()`), which are covered by the correspondence run and the
    combinatorial oracle only. -/
theorem C17_catalogue_canonical_partial (m : Model) (obj obj' : Obj) (lower lower' : List (List ℕ))
    (o : Orientation) (add : Bool) (twins : List ℕ)
    (hpd : obj.pardim < m.levels.size) (hpd' : obj'.pardim = obj.pardim)
    (hperm : (lower'.getLastD []).Perm (lower.getLastD []))
    (hc : Orientation.compute obj obj' = .ok o)
    (hsize : ∀ k ∈ (m.level obj.pardim).get (lower'.getLastD []), k < m.nodes.size)
    (hold : ∀ k ∈ (m.level obj.pardim).get (lower'.getLastD []), ∀ o',
      Orientation.compute (m.node k).obj obj' ≠ .ok o')
    (htw : (m.level obj.pardim).get (lower'.getLastD []) ≠ [] → twins.contains obj.pardim = false) :
    (m.addNode obj lower).2.1 = m.nodes.size ∧
    (m.addNode obj lower).1.resolve obj' lower' add twins =
      .ok ((m.addNode obj lower).1, m.nodes.size, o) :=
  ⟨(Model.addNode_spec m obj lower hpd).1,
   Model.resolve_after_addNode m obj obj' lower lower' o add twins hpd hpd' hperm hc hsize hold htw⟩

/-- hypotheses of `C17_catalogue_canonical_partial` are satisfiable: an empty 1-D catalogue, a
    unit segment added, its reversed copy looked up. -/
example : ∃ (m : Model) (obj obj' : Obj) (o : Orientation),
    obj.pardim < m.levels.size ∧ obj'.pardim = obj.pardim ∧ Orientation.compute obj obj' = .ok o ∧
    o = ⟨[0], [true]⟩ := by
  let b : Basis ℚ := { order := 2, knots := #[0, 0, 1, 1], periodic := -1 }
  refine ⟨Model.empty 1, ⟨[b], ⟨[2], #[[0, 0], [1, 0]]⟩, false⟩, ⟨[b], ⟨[2], #[[1, 0], [0, 0]]⟩, false⟩,
    ⟨[0], [true]⟩, by decide, rfl, by decide +kernel, rfl⟩

/-- Twins policy and handedness (statements about one catalogue level / one `add` call):
    * one candidate filed under the key, no orientation fits, twins forbidden at this dimension
      → `OrientationError` ("Candidate nodes found but no orientation matched");
    * the same with twins tolerated and `add` → a new node is created (`_add`);
    * two or more candidates and twins forbidden → `TwinError`;
    * `force_right_hand`: any patch for which `is_right_hand` is not `True` → `ValueError`
      before anything is added; a negative Jacobian determinant at the parametric centre makes
      `is_right_hand` false (2-D; the threshold `tol = 1e-3` on the normalised determinant is
      modelled literally in `isRightHand`);
    * `force_right_hand` outside (2,2)/(3,3) → `ValueError` from the constructor. -/
theorem C17_twins_and_handedness :
    (∀ (m : Model) (obj : Obj) (lower : List (List ℕ)) (add : Bool) (twins : List ℕ) (c : ℕ),
      (m.level obj.pardim).get (lower.getLastD []) = [c] →
      (∀ o, Orientation.compute (m.node c).obj obj ≠ .ok o) →
      twins.contains obj.pardim = true → m.resolve obj lower add twins = .error .orientation) ∧
    (∀ (m : Model) (obj : Obj) (lower : List (List ℕ)) (twins : List ℕ) (c : ℕ),
      (m.level obj.pardim).get (lower.getLastD []) = [c] →
      (∀ o, Orientation.compute (m.node c).obj obj ≠ .ok o) →
      twins.contains obj.pardim = false → m.resolve obj lower true twins = .ok (m.addNode obj lower)) ∧
    (∀ (m : Model) (obj : Obj) (lower : List (List ℕ)) (add : Bool) (twins : List ℕ) (c d : ℕ) (cs : List ℕ),
      (m.level obj.pardim).get (lower.getLastD []) = c :: d :: cs →
      twins.contains obj.pardim = true → m.resolve obj lower add twins = .error .twin) ∧
    (∀ (ktol : ℚ) (sm : SplineModel) (objs : List Obj) (twins : List ℕ), sm.forceRightHand = true →
      (∃ p ∈ objs, isRightHand ktol p (1 / 1000) ≠ some true) → sm.add ktol objs twins = .error .value) ∧
    (∀ (ktol tol : ℚ) (o : Obj), o.dimension = 2 → o.pardim = 2 → jacDet2 ktol o < 0 →
      isRightHand ktol o tol = some false) ∧
    (∀ pardim dimension : ℕ, ¬ ((pardim = 2 ∧ dimension = 2) ∨ (pardim = 3 ∧ dimension = 3)) →
      SplineModel.new pardim dimension true = .error .value) :=
  ⟨Model.resolve_single_reject, Model.resolve_single_accept, Model.resolve_many_reject,
   SplineModel.add_left_handed, isRightHand_neg2, SplineModel.new_wrong_dims⟩
