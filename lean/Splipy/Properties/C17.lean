import Splipy.Lemmas.C17Tables
import Splipy.Lemmas.C17Compute
import Splipy.Lemmas.C17Catalogue
import Splipy.Lemmas.C17Twins
import Splipy.Lemmas.C17Equiv
import Splipy.Lemmas.C17Model
import Splipy.Lemmas.C17Count
import Splipy.Lemmas.C17Total

/-!
# Property C17 — the multipatch model identifies shared entities for any orientation and add order

Theorems about the executable model `Splipy.Orientation` / `Splipy.Model` (files
`Model/Orientation.lean`, `Model/Catalogue.lean`), which the correspondence run ties to
`splipy/splinemodel.py`.

Where a statement is restricted to parametric dimension ≤ 3 it is proved by kernel evaluation
over ALL 1 / 2 / 8 / 48 orientations and all 3^pardim sections (`Lemmas/C17Tables.lean`); this is
a proof because the enumerations are proved complete (`C17_orientation_enumeration`,
`mem_allSecs`).  The group laws and the composition law of `map_array` are proved for every
parametric dimension.
-/

open Splipy Splipy.MP

/-- `Orientation.all n` (the search order of `Orientation.compute`: `permutations × product`)
    lists exactly the well-formed orientations of parametric dimension `n`; there are 2, 8, 48
    of them for curves, surfaces, volumes. -/
theorem C17_orientation_enumeration :
    (∀ n o, o ∈ Orientation.all n ↔ o.WF n) ∧
    (Orientation.all 1).length = 2 ∧ (Orientation.all 2).length = 8 ∧ (Orientation.all 3).length = 48 :=
  ⟨Orientation.mem_all, by decide, by decide, by decide⟩

/-- The orientations of any parametric dimension `n` form a group under `Orientation.__mul__`:
    closure, identity (`Orientation.compute(cpa)`), associativity, two-sided inverse.
    Generic in `n` (no enumeration). -/
theorem C17_orientation_group (n : ℕ) :
    (Orientation.identity n).WF n ∧
    (∀ a b : Orientation, a.WF n → b.WF n → (a * b).WF n) ∧
    (∀ a : Orientation, a.WF n → Orientation.identity n * a = a ∧ a * Orientation.identity n = a) ∧
    (∀ a b c : Orientation, a.WF n → b.WF n → c.WF n → (a * b) * c = a * (b * c)) ∧
    (∀ a : Orientation, a.WF n → a.inv.WF n ∧ a * a.inv = Orientation.identity n ∧
        a.inv * a = Orientation.identity n) :=
  ⟨Orientation.identity_wf n, fun _ _ => Orientation.mul_wf,
   fun _ ha => ⟨Orientation.identity_mul ha, Orientation.mul_identity ha⟩,
   fun _ _ _ => Orientation.mul_assoc',
   fun _ ha => ⟨Orientation.inv_wf ha, Orientation.mul_inv ha, Orientation.inv_mul ha⟩⟩

/-- `map_array` of a product, in the direction documented in `__mul__`/`map_array`
    (`a` maps A→B, `b` maps B→C, `a*b` maps A→C; `map_array` takes an array of the mapped system
    to the reference system):  `(a*b).map_array(X) = a.map_array(b.map_array(X))`,
    for every parametric dimension `n`, every array shape with positive extents, every content.
    Also on index tuples: shape and source multi-index of every entry. -/
theorem C17_map_array_compose {α : Type} [Inhabited α] {n : ℕ} {a b : Orientation}
    (ha : a.WF n) (hb : b.WF n) (X : NdArr α) (hX : X.shape.length = n)
    (hpos : ∀ m ∈ X.shape, 0 < m) :
    (a * b).mapArray X = a.mapArray (b.mapArray X) ∧
    (a * b).mapShape X.shape = a.mapShape (b.mapShape X.shape) ∧
    ∀ i, InRange i ((a * b).mapShape X.shape) →
      (a * b).mapIndex X.shape i = b.mapIndex X.shape (a.mapIndex (b.mapShape X.shape) i) := by
  have hcb : b.toReindex.Consistent X.shape.length = true := by
    rw [hX]; exact Orientation.toReindex_consistent hb
  have hca : a.toReindex.Consistent b.toReindex.axes.length = true := by
    show a.toReindex.Consistent b.perm.length = true
    rw [hb.isPerm.length]; exact Orientation.toReindex_consistent ha
  refine ⟨Orientation.mapArray_mul ha hb X hX hpos, ?_, ?_⟩
  · unfold Orientation.mapShape
    rw [Orientation.toReindex_mul ha hb]
    exact Reindex.comp_shape _ _ _ hca
  · intro i hi
    unfold Orientation.mapIndex Orientation.mapShape at *
    rw [Orientation.toReindex_mul ha hb] at hi ⊢
    rw [Reindex.comp_shape _ _ _ hca] at hi
    exact Reindex.comp_index _ _ _ _ hcb hca hpos hi

/-- `map_section` and `view_section` commute with `map_array` on every section
    (pardim ≤ 3, all orientations, all 3^pardim sections; table checked by the kernel):
    if `Y = o.map_array(X)` then `Y[o.map_section(s)] = o.view_section(s).map_array(X[s])`. -/
theorem C17_map_section_commutes {α : Type} [Inhabited α] {n : ℕ} (hn : n ≤ 3) {o : Orientation}
    (ho : o.WF n) {sec : Sec} (hs : sec.length = n) (X : NdArr α) (hX : X.shape.length = n)
    (hpos : ∀ m ∈ X.shape, 0 < m) :
    (o.mapArray X).sect (o.mapSection sec) = (o.viewSection sec).mapArray (X.sect sec) :=
  mapSection_commutes hn ho hs X hX hpos

/-- `view_section` yields a well-formed orientation of the section's dimension, and
    `map_section` a section of the same dimension (pardim ≤ 3). -/
theorem C17_view_section {n : ℕ} (hn : n ≤ 3) {o : Orientation} (ho : o.WF n) {sec : Sec}
    (hs : sec.length = n) :
    (o.viewSection sec).WF (secTgtDim sec) ∧ (o.mapSection sec).length = n ∧
    secTgtDim (o.mapSection sec) = secTgtDim sec := by
  have ht := sectionTable hn ho hs
  simp only [sectionRow, Bool.and_eq_true, decide_eq_true_eq] at ht
  exact ⟨ht.1.1.2, ht.1.2, ht.2⟩

/-- Soundness of `Orientation.compute`: a returned orientation is a well-formed orientation
    of the parametric dimension that maps `b`'s control net (as compared by the code: rational
    promotion, weights divided by their sum) onto `a`'s and matches the bases
    (`matches(…, reverse=flip[i])` on the normalised knot vectors); it is the FIRST such
    orientation in the search order, and the preliminary checks hold.
    The only error `compute` raises is `OrientationError`. -/
theorem C17_compute_sound (a b : Obj) (o : Orientation) (h : Orientation.compute a b = .ok o) :
    o.WF a.pardim ∧ o.mapArray (compareNets a b).2 = (compareNets a b).1 ∧ basesMatch o a b = true ∧
    a.pardim = b.pardim ∧ a.dimension = b.dimension ∧
    ∃ before after, Orientation.all a.pardim = before ++ o :: after ∧ ∀ o' ∈ before, ¬ Fits o' a b := by
  obtain ⟨hpre, hfind⟩ := (compute_ok_iff a b o).1 h
  have hfit : Fits o a b := List.find?_some hfind
  obtain ⟨_, hmap, hbm⟩ := (fits_iff o a b).1 hfit
  refine ⟨(Orientation.mem_all _ _).1 (List.mem_of_find?_eq_some hfind), hmap, hbm, hpre.1, hpre.2.1, ?_⟩
  obtain ⟨_, before, after, heq, hb⟩ := List.find?_eq_some_iff_append.1 hfind
  refine ⟨before, after, heq, fun o' ho' hf => ?_⟩
  have h1 := hb o' ho'
  have h2 : fitsB a b o' = true := hf
  rw [h2] at h1
  simp at h1

theorem C17_compute_error_class (a b : Obj) (e : MErr) (h : Orientation.compute a b = .error e) :
    e = .orientation := compute_error a b e h

/-- Completeness of `Orientation.compute`: if the parametric and physical dimensions agree and
    SOME well-formed orientation fits (`b` being an array object: as many axes as bases), then
    `compute` does not raise.  Together with soundness: `compute a b` raises iff no orientation
    fits. -/
theorem C17_compute_complete (a b : Obj) (hb : b.shape.length = b.pardim)
    (hp : a.pardim = b.pardim) (hd : a.dimension = b.dimension)
    (hex : ∃ o : Orientation, o.WF a.pardim ∧ Fits o a b) :
    ∃ o', Orientation.compute a b = .ok o' := compute_complete a b hb hp hd hex

/-- Hence `a ≈ b :⇔ Orientation.compute(a, b)` does not raise is an equivalence relation:
    reflexive (identity), symmetric (inverse orientation; `matches(…, reverse)` is symmetric),
    transitive (product orientation, flags combine by xor) — on well-formed objects (`Obj.Good`:
    as many array axes as bases, flat data of the right size, positive extents, non-constant knot
    vectors), rational, non-rational or mixed.  (The mixed case rests on `mapArray_data_perm`:
    `map_array` by a well-formed orientation permutes the entries, so the weight sum by which
    `compute` normalises is invariant.) -/
theorem C17_equiv :
    (∀ a : Obj, a.Good → Equiv a a) ∧
    (∀ a b : Obj, a.Good → b.Good → Equiv a b → Equiv b a) ∧
    (∀ a b c : Obj, a.Good → b.Good → c.Good → Equiv a b → Equiv b c → Equiv a c) :=
  ⟨fun _ => Equiv.refl', fun _ _ => Equiv.symm_full, fun _ _ _ => Equiv.trans_full⟩

/-- `Obj.Good` is satisfiable (a straight segment). -/
example : ∃ x : Obj, x.Good :=
  ⟨⟨[{ order := 2, knots := #[0, 0, 1, 1], periodic := -1 }], ⟨[2], #[[0, 0], [1, 0]]⟩, false⟩,
   ⟨rfl, rfl, by decide, fun i hi => by
      have : i = 0 := by simpa [Obj.pardim] using hi
      subst this; simp [KnotsOK]⟩⟩

/-- **Vertices are canonical** (catalogue of dimension 0, exact `VertexDict` keys, any state):
    once a point has been looked up with `add=True`, every point object with the same key
    (`controlpoints`, weight dropped when rational — exactly the code's key) resolves to the same
    node, with or without `add`, and the vertex dictionary does not grow. -/
theorem C17_vertex_canonical (m m1 : Model) (obj obj' : Obj) (id : ℕ) (o : Orientation)
    (hkey : pointKey obj' = pointKey obj)
    (h : m.lookupPoint obj true = .ok (m1, id, o)) (add : Bool) :
    ∃ m2, m1.lookupPoint obj' add = .ok (m2, id, Orientation.identity 0) ∧ m2.verts = m1.verts :=
  Model.lookupPoint_after_add m m1 obj obj' id o hkey h add

/-- **Catalogue, one level, any state** (the single add/resolve step used by the induction; no
    well-formedness hypotheses).  After `ObjectCatalogue._add(obj, lower)` in ANY model state, the
    tail of `lookup` (`Model.resolve`: candidate scan, twins policy) run for any object `obj'` that
    `Orientation.compute` matches to `obj` (e.g. any re-oriented copy), arriving with ANY
    permutation `lower'` of the stored codimension-1 nodes, returns the SAME node (the id just
    created) together with the orientation `compute obj obj'` — the node is filed under every
    permutation of its facet nodes (`set(permutations(…))`) and found again under each of them.
    Twins filed earlier under the same key must not match `obj'` and must be tolerated by the
    twins policy.  The full statement is `C17_catalogue_canonical`. -/
theorem C17_catalogue_step (m : Model) (obj obj' : Obj) (lower lower' : List (List ℕ))
    (o : Orientation) (add : Bool) (twins : List ℕ)
    (hpd : obj.pardim < m.levels.size) (hpd' : obj'.pardim = obj.pardim)
    (hperm : (lower'.getLastD []).Perm (lower.getLastD []))
    (hc : Orientation.compute obj obj' = .ok o)
    (hsize : ∀ k ∈ (m.level obj.pardim).get (lower'.getLastD []), k < m.nodes.size)
    (hold : ∀ k ∈ (m.level obj.pardim).get (lower'.getLastD []), ∀ o',
      Orientation.compute (m.node k).obj obj' ≠ .ok o')
    (htw : (m.level obj.pardim).get (lower'.getLastD []) ≠ [] → twins.contains obj.pardim = false) :
    (m.addNode obj lower).2.1 = m.nodes.size ∧
    (m.addNode obj lower).1.resolve obj' lower' add twins =
      .ok ((m.addNode obj lower).1, m.nodes.size, o) :=
  ⟨(Model.addNode_spec m obj lower hpd).1,
   Model.resolve_after_addNode m obj obj' lower lower' o add twins hpd hpd' hperm hc hsize hold htw⟩

/-- hypotheses of `C17_catalogue_step` are satisfiable: an empty 1-D catalogue, a
    unit segment added, its reversed copy looked up. -/
example : ∃ (m : Model) (obj obj' : Obj) (o : Orientation),
    obj.pardim < m.levels.size ∧ obj'.pardim = obj.pardim ∧ Orientation.compute obj obj' = .ok o ∧
    o = ⟨[0], [true]⟩ := by
  let b : Basis ℚ := { order := 2, knots := #[0, 0, 1, 1], periodic := -1 }
  refine ⟨Model.empty 1, ⟨[b], ⟨[2], #[[0, 0], [1, 0]]⟩, false⟩, ⟨[b], ⟨[2], #[[1, 0], [0, 0]]⟩, false⟩,
    ⟨[0], [true]⟩, by decide, rfl, by decide +kernel, rfl⟩

/-- Twins policy and handedness (statements about one catalogue level / one `add` call):
    * one candidate filed under the key, no orientation fits, twins forbidden at this dimension
      → `OrientationError` ("Candidate nodes found but no orientation matched");
    * the same with twins tolerated and `add` → a new node is created (`_add`);
    * two or more candidates and twins forbidden → `TwinError`;
    * `force_right_hand`: any patch for which `is_right_hand` is not `True` → `ValueError`
      before anything is added; a negative Jacobian determinant at the parametric centre makes
      `is_right_hand` false (2-D; the threshold `tol = 1e-3` on the normalised determinant is
      modelled literally in `isRightHand`);
    * `force_right_hand` outside (2,2)/(3,3) → `ValueError` from the constructor. -/
theorem C17_twins_and_handedness :
    (∀ (m : Model) (obj : Obj) (lower : List (List ℕ)) (add : Bool) (twins : List ℕ) (c : ℕ),
      (m.level obj.pardim).get (lower.getLastD []) = [c] →
      (∀ o, Orientation.compute (m.node c).obj obj ≠ .ok o) →
      twins.contains obj.pardim = true → m.resolve obj lower add twins = .error .orientation) ∧
    (∀ (m : Model) (obj : Obj) (lower : List (List ℕ)) (twins : List ℕ) (c : ℕ),
      (m.level obj.pardim).get (lower.getLastD []) = [c] →
      (∀ o, Orientation.compute (m.node c).obj obj ≠ .ok o) →
      twins.contains obj.pardim = false → m.resolve obj lower true twins = .ok (m.addNode obj lower)) ∧
    (∀ (m : Model) (obj : Obj) (lower : List (List ℕ)) (add : Bool) (twins : List ℕ) (c d : ℕ) (cs : List ℕ),
      (m.level obj.pardim).get (lower.getLastD []) = c :: d :: cs →
      twins.contains obj.pardim = true → m.resolve obj lower add twins = .error .twin) ∧
    (∀ (ktol : ℚ) (sm : SplineModel) (objs : List Obj) (twins : List ℕ), sm.forceRightHand = true →
      (∃ p ∈ objs, isRightHand ktol p (1 / 1000) ≠ some true) → sm.add ktol objs twins = .error .value) ∧
    (∀ (ktol tol : ℚ) (o : Obj), o.dimension = 2 → o.pardim = 2 → jacDet2 ktol o < 0 →
      isRightHand ktol o tol = some false) ∧
    (∀ pardim dimension : ℕ, ¬ ((pardim = 2 ∧ dimension = 2) ∨ (pardim = 3 ∧ dimension = 3)) →
      SplineModel.new pardim dimension true = .error .value) :=
  ⟨Model.resolve_single_reject, Model.resolve_single_accept, Model.resolve_many_reject,
   SplineModel.add_left_handed, isRightHand_neg2, SplineModel.new_wrong_dims⟩

/-! ## The catalogue induction

Universe: `GU D` = well-formed array objects of physical dimension `D` — `D` components per control
point plus a POSITIVE weight when rational; rational and non-rational objects may be mixed — and
parametric dimension ≤ 3 (`Lemmas/C17Sections.lean`).  Entity identity is `Equiv`
(`Orientation.compute` does not raise), an equivalence relation on `GU` (`C17_equiv`) that is
compatible with sections (`sect_equiv`: if `o = compute a b` then `b.section(s) ≈
a.section(o.map_section(s))`, through `o.view_section(s)`).  The cells of the complex spanned by a
list of patches are the patches and their iterated proper sections (`Cell`).

The invariant `Inv nc S m` of a catalogue state (`Lemmas/C17Inv.lean`) says: vertex keys are
distinct and point to point nodes with that key, every point node is registered; every node
carries an object of `S`; the lower links of a node are the nodes REPRESENTING (`Rep`: stored
object `≈`) the sections of its object, in `sections` order; a node is filed under its facet
nodes; whatever is filed under a key has facet nodes that are a permutation of the key; **key
classes**: permuted keys carry the same candidate list; distinct nodes represent distinct
classes. -/

/-- **The invariant is established by the empty catalogue and kept by `SplineModel.add`**, for
    any list of patches from the universe, any insertion order, any orientation of every patch,
    any twins policy (when `add` does not raise); all nodes of the old state survive with their
    objects and lower links, and every added patch is represented afterwards. -/
theorem C17_catalogue_invariant {nc : ℕ} {S : Obj → Prop}
    (hsect : ∀ y sec, S y → sec.length = y.pardim → secTgtDim sec < y.pardim → S (y.sect sec)) :
    (∀ P, Inv nc S (Model.empty P)) ∧
    ∀ (ktol : ℚ) (sm sm' : SplineModel) (objs : List Obj) (tw : List ℕ),
      Inv nc S sm.cat → sm.cat.levels.size = sm.pardim + 1 →
      (∀ p ∈ objs, GU nc p ∧ p.pardim ≤ sm.pardim ∧ S p) →
      sm.add ktol objs tw = .ok sm' →
      Inv nc S sm'.cat ∧ Ext sm.cat sm'.cat ∧ sm'.pardim = sm.pardim ∧
        ∀ p ∈ objs, ∃ c, Rep sm'.cat c p := by
  refine ⟨fun P => Inv.empty nc S P, ?_⟩
  intro ktol sm sm' objs tw hI hL hobjs hadd
  obtain ⟨hp, hfold⟩ := SplineModel.add_ok hadd
  obtain ⟨a, b, c⟩ := addAll_sound hsect sm.pardim tw objs sm.cat sm'.cat hI hL hobjs hfold
  exact ⟨a, b, hp, c⟩

/-- **`C17_catalogue_canonical`** (rational or not, parametric dimension ≤ 3).
    Let a fresh `SplineModel(P, D, force_right_hand)` receive ANY list of patches from the universe
    — any insertion order, every patch in any of its orientations, any twins policy — and let
    `add` return normally.  With `m` the resulting catalogue and `Cell patches` the cells of the
    complex (patches and iterated proper sections):

    * **nodes ↔ cells up to `≈`**: every node stores a cell (A); nodes storing `≈`-equivalent
      objects coincide (B); every cell is represented by a node (C).  Hence the nodes of dimension
      `d` are in bijection with the `≈`-classes of `d`-cells: one node per distinct vertex, edge,
      face, patch.
    * **lookup** (D): `model[y]` of ANY object `y` of the universe that is `≈` to some cell (any
      re-oriented copy of any section of any patch) returns normally, at a node representing `y`,
      with an orientation that `compute` accepts (so by `C17_compute_sound` it maps `y`'s net and
      bases onto the node's object);
      (E) two lookups return the same node iff the objects are `≈`;
      (F) **non-matching objects are reported as such**: if `model[y]` returns normally then `y`
      is `≈` to a cell.

    `nodes(d)`, `higher_nodes` and `boundary()` are in `C17_catalogue_counts`.

    Entity identity is the model's `≈` throughout (in particular, for rational points it compares the
    pre-multiplied coordinates only, as the code's vertex key does — finding class
    `rational-vertex-key-ignores-weight`; and `≈` identifies nets whose weights differ by a global
    factor — class `compute-normalises-weights-only`).  Not covered: parametric dimension > 3,
    periodic-basis specifics (none are used by the catalogue), tolerant comparison (exact keys). -/
theorem C17_catalogue_canonical {nc : ℕ} (P D : ℕ) (frh : Bool) (ktol : ℚ)
    (patches : List Obj) (tw : List ℕ) (sm0 sm : SplineModel)
    (hnew : SplineModel.new P D frh = .ok sm0)
    (hgu : ∀ p ∈ patches, GU nc p ∧ p.pardim ≤ P)
    (hadd : sm0.add ktol patches tw = .ok sm) :
    (∀ c, c < sm.cat.nodes.size → Cell patches (sm.cat.node c).obj) ∧
    (∀ c c', c < sm.cat.nodes.size → c' < sm.cat.nodes.size →
      Equiv (sm.cat.node c).obj (sm.cat.node c').obj → c = c') ∧
    (∀ x, Cell patches x → ∃ c, Rep sm.cat c x) ∧
    (∀ y, GU nc y → y.pardim ≤ P → (∃ x, Cell patches x ∧ Equiv x y) →
      ∃ id o, sm.getItem y = .ok (id, o) ∧ Rep sm.cat id y ∧
        Orientation.compute (sm.cat.node id).obj y = .ok o) ∧
    (∀ y z id id' o o', GU nc y → GU nc z → y.pardim ≤ P → z.pardim ≤ P →
      sm.getItem y = .ok (id, o) → sm.getItem z = .ok (id', o') → (id = id' ↔ Equiv y z)) ∧
    (∀ y id o, GU nc y → y.pardim ≤ P → sm.getItem y = .ok (id, o) →
      ∃ x, Cell patches x ∧ Equiv x y) := by
  -- the fresh model
  have hsm0 : sm0.pardim = P ∧ sm0.cat = Model.empty P := by
    unfold SplineModel.new at hnew
    split at hnew
    · simp at hnew
    · simp only [Except.ok.injEq] at hnew
      subst hnew; exact ⟨rfl, rfl⟩
  have hsect : ∀ y sec, Cell patches y → sec.length = y.pardim → secTgtDim sec < y.pardim →
      Cell patches (y.sect sec) := fun y sec hy hl ht => Cell.sect hy hl ht
  have hgu' : ∀ p ∈ patches, GU nc p := fun p hp => (hgu p hp).1
  obtain ⟨hI, _, hpd, hreps⟩ := (C17_catalogue_invariant (nc := nc) hsect).2 ktol sm0 sm patches tw
    (by rw [hsm0.2]; exact Inv.empty nc _ P) (by rw [hsm0.2, hsm0.1]; exact Model.empty_lsize P)
    (fun p hp => ⟨(hgu p hp).1, by rw [hsm0.1]; exact (hgu p hp).2, Cell.patch hp⟩) hadd
  have hlsz : sm.cat.levels.size = P + 1 := by
    obtain ⟨_, hE, _, _⟩ := (C17_catalogue_invariant (nc := nc) hsect).2 ktol sm0 sm patches tw
      (by rw [hsm0.2]; exact Inv.empty nc _ P) (by rw [hsm0.2, hsm0.1]; exact Model.empty_lsize P)
      (fun p hp => ⟨(hgu p hp).1, by rw [hsm0.1]; exact (hgu p hp).2, Cell.patch hp⟩) hadd
    rw [hE.lsize, hsm0.2]; exact Model.empty_lsize P
  have hsp : sm.pardim = P := by rw [hpd, hsm0.1]
  have hcell := fun x (hx : Cell patches x) => Cell.rep hI hgu' hreps hx
  -- `model[y]`
  have hget : ∀ y id o, GU nc y → y.pardim ≤ P → sm.getItem y = .ok (id, o) →
      Rep sm.cat id y ∧ Orientation.compute (sm.cat.node id).obj y = .ok o := by
    intro y id o hy hyp h
    unfold SplineModel.getItem at h
    rw [hsp] at h
    cases h1 : Model.lookup P sm.cat y false [] with
    | error e => rw [h1] at h; simp [bind, Except.bind] at h
    | ok r =>
      obtain ⟨m1, id1, o1⟩ := r
      rw [h1] at h
      simp only [bind, Except.bind, pure, Except.pure, Except.ok.injEq, Prod.mk.injEq] at h
      obtain ⟨rfl, rfl⟩ := h
      obtain ⟨_, _, hR, hC, hsame⟩ := lookup_sound (nc := nc) hsect false [] P sm.cat y m1 id1 o1 hI hy hyp
        (by rw [hlsz]; omega) (fun h => by simp at h) h1
      rw [hsame rfl] at hR hC
      exact ⟨hR, hC⟩
  refine ⟨fun c hc => (hI.orig c hc).1, hI.uniq, hcell, ?_, ?_, ?_⟩
  · rintro y hy hyp ⟨x, hx, hxy⟩
    obtain ⟨c, hc⟩ := hcell x hx
    have hcy : Rep sm.cat c y := Rep.equiv hI (hx.gu hgu') hy hc hxy
    obtain ⟨r, hr⟩ := lookup_complete (nc := nc) hsect false P sm.cat y hI hy hyp
      (by rw [hlsz]; omega) (fun h => by simp at h) ⟨c, hcy⟩
    obtain ⟨m1, id1, o1⟩ := r
    have hgi : sm.getItem y = .ok (id1, o1) := by
      unfold SplineModel.getItem
      rw [hsp]
      beta_reduce at hr
      rw [hr]; rfl
    exact ⟨id1, o1, hgi, hget y id1 o1 hy hyp hgi⟩
  · intro y z id id' o o' hy hz hyp hzp h1 h2
    obtain ⟨hR1, _⟩ := hget y id o hy hyp h1
    obtain ⟨hR2, _⟩ := hget z id' o' hz hzp h2
    constructor
    · rintro rfl
      exact hy.equiv_trans (hI.gu hR1.1) hz ((hI.gu hR1.1).equiv_symm hy hR1.2) hR2.2
    · intro hyz
      have : Rep sm.cat id z := Rep.equiv hI hy hz hR1 hyz
      exact hI.rep_unique hz this hR2
  · intro y id o hy hyp h
    obtain ⟨hR, _⟩ := hget y id o hy hyp h
    exact ⟨_, (hI.orig id hR.1).1, hR.2⟩

/-- **`C17_catalogue_counts`** (same hypotheses as `C17_catalogue_canonical`).
    * `catalogue.nodes(d)` is duplicate-free and lists exactly the nodes of dimension `d`; with
      (A)(B)(C) of `C17_catalogue_canonical` its elements form a complete irredundant system of
      representatives of the `d`-cells modulo `≈`: **`#nodes(d)` = number of distinct `d`-cells**.
    * **`higher_nodes`**: the node `c` occurs in `higher_nodes[c.pardim]` of the node `F` exactly
      as often as `F` occurs among the lower links of `c`, nothing else occurs there, and the lower
      link `(i, j)` of `c` IS `F` iff the `j`-th `i`-dimensional section of `c`'s object is `≈` to
      `F`'s object.  So for an interface `F` the list `higher_nodes[pardim]` consists exactly of
      its adjacent patches, each as often as it has `F` as a face (twice for a self-connected
      patch).
    * **`boundary()`** (when it returns): exactly the codimension-1 nodes whose `higher_nodes` list
      is a single patch — the unshared faces. -/
theorem C17_catalogue_counts {nc : ℕ} (P D : ℕ) (frh : Bool) (ktol : ℚ)
    (patches : List Obj) (tw : List ℕ) (sm0 sm : SplineModel)
    (hnew : SplineModel.new P D frh = .ok sm0)
    (hgu : ∀ p ∈ patches, GU nc p ∧ p.pardim ≤ P)
    (hadd : sm0.add ktol patches tw = .ok sm) :
    (∀ d, (sm.cat.nodesOf d).Nodup ∧
      (∀ c, c ∈ sm.cat.nodesOf d ↔ c < sm.cat.nodes.size ∧ (sm.cat.node c).obj.pardim = d) ∧
      (∀ c ∈ sm.cat.nodesOf d, Cell patches (sm.cat.node c).obj) ∧
      (∀ c ∈ sm.cat.nodesOf d, ∀ c' ∈ sm.cat.nodesOf d,
        Equiv (sm.cat.node c).obj (sm.cat.node c').obj → c = c') ∧
      (∀ x, Cell patches x → x.pardim = d → ∃ c ∈ sm.cat.nodesOf d, Equiv (sm.cat.node c).obj x)) ∧
    (∀ F c, F < sm.cat.nodes.size → c < sm.cat.nodes.size →
      (((sm.cat.node F).higherAt (sm.cat.node c).obj.pardim).getD []).count c =
        (sm.cat.node c).lower.flatten.count F) ∧
    (∀ F c d, F < sm.cat.nodes.size → ¬ (c < sm.cat.nodes.size ∧ (sm.cat.node c).obj.pardim = d) →
      (((sm.cat.node F).higherAt d).getD []).count c = 0) ∧
    (∀ c F i j, c < sm.cat.nodes.size → F < sm.cat.nodes.size → i < (sm.cat.node c).obj.pardim →
      j < (sections (sm.cat.node c).obj.pardim i).length →
      (((sm.cat.node c).lower.getD i []).getD j 0 = F ↔
        Equiv (sm.cat.node F).obj
          ((sm.cat.node c).obj.sect ((sections (sm.cat.node c).obj.pardim i).getD j [])))) ∧
    (∀ bs, sm.boundary = some bs → ∀ k, k ∈ bs ↔
      (k < sm.cat.nodes.size ∧ (sm.cat.node k).obj.pardim = P - 1) ∧
        ∃ c, (sm.cat.node k).higherAt ((sm.cat.node k).pardim + 1) = some [c]) := by
  obtain ⟨hI, hsp, _, hreps⟩ := fresh_add_inv (nc := nc) P D frh ktol patches tw sm0 sm hnew hgu hadd
  have hgu' : ∀ p ∈ patches, GU nc p := fun p hp => (hgu p hp).1
  refine ⟨fun d => ?_, fun F c hF hc => higher_spec hI hF hc,
    fun F c d hF hc => higher_spec_zero hI hF hc,
    fun c F i j hc hF hi hj => lower_eq_iff hI hc hF hi hj,
    fun bs hbs k => by rw [← hsp]; exact boundary_spec hI hbs k⟩
  obtain ⟨hnd, hmem⟩ := nodesOf_spec hI d
  refine ⟨hnd, hmem, fun c hc => (hI.orig c ((hmem c).1 hc).1).1, ?_, ?_⟩
  · intro c hc c' hc' heq
    exact hI.uniq c c' ((hmem c).1 hc).1 ((hmem c').1 hc').1 heq
  · intro x hx hxd
    obtain ⟨c, hc⟩ := Cell.rep hI hgu' hreps hx
    exact ⟨c, (hmem c).2 ⟨hc.1, by rw [hc.2.pardim_eq]; exact hxd⟩, hc.2⟩

/-- With twins tolerated (`raise_on_twins=False`) and handedness not forced, `SplineModel.add`
    never raises on patches of the model's physical dimension and parametric dimension ≤ 3 — so the
    hypothesis "`add` returns normally" of the catalogue theorems excludes only rejected twins and
    rejected left-handed patches. -/
theorem C17_add_total (ktol : ℚ) (sm : SplineModel) (objs : List Obj)
    (hfr : sm.forceRightHand = false) (hP : sm.pardim ≤ 3)
    (hobjs : ∀ p ∈ objs, p.dimension = sm.dimension ∧ p.pardim ≤ sm.pardim) :
    ∃ sm', sm.add ktol objs [] = .ok sm' := SplineModel.add_total ktol sm objs hfr hP hobjs

/-- the hypotheses of `C17_catalogue_canonical` / `C17_catalogue_counts` are satisfiable
    (a model of curves in the plane holding one segment). -/
example : ∃ (patches : List Obj) (sm0 sm : SplineModel), patches ≠ [] ∧
    SplineModel.new 1 2 false = .ok sm0 ∧ (∀ p ∈ patches, GU 2 p ∧ p.pardim ≤ 1) ∧
    sm0.add (1 / 10000000000) patches [] = .ok sm := by
  let seg : Obj := ⟨[{ order := 2, knots := #[0, 0, 1, 1], periodic := -1 }], ⟨[2], #[[0, 0], [1, 0]]⟩, false⟩
  have hgu : GU 2 seg := by
    refine ⟨⟨rfl, rfl, by decide, fun i hi => ?_⟩, fun k hk => ?_, fun h => by simp [seg] at h,
      by decide⟩
    · have : i = 0 := by simpa [Obj.pardim, seg] using hi
      subst this; simp [KnotsOK, seg]
    · have hk' : k < 2 := hk
      have : k = 0 ∨ k = 1 := by omega
      rcases this with rfl | rfl <;> rfl
  obtain ⟨sm, hsm⟩ := SplineModel.add_total (1 / 10000000000) ⟨1, 2, false, Model.empty 1⟩ [seg] rfl
    (by decide) (fun p hp => by
      simp only [List.mem_singleton] at hp; subst hp
      exact ⟨hgu.dimension, by decide⟩)
  exact ⟨[seg], ⟨1, 2, false, Model.empty 1⟩, sm, by simp, rfl,
    fun p hp => by simp only [List.mem_singleton] at hp; subst hp; exact ⟨hgu, by decide⟩, hsm⟩
