import Splipy.Lemmas.C13Arc
import Splipy.Lemmas.C13Place
import Splipy.Lemmas.C13Spline
import Splipy.Lemmas.C13Real
import Splipy.Lemmas.C13Eval
import Splipy.Lemmas.C13Lift
import Splipy.Lemmas.C13Three
import Splipy.Lemmas.C13Factory
import Mathlib.Analysis.SpecialFunctions.Sqrt

/-!
# Property C13 — primitive factories produce the exact shapes they name, placed as requested

Theorems about the executable model `Splipy.Fac` (Model/Factories.lean), over an arbitrary ordered
field.  Trigonometric quantities are field elements constrained by their defining relations
(`c² + s² = 1`, `w² = 1/2`, `s2² = 2`, supplied norms squared = sums of squares).  Spans are
treated in Bernstein form (`bern2`, `bern4`): the control points named are those the B-spline
basis of the factory attaches to the span (double interior knots, degree 2; triple knots, degree 4).
-/

open Splipy Splipy.Fac

variable {K : Type} [Field K] [LinearOrder K] [IsStrictOrderedRing K]

/-! ## arcs -/

/-- **Arcs lie on their circle.**  For the control net `arcNet r cd sd n` that `circle_segment`
builds (`(cd, sd) = (cos dt, sin dt)`, `n` spans):
1. the `i`-th control point is `(r·C_i, r·S_i, w_i)` with `(C_i, S_i)` the `i`-fold rotation
   by `dt` and `w_i = 1, cos dt, 1, …`; the net starts on the x-axis: `(r, 0, 1)`;
2. `(C_i, S_i)` is on the unit circle, and indices add like angles (so the net ends at `2n·dt = θ`);
3. every span `j` satisfies `X(t)² + Y(t)² = r²·W(t)²` identically in the parameter, its end
   points (`t = 0, 1`) are the control points `2j`, `2j+2` (weight 1) at angles `2j·dt`, `(2j+2)·dt`;
4. for `cos dt > 0` the weight function is positive on `[0,1]`; for `r, cos dt, sin dt > 0`
   the span is traversed counter-clockwise. -/
theorem C13_arc_on_circle (r cd sd : K) (n : ℕ) (hd : cd ^ 2 + sd ^ 2 = 1) :
    (∀ i, i < 2 * n + 1 →
        (arcNet r cd sd n)[i]? = some [arcX r cd sd i, arcY r cd sd i, arcW cd i]) ∧
    (arcX r cd sd 0 = r ∧ arcY r cd sd 0 = 0 ∧ arcW cd 0 = 1) ∧
    (∀ i, arcX r cd sd i ^ 2 + arcY r cd sd i ^ 2 = r ^ 2) ∧
    (∀ i j, angleIter cd sd (i + j) =
        ((angleIter cd sd i).1 * (angleIter cd sd j).1 - (angleIter cd sd i).2 * (angleIter cd sd j).2,
         (angleIter cd sd i).2 * (angleIter cd sd j).1 + (angleIter cd sd i).1 * (angleIter cd sd j).2)) ∧
    (∀ j t,
        (bern2 (arcX r cd sd (2 * j)) (arcX r cd sd (2 * j + 1)) (arcX r cd sd (2 * j + 2)) t) ^ 2
        + (bern2 (arcY r cd sd (2 * j)) (arcY r cd sd (2 * j + 1)) (arcY r cd sd (2 * j + 2)) t) ^ 2
        = r ^ 2 * (bern2 (arcW cd (2 * j)) (arcW cd (2 * j + 1)) (arcW cd (2 * j + 2)) t) ^ 2) ∧
    (∀ j, bern2 (arcX r cd sd (2 * j)) (arcX r cd sd (2 * j + 1)) (arcX r cd sd (2 * j + 2)) 0
            = arcX r cd sd (2 * j) ∧
          bern2 (arcY r cd sd (2 * j)) (arcY r cd sd (2 * j + 1)) (arcY r cd sd (2 * j + 2)) 0
            = arcY r cd sd (2 * j) ∧
          bern2 (arcW cd (2 * j)) (arcW cd (2 * j + 1)) (arcW cd (2 * j + 2)) 0 = 1 ∧
          bern2 (arcX r cd sd (2 * j)) (arcX r cd sd (2 * j + 1)) (arcX r cd sd (2 * j + 2)) 1
            = arcX r cd sd (2 * j + 2) ∧
          bern2 (arcY r cd sd (2 * j)) (arcY r cd sd (2 * j + 1)) (arcY r cd sd (2 * j + 2)) 1
            = arcY r cd sd (2 * j + 2) ∧
          bern2 (arcW cd (2 * j)) (arcW cd (2 * j + 1)) (arcW cd (2 * j + 2)) 1 = 1) ∧
    (0 < cd → ∀ j t, 0 ≤ t → t ≤ 1 →
        0 < bern2 (arcW cd (2 * j)) (arcW cd (2 * j + 1)) (arcW cd (2 * j + 2)) t) ∧
    (0 < r → 0 < cd → 0 < sd → ∀ j t u, 0 ≤ t → t < u → u ≤ 1 →
        0 < bern2 (arcX r cd sd (2 * j)) (arcX r cd sd (2 * j + 1)) (arcX r cd sd (2 * j + 2)) t
              * bern2 (arcY r cd sd (2 * j)) (arcY r cd sd (2 * j + 1)) (arcY r cd sd (2 * j + 2)) u
            - bern2 (arcY r cd sd (2 * j)) (arcY r cd sd (2 * j + 1)) (arcY r cd sd (2 * j + 2)) t
              * bern2 (arcX r cd sd (2 * j)) (arcX r cd sd (2 * j + 1)) (arcX r cd sd (2 * j + 2)) u) := by
  have hw0 : ∀ j, arcW cd (2 * j) = 1 := fun j => by simp [arcW]
  have hw2 : ∀ j, arcW cd (2 * j + 2) = 1 := fun j => by
    have : (2 * j + 2) % 2 = 0 := by omega
    simp [arcW, this]
  have hw1 : ∀ j, arcW cd (2 * j + 1) = cd := fun j => by
    have : (2 * j + 1) % 2 = 1 := by omega
    simp [arcW, this]
  have hx1 : ∀ j, arcX r cd sd (2 * j + 1)
      = r * ((angleIter cd sd (2 * j)).1 * cd - (angleIter cd sd (2 * j)).2 * sd) := fun j => rfl
  have hy1 : ∀ j, arcY r cd sd (2 * j + 1)
      = r * ((angleIter cd sd (2 * j)).2 * cd + (angleIter cd sd (2 * j)).1 * sd) := fun j => rfl
  have hx2 : ∀ j, arcX r cd sd (2 * j + 2)
      = r * (((angleIter cd sd (2 * j)).1 * cd - (angleIter cd sd (2 * j)).2 * sd) * cd
            - ((angleIter cd sd (2 * j)).2 * cd + (angleIter cd sd (2 * j)).1 * sd) * sd) := fun j => rfl
  have hy2 : ∀ j, arcY r cd sd (2 * j + 2)
      = r * (((angleIter cd sd (2 * j)).2 * cd + (angleIter cd sd (2 * j)).1 * sd) * cd
            + ((angleIter cd sd (2 * j)).1 * cd - (angleIter cd sd (2 * j)).2 * sd) * sd) := fun j => rfl
  refine ⟨fun i hi => arcNet_getElem? r cd sd n i hi, ?_, ?_, angleIter_add cd sd, ?_, ?_, ?_, ?_⟩
  · simp [arcX, arcY, arcW, angleIter]
  · intro i
    have := angleIter_norm cd sd hd i
    simp only [arcX, arcY]
    linear_combination r ^ 2 * this
  · intro j t
    rw [hw0, hw1, hw2, hx1, hy1, hx2, hy2]
    exact arc_span_identity r _ _ cd sd t (angleIter_norm cd sd hd (2 * j)) hd
  · intro j
    rw [hw0, hw2]
    simp [bern2]
  · intro hcd j t h0 h1
    rw [hw0, hw1, hw2]
    exact arc_weight_pos cd t hcd h0 h1
  · intro hr hcd hsd j t u h0 htu hu
    rw [hx1, hy1, hx2, hy2]
    exact arc_span_ccw r _ _ cd sd t u (angleIter_norm cd sd hd (2 * j)) hd hr hcd hsd h0 htu hu

/-- hypotheses of `C13_arc_on_circle` are satisfiable (the 3-4-5 angle). -/
example : ∃ cd sd : ℚ, cd ^ 2 + sd ^ 2 = 1 ∧ 0 < cd ∧ 0 < sd := ⟨4 / 5, 3 / 5, by norm_num⟩

/-- **Full circle, `type='p2C0'`.**  With `w² = 1/2` each of the four spans of the literal
periodic net (control points `2j, 2j+1, 2j+2 mod 8`) satisfies `X² + Y² = W²` identically,
the first span starts at `(1,0)` with weight 1 (angle 0) and consecutive spans share their
end point (weight 1) at the angles `0, π/2, π, 3π/2`: `(1,0), (0,1), (−1,0), (0,−1)`. -/
theorem C13_circle_p2C0 (w : K) (hw : w ^ 2 = 1 / 2) (j : ℕ) (hj : j < 4) :
    ∃ x0 y0 x1 y1 x2 y2 : K,
      (circleNetP2 w).getD ((2 * j) % 8) [] = [x0, y0, 1] ∧
      (circleNetP2 w).getD ((2 * j + 1) % 8) [] = [x1, y1, w] ∧
      (circleNetP2 w).getD ((2 * j + 2) % 8) [] = [x2, y2, 1] ∧
      x0 ^ 2 + y0 ^ 2 = 1 ∧ x2 ^ 2 + y2 ^ 2 = 1 ∧
      (x0, y0) = (match j with | 0 => (1, 0) | 1 => (0, 1) | 2 => (-1, 0) | _ => (0, -1)) ∧
      x2 = -y0 ∧ y2 = x0 ∧
      ∀ t, (bern2 x0 x1 x2 t) ^ 2 + (bern2 y0 y1 y2 t) ^ 2 = (bern2 1 w 1 t) ^ 2 := by
  interval_cases j
  · refine ⟨1, 0, w, w, 0, 1, rfl, rfl, rfl, by norm_num, by norm_num, rfl, by norm_num, rfl, fun t => ?_⟩
    unfold bern2; linear_combination (4 * t ^ 2 * (t - 1) ^ 2) * hw
  · refine ⟨0, 1, -w, w, -1, 0, rfl, rfl, rfl, by norm_num, by norm_num, rfl, rfl, rfl, fun t => ?_⟩
    unfold bern2; linear_combination (4 * t ^ 2 * (t - 1) ^ 2) * hw
  · refine ⟨-1, 0, -w, -w, 0, -1, rfl, rfl, rfl, by norm_num, by norm_num, rfl, by norm_num, rfl, fun t => ?_⟩
    unfold bern2; linear_combination (4 * t ^ 2 * (t - 1) ^ 2) * hw
  · refine ⟨0, -1, w, -w, 1, 0, rfl, rfl, rfl, by norm_num, by norm_num, rfl, by norm_num, rfl, fun t => ?_⟩
    unfold bern2; linear_combination (4 * t ^ 2 * (t - 1) ^ 2) * hw

/-- **Full circle, `type='p4C1'`, as a B-spline curve.**  With `s2² = 2` and `pi > 0`: for the basis
`BSplineBasis(5, [-1,-1,0,0,0,1,1,1,…,5,5]·π/2, periodic=1)` of the factory and its literal 12-point
net (coefficients wrap modulo 12 over the 14 basis functions, as the periodic evaluation does), the
homogeneous curve `(X, Y, W)(t) = Σ_i cp[i mod 12]·B_{i,4}(t)` (`B` = Cox–de Boor, either side)
satisfies `X(t)² + Y(t)² = W(t)²` for every `t` of the parameter domain `[0, 2π)` resp. `(0, 2π]`
(the four spans `[jπ/2, (j+1)π/2]`).
The proof identifies each order-5 span with triple knots with its quartic Bézier form
`((d0+d1)/2, d1, d2, d3, (d3+d4)/2)` (`splineVal_triple4`, from the Cox–de Boor recursion) and
uses the polynomial identity `p4_span_identity`. -/
theorem C13_circle_p4C1 (pi s2 : K) (hpi : 0 < pi) (h2 : s2 ^ 2 = 2) (sd : Side) (j : ℕ) (hj : j < 4)
    (t : K) (ht : sd.mem ((j : K) * (pi / 2)) ((j : K) * (pi / 2) + pi / 2) t) :
    (splineVal sd ({ order := 5, knots := (circleKnotsP4 pi).toArray, periodic := 1 } : Basis K).kn 4 14
        (netComp (circleNetP4 s2) 0) t) ^ 2
    + (splineVal sd ({ order := 5, knots := (circleKnotsP4 pi).toArray, periodic := 1 } : Basis K).kn 4 14
        (netComp (circleNetP4 s2) 1) t) ^ 2
    = (splineVal sd ({ order := 5, knots := (circleKnotsP4 pi).toArray, periodic := 1 } : Basis K).kn 4 14
        (netComp (circleNetP4 s2) 2) t) ^ 2 := by
  have hs : s2 ≠ 0 := by
    intro h0; rw [h0] at h2; norm_num at h2
  have hh : (0 : K) < pi / 2 := by positivity
  have hτ := p4Knot_mono (pi / 2) hh
  have hk : ∀ c, splineVal sd ({ order := 5, knots := (circleKnotsP4 pi).toArray, periodic := 1 } : Basis K).kn 4 14 c t
      = splineVal sd (p4Knot (pi / 2)) 4 14 c t := fun c =>
    splineVal_congr_knots sd _ _ 4 14 c t (fun k hk => kn_circleP4 pi k (by omega))
  rw [hk, hk, hk]
  have hv : ∀ c, splineVal sd (p4Knot (pi / 2)) 4 14 c t =
      bern4 ((c (3*j) + c (3*j+1)) / 2) (c (3*j+1)) (c (3*j+2)) (c (3*j+3)) ((c (3*j+3) + c (3*j+4)) / 2)
        ((t - (j : K) * (pi / 2)) / (pi / 2)) := by
    intro c
    apply splineVal_triple4 sd (p4Knot (pi / 2)) hτ (3*j) 14 c ((j : K) * (pi / 2)) (pi / 2) t hh
      <;> first
        | exact ht
        | omega
        | (interval_cases j <;> simp [p4Knot] <;> ring)
  rw [hv, hv, hv]
  interval_cases j
  all_goals simp only [netComp, circleNetP4, List.length_cons, List.length_nil]
  all_goals norm_num
  · exact p4_span_identity s2 _ h2 hs
  · rw [bern4_negA, add_comm]; exact p4_span_identity s2 _ h2 hs
  · rw [bern4_negA, bern4_negB]; exact p4_span_identity s2 _ h2 hs
  · rw [bern4_negB, add_comm]; exact p4_span_identity s2 _ h2 hs

/-- **Full circle, `type='p2C0'`, as a B-spline curve**: the same statement for the basis
`BSplineBasis(3, [-1,0,0,1,1,…,4,4,5]·π/2, periodic=0)` and the literal 8-point net (`w² = 1/2`);
each span has knots of multiplicity two at both ends, so the three quadratic B-splines living on
it are the Bernstein polynomials (`B2_bezier`). -/
theorem C13_circle_p2C0_spline (pi w : K) (hpi : 0 < pi) (hw : w ^ 2 = 1 / 2) (sd : Side) (j : ℕ) (hj : j < 4)
    (t : K) (ht : sd.mem ((j : K) * (pi / 2)) ((j : K) * (pi / 2) + pi / 2) t) :
    (splineVal sd ({ order := 3, knots := (circleKnotsP2 pi).toArray, periodic := 0 } : Basis K).kn 2 9
        (netComp (circleNetP2 w) 0) t) ^ 2
    + (splineVal sd ({ order := 3, knots := (circleKnotsP2 pi).toArray, periodic := 0 } : Basis K).kn 2 9
        (netComp (circleNetP2 w) 1) t) ^ 2
    = (splineVal sd ({ order := 3, knots := (circleKnotsP2 pi).toArray, periodic := 0 } : Basis K).kn 2 9
        (netComp (circleNetP2 w) 2) t) ^ 2 := by
  have hh : (0 : K) < pi / 2 := by positivity
  have hτ := p2Knot_mono (pi / 2) hh
  have hk : ∀ c, splineVal sd ({ order := 3, knots := (circleKnotsP2 pi).toArray, periodic := 0 } : Basis K).kn 2 9 c t
      = splineVal sd (p2Knot (pi / 2)) 2 9 c t := fun c =>
    splineVal_congr_knots sd _ _ 2 9 c t (fun k hk => kn_circleP2 pi k (by omega))
  rw [hk, hk, hk]
  have hv : ∀ c, splineVal sd (p2Knot (pi / 2)) 2 9 c t =
      bern2 (c (2*j)) (c (2*j+1)) (c (2*j+2))
        ((t - (j : K) * (pi / 2)) / ((j : K) * (pi / 2) + pi / 2 - (j : K) * (pi / 2))) := by
    intro c
    apply splineVal_bezier2 sd (p2Knot (pi / 2)) hτ (2*j) 9 c ((j : K) * (pi / 2)) ((j : K) * (pi / 2) + pi / 2) t
      <;> first
        | exact ht
        | omega
        | linarith
        | (interval_cases j <;> simp [p2Knot] <;> ring)
  rw [hv, hv, hv]
  generalize (t - (j : K) * (pi / 2)) / ((j : K) * (pi / 2) + pi / 2 - (j : K) * (pi / 2)) = u
  interval_cases j
  all_goals simp only [netComp, circleNetP2, List.length_cons, List.length_nil]
  all_goals norm_num
  all_goals unfold bern2
  all_goals linear_combination (4 * u ^ 2 * (u - 1) ^ 2) * hw


/-- **`circle_segment` as a B-spline curve** (`θ > 0`, `n ≥ 1` spans).  For the basis
`BSplineBasis(3, [0,0,0,1,1,…,n,n,n]/n·θ)` and the net `arcNet r cd sd n` of the factory, on the
`j`-th knot span the three coordinate splines `Σ_i cp[i]·B_{i,2}(t)` are the Bernstein combinations
of the control points `2j, 2j+1, 2j+2` in the local parameter `u = (t − t_j)/(t_{j+1} − t_j)` —
exactly the spans treated in `C13_arc_on_circle`; consequently `X(t)² + Y(t)² = r²·W(t)²` for every
`t` in the domain. -/
theorem C13_arc_spline (r cd sd theta : K) (n : ℕ) (hn : 0 < n) (hθ : 0 < theta) (hd : cd ^ 2 + sd ^ 2 = 1)
    (s : Side) (j : ℕ) (hj : j < n) (t : K)
    (ht : s.mem ((j : K) / n * theta) (((j + 1 : ℕ) : K) / n * theta) t) :
    let τ := ({ order := 3, knots := (arcKnots theta n).toArray, periodic := -1 } : Basis K).kn
    let u := (t - (j : K) / n * theta) / (((j + 1 : ℕ) : K) / n * theta - (j : K) / n * theta)
    splineVal s τ 2 (2 * n + 1) (netComp (arcNet r cd sd n) 0) t
      = bern2 (arcX r cd sd (2 * j)) (arcX r cd sd (2 * j + 1)) (arcX r cd sd (2 * j + 2)) u ∧
    splineVal s τ 2 (2 * n + 1) (netComp (arcNet r cd sd n) 1) t
      = bern2 (arcY r cd sd (2 * j)) (arcY r cd sd (2 * j + 1)) (arcY r cd sd (2 * j + 2)) u ∧
    splineVal s τ 2 (2 * n + 1) (netComp (arcNet r cd sd n) 2) t
      = bern2 (arcW cd (2 * j)) (arcW cd (2 * j + 1)) (arcW cd (2 * j + 2)) u ∧
    (splineVal s τ 2 (2 * n + 1) (netComp (arcNet r cd sd n) 0) t) ^ 2
      + (splineVal s τ 2 (2 * n + 1) (netComp (arcNet r cd sd n) 1) t) ^ 2
      = r ^ 2 * (splineVal s τ 2 (2 * n + 1) (netComp (arcNet r cd sd n) 2) t) ^ 2 := by
  intro τ u
  have hτ := arcKnotFn_mono theta n hn hθ
  have hk : ∀ c, splineVal s τ 2 (2 * n + 1) c t = splineVal s (arcKnotFn theta n) 2 (2 * n + 1) c t := fun c =>
    splineVal_congr_knots s _ _ 2 (2 * n + 1) c t (fun k hk => kn_arc theta n k (by omega))
  have hn' : (0 : K) < n := by exact_mod_cast hn
  have hab : (j : K) / n * theta < ((j + 1 : ℕ) : K) / n * theta := by
    apply mul_lt_mul_of_pos_right _ hθ
    apply div_lt_div_of_pos_right _ hn'
    exact_mod_cast Nat.lt_succ_self j
  have kf : ∀ i m, min n ((i - 1) / 2) = m → arcKnotFn theta n i = (m : K) / n * theta := by
    intro i m h; unfold arcKnotFn; rw [h]
  have hv : ∀ c, splineVal s (arcKnotFn theta n) 2 (2 * n + 1) c t
      = bern2 (c (2 * j)) (c (2 * j + 1)) (c (2 * j + 2)) u := by
    intro c
    apply splineVal_bezier2 s (arcKnotFn theta n) hτ (2 * j) (2 * n + 1) c _ _ t hab
    · exact kf _ _ (by omega)
    · exact kf _ _ (by omega)
    · exact kf _ _ (by omega)
    · exact kf _ _ (by omega)
    · exact ht
    · omega
  obtain ⟨a0, b0, c0⟩ := netComp_arc r cd sd n (2 * j) (by omega)
  obtain ⟨a1, b1, c1⟩ := netComp_arc r cd sd n (2 * j + 1) (by omega)
  obtain ⟨a2, b2, c2⟩ := netComp_arc r cd sd n (2 * j + 2) (by omega)
  have eX : splineVal s τ 2 (2 * n + 1) (netComp (arcNet r cd sd n) 0) t
      = bern2 (arcX r cd sd (2 * j)) (arcX r cd sd (2 * j + 1)) (arcX r cd sd (2 * j + 2)) u := by
    rw [hk, hv, a0, a1, a2]
  have eY : splineVal s τ 2 (2 * n + 1) (netComp (arcNet r cd sd n) 1) t
      = bern2 (arcY r cd sd (2 * j)) (arcY r cd sd (2 * j + 1)) (arcY r cd sd (2 * j + 2)) u := by
    rw [hk, hv, b0, b1, b2]
  have eW : splineVal s τ 2 (2 * n + 1) (netComp (arcNet r cd sd n) 2) t
      = bern2 (arcW cd (2 * j)) (arcW cd (2 * j + 1)) (arcW cd (2 * j + 2)) u := by
    rw [hk, hv, c0, c1, c2]
  refine ⟨eX, eY, eW, ?_⟩
  rw [eX, eY, eW]
  exact (C13_arc_on_circle r cd sd n hd).2.2.2.2.1 j u

/-- **Ellipse.**  Scaling the homogeneous circle point `(X, Y, W)` (`X² + Y² = W²`) by
`(r1, r2, 1)` — what `ellipse` does to the unit circle net, and hence to every evaluated point —
gives a point of the ellipse `(x/r1)² + (y/r2)² = 1`. -/
theorem C13_ellipse (X Y W r1 r2 : K) (h : X ^ 2 + Y ^ 2 = W ^ 2) (hW : W ≠ 0) (h1 : r1 ≠ 0) (h2 : r2 ≠ 0) :
    scalePt 2 (Fac.Obj.padScale [r1, r2, 1]) [X, Y, W] = [X * r1, Y * r2, W] ∧
    (X * r1 / W / r1) ^ 2 + (Y * r2 / W / r2) ^ 2 = 1 := by
  refine ⟨by simp [scalePt, Fac.Obj.padScale], ?_⟩
  field_simp
  linear_combination h

/-! ## placement -/

/-- **Placement.**  Let `(ct, st) = (cos θ, sin θ)`, `(cp, sp) = (cos φ, sin φ)` obey the relations
implied by `θ = atan2(n_y, n_x)`, `φ = atan2(ρ, n_z)` with `ρ² = n_x² + n_y²`, `N² = ρ² + n_z²`,
`N > 0` (for `ρ = 0`, i.e. `n ∥ ±e_z`, `θ` is *any* angle — whatever `atan2(±0, ±0)` returns).
Then the rotation `R_z(θ)·R_y(φ)` applied by `flip_and_move_plane_geometry`
1. maps `e_z` to `n/‖n‖`;
2. preserves Euclidean norms and maps the plane `z = 0` into the plane orthogonal to `n`;
3. composed with the pre-rotation by `rotate_local_x_axis(xaxis, n)` maps `e_x` to
   `xaxis/‖xaxis‖` whenever `xaxis ⊥ n`, `xaxis ≠ 0` (`lam` is the supplied norm
   of the back-rotated x-axis, and equals `‖xaxis‖`). -/
theorem C13_placement (nx ny nz ρ N ct st cp sp : K)
    (hρ : ρ ^ 2 = nx ^ 2 + ny ^ 2) (hNN : N ^ 2 = ρ ^ 2 + nz ^ 2) (hNpos : 0 < N)
    (hθ : ρ ≠ 0 → ct * ρ = nx ∧ st * ρ = ny) (hθ1 : ct ^ 2 + st ^ 2 = 1)
    (hcp : cp * N = nz) (hsp : sp * N = ρ) :
    rotZPt ct st (rotYPt cp sp [0, 0, 1]) = [nx / N, ny / N, nz / N] ∧
    (∀ x y z : K, ∃ x' y' z' : K, rotZPt ct st (rotYPt cp sp [x, y, z]) = [x', y', z'] ∧
        x' ^ 2 + y' ^ 2 + z' ^ 2 = x ^ 2 + y ^ 2 + z ^ 2 ∧
        x' * nx + y' * ny + z' * nz = z * N) ∧
    (∀ x y z lam : K, x * nx + y * ny + z * nz = 0 → 0 < lam →
        lam ^ 2 = ((localXVec [x, y, z] ⟨ct, st, cp, sp⟩).getD 0 0) ^ 2
                + ((localXVec [x, y, z] ⟨ct, st, cp, sp⟩).getD 1 0) ^ 2 →
        rotZPt ct st (rotYPt cp sp
            (rotZPt (rotateLocalXAxis [x, y, z] ⟨ct, st, cp, sp⟩ lam).1
                    (rotateLocalXAxis [x, y, z] ⟨ct, st, cp, sp⟩ lam).2 [1, 0, 0]))
          = [x / lam, y / lam, z / lam] ∧
        lam ^ 2 = x ^ 2 + y ^ 2 + z ^ 2 ∧
        (rotateLocalXAxis [x, y, z] ⟨ct, st, cp, sp⟩ lam).1 ^ 2
          + (rotateLocalXAxis [x, y, z] ⟨ct, st, cp, sp⟩ lam).2 ^ 2 = 1) := by
  have hN : N ≠ 0 := ne_of_gt hNpos
  have hez := flip_ez nx ny nz ρ N ct st cp sp hρ hN hθ hcp hsp
  have hp1 : cp ^ 2 + sp ^ 2 = 1 := by
    have : (cp ^ 2 + sp ^ 2) * N ^ 2 = N ^ 2 := by
      linear_combination (cp * N + nz) * hcp + (sp * N + ρ) * hsp - hNN
    have hN2 : N ^ 2 ≠ 0 := pow_ne_zero 2 hN
    exact mul_right_cancel₀ hN2 (by rw [this, one_mul])
  -- components of n in terms of the angles
  simp only [rotYPt_cons, rotZPt_cons, List.cons.injEq, and_true] at hez
  obtain ⟨hx, hy, hz⟩ := hez
  have hnx : N * (sp * ct) = nx := by
    have : nx = N * (nx / N) := by field_simp
    rw [this, ← hx]; ring
  have hny : N * (sp * st) = ny := by
    have : ny = N * (ny / N) := by field_simp
    rw [this, ← hy]; ring
  have hnz : N * cp = nz := by rw [mul_comm]; exact hcp
  refine ⟨flip_ez nx ny nz ρ N ct st cp sp hρ hN hθ hcp hsp, ?_, ?_⟩
  · intro x y z
    refine ⟨_, _, _, by simp only [rotYPt_cons, rotZPt_cons], rot_norm x y z ct st cp sp hθ1 hp1, ?_⟩
    rw [← hnx, ← hny, ← hnz]
    linear_combination (N * sp * (x * cp + z * sp)) * hθ1 + (N * z) * hp1
  · intro x y z lam horth hlampos hl2
    have hlam : lam ≠ 0 := ne_of_gt hlampos
    have hl := localX_z x y z nx ny nz N ct st cp sp hnx hny hnz hN horth
    have hback := flip_localX x y z ct st cp sp hθ1 hp1
    have hlv : localXVec [x, y, z] ⟨ct, st, cp, sp⟩
        = [(x * ct - y * -st) * cp + z * -sp, x * -st + y * ct, 0] := by
      simp only [localXVec]; exact hl
    rw [hl] at hback
    simp only [rotYPt_cons, rotZPt_cons, List.cons.injEq, and_true] at hback
    obtain ⟨bx, by', bz⟩ := hback
    rw [hlv] at hl2
    simp only [List.getD_cons_zero, List.getD_cons_succ] at hl2
    set l0 := (x * ct - y * -st) * cp + z * -sp with hl0
    set l1 := x * -st + y * ct with hl1
    have hnorm : lam ^ 2 = x ^ 2 + y ^ 2 + z ^ 2 := by
      have := rot_norm l0 l1 0 ct st cp sp hθ1 hp1
      rw [bx, by', bz] at this
      rw [hl2]; linear_combination -this
    have hne : ¬ (l0 = 0 ∧ l1 = 0) := by
      rintro ⟨a, b⟩
      rw [a, b] at hl2
      exact hlam (pow_eq_zero_iff (two_ne_zero) |>.mp (by rw [hl2]; ring))
    have hrl : rotateLocalXAxis [x, y, z] ⟨ct, st, cp, sp⟩ lam = (l0 / lam, l1 / lam) := by
      simp only [rotateLocalXAxis, hlv]
      rw [if_neg hne]
    rw [hrl]
    refine ⟨?_, hnorm, ?_⟩
    · simp only [rotYPt_cons, rotZPt_cons, List.cons.injEq, and_true]
      refine ⟨?_, ?_, ?_⟩
      · rw [← bx]; field_simp; ring
      · rw [← by']; field_simp; ring
      · rw [← bz]; field_simp; ring
    · simp only
      field_simp
      linear_combination -hl2

/-- the hypotheses of `C13_placement` are satisfiable: `n = (3, 4, 12)`, `ρ = 5`, `N = 13`, and the
degenerate `n = (0, 0, −2)` with an arbitrary `θ` (here `θ = π`). -/
example : ∃ nx ny nz ρ N ct st cp sp : ℚ, ρ ^ 2 = nx ^ 2 + ny ^ 2 ∧ N ^ 2 = ρ ^ 2 + nz ^ 2 ∧ 0 < N ∧
    (ρ ≠ 0 → ct * ρ = nx ∧ st * ρ = ny) ∧ ct ^ 2 + st ^ 2 = 1 ∧ cp * N = nz ∧ sp * N = ρ :=
  ⟨3, 4, 12, 5, 13, 3 / 5, 4 / 5, 12 / 13, 5 / 13, by norm_num⟩

example : ∃ nx ny nz ρ N ct st cp sp : ℚ, ρ ^ 2 = nx ^ 2 + ny ^ 2 ∧ N ^ 2 = ρ ^ 2 + nz ^ 2 ∧ 0 < N ∧
    (ρ ≠ 0 → ct * ρ = nx ∧ st * ρ = ny) ∧ ct ^ 2 + st ^ 2 = 1 ∧ cp * N = nz ∧ sp * N = ρ :=
  ⟨0, 0, -2, 0, 2, -1, 0, -1, 0, by norm_num⟩

/-! ## the model functions in terms of the nets above -/

omit [IsStrictOrderedRing K] in
/-- **What the factories return** (bridges the statements above to the executable model).
1. `circle_segment` with admissible arguments (`|θ| ≤ 2π`, `θ ≠ 2π`, `r > 0`, at least one span) is
   the placed curve with the net `arcNet` and the knots `arcKnots` (both reversed for `θ < 0`);
2. `circle(type='p2C0')` with `r > 0` is the placed, `r`-scaled literal net `circleNetP2`;
3. placing a planar (2D) object with a normal that is not (close to) `e_z` and a non-zero 3-component
   centre maps every control point `p` to
   `translate_centre (R_z(θ) R_y(φ) (embed₃ (R_z(α) p)))` with `α` from `rotate_local_x_axis`:
   the rigid motion of `C13_placement`, applied to homogeneous points (translation times weight). -/
theorem C13_model_nets (k : Consts K) (center normal xaxis : List K) (a : NAux K) (lam : K) :
    (∀ (θ r : K) (arc : ArcAux K), |θ| ≤ 2 * k.pi → θ ≠ 2 * k.pi → 0 < r → arc.spans ≠ 0 →
      circleSegment k θ r center normal xaxis arc a lam =
        place (if θ < 0 then
                 curveOf { order := 3, knots := (arcKnots θ arc.spans).reverse.toArray, periodic := -1 }
                   (arcNet r arc.cd arc.sd arc.spans).reverse true 2
               else curveOf { order := 3, knots := (arcKnots θ arc.spans).toArray, periodic := -1 }
                   (arcNet r arc.cd arc.sd arc.spans) true 2) center normal xaxis a lam) ∧
    (∀ r : K, 0 < r →
      circle k r center normal "p2C0" xaxis a lam =
        place ((curveOf { order := 3, knots := (circleKnotsP2 k.pi).toArray, periodic := 0 }
                  (circleNetP2 k.w) true 2).scale [r]) center normal xaxis a lam) ∧
    (∀ o : Fac.Obj K, o.dim = 2 → allcloseEz normal = false → allcloseZero center = false →
      center.length = 3 →
      place o center normal xaxis a lam = .ok
        { o with dim := 3, cps := o.cps.map (fun p => translatePt o.rational 3 center
            (rotZPt a.ct a.st (rotYPt a.cp a.sp (setDimPt 2 3
              (rotZPt (rotateLocalXAxis xaxis a lam).1 (rotateLocalXAxis xaxis a lam).2 p))))) }) := by
  refine ⟨?_, ?_, ?_⟩
  · intro θ r arc hθ hθ2 hr hs
    unfold circleSegment
    simp [not_lt.mpr hθ, not_le.mpr hr, hθ2, hs]
  · intro r hr
    simp [circle, unitCircle, not_le.mpr hr, bind, Except.bind, pure, Except.pure]
  · intro o hdim hn hc hlen
    simp [place, flipAndMove, Fac.Obj.rotateZ, Fac.Obj.rotateY, Fac.Obj.translate, Fac.Obj.setDimension, Fac.Obj.mapPts, hdim, hn, hc,
      hlen, bind, Except.bind, pure, Except.pure]

/-- **Evaluated points of a placed circle / arc.**  `placePt` is what `place` does to one homogeneous
control point of a planar rational object (`C13_model_nets`, part 3).  Under the relations of
`C13_placement` and `cos²α + sin²α = 1`:
1. a homogeneous planar point `(X, Y, W)` is mapped to `(x, y, z, W)` with
   `|(x,y,z) − W·c|² = X² + Y²` and `((x,y,z) − W·c)·n = 0`;
2. placement is linear on homogeneous coordinates: a combination `Σ β_k·placed(p_k)` of placed
   control points (= an evaluated point of the placed curve, `β_k` the basis function values,
   arbitrary here) is the placed combination `placed(Σ β_k·p_k)`;
3. hence if the unplaced homogeneous point lies on the cone `X² + Y² = r²W²` (every evaluated point
   of `circle`, `circle_segment`: `C13_arc_on_circle`, `C13_arc_spline`, `C13_circle_p2C0_spline`,
   `C13_circle_p4C1`) and `W ≠ 0`, the Cartesian point `(x,y,z)/W` satisfies
   `‖· − c‖² = r²` and `(· − c)·n = 0` — for every parameter value;
4. the image of the start point `(r, 0, 1)` (parameter 0) is `c + r·xaxis/‖xaxis‖` when the
   requested x-axis is orthogonal to `n`;
5. the rotation part maps `e_y` to `(n/‖n‖) × (xaxis/‖xaxis‖)`: the planar point at angle `t`,
   `r(cos t, sin t)`, goes to `c + r(cos t·x̂ + sin t·(n̂×x̂))` — increasing angle is counter-clockwise
   about the requested normal. -/
theorem C13_placed_points (nx ny nz ρ N ct st cp sp ca sa c1 c2 c3 : K)
    (hρ : ρ ^ 2 = nx ^ 2 + ny ^ 2) (hNN : N ^ 2 = ρ ^ 2 + nz ^ 2) (hNpos : 0 < N)
    (hθ : ρ ≠ 0 → ct * ρ = nx ∧ st * ρ = ny) (hθ1 : ct ^ 2 + st ^ 2 = 1)
    (hcp : cp * N = nz) (hsp : sp * N = ρ) (ha : ca ^ 2 + sa ^ 2 = 1) :
    (∀ X Y W : K, ∃ x y z : K,
        placePt ca sa ct st cp sp [c1, c2, c3] [X, Y, W] = [x, y, z, W] ∧
        (x - c1 * W) ^ 2 + (y - c2 * W) ^ 2 + (z - c3 * W) ^ 2 = X ^ 2 + Y ^ 2 ∧
        (x - c1 * W) * nx + (y - c2 * W) * ny + (z - c3 * W) * nz = 0) ∧
    (∀ β0 β1 β2 X0 Y0 W0 X1 Y1 W1 X2 Y2 W2 : K,
        lin3 β0 β1 β2 (placePt ca sa ct st cp sp [c1, c2, c3] [X0, Y0, W0])
            (placePt ca sa ct st cp sp [c1, c2, c3] [X1, Y1, W1])
            (placePt ca sa ct st cp sp [c1, c2, c3] [X2, Y2, W2])
          = placePt ca sa ct st cp sp [c1, c2, c3]
              [β0 * X0 + β1 * X1 + β2 * X2, β0 * Y0 + β1 * Y1 + β2 * Y2, β0 * W0 + β1 * W1 + β2 * W2]) ∧
    (∀ r X Y W x y z : K, X ^ 2 + Y ^ 2 = r ^ 2 * W ^ 2 → W ≠ 0 →
        placePt ca sa ct st cp sp [c1, c2, c3] [X, Y, W] = [x, y, z, W] →
        (x / W - c1) ^ 2 + (y / W - c2) ^ 2 + (z / W - c3) ^ 2 = r ^ 2 ∧
        (x / W - c1) * nx + (y / W - c2) * ny + (z / W - c3) * nz = 0) ∧
    (∀ r x y z lam : K, x * nx + y * ny + z * nz = 0 → 0 < lam →
        lam ^ 2 = ((localXVec [x, y, z] ⟨ct, st, cp, sp⟩).getD 0 0) ^ 2
                + ((localXVec [x, y, z] ⟨ct, st, cp, sp⟩).getD 1 0) ^ 2 →
        placePt (rotateLocalXAxis [x, y, z] ⟨ct, st, cp, sp⟩ lam).1
                (rotateLocalXAxis [x, y, z] ⟨ct, st, cp, sp⟩ lam).2 ct st cp sp [c1, c2, c3] [r, 0, 1]
          = [c1 + r * (x / lam), c2 + r * (y / lam), c3 + r * (z / lam), 1]) ∧
    (∀ x y z lam : K, x * nx + y * ny + z * nz = 0 → 0 < lam →
        lam ^ 2 = ((localXVec [x, y, z] ⟨ct, st, cp, sp⟩).getD 0 0) ^ 2
                + ((localXVec [x, y, z] ⟨ct, st, cp, sp⟩).getD 1 0) ^ 2 →
        rotZPt ct st (rotYPt cp sp
            (rotZPt (rotateLocalXAxis [x, y, z] ⟨ct, st, cp, sp⟩ lam).1
                    (rotateLocalXAxis [x, y, z] ⟨ct, st, cp, sp⟩ lam).2 [0, 1, 0]))
          = [(ny / N) * (z / lam) - (nz / N) * (y / lam), (nz / N) * (x / lam) - (nx / N) * (z / lam),
             (nx / N) * (y / lam) - (ny / N) * (x / lam)]) := by
  have hN : N ≠ 0 := ne_of_gt hNpos
  obtain ⟨hez, hrot, hx⟩ := C13_placement nx ny nz ρ N ct st cp sp hρ hNN hNpos hθ hθ1 hcp hsp
  have hmain : ∀ X Y W : K, ∃ x y z : K,
      placePt ca sa ct st cp sp [c1, c2, c3] [X, Y, W] = [x, y, z, W] ∧
      (x - c1 * W) ^ 2 + (y - c2 * W) ^ 2 + (z - c3 * W) ^ 2 = X ^ 2 + Y ^ 2 ∧
      (x - c1 * W) * nx + (y - c2 * W) * ny + (z - c3 * W) * nz = 0 := by
    intro X Y W
    obtain ⟨x', y', z', he, hnorm, hplane⟩ := hrot (X * ca - Y * sa) (X * sa + Y * ca) 0
    refine ⟨x' + c1 * W, y' + c2 * W, z' + c3 * W, ?_, ?_, ?_⟩
    · simp only [placePt, rotZPt_cons, setDimPt]
      simp only [rotYPt_cons, rotZPt_cons, List.cons.injEq, and_true] at he
      obtain ⟨e1, e2, e3⟩ := he
      simp [translatePt, weightOf]
      refine ⟨by rw [← e1]; ring, by rw [← e2]; ring, by rw [← e3]; ring⟩
    · have : (x' + c1 * W - c1 * W) ^ 2 + (y' + c2 * W - c2 * W) ^ 2 + (z' + c3 * W - c3 * W) ^ 2
          = x' ^ 2 + y' ^ 2 + z' ^ 2 := by ring
      rw [this, hnorm]
      linear_combination (X ^ 2 + Y ^ 2) * ha
    · have : (x' + c1 * W - c1 * W) * nx + (y' + c2 * W - c2 * W) * ny + (z' + c3 * W - c3 * W) * nz
          = x' * nx + y' * ny + z' * nz := by ring
      rw [this, hplane]; ring
  refine ⟨hmain, ?_, ?_, ?_, ?_⟩
  · intro β0 β1 β2 X0 Y0 W0 X1 Y1 W1 X2 Y2 W2
    simp [placePt, setDimPt, translatePt, weightOf, lin3, List.zipWith3]
    refine ⟨by ring, by ring, by ring⟩
  · intro r X Y W x y z hcone hW hpl
    obtain ⟨x2, y2, z2, he, hn, hp⟩ := hmain X Y W
    rw [hpl] at he
    simp only [List.cons.injEq, and_true] at he
    obtain ⟨rfl, rfl, rfl⟩ := he
    refine ⟨?_, ?_⟩
    · have : (x / W - c1) ^ 2 + (y / W - c2) ^ 2 + (z / W - c3) ^ 2
          = ((x - c1 * W) ^ 2 + (y - c2 * W) ^ 2 + (z - c3 * W) ^ 2) / W ^ 2 := by
        field_simp
      rw [this, hn, hcone]; field_simp
    · have : (x / W - c1) * nx + (y / W - c2) * ny + (z / W - c3) * nz
          = ((x - c1 * W) * nx + (y - c2 * W) * ny + (z - c3 * W) * nz) / W := by
        field_simp
      rw [this, hp]; simp
  · intro r x y z lam horth hlam hl2
    obtain ⟨he, _, _⟩ := hx x y z lam horth hlam hl2
    generalize (rotateLocalXAxis [x, y, z] ⟨ct, st, cp, sp⟩ lam).1 = a' at he ⊢
    generalize (rotateLocalXAxis [x, y, z] ⟨ct, st, cp, sp⟩ lam).2 = b' at he ⊢
    simp only [rotYPt_cons, rotZPt_cons, List.cons.injEq, and_true] at he
    obtain ⟨e1, e2, e3⟩ := he
    simp [placePt, setDimPt, translatePt, weightOf]
    refine ⟨by rw [← e1]; ring, by rw [← e2]; ring, by rw [← e3]; ring⟩
  · intro x y z lam horth hlam hl2
    obtain ⟨he, hnorm, _⟩ := hx x y z lam horth hlam hl2
    have hp1 : cp ^ 2 + sp ^ 2 = 1 := by
      have : (cp ^ 2 + sp ^ 2) * N ^ 2 = N ^ 2 := by
        linear_combination (cp * N + nz) * hcp + (sp * N + ρ) * hsp - hNN
      exact mul_right_cancel₀ (pow_ne_zero 2 hN) (by rw [this, one_mul])
    generalize (rotateLocalXAxis [x, y, z] ⟨ct, st, cp, sp⟩ lam).1 = a' at he ⊢
    generalize (rotateLocalXAxis [x, y, z] ⟨ct, st, cp, sp⟩ lam).2 = b' at he ⊢
    simp only [rotYPt_cons, rotZPt_cons, List.cons.injEq, and_true] at he hez
    obtain ⟨e1, e2, e3⟩ := he
    obtain ⟨z1, z2, z3⟩ := hez
    simp only [rotYPt_cons, rotZPt_cons]
    rw [← e1, ← e2, ← e3, ← z1, ← z2, ← z3]
    congr 1
    · linear_combination (a' * st) * hp1
    · congr 1
      · linear_combination (-(a' * ct)) * hp1
      · congr 1
        linear_combination (-(b' * sp)) * hθ1

/-! ## revolve / extrude -/

/-- **Sections of `revolve`.**
1. (`surface_factory.revolve`) the `j`-th control row is the (axis-aligned, homogeneous) profile
   net with every point rotated by the angle `(x_j, y_j)` of the `j`-th arc control point and its
   `z`, `w` components multiplied by the arc weight `w_j`;
   (`volume_factory.revolve`) the `j`-th row is the profile rotated `j` times by `dt` and scaled
   by the `j`-th path weight — for the arc net of `circle_segment` (`θ > 0`) these coincide;
2. consequently, for *any* coefficients `β0 β1 β2` (the values of the three sweep basis functions
   of a span) the combination of three consecutive rows of a homogeneous profile point
   `(X, Y, Z, H)` is `(X·A − Y·B, X·B + Y·A, Z·W, H·W)` with `(A, B, W) = Σ β_a (x_a, y_a, w_a)` the
   homogeneous arc point; if `A² + B² = W²` (by `C13_arc_on_circle`) the Cartesian point is the
   Cartesian profile point rotated about the `z`-axis by the angle `(A/W, B/W)` of the arc point:
   every `v`-section is the rotated profile. -/
theorem C13_revolve_section (prof arc : List (Pt K)) :
    (∀ (j : ℕ) (x y w : K), arc[j]? = some [x, y, w] →
        (revolveRows prof arc)[j]? = some (prof.map (fun p => scaleZW w (rotZPt x y p)))) ∧
    (∀ (cd sd : K) (ws : List K) (j : ℕ), j < ws.length →
        (revolveRowsStep prof cd sd ws)[j]? = some (prof.map (fun p =>
          scaleZW (ws.getD j 1) (rotZPt (angleIter cd sd j).1 (angleIter cd sd j).2 p)))) ∧
    (∀ X Y Z H x0 y0 w0 x1 y1 w1 x2 y2 w2 β0 β1 β2 : K,
        lin3 β0 β1 β2 (scaleZW w0 (rotZPt x0 y0 [X, Y, Z, H])) (scaleZW w1 (rotZPt x1 y1 [X, Y, Z, H]))
            (scaleZW w2 (rotZPt x2 y2 [X, Y, Z, H]))
          = [X * (β0 * x0 + β1 * x1 + β2 * x2) - Y * (β0 * y0 + β1 * y1 + β2 * y2),
             X * (β0 * y0 + β1 * y1 + β2 * y2) + Y * (β0 * x0 + β1 * x1 + β2 * x2),
             Z * (β0 * w0 + β1 * w1 + β2 * w2), H * (β0 * w0 + β1 * w1 + β2 * w2)]) ∧
    (∀ X Y Z H A B W : K, A ^ 2 + B ^ 2 = W ^ 2 → W ≠ 0 → H ≠ 0 →
        (A / W) ^ 2 + (B / W) ^ 2 = 1 ∧
        (X * A - Y * B) / (H * W) = (X / H) * (A / W) - (Y / H) * (B / W) ∧
        (X * B + Y * A) / (H * W) = (X / H) * (B / W) + (Y / H) * (A / W) ∧
        (Z * W) / (H * W) = Z / H) := by
  refine ⟨fun j x y w h => revolveRows_getElem? prof arc j x y w h,
    fun cd sd ws j hj => revolveRowsStep_getElem? prof cd sd ws j hj, ?_, ?_⟩
  · intro X Y Z H x0 y0 w0 x1 y1 w1 x2 y2 w2 β0 β1 β2
    simp only [rotZPt_cons, scaleZW_cons, lin3, List.zipWith3]
    congr 1
    · ring
    · congr 1
      · ring
      · congr 1
        · ring
        · congr 1
          ring
  · intro X Y Z H A B W h hW hH
    refine ⟨?_, ?_, ?_, ?_⟩
    · field_simp; linear_combination h
    · field_simp
    · field_simp
    · field_simp

omit [LinearOrder K] [IsStrictOrderedRing K] in
/-- **Sections of `extrude`** (surface and volume versions share the rule).  The two control rows
are the (3D) net and its translate; on a rational point `(X, Y, Z, H)` the translate is
`(X + a·H, Y + b·H, Z + c·H, H)`, on a polynomial one `(X + a, Y + b, Z + c)`; hence the
section at `v` — the combination `(1−v)·row0 + v·row1` of the linear sweep basis — is the profile
point moved by `v·(a, b, c)` (weight unchanged). -/
theorem C13_extrude_section (o : Fac.Obj K) (a b c : K) :
    (extrude o [a, b, c] = .ok
        { bases := o.bases ++ [defaultBasis 2], shape := o.shape ++ [2],
          cps := stackLast [(o.setDimension 3).cps,
                            (o.setDimension 3).cps.map (translatePt o.rational 3 [a, b, c])],
          rational := o.rational, dim := 3 }) ∧
    (∀ X Y Z H v : K,
        translatePt true 3 [a, b, c] [X, Y, Z, H] = [X + a * H, Y + b * H, Z + c * H, H] ∧
        lerpPt v [X, Y, Z, H] (translatePt true 3 [a, b, c] [X, Y, Z, H])
          = [X + v * a * H, Y + v * b * H, Z + v * c * H, H]) ∧
    (∀ X Y Z v : K,
        translatePt false 3 [a, b, c] [X, Y, Z] = [X + a * 1, Y + b * 1, Z + c * 1] ∧
        lerpPt v [X, Y, Z] (translatePt false 3 [a, b, c] [X, Y, Z])
          = [X + v * a, Y + v * b, Z + v * c]) := by
  refine ⟨?_, ?_, ?_⟩
  · simp [extrude, Fac.Obj.translate, Fac.Obj.setDimension, Fac.Obj.mapPts, bind, Except.bind, pure, Except.pure]
  · intro X Y Z H v
    refine ⟨by simp [translatePt, weightOf], ?_⟩
    simp only [translatePt, weightOf, lerpPt]
    simp
    refine ⟨by ring, by ring, by ring, by ring⟩
  · intro X Y Z v
    refine ⟨by simp [translatePt, weightOf], ?_⟩
    simp only [translatePt, weightOf, lerpPt]
    simp
    refine ⟨by ring, by ring, by ring⟩

/-! ## linear primitives -/

/-- **Linear primitives.**  `line`, `polygon`, `square`, `cube` have order-2 (linear) bases and
their control nets are exactly their vertices; `n_gon` vertices `(r·c_i, r·s_i)` lie on the circle
of radius `r` when `c_i² + s_i² = 1`. -/
theorem C13_linear :
    (∀ a b : List K, line a b false = curveOf (defaultBasis 2) [a, b] false a.length ∧
        line a b true = curveOf (defaultBasis 2) [a, List.zipWith (· + ·) a b] false a.length) ∧
    (∀ (pts : List (Pt K)) (t : List K), (polygonT pts t false).cps = pts ∧
        (polygonT pts t false).bases.map (·.order) = [2] ∧
        (polygonT pts t false).bases.map (·.knots.toList) = [[t.headD 0] ++ t ++ [t.getLastD 0]]) ∧
    (∀ sx sy lx ly : K, square [sx, sy] [lx, ly] = .ok
        { bases := [defaultBasis 2, defaultBasis 2], shape := [2, 2],
          cps := [[0 * sx + lx * 1, 0 * sy + ly * 1], [0 * sx + lx * 1, 1 * sy + ly * 1],
                  [1 * sx + lx * 1, 0 * sy + ly * 1], [1 * sx + lx * 1, 1 * sy + ly * 1]],
          rational := false, dim := 2 }) ∧
    (∀ sx sy sz lx ly lz : K, cube [sx, sy, sz] [lx, ly, lz] = .ok
        { bases := [defaultBasis 2, defaultBasis 2, defaultBasis 2], shape := [2, 2, 2],
          cps := [[0 * sx + lx * 1, 0 * sy + ly * 1, 0 * sz + lz * 1], [0 * sx + lx * 1, 0 * sy + ly * 1, 1 * sz + lz * 1],
                  [0 * sx + lx * 1, 1 * sy + ly * 1, 0 * sz + lz * 1], [0 * sx + lx * 1, 1 * sy + ly * 1, 1 * sz + lz * 1],
                  [1 * sx + lx * 1, 0 * sy + ly * 1, 0 * sz + lz * 1], [1 * sx + lx * 1, 0 * sy + ly * 1, 1 * sz + lz * 1],
                  [1 * sx + lx * 1, 1 * sy + ly * 1, 0 * sz + lz * 1], [1 * sx + lx * 1, 1 * sy + ly * 1, 1 * sz + lz * 1]],
          rational := false, dim := 3 }) ∧
    (∀ r c s : K, c ^ 2 + s ^ 2 = 1 → (r * c) ^ 2 + (r * s) ^ 2 = r ^ 2) := by
  refine ⟨fun a b => ⟨rfl, rfl⟩, fun pts t => ⟨rfl, rfl, ?_⟩, ?_, ?_, ?_⟩
  · simp [polygonT, curveOf]
  · intro sx sy lx ly
    simp [square, unitSquare, Fac.Obj.scale, Fac.Obj.translate, Fac.Obj.mapPts, Fac.Obj.padScale, scalePt,
      translatePt, weightOf, pure, Except.pure]
  · intro sx sy sz lx ly lz
    simp [cube, unitCube, Fac.Obj.scale, Fac.Obj.translate, Fac.Obj.mapPts, Fac.Obj.padScale, scalePt,
      translatePt, weightOf, pure, Except.pure]
  · intro r c s h
    linear_combination r ^ 2 * h

/-- **Sphere, torus (surface and solid) by composition.**  A revolved homogeneous point is
`(X·A, X·B, Z·W, H·W)` for a profile point `(X, 0, Z, H)` in the `xz`-plane and an arc point
`(A, B, W)` with `A² + B² = W²` (`C13_revolve_section`, `C13_arc_on_circle`).
1. If the profile is on the circle of radius `r` about the origin (`X² + Z² = r²H²`, the half
   circle `sphere` revolves) the result is on the sphere: `x² + y² + z² = r²·w²`.
2. If the profile is on the circle of radius `r` about `(R, 0, 0)` (`torus`), then with
   `ρ = X·W` (`ρ² = x² + y²`, the distance to the axis times the weight)
   `(ρ − R·w)² + z² = r²·w²`: the torus equation.  The same with `≤` for interior profile
   points (solid versions; `radial`/`square` discs lie within their circle). -/
theorem C13_revolved_shapes (X Z H A B W r R : K) (harc : A ^ 2 + B ^ 2 = W ^ 2) :
    (X ^ 2 + Z ^ 2 = r ^ 2 * H ^ 2 →
        (X * A) ^ 2 + (X * B) ^ 2 + (Z * W) ^ 2 = r ^ 2 * (H * W) ^ 2) ∧
    ((X - R * H) ^ 2 + Z ^ 2 = r ^ 2 * H ^ 2 →
        (X * W) ^ 2 = (X * A) ^ 2 + (X * B) ^ 2 ∧
        (X * W - R * (H * W)) ^ 2 + (Z * W) ^ 2 = r ^ 2 * (H * W) ^ 2) ∧
    ((X - R * H) ^ 2 + Z ^ 2 ≤ r ^ 2 * H ^ 2 →
        (X * W - R * (H * W)) ^ 2 + (Z * W) ^ 2 ≤ r ^ 2 * (H * W) ^ 2) := by
  refine ⟨fun h => ?_, fun h => ⟨?_, ?_⟩, fun h => ?_⟩
  · linear_combination X ^ 2 * harc + W ^ 2 * h
  · linear_combination (-X ^ 2) * harc
  · linear_combination W ^ 2 * h
  · have : (X * W - R * (H * W)) ^ 2 + (Z * W) ^ 2 = W ^ 2 * ((X - R * H) ^ 2 + Z ^ 2) := by ring
    rw [this]
    have : r ^ 2 * (H * W) ^ 2 = W ^ 2 * (r ^ 2 * H ^ 2) := by ring
    rw [this]
    exact mul_le_mul_of_nonneg_left h (sq_nonneg W)

/-! ## three-point arc -/

/-- **Three-point arc: geometry.**  (The branch decision of the code is tied to the sign hypothesis
of part 2 in `C13_three_points_branch` / `C13_three_points_end`.)
`circle_segment_from_three_points` is
`circle_segment(θ, r, centre, w2, x0 − centre)` with the travel normal `w2 = (x0−x2)×(x1−x2)` (part 4).
1. The centre returned by the linear solve of the model (`threePointCenter`, the system the code
   hands to `np.linalg.solve`) is equidistant from the three points and lies in their plane: it is
   the circumcentre, so that the arc starts at `x0` (by `C13_placement`, x-axis `x0 − centre`,
   radius `‖x0 − centre‖`) and lies on the circumcircle (by `C13_arc_on_circle`).
2. End point: let `a = x0 − centre`, `b = x2 − centre` be orthogonal to the normal `n` with
   `|a|² = |b|² = ρ²`, `L = ‖n‖`.  If the angle `(c, s)` has `c = a·b/ρ²` (the `arccos` argument),
   `s² = 1 − c²`, and the sign of `s` is chosen as the code's test does — `s ≥ 0` exactly when
   `(a×b)·n ≥ 0` (`θ` kept) and `s < 0` otherwise (`2π − θ`) — then rotating `a` by that angle
   about `n/‖n‖` gives `b`: the arc ends at `x2`.
3. Through `x1`: if `x1 − centre` and `x2 − centre` are `a` rotated about `n/‖n‖` by the angles
   `(c1, s1)` and `(c, s)` and `n` *is* the travel normal `(a − b)×(v1 − b)`, then
   `(s1(1−c) + s(c1−1))·ρ² = L > 0`, and therefore the angle of `x1` lies strictly between `0` and
   `θ` in the direction of travel: for `θ ≤ π` (`s ≥ 0`) `0 < s1` and `c < c1`; for `θ > π`
   (`s < 0`) `0 ≤ s1` or `c1 < c`.
That every direction strictly between `0` and `θ` is attained by a parameter value of the arc —
so that the curve passes through `x1` — is `C13_three_points_through_x1` (explicit parameter
`arc_span_attains`, generic field; the covering of `[0, θ]` by the spans over `ℝ`).
*Unfixed shape:* before the repair the arc was placed about `v0 × v1`; by part 2 applied to `x1`,
`(v0×v1)·n = s1·ρ²·L`, so that normal is anti-parallel to the travel normal exactly when `s1 < 0`
(the arc from `x0` to `x1` exceeds a half turn) and the arc then ended at `x2` mirrored in `v0`. -/
theorem C13_three_points_geometry :
    (∀ a1 a2 a3 b1 b2 b3 c1 c2 c3 x y z : K,
        threePointCenter [a1, a2, a3] [b1, b2, b3] [c1, c2, c3] = .ok [x, y, z] →
        (a1 - x) ^ 2 + (a2 - y) ^ 2 + (a3 - z) ^ 2 = (b1 - x) ^ 2 + (b2 - y) ^ 2 + (b3 - z) ^ 2 ∧
        (a1 - x) ^ 2 + (a2 - y) ^ 2 + (a3 - z) ^ 2 = (c1 - x) ^ 2 + (c2 - y) ^ 2 + (c3 - z) ^ 2 ∧
        dot3 (cross3 (sub3 [b1, b2, b3] [a1, a2, a3]) (sub3 [c1, c2, c3] [a1, a2, a3]))
             (sub3 [x, y, z] [a1, a2, a3]) = 0) ∧
    (∀ a1 a2 a3 b1 b2 b3 n1 n2 n3 ρ2 L c s : K,
        a1 * n1 + a2 * n2 + a3 * n3 = 0 → b1 * n1 + b2 * n2 + b3 * n3 = 0 →
        ρ2 = a1 ^ 2 + a2 ^ 2 + a3 ^ 2 → ρ2 = b1 ^ 2 + b2 ^ 2 + b3 ^ 2 → 0 < ρ2 →
        L ^ 2 = n1 ^ 2 + n2 ^ 2 + n3 ^ 2 → 0 < L →
        c * ρ2 = a1 * b1 + a2 * b2 + a3 * b3 → s ^ 2 = 1 - c ^ 2 →
        (0 ≤ s ↔ 0 ≤ (a2 * b3 - a3 * b2) * n1 + (a3 * b1 - a1 * b3) * n2 + (a1 * b2 - a2 * b1) * n3) →
        c * a1 + s * ((n2 * a3 - n3 * a2) / L) = b1 ∧
        c * a2 + s * ((n3 * a1 - n1 * a3) / L) = b2 ∧
        c * a3 + s * ((n1 * a2 - n2 * a1) / L) = b3) ∧
    (∀ a1 a2 a3 n1 n2 n3 ρ2 L c s c1 s1 : K,
        a1 * n1 + a2 * n2 + a3 * n3 = 0 → ρ2 = a1 ^ 2 + a2 ^ 2 + a3 ^ 2 → 0 < ρ2 →
        L ^ 2 = n1 ^ 2 + n2 ^ 2 + n3 ^ 2 → 0 < L → c ^ 2 + s ^ 2 = 1 → c1 ^ 2 + s1 ^ 2 = 1 →
        -- b = c·a + s·(n×a)/L,  v1 = c1·a + s1·(n×a)/L,  n = (a − b) × (v1 − b)
        n1 = ((a2 - (c * a2 + s * ((n3 * a1 - n1 * a3) / L))) * ((c1 * a3 + s1 * ((n1 * a2 - n2 * a1) / L)) - (c * a3 + s * ((n1 * a2 - n2 * a1) / L)))
               - (a3 - (c * a3 + s * ((n1 * a2 - n2 * a1) / L))) * ((c1 * a2 + s1 * ((n3 * a1 - n1 * a3) / L)) - (c * a2 + s * ((n3 * a1 - n1 * a3) / L)))) →
        n2 = ((a3 - (c * a3 + s * ((n1 * a2 - n2 * a1) / L))) * ((c1 * a1 + s1 * ((n2 * a3 - n3 * a2) / L)) - (c * a1 + s * ((n2 * a3 - n3 * a2) / L)))
               - (a1 - (c * a1 + s * ((n2 * a3 - n3 * a2) / L))) * ((c1 * a3 + s1 * ((n1 * a2 - n2 * a1) / L)) - (c * a3 + s * ((n1 * a2 - n2 * a1) / L)))) →
        n3 = ((a1 - (c * a1 + s * ((n2 * a3 - n3 * a2) / L))) * ((c1 * a2 + s1 * ((n3 * a1 - n1 * a3) / L)) - (c * a2 + s * ((n3 * a1 - n1 * a3) / L)))
               - (a2 - (c * a2 + s * ((n3 * a1 - n1 * a3) / L))) * ((c1 * a1 + s1 * ((n2 * a3 - n3 * a2) / L)) - (c * a1 + s * ((n2 * a3 - n3 * a2) / L)))) →
        (s1 * (1 - c) + s * (c1 - 1)) * ρ2 = L ∧
        (0 ≤ s → 0 < s1 ∧ c < c1) ∧ (s < 0 → 0 ≤ s1 ∨ c1 < c)) ∧
    (∀ (k : Consts K) (tol : K) (x0 x1 x2 : List K) (radius thS : K) (arcS : ArcAux K) (thL : K)
        (arcL : ArcAux K) (aW : NAux K) (lamW : K) (d : ThreePt K),
        threePointDataWith true tol x0 x1 x2 = .ok d →
        threePointsWith true k tol x0 x1 x2 radius thS arcS thL arcL aW lamW =
          (circleSegment k (if d.keep then thS else thL) radius d.center d.w2 d.v0
              (if d.keep then arcS else arcL) aW lamW).map
            (fun res => res.setDimension (max x0.length (max x1.length x2.length)))) := by
  refine ⟨?_, ?_, ?_, ?_⟩
  rotate_left 2
  · intro a1 a2 a3 n1 n2 n3 ρ2 L c s c1 s1 h0 hρ hρpos hL hLpos hcs hcs1 hn1 hn2 hn3
    have hk := orient_of_travel_normal a1 a2 a3 n1 n2 n3 ρ2 L c s c1 s1 h0 hρ hL hLpos hn1 hn2 hn3
    refine ⟨hk, ?_⟩
    have hpos : 0 < s1 * (1 - c) + s * (c1 - 1) := by
      by_contra hneg
      have hle : s1 * (1 - c) + s * (c1 - 1) ≤ 0 := not_lt.mp hneg
      have : (s1 * (1 - c) + s * (c1 - 1)) * ρ2 ≤ 0 := mul_nonpos_of_nonpos_of_nonneg hle (le_of_lt hρpos)
      rw [hk] at this
      exact absurd hLpos (not_lt.mpr this)
    exact between_of_orient c s c1 s1 hcs hcs1 hpos
  · intro k tol x0 x1 x2 radius thS arcS thL arcL aW lamW d hd
    simp only [threePointsWith, hd, bind, Except.bind, pure, Except.pure]
    by_cases hk : d.keep <;> simp [hk, Except.map]
  · intro a1 a2 a3 b1 b2 b3 c1 c2 c3 x y z h
    simp only [threePointCenter, sub3, cross3, List.zipWith, List.map, dot3, List.sum_cons, List.sum_nil] at h
    obtain ⟨e1, e2, e3⟩ := solve3_spec _ _ _ _ _ _ _ _ _ _ _ _ x y z h
    simp only [sub3, cross3, List.zipWith, dot3, List.sum_cons, List.sum_nil]
    refine ⟨?_, ?_, ?_⟩
    · linear_combination e1
    · linear_combination e2
    · linear_combination e3
  · intro a1 a2 a3 b1 b2 b3 n1 n2 n3 ρ2 L c s h0 h2 ha hb hρ hL hLpos hc hs hsign
    set trip := (a2 * b3 - a3 * b2) * n1 + (a3 * b1 - a1 * b3) * n2 + (a1 * b2 - a2 * b1) * n3 with htrip
    have hL0 : L ≠ 0 := ne_of_gt hLpos
    have hρ0 : ρ2 ≠ 0 := ne_of_gt hρ
    -- s·ρ²·L = trip: squares agree (Lagrange) and the signs agree
    have hsq : (s * ρ2 * L) ^ 2 = trip ^ 2 := by
      have lag := triple_sq a1 a2 a3 b1 b2 b3 n1 n2 n3 h0 h2
      rw [← htrip] at lag
      rw [lag, ← hL]
      have cross_sq : (a2 * b3 - a3 * b2) ^ 2 + (a3 * b1 - a1 * b3) ^ 2 + (a1 * b2 - a2 * b1) ^ 2
          = ρ2 * ρ2 - (c * ρ2) ^ 2 := by
        rw [hc]; nth_rewrite 1 [ha]; rw [hb]; ring
      rw [cross_sq]
      linear_combination (ρ2 ^ 2 * L ^ 2) * hs
    have hst : s * ρ2 * L = trip := by
      have hpos : 0 < ρ2 * L := mul_pos hρ hLpos
      rcases sq_eq_sq_iff_eq_or_eq_neg.mp hsq with h | h
      · exact h
      · -- opposite signs contradict `hsign` unless both vanish
        rcases le_or_gt 0 s with hs0 | hs0
        · have ht0 : 0 ≤ trip := hsign.mp hs0
          have : 0 ≤ s * ρ2 * L := by positivity
          have : trip = 0 := by linarith
          rw [this] at h ⊢; linarith
        · have ht0 : ¬ 0 ≤ trip := fun ht => absurd (hsign.mpr ht) (not_le.mpr hs0)
          have hneg : s * ρ2 * L < 0 := by
            have : s * (ρ2 * L) < 0 := mul_neg_of_neg_of_pos hs0 hpos
            linarith [this, mul_assoc s ρ2 L]
          exact absurd (by linarith : 0 ≤ trip) ht0
    obtain ⟨k1, k2, k3⟩ := plane_decomp a1 a2 a3 b1 b2 b3 n1 n2 n3 h0 h2
    rw [← htrip] at k1 k2 k3
    have hfin : ∀ ai bi ni : K,
        (n1 ^ 2 + n2 ^ 2 + n3 ^ 2) * (a1 * b1 + a2 * b2 + a3 * b3) * ai + trip * ni
          = (n1 ^ 2 + n2 ^ 2 + n3 ^ 2) * (a1 ^ 2 + a2 ^ 2 + a3 ^ 2) * bi →
        c * ai + s * (ni / L) = bi := by
      intro ai bi ni hk
      rw [← hL, ← hc, ← ha, ← hst] at hk
      have : ρ2 * L ^ 2 * (c * ai + s * (ni / L)) = ρ2 * L ^ 2 * bi := by
        have e : ρ2 * L ^ 2 * (c * ai + s * (ni / L)) = L ^ 2 * (c * ρ2) * ai + s * ρ2 * L * ni := by
          field_simp
        rw [e, hk]; ring
      exact mul_left_cancel₀ (mul_ne_zero hρ0 (pow_ne_zero 2 hL0)) this
    exact ⟨hfin _ _ _ k1, hfin _ _ _ k2, hfin _ _ _ k3⟩

/-- the hypotheses of the end-point part are satisfiable (quarter turn in the `xy`-plane). -/
example : ∃ a1 a2 a3 b1 b2 b3 n1 n2 n3 ρ2 L c s : ℚ,
    a1 * n1 + a2 * n2 + a3 * n3 = 0 ∧ b1 * n1 + b2 * n2 + b3 * n3 = 0 ∧
    ρ2 = a1 ^ 2 + a2 ^ 2 + a3 ^ 2 ∧ ρ2 = b1 ^ 2 + b2 ^ 2 + b3 ^ 2 ∧ 0 < ρ2 ∧
    L ^ 2 = n1 ^ 2 + n2 ^ 2 + n3 ^ 2 ∧ 0 < L ∧
    c * ρ2 = a1 * b1 + a2 * b2 + a3 * b3 ∧ s ^ 2 = 1 - c ^ 2 ∧
    (0 ≤ s ↔ 0 ≤ (a2 * b3 - a3 * b2) * n1 + (a3 * b1 - a1 * b3) * n2 + (a1 * b2 - a2 * b1) * n3) :=
  ⟨1, 0, 0, 0, 1, 0, 0, 0, 2, 1, 2, 0, 1, by norm_num⟩

/-- **The three-point arc passes through `x1`.**  Let `θ ∈ (0, 2π)` be the angle of the arc, built
from `n ≥ 1` spans of half-angle `dt = θ/(2n) < π` with `(cd, sd) = (cos dt, sin dt)` (the values the
factory computes), and let `(c1, s1)` be a unit vector lying strictly between the angles `0` and
`θ` in the sense of `C13_three_points_geometry`, part 3 (the direction of `x1 − centre` in the frame
`x̂ = (x0 − centre)/r`, `ŷ = n̂ × x̂`).  Then there are a span `j < n` and a local parameter
`u ∈ [0, 1]` at which the homogeneous span point of the (unplaced) arc is `r·(c1, s1)·W(u)`:
the Cartesian point is `r·(c1, s1)`.  By `C13_placed_points` (linearity, parts 2, 4, 5) the placed
arc then passes through `centre + r(c1·x̂ + s1·ŷ) = x1`.
Over an arbitrary ordered field the parameter is explicit (`arc_span_attains`:
`u = 1/2 + tan(β/2)/(2·tan(dt/2))`, `β` the angle of the target relative to the span's mid
direction); the real numbers enter only through the covering of `[0, θ]` by the spans. -/
theorem C13_three_points_through_x1 (r θ c1 s1 : ℝ) (n : ℕ) (hn : 0 < n) (hθ0 : 0 < θ)
    (hθ2 : θ < 2 * Real.pi) (hdt : θ / (2 * n) < Real.pi) (h1 : c1 ^ 2 + s1 ^ 2 = 1)
    (hb1 : 0 ≤ Real.sin θ → 0 < s1 ∧ Real.cos θ < c1)
    (hb2 : Real.sin θ < 0 → 0 ≤ s1 ∨ c1 < Real.cos θ) :
    ∃ j, j < n ∧ ∃ u : ℝ, 0 ≤ u ∧ u ≤ 1 ∧
      bern2 (arcX r (Real.cos (θ / (2 * n))) (Real.sin (θ / (2 * n))) (2 * j))
            (arcX r (Real.cos (θ / (2 * n))) (Real.sin (θ / (2 * n))) (2 * j + 1))
            (arcX r (Real.cos (θ / (2 * n))) (Real.sin (θ / (2 * n))) (2 * j + 2)) u
        = r * c1 * bern2 (arcW (Real.cos (θ / (2 * n))) (2 * j)) (arcW (Real.cos (θ / (2 * n))) (2 * j + 1))
            (arcW (Real.cos (θ / (2 * n))) (2 * j + 2)) u ∧
      bern2 (arcY r (Real.cos (θ / (2 * n))) (Real.sin (θ / (2 * n))) (2 * j))
            (arcY r (Real.cos (θ / (2 * n))) (Real.sin (θ / (2 * n))) (2 * j + 1))
            (arcY r (Real.cos (θ / (2 * n))) (Real.sin (θ / (2 * n))) (2 * j + 2)) u
        = r * s1 * bern2 (arcW (Real.cos (θ / (2 * n))) (2 * j)) (arcW (Real.cos (θ / (2 * n))) (2 * j + 1))
            (arcW (Real.cos (θ / (2 * n))) (2 * j + 2)) u := by
  obtain ⟨φ, hφ0, hφ1, hc, hs⟩ := exists_angle_between θ c1 s1 hθ0 hθ2 h1 hb1 hb2
  rw [← hc, ← hs]
  exact arc_attains_real r θ φ n hn hθ0 hdt hφ0 hφ1

/-! ## evaluated points, for every parameter -/

/-- **`circle_segment`: every evaluated point is on the circle.**  For `θ > 0`, `n ≥ 1` spans,
`cos dt > 0`: for *every* parameter `t` of the domain (`[0,θ)` with the right-continuous, `(0,θ]`
with the left-continuous B-splines) the homogeneous curve `(X, Y, W)(t) = Σ_i cp[i]·B_{i,2}(t)` of the
factory's basis and net has `W(t) > 0`, lies on the cone `X² + Y² = r²W²`, and the evaluated
(NURBS quotient) point satisfies `(X/W)² + (Y/W)² = r²`. -/
theorem C13_eval_arc (r cd sd theta : K) (n : ℕ) (hn : 0 < n) (hθ : 0 < theta)
    (hd : cd ^ 2 + sd ^ 2 = 1) (hcd : 0 < cd) (s : Side) (t : K) (ht : s.mem 0 theta t) :
    let τ := ({ order := 3, knots := (arcKnots theta n).toArray, periodic := -1 } : Basis K).kn
    let X := splineVal s τ 2 (2 * n + 1) (netComp (arcNet r cd sd n) 0) t
    let Y := splineVal s τ 2 (2 * n + 1) (netComp (arcNet r cd sd n) 1) t
    let W := splineVal s τ 2 (2 * n + 1) (netComp (arcNet r cd sd n) 2) t
    0 < W ∧ X ^ 2 + Y ^ 2 = r ^ 2 * W ^ 2 ∧ (X / W) ^ 2 + (Y / W) ^ 2 = r ^ 2 := by
  intro τ X Y W
  obtain ⟨j, hj, hmem⟩ := arc_span_of_mem s theta n hn hθ t ht
  obtain ⟨_, _, _, hcone⟩ := C13_arc_spline r cd sd theta n hn hθ hd s j hj t hmem
  have hτ := arcKnotFn_mono theta n hn hθ
  have hW : 0 < W := by
    have hk : W = splineVal s (arcKnotFn theta n) 2 (2 * n + 1) (netComp (arcNet r cd sd n) 2) t :=
      splineVal_congr_knots s _ _ 2 (2 * n + 1) _ t (fun k hk => kn_arc theta n k (by omega))
    rw [hk]
    have a1 : arcKnotFn theta n (2 * j + 2) = (j : K) / n * theta := by
      have : min n ((2 * j + 2 - 1) / 2) = j := by omega
      unfold arcKnotFn; rw [this]
    have a2 : arcKnotFn theta n (2 * j + 2 + 1) = ((j + 1 : ℕ) : K) / n * theta := by
      have : min n ((2 * j + 2 + 1 - 1) / 2) = j + 1 := by omega
      unfold arcKnotFn; rw [this]
    apply splineVal_pos s (arcKnotFn theta n) hτ 2 (2 * j + 2) (2 * n + 1) _ t (by omega) (by omega)
      (by rw [a1, a2]; exact hmem)
    intro i hi
    rw [(netComp_arc r cd sd n i hi).2.2]
    unfold arcW; split <;> [exact hcd; exact one_pos]
  refine ⟨hW, hcone, ?_⟩
  have hW0 : W ≠ 0 := ne_of_gt hW
  field_simp
  linear_combination hcone


/-- the hypotheses of `C13_eval_arc` are satisfiable. -/
example : ∃ (cd sd theta : ℚ) (n : ℕ) (t : ℚ), 0 < n ∧ 0 < theta ∧ cd ^ 2 + sd ^ 2 = 1 ∧ 0 < cd ∧
    Side.right.mem 0 theta t := ⟨4 / 5, 3 / 5, 1, 1, 1 / 2, by norm_num, by norm_num, by norm_num, by norm_num,
      by constructor <;> norm_num⟩

/-- **`circle_segment` with `θ < 0`: every evaluated point is on the circle.**  The code reverses the
control net and flips the knot vector (domain `[θ, 0]`).  For every parameter `t` of the domain the
homogeneous point of the factory's basis and (reversed) net has `W > 0`, `X² + Y² = r²W²`; at the
knots `t_k = k·θ/n` (`k = 0 … n`) the point is `r(cos, sin)(2k·dt)` — the angle `t_k ≤ 0`, clockwise
from the x-axis — in particular parameter `0` (the end of the domain) is on the positive x-axis. -/
theorem C13_eval_arc_neg (r cd sd theta : K) (n : ℕ) (hn : 0 < n) (hθ : theta < 0)
    (hd : cd ^ 2 + sd ^ 2 = 1) (hcd : 0 < cd) (s : Side) (t : K) (ht : s.mem theta 0 t) :
    let τ := ({ order := 3, knots := (arcKnots theta n).reverse.toArray, periodic := -1 } : Basis K).kn
    let X := splineVal s τ 2 (2 * n + 1) (netComp (arcNet r cd sd n).reverse 0) t
    let Y := splineVal s τ 2 (2 * n + 1) (netComp (arcNet r cd sd n).reverse 1) t
    let W := splineVal s τ 2 (2 * n + 1) (netComp (arcNet r cd sd n).reverse 2) t
    0 < W ∧ X ^ 2 + Y ^ 2 = r ^ 2 * W ^ 2 ∧ (X / W) ^ 2 + (Y / W) ^ 2 = r ^ 2 ∧
    -- the span `j` containing `t`: Bernstein form over the original control points, read backwards
    ∃ j, j < n ∧ s.mem (((n - j : ℕ) : K) / n * theta) (((n - j - 1 : ℕ) : K) / n * theta) t ∧
      X = bern2 (arcX r cd sd (2 * (n - 1 - j))) (arcX r cd sd (2 * (n - 1 - j) + 1)) (arcX r cd sd (2 * (n - 1 - j) + 2))
            (1 - (t - ((n - j : ℕ) : K) / n * theta) / (((n - j - 1 : ℕ) : K) / n * theta - ((n - j : ℕ) : K) / n * theta)) ∧
      Y = bern2 (arcY r cd sd (2 * (n - 1 - j))) (arcY r cd sd (2 * (n - 1 - j) + 1)) (arcY r cd sd (2 * (n - 1 - j) + 2))
            (1 - (t - ((n - j : ℕ) : K) / n * theta) / (((n - j - 1 : ℕ) : K) / n * theta - ((n - j : ℕ) : K) / n * theta)) := by
  intro τ X Y W
  have hτ := arcKnotRev_mono theta n hn hθ
  have hn' : (0 : K) < n := by exact_mod_cast hn
  have hk : ∀ c, splineVal s τ 2 (2 * n + 1) c t = splineVal s (arcKnotRev theta n) 2 (2 * n + 1) c t := fun c =>
    splineVal_congr_knots s _ _ 2 (2 * n + 1) c t (fun k hk => kn_arc_rev theta n k (by omega))
  have e0 : arcKnotRev theta n 2 = theta := by
    have : min n ((2 * n + 3 - 2 - 1) / 2) = n := by omega
    have hne : (n : K) ≠ 0 := ne_of_gt hn'
    unfold arcKnotRev arcKnotFn; rw [this]; field_simp
  have e1 : arcKnotRev theta n (2 * n + 2) = 0 := by
    have : min n ((2 * n + 3 - (2 * n + 2) - 1) / 2) = 0 := by omega
    unfold arcKnotRev arcKnotFn; rw [this]; simp
  obtain ⟨μ, h1, h2, h3⟩ := exists_span s (arcKnotRev theta n) hτ 2 (2 * n + 2) t (by rw [e0, e1]; exact ht)
  have hlt : arcKnotRev theta n μ < arcKnotRev theta n (μ + 1) := by
    cases s
    · exact lt_of_le_of_lt h3.1 h3.2
    · exact lt_of_lt_of_le h3.1 h3.2
  have heven : μ % 2 = 0 := by
    by_contra hodd
    have : min n ((2 * n + 3 - μ - 1) / 2) = min n ((2 * n + 3 - (μ + 1) - 1) / 2) := by
      have : (2 * n + 3 - μ - 1) / 2 = (2 * n + 3 - (μ + 1) - 1) / 2 := by omega
      rw [this]
    unfold arcKnotRev arcKnotFn at hlt
    rw [this] at hlt
    exact lt_irrefl _ hlt
  obtain ⟨j, rfl⟩ : ∃ j, μ = 2 * j + 2 := ⟨(μ - 2) / 2, by omega⟩
  have hj : j < n := by omega
  have kf : ∀ i m, min n ((2 * n + 3 - i - 1) / 2) = m → arcKnotRev theta n i = (m : K) / n * theta := by
    intro i m h; unfold arcKnotRev arcKnotFn; rw [h]
  have a1 := kf (2 * j + 1) (n - j) (by omega)
  have a2 := kf (2 * j + 2) (n - j) (by omega)
  have a3 := kf (2 * j + 3) (n - j - 1) (by omega)
  have a4 := kf (2 * j + 4) (n - j - 1) (by omega)
  have hmem : s.mem (((n - j : ℕ) : K) / n * theta) (((n - j - 1 : ℕ) : K) / n * theta) t := by
    rw [← a2, ← a3]; exact h3
  have hab : ((n - j : ℕ) : K) / n * theta < ((n - j - 1 : ℕ) : K) / n * theta := by
    rw [← a2, ← a3]; exact hlt
  set u := (t - ((n - j : ℕ) : K) / n * theta) / (((n - j - 1 : ℕ) : K) / n * theta - ((n - j : ℕ) : K) / n * theta) with hu
  have hv : ∀ c, splineVal s (arcKnotRev theta n) 2 (2 * n + 1) c t = bern2 (c (2 * j)) (c (2 * j + 1)) (c (2 * j + 2)) u :=
    fun c => splineVal_bezier2 s (arcKnotRev theta n) hτ (2 * j) (2 * n + 1) c _ _ t hab a1 a2 a3 a4 hmem (by omega)
  obtain ⟨x0, y0, w0⟩ := netComp_arc_rev r cd sd n (2 * j) (by omega)
  obtain ⟨x1, y1, w1⟩ := netComp_arc_rev r cd sd n (2 * j + 1) (by omega)
  obtain ⟨x2, y2, w2⟩ := netComp_arc_rev r cd sd n (2 * j + 2) (by omega)
  have i0 : 2 * n - 2 * j = 2 * (n - 1 - j) + 2 := by omega
  have i1 : 2 * n - (2 * j + 1) = 2 * (n - 1 - j) + 1 := by omega
  have i2 : 2 * n - (2 * j + 2) = 2 * (n - 1 - j) := by omega
  rw [i0] at x0 y0 w0; rw [i1] at x1 y1 w1; rw [i2] at x2 y2 w2
  have eX : X = bern2 (arcX r cd sd (2 * (n - 1 - j))) (arcX r cd sd (2 * (n - 1 - j) + 1)) (arcX r cd sd (2 * (n - 1 - j) + 2)) (1 - u) := by
    show splineVal s τ 2 (2 * n + 1) _ t = _
    rw [hk, hv, x0, x1, x2, bern2_rev]
  have eY : Y = bern2 (arcY r cd sd (2 * (n - 1 - j))) (arcY r cd sd (2 * (n - 1 - j) + 1)) (arcY r cd sd (2 * (n - 1 - j) + 2)) (1 - u) := by
    show splineVal s τ 2 (2 * n + 1) _ t = _
    rw [hk, hv, y0, y1, y2, bern2_rev]
  have eW : W = bern2 (arcW cd (2 * (n - 1 - j))) (arcW cd (2 * (n - 1 - j) + 1)) (arcW cd (2 * (n - 1 - j) + 2)) (1 - u) := by
    show splineVal s τ 2 (2 * n + 1) _ t = _
    rw [hk, hv, w0, w1, w2, bern2_rev]
  have hcone : X ^ 2 + Y ^ 2 = r ^ 2 * W ^ 2 := by
    rw [eX, eY, eW]; exact (C13_arc_on_circle r cd sd n hd).2.2.2.2.1 (n - 1 - j) (1 - u)
  have hW : 0 < W := by
    show 0 < splineVal s τ 2 (2 * n + 1) _ t
    rw [hk]
    apply splineVal_pos s (arcKnotRev theta n) hτ 2 (2 * j + 2) (2 * n + 1) _ t (by omega) (by omega) h3
    intro i hi
    rw [(netComp_arc_rev r cd sd n i hi).2.2]
    unfold arcW; split <;> [exact hcd; exact one_pos]
  refine ⟨hW, hcone, ?_, j, hj, hmem, eX, eY⟩
  have hW0 : W ≠ 0 := ne_of_gt hW
  field_simp
  linear_combination hcone

/-- `θ < 0`: parameter `0` (the end of the domain `[θ, 0]`) is the point `(r, 0)` on the positive x-axis. -/
theorem C13_eval_arc_neg_start (r cd sd theta : K) (n : ℕ) (hn : 0 < n) (hθ : theta < 0)
    (hd : cd ^ 2 + sd ^ 2 = 1) (hcd : 0 < cd) :
    let τ := ({ order := 3, knots := (arcKnots theta n).reverse.toArray, periodic := -1 } : Basis K).kn
    splineVal .left τ 2 (2 * n + 1) (netComp (arcNet r cd sd n).reverse 0) 0 = r ∧
    splineVal .left τ 2 (2 * n + 1) (netComp (arcNet r cd sd n).reverse 1) 0 = 0 := by
  intro τ
  obtain ⟨_, _, _, j, hj, hmem, eX, eY⟩ :=
    C13_eval_arc_neg r cd sd theta n hn hθ hd hcd .left 0 ⟨hθ, le_refl 0⟩
  have hn' : (0 : K) < n := by exact_mod_cast hn
  -- the span containing `0` from the left is the last one
  have hjn : n - j - 1 = 0 := by
    by_contra hne
    have hpos : (0 : K) < ((n - j - 1 : ℕ) : K) := by exact_mod_cast Nat.pos_of_ne_zero hne
    have : ((n - j - 1 : ℕ) : K) / n * theta < 0 := mul_neg_of_pos_of_neg (div_pos hpos hn') hθ
    exact absurd hmem.2 (not_le.mpr this)
  have hnj : n - j = 1 := by omega
  have hnj' : n - 1 - j = 0 := by omega
  rw [hjn, hnj, hnj'] at eX eY
  have hne : (1 : K) / n * theta ≠ 0 := ne_of_lt (mul_neg_of_pos_of_neg (div_pos one_pos hn') hθ)
  have hu : (1 : K) - (0 - ((1 : ℕ) : K) / n * theta) / (((0 : ℕ) : K) / n * theta - ((1 : ℕ) : K) / n * theta) = 0 := by
    have e : ((0 : ℕ) : K) / n * theta - ((1 : ℕ) : K) / n * theta = 0 - ((1 : ℕ) : K) / n * theta := by simp
    have hne' : (0 : K) - ((1 : ℕ) : K) / n * theta ≠ 0 := by simpa using hne
    rw [e, div_self hne', sub_self]
  rw [hu] at eX eY
  constructor
  · rw [eX]; simp [bern2, arcX, angleIter]
  · rw [eY]; simp [bern2, arcY, angleIter]

/-- **`circle(type='p2C0')`: every evaluated point is on the unit circle** (every `t ∈ [0, 2π)`
resp. `(0, 2π]`; `w² = 1/2`, `w > 0`); `circle` then scales by `r` and places
(`C13_eval_placed_curve`). -/
theorem C13_eval_circle_p2C0 (pi w : K) (hpi : 0 < pi) (hw : w ^ 2 = 1 / 2) (hw0 : 0 < w)
    (s : Side) (t : K) (ht : s.mem 0 (2 * pi) t) :
    let τ := ({ order := 3, knots := (circleKnotsP2 pi).toArray, periodic := 0 } : Basis K).kn
    let X := splineVal s τ 2 9 (netComp (circleNetP2 w) 0) t
    let Y := splineVal s τ 2 9 (netComp (circleNetP2 w) 1) t
    let W := splineVal s τ 2 9 (netComp (circleNetP2 w) 2) t
    0 < W ∧ X ^ 2 + Y ^ 2 = W ^ 2 ∧ (X / W) ^ 2 + (Y / W) ^ 2 = 1 := by
  intro τ X Y W
  obtain ⟨j, hj, hmem⟩ := p2_span_of_mem s pi hpi t ht
  have hcone := C13_circle_p2C0_spline pi w hpi hw s j hj t hmem
  have hh : (0 : K) < pi / 2 := by positivity
  have hτ := p2Knot_mono (pi / 2) hh
  have hW : 0 < W := by
    have hk : W = splineVal s (p2Knot (pi / 2)) 2 9 (netComp (circleNetP2 w) 2) t :=
      splineVal_congr_knots s _ _ 2 9 _ t (fun k hk => kn_circleP2 pi k (by omega))
    rw [hk]
    apply splineVal_pos s (p2Knot (pi / 2)) hτ 2 (2 * j + 2) 9 _ t (by omega) (by omega)
    · have a : p2Knot (pi / 2) (2 * j + 2) = (j : K) * (pi / 2) := by
        interval_cases j <;> simp [p2Knot] <;> ring
      have b : p2Knot (pi / 2) (2 * j + 2 + 1) = (j : K) * (pi / 2) + pi / 2 := by
        interval_cases j <;> simp [p2Knot] <;> ring
      rw [a, b]; exact hmem
    · intro i hi
      interval_cases i <;> simp [netComp, circleNetP2] <;> exact hw0
  refine ⟨hW, hcone, ?_⟩
  have hW0 : W ≠ 0 := ne_of_gt hW
  field_simp
  linear_combination hcone


/-- **`circle(type='p4C1')`: every evaluated point is on the unit circle** (`s2² = 2`, `s2 > 0`). -/
theorem C13_eval_circle_p4C1 (pi s2 : K) (hpi : 0 < pi) (h2 : s2 ^ 2 = 2) (hs0 : 0 < s2)
    (s : Side) (t : K) (ht : s.mem 0 (2 * pi) t) :
    let τ := ({ order := 5, knots := (circleKnotsP4 pi).toArray, periodic := 1 } : Basis K).kn
    let X := splineVal s τ 4 14 (netComp (circleNetP4 s2) 0) t
    let Y := splineVal s τ 4 14 (netComp (circleNetP4 s2) 1) t
    let W := splineVal s τ 4 14 (netComp (circleNetP4 s2) 2) t
    0 < W ∧ X ^ 2 + Y ^ 2 = W ^ 2 ∧ (X / W) ^ 2 + (Y / W) ^ 2 = 1 := by
  intro τ X Y W
  obtain ⟨j, hj, hmem⟩ := p4_span_of_mem s pi hpi t ht
  have hcone := C13_circle_p4C1 pi s2 hpi h2 s j hj t hmem
  have hh : (0 : K) < pi / 2 := by positivity
  have hτ := p4Knot_mono (pi / 2) hh
  have hW : 0 < W := by
    have hk : W = splineVal s (p4Knot (pi / 2)) 4 14 (netComp (circleNetP4 s2) 2) t :=
      splineVal_congr_knots s _ _ 4 14 _ t (fun k hk => kn_circleP4 pi k (by omega))
    rw [hk]
    apply splineVal_pos s (p4Knot (pi / 2)) hτ 4 (3 * j + 4) 14 _ t (by omega) (by omega)
    · have a : p4Knot (pi / 2) (3 * j + 4) = (j : K) * (pi / 2) := by
        interval_cases j <;> simp [p4Knot] <;> ring
      have b : p4Knot (pi / 2) (3 * j + 4 + 1) = (j : K) * (pi / 2) + pi / 2 := by
        interval_cases j <;> simp [p4Knot] <;> ring
      rw [a, b]; exact hmem
    · intro i hi
      interval_cases i <;> simp [netComp, circleNetP4] <;> positivity
  refine ⟨hW, hcone, ?_⟩
  have hW0 : W ≠ 0 := ne_of_gt hW
  field_simp
  linear_combination hcone

/-- **Placed curves: circle, arc, ellipse at every parameter.**  For a planar rational net
(points `[X, Y, W]`), *arbitrary* weights `β` (the values of the basis functions at a parameter) and
placement data obeying the relations of `C13_placement`:
1. the weighted combination of the placed control points (`place`, `C13_model_nets` part 3) is
   `X·e_x' + Y·e_y' + W·c` where `(X, Y, W)` is the combination of the unplaced ones and
   `e_x', e_y'` (the images of `e_x`, `e_y`) are orthonormal and orthogonal to `n`;
2. if the unplaced point is on the cone `X² + Y² = r²W²` (`C13_eval_arc`, `C13_eval_circle_*`,
   scaled by `r`) the evaluated placed point satisfies `‖p − c‖² = r²`, `(p − c)·n = 0`;
3. if it is on `(X/r1)² + (Y/r2)² = W²` (the `ellipse` net: unit circle scaled by `(r1, r2, 1)`) the
   placed point satisfies the ellipse equation in the frame `(e_x', e_y')` and lies in the plane. -/
theorem C13_eval_placed_curve (net : List (Pt K)) (n : ℕ) (β : ℕ → K) (h3 : Is3 net n)
    (nx ny nz ρ N ct st cp sp ca sa c1 c2 c3 : K)
    (hρ : ρ ^ 2 = nx ^ 2 + ny ^ 2) (hNN : N ^ 2 = ρ ^ 2 + nz ^ 2) (hNpos : 0 < N)
    (hθ : ρ ≠ 0 → ct * ρ = nx ∧ st * ρ = ny) (hθ1 : ct ^ 2 + st ^ 2 = 1)
    (hcp : cp * N = nz) (hsp : sp * N = ρ) (ha : ca ^ 2 + sa ^ 2 = 1) :
    let X := wS n β (comp net 0)
    let Y := wS n β (comp net 1)
    let W := wS n β (comp net 2)
    let net' := net.map (placePt ca sa ct st cp sp [c1, c2, c3])
    let x := wS n β (comp net' 0)
    let y := wS n β (comp net' 1)
    let z := wS n β (comp net' 2)
    let w := wS n β (comp net' 3)
    -- images of e_x, e_y under the rotation part
    let ex : K × K × K := (ca * cp * ct - sa * st, ca * cp * st + sa * ct, -(ca * sp))
    let ey : K × K × K := (-(sa * cp * ct) - ca * st, -(sa * cp * st) + ca * ct, sa * sp)
    w = W ∧
    x = X * ex.1 + Y * ey.1 + c1 * W ∧ y = X * ex.2.1 + Y * ey.2.1 + c2 * W ∧
    z = X * ex.2.2 + Y * ey.2.2 + c3 * W ∧
    (ex.1 ^ 2 + ex.2.1 ^ 2 + ex.2.2 ^ 2 = 1 ∧ ey.1 ^ 2 + ey.2.1 ^ 2 + ey.2.2 ^ 2 = 1 ∧
      ex.1 * ey.1 + ex.2.1 * ey.2.1 + ex.2.2 * ey.2.2 = 0 ∧
      ex.1 * nx + ex.2.1 * ny + ex.2.2 * nz = 0 ∧ ey.1 * nx + ey.2.1 * ny + ey.2.2 * nz = 0) ∧
    (∀ r : K, X ^ 2 + Y ^ 2 = r ^ 2 * W ^ 2 → W ≠ 0 →
      (x / w - c1) ^ 2 + (y / w - c2) ^ 2 + (z / w - c3) ^ 2 = r ^ 2 ∧
      (x / w - c1) * nx + (y / w - c2) * ny + (z / w - c3) * nz = 0) ∧
    (∀ r1 r2 : K, (X / r1) ^ 2 + (Y / r2) ^ 2 = W ^ 2 → W ≠ 0 → r1 ≠ 0 → r2 ≠ 0 →
      (((x / w - c1) * ex.1 + (y / w - c2) * ex.2.1 + (z / w - c3) * ex.2.2) / r1) ^ 2
      + (((x / w - c1) * ey.1 + (y / w - c2) * ey.2.1 + (z / w - c3) * ey.2.2) / r2) ^ 2 = 1 ∧
      (x / w - c1) * nx + (y / w - c2) * ny + (z / w - c3) * nz = 0) := by
  have hN : N ≠ 0 := ne_of_gt hNpos
  intro X Y W net' x y z w ex ey
  have hpl := wS_placePt net n β h3 ca sa ct st cp sp c1 c2 c3
  have hp1 : cp ^ 2 + sp ^ 2 = 1 := by
    have : (cp ^ 2 + sp ^ 2) * N ^ 2 = N ^ 2 := by
      linear_combination (cp * N + nz) * hcp + (sp * N + ρ) * hsp - hNN
    exact mul_right_cancel₀ (pow_ne_zero 2 hN) (by rw [this, one_mul])
  have hdec : placePt ca sa ct st cp sp [c1, c2, c3] [X, Y, W]
      = [X * ex.1 + Y * ey.1 + c1 * W, X * ex.2.1 + Y * ey.2.1 + c2 * W,
         X * ex.2.2 + Y * ey.2.2 + c3 * W, W] := by
    simp only [placePt, setDimPt, rotZPt_cons, translatePt, weightOf, ex, ey]
    simp
    refine ⟨by ring, by ring, by ring⟩
  rw [hdec] at hpl
  simp only [List.cons.injEq, and_true] at hpl
  obtain ⟨e0', e1', e2', e3'⟩ := hpl
  have e0 : x = X * ex.1 + Y * ey.1 + c1 * W := e0'
  have e1 : y = X * ex.2.1 + Y * ey.2.1 + c2 * W := e1'
  have e2 : z = X * ex.2.2 + Y * ey.2.2 + c3 * W := e2'
  have e3 : w = W := e3'
  -- n in terms of the angles
  obtain ⟨hez, _, _⟩ := C13_placement nx ny nz ρ N ct st cp sp hρ hNN hNpos hθ hθ1 hcp hsp
  simp only [rotYPt_cons, rotZPt_cons, List.cons.injEq, and_true] at hez
  obtain ⟨z1, z2, z3⟩ := hez
  have hnx : nx = N * (sp * ct) := by
    have : nx = N * (nx / N) := by field_simp
    rw [this, ← z1]; ring
  have hny : ny = N * (sp * st) := by
    have : ny = N * (ny / N) := by field_simp
    rw [this, ← z2]; ring
  have hnz : nz = N * cp := by rw [← hcp]; ring
  have o1 : ex.1 ^ 2 + ex.2.1 ^ 2 + ex.2.2 ^ 2 = 1 := by
    simp only [ex]
    linear_combination (ca ^ 2 * cp ^ 2 + sa ^ 2) * hθ1 + ca ^ 2 * hp1 + ha
  have o2 : ey.1 ^ 2 + ey.2.1 ^ 2 + ey.2.2 ^ 2 = 1 := by
    simp only [ey]
    linear_combination (sa ^ 2 * cp ^ 2 + ca ^ 2) * hθ1 + sa ^ 2 * hp1 + ha
  have o3 : ex.1 * ey.1 + ex.2.1 * ey.2.1 + ex.2.2 * ey.2.2 = 0 := by
    simp only [ex, ey]
    linear_combination (-(ca * sa * cp ^ 2) + ca * sa) * hθ1 + (-(ca * sa)) * hp1
  have o4 : ex.1 * nx + ex.2.1 * ny + ex.2.2 * nz = 0 := by
    simp only [ex]; rw [hnx, hny, hnz]
    linear_combination (N * ca * cp * sp) * hθ1
  have o5 : ey.1 * nx + ey.2.1 * ny + ey.2.2 * nz = 0 := by
    simp only [ey]; rw [hnx, hny, hnz]
    linear_combination (-(N * sa * cp * sp)) * hθ1
  refine ⟨e3, e0, e1, e2, ⟨o1, o2, o3, o4, o5⟩, ?_, ?_⟩
  · intro r hcone hW
    have hx : x / w - c1 = (X * ex.1 + Y * ey.1) / W := by rw [e0, e3]; field_simp; ring
    have hy : y / w - c2 = (X * ex.2.1 + Y * ey.2.1) / W := by rw [e1, e3]; field_simp; ring
    have hz : z / w - c3 = (X * ex.2.2 + Y * ey.2.2) / W := by rw [e2, e3]; field_simp; ring
    rw [hx, hy, hz]
    constructor
    · field_simp
      linear_combination X ^ 2 * o1 + Y ^ 2 * o2 + 2 * X * Y * o3 + hcone
    · field_simp
      linear_combination X * o4 + Y * o5
  · intro r1 r2 hell hW hr1 hr2
    have hx : x / w - c1 = (X * ex.1 + Y * ey.1) / W := by rw [e0, e3]; field_simp; ring
    have hy : y / w - c2 = (X * ex.2.1 + Y * ey.2.1) / W := by rw [e1, e3]; field_simp; ring
    have hz : z / w - c3 = (X * ex.2.2 + Y * ey.2.2) / W := by rw [e2, e3]; field_simp; ring
    rw [hx, hy, hz]
    have hu : (X * ex.1 + Y * ey.1) / W * ex.1 + (X * ex.2.1 + Y * ey.2.1) / W * ex.2.1
        + (X * ex.2.2 + Y * ey.2.2) / W * ex.2.2 = X / W := by
      field_simp
      linear_combination X * o1 + Y * o3
    have hv : (X * ex.1 + Y * ey.1) / W * ey.1 + (X * ex.2.1 + Y * ey.2.1) / W * ey.2.1
        + (X * ex.2.2 + Y * ey.2.2) / W * ey.2.2 = Y / W := by
      field_simp
      linear_combination X * o3 + Y * o2
    rw [hu, hv]
    constructor
    · have : (X / W / r1) ^ 2 + (Y / W / r2) ^ 2 = ((X / r1) ^ 2 + (Y / r2) ^ 2) / W ^ 2 := by
        field_simp
      rw [this, hell]; field_simp
    · field_simp
      linear_combination X * o4 + Y * o5

/-- **`revolve`: every evaluated point.**  Net `stackLast (revolveRows prof arc)` (the model of
`surface_factory.revolve` about the z-axis, `revolve_aux0`; `volume_factory.revolve` has the same
rows for the sweep net `(cos j·dt, sin j·dt, weight_j)`, part 3), arbitrary weights `β` on the
profile's control points (curve: basis values; surface: products) and `γ` on the sweep's:
1. the homogeneous point is `(PX·A − PY·B, PX·B + PY·A, PZ·Wt, PH·Wt)` with `(PX,PY,PZ,PH)` the
   evaluated profile point and `(A, B, Wt)` the evaluated sweep point;
2. if the sweep point is on its cone `A² + B² = Wt²` (`C13_eval_arc`, `C13_eval_circle_p2C0` with
   `r = 1`) the Cartesian point is the generator point rotated about the z-axis by the angle
   `(A/Wt, B/Wt)` (a unit vector): its distance to the axis and its height are those of the
   generator point, for every sweep parameter. -/
theorem C13_eval_revolve (prof arc : List (Pt K)) (n m : ℕ) (β γ : ℕ → K)
    (hn : prof.length = n) (hm : arc.length = m) (hm0 : 0 < m) (hp : Is4 prof n) (ha : Is3 arc m) :
    let PX := wS n β (comp prof 0)
    let PY := wS n β (comp prof 1)
    let PZ := wS n β (comp prof 2)
    let PH := wS n β (comp prof 3)
    let A := wS m γ (comp arc 0)
    let B := wS m γ (comp arc 1)
    let Wt := wS m γ (comp arc 2)
    let net := stackLast (revolveRows prof arc)
    let xh := wS2 n m β γ (fun k j => comp net 0 (k * m + j))
    let yh := wS2 n m β γ (fun k j => comp net 1 (k * m + j))
    let zh := wS2 n m β γ (fun k j => comp net 2 (k * m + j))
    let wh := wS2 n m β γ (fun k j => comp net 3 (k * m + j))
    (xh = PX * A - PY * B ∧ yh = PX * B + PY * A ∧ zh = PZ * Wt ∧ wh = PH * Wt) ∧
    (A ^ 2 + B ^ 2 = Wt ^ 2 → Wt ≠ 0 → PH ≠ 0 →
      (xh / wh) ^ 2 + (yh / wh) ^ 2 = (PX / PH) ^ 2 + (PY / PH) ^ 2 ∧ zh / wh = PZ / PH ∧
      xh / wh = (PX / PH) * (A / Wt) - (PY / PH) * (B / Wt) ∧
      yh / wh = (PX / PH) * (B / Wt) + (PY / PH) * (A / Wt) ∧ (A / Wt) ^ 2 + (B / Wt) ^ 2 = 1) ∧
    (∀ (cd sd : K) (ws : List K),
      revolveRowsStep prof cd sd ws = revolveRows prof ((List.range ws.length).map
          (fun i => [(angleIter cd sd i).1, (angleIter cd sd i).2, ws.getD i 1]))) := by
  intro PX PY PZ PH A B Wt net xh yh zh wh
  obtain ⟨e0, e1, e2, e3⟩ := wS2_revolve prof arc n m β γ hn hm hm0 hp ha
  have e0' : xh = PX * A - PY * B := e0
  have e1' : yh = PX * B + PY * A := e1
  have e2' : zh = PZ * Wt := e2
  have e3' : wh = PH * Wt := e3
  refine ⟨⟨e0', e1', e2', e3'⟩, ?_, fun cd sd ws => revolveRowsStep_eq prof cd sd ws⟩
  intro harc hW hH
  rw [e0', e1', e2', e3']
  refine ⟨?_, ?_, ?_, ?_, ?_⟩
  · field_simp
    linear_combination (PX ^ 2 + PY ^ 2) * harc
  · field_simp
  · field_simp
  · field_simp
  · field_simp; linear_combination harc


/-- **Sphere and torus (surface and solid): implicit equations at every parameter.**  A revolved
point of a generator in the `xz`-plane (`PY = 0`; `sphere`: half circle about the origin, `torus`:
circle about `(R, 0, 0)`), with the sweep point on its cone:
1. generator on `PX² + PZ² = r²PH²`  ⇒  `x² + y² + z² = r²`;
2. generator on `(PX − R·PH)² + PZ² = r²PH²`  ⇒  `(x² + y² + z² + R² − r²)² = 4R²(x² + y²)`;
3. `x² + y² = (PX/PH)²`, `z = PZ/PH`;
4. solid torus: a generator point inside the tube circle with `PX/PH ≥ 0` gives
   `(ρ − R)² + z² ≤ r²` for `ρ = √(x²+y²)` (`ρ ≥ 0`, `ρ² = x² + y²`). -/
theorem C13_eval_sphere_torus (PX PZ PH A B Wt r R : K) (harc : A ^ 2 + B ^ 2 = Wt ^ 2)
    (hW : Wt ≠ 0) (hH : PH ≠ 0) :
    let x := (PX * A - 0 * B) / (PH * Wt)
    let y := (PX * B + 0 * A) / (PH * Wt)
    let z := (PZ * Wt) / (PH * Wt)
    (PX ^ 2 + PZ ^ 2 = r ^ 2 * PH ^ 2 → x ^ 2 + y ^ 2 + z ^ 2 = r ^ 2) ∧
    ((PX - R * PH) ^ 2 + PZ ^ 2 = r ^ 2 * PH ^ 2 →
      (x ^ 2 + y ^ 2 + z ^ 2 + R ^ 2 - r ^ 2) ^ 2 = 4 * R ^ 2 * (x ^ 2 + y ^ 2)) ∧
    (x ^ 2 + y ^ 2 = (PX / PH) ^ 2 ∧ z = PZ / PH) ∧
    ((PX / PH - R) ^ 2 + (PZ / PH) ^ 2 ≤ r ^ 2 → 0 ≤ PX / PH →
      ∃ ρ, 0 ≤ ρ ∧ ρ ^ 2 = x ^ 2 + y ^ 2 ∧ (ρ - R) ^ 2 + z ^ 2 ≤ r ^ 2) := by
  intro x y z
  have hxy : x ^ 2 + y ^ 2 = (PX / PH) ^ 2 := by
    simp only [x, y]; field_simp; linear_combination PX ^ 2 * harc
  have hz : z = PZ / PH := by simp only [z]; field_simp
  refine ⟨?_, ?_, ⟨hxy, hz⟩, ?_⟩
  · intro h
    rw [hxy, hz]; field_simp; linear_combination h
  · intro h
    rw [hxy, hz]
    have h' : (PX / PH - R) ^ 2 + (PZ / PH) ^ 2 = r ^ 2 := by field_simp; linear_combination h
    have : (PX / PH) ^ 2 + (PZ / PH) ^ 2 + R ^ 2 - r ^ 2 = 2 * R * (PX / PH) := by linear_combination h'
    rw [this]; ring
  · intro h h0
    exact ⟨PX / PH, h0, hxy.symm, by rw [hz]; exact h⟩


/-- **`extrude` (surface and volume) and cylinders at every parameter.**  Net
`stackLast [base, base + amount]` (`C13_extrude_section`), arbitrary weights `β` on the base net,
sweep parameter `v` with the two linear B-spline values `1 − v`, `v` (part 3):
1.–2. the evaluated point is the evaluated base point plus `v·amount`;
4. cylinder: if the base point is on the circle of radius `r` about `c` in the plane orthogonal to
   the amount, the extruded point is at distance `r` from the axis point `c + v·amount` and its
   height along the amount is `v·|amount|²`. -/
theorem C13_eval_extrude (base : List (Pt K)) (n : ℕ) (β : ℕ → K) (a b c v : K)
    (hn : base.length = n) (hp : Is4 base n) :
    let net := stackLast [base, base.map (translatePt true 3 [a, b, c])]
    let γ : ℕ → K := fun j => if j = 0 then 1 - v else v
    let X := wS n β (comp base 0)
    let Y := wS n β (comp base 1)
    let Z := wS n β (comp base 2)
    let H := wS n β (comp base 3)
    let xh := wS2 n 2 β γ (fun k j => comp net 0 (k * 2 + j))
    let yh := wS2 n 2 β γ (fun k j => comp net 1 (k * 2 + j))
    let zh := wS2 n 2 β γ (fun k j => comp net 2 (k * 2 + j))
    let wh := wS2 n 2 β γ (fun k j => comp net 3 (k * 2 + j))
    (xh = X + v * a * H ∧ yh = Y + v * b * H ∧ zh = Z + v * c * H ∧ wh = H) ∧
    (H ≠ 0 → xh / wh = X / H + v * a ∧ yh / wh = Y / H + v * b ∧ zh / wh = Z / H + v * c) ∧
    -- the weights `γ` are the values of the two linear B-splines of `BSplineBasis(2)` at `v`
    (∀ s : Side, s.mem 0 1 v →
      B s (defaultBasis (K := K) 2).kn 1 0 v = γ 0 ∧ B s (defaultBasis (K := K) 2).kn 1 1 v = γ 1) ∧
    -- cylinder: a base point on the circle (centre `(p, q, w)`, plane ⟂ `(a,b,c)`) stays at distance
    -- `r` from the axis and rises by `v·|amount|²` along it
    (∀ p q w r x y z : K, (x - p) ^ 2 + (y - q) ^ 2 + (z - w) ^ 2 = r ^ 2 →
      (x - p) * a + (y - q) * b + (z - w) * c = 0 →
      ((x + v * a) - p - v * a) ^ 2 + ((y + v * b) - q - v * b) ^ 2 + ((z + v * c) - w - v * c) ^ 2 = r ^ 2 ∧
      ((x + v * a) - p) * a + ((y + v * b) - q) * b + ((z + v * c) - w) * c = v * (a ^ 2 + b ^ 2 + c ^ 2)) := by
  intro net γ X Y Z H xh yh zh wh
  obtain ⟨e, e3⟩ := wS2_extrude_rational base n β γ a b c hn hp
  have g0 : γ 0 = 1 - v := by simp [γ]
  have g1 : γ 1 = v := by simp [γ]
  have ex : xh = X + v * a * H := by
    have := e 0 (by omega); simp only [List.getD_cons_zero] at this
    show wS2 n 2 β γ _ = _
    rw [this, g0, g1]; ring
  have ey : yh = Y + v * b * H := by
    have := e 1 (by omega); simp only [List.getD_cons_succ, List.getD_cons_zero] at this
    show wS2 n 2 β γ _ = _
    rw [this, g0, g1]; ring
  have ez : zh = Z + v * c * H := by
    have := e 2 (by omega); simp only [List.getD_cons_succ, List.getD_cons_zero] at this
    show wS2 n 2 β γ _ = _
    rw [this, g0, g1]; ring
  have ew : wh = H := by
    show wS2 n 2 β γ _ = _
    rw [e3, g0, g1]; ring
  refine ⟨⟨ex, ey, ez, ew⟩, ?_, ?_, ?_⟩
  · intro hH
    rw [ex, ey, ez, ew]
    refine ⟨by field_simp, by field_simp, by field_simp⟩
  · intro s hs
    have hτ : Monotone (defaultBasis (K := K) 2).kn := by
      apply monotone_nat_of_le_succ
      intro i
      rcases i with _ | _ | _ | i <;> simp [defaultBasis, Basis.kn]
    have k1 : (defaultBasis (K := K) 2).kn (0 + 1) = 0 := by simp [defaultBasis, Basis.kn]
    have k2 : (defaultBasis (K := K) 2).kn (0 + 2) = 1 := by simp [defaultBasis, Basis.kn]
    obtain ⟨b0, b1⟩ := B1_linear s _ hτ 0 0 1 v one_pos k1 k2 hs
    rw [g0, g1]
    constructor
    · rw [b0]; ring
    · rw [b1]; ring
  · intro p q w r x y z hr hpl
    constructor
    · rw [← hr]; ring
    · linear_combination hpl

/-- **Discs at every parameter.**
1. `type='radial'`: the evaluated point is `c + γ1·(C − c)` for the boundary-circle point `C`
   (`γ0, γ1` the two linear basis values in the radial direction): it lies in the plane, at distance
   `γ1·r ≤ r` from the centre (on the circle for `γ1 = 1`).
2. `type='square'`: for the literal biquadratic rational patch (`w² = 1/2`), every `(u, v) ∈ [0,1]²`:
   `W > 0`, `X² + Y² ≤ r²W²` (inside the disc), with equality on the four boundary curves
   (`r²W² − X² − Y² = r²·4u(1−u)·4v(1−v)·(4w + 3 + (2u−1)²(2v−1)²(3 − 4w))/8`). -/
theorem C13_eval_disc :
    -- radial: the evaluated point is `c + γ1·(C − c)` for the circle point `C` and `γ1 = u/r ∈ [0,1]`
    (∀ γ0 γ1 p q s W x y z r nx ny nz : K, γ0 + γ1 = 1 → W ≠ 0 → 0 ≤ γ1 → γ1 ≤ 1 →
      (x / W - p) ^ 2 + (y / W - q) ^ 2 + (z / W - s) ^ 2 = r ^ 2 →
      (x / W - p) * nx + (y / W - q) * ny + (z / W - s) * nz = 0 →
      ((γ0 * (p * W) + γ1 * x) / (γ0 * W + γ1 * W) - p) ^ 2
        + ((γ0 * (q * W) + γ1 * y) / (γ0 * W + γ1 * W) - q) ^ 2
        + ((γ0 * (s * W) + γ1 * z) / (γ0 * W + γ1 * W) - s) ^ 2 = γ1 ^ 2 * r ^ 2 ∧
      γ1 ^ 2 * r ^ 2 ≤ r ^ 2 ∧
      ((γ0 * (p * W) + γ1 * x) / (γ0 * W + γ1 * W) - p) * nx
        + ((γ0 * (q * W) + γ1 * y) / (γ0 * W + γ1 * W) - q) * ny
        + ((γ0 * (s * W) + γ1 * z) / (γ0 * W + γ1 * W) - s) * nz = 0) ∧
    -- square: the biquadratic rational patch with the literal 3×3 net
    (∀ r w u v : K, w ^ 2 = 1 / 2 → 0 < w → 0 ≤ u → u ≤ 1 → 0 ≤ v → v ≤ 1 →
      let X := bern2 (bern2 (-r * w) 0 (r * w) u) (bern2 (-r) 0 r u) (bern2 (-r * w) 0 (r * w) u) v
      let Y := bern2 (bern2 (-r * w) (-r) (-r * w) u) (bern2 0 0 0 u) (bern2 (r * w) r (r * w) u) v
      let W := bern2 (bern2 1 w 1 u) (bern2 w 1 w u) (bern2 1 w 1 u) v
      0 < W ∧ X ^ 2 + Y ^ 2 ≤ r ^ 2 * W ^ 2 ∧
      (u = 0 ∨ u = 1 ∨ v = 0 ∨ v = 1 → X ^ 2 + Y ^ 2 = r ^ 2 * W ^ 2)) := by
  constructor
  · intro γ0 γ1 p q s W x y z r nx ny nz hγ hW h0 h1 hr hpl
    have hden : γ0 * W + γ1 * W = W := by rw [← add_mul, hγ, one_mul]
    have e : ∀ a t : K, (γ0 * (a * W) + γ1 * t) / (γ0 * W + γ1 * W) - a = γ1 * (t / W - a) := by
      intro a t
      rw [hden]
      have : γ0 = 1 - γ1 := by linarith
      rw [this]; field_simp; ring
    rw [e p x, e q y, e s z]
    refine ⟨?_, ?_, ?_⟩
    · rw [← hr]; ring
    · have : γ1 ^ 2 ≤ 1 := by nlinarith
      nlinarith [sq_nonneg r]
    · linear_combination γ1 * hpl
  · intro r w u v hw hw0 hu0 hu1 hv0 hv1 X Y W
    have hw34 : w < 3 / 4 := by
      by_contra hcon
      push Not at hcon
      nlinarith
    have key : r ^ 2 * W ^ 2 - X ^ 2 - Y ^ 2
        = r ^ 2 * (4 * u * (1 - u)) * (4 * v * (1 - v))
            * (4 * w + 3 + (2 * u - 1) ^ 2 * (2 * v - 1) ^ 2 * (3 - 4 * w)) / 8 := by
      simp only [X, Y, W, bern2]
      linear_combination (2 * r ^ 2 * (32 * u ^ 4 * v ^ 4 - 64 * u ^ 4 * v ^ 3 + 40 * u ^ 4 * v ^ 2 - 8 * u ^ 4 * v
        - 64 * u ^ 3 * v ^ 4 + 128 * u ^ 3 * v ^ 3 - 80 * u ^ 3 * v ^ 2 + 16 * u ^ 3 * v + 40 * u ^ 2 * v ^ 4
        - 80 * u ^ 2 * v ^ 3 + 36 * u ^ 2 * v ^ 2 + 4 * u ^ 2 * v - 4 * u ^ 2 - 8 * u * v ^ 4 + 16 * u * v ^ 3
        + 4 * u * v ^ 2 - 12 * u * v + 4 * u - 4 * v ^ 2 + 4 * v - 1)) * hw
    have h1u : 0 ≤ 1 - u := by linarith
    have h1v : 0 ≤ 1 - v := by linarith
    refine ⟨?_, ?_, ?_⟩
    · have a1 : 0 < bern2 1 w 1 u := arc_weight_pos w u hw0 hu0 hu1
      have a2 : 0 < bern2 w 1 w u := by
        unfold bern2
        have e1 : 0 ≤ (1 - u) ^ 2 * w := by positivity
        have e2 : 0 ≤ u ^ 2 * w := by positivity
        have e3 : 0 ≤ 2 * u * (1 - u) * 1 := by positivity
        rcases le_or_gt u (1 / 2) with h | h
        · have : 0 < (1 - u) ^ 2 * w := by
            have : 0 < 1 - u := by linarith
            positivity
          linarith
        · have : 0 < u ^ 2 * w := by
            have : 0 < u := by linarith
            positivity
          linarith
      show 0 < bern2 (bern2 1 w 1 u) (bern2 w 1 w u) (bern2 1 w 1 u) v
      unfold bern2 at a1 a2 ⊢
      have e1 : 0 ≤ (1 - v) ^ 2 := sq_nonneg _
      have e2 : 0 ≤ v ^ 2 := sq_nonneg _
      have e3 : 0 ≤ 2 * v * (1 - v) := by positivity
      rcases le_or_gt v (1 / 2) with h | h
      · have : 0 < (1 - v) ^ 2 := by
          have : 0 < 1 - v := by linarith
          positivity
        nlinarith [mul_nonneg e3 (le_of_lt a2), mul_nonneg e2 (le_of_lt a1), mul_pos this a1]
      · have : 0 < v ^ 2 := by
          have : 0 < v := by linarith
          positivity
        nlinarith [mul_nonneg e3 (le_of_lt a2), mul_nonneg e1 (le_of_lt a1), mul_pos this a1]
    · have hnn : 0 ≤ r ^ 2 * (4 * u * (1 - u)) * (4 * v * (1 - v))
          * (4 * w + 3 + (2 * u - 1) ^ 2 * (2 * v - 1) ^ 2 * (3 - 4 * w)) / 8 := by
        have : 0 ≤ 3 - 4 * w := by linarith
        positivity
      linarith
    · intro hb
      have : r ^ 2 * (4 * u * (1 - u)) * (4 * v * (1 - v))
          * (4 * w + 3 + (2 * u - 1) ^ 2 * (2 * v - 1) ^ 2 * (3 - 4 * w)) / 8 = 0 := by
        rcases hb with rfl | rfl | rfl | rfl <;> ring
      linarith

/-- **`circle_segment` through `Obj.evaluate`.**  For the (unplaced) arc object of the factory
converted to the tensor object, `SplineObject.evaluate` at admissible parameters returns points on
the circle of radius `r` about the origin. -/
theorem C13_eval_arc_evaluate [FloorRing K] (r cd sd theta : K) (n : ℕ) (hn : 0 < n) (hθ : 0 < theta)
    (hd : cd ^ 2 + sd ^ 2 = 1) (hcd : 0 < cd) {tol : K} (htol : 0 < tol) {us : List K}
    (hus : ∀ u ∈ us, ({ order := 3, knots := (arcKnots theta n).toArray, periodic := -1 } : Basis K).Admissible tol u)
    (hne : us ≠ []) :
    ∃ res, (FileIO.ofFac (arcCurve r cd sd theta n)).evaluate tol [us] true = .ok res ∧
      res.shape = [us.length, 2] ∧
      ∀ i, i < us.length → res.get (i * 2 + 0) ^ 2 + res.get (i * 2 + 1) ^ 2 = r ^ 2 := by
  set b : Basis K := { order := 3, knots := (arcKnots theta n).toArray, periodic := -1 } with hb
  have hv := arcBasis_valid theta n hn hθ
  rw [← hb] at hv
  have hsize : b.knots.size = 2 * n + 4 := by simp [hb, arcKnots, arcInts_eq]
  have hnf : b.numFunctions = 2 * n + 1 := by
    unfold Basis.numFunctions; rw [hsize]; simp [hb]
  have hlen : (arcCurve r cd sd theta n).cps.length = 2 * n + 1 := by
    simp [arcCurve, curveOf, arcNet_length]
  have h3 : ∀ p ∈ (arcCurve r cd sd theta n).cps, p.length = 3 := by
    intro p hp
    simp only [arcCurve, curveOf, arcNet, List.mem_map] at hp
    obtain ⟨i, _, rfl⟩ := hp
    simp
  have hget : ∀ j c, j < 2 * n + 1 → c < 3 →
      (FileIO.ofFac (arcCurve r cd sd theta n)).cps.get (j * 3 + c) = netComp (arcNet r cd sd n) c j := by
    intro j c hj hc
    rw [ofFac_get _ 3 (by omega) h3 j c (by rw [hlen]; exact hj) hc]
    simp [netComp, arcCurve, curveOf, arcNet_length, Nat.mod_eq_of_lt hj]
  obtain ⟨res, h1, h2, _, h4⟩ := Obj.evaluate1_spec_rational (o := FileIO.ofFac (arcCurve r cd sd theta n))
    (b1 := b) (by simp [FileIO.ofFac, arcCurve, curveOf, hb]) hv (dim := 2)
    (by rw [hnf]; simp [FileIO.ofFac, arcCurve, curveOf, arcNet_length, Fac.Obj.ncomp])
    (by simp [FileIO.ofFac, arcCurve, curveOf])
    (by
      intro j hj
      rw [hnf] at hj
      rw [hget j 2 hj (by omega), (netComp_arc r cd sd n j hj).2.2]
      unfold arcW; split <;> [exact hcd; exact one_pos])
    htol hus (fun _ => hne)
  refine ⟨res, h1, h2, ?_⟩
  intro i hi
  obtain ⟨hpos, hq⟩ := h4 i hi
  set u := us.getD i 0 with hu
  have hadm := hus u (getD_mem_of_lt us hi 0)
  have hsum : ∀ c, c < 3 → (∑ j ∈ Finset.range b.numFunctions,
      b.specRow u j * (FileIO.ofFac (arcCurve r cd sd theta n)).cps.get (j * (2 + 1) + c))
      = splineVal (effSide b u true) b.kn 2 (2 * n + 1) (netComp (arcNet r cd sd n) c) u := by
    intro c hc
    rw [hnf]
    unfold splineVal
    apply Finset.sum_congr rfl
    intro j hj
    rw [Basis.specRow_nonperiodic (by simp [hb]), hget j c (Finset.mem_range.mp hj) hc, mul_comm]
    simp [hb]
  -- the effective side puts `u` into `[0, θ)` resp. `(0, θ]`
  have hstart : b.start = 0 := by
    unfold Basis.start; rw [hb]; simp only; rw [← hb, kn_arc theta n (3 - 1) (by omega)]; simp [arcKnotFn]
  have hstop : b.stop = theta := by
    unfold Basis.stop; rw [hsize, hb]; simp only; rw [← hb, kn_arc theta n (2 * n + 4 - 3) (by omega)]
    have : min n ((2 * n + 4 - 3 - 1) / 2) = n := by omega
    have hn' : (n : K) ≠ 0 := by exact_mod_cast (Nat.pos_iff_ne_zero.mp hn)
    unfold arcKnotFn; rw [this]; field_simp
  have hdom := hadm.2.1 (by simp [hb])
  rw [hstart, hstop] at hdom
  have hmem : (effSide b u true).mem 0 theta u := by
    unfold effSide
    rw [hstop]
    by_cases hut : u = theta
    · rw [if_pos hut, hut]; exact ⟨hθ, le_refl _⟩
    · rw [if_neg hut]; exact ⟨hdom.1, lt_of_le_of_ne hdom.2 hut⟩
  obtain ⟨hW, _, hcirc⟩ := C13_eval_arc r cd sd theta n hn hθ hd hcd (effSide b u true) u hmem
  rw [hq 0 (by omega), hq 1 (by omega), hsum 0 (by omega), hsum 1 (by omega), hsum 2 (by omega)]
  exact hcirc

/-- **Three-point arc: the branch decision of the code.**
`threePointDataWith true tol x0 x1 x2` is what `circle_segment_from_three_points` computes before
calling `circle_segment` (`true`: the branch test is `not (np.dot(w2, normal) < 0)`, `keepDot` — the code
in the tree; the driver op `f_three_dot` runs `threePointsWith true`).  If it returns `d`:
the centre is the circumcentre (`|v0| = |v2|`, `v0, v2 ⟂ w2`), and with `trip = (v0 × v2)·w2`
(non-negative exactly when the short arc from `x0` to `x2` is the one through `x1`)
`d.keep ↔ 0 ≤ trip` — unconditionally, at every scale.  By `C13_three_points_end` this yields the sign
hypothesis of `C13_three_points_geometry`, part 2: the arc ends at `x2`.
*Remark (the earlier form of the code):* for the component-wise comparison
`all(sign(i)==sign(j) or abs(i-j) < tol)` (`threePointDataWith false`, `sameSigns`) the equivalence
`keep ↔ 0 < trip` holds only if some component of `w2` has magnitude `≥ tol` (`sameSigns_cross_iff`,
Lemmas/C13Three.lean); without that guard it is false — the small-radius defect repaired in /repo. -/
theorem C13_three_points_branch (tol a1 a2 a3 b1 b2 b3 c1 c2 c3 : K) (d : ThreePt K)
    (hd : threePointDataWith true tol [a1, a2, a3] [b1, b2, b3] [c1, c2, c3] = .ok d) :
    ∃ x y z w1 w2 w3 : K,
      d.center = [x, y, z] ∧ d.v0 = [a1 - x, a2 - y, a3 - z] ∧ d.v2 = [c1 - x, c2 - y, c3 - z] ∧
      d.w2 = [w1, w2, w3] ∧
      (a1 - x) ^ 2 + (a2 - y) ^ 2 + (a3 - z) ^ 2 = (c1 - x) ^ 2 + (c2 - y) ^ 2 + (c3 - z) ^ 2 ∧
      (a1 - x) * w1 + (a2 - y) * w2 + (a3 - z) * w3 = 0 ∧
      (c1 - x) * w1 + (c2 - y) * w2 + (c3 - z) * w3 = 0 ∧
      (d.keep = true ↔ 0 ≤ dot3 (cross3 d.v0 d.v2) d.w2) := by
  obtain ⟨x, y, z, hc, e1, e2, e3, e4, e5⟩ :=
    threePointDataWith_ok true tol a1 a2 a3 b1 b2 b3 c1 c2 c3 d hd
  obtain ⟨hcen, _, _, _⟩ := C13_three_points_geometry (K := K)
  obtain ⟨_, q2, q3⟩ := hcen a1 a2 a3 b1 b2 b3 c1 c2 c3 x y z hc
  simp only [cross3] at e4
  simp only [sub3, cross3, List.zipWith, dot3, List.sum_cons, List.sum_nil] at q3
  refine ⟨x, y, z, (a2 - c2) * (b3 - c3) - (a3 - c3) * (b2 - c2), (a3 - c3) * (b1 - c1) - (a1 - c1) * (b3 - c3),
    (a1 - c1) * (b2 - c2) - (a2 - c2) * (b1 - c1), e1, e2, e3, e4, q2, ?_, ?_, ?_⟩
  · linear_combination -q3
  · linear_combination -q3
  · rw [e5]
    simp only [if_true]
    rw [keepDot_iff, e2, e3, e4]
    simp [dot3, cross3]
    constructor <;> intro h <;> linarith

/-- end point of the arc with the sign of `sin θ` chosen by the branch flag. -/
theorem C13_three_points_end (a1 a2 a3 b1 b2 b3 n1 n2 n3 ρ2 L c σ : K) (keep : Bool)
    (h0 : a1 * n1 + a2 * n2 + a3 * n3 = 0) (h2 : b1 * n1 + b2 * n2 + b3 * n3 = 0)
    (ha : ρ2 = a1 ^ 2 + a2 ^ 2 + a3 ^ 2) (hb : ρ2 = b1 ^ 2 + b2 ^ 2 + b3 ^ 2) (hρ : 0 < ρ2)
    (hL : L ^ 2 = n1 ^ 2 + n2 ^ 2 + n3 ^ 2) (hLpos : 0 < L)
    (hc : c * ρ2 = a1 * b1 + a2 * b2 + a3 * b3) (hσ0 : 0 ≤ σ) (hσ : σ ^ 2 = 1 - c ^ 2)
    (hk1 : keep = true → 0 ≤ (a2 * b3 - a3 * b2) * n1 + (a3 * b1 - a1 * b3) * n2 + (a1 * b2 - a2 * b1) * n3)
    (hk2 : keep = false → (a2 * b3 - a3 * b2) * n1 + (a3 * b1 - a1 * b3) * n2 + (a1 * b2 - a2 * b1) * n3 ≤ 0) :
    let s := if keep then σ else -σ
    c * a1 + s * ((n2 * a3 - n3 * a2) / L) = b1 ∧
    c * a2 + s * ((n3 * a1 - n1 * a3) / L) = b2 ∧
    c * a3 + s * ((n1 * a2 - n2 * a1) / L) = b3 := by
  intro s
  obtain ⟨_, hend, _, _⟩ := C13_three_points_geometry (K := K)
  set trip := (a2 * b3 - a3 * b2) * n1 + (a3 * b1 - a1 * b3) * n2 + (a1 * b2 - a2 * b1) * n3 with htrip
  have hs2 : s ^ 2 = 1 - c ^ 2 := by
    simp only [s]; split <;> [exact hσ; (rw [neg_sq]; exact hσ)]
  -- Lagrange: trip² = (σ ρ² L)²
  have hsq : (σ * ρ2 * L) ^ 2 = trip ^ 2 := by
    have lag := triple_sq a1 a2 a3 b1 b2 b3 n1 n2 n3 h0 h2
    rw [← htrip] at lag
    rw [lag, ← hL]
    have cross_sq : (a2 * b3 - a3 * b2) ^ 2 + (a3 * b1 - a1 * b3) ^ 2 + (a1 * b2 - a2 * b1) ^ 2
        = ρ2 * ρ2 - (c * ρ2) ^ 2 := by
      rw [hc]; nth_rewrite 1 [ha]; rw [hb]; ring
    rw [cross_sq]
    linear_combination (ρ2 ^ 2 * L ^ 2) * hσ
  have hpos : 0 < ρ2 * L := mul_pos hρ hLpos
  have hsign : 0 ≤ s ↔ 0 ≤ trip := by
    cases hk : keep
    · have ht := hk2 hk
      have hs : s = -σ := by simp [s, hk]
      rw [hs]
      constructor
      · intro h
        have hσz : σ = 0 := le_antisymm (by linarith) hσ0
        rw [hσz] at hsq
        have : trip ^ 2 = 0 := by rw [← hsq]; ring
        have : trip = 0 := pow_eq_zero_iff (two_ne_zero) |>.mp this
        linarith
      · intro h
        have htz : trip = 0 := le_antisymm ht h
        rw [htz] at hsq
        have h3 : σ * ρ2 * L = 0 := pow_eq_zero_iff (two_ne_zero) |>.mp (by rw [hsq]; ring)
        have h4 : σ * (ρ2 * L) = 0 := by rw [← h3]; ring
        have : σ = 0 := by
          rcases mul_eq_zero.mp h4 with h5 | h5
          · exact h5
          · exact absurd h5 (ne_of_gt hpos)
        rw [this]; simp
    · have ht := hk1 hk
      have hs : s = σ := by simp [s, hk]
      rw [hs]
      exact ⟨fun _ => ht, fun _ => hσ0⟩
  exact hend a1 a2 a3 b1 b2 b3 n1 n2 n3 ρ2 L c s h0 h2 ha hb hρ hL hLpos hc hs2 hsign

/-! ## the factory functions themselves: `Fac.<factory> … = .ok o` and every evaluated point of `o` -/

/-- **`place` of a planar rational curve, at every parameter.** -/
theorem C13_place_eval (k : Consts K) (o0 : Fac.Obj K) (hdim : o0.dim = 2) (hrat : o0.rational = true)
    (hm : 0 < o0.cps.length) (h3 : Is3 o0.cps o0.cps.length)
    (c1 c2 c3 nx ny nz x y z ρ N lam ct st cp sp : K)
    (hn : allcloseEz [nx, ny, nz] = false) (hc : allcloseZero [c1, c2, c3] = false)
    (hρ : ρ ^ 2 = nx ^ 2 + ny ^ 2) (hNN : N ^ 2 = ρ ^ 2 + nz ^ 2) (hNpos : 0 < N)
    (hθ : ρ ≠ 0 → ct * ρ = nx ∧ st * ρ = ny) (hθ1 : ct ^ 2 + st ^ 2 = 1)
    (hcp : cp * N = nz) (hsp : sp * N = ρ)
    (horth : x * nx + y * ny + z * nz = 0) (hlam : 0 < lam)
    (hl2 : lam ^ 2 = ((localXVec [x, y, z] ⟨ct, st, cp, sp⟩).getD 0 0) ^ 2
                + ((localXVec [x, y, z] ⟨ct, st, cp, sp⟩).getD 1 0) ^ 2) :
    ∃ o : Fac.Obj K,
      place o0 [c1, c2, c3] [nx, ny, nz] [x, y, z] ⟨ct, st, cp, sp⟩ lam = .ok o ∧
      o.bases = o0.bases ∧ o.rational = true ∧ o.dim = 3 ∧ o.cps.length = o0.cps.length ∧ All4 o.cps ∧
      ∀ (s : Side) (τ : ℕ → K) (q n : ℕ) (t : K),
        let X := splineVal s τ q n (netComp o0.cps 0) t
        let Y := splineVal s τ q n (netComp o0.cps 1) t
        let W := splineVal s τ q n (netComp o0.cps 2) t
        let xh := splineVal s τ q n (netComp o.cps 0) t
        let yh := splineVal s τ q n (netComp o.cps 1) t
        let zh := splineVal s τ q n (netComp o.cps 2) t
        let wh := splineVal s τ q n (netComp o.cps 3) t
        let ca := (rotateLocalXAxis [x, y, z] ⟨ct, st, cp, sp⟩ lam).1
        let sa := (rotateLocalXAxis [x, y, z] ⟨ct, st, cp, sp⟩ lam).2
        let ex : K × K × K := (ca * cp * ct - sa * st, ca * cp * st + sa * ct, -(ca * sp))
        let ey : K × K × K := (-(sa * cp * ct) - ca * st, -(sa * cp * st) + ca * ct, sa * sp)
        wh = W ∧
        (∀ r : K, X ^ 2 + Y ^ 2 = r ^ 2 * W ^ 2 → W ≠ 0 →
          (xh / wh - c1) ^ 2 + (yh / wh - c2) ^ 2 + (zh / wh - c3) ^ 2 = r ^ 2 ∧
          (xh / wh - c1) * nx + (yh / wh - c2) * ny + (zh / wh - c3) * nz = 0) ∧
        (∀ r1 r2 : K, (X / r1) ^ 2 + (Y / r2) ^ 2 = W ^ 2 → W ≠ 0 → r1 ≠ 0 → r2 ≠ 0 →
          (((xh / wh - c1) * ex.1 + (yh / wh - c2) * ex.2.1 + (zh / wh - c3) * ex.2.2) / r1) ^ 2
          + (((xh / wh - c1) * ey.1 + (yh / wh - c2) * ey.2.1 + (zh / wh - c3) * ey.2.2) / r2) ^ 2 = 1 ∧
          (xh / wh - c1) * nx + (yh / wh - c2) * ny + (zh / wh - c3) * nz = 0) ∧
        -- the evaluated homogeneous point itself, and what the two axes are
        (xh = X * ex.1 + Y * ey.1 + c1 * W ∧ yh = X * ex.2.1 + Y * ey.2.1 + c2 * W ∧
          zh = X * ex.2.2 + Y * ey.2.2 + c3 * W) ∧
        ex = (x / lam, y / lam, z / lam) ∧
        ey = ((ny / N) * (z / lam) - (nz / N) * (y / lam), (nz / N) * (x / lam) - (nx / N) * (z / lam),
              (nx / N) * (y / lam) - (ny / N) * (x / lam)) := by
  obtain ⟨_, _, hplace⟩ := C13_model_nets k [c1, c2, c3] [nx, ny, nz] [x, y, z] ⟨ct, st, cp, sp⟩ lam
  obtain ⟨_, _, hunit⟩ := (C13_placement nx ny nz ρ N ct st cp sp hρ hNN hNpos hθ hθ1 hcp hsp).2.2 x y z lam horth hlam hl2
  have hpl := hplace o0 hdim hn hc rfl
  refine ⟨{ o0 with dim := 3, cps := o0.cps.map (placePt (rotateLocalXAxis [x, y, z] ⟨ct, st, cp, sp⟩ lam).1
      (rotateLocalXAxis [x, y, z] ⟨ct, st, cp, sp⟩ lam).2 ct st cp sp [c1, c2, c3]) },
    by rw [hpl, hrat]; rfl, rfl, hrat, rfl, by simp, all4_map_placePt o0.cps h3 _ _ _ _ _ _ _ _ _, ?_⟩
  intro s τ q n t X Y W xh yh zh wh ca sa ex ey
  have hev := C13_eval_placed_curve o0.cps o0.cps.length (wrapW s τ q n o0.cps.length t) h3
    nx ny nz ρ N ct st cp sp ca sa c1 c2 c3 hρ hNN hNpos hθ hθ1 hcp hsp hunit
  simp only at hev
  have hl : (o0.cps.map (placePt ca sa ct st cp sp [c1, c2, c3])).length = o0.cps.length := by simp
  have e : ∀ c, splineVal s τ q n (netComp (o0.cps.map (placePt ca sa ct st cp sp [c1, c2, c3])) c) t
      = wS o0.cps.length (wrapW s τ q n o0.cps.length t) (comp (o0.cps.map (placePt ca sa ct st cp sp [c1, c2, c3])) c) := by
    intro c
    have := splineVal_netComp_eq_wS s τ q n (o0.cps.map (placePt ca sa ct st cp sp [c1, c2, c3])) c t (by rw [hl]; exact hm)
    rw [hl] at this; exact this
  rw [← e 0, ← e 1, ← e 2, ← e 3, ← splineVal_netComp_eq_wS s τ q n o0.cps 0 t hm,
    ← splineVal_netComp_eq_wS s τ q n o0.cps 1 t hm, ← splineVal_netComp_eq_wS s τ q n o0.cps 2 t hm] at hev
  obtain ⟨hw, hx1, hx2, hx3, _, hcirc, hell⟩ := hev
  refine ⟨hw, hcirc, hell, ⟨hx1, hx2, hx3⟩, ?_, ?_⟩
  · obtain ⟨he, _, _⟩ := (C13_placement nx ny nz ρ N ct st cp sp hρ hNN hNpos hθ hθ1 hcp hsp).2.2 x y z lam horth hlam hl2
    simp only [rotYPt_cons, rotZPt_cons, List.cons.injEq, and_true] at he
    obtain ⟨a1, a2, a3⟩ := he
    simp only [ex, Prod.mk.injEq]
    refine ⟨by rw [← a1]; ring, by rw [← a2]; ring, by rw [← a3]; ring⟩
  · have he := (C13_placed_points nx ny nz ρ N ct st cp sp ca sa c1 c2 c3 hρ hNN hNpos hθ hθ1 hcp hsp hunit).2.2.2.2
      x y z lam horth hlam hl2
    simp only [rotYPt_cons, rotZPt_cons, List.cons.injEq, and_true] at he
    obtain ⟨a1, a2, a3⟩ := he
    simp only [ey, Prod.mk.injEq]
    refine ⟨by rw [← a1]; ring, by rw [← a2]; ring, by rw [← a3]; ring⟩

/-- **`circle(r, center, normal, type, xaxis)` — the function the driver runs — at every parameter**
(both parametrisation types; partial).  Under the relations of `C13_placement` for the supplied
`(cos, sin)` data and norm `lam`, `r > 0`, `π > 0`, `w² = 1/2` resp. `s2² = 2`: the model function
returns an object `o` with the factory's periodic basis, rational, 3D, and for *every* parameter
`t` of the domain (either side) the evaluated point `p(t) = (xh, yh, zh)/wh` of `o` (B-spline sum over
`o`'s own control net and knot vector, weights wrapped) has `wh > 0`, `‖p − c‖² = r²`, `(p − c)·n = 0`.
*Missing (hence `_partial`):* the branches of `flip_and_move_plane_geometry` that skip the rotation
(`normal ≈ e_z`) or the translation (`center ≈ 0`, or a 2-component centre) — there the object stays
2D / unrotated and the statement needs the corresponding simpler placement; the start point and
orientation are stated for the nets (`C13_placed_points` parts 4–5), not re-derived from `o` here. -/
theorem C13_factory_circle_p2C0_partial (k : Consts K) (r c1 c2 c3 nx ny nz x y z ρ N lam ct st cp sp : K)
    (hpi : 0 < k.pi) (hw2 : k.w ^ 2 = 1 / 2) (hw0 : 0 < k.w) (hr : 0 < r)
    (hn : allcloseEz [nx, ny, nz] = false) (hc : allcloseZero [c1, c2, c3] = false)
    (hρ : ρ ^ 2 = nx ^ 2 + ny ^ 2) (hNN : N ^ 2 = ρ ^ 2 + nz ^ 2) (hNpos : 0 < N)
    (hθ : ρ ≠ 0 → ct * ρ = nx ∧ st * ρ = ny) (hθ1 : ct ^ 2 + st ^ 2 = 1)
    (hcp : cp * N = nz) (hsp : sp * N = ρ)
    (horth : x * nx + y * ny + z * nz = 0) (hlam : 0 < lam)
    (hl2 : lam ^ 2 = ((localXVec [x, y, z] ⟨ct, st, cp, sp⟩).getD 0 0) ^ 2
                + ((localXVec [x, y, z] ⟨ct, st, cp, sp⟩).getD 1 0) ^ 2) :
    ∃ o : Fac.Obj K,
      circle k r [c1, c2, c3] [nx, ny, nz] "p2C0" [x, y, z] ⟨ct, st, cp, sp⟩ lam = .ok o ∧
      o.bases = [{ order := 3, knots := (circleKnotsP2 k.pi).toArray, periodic := 0 }] ∧ o.rational = true ∧ o.dim = 3 ∧ o.cps.length = 8 ∧ All4 o.cps ∧
      (∀ (s : Side) (t : K), s.mem 0 (2 * k.pi) t →
        let τ := ({ order := 3, knots := (circleKnotsP2 k.pi).toArray, periodic := 0 } : Basis K).kn
        let xh := splineVal s τ 2 9 (netComp o.cps 0) t
        let yh := splineVal s τ 2 9 (netComp o.cps 1) t
        let zh := splineVal s τ 2 9 (netComp o.cps 2) t
        let wh := splineVal s τ 2 9 (netComp o.cps 3) t
        0 < wh ∧
        (xh / wh - c1) ^ 2 + (yh / wh - c2) ^ 2 + (zh / wh - c3) ^ 2 = r ^ 2 ∧
        (xh / wh - c1) * nx + (yh / wh - c2) * ny + (zh / wh - c3) * nz = 0) ∧
      -- quarter points (start point `j = 0`, orientation: `e_y' = n̂ × e_x'`)
      (∀ j : ℕ, j < 4 →
        let τ := ({ order := 3, knots := (circleKnotsP2 k.pi).toArray, periodic := 0 } : Basis K).kn
        let xh := splineVal .right τ 2 9 (netComp o.cps 0) ((j : K) * (k.pi / 2))
        let yh := splineVal .right τ 2 9 (netComp o.cps 1) ((j : K) * (k.pi / 2))
        let zh := splineVal .right τ 2 9 (netComp o.cps 2) ((j : K) * (k.pi / 2))
        let wh := splineVal .right τ 2 9 (netComp o.cps 3) ((j : K) * (k.pi / 2))
        wh = 1 ∧
        xh = c1 + r * ((quarterDir j).1 * (x / lam) + (quarterDir j).2 * ((ny / N) * (z / lam) - (nz / N) * (y / lam))) ∧
        yh = c2 + r * ((quarterDir j).1 * (y / lam) + (quarterDir j).2 * ((nz / N) * (x / lam) - (nx / N) * (z / lam))) ∧
        zh = c3 + r * ((quarterDir j).1 * (z / lam) + (quarterDir j).2 * ((nx / N) * (y / lam) - (ny / N) * (x / lam)))) := by
  have hmodel : circle k r [c1, c2, c3] [nx, ny, nz] "p2C0" [x, y, z] ⟨ct, st, cp, sp⟩ lam
      = place ((curveOf { order := 3, knots := (circleKnotsP2 k.pi).toArray, periodic := 0 } (circleNetP2 k.w) true 2).scale [r]) [c1, c2, c3] [nx, ny, nz] [x, y, z] ⟨ct, st, cp, sp⟩ lam := by
    simp [circle, unitCircle, not_le.mpr hr, bind, Except.bind, pure, Except.pure]
  have h3 := is3_circleNetP2 k.w
  have hlen : 0 < (circleNetP2 k.w).length := by simp [circleNetP2]
  have hcps : ((curveOf { order := 3, knots := (circleKnotsP2 k.pi).toArray, periodic := 0 } (circleNetP2 k.w) true 2).scale [r]).cps = (circleNetP2 k.w).map (scalePt 2 (r :: r :: [r])) := by
    simp [Fac.Obj.scale, Fac.Obj.mapPts, curveOf, Fac.Obj.padScale]
  obtain ⟨o, ho, hb, hrat, hdim, hl, h4o, hev⟩ := C13_place_eval k ((curveOf { order := 3, knots := (circleKnotsP2 k.pi).toArray, periodic := 0 } (circleNetP2 k.w) true 2).scale [r]) rfl rfl
    (by rw [hcps]; simpa using hlen)
    (by rw [hcps]; simpa using (splineVal_scaled .right (fun _ => (0 : K)) 0 0 (circleNetP2 k.w) 0 r r [r] hlen h3).2.2.2)
    c1 c2 c3 nx ny nz x y z ρ N lam ct st cp sp hn hc hρ hNN hNpos hθ hθ1 hcp hsp horth hlam hl2
  refine ⟨o, by rw [hmodel, ho], hb, hrat, hdim, by rw [hl, hcps]; simp [circleNetP2], h4o, ?_, ?_⟩
  rotate_left
  · intro j hj τ xh yh zh wh
    obtain ⟨hw, _, _, ⟨hx1, hx2, hx3⟩, hex, hey⟩ := hev .right τ 2 9 ((j : K) * (k.pi / 2))
    simp only [hcps] at hw hx1 hx2 hx3
    obtain ⟨sx, sy, sw, _⟩ := splineVal_scaled .right τ 2 9 (circleNetP2 k.w) ((j : K) * (k.pi / 2)) r r [r] hlen h3
    obtain ⟨q0, q1, q2⟩ := (circle_quarter_points k.pi hpi j hj).1 k.w
    rw [sx, sy, sw, q0, q1, q2] at hx1 hx2 hx3
    rw [sw, q2] at hw
    simp only [Prod.mk.injEq] at hex hey
    obtain ⟨ex1, ex2, ex3⟩ := hex
    obtain ⟨ey1, ey2, ey3⟩ := hey
    rw [ex1, ey1] at hx1
    rw [ex2, ey2] at hx2
    rw [ex3, ey3] at hx3
    refine ⟨hw, ?_, ?_, ?_⟩
    · have e : xh = _ := hx1
      rw [e]; ring
    · have e : yh = _ := hx2
      rw [e]; ring
    · have e : zh = _ := hx3
      rw [e]; ring
  intro s t ht τ xh yh zh wh
  obtain ⟨hW, hcone, _⟩ := C13_eval_circle_p2C0 k.pi k.w hpi hw2 hw0 s t ht
  obtain ⟨hw, hcirc, _, _⟩ := hev s τ 2 9 t
  simp only [hcps] at hw hcirc
  obtain ⟨sx, sy, sw, _⟩ := splineVal_scaled s τ 2 9 (circleNetP2 k.w) t r r [r] hlen h3
  rw [sx, sy, sw] at hcirc
  rw [sw] at hw
  have hwpos : 0 < wh := by
    have : wh = _ := hw
    rw [this]; exact hW
  obtain ⟨q1, q2⟩ := hcirc r (by linear_combination r ^ 2 * hcone) (ne_of_gt hW)
  exact ⟨hwpos, q1, q2⟩

/-- `circle(type='p4C1')`: see `C13_factory_circle_p2C0_partial`. -/
theorem C13_factory_circle_p4C1_partial (k : Consts K) (r c1 c2 c3 nx ny nz x y z ρ N lam ct st cp sp : K)
    (hpi : 0 < k.pi) (h2 : k.s2 ^ 2 = 2) (hs0 : 0 < k.s2) (hr : 0 < r)
    (hn : allcloseEz [nx, ny, nz] = false) (hc : allcloseZero [c1, c2, c3] = false)
    (hρ : ρ ^ 2 = nx ^ 2 + ny ^ 2) (hNN : N ^ 2 = ρ ^ 2 + nz ^ 2) (hNpos : 0 < N)
    (hθ : ρ ≠ 0 → ct * ρ = nx ∧ st * ρ = ny) (hθ1 : ct ^ 2 + st ^ 2 = 1)
    (hcp : cp * N = nz) (hsp : sp * N = ρ)
    (horth : x * nx + y * ny + z * nz = 0) (hlam : 0 < lam)
    (hl2 : lam ^ 2 = ((localXVec [x, y, z] ⟨ct, st, cp, sp⟩).getD 0 0) ^ 2
                + ((localXVec [x, y, z] ⟨ct, st, cp, sp⟩).getD 1 0) ^ 2) :
    ∃ o : Fac.Obj K,
      circle k r [c1, c2, c3] [nx, ny, nz] "p4C1" [x, y, z] ⟨ct, st, cp, sp⟩ lam = .ok o ∧
      o.bases = [{ order := 5, knots := (circleKnotsP4 k.pi).toArray, periodic := 1 }] ∧ o.rational = true ∧ o.dim = 3 ∧ o.cps.length = 12 ∧
      (∀ (s : Side) (t : K), s.mem 0 (2 * k.pi) t →
        let τ := ({ order := 5, knots := (circleKnotsP4 k.pi).toArray, periodic := 1 } : Basis K).kn
        let xh := splineVal s τ 4 14 (netComp o.cps 0) t
        let yh := splineVal s τ 4 14 (netComp o.cps 1) t
        let zh := splineVal s τ 4 14 (netComp o.cps 2) t
        let wh := splineVal s τ 4 14 (netComp o.cps 3) t
        0 < wh ∧
        (xh / wh - c1) ^ 2 + (yh / wh - c2) ^ 2 + (zh / wh - c3) ^ 2 = r ^ 2 ∧
        (xh / wh - c1) * nx + (yh / wh - c2) * ny + (zh / wh - c3) * nz = 0) ∧
      -- quarter points (start point `j = 0`, orientation: `e_y' = n̂ × e_x'`)
      (∀ j : ℕ, j < 4 →
        let τ := ({ order := 5, knots := (circleKnotsP4 k.pi).toArray, periodic := 1 } : Basis K).kn
        let xh := splineVal .right τ 4 14 (netComp o.cps 0) ((j : K) * (k.pi / 2))
        let yh := splineVal .right τ 4 14 (netComp o.cps 1) ((j : K) * (k.pi / 2))
        let zh := splineVal .right τ 4 14 (netComp o.cps 2) ((j : K) * (k.pi / 2))
        let wh := splineVal .right τ 4 14 (netComp o.cps 3) ((j : K) * (k.pi / 2))
        wh = 1 ∧
        xh = c1 + r * ((quarterDir j).1 * (x / lam) + (quarterDir j).2 * ((ny / N) * (z / lam) - (nz / N) * (y / lam))) ∧
        yh = c2 + r * ((quarterDir j).1 * (y / lam) + (quarterDir j).2 * ((nz / N) * (x / lam) - (nx / N) * (z / lam))) ∧
        zh = c3 + r * ((quarterDir j).1 * (z / lam) + (quarterDir j).2 * ((nx / N) * (y / lam) - (ny / N) * (x / lam)))) := by
  have hmodel : circle k r [c1, c2, c3] [nx, ny, nz] "p4C1" [x, y, z] ⟨ct, st, cp, sp⟩ lam
      = place ((curveOf { order := 5, knots := (circleKnotsP4 k.pi).toArray, periodic := 1 } (circleNetP4 k.s2) true 2).scale [r]) [c1, c2, c3] [nx, ny, nz] [x, y, z] ⟨ct, st, cp, sp⟩ lam := by
    simp [circle, unitCircle, not_le.mpr hr, bind, Except.bind, pure, Except.pure]
  have h3 := is3_circleNetP4 k.s2
  have hlen : 0 < (circleNetP4 k.s2).length := by simp [circleNetP4]
  have hcps : ((curveOf { order := 5, knots := (circleKnotsP4 k.pi).toArray, periodic := 1 } (circleNetP4 k.s2) true 2).scale [r]).cps = (circleNetP4 k.s2).map (scalePt 2 (r :: r :: [r])) := by
    simp [Fac.Obj.scale, Fac.Obj.mapPts, curveOf, Fac.Obj.padScale]
  obtain ⟨o, ho, hb, hrat, hdim, hl, h4o, hev⟩ := C13_place_eval k ((curveOf { order := 5, knots := (circleKnotsP4 k.pi).toArray, periodic := 1 } (circleNetP4 k.s2) true 2).scale [r]) rfl rfl
    (by rw [hcps]; simpa using hlen)
    (by rw [hcps]; simpa using (splineVal_scaled .right (fun _ => (0 : K)) 0 0 (circleNetP4 k.s2) 0 r r [r] hlen h3).2.2.2)
    c1 c2 c3 nx ny nz x y z ρ N lam ct st cp sp hn hc hρ hNN hNpos hθ hθ1 hcp hsp horth hlam hl2
  refine ⟨o, by rw [hmodel, ho], hb, hrat, hdim, by rw [hl, hcps]; simp [circleNetP4], ?_, ?_⟩
  rotate_left
  · intro j hj τ xh yh zh wh
    obtain ⟨hw, _, _, ⟨hx1, hx2, hx3⟩, hex, hey⟩ := hev .right τ 4 14 ((j : K) * (k.pi / 2))
    simp only [hcps] at hw hx1 hx2 hx3
    obtain ⟨sx, sy, sw, _⟩ := splineVal_scaled .right τ 4 14 (circleNetP4 k.s2) ((j : K) * (k.pi / 2)) r r [r] hlen h3
    obtain ⟨q0, q1, q2⟩ := (circle_quarter_points k.pi hpi j hj).2 k.s2
    rw [sx, sy, sw, q0, q1, q2] at hx1 hx2 hx3
    rw [sw, q2] at hw
    simp only [Prod.mk.injEq] at hex hey
    obtain ⟨ex1, ex2, ex3⟩ := hex
    obtain ⟨ey1, ey2, ey3⟩ := hey
    rw [ex1, ey1] at hx1
    rw [ex2, ey2] at hx2
    rw [ex3, ey3] at hx3
    refine ⟨hw, ?_, ?_, ?_⟩
    · have e : xh = _ := hx1
      rw [e]; ring
    · have e : yh = _ := hx2
      rw [e]; ring
    · have e : zh = _ := hx3
      rw [e]; ring
  intro s t ht τ xh yh zh wh
  obtain ⟨hW, hcone, _⟩ := C13_eval_circle_p4C1 k.pi k.s2 hpi h2 hs0 s t ht
  obtain ⟨hw, hcirc, _, _⟩ := hev s τ 4 14 t
  simp only [hcps] at hw hcirc
  obtain ⟨sx, sy, sw, _⟩ := splineVal_scaled s τ 4 14 (circleNetP4 k.s2) t r r [r] hlen h3
  rw [sx, sy, sw] at hcirc
  rw [sw] at hw
  have hwpos : 0 < wh := by
    have : wh = _ := hw
    rw [this]; exact hW
  obtain ⟨q1, q2⟩ := hcirc r (by linear_combination r ^ 2 * hcone) (ne_of_gt hW)
  exact ⟨hwpos, q1, q2⟩


/-- **`ellipse(r1, r2, center, normal, type, xaxis)` at every parameter** (partial, same guards as
`C13_factory_circle_p2C0_partial`): the evaluated point satisfies the ellipse equation in the frame
`(e_x', e_y')` = images of `e_x, e_y` under the placement rotation (orthonormal, ⟂ n, `e_x' = xaxis/‖xaxis‖`)
and lies in the plane through the centre. -/
theorem C13_factory_ellipse_p2C0_partial (k : Consts K) (r1 r2 c1 c2 c3 nx ny nz x y z ρ N lam ct st cp sp : K)
    (hpi : 0 < k.pi) (hw2 : k.w ^ 2 = 1 / 2) (hw0 : 0 < k.w) (hr1 : r1 ≠ 0) (hr2 : r2 ≠ 0)
    (hn : allcloseEz [nx, ny, nz] = false) (hc : allcloseZero [c1, c2, c3] = false)
    (hρ : ρ ^ 2 = nx ^ 2 + ny ^ 2) (hNN : N ^ 2 = ρ ^ 2 + nz ^ 2) (hNpos : 0 < N)
    (hθ : ρ ≠ 0 → ct * ρ = nx ∧ st * ρ = ny) (hθ1 : ct ^ 2 + st ^ 2 = 1)
    (hcp : cp * N = nz) (hsp : sp * N = ρ)
    (horth : x * nx + y * ny + z * nz = 0) (hlam : 0 < lam)
    (hl2 : lam ^ 2 = ((localXVec [x, y, z] ⟨ct, st, cp, sp⟩).getD 0 0) ^ 2
                + ((localXVec [x, y, z] ⟨ct, st, cp, sp⟩).getD 1 0) ^ 2) :
    ∃ o : Fac.Obj K,
      ellipse k r1 r2 [c1, c2, c3] [nx, ny, nz] "p2C0" [x, y, z] ⟨ct, st, cp, sp⟩ lam = .ok o ∧
      o.bases = [{ order := 3, knots := (circleKnotsP2 k.pi).toArray, periodic := 0 }] ∧ o.rational = true ∧ o.dim = 3 ∧ o.cps.length = 8 ∧
      ∀ (s : Side) (t : K), s.mem 0 (2 * k.pi) t →
        let τ := ({ order := 3, knots := (circleKnotsP2 k.pi).toArray, periodic := 0 } : Basis K).kn
        let xh := splineVal s τ 2 9 (netComp o.cps 0) t
        let yh := splineVal s τ 2 9 (netComp o.cps 1) t
        let zh := splineVal s τ 2 9 (netComp o.cps 2) t
        let wh := splineVal s τ 2 9 (netComp o.cps 3) t
        let ca := (rotateLocalXAxis [x, y, z] ⟨ct, st, cp, sp⟩ lam).1
        let sa := (rotateLocalXAxis [x, y, z] ⟨ct, st, cp, sp⟩ lam).2
        -- images of `e_x`, `e_y` under the placement rotation (`e_x ↦ xaxis/‖xaxis‖`, `C13_placed_points`)
        let ex : K × K × K := (ca * cp * ct - sa * st, ca * cp * st + sa * ct, -(ca * sp))
        let ey : K × K × K := (-(sa * cp * ct) - ca * st, -(sa * cp * st) + ca * ct, sa * sp)
        0 < wh ∧
        (((xh / wh - c1) * ex.1 + (yh / wh - c2) * ex.2.1 + (zh / wh - c3) * ex.2.2) / r1) ^ 2
          + (((xh / wh - c1) * ey.1 + (yh / wh - c2) * ey.2.1 + (zh / wh - c3) * ey.2.2) / r2) ^ 2 = 1 ∧
        (xh / wh - c1) * nx + (yh / wh - c2) * ny + (zh / wh - c3) * nz = 0 := by
  have hmodel : ellipse k r1 r2 [c1, c2, c3] [nx, ny, nz] "p2C0" [x, y, z] ⟨ct, st, cp, sp⟩ lam
      = place ((curveOf { order := 3, knots := (circleKnotsP2 k.pi).toArray, periodic := 0 } (circleNetP2 k.w) true 2).scale [r1, r2, 1]) [c1, c2, c3] [nx, ny, nz] [x, y, z] ⟨ct, st, cp, sp⟩ lam := by
    simp [ellipse, circleDefault_p2C0_eq k, bind, Except.bind]
  have h3 := is3_circleNetP2 k.w
  have hlen : 0 < (circleNetP2 k.w).length := by simp [circleNetP2]
  have hcps : ((curveOf { order := 3, knots := (circleKnotsP2 k.pi).toArray, periodic := 0 } (circleNetP2 k.w) true 2).scale [r1, r2, 1]).cps = (circleNetP2 k.w).map (scalePt 2 (r1 :: r2 :: [1])) := by
    simp [Fac.Obj.scale, Fac.Obj.mapPts, curveOf, Fac.Obj.padScale]
  obtain ⟨o, ho, hb, hrat, hdim, hl, h4o, hev⟩ := C13_place_eval k ((curveOf { order := 3, knots := (circleKnotsP2 k.pi).toArray, periodic := 0 } (circleNetP2 k.w) true 2).scale [r1, r2, 1]) rfl rfl
    (by rw [hcps]; simpa using hlen)
    (by rw [hcps]; simpa using (splineVal_scaled .right (fun _ => (0 : K)) 0 0 (circleNetP2 k.w) 0 r1 r2 [1] hlen h3).2.2.2)
    c1 c2 c3 nx ny nz x y z ρ N lam ct st cp sp hn hc hρ hNN hNpos hθ hθ1 hcp hsp horth hlam hl2
  refine ⟨o, by rw [hmodel, ho], hb, hrat, hdim, by rw [hl, hcps]; simp [circleNetP2], ?_⟩
  intro s t ht τ xh yh zh wh ca sa ex ey
  obtain ⟨hW, hcone, _⟩ := C13_eval_circle_p2C0 k.pi k.w hpi hw2 hw0 s t ht
  obtain ⟨hw, _, hell, _⟩ := hev s τ 2 9 t
  simp only [hcps] at hw hell
  obtain ⟨sx, sy, sw, _⟩ := splineVal_scaled s τ 2 9 (circleNetP2 k.w) t r1 r2 [1] hlen h3
  rw [sx, sy, sw] at hell
  rw [sw] at hw
  have hwpos : 0 < wh := by
    have : wh = _ := hw
    rw [this]; exact hW
  obtain ⟨q1, q2⟩ := hell r1 r2 (by field_simp; linear_combination hcone) (ne_of_gt hW) hr1 hr2
  exact ⟨hwpos, q1, q2⟩

/-- `ellipse(type='p4C1')`. -/
theorem C13_factory_ellipse_p4C1_partial (k : Consts K) (r1 r2 c1 c2 c3 nx ny nz x y z ρ N lam ct st cp sp : K)
    (hpi : 0 < k.pi) (h2 : k.s2 ^ 2 = 2) (hs0 : 0 < k.s2) (hr1 : r1 ≠ 0) (hr2 : r2 ≠ 0)
    (hn : allcloseEz [nx, ny, nz] = false) (hc : allcloseZero [c1, c2, c3] = false)
    (hρ : ρ ^ 2 = nx ^ 2 + ny ^ 2) (hNN : N ^ 2 = ρ ^ 2 + nz ^ 2) (hNpos : 0 < N)
    (hθ : ρ ≠ 0 → ct * ρ = nx ∧ st * ρ = ny) (hθ1 : ct ^ 2 + st ^ 2 = 1)
    (hcp : cp * N = nz) (hsp : sp * N = ρ)
    (horth : x * nx + y * ny + z * nz = 0) (hlam : 0 < lam)
    (hl2 : lam ^ 2 = ((localXVec [x, y, z] ⟨ct, st, cp, sp⟩).getD 0 0) ^ 2
                + ((localXVec [x, y, z] ⟨ct, st, cp, sp⟩).getD 1 0) ^ 2) :
    ∃ o : Fac.Obj K,
      ellipse k r1 r2 [c1, c2, c3] [nx, ny, nz] "p4C1" [x, y, z] ⟨ct, st, cp, sp⟩ lam = .ok o ∧
      o.bases = [{ order := 5, knots := (circleKnotsP4 k.pi).toArray, periodic := 1 }] ∧ o.rational = true ∧ o.dim = 3 ∧ o.cps.length = 12 ∧
      ∀ (s : Side) (t : K), s.mem 0 (2 * k.pi) t →
        let τ := ({ order := 5, knots := (circleKnotsP4 k.pi).toArray, periodic := 1 } : Basis K).kn
        let xh := splineVal s τ 4 14 (netComp o.cps 0) t
        let yh := splineVal s τ 4 14 (netComp o.cps 1) t
        let zh := splineVal s τ 4 14 (netComp o.cps 2) t
        let wh := splineVal s τ 4 14 (netComp o.cps 3) t
        let ca := (rotateLocalXAxis [x, y, z] ⟨ct, st, cp, sp⟩ lam).1
        let sa := (rotateLocalXAxis [x, y, z] ⟨ct, st, cp, sp⟩ lam).2
        -- images of `e_x`, `e_y` under the placement rotation (`e_x ↦ xaxis/‖xaxis‖`, `C13_placed_points`)
        let ex : K × K × K := (ca * cp * ct - sa * st, ca * cp * st + sa * ct, -(ca * sp))
        let ey : K × K × K := (-(sa * cp * ct) - ca * st, -(sa * cp * st) + ca * ct, sa * sp)
        0 < wh ∧
        (((xh / wh - c1) * ex.1 + (yh / wh - c2) * ex.2.1 + (zh / wh - c3) * ex.2.2) / r1) ^ 2
          + (((xh / wh - c1) * ey.1 + (yh / wh - c2) * ey.2.1 + (zh / wh - c3) * ey.2.2) / r2) ^ 2 = 1 ∧
        (xh / wh - c1) * nx + (yh / wh - c2) * ny + (zh / wh - c3) * nz = 0 := by
  have hmodel : ellipse k r1 r2 [c1, c2, c3] [nx, ny, nz] "p4C1" [x, y, z] ⟨ct, st, cp, sp⟩ lam
      = place ((curveOf { order := 5, knots := (circleKnotsP4 k.pi).toArray, periodic := 1 } (circleNetP4 k.s2) true 2).scale [r1, r2, 1]) [c1, c2, c3] [nx, ny, nz] [x, y, z] ⟨ct, st, cp, sp⟩ lam := by
    simp [ellipse, circleDefault_p4C1_eq k, bind, Except.bind]
  have h3 := is3_circleNetP4 k.s2
  have hlen : 0 < (circleNetP4 k.s2).length := by simp [circleNetP4]
  have hcps : ((curveOf { order := 5, knots := (circleKnotsP4 k.pi).toArray, periodic := 1 } (circleNetP4 k.s2) true 2).scale [r1, r2, 1]).cps = (circleNetP4 k.s2).map (scalePt 2 (r1 :: r2 :: [1])) := by
    simp [Fac.Obj.scale, Fac.Obj.mapPts, curveOf, Fac.Obj.padScale]
  obtain ⟨o, ho, hb, hrat, hdim, hl, h4o, hev⟩ := C13_place_eval k ((curveOf { order := 5, knots := (circleKnotsP4 k.pi).toArray, periodic := 1 } (circleNetP4 k.s2) true 2).scale [r1, r2, 1]) rfl rfl
    (by rw [hcps]; simpa using hlen)
    (by rw [hcps]; simpa using (splineVal_scaled .right (fun _ => (0 : K)) 0 0 (circleNetP4 k.s2) 0 r1 r2 [1] hlen h3).2.2.2)
    c1 c2 c3 nx ny nz x y z ρ N lam ct st cp sp hn hc hρ hNN hNpos hθ hθ1 hcp hsp horth hlam hl2
  refine ⟨o, by rw [hmodel, ho], hb, hrat, hdim, by rw [hl, hcps]; simp [circleNetP4], ?_⟩
  intro s t ht τ xh yh zh wh ca sa ex ey
  obtain ⟨hW, hcone, _⟩ := C13_eval_circle_p4C1 k.pi k.s2 hpi h2 hs0 s t ht
  obtain ⟨hw, _, hell, _⟩ := hev s τ 4 14 t
  simp only [hcps] at hw hell
  obtain ⟨sx, sy, sw, _⟩ := splineVal_scaled s τ 4 14 (circleNetP4 k.s2) t r1 r2 [1] hlen h3
  rw [sx, sy, sw] at hell
  rw [sw] at hw
  have hwpos : 0 < wh := by
    have : wh = _ := hw
    rw [this]; exact hW
  obtain ⟨q1, q2⟩ := hell r1 r2 (by field_simp; linear_combination hcone) (ne_of_gt hW) hr1 hr2
  exact ⟨hwpos, q1, q2⟩


/-- **`circle_segment(θ, r, center, normal, xaxis)` at every parameter** (partial): for `0 < θ < 2π`
(`θ = 2π` is `circle`, `circleSegment_two_pi`) the model function returns `place (arcCurve …)` — the
object whose unplaced form `C13_eval_arc_evaluate` evaluates through `Obj.evaluate` — and every
evaluated point of the result is on the circle of radius `r` about the centre in the plane ⟂ n.
*Missing:* `θ < 0` (the code reverses net and knot vector: same point set, not restated at the
B-spline level), and the skipped-placement branches as for `circle`. -/
theorem C13_factory_circle_segment_partial (k : Consts K) (r theta c1 c2 c3 nx ny nz x y z ρ N lam ct st cp sp : K)
    (hpi : 0 < k.pi) (arc : ArcAux K) (hn0 : 0 < arc.spans) (hθ0 : 0 < theta) (hθ2 : theta ≤ 2 * k.pi) (hθne : theta ≠ 2 * k.pi)
    (hd : arc.cd ^ 2 + arc.sd ^ 2 = 1) (hcd : 0 < arc.cd) (hr : 0 < r)
    (hn : allcloseEz [nx, ny, nz] = false) (hc : allcloseZero [c1, c2, c3] = false)
    (hρ : ρ ^ 2 = nx ^ 2 + ny ^ 2) (hNN : N ^ 2 = ρ ^ 2 + nz ^ 2) (hNpos : 0 < N)
    (hθ : ρ ≠ 0 → ct * ρ = nx ∧ st * ρ = ny) (hθ1 : ct ^ 2 + st ^ 2 = 1)
    (hcp : cp * N = nz) (hsp : sp * N = ρ)
    (horth : x * nx + y * ny + z * nz = 0) (hlam : 0 < lam)
    (hl2 : lam ^ 2 = ((localXVec [x, y, z] ⟨ct, st, cp, sp⟩).getD 0 0) ^ 2
                + ((localXVec [x, y, z] ⟨ct, st, cp, sp⟩).getD 1 0) ^ 2) :
    ∃ o : Fac.Obj K,
      circleSegment k theta r [c1, c2, c3] [nx, ny, nz] [x, y, z] arc ⟨ct, st, cp, sp⟩ lam = .ok o ∧
      place (arcCurve r arc.cd arc.sd theta arc.spans) [c1, c2, c3] [nx, ny, nz] [x, y, z] ⟨ct, st, cp, sp⟩ lam = .ok o ∧
      o.bases = [{ order := 3, knots := (arcKnots theta arc.spans).toArray, periodic := -1 }] ∧
      o.rational = true ∧ o.dim = 3 ∧ o.cps.length = 2 * arc.spans + 1 ∧
      ∀ (s : Side) (t : K), s.mem 0 theta t →
        let τ := ({ order := 3, knots := (arcKnots theta arc.spans).toArray, periodic := -1 } : Basis K).kn
        let xh := splineVal s τ 2 (2 * arc.spans + 1) (netComp o.cps 0) t
        let yh := splineVal s τ 2 (2 * arc.spans + 1) (netComp o.cps 1) t
        let zh := splineVal s τ 2 (2 * arc.spans + 1) (netComp o.cps 2) t
        let wh := splineVal s τ 2 (2 * arc.spans + 1) (netComp o.cps 3) t
        0 < wh ∧
        (xh / wh - c1) ^ 2 + (yh / wh - c2) ^ 2 + (zh / wh - c3) ^ 2 = r ^ 2 ∧
        (xh / wh - c1) * nx + (yh / wh - c2) * ny + (zh / wh - c3) * nz = 0 := by
  obtain ⟨harc, _, _⟩ := C13_model_nets k [c1, c2, c3] [nx, ny, nz] [x, y, z] ⟨ct, st, cp, sp⟩ lam
  have hmodel : circleSegment k theta r [c1, c2, c3] [nx, ny, nz] [x, y, z] arc ⟨ct, st, cp, sp⟩ lam
      = place (arcCurve r arc.cd arc.sd theta arc.spans) [c1, c2, c3] [nx, ny, nz] [x, y, z] ⟨ct, st, cp, sp⟩ lam := by
    rw [harc theta r arc (by rw [abs_of_pos hθ0]; exact hθ2) hθne hr (by omega), if_neg (not_lt.mpr (le_of_lt hθ0))]
    rfl
  have h3 := is3_arcNet r arc.cd arc.sd arc.spans
  have hlen : 0 < (arcNet r arc.cd arc.sd arc.spans).length := by rw [arcNet_length]; omega
  obtain ⟨o, ho, hb, hrat, hdim, hl, h4o, hev⟩ := C13_place_eval k (arcCurve r arc.cd arc.sd theta arc.spans) rfl rfl
    hlen h3 c1 c2 c3 nx ny nz x y z ρ N lam ct st cp sp hn hc hρ hNN hNpos hθ hθ1 hcp hsp horth hlam hl2
  refine ⟨o, by rw [hmodel, ho], ho, hb, hrat, hdim, by rw [hl]; exact arcNet_length _ _ _ _, ?_⟩
  intro s t ht τ xh yh zh wh
  obtain ⟨hW, hcone, _⟩ := C13_eval_arc r arc.cd arc.sd theta arc.spans hn0 hθ0 hd hcd s t ht
  obtain ⟨hw, hcirc, _, _⟩ := hev s τ 2 (2 * arc.spans + 1) t
  have hwpos : 0 < wh := by
    have : wh = _ := hw
    rw [this]; exact hW
  obtain ⟨q1, q2⟩ := hcirc r hcone (ne_of_gt hW)
  exact ⟨hwpos, q1, q2⟩

/-- **`circle_segment(θ, …)` with `−2π ≤ θ < 0` at every parameter** (partial, same placement guards as
for `circle`).  The model function returns the placed curve with the reversed net and flipped knots
(domain `[θ, 0]`); every evaluated point of the result lies on the circle of radius `r` about the
centre in the plane ⟂ n.  (`C13_eval_arc_neg`: at the knots `t_k = kθ/n` the unplaced point is at
angle `t_k`, so the arc extends clockwise from the x-axis, and parameter `0` is on it:
`C13_eval_arc_neg_start`.) -/
theorem C13_factory_circle_segment_neg_partial (k : Consts K) (r theta c1 c2 c3 nx ny nz x y z ρ N lam ct st cp sp : K)
    (hpi : 0 < k.pi) (arc : ArcAux K) (hn0 : 0 < arc.spans) (hθ0 : theta < 0) (hθ2 : -(2 * k.pi) ≤ theta)
    (hd : arc.cd ^ 2 + arc.sd ^ 2 = 1) (hcd : 0 < arc.cd) (hr : 0 < r)
    (hn : allcloseEz [nx, ny, nz] = false) (hc : allcloseZero [c1, c2, c3] = false)
    (hρ : ρ ^ 2 = nx ^ 2 + ny ^ 2) (hNN : N ^ 2 = ρ ^ 2 + nz ^ 2) (hNpos : 0 < N)
    (hθ : ρ ≠ 0 → ct * ρ = nx ∧ st * ρ = ny) (hθ1 : ct ^ 2 + st ^ 2 = 1)
    (hcp : cp * N = nz) (hsp : sp * N = ρ)
    (horth : x * nx + y * ny + z * nz = 0) (hlam : 0 < lam)
    (hl2 : lam ^ 2 = ((localXVec [x, y, z] ⟨ct, st, cp, sp⟩).getD 0 0) ^ 2
                + ((localXVec [x, y, z] ⟨ct, st, cp, sp⟩).getD 1 0) ^ 2) :
    ∃ o : Fac.Obj K,
      circleSegment k theta r [c1, c2, c3] [nx, ny, nz] [x, y, z] arc ⟨ct, st, cp, sp⟩ lam = .ok o ∧
      o.bases = [{ order := 3, knots := (arcKnots theta arc.spans).reverse.toArray, periodic := -1 }] ∧
      o.rational = true ∧ o.dim = 3 ∧ o.cps.length = 2 * arc.spans + 1 ∧
      ∀ (s : Side) (t : K), s.mem theta 0 t →
        let τ := ({ order := 3, knots := (arcKnots theta arc.spans).reverse.toArray, periodic := -1 } : Basis K).kn
        let xh := splineVal s τ 2 (2 * arc.spans + 1) (netComp o.cps 0) t
        let yh := splineVal s τ 2 (2 * arc.spans + 1) (netComp o.cps 1) t
        let zh := splineVal s τ 2 (2 * arc.spans + 1) (netComp o.cps 2) t
        let wh := splineVal s τ 2 (2 * arc.spans + 1) (netComp o.cps 3) t
        0 < wh ∧
        (xh / wh - c1) ^ 2 + (yh / wh - c2) ^ 2 + (zh / wh - c3) ^ 2 = r ^ 2 ∧
        (xh / wh - c1) * nx + (yh / wh - c2) * ny + (zh / wh - c3) * nz = 0 := by
  obtain ⟨harc, _, _⟩ := C13_model_nets k [c1, c2, c3] [nx, ny, nz] [x, y, z] ⟨ct, st, cp, sp⟩ lam
  have habs : |theta| ≤ 2 * k.pi := by rw [abs_of_neg hθ0]; linarith
  have hne : theta ≠ 2 * k.pi := by intro h; linarith
  have hmodel := harc theta r arc habs hne hr (by omega)
  rw [if_pos hθ0] at hmodel
  have h3 := is3_arcNet_rev r arc.cd arc.sd arc.spans
  have hlen : 0 < (arcNet r arc.cd arc.sd arc.spans).reverse.length := by
    rw [List.length_reverse, arcNet_length]; omega
  obtain ⟨o, ho, hb, hrat, hdim, hl, h4o, hev⟩ := C13_place_eval k
    (curveOf { order := 3, knots := (arcKnots theta arc.spans).reverse.toArray, periodic := -1 }
      (arcNet r arc.cd arc.sd arc.spans).reverse true 2) rfl rfl hlen h3
    c1 c2 c3 nx ny nz x y z ρ N lam ct st cp sp hn hc hρ hNN hNpos hθ hθ1 hcp hsp horth hlam hl2
  refine ⟨o, by rw [hmodel, ho], hb, hrat, hdim, by rw [hl]; simp [curveOf, arcNet_length], ?_⟩
  intro s t ht τ xh yh zh wh
  obtain ⟨hW, hcone, _, _⟩ := C13_eval_arc_neg r arc.cd arc.sd theta arc.spans hn0 hθ0 hd hcd s t ht
  obtain ⟨hw, hcirc, _, _⟩ := hev s τ 2 (2 * arc.spans + 1) t
  have hwpos : 0 < wh := by
    have : wh = _ := hw
    rw [this]; exact hW
  obtain ⟨q1, q2⟩ := hcirc r hcone (ne_of_gt hW)
  exact ⟨hwpos, q1, q2⟩

/-- **`circle_segment(2π, …)`** is `circle(r, center, normal, xaxis=xaxis)` (`circleSegment_two_pi`): the full
periodic circle starting on the requested x-axis; same conclusions as `C13_factory_circle_p2C0_partial`.
(`θ = −2π` is covered by `C13_factory_circle_segment_neg_partial`: three reversed spans.) -/
theorem C13_factory_circle_segment_two_pi_partial (k : Consts K) (arc : ArcAux K) (r c1 c2 c3 nx ny nz x y z ρ N lam ct st cp sp : K)
    (hpi : 0 < k.pi) (hw2 : k.w ^ 2 = 1 / 2) (hw0 : 0 < k.w) (hr : 0 < r)
    (hn : allcloseEz [nx, ny, nz] = false) (hc : allcloseZero [c1, c2, c3] = false)
    (hρ : ρ ^ 2 = nx ^ 2 + ny ^ 2) (hNN : N ^ 2 = ρ ^ 2 + nz ^ 2) (hNpos : 0 < N)
    (hθ : ρ ≠ 0 → ct * ρ = nx ∧ st * ρ = ny) (hθ1 : ct ^ 2 + st ^ 2 = 1)
    (hcp : cp * N = nz) (hsp : sp * N = ρ)
    (horth : x * nx + y * ny + z * nz = 0) (hlam : 0 < lam)
    (hl2 : lam ^ 2 = ((localXVec [x, y, z] ⟨ct, st, cp, sp⟩).getD 0 0) ^ 2
                + ((localXVec [x, y, z] ⟨ct, st, cp, sp⟩).getD 1 0) ^ 2) :
    ∃ o : Fac.Obj K,
      circleSegment k (2 * k.pi) r [c1, c2, c3] [nx, ny, nz] [x, y, z] arc ⟨ct, st, cp, sp⟩ lam = .ok o ∧
      o.bases = [{ order := 3, knots := (circleKnotsP2 k.pi).toArray, periodic := 0 }] ∧ o.rational = true ∧ o.dim = 3 ∧ o.cps.length = 8 ∧ All4 o.cps ∧
      (∀ (s : Side) (t : K), s.mem 0 (2 * k.pi) t →
        let τ := ({ order := 3, knots := (circleKnotsP2 k.pi).toArray, periodic := 0 } : Basis K).kn
        let xh := splineVal s τ 2 9 (netComp o.cps 0) t
        let yh := splineVal s τ 2 9 (netComp o.cps 1) t
        let zh := splineVal s τ 2 9 (netComp o.cps 2) t
        let wh := splineVal s τ 2 9 (netComp o.cps 3) t
        0 < wh ∧
        (xh / wh - c1) ^ 2 + (yh / wh - c2) ^ 2 + (zh / wh - c3) ^ 2 = r ^ 2 ∧
        (xh / wh - c1) * nx + (yh / wh - c2) * ny + (zh / wh - c3) * nz = 0) ∧
      -- quarter points (start point `j = 0`, orientation: `e_y' = n̂ × e_x'`)
      (∀ j : ℕ, j < 4 →
        let τ := ({ order := 3, knots := (circleKnotsP2 k.pi).toArray, periodic := 0 } : Basis K).kn
        let xh := splineVal .right τ 2 9 (netComp o.cps 0) ((j : K) * (k.pi / 2))
        let yh := splineVal .right τ 2 9 (netComp o.cps 1) ((j : K) * (k.pi / 2))
        let zh := splineVal .right τ 2 9 (netComp o.cps 2) ((j : K) * (k.pi / 2))
        let wh := splineVal .right τ 2 9 (netComp o.cps 3) ((j : K) * (k.pi / 2))
        wh = 1 ∧
        xh = c1 + r * ((quarterDir j).1 * (x / lam) + (quarterDir j).2 * ((ny / N) * (z / lam) - (nz / N) * (y / lam))) ∧
        yh = c2 + r * ((quarterDir j).1 * (y / lam) + (quarterDir j).2 * ((nz / N) * (x / lam) - (nx / N) * (z / lam))) ∧
        zh = c3 + r * ((quarterDir j).1 * (z / lam) + (quarterDir j).2 * ((nx / N) * (y / lam) - (ny / N) * (x / lam)))) := by
  obtain ⟨o, ho, rest⟩ := C13_factory_circle_p2C0_partial k r c1 c2 c3 nx ny nz x y z ρ N lam ct st cp sp
    hpi hw2 hw0 hr hn hc hρ hNN hNpos hθ hθ1 hcp hsp horth hlam hl2
  exact ⟨o, by rw [circleSegment_two_pi k r _ _ _ arc _ lam (le_of_lt hpi) hr]; exact ho, rest⟩

omit [IsStrictOrderedRing K] in
/-- **`surface_factory.cylinder` — model equality.**  `cylinder` is `extrude` of the placed circle. -/
theorem C13_factory_cylinder_model (k : Consts K) (r a b c : K) (center axis xaxis : List K) (aux : NAux K) (lam : K)
    (oc : Fac.Obj K) (hc : circle k r center axis "p2C0" xaxis aux lam = .ok oc)
    (hdim : oc.dim = 3) (h4 : All4 oc.cps) :
    cylinder k r [a, b, c] center axis xaxis aux lam = .ok
      { bases := oc.bases ++ [defaultBasis 2], shape := oc.shape ++ [2],
        cps := stackLast [oc.cps, oc.cps.map (translatePt oc.rational 3 [a, b, c])],
        rational := oc.rational, dim := 3 } := by
  have hext := (C13_extrude_section oc a b c).1
  have hs : (oc.setDimension 3).cps = oc.cps := by
    simp only [Fac.Obj.setDimension, hdim]; exact map_setDim33 oc.cps h4
  rw [hs] at hext
  simp [cylinder, hc, bind, Except.bind, hext]

/-- **`surface_factory.cylinder(r, h, center, axis, xaxis)` at every parameter** (partial: placement guards
of `circle`).  `hAxis = h·axis/‖axis‖ = (a, b, c)` is the extrusion vector the code computes; for it parallel
to the axis `n` the last equation is the height `v·h` along the axis.  The model function returns the extruded placed circle `o`; for every `u` of
the circle's domain and every `v ∈ [0, 1]` the evaluated point
`p = Σ_i Σ_j B_i(u)·L_j(v)·cp[i,j] / (weight)` satisfies `‖p − (c + v·hAxis)‖² = r²` and
`(p − (c + v·hAxis))·n = 0`: it is at distance `r` from the axis, at height `v·h`. -/
theorem C13_factory_cylinder_partial (k : Consts K) (r a b c c1 c2 c3 nx ny nz x y z ρ N lam ct st cp sp : K)
    (hpi : 0 < k.pi) (hw2 : k.w ^ 2 = 1 / 2) (hw0 : 0 < k.w) (hr : 0 < r)
    (hn : allcloseEz [nx, ny, nz] = false) (hc : allcloseZero [c1, c2, c3] = false)
    (hρ : ρ ^ 2 = nx ^ 2 + ny ^ 2) (hNN : N ^ 2 = ρ ^ 2 + nz ^ 2) (hNpos : 0 < N)
    (hθ : ρ ≠ 0 → ct * ρ = nx ∧ st * ρ = ny) (hθ1 : ct ^ 2 + st ^ 2 = 1)
    (hcp : cp * N = nz) (hsp : sp * N = ρ)
    (horth : x * nx + y * ny + z * nz = 0) (hlam : 0 < lam)
    (hl2 : lam ^ 2 = ((localXVec [x, y, z] ⟨ct, st, cp, sp⟩).getD 0 0) ^ 2
                + ((localXVec [x, y, z] ⟨ct, st, cp, sp⟩).getD 1 0) ^ 2) :
    ∃ o : Fac.Obj K,
      cylinder k r [a, b, c] [c1, c2, c3] [nx, ny, nz] [x, y, z] ⟨ct, st, cp, sp⟩ lam = .ok o ∧
      o.bases = [{ order := 3, knots := (circleKnotsP2 k.pi).toArray, periodic := 0 }, defaultBasis 2] ∧
      o.rational = true ∧ o.dim = 3 ∧
      ∀ (s : Side) (u v : K), s.mem 0 (2 * k.pi) u →
        let τ := ({ order := 3, knots := (circleKnotsP2 k.pi).toArray, periodic := 0 } : Basis K).kn
        let β := wrapW s τ 2 9 8 u
        let γ : ℕ → K := fun j => if j = 0 then 1 - v else v
        let xh := wS2 8 2 β γ (fun i j => comp o.cps 0 (i * 2 + j))
        let yh := wS2 8 2 β γ (fun i j => comp o.cps 1 (i * 2 + j))
        let zh := wS2 8 2 β γ (fun i j => comp o.cps 2 (i * 2 + j))
        let wh := wS2 8 2 β γ (fun i j => comp o.cps 3 (i * 2 + j))
        0 < wh ∧
        (xh / wh - (c1 + v * a)) ^ 2 + (yh / wh - (c2 + v * b)) ^ 2 + (zh / wh - (c3 + v * c)) ^ 2 = r ^ 2 ∧
        (xh / wh - (c1 + v * a)) * nx + (yh / wh - (c2 + v * b)) * ny + (zh / wh - (c3 + v * c)) * nz = 0 ∧
        (xh / wh - c1) * nx + (yh / wh - c2) * ny + (zh / wh - c3) * nz = v * (a * nx + b * ny + c * nz) := by
  obtain ⟨oc, hoc, hb, hrat, hdim, hl, h4, hev, _⟩ := C13_factory_circle_p2C0_partial k r c1 c2 c3 nx ny nz x y z ρ N lam
    ct st cp sp hpi hw2 hw0 hr hn hc hρ hNN hNpos hθ hθ1 hcp hsp horth hlam hl2
  have heq := C13_factory_cylinder_model k r a b c [c1, c2, c3] [nx, ny, nz] [x, y, z] ⟨ct, st, cp, sp⟩ lam oc hoc hdim h4
  rw [hrat] at heq
  refine ⟨_, heq, by simp [hb], rfl, rfl, ?_⟩
  intro s u v hu
  obtain ⟨hW, hcirc, hplane⟩ := hev s u hu
  dsimp only at hW hcirc hplane ⊢
  set τ := ({ order := 3, knots := (circleKnotsP2 k.pi).toArray, periodic := 0 } : Basis K).kn with hτ
  set β := wrapW s τ 2 9 8 u with hβ
  set γ : ℕ → K := fun j => if j = 0 then 1 - v else v with hγ
  have hIs4 : Is4 oc.cps 8 := by
    intro j hj
    have hj' : j < oc.cps.length := by rw [hl]; exact hj
    rw [List.getD_eq_getElem _ _ hj']
    exact h4 _ (List.getElem_mem hj')
  obtain ⟨e, e3⟩ := wS2_extrude_rational oc.cps 8 β γ a b c hl hIs4
  have g0 : γ 0 = 1 - v := by simp [hγ]
  have g1 : γ 1 = v := by simp [hγ]
  have hlen8 : 0 < oc.cps.length := by rw [hl]; norm_num
  have hs : ∀ cc, splineVal s τ 2 9 (netComp oc.cps cc) u = wS 8 β (comp oc.cps cc) := by
    intro cc
    have := splineVal_netComp_eq_wS s τ 2 9 oc.cps cc u hlen8
    rw [hl] at this; exact this
  simp only [hs] at hW hcirc hplane
  set X := wS 8 β (comp oc.cps 0) with hX
  set Y := wS 8 β (comp oc.cps 1) with hY
  set Z := wS 8 β (comp oc.cps 2) with hZ
  set H := wS 8 β (comp oc.cps 3) with hH
  have ex : wS2 8 2 β γ (fun k j => comp (stackLast [oc.cps, oc.cps.map (translatePt true 3 [a, b, c])]) 0 (k * 2 + j)) = X + v * a * H := by
    have := e 0 (by omega); simp only [List.getD_cons_zero] at this
    rw [this, g0, g1]; ring
  have ey : wS2 8 2 β γ (fun k j => comp (stackLast [oc.cps, oc.cps.map (translatePt true 3 [a, b, c])]) 1 (k * 2 + j)) = Y + v * b * H := by
    have := e 1 (by omega); simp only [List.getD_cons_succ, List.getD_cons_zero] at this
    rw [this, g0, g1]; ring
  have ez : wS2 8 2 β γ (fun k j => comp (stackLast [oc.cps, oc.cps.map (translatePt true 3 [a, b, c])]) 2 (k * 2 + j)) = Z + v * c * H := by
    have := e 2 (by omega); simp only [List.getD_cons_succ, List.getD_cons_zero] at this
    rw [this, g0, g1]; ring
  have ew : wS2 8 2 β γ (fun k j => comp (stackLast [oc.cps, oc.cps.map (translatePt true 3 [a, b, c])]) 3 (k * 2 + j)) = H := by
    rw [e3, g0, g1]; ring
  have hH0 : H ≠ 0 := ne_of_gt hW
  rw [ex, ey, ez, ew]
  have px : (X + v * a * H) / H - (c1 + v * a) = X / H - c1 := by field_simp; ring
  have py : (Y + v * b * H) / H - (c2 + v * b) = Y / H - c2 := by field_simp; ring
  have pz : (Z + v * c * H) / H - (c3 + v * c) = Z / H - c3 := by field_simp; ring
  refine ⟨hW, by rw [px, py, pz]; exact hcirc, by rw [px, py, pz]; exact hplane, ?_⟩
  have qx : (X + v * a * H) / H - c1 = (X / H - c1) + v * a := by field_simp; ring
  have qy : (Y + v * b * H) / H - c2 = (Y / H - c2) + v * b := by field_simp; ring
  have qz : (Z + v * c * H) / H - c3 = (Z / H - c3) + v * c := by field_simp; ring
  rw [qx, qy, qz]
  linear_combination hplane

/-- **`n_gon(n, r, center, normal)` — the function the driver runs** (partial: placement guards).
`cs` are the supplied `(cos(i·dt), sin(i·dt))`, `i < n`.  The model function returns a linear
(order 2), periodic, non-rational 3D curve whose `i`-th control point (= vertex, the curve is
piecewise linear) is at distance `r` from the centre in the plane through the centre orthogonal to
`n`, for every `i` with `c_i² + s_i² = 1`. -/
theorem C13_factory_nGon_partial (n : ℕ) (r c1 c2 c3 nx ny nz ρ N ct st cp sp : K) (cs : List (K × K))
    (hr : 0 < r) (hn3 : 3 ≤ n)
    (hn : allcloseEz [nx, ny, nz] = false) (hc : allcloseZero [c1, c2, c3] = false)
    (hρ : ρ ^ 2 = nx ^ 2 + ny ^ 2) (hNN : N ^ 2 = ρ ^ 2 + nz ^ 2) (hNpos : 0 < N)
    (hθ : ρ ≠ 0 → ct * ρ = nx ∧ st * ρ = ny) (hθ1 : ct ^ 2 + st ^ 2 = 1)
    (hcp : cp * N = nz) (hsp : sp * N = ρ) :
    ∃ o : Fac.Obj K,
      nGon n r [c1, c2, c3] [nx, ny, nz] cs ⟨ct, st, cp, sp⟩ = .ok o ∧
      o.bases.map (·.order) = [2] ∧ o.bases.map (·.periodic) = [0] ∧ o.rational = false ∧ o.dim = 3 ∧
      o.cps = (cs.take n).map (fun p =>
        translatePt false 3 [c1, c2, c3] (rotZPt ct st (rotYPt cp sp (setDimPt 2 3 [r * p.1, r * p.2])))) ∧
      ∀ p ∈ cs.take n, p.1 ^ 2 + p.2 ^ 2 = 1 →
        ∃ x y z : K,
          translatePt false 3 [c1, c2, c3] (rotZPt ct st (rotYPt cp sp (setDimPt 2 3 [r * p.1, r * p.2]))) = [x, y, z] ∧
          (x - c1) ^ 2 + (y - c2) ^ 2 + (z - c3) ^ 2 = r ^ 2 ∧
          (x - c1) * nx + (y - c2) * ny + (z - c3) * nz = 0 := by
  obtain ⟨_, hrot, _⟩ := C13_placement nx ny nz ρ N ct st cp sp hρ hNN hNpos hθ hθ1 hcp hsp
  refine ⟨{ bases := [{ order := 2, knots := ([-1] ++ (List.range n).map (fun i => (i : K)) ++ [(n : K), (n : K) + 1]).toArray,
                        periodic := 0 }],
            shape := [((cs.take n).map (fun p => [r * p.1, r * p.2])).length],
            cps := (cs.take n).map (fun p =>
              translatePt false 3 [c1, c2, c3] (rotZPt ct st (rotYPt cp sp (setDimPt 2 3 [r * p.1, r * p.2])))),
            rational := false, dim := 3 }, ?_, rfl, rfl, rfl, rfl, rfl, ?_⟩
  rotate_left
  · intro p _ hp1
    obtain ⟨x', y', z', he, hnorm, hplane⟩ := hrot (r * p.1) (r * p.2) 0
    refine ⟨x' + c1, y' + c2, z' + c3, ?_, ?_, ?_⟩
    · simp only [setDimPt]
      simp only [rotYPt_cons, rotZPt_cons, List.cons.injEq, and_true] at he
      obtain ⟨e1, e2, e3⟩ := he
      simp [translatePt, weightOf]
      refine ⟨by rw [← e1]; ring, by rw [← e2]; ring, by rw [← e3]; ring⟩
    · have : (x' + c1 - c1) ^ 2 + (y' + c2 - c2) ^ 2 + (z' + c3 - c3) ^ 2 = x' ^ 2 + y' ^ 2 + z' ^ 2 := by ring
      rw [this, hnorm]; linear_combination r ^ 2 * hp1
    · have : (x' + c1 - c1) * nx + (y' + c2 - c2) * ny + (z' + c3 - c3) * nz = x' * nx + y' * ny + z' * nz := by ring
      rw [this, hplane]; ring
  · simp [nGon, not_le.mpr hr, show ¬ n < 3 by omega, flipAndMove, hn, hc, Fac.Obj.rotateY, Fac.Obj.rotateZ,
      Fac.Obj.translate, Fac.Obj.setDimension, Fac.Obj.mapPts, curveOf, bind, Except.bind, pure, Except.pure,
      List.map_map, Function.comp_def]

/-! ## Instances over ℝ — the factory theorems are not vacuous

The factory theorems assume `w² = 1/2` resp. `s2² = 2` for the weight constants.  No rational number
satisfies either, so over `ℚ` (the field the executable model is run at, with floating-point
constants supplied by the harness) the hypotheses cannot be met.  Over `ℝ` they can: here the
constants are `π`, `√2/2`, `√2`, the circle has radius 3, centre `(1,0,0)`, normal `e_x` and x-axis
`e_y`, and every hypothesis of `C13_factory_circle_p2C0_partial`, `…_p4C1_partial`, both ellipse
theorems, the cylinder theorem and the arc theorem is discharged, so their conclusions hold for these
concrete real objects. -/


noncomputable def realConsts : Consts ℝ := { pi := Real.pi, w := Real.sqrt 2 / 2, s2 := Real.sqrt 2 }
theorem realConsts_w : realConsts.w ^ 2 = 1 / 2 ∧ 0 < realConsts.w := by
  constructor
  · simp only [realConsts]; rw [div_pow, Real.sq_sqrt (by norm_num)]; norm_num
  · simp only [realConsts]; positivity
theorem realConsts_s2 : realConsts.s2 ^ 2 = 2 ∧ 0 < realConsts.s2 := by
  constructor
  · simp only [realConsts]; rw [Real.sq_sqrt (by norm_num)]
  · simp only [realConsts]; positivity

theorem C13_factory_real_instances :
    (∃ o : Fac.Obj ℝ, circle realConsts 3 [1, 0, 0] [1, 0, 0] "p4C1" [0, 1, 0] ⟨1, 0, 0, 1⟩ 1 = .ok o ∧ o.dim = 3) ∧
    (∃ o : Fac.Obj ℝ, ellipse realConsts 3 2 [1, 0, 0] [1, 0, 0] "p2C0" [0, 1, 0] ⟨1, 0, 0, 1⟩ 1 = .ok o ∧ o.dim = 3) ∧
    (∃ o : Fac.Obj ℝ, ellipse realConsts 3 2 [1, 0, 0] [1, 0, 0] "p4C1" [0, 1, 0] ⟨1, 0, 0, 1⟩ 1 = .ok o ∧ o.dim = 3) ∧
    (∃ o : Fac.Obj ℝ, cylinder realConsts 3 [2, 0, 0] [1, 0, 0] [1, 0, 0] [0, 1, 0] ⟨1, 0, 0, 1⟩ 1 = .ok o ∧ o.dim = 3) := by
  have hn : allcloseEz [(1:ℝ), 0, 0] = false := by simp [allcloseEz, close1]; norm_num
  have hc : allcloseZero [(1:ℝ), 0, 0] = false := by simp [allcloseZero, close1]; norm_num
  have hl2 : (1:ℝ) ^ 2 = ((localXVec [(0:ℝ), 1, 0] ⟨1, 0, 0, 1⟩).getD 0 0) ^ 2
                + ((localXVec [(0:ℝ), 1, 0] ⟨1, 0, 0, 1⟩).getD 1 0) ^ 2 := by simp [localXVec, rotYPt, rotZPt]
  refine ⟨?_, ?_, ?_, ?_⟩
  · obtain ⟨o, ho, _, _, hd, _⟩ := C13_factory_circle_p4C1_partial realConsts 3 1 0 0 1 0 0 0 1 0 1 1 1 1 0 0 1
      Real.pi_pos realConsts_s2.1 realConsts_s2.2 (by norm_num) hn hc
      (by norm_num) (by norm_num) (by norm_num) (fun _ => by norm_num) (by norm_num)
      (by norm_num) (by norm_num) (by norm_num) (by norm_num) hl2
    exact ⟨o, ho, hd⟩
  · obtain ⟨o, ho, _, _, hd, _⟩ := C13_factory_ellipse_p2C0_partial realConsts 3 2 1 0 0 1 0 0 0 1 0 1 1 1 1 0 0 1
      Real.pi_pos realConsts_w.1 realConsts_w.2 (by norm_num) (by norm_num) hn hc
      (by norm_num) (by norm_num) (by norm_num) (fun _ => by norm_num) (by norm_num)
      (by norm_num) (by norm_num) (by norm_num) (by norm_num) hl2
    exact ⟨o, ho, hd⟩
  · obtain ⟨o, ho, _, _, hd, _⟩ := C13_factory_ellipse_p4C1_partial realConsts 3 2 1 0 0 1 0 0 0 1 0 1 1 1 1 0 0 1
      Real.pi_pos realConsts_s2.1 realConsts_s2.2 (by norm_num) (by norm_num) hn hc
      (by norm_num) (by norm_num) (by norm_num) (fun _ => by norm_num) (by norm_num)
      (by norm_num) (by norm_num) (by norm_num) (by norm_num) hl2
    exact ⟨o, ho, hd⟩
  · obtain ⟨o, ho, _, _, hd, _⟩ := C13_factory_cylinder_partial realConsts 3 2 0 0 1 0 0 1 0 0 0 1 0 1 1 1 1 0 0 1
      Real.pi_pos realConsts_w.1 realConsts_w.2 (by norm_num) hn hc
      (by norm_num) (by norm_num) (by norm_num) (fun _ => by norm_num) (by norm_num)
      (by norm_num) (by norm_num) (by norm_num) (by norm_num) hl2
    exact ⟨o, ho, hd⟩

/-- the radius-3 circle about `(1,0,0)` in the plane `x = 1`: every evaluated point is on it. -/
theorem C13_factory_circle_real_instance :
    (∃ o : Fac.Obj ℝ,
      circle realConsts 3 [1, 0, 0] [1, 0, 0] "p2C0" [0, 1, 0] ⟨1, 0, 0, 1⟩ 1 = .ok o ∧ o.cps.length = 8 ∧
      (∀ (s : Side) (t : ℝ), s.mem 0 (2 * Real.pi) t →
        let τ := ({ order := 3, knots := (circleKnotsP2 Real.pi).toArray, periodic := 0 } : Basis ℝ).kn
        let xh := splineVal s τ 2 9 (netComp o.cps 0) t
        let yh := splineVal s τ 2 9 (netComp o.cps 1) t
        let zh := splineVal s τ 2 9 (netComp o.cps 2) t
        let wh := splineVal s τ 2 9 (netComp o.cps 3) t
        0 < wh ∧ (xh / wh - 1) ^ 2 + (yh / wh - 0) ^ 2 + (zh / wh - 0) ^ 2 = (3:ℝ) ^ 2 ∧
        (xh / wh - 1) * 1 + (yh / wh - 0) * 0 + (zh / wh - 0) * 0 = 0)) := by
  have hw2 := realConsts_w.1
  have hw0 := realConsts_w.2
  obtain ⟨o, ho, _, _, _, hl, _, hev, _⟩ :=
    C13_factory_circle_p2C0_partial realConsts 3 1 0 0 1 0 0 0 1 0 1 1 1 1 0 0 1
      Real.pi_pos hw2 hw0 (by norm_num)
      (by simp [allcloseEz, close1]; norm_num) (by simp [allcloseZero, close1]; norm_num)
      (by norm_num) (by norm_num) (by norm_num) (fun _ => by norm_num) (by norm_num)
      (by norm_num) (by norm_num) (by norm_num) (by norm_num)
      (by simp [localXVec, rotYPt, rotZPt])
  exact ⟨o, ho, hl, hev⟩

/-- the half circle `circle_segment(π, 3, (1,0,0), e_x, e_y)` with two spans (`cos π/4 = sin π/4 = √2/2`). -/
theorem C13_factory_circle_segment_real_instance :
    ∃ o : Fac.Obj ℝ, circleSegment realConsts Real.pi 3 [1, 0, 0] [1, 0, 0] [0, 1, 0]
        ⟨2, Real.sqrt 2 / 2, Real.sqrt 2 / 2⟩ ⟨1, 0, 0, 1⟩ 1 = .ok o ∧ o.cps.length = 5 := by
  have hq : (Real.sqrt 2 / 2) ^ 2 = 1 / 2 := realConsts_w.1
  obtain ⟨o, ho, _, _, _, _, hl, _⟩ := C13_factory_circle_segment_partial realConsts 3 Real.pi 1 0 0 1 0 0 0 1 0 1 1 1 1 0 0 1
      Real.pi_pos ⟨2, Real.sqrt 2 / 2, Real.sqrt 2 / 2⟩ (by norm_num) Real.pi_pos
      (by show Real.pi ≤ 2 * Real.pi; linarith [Real.pi_pos])
      (by show Real.pi ≠ 2 * Real.pi; linarith [Real.pi_pos])
      (by show (Real.sqrt 2 / 2) ^ 2 + (Real.sqrt 2 / 2) ^ 2 = 1; rw [hq]; norm_num)
      (by show 0 < Real.sqrt 2 / 2; positivity) (by norm_num)
      (by simp [allcloseEz, close1]; norm_num) (by simp [allcloseZero, close1]; norm_num)
      (by norm_num) (by norm_num) (by norm_num) (fun _ => by norm_num) (by norm_num)
      (by norm_num) (by norm_num) (by norm_num) (by norm_num)
      (by simp [localXVec, rotYPt, rotZPt])
  exact ⟨o, ho, hl⟩
