import Splipy.Model.Basis
/-! Property theorems for C01 (placeholder while the proofs are being built). -/
