import Splipy.Lemmas.EvalRow
import Mathlib.Data.Rat.Floor
import Mathlib.Tactic.NormNum
import Mathlib.Tactic.IntervalCases

/-!
# Property C01: `BSplineBasis.evaluate` returns the mathematically defined B-splines

`b.evaluate tol t d fromRight` is the executable model of `BSplineBasis.evaluate(t, d, from_right)`
for one parameter value (`tol` = `state.knot_tolerance`).  `B`/`dB` are the specification
(Cox–de Boor recursion and its derivative recursion, `Splipy/Spec/BSpline.lean`).

`b.ExactAt tol t` says that `t` is a knot or at least `tol` away from every knot, i.e. all
tolerance comparisons made by the code are exact comparisons.
-/

open Splipy

variable {K : Type} [Field K] [LinearOrder K] [IsStrictOrderedRing K] [FloorRing K]

/-- Non-periodic basis, `t` in the domain (except the start approached from the left): entry `c`
of the row is the `d`-th one-sided derivative of the `c`-th B-spline; the side is the requested
one, except at the domain end, where it is always the limit from inside. -/
theorem C01_value_deriv_open {b : Basis K} (hv : b.Valid) (hper : b.periodic = -1) {tol t : K}
    (htol : 0 < tol) (hex : b.ExactAt tol t) (h1 : b.start ≤ t) (h2 : t ≤ b.stop)
    {fromRight : Bool} (hnot : ¬ (t = b.start ∧ fromRight = false))
    {d : ℕ} (hd : d < b.order) {c : ℕ} (hc : c < b.numFunctions) :
    (b.evaluate tol t d fromRight).getD c 0
      = dB (effSide b t fromRight) b.kn (b.order - 1) c d t := by
  rw [evaluate_of_exact b htol hex hd, wrapT_nonperiodic hper,
    evalAt_toDense_inside hv htol hd fromRight (hex.start hv) (hex.stop hv) h1 h2 hnot hc]
  rw [Basis.numFunctions_of_nonperiodic hper] at hc ⊢
  exact sum_filter_mod_self _ _ _ hc

/-- Periodic basis, `t` in the domain: entry `c` is the sum of all wrapped images (all `i` with
`i ≡ c` modulo `numFunctions`) of the one-sided derivative at the effective point/side
`periodicEff b t fromRight` (left limit at the seam `start` = left limit at `stop`). -/
theorem C01_value_deriv_periodic {b : Basis K} (hv : b.Valid) (hper : 0 ≤ b.periodic)
    {tol t : K} (htol : 0 < tol) (hex : b.ExactAt tol t) (h1 : b.start ≤ t) (h2 : t ≤ b.stop)
    (fromRight : Bool) {d : ℕ} (hd : d < b.order) {c : ℕ} (hc : c < b.numFunctions) :
    (b.evaluate tol t d fromRight).getD c 0
      = ∑ i ∈ (Finset.range b.nAll).filter (fun i => i % b.numFunctions = c),
          dB (periodicEff b t fromRight).2 b.kn (b.order - 1) i d (periodicEff b t fromRight).1 := by
  obtain ⟨e1, e2, e3, e4, e5, e6⟩ := periodicEff_spec hv hex fromRight h1 h2
  rw [evaluate_of_exact b htol hex hd, wrapT_periodic_inside hv hper htol hex fromRight h1 h2,
    evalAt_toDense_inside hv htol hd fromRight e1 e2 e3 e4 e5 hc, e6]

/-- Periodic basis, arbitrary real parameter `u`: the row is the one of the wrapped point. -/
theorem C01_value_deriv_periodic_any_real {b : Basis K} (hv : b.Valid) (hper : 0 ≤ b.periodic)
    {tol u : K} (htol : 0 < tol) (hex : b.ExactAt tol u) (hexw : b.ExactAt tol (b.wrap u))
    (fromRight : Bool) {d : ℕ} (hd : d < b.order) {c : ℕ} (hc : c < b.numFunctions) :
    (b.evaluate tol u d fromRight).getD c 0
      = ∑ i ∈ (Finset.range b.nAll).filter (fun i => i % b.numFunctions = c),
          dB (periodicEff b (b.wrap u) fromRight).2 b.kn (b.order - 1) i d
            (periodicEff b (b.wrap u) fromRight).1 := by
  rw [evaluate_wrap hv hper htol hex hexw]
  exact C01_value_deriv_periodic hv hper htol hexw (b.wrap_mem hv u).1 (b.wrap_mem hv u).2
    fromRight hd hc

/-- Non-periodic basis: approaching the start of the domain from the left gives the zero row. -/
theorem C01_start_from_left {b : Basis K} (hv : b.Valid) (hper : b.periodic = -1) {tol : K}
    (htol : 0 < tol) (d : ℕ) :
    b.evaluate tol b.start d false = Array.replicate b.numFunctions 0 := by
  by_cases hd : b.order ≤ d
  · exact evaluate_high b tol _ hd false
  · unfold Basis.evaluate
    simp only []
    rw [if_neg hd, b.start_eq, snap_knot hv htol hv.order_sub_lt, evalRow_eq,
      wrapT_nonperiodic hper, ← b.start_eq, evalAt_start_left b htol, toDense_zeroRow]

/-- Non-periodic basis: outside the domain the row is zero. -/
theorem C01_outside {b : Basis K} (hper : b.periodic = -1) {tol t : K}
    (htol : 0 < tol) (hex : b.ExactAt tol t) (hout : t < b.start ∨ b.stop < t) (d : ℕ)
    (fromRight : Bool) :
    b.evaluate tol t d fromRight = Array.replicate b.numFunctions 0 := by
  by_cases hd : b.order ≤ d
  · exact evaluate_high b tol _ hd fromRight
  · rw [evaluate_of_exact b htol hex (by omega), wrapT_nonperiodic hper,
      evalAt_outside b tol d fromRight hout, toDense_zeroRow]

/-- Derivatives of order `≥ order` : the code returns the zero row (no hypotheses at all) … -/
theorem C01_high_derivative_zero (b : Basis K) (tol t : K) {d : ℕ} (hd : b.order ≤ d)
    (fromRight : Bool) :
    b.evaluate tol t d fromRight = Array.replicate b.numFunctions 0 :=
  evaluate_high b tol t hd fromRight

omit [IsStrictOrderedRing K] [FloorRing K] in
/-- … and so does the specification. -/
theorem C01_high_derivative_zero_spec (b : Basis K) (hp : 1 ≤ b.order) (s : Side) (t : K)
    {d : ℕ} (hd : b.order ≤ d) (i : ℕ) : dB s b.kn (b.order - 1) i d t = 0 :=
  dB_eq_zero_of_gt s b.kn (b.order - 1) i d t (by omega)

/-- The basis functions are non-negative (every exact parameter; for periodic bases the wrapped
parameter has to be exact as well). -/
theorem C01_nonneg {b : Basis K} (hv : b.Valid) {tol t : K} (htol : 0 < tol)
    (hex : b.ExactAt tol t) (hexw : 0 ≤ b.periodic → b.ExactAt tol (b.wrap t))
    (fromRight : Bool) (c : ℕ) :
    0 ≤ (b.evaluate tol t 0 fromRight).getD c 0 := by
  have hp := hv.order_pos
  by_cases hper : 0 ≤ b.periodic
  · have hw := hexw hper
    obtain ⟨e1, e2, -, -, -, -⟩ :=
      periodicEff_spec hv hw fromRight (b.wrap_mem hv t).1 (b.wrap_mem hv t).2
    rw [evaluate_wrap hv hper htol hex hw, evaluate_of_exact b htol hw (by omega),
      wrapT_periodic_inside hv hper htol hw fromRight (b.wrap_mem hv t).1 (b.wrap_mem hv t).2]
    exact evalAt_toDense_nonneg hv htol (by omega) fromRight e1 e2 c
  · have hper' : b.periodic = -1 := by have := hv.periodic_ge; omega
    rw [evaluate_of_exact b htol hex (by omega), wrapT_nonperiodic hper']
    exact evalAt_toDense_nonneg hv htol (by omega) fromRight (hex.start hv) (hex.stop hv) c

/-- Partition of unity on the domain (for non-periodic bases except the start from the left). -/
theorem C01_partition_of_unity {b : Basis K} (hv : b.Valid) {tol t : K} (htol : 0 < tol)
    (hex : b.ExactAt tol t) (h1 : b.start ≤ t) (h2 : t ≤ b.stop) (fromRight : Bool)
    (hnot : b.periodic = -1 → ¬ (t = b.start ∧ fromRight = false)) :
    ∑ c ∈ Finset.range b.numFunctions, (b.evaluate tol t 0 fromRight).getD c 0 = 1 := by
  have hp := hv.order_pos
  by_cases hper : 0 ≤ b.periodic
  · obtain ⟨e1, e2, e3, e4, e5, -⟩ := periodicEff_spec hv hex fromRight h1 h2
    rw [evaluate_of_exact b htol hex (by omega),
      wrapT_periodic_inside hv hper htol hex fromRight h1 h2]
    exact evalAt_toDense_partition hv htol fromRight e1 e2 e3 e4 e5
  · have hper' : b.periodic = -1 := by have := hv.periodic_ge; omega
    rw [evaluate_of_exact b htol hex (by omega), wrapT_nonperiodic hper']
    exact evalAt_toDense_partition hv htol fromRight (hex.start hv) (hex.stop hv) h1 h2
      (hnot hper')

/-- Partition of unity for periodic bases at an arbitrary real parameter. -/
theorem C01_partition_of_unity_periodic_any_real {b : Basis K} (hv : b.Valid)
    (hper : 0 ≤ b.periodic) {tol u : K} (htol : 0 < tol) (hex : b.ExactAt tol u)
    (hexw : b.ExactAt tol (b.wrap u)) (fromRight : Bool) :
    ∑ c ∈ Finset.range b.numFunctions, (b.evaluate tol u 0 fromRight).getD c 0 = 1 := by
  rw [evaluate_wrap hv hper htol hex hexw]
  exact C01_partition_of_unity hv htol hexw (b.wrap_mem hv u).1 (b.wrap_mem hv u).2 fromRight
    (fun h => by rw [h] at hper; exact absurd hper (by decide))

/-- If distinct knot values are at least `tol` apart, evaluation at ANY parameter `t` is evaluation
at the snapped parameter, and the snapped parameter is exact — so all theorems of this file apply
to `snap b tol t`. -/
theorem C01_evaluate_snap {b : Basis K} (hv : b.Valid) {tol : K} (htol : 0 < tol)
    (hsep : b.Separated tol) (t : K) (d : ℕ) (fromRight : Bool) :
    b.evaluate tol t d fromRight = b.evaluate tol (snap b tol t) d fromRight ∧
      b.ExactAt tol (snap b tol t) :=
  ⟨evaluate_snap hv htol hsep t d fromRight, exactAt_snap hv hsep t⟩

omit [IsStrictOrderedRing K] in
/-- The dense and the sparse result forms agree. -/
theorem C01_sparse_eq_dense (b : Basis K) (tol t : K) {d : ℕ} (hd : d < b.order)
    (fromRight : Bool) :
    (b.evaluateSparse tol t d fromRight).toDense b.numFunctions = b.evaluate tol t d fromRight := by
  unfold Basis.evaluateSparse Basis.evaluate
  simp only []
  rw [if_neg (by omega)]

/-- Periodic bases can be evaluated at any real: shifting the parameter by whole periods does not
change the row (`t` and the shifted parameter must not be the domain end `stop` itself, whose row
is the left limit, whereas `stop + m·T` wraps to `start`). -/
theorem C01_periodic_any_real {b : Basis K} (hv : b.Valid) (hper : 0 ≤ b.periodic) {tol t : K}
    (htol : 0 < tol) (m : ℤ) (hex : b.ExactAt tol t)
    (hex' : b.ExactAt tol (t + m * (b.stop - b.start)))
    (h1 : t ≠ b.stop) (h2 : t + m * (b.stop - b.start) ≠ b.stop) (d : ℕ) (fromRight : Bool) :
    b.evaluate tol (t + m * (b.stop - b.start)) d fromRight = b.evaluate tol t d fromRight :=
  evaluate_add_int_mul hv hper htol m hex hex' h1 h2 d fromRight


/-! ## Non-vacuity: concrete bases over `ℚ` meeting the hypotheses of every theorem -/

/-- Open quadratic basis with a double interior knot. -/
def C01_exOpen : Basis ℚ := ⟨3, #[0, 0, 0, 1, 2, 2, 3, 3, 3], -1⟩

/-- Periodic (`C^0`) quadratic basis. -/
def C01_exPer : Basis ℚ := ⟨3, #[-1, 0, 0, 1, 2, 3, 3, 4], 0⟩

theorem C01_exOpen_valid : C01_exOpen.Valid where
  order_pos := by decide
  size_ge := by decide
  sorted := by
    intro i hi
    have hi' : i + 1 < 9 := hi
    have hi'' : i < 8 := by omega
    interval_cases i <;> norm_num [Basis.kn, C01_exOpen]
  periodic_ge := by decide
  periodic_le := by decide
  start_lt_stop := by norm_num [Basis.start, Basis.stop, Basis.kn, C01_exOpen]
  ghosts := fun h => absurd h (by decide)

theorem C01_exPer_valid : C01_exPer.Valid where
  order_pos := by decide
  size_ge := by decide
  sorted := by
    intro i hi
    have hi' : i + 1 < 8 := hi
    have hi'' : i < 7 := by omega
    interval_cases i <;> norm_num [Basis.kn, C01_exPer]
  periodic_ge := by decide
  periodic_le := by decide
  start_lt_stop := by norm_num [Basis.start, Basis.stop, Basis.kn, C01_exPer]
  ghosts := by
    intro _ i hi
    have hi' : i + 4 < 8 := hi
    have hi'' : i < 4 := by omega
    interval_cases i <;>
      norm_num [Basis.start, Basis.stop, Basis.kn, Basis.numFunctions, C01_exPer]

theorem C01_exOpen_start : C01_exOpen.start = 0 := by
  norm_num [Basis.start, Basis.kn, C01_exOpen]

theorem C01_exOpen_stop : C01_exOpen.stop = 3 := by
  norm_num [Basis.stop, Basis.kn, C01_exOpen]

theorem C01_exPer_start : C01_exPer.start = 0 := by
  norm_num [Basis.start, Basis.kn, C01_exPer]

theorem C01_exPer_stop : C01_exPer.stop = 3 := by
  norm_num [Basis.stop, Basis.kn, C01_exPer]

/-- Exactness at an arbitrary rational that is at least `1/1000` away from the integers `-1 … 4`
or equal to one of them is checked knot by knot. -/
theorem C01_exOpen_exact_half : C01_exOpen.ExactAt (1/1000) (1/2) := by
  intro i hi
  have hi' : i < 9 := hi
  interval_cases i <;> norm_num [Basis.kn, C01_exOpen, abs_of_nonneg, abs_of_neg]

theorem C01_exOpen_exact_stop : C01_exOpen.ExactAt (1/1000) 3 := by
  intro i hi
  have hi' : i < 9 := hi
  interval_cases i <;> norm_num [Basis.kn, C01_exOpen, abs_of_nonneg, abs_of_neg]

theorem C01_exOpen_exact_four : C01_exOpen.ExactAt (1/1000) 4 := by
  intro i hi
  have hi' : i < 9 := hi
  interval_cases i <;> norm_num [Basis.kn, C01_exOpen, abs_of_nonneg, abs_of_neg]

theorem C01_exPer_exact_half : C01_exPer.ExactAt (1/1000) (1/2) := by
  intro i hi
  have hi' : i < 8 := hi
  interval_cases i <;> norm_num [Basis.kn, C01_exPer, abs_of_nonneg, abs_of_neg]

theorem C01_exPer_exact_zero : C01_exPer.ExactAt (1/1000) 0 := by
  intro i hi
  have hi' : i < 8 := hi
  interval_cases i <;> norm_num [Basis.kn, C01_exPer, abs_of_nonneg, abs_of_neg]

theorem C01_exPer_exact_seven_halves : C01_exPer.ExactAt (1/1000) (7/2) := by
  intro i hi
  have hi' : i < 8 := hi
  interval_cases i <;> norm_num [Basis.kn, C01_exPer, abs_of_nonneg, abs_of_neg]

theorem C01_exPer_wrap : C01_exPer.wrap (7/2) = 1/2 := by
  have h0 : C01_exPer.wrap (1/2) = 1/2 :=
    C01_exPer.wrap_of_mem (by rw [C01_exPer_start]; norm_num) (by rw [C01_exPer_stop]; norm_num)
  have h := C01_exPer.wrap_add_int_mul C01_exPer_valid (1/2) 1
    (by rw [C01_exPer_stop]; norm_num) (by rw [C01_exPer_stop, C01_exPer_start]; norm_num)
  rw [h0, C01_exPer_stop, C01_exPer_start] at h
  rw [← h]
  norm_num

theorem C01_exOpen_separated : C01_exOpen.Separated (1/1000) := by
  intro i j hi hj
  have hi' : i < 9 := hi
  have hj' : j < 9 := hj
  interval_cases i <;> interval_cases j <;>
    norm_num [Basis.kn, C01_exOpen, abs_of_nonneg, abs_of_neg]

/-- C01_value_deriv_open: interior point, first derivative. -/
example : (C01_exOpen.evaluate (1/1000) (1/2) 1 true).getD 2 0
    = dB (effSide C01_exOpen (1/2) true) C01_exOpen.kn 2 2 1 (1/2) :=
  C01_value_deriv_open C01_exOpen_valid rfl (by norm_num) C01_exOpen_exact_half
    (by rw [C01_exOpen_start]; norm_num) (by rw [C01_exOpen_stop]; norm_num)
    (by simp) (by decide) (by decide)

/-- C01_value_deriv_open: the domain end, requested from the right (evaluated from the left). -/
example : (C01_exOpen.evaluate (1/1000) 3 0 true).getD 5 0
    = dB (effSide C01_exOpen 3 true) C01_exOpen.kn 2 5 0 3 :=
  C01_value_deriv_open C01_exOpen_valid rfl (by norm_num) C01_exOpen_exact_stop
    (by rw [C01_exOpen_start]; norm_num) (by rw [C01_exOpen_stop])
    (by simp) (by decide) (by decide)

/-- C01_value_deriv_periodic: the seam from the left. -/
example : (C01_exPer.evaluate (1/1000) 0 1 false).getD 3 0
    = ∑ i ∈ (Finset.range C01_exPer.nAll).filter (fun i => i % C01_exPer.numFunctions = 3),
        dB (periodicEff C01_exPer 0 false).2 C01_exPer.kn 2 i 1 (periodicEff C01_exPer 0 false).1 :=
  C01_value_deriv_periodic C01_exPer_valid (by decide) (by norm_num) C01_exPer_exact_zero
    (by rw [C01_exPer_start]) (by rw [C01_exPer_stop]; norm_num) false (by decide) (by decide)

/-- C01_value_deriv_periodic_any_real. -/
example : (C01_exPer.evaluate (1/1000) (7/2) 0 true).getD 0 0
    = ∑ i ∈ (Finset.range C01_exPer.nAll).filter (fun i => i % C01_exPer.numFunctions = 0),
        dB (periodicEff C01_exPer (C01_exPer.wrap (7/2)) true).2 C01_exPer.kn 2 i 0
          (periodicEff C01_exPer (C01_exPer.wrap (7/2)) true).1 :=
  C01_value_deriv_periodic_any_real C01_exPer_valid (by decide) (by norm_num)
    C01_exPer_exact_seven_halves (by rw [C01_exPer_wrap]; exact C01_exPer_exact_half) true
    (by decide) (by decide)

/-- C01_start_from_left. -/
example : C01_exOpen.evaluate (1/1000) C01_exOpen.start 0 false
    = Array.replicate C01_exOpen.numFunctions 0 :=
  C01_start_from_left C01_exOpen_valid rfl (by norm_num) 0

/-- C01_outside. -/
example : C01_exOpen.evaluate (1/1000) 4 1 true = Array.replicate C01_exOpen.numFunctions 0 :=
  C01_outside rfl (by norm_num) C01_exOpen_exact_four
    (Or.inr (by rw [C01_exOpen_stop]; norm_num)) 1 true

/-- C01_high_derivative_zero / C01_high_derivative_zero_spec. -/
example : C01_exOpen.evaluate (1/1000) (1/2) 3 true
    = Array.replicate C01_exOpen.numFunctions 0 :=
  C01_high_derivative_zero C01_exOpen (1/1000) (1/2) (by decide) true

example : dB .right C01_exOpen.kn 2 1 3 (1/2) = 0 :=
  C01_high_derivative_zero_spec C01_exOpen (by decide) .right (1/2) (d := 3) (by decide) 1

/-- C01_nonneg (non-periodic and periodic). -/
example : 0 ≤ (C01_exOpen.evaluate (1/1000) (1/2) 0 true).getD 1 0 :=
  C01_nonneg C01_exOpen_valid (by norm_num) C01_exOpen_exact_half
    (fun h => absurd h (by decide)) true 1

example : 0 ≤ (C01_exPer.evaluate (1/1000) (7/2) 0 false).getD 1 0 :=
  C01_nonneg C01_exPer_valid (by norm_num) C01_exPer_exact_seven_halves
    (fun _ => by rw [C01_exPer_wrap]; exact C01_exPer_exact_half) false 1

/-- C01_partition_of_unity (non-periodic, and periodic at the seam from the left). -/
example : ∑ c ∈ Finset.range C01_exOpen.numFunctions,
    (C01_exOpen.evaluate (1/1000) (1/2) 0 false).getD c 0 = 1 :=
  C01_partition_of_unity C01_exOpen_valid (by norm_num) C01_exOpen_exact_half
    (by rw [C01_exOpen_start]; norm_num) (by rw [C01_exOpen_stop]; norm_num) false
    (fun _ h => by rw [C01_exOpen_start] at h; norm_num at h)

example : ∑ c ∈ Finset.range C01_exPer.numFunctions,
    (C01_exPer.evaluate (1/1000) 0 0 false).getD c 0 = 1 :=
  C01_partition_of_unity C01_exPer_valid (by norm_num) C01_exPer_exact_zero
    (by rw [C01_exPer_start]) (by rw [C01_exPer_stop]; norm_num) false
    (fun h => absurd h (by decide))

/-- C01_partition_of_unity_periodic_any_real. -/
example : ∑ c ∈ Finset.range C01_exPer.numFunctions,
    (C01_exPer.evaluate (1/1000) (7/2) 0 true).getD c 0 = 1 :=
  C01_partition_of_unity_periodic_any_real C01_exPer_valid (by decide) (by norm_num)
    C01_exPer_exact_seven_halves (by rw [C01_exPer_wrap]; exact C01_exPer_exact_half) true

/-- C01_evaluate_snap. -/
example : C01_exOpen.evaluate (1/1000) (1/3) 1 true
    = C01_exOpen.evaluate (1/1000) (snap C01_exOpen (1/1000) (1/3)) 1 true ∧
      C01_exOpen.ExactAt (1/1000) (snap C01_exOpen (1/1000) (1/3)) :=
  C01_evaluate_snap C01_exOpen_valid (by norm_num) C01_exOpen_separated (1/3) 1 true

/-- C01_sparse_eq_dense. -/
example : (C01_exOpen.evaluateSparse (1/1000) (1/2) 1 true).toDense C01_exOpen.numFunctions
    = C01_exOpen.evaluate (1/1000) (1/2) 1 true :=
  C01_sparse_eq_dense C01_exOpen (1/1000) (1/2) (by decide) true

/-- C01_periodic_any_real. -/
example : C01_exPer.evaluate (1/1000) (1/2 + (1 : ℤ) * (C01_exPer.stop - C01_exPer.start)) 1 true
    = C01_exPer.evaluate (1/1000) (1/2) 1 true :=
  C01_periodic_any_real C01_exPer_valid (by decide) (by norm_num) 1 C01_exPer_exact_half
    (by rw [C01_exPer_stop, C01_exPer_start]; norm_num; exact C01_exPer_exact_seven_halves)
    (by rw [C01_exPer_stop]; norm_num) (by rw [C01_exPer_stop, C01_exPer_start]; norm_num) 1 true
