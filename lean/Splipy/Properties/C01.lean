import Splipy.Lemmas.EvalRow
import Splipy.Lemmas.EvalRowTotal
import Splipy.Lemmas.EvalRowCsr
import Mathlib.Data.Rat.Floor
import Mathlib.Tactic.NormNum
import Mathlib.Tactic.IntervalCases

/-!
# Property C01: `BSplineBasis.evaluate` returns the mathematically defined B-splines

`b.evaluate tol t d fromRight` is the executable model of `BSplineBasis.evaluate(t, d, from_right)`
for one parameter value (`tol` = `state.knot_tolerance`).  `B`/`dB` are the specification
(Cox–de Boor recursion and its derivative recursion, `Splipy/Spec/BSpline.lean`).

## Part 1 — total theorems (every real parameter; hypotheses: `Valid`, `0 < tol`, index bounds)

The code snaps the parameter to a knot within `tol` (`snap`), then — periodic bases — wraps it into
the domain WITHOUT snapping again, maps "within `tol` of `start`, left limit requested" to `stop`,
uses the left limit within `tol` of `stop`, and skips (`continue`, zero row) points outside the
domain or within `tol` of `start` with the left limit in force.  These tolerance tests are kept
literally in

* `b.codePoint tol u fromRight` (`Lemmas/EvalRowTotal.lean`) — the point at which the triangle runs,
* `b.codeSide tol u fromRight` — the side used by the span search,
* `b.codeSkip tol u fromRight` — the row is skipped,

and `C01_value_deriv` says: for EVERY real `u`, exact or not, the row is zero if skipped and
otherwise consists of the Cox–de Boor values/derivatives (sums over all wrapped images) AT
`codePoint`, one-sided according to `codeSide`.  If `codePoint` is not a knot the side is
irrelevant (`C01_value_deriv_side_irrelevant`).

## Part 2 — `_partial` theorems (extra guards, stated in the docstrings)

`b.ExactAt tol t` says that `t` is a knot or at least `tol` away from every knot, i.e. all
tolerance comparisons made by the code are exact comparisons; under it `codePoint`/`codeSide` take
the readable forms `effSide`, `periodicEff`.
-/

open Splipy

set_option linter.unusedSectionVars false

variable {K : Type} [Field K] [LinearOrder K] [IsStrictOrderedRing K] [FloorRing K]

/-! ## Part 1: total theorems -/

/-- **What `BSplineBasis.evaluate` returns at every real parameter** (valid basis, positive
tolerance, `d < order`; NO exactness hypothesis): entry `c` of the row is `0` if the point is
skipped (`codeSkip`), else the sum over all wrapped images `i ≡ c (mod num_functions)` of the `d`-th
one-sided (`codeSide`) derivative of the Cox–de Boor B-spline `i` at the effective point
`codePoint` (= `snap u`, wrapped but not re-snapped for periodic bases, `stop` for the left limit
at the seam). -/
theorem C01_value_deriv {b : Basis K} (hv : b.Valid) {tol : K} (htol : 0 < tol) (u : K) {d : ℕ}
    (hd : d < b.order) (fromRight : Bool) {c : ℕ} (hc : c < b.numFunctions) :
    (b.evaluate tol u d fromRight).getD c 0
      = if b.codeSkip tol u fromRight then 0
        else ∑ i ∈ (Finset.range b.nAll).filter (fun i => i % b.numFunctions = c),
          dB (b.codeSide tol u fromRight) b.kn (b.order - 1) i d (b.codePoint tol u fromRight) :=
  evaluate_getD_any hv htol u hd fromRight hc

/-- Non-periodic form of `C01_value_deriv` (every real parameter): entry `c` is `0` if skipped
(snapped parameter outside the domain, or within `tol` of `start` with the left limit in force),
else the `d`-th one-sided derivative of the `c`-th B-spline at the snapped parameter. -/
theorem C01_value_deriv_open_any {b : Basis K} (hv : b.Valid) (hper : b.periodic = -1) {tol : K}
    (htol : 0 < tol) (u : K) {d : ℕ} (hd : d < b.order) (fromRight : Bool) {c : ℕ}
    (hc : c < b.numFunctions) :
    (b.evaluate tol u d fromRight).getD c 0
      = if b.codeSkip tol u fromRight then 0
        else dB (b.codeSide tol u fromRight) b.kn (b.order - 1) c d (snap b tol u) := by
  rw [C01_value_deriv hv htol u hd fromRight hc]
  split_ifs
  · rfl
  · rw [Basis.numFunctions_of_nonperiodic hper] at hc ⊢
    rw [sum_filter_mod_self _ _ _ hc]
    unfold Basis.codePoint
    rw [if_neg (by rw [hper]; decide)]

/-- If the effective point is not a knot, the side is irrelevant: the row holds THE values /
derivatives of the B-splines at that point. -/
theorem C01_value_deriv_side_irrelevant {b : Basis K} (hv : b.Valid) {tol : K} (htol : 0 < tol)
    (u : K) {d : ℕ} (hd : d < b.order) (fromRight : Bool) {c : ℕ} (hc : c < b.numFunctions)
    (hns : ¬ b.codeSkip tol u fromRight) (hnk : ∀ j, b.codePoint tol u fromRight ≠ b.kn j)
    (s : Side) :
    (b.evaluate tol u d fromRight).getD c 0
      = ∑ i ∈ (Finset.range b.nAll).filter (fun i => i % b.numFunctions = c),
          dB s b.kn (b.order - 1) i d (b.codePoint tol u fromRight) := by
  rw [C01_value_deriv hv htol u hd fromRight hc, if_neg hns]
  exact Finset.sum_congr rfl (fun i _ => dB_side_irrel b.kn _ i d _ hnk _ _)

/-- A skipped parameter gives the zero row (any `d`). -/
theorem C01_skipped_zero (b : Basis K) (tol u : K) (d : ℕ) (fromRight : Bool)
    (h : b.codeSkip tol u fromRight) :
    b.evaluate tol u d fromRight = Array.replicate b.numFunctions 0 :=
  evaluate_eq_zero_of_codeSkip b tol u d fromRight h

/-- The effective point of a non-periodic basis is the snapped parameter. -/
theorem C01_codePoint_nonperiodic {b : Basis K} (hper : b.periodic = -1) (tol u : K)
    (fromRight : Bool) : b.codePoint tol u fromRight = snap b tol u := by
  unfold Basis.codePoint
  rw [if_neg (by rw [hper]; decide)]

/-- Periodic basis, snapped parameter inside the domain: the effective point is the snapped
parameter, except that the left limit within `tol` of the seam `start` is taken at `stop`. -/
theorem C01_codePoint_periodic_inside {b : Basis K} (hper : 0 ≤ b.periodic) (tol u : K)
    (fromRight : Bool) (h1 : b.start ≤ snap b tol u) (h2 : snap b tol u ≤ b.stop) :
    b.codePoint tol u fromRight
      = if |snap b tol u - b.start| < tol ∧ fromRight = false then b.stop else snap b tol u := by
  unfold Basis.codePoint
  rw [if_pos hper, b.wrap_of_mem h1 h2]

/-- Periodic basis, snapped parameter outside the domain: it is wrapped by Python's float modulo
(`pmod x y = x - ⌊x/y⌋·y`) and NOT snapped again. -/
theorem C01_codePoint_periodic_outside {b : Basis K} (hper : 0 ≤ b.periodic) (tol u : K)
    (fromRight : Bool) (h : snap b tol u < b.start ∨ b.stop < snap b tol u) :
    b.codePoint tol u fromRight
      = if |pmod (snap b tol u - b.start) (b.stop - b.start) + b.start - b.start| < tol
            ∧ fromRight = false then b.stop
        else pmod (snap b tol u - b.start) (b.stop - b.start) + b.start := by
  unfold Basis.codePoint Basis.wrap
  rw [if_pos hper, if_pos h]

/-- The side used at the effective point `e`: left within `tol` of `stop`, else as requested. -/
theorem C01_codeSide_eq (b : Basis K) (tol u : K) (fromRight : Bool) :
    b.codeSide tol u fromRight
      = if |b.codePoint tol u fromRight - b.stop| < tol then .left
        else (if fromRight then .right else .left) := rfl

/-- The skip test at the effective point `e`: outside the domain, or within `tol` of `start` with
the left limit in force. -/
theorem C01_codeSkip_iff (b : Basis K) (tol u : K) (fromRight : Bool) :
    b.codeSkip tol u fromRight ↔
      (b.codePoint tol u fromRight < b.start ∨ b.stop < b.codePoint tol u fromRight ∨
        (|b.codePoint tol u fromRight - b.start| < tol ∧ b.codeSide tol u fromRight = .left)) :=
  Iff.rfl

/-- For a periodic basis the effective point always lies in the domain. -/
theorem C01_codePoint_periodic_mem {b : Basis K} (hv : b.Valid) (hper : 0 ≤ b.periodic)
    (tol u : K) (fromRight : Bool) :
    b.start ≤ b.codePoint tol u fromRight ∧ b.codePoint tol u fromRight ≤ b.stop :=
  codePoint_mem_of_periodic hv hper tol u fromRight

/-- The row depends on the parameter only through the effective point. -/
theorem C01_depends_on_codePoint (b : Basis K) (tol u u' : K) (d : ℕ) (fromRight : Bool)
    (h : b.codePoint tol u fromRight = b.codePoint tol u' fromRight) :
    b.evaluate tol u d fromRight = b.evaluate tol u' d fromRight :=
  evaluate_eq_of_codePoint_eq b tol u u' d fromRight h

/-- Non-periodic basis: approaching the start of the domain from the left gives the zero row. -/
theorem C01_start_from_left {b : Basis K} (hv : b.Valid) (hper : b.periodic = -1) {tol : K}
    (htol : 0 < tol) (d : ℕ) :
    b.evaluate tol b.start d false = Array.replicate b.numFunctions 0 := by
  by_cases hd : b.order ≤ d
  · exact evaluate_high b tol _ hd false
  · unfold Basis.evaluate
    simp only []
    rw [if_neg hd, b.start_eq, snap_knot hv htol hv.order_sub_lt, evalRow_eq,
      wrapT_nonperiodic hper, ← b.start_eq, evalAt_start_left b htol, toDense_zeroRow]

/-- Non-periodic basis: if the snapped parameter is outside the domain the row is zero. -/
theorem C01_outside {b : Basis K} (hper : b.periodic = -1) (tol t : K)
    (hout : snap b tol t < b.start ∨ b.stop < snap b tol t) (d : ℕ) (fromRight : Bool) :
    b.evaluate tol t d fromRight = Array.replicate b.numFunctions 0 := by
  apply C01_skipped_zero
  unfold Basis.codeSkip skipAt
  rw [C01_codePoint_nonperiodic hper]
  rcases hout with h | h
  · exact Or.inl h
  · exact Or.inr (Or.inl h)

/-- Derivatives of order `≥ order` : the code returns the zero row (no hypotheses at all) … -/
theorem C01_high_derivative_zero (b : Basis K) (tol t : K) {d : ℕ} (hd : b.order ≤ d)
    (fromRight : Bool) :
    b.evaluate tol t d fromRight = Array.replicate b.numFunctions 0 :=
  evaluate_high b tol t hd fromRight

omit [IsStrictOrderedRing K] [FloorRing K] in
/-- … and so does the specification. -/
theorem C01_high_derivative_zero_spec (b : Basis K) (hp : 1 ≤ b.order) (s : Side) (t : K)
    {d : ℕ} (hd : b.order ≤ d) (i : ℕ) : dB s b.kn (b.order - 1) i d t = 0 :=
  dB_eq_zero_of_gt s b.kn (b.order - 1) i d t (by omega)

/-- The basis functions are non-negative at every real parameter (no exactness hypothesis). -/
theorem C01_nonneg_any {b : Basis K} (hv : b.Valid) {tol : K} (htol : 0 < tol) (t : K)
    (fromRight : Bool) (c : ℕ) :
    0 ≤ (b.evaluate tol t 0 fromRight).getD c 0 :=
  evaluate_nonneg_any hv htol t fromRight c

/-- Partition of unity at every real parameter: the row sums to one unless it is skipped. -/
theorem C01_partition_of_unity_any {b : Basis K} (hv : b.Valid) {tol : K} (htol : 0 < tol) (t : K)
    (fromRight : Bool) :
    ∑ c ∈ Finset.range b.numFunctions, (b.evaluate tol t 0 fromRight).getD c 0
      = if b.codeSkip tol t fromRight then 0 else 1 :=
  evaluate_sum_any hv htol t fromRight

/-- Evaluation at ANY parameter is evaluation at the snapped parameter (`snap` is idempotent; no
separation of the knots needed). -/
theorem C01_evaluate_snap {b : Basis K} (hv : b.Valid) {tol : K} (htol : 0 < tol) (t : K) (d : ℕ)
    (fromRight : Bool) :
    b.evaluate tol t d fromRight = b.evaluate tol (snap b tol t) d fromRight :=
  evaluate_snap_any hv htol t d fromRight

omit [FloorRing K] in
/-- The snapped parameter is a knot, or it is the parameter itself and then at least `tol` away from
every knot. -/
theorem C01_snap_knot_or_far {b : Basis K} (hv : b.Valid) (tol t : K) :
    (∃ k, k < b.knots.size ∧ snap b tol t = b.kn k) ∨
    (snap b tol t = t ∧ ∀ i, i < b.knots.size → tol ≤ |b.kn i - t|) :=
  snap_knot_or_far hv tol t

/-- **The dense and the sparse result forms agree — for the source-derived code.**  The translated
`basis_eval.evaluate` (`Splipy/Generated/Pyx.lean`, regenerated from `basis_eval.pyx` on every run),
applied to the parameters snapped by the translated `basis_eval.snap`, returns the arguments
`((data, indices, indptr), (m, num_functions))` of `scipy.sparse.csr_matrix`, and row `i` of its
`toarray()` (`csrRow`: the slice `indptr[i] : indptr[i+1]` scattered to its column indices,
duplicates summed) is the dense model row `b.evaluate tol ts[i] d from_right` described by the
theorems above.  `fuel` bounds the iterations of the `while` loops of the bisections. -/
theorem C01_sparse_eq_dense {b : Basis K} (hv : b.Valid) {tol : K} (htol : 0 < tol) {d : ℕ}
    (hd : d < b.order) (fromRight : Bool) {fuel : ℕ} (hfuel : b.knots.size ≤ fuel) (ts : Array K) :
    ∃ data indices indptr,
      Splipy.Generated.Pyx.evaluate fuel b.knots b.order
          (Splipy.Generated.Pyx.snap fuel b.knots ts tol).t b.periodic tol d fromRight
        = ((data, indices, indptr), (ts.size, b.numFunctions)) ∧
      ∀ i, i < ts.size →
        csrRow data indices indptr b.numFunctions i
          = b.evaluate tol (Splipy.Pyx.aget ts i) d fromRight :=
  pyx_csr_row_eq_evaluate hv htol hd fromRight hfuel ts

omit [IsStrictOrderedRing K] in
/-- The two result forms of the MODEL agree.  This is a definitional restatement (the model's dense
form is defined as `toDense` of its sparse form); the statement with content is
`C01_sparse_eq_dense` about the translated `.pyx`. -/
theorem C01_sparse_eq_dense_model (b : Basis K) (tol t : K) {d : ℕ} (hd : d < b.order)
    (fromRight : Bool) :
    (b.evaluateSparse tol t d fromRight).toDense b.numFunctions = b.evaluate tol t d fromRight := by
  unfold Basis.evaluateSparse Basis.evaluate
  simp only []
  rw [if_neg (by omega)]

/-! ## Part 2: theorems with extra guards (`_partial`) -/

/-- Periodic basis with period at least `2·tol`: no parameter is skipped.
PARTIAL — guard `2 * tol ≤ stop - start`.  Missing: shorter periods; there the code DOES skip
(zero row) parameters within `tol` of both seam points, so the statement is false without it. -/
theorem C01_periodic_not_skipped_partial {b : Basis K} (hv : b.Valid) (hper : 0 ≤ b.periodic)
    {tol : K} (h2tol : 2 * tol ≤ b.stop - b.start) (u : K) (fromRight : Bool) :
    ¬ b.codeSkip tol u fromRight :=
  not_codeSkip_of_periodic hv hper h2tol u fromRight

/-- Periodic basis, EVERY real parameter (no exactness hypothesis): the row consists of the sums of
wrapped images of the specification at the effective point.
PARTIAL — guard `2 * tol ≤ stop - start` (see `C01_periodic_not_skipped_partial`); without it
`C01_value_deriv` applies. -/
theorem C01_value_deriv_periodic_all_partial {b : Basis K} (hv : b.Valid) (hper : 0 ≤ b.periodic)
    {tol : K} (htol : 0 < tol) (h2tol : 2 * tol ≤ b.stop - b.start) (u : K) {d : ℕ}
    (hd : d < b.order) (fromRight : Bool) {c : ℕ} (hc : c < b.numFunctions) :
    (b.evaluate tol u d fromRight).getD c 0
      = ∑ i ∈ (Finset.range b.nAll).filter (fun i => i % b.numFunctions = c),
          dB (b.codeSide tol u fromRight) b.kn (b.order - 1) i d (b.codePoint tol u fromRight) := by
  rw [C01_value_deriv hv htol u hd fromRight hc,
    if_neg (not_codeSkip_of_periodic hv hper h2tol u fromRight)]

/-- Periodic basis, EVERY real parameter: partition of unity.
PARTIAL — guard `2 * tol ≤ stop - start` (see `C01_periodic_not_skipped_partial`). -/
theorem C01_partition_of_unity_periodic_all_partial {b : Basis K} (hv : b.Valid)
    (hper : 0 ≤ b.periodic) {tol : K} (htol : 0 < tol) (h2tol : 2 * tol ≤ b.stop - b.start)
    (u : K) (fromRight : Bool) :
    ∑ c ∈ Finset.range b.numFunctions, (b.evaluate tol u 0 fromRight).getD c 0 = 1 := by
  rw [C01_partition_of_unity_any hv htol u fromRight,
    if_neg (not_codeSkip_of_periodic hv hper h2tol u fromRight)]

/-- Non-periodic basis, `t` in the domain (except the start approached from the left): entry `c`
of the row is the `d`-th one-sided derivative of the `c`-th B-spline; the side is the requested
one, except at the domain end, where it is always the limit from inside.
PARTIAL — guard `ExactAt tol t` (then `snap t = t`, `codePoint = t`, `codeSide = effSide`);
inexact parameters are covered by `C01_value_deriv`. -/
theorem C01_value_deriv_open_partial {b : Basis K} (hv : b.Valid) (hper : b.periodic = -1) {tol t : K}
    (htol : 0 < tol) (hex : b.ExactAt tol t) (h1 : b.start ≤ t) (h2 : t ≤ b.stop)
    {fromRight : Bool} (hnot : ¬ (t = b.start ∧ fromRight = false))
    {d : ℕ} (hd : d < b.order) {c : ℕ} (hc : c < b.numFunctions) :
    (b.evaluate tol t d fromRight).getD c 0
      = dB (effSide b t fromRight) b.kn (b.order - 1) c d t := by
  rw [evaluate_of_exact b htol hex hd, wrapT_nonperiodic hper,
    evalAt_toDense_inside hv htol hd fromRight (hex.start hv) (hex.stop hv) h1 h2 hnot hc]
  rw [Basis.numFunctions_of_nonperiodic hper] at hc ⊢
  exact sum_filter_mod_self _ _ _ hc

/-- Periodic basis, `t` in the domain: entry `c` is the sum of all wrapped images (all `i` with
`i ≡ c` modulo `numFunctions`) of the one-sided derivative at the effective point/side
`periodicEff b t fromRight` (left limit at the seam `start` = left limit at `stop`).
PARTIAL — guards `ExactAt tol t` and `t ∈ [start, stop]`; every real parameter is covered by
`C01_value_deriv` / `C01_value_deriv_periodic_all_partial`. -/
theorem C01_value_deriv_periodic_partial {b : Basis K} (hv : b.Valid) (hper : 0 ≤ b.periodic)
    {tol t : K} (htol : 0 < tol) (hex : b.ExactAt tol t) (h1 : b.start ≤ t) (h2 : t ≤ b.stop)
    (fromRight : Bool) {d : ℕ} (hd : d < b.order) {c : ℕ} (hc : c < b.numFunctions) :
    (b.evaluate tol t d fromRight).getD c 0
      = ∑ i ∈ (Finset.range b.nAll).filter (fun i => i % b.numFunctions = c),
          dB (periodicEff b t fromRight).2 b.kn (b.order - 1) i d (periodicEff b t fromRight).1 := by
  obtain ⟨e1, e2, e3, e4, e5, e6⟩ := periodicEff_spec hv hex fromRight h1 h2
  rw [evaluate_of_exact b htol hex hd, wrapT_periodic_inside hv hper htol hex fromRight h1 h2,
    evalAt_toDense_inside hv htol hd fromRight e1 e2 e3 e4 e5 hc, e6]

/-- Periodic basis, arbitrary real parameter `u`: the row is the one of the wrapped point.
PARTIAL — guards `ExactAt tol u` and `ExactAt tol (b.wrap u)`.  The second one is NOT supplied by
the code (it snaps before wrapping and does not snap again: `6 - 5e-11` on a period-3 basis is
evaluated at the un-snapped `3 - 5e-11`); `C01_value_deriv` has no such guard. -/
theorem C01_value_deriv_periodic_any_real_partial {b : Basis K} (hv : b.Valid) (hper : 0 ≤ b.periodic)
    {tol u : K} (htol : 0 < tol) (hex : b.ExactAt tol u) (hexw : b.ExactAt tol (b.wrap u))
    (fromRight : Bool) {d : ℕ} (hd : d < b.order) {c : ℕ} (hc : c < b.numFunctions) :
    (b.evaluate tol u d fromRight).getD c 0
      = ∑ i ∈ (Finset.range b.nAll).filter (fun i => i % b.numFunctions = c),
          dB (periodicEff b (b.wrap u) fromRight).2 b.kn (b.order - 1) i d
            (periodicEff b (b.wrap u) fromRight).1 := by
  rw [evaluate_wrap hv hper htol hex hexw]
  exact C01_value_deriv_periodic_partial hv hper htol hexw (b.wrap_mem hv u).1 (b.wrap_mem hv u).2
    fromRight hd hc

/-- The basis functions are non-negative (every exact parameter; for periodic bases the wrapped
parameter has to be exact as well).
PARTIAL — guards `ExactAt tol t` and, for periodic bases, `ExactAt tol (b.wrap t)`; superseded by the
total `C01_nonneg_any` (kept because other files use it). -/
theorem C01_nonneg_partial {b : Basis K} (hv : b.Valid) {tol t : K} (htol : 0 < tol)
    (hex : b.ExactAt tol t) (hexw : 0 ≤ b.periodic → b.ExactAt tol (b.wrap t))
    (fromRight : Bool) (c : ℕ) :
    0 ≤ (b.evaluate tol t 0 fromRight).getD c 0 := by
  have hp := hv.order_pos
  by_cases hper : 0 ≤ b.periodic
  · have hw := hexw hper
    obtain ⟨e1, e2, -, -, -, -⟩ :=
      periodicEff_spec hv hw fromRight (b.wrap_mem hv t).1 (b.wrap_mem hv t).2
    rw [evaluate_wrap hv hper htol hex hw, evaluate_of_exact b htol hw (by omega),
      wrapT_periodic_inside hv hper htol hw fromRight (b.wrap_mem hv t).1 (b.wrap_mem hv t).2]
    exact evalAt_toDense_nonneg hv htol (by omega) fromRight e1 e2 c
  · have hper' : b.periodic = -1 := by have := hv.periodic_ge; omega
    rw [evaluate_of_exact b htol hex (by omega), wrapT_nonperiodic hper']
    exact evalAt_toDense_nonneg hv htol (by omega) fromRight (hex.start hv) (hex.stop hv) c

/-- Partition of unity on the domain (for non-periodic bases except the start from the left).
PARTIAL — guards `ExactAt tol t`, `t ∈ [start, stop]`; `C01_partition_of_unity_any` covers every real
parameter (sum `= 1` unless skipped). -/
theorem C01_partition_of_unity_partial {b : Basis K} (hv : b.Valid) {tol t : K} (htol : 0 < tol)
    (hex : b.ExactAt tol t) (h1 : b.start ≤ t) (h2 : t ≤ b.stop) (fromRight : Bool)
    (hnot : b.periodic = -1 → ¬ (t = b.start ∧ fromRight = false)) :
    ∑ c ∈ Finset.range b.numFunctions, (b.evaluate tol t 0 fromRight).getD c 0 = 1 := by
  have hp := hv.order_pos
  by_cases hper : 0 ≤ b.periodic
  · obtain ⟨e1, e2, e3, e4, e5, -⟩ := periodicEff_spec hv hex fromRight h1 h2
    rw [evaluate_of_exact b htol hex (by omega),
      wrapT_periodic_inside hv hper htol hex fromRight h1 h2]
    exact evalAt_toDense_partition hv htol fromRight e1 e2 e3 e4 e5
  · have hper' : b.periodic = -1 := by have := hv.periodic_ge; omega
    rw [evaluate_of_exact b htol hex (by omega), wrapT_nonperiodic hper']
    exact evalAt_toDense_partition hv htol fromRight (hex.start hv) (hex.stop hv) h1 h2
      (hnot hper')

/-- Partition of unity for periodic bases at an arbitrary real parameter.
PARTIAL — guards `ExactAt tol u`, `ExactAt tol (b.wrap u)` (the latter is not supplied by the code);
see `C01_partition_of_unity_any` / `C01_partition_of_unity_periodic_all_partial`. -/
theorem C01_partition_of_unity_periodic_any_real_partial {b : Basis K} (hv : b.Valid)
    (hper : 0 ≤ b.periodic) {tol u : K} (htol : 0 < tol) (hex : b.ExactAt tol u)
    (hexw : b.ExactAt tol (b.wrap u)) (fromRight : Bool) :
    ∑ c ∈ Finset.range b.numFunctions, (b.evaluate tol u 0 fromRight).getD c 0 = 1 := by
  rw [evaluate_wrap hv hper htol hex hexw]
  exact C01_partition_of_unity_partial hv htol hexw (b.wrap_mem hv u).1 (b.wrap_mem hv u).2 fromRight
    (fun h => by rw [h] at hper; exact absurd hper (by decide))

/-- If distinct knot values are at least `tol` apart, evaluation at ANY parameter `t` is evaluation
at the snapped parameter, and the snapped parameter is exact — so all `ExactAt` theorems of this
file apply to `snap b tol t`.
PARTIAL — guard `Separated tol` (needed only for the second conjunct; the first one is the total
`C01_evaluate_snap`; without separation `C01_snap_knot_or_far` is what remains true). -/
theorem C01_evaluate_snap_partial {b : Basis K} (hv : b.Valid) {tol : K} (htol : 0 < tol)
    (hsep : b.Separated tol) (t : K) (d : ℕ) (fromRight : Bool) :
    b.evaluate tol t d fromRight = b.evaluate tol (snap b tol t) d fromRight ∧
      b.ExactAt tol (snap b tol t) :=
  ⟨evaluate_snap hv htol hsep t d fromRight, exactAt_snap hv hsep t⟩

/-- Periodic bases can be evaluated at any real: shifting the parameter by whole periods does not
change the row (`t` and the shifted parameter must not be the domain end `stop` itself, whose row
is the left limit, whereas `stop + m·T` wraps to `start`).
PARTIAL — guards `ExactAt` at both parameters and both `≠ stop`; superseded by
`C01_periodic_shift_partial` (weaker guards, domain end included). -/
theorem C01_periodic_any_real_partial {b : Basis K} (hv : b.Valid) (hper : 0 ≤ b.periodic) {tol t : K}
    (htol : 0 < tol) (m : ℤ) (hex : b.ExactAt tol t)
    (hex' : b.ExactAt tol (t + m * (b.stop - b.start)))
    (h1 : t ≠ b.stop) (h2 : t + m * (b.stop - b.start) ≠ b.stop) (d : ℕ) (fromRight : Bool) :
    b.evaluate tol (t + m * (b.stop - b.start)) d fromRight = b.evaluate tol t d fromRight :=
  evaluate_add_int_mul hv hper htol m hex hex' h1 h2 d fromRight

/-- **Shift by whole periods**, domain end included.  PARTIAL — guards:
* both parameters are fixed by `snap` (weaker than `ExactAt`; NECESSARY: `1 + 5e-11` is snapped to
  the knot `1`, `1 + 5e-11 + 2T` is near no knot of the array and is evaluated un-snapped);
* one of: (a) neither parameter is the domain end `stop`; (b) the left limit is requested and
  `tol ≤ stop - start` (any `d`); (c) values (`d = 0`), seam of multiplicity `< order`
  (`Basis.SeamSimple`) and the two seam points exact — `evaluate_stop_eq_start`
  (`Lemmas/C08SeamRow.lean`).
Missing, because FALSE: derivative rows (`d ≥ 1`) with the right limit at `t = stop` —
`evaluate(stop, d, True)` is the left limit at `stop`, `evaluate(stop + T, d, True)` the right
limit at `start`; for `BSplineBasis(3,[-1,0,0,1,2,3,3,4],0)`, `d = 1`: `[2,0,0,-2]` vs
`[-2,2,0,0]`. -/
theorem C01_periodic_shift_partial {b : Basis K} (hv : b.Valid) (hper : 0 ≤ b.periodic)
    {tol t : K} (htol : 0 < tol) (m : ℤ) (hs : snap b tol t = t)
    (hs' : snap b tol (t + m * (b.stop - b.start)) = t + m * (b.stop - b.start))
    (d : ℕ) (fromRight : Bool)
    (hcase : (t ≠ b.stop ∧ t + m * (b.stop - b.start) ≠ b.stop) ∨
      (fromRight = false ∧ tol ≤ b.stop - b.start) ∨
      (d = 0 ∧ (∀ j, j + (b.order - 1) < b.knots.size → b.kn j = b.start →
          b.kn (j + (b.order - 1)) ≠ b.start) ∧ b.ExactAt tol b.start ∧ b.ExactAt tol b.stop)) :
    b.evaluate tol (t + m * (b.stop - b.start)) d fromRight = b.evaluate tol t d fromRight := by
  rcases hcase with ⟨h1, h2⟩ | ⟨hf, hT⟩ | ⟨hd, hmult, hex0, hex1⟩
  · exact evaluate_shift_of_ne_stop hv hper m hs hs' h1 h2 d fromRight
  · subst hf
    exact evaluate_shift_left hv hper htol hT m hs hs' d
  · subst hd
    cases fromRight with
    | true => exact evaluate_shift_value hv hper hmult htol hex0 hex1 m hs hs'
    | false =>
      have hT : tol ≤ b.stop - b.start := by
        rcases hex0 b.nAll hv.nAll_lt with h | h
        · exact absurd h.symm (ne_of_lt hv.start_lt_stop)
        · rwa [← b.stop_eq, abs_of_pos (sub_pos.mpr hv.start_lt_stop)] at h
      exact evaluate_shift_left hv hper htol hT m hs hs' 0

/-! ### Old names, kept ONLY because other files use them (`alias`, not listed as property theorems) -/

alias C01_value_deriv_open := C01_value_deriv_open_partial
alias C01_value_deriv_periodic_any_real := C01_value_deriv_periodic_any_real_partial
alias C01_nonneg := C01_nonneg_partial
alias C01_partition_of_unity := C01_partition_of_unity_partial
alias C01_partition_of_unity_periodic_any_real := C01_partition_of_unity_periodic_any_real_partial
alias C01_periodic_any_real := C01_periodic_any_real_partial


/-! ## Non-vacuity: concrete bases over `ℚ` meeting the hypotheses of every theorem -/

/-- Open quadratic basis with a double interior knot. -/
def C01_exOpen : Basis ℚ := ⟨3, #[0, 0, 0, 1, 2, 2, 3, 3, 3], -1⟩

/-- Periodic (`C^0`) quadratic basis. -/
def C01_exPer : Basis ℚ := ⟨3, #[-1, 0, 0, 1, 2, 3, 3, 4], 0⟩

theorem C01_exOpen_valid : C01_exOpen.Valid where
  order_pos := by decide
  size_ge := by decide
  sorted := by
    intro i hi
    have hi' : i + 1 < 9 := hi
    have hi'' : i < 8 := by omega
    interval_cases i <;> norm_num [Basis.kn, C01_exOpen]
  periodic_ge := by decide
  periodic_le := by decide
  start_lt_stop := by norm_num [Basis.start, Basis.stop, Basis.kn, C01_exOpen]
  ghosts := fun h => absurd h (by decide)

theorem C01_exPer_valid : C01_exPer.Valid where
  order_pos := by decide
  size_ge := by decide
  sorted := by
    intro i hi
    have hi' : i + 1 < 8 := hi
    have hi'' : i < 7 := by omega
    interval_cases i <;> norm_num [Basis.kn, C01_exPer]
  periodic_ge := by decide
  periodic_le := by decide
  start_lt_stop := by norm_num [Basis.start, Basis.stop, Basis.kn, C01_exPer]
  ghosts := by
    intro _ i hi
    have hi' : i + 4 < 8 := hi
    have hi'' : i < 4 := by omega
    interval_cases i <;>
      norm_num [Basis.start, Basis.stop, Basis.kn, Basis.numFunctions, C01_exPer]

theorem C01_exOpen_start : C01_exOpen.start = 0 := by
  norm_num [Basis.start, Basis.kn, C01_exOpen]

theorem C01_exOpen_stop : C01_exOpen.stop = 3 := by
  norm_num [Basis.stop, Basis.kn, C01_exOpen]

theorem C01_exPer_start : C01_exPer.start = 0 := by
  norm_num [Basis.start, Basis.kn, C01_exPer]

theorem C01_exPer_stop : C01_exPer.stop = 3 := by
  norm_num [Basis.stop, Basis.kn, C01_exPer]

/-- Exactness at an arbitrary rational that is at least `1/1000` away from the integers `-1 … 4`
or equal to one of them is checked knot by knot. -/
theorem C01_exOpen_exact_half : C01_exOpen.ExactAt (1/1000) (1/2) := by
  intro i hi
  have hi' : i < 9 := hi
  interval_cases i <;> norm_num [Basis.kn, C01_exOpen, abs_of_nonneg, abs_of_neg]

theorem C01_exOpen_exact_stop : C01_exOpen.ExactAt (1/1000) 3 := by
  intro i hi
  have hi' : i < 9 := hi
  interval_cases i <;> norm_num [Basis.kn, C01_exOpen, abs_of_nonneg, abs_of_neg]

theorem C01_exOpen_exact_four : C01_exOpen.ExactAt (1/1000) 4 := by
  intro i hi
  have hi' : i < 9 := hi
  interval_cases i <;> norm_num [Basis.kn, C01_exOpen, abs_of_nonneg, abs_of_neg]

theorem C01_exPer_exact_half : C01_exPer.ExactAt (1/1000) (1/2) := by
  intro i hi
  have hi' : i < 8 := hi
  interval_cases i <;> norm_num [Basis.kn, C01_exPer, abs_of_nonneg, abs_of_neg]

theorem C01_exPer_exact_zero : C01_exPer.ExactAt (1/1000) 0 := by
  intro i hi
  have hi' : i < 8 := hi
  interval_cases i <;> norm_num [Basis.kn, C01_exPer, abs_of_nonneg, abs_of_neg]

theorem C01_exPer_exact_seven_halves : C01_exPer.ExactAt (1/1000) (7/2) := by
  intro i hi
  have hi' : i < 8 := hi
  interval_cases i <;> norm_num [Basis.kn, C01_exPer, abs_of_nonneg, abs_of_neg]

theorem C01_exPer_wrap : C01_exPer.wrap (7/2) = 1/2 := by
  have h0 : C01_exPer.wrap (1/2) = 1/2 :=
    C01_exPer.wrap_of_mem (by rw [C01_exPer_start]; norm_num) (by rw [C01_exPer_stop]; norm_num)
  have h := C01_exPer.wrap_add_int_mul C01_exPer_valid (1/2) 1
    (by rw [C01_exPer_stop]; norm_num) (by rw [C01_exPer_stop, C01_exPer_start]; norm_num)
  rw [h0, C01_exPer_stop, C01_exPer_start] at h
  rw [← h]
  norm_num

theorem C01_exOpen_separated : C01_exOpen.Separated (1/1000) := by
  intro i j hi hj
  have hi' : i < 9 := hi
  have hj' : j < 9 := hj
  interval_cases i <;> interval_cases j <;>
    norm_num [Basis.kn, C01_exOpen, abs_of_nonneg, abs_of_neg]

theorem C01_exPer_exact_three : C01_exPer.ExactAt (1/1000) 3 := by
  intro i hi
  have hi' : i < 8 := hi
  interval_cases i <;> norm_num [Basis.kn, C01_exPer, abs_of_nonneg, abs_of_neg]

theorem C01_exPer_exact_six : C01_exPer.ExactAt (1/1000) 6 := by
  intro i hi
  have hi' : i < 8 := hi
  interval_cases i <;> norm_num [Basis.kn, C01_exPer, abs_of_nonneg, abs_of_neg]

/-- The auditor's parameter: `6 - tol/2` on the period-3 basis is near no knot of the array … -/
theorem C01_exPer_exact_near_six : C01_exPer.ExactAt (1/1000) (6 - 1/2000) := by
  intro i hi
  have hi' : i < 8 := hi
  interval_cases i <;> norm_num [Basis.kn, C01_exPer, abs_of_nonneg, abs_of_neg]

/-- … but wraps to `3 - tol/2`, which is within `tol` of the knot `3` and not equal to it. -/
theorem C01_exPer_not_exact_wrapped : ¬ C01_exPer.ExactAt (1/1000) (3 - 1/2000) := by
  intro h
  have := h 5 (by decide)
  norm_num [Basis.kn, C01_exPer, abs_of_nonneg] at this

/-- The seam of `C01_exPer` has multiplicity `2 < 3` (`Basis.SeamSimple`). -/
theorem C01_exPer_seamSimple : ∀ j, j + (C01_exPer.order - 1) < C01_exPer.knots.size →
    C01_exPer.kn j = C01_exPer.start → C01_exPer.kn (j + (C01_exPer.order - 1)) ≠ C01_exPer.start := by
  intro j hj
  have hj' : j + 2 < 8 := hj
  have hj'' : j < 6 := by omega
  rw [C01_exPer_start]
  interval_cases j <;> norm_num [Basis.kn, C01_exPer]

theorem C01_exPer_pmod (x : ℚ) (h0 : 0 ≤ x) (h3 : x < 3) :
    pmod (x + 3 - C01_exPer.start) (C01_exPer.stop - C01_exPer.start) = x := by
  rw [C01_exPer_start, C01_exPer_stop]
  have := pmod_add_int_mul x 3 1 (by norm_num)
  rw [show x + 3 - 0 = x + ((1 : ℤ) : ℚ) * 3 by norm_num, sub_zero, this, pmod_of_mem x 3 h0 h3]

/-- The effective point of the auditor's parameter: the un-snapped wrapped value. -/
theorem C01_exPer_codePoint_near_six (fromRight : Bool) :
    C01_exPer.codePoint (1/1000) (6 - 1/2000) fromRight = 3 - 1/2000 := by
  have hs : snap C01_exPer (1/1000) (6 - 1/2000) = 6 - 1/2000 :=
    snap_of_exact _ (by norm_num) C01_exPer_exact_near_six
  rw [C01_codePoint_periodic_outside (by decide) _ _ _ (by rw [hs, C01_exPer_stop]; norm_num), hs,
    show (6 : ℚ) - 1/2000 = (3 - 1/2000) + 3 by norm_num,
    C01_exPer_pmod _ (by norm_num) (by norm_num), C01_exPer_start]
  rw [if_neg (by
    rintro ⟨h, -⟩
    rw [abs_of_nonneg (by norm_num)] at h
    norm_num at h)]
  norm_num

theorem C01_exPer_not_knot_near_three : ∀ j, (3 : ℚ) - 1/2000 ≠ C01_exPer.kn j := by
  intro j
  by_cases hj : j < 8
  · interval_cases j <;> norm_num [Basis.kn, C01_exPer]
  · rw [C01_exPer.kn_of_ge (by simpa [C01_exPer] using hj)]
    norm_num [Basis.kn, C01_exPer]

theorem C01_exPer_period : 2 * (1/1000 : ℚ) ≤ C01_exPer.stop - C01_exPer.start := by
  rw [C01_exPer_stop, C01_exPer_start]; norm_num

/-! ### Part 1 (total theorems) -/

/-- C01_value_deriv at the auditor's parameter (periodic, wraps to within `tol` of a knot). -/
example : (C01_exPer.evaluate (1/1000) (6 - 1/2000) 1 true).getD 0 0
    = if C01_exPer.codeSkip (1/1000) (6 - 1/2000) true then 0
      else ∑ i ∈ (Finset.range C01_exPer.nAll).filter (fun i => i % C01_exPer.numFunctions = 0),
        dB (C01_exPer.codeSide (1/1000) (6 - 1/2000) true) C01_exPer.kn (C01_exPer.order - 1) i 1
          (C01_exPer.codePoint (1/1000) (6 - 1/2000) true) :=
  C01_value_deriv C01_exPer_valid (by norm_num) _ (by decide) true (by decide)

/-- … where the effective point is `3 - 1/2000` and the side used is the left one. -/
example : C01_exPer.codePoint (1/1000) (6 - 1/2000) true = 3 - 1/2000 ∧
    C01_exPer.codeSide (1/1000) (6 - 1/2000) true = .left := by
  refine ⟨C01_exPer_codePoint_near_six true, ?_⟩
  rw [C01_codeSide_eq, C01_exPer_codePoint_near_six, C01_exPer_stop, if_pos]
  rw [abs_of_neg (by norm_num)]; norm_num

/-- C01_value_deriv, non-periodic. -/
example : (C01_exOpen.evaluate (1/1000) (1/3) 2 false).getD 1 0
    = if C01_exOpen.codeSkip (1/1000) (1/3) false then 0
      else ∑ i ∈ (Finset.range C01_exOpen.nAll).filter (fun i => i % C01_exOpen.numFunctions = 1),
        dB (C01_exOpen.codeSide (1/1000) (1/3) false) C01_exOpen.kn (C01_exOpen.order - 1) i 2
          (C01_exOpen.codePoint (1/1000) (1/3) false) :=
  C01_value_deriv C01_exOpen_valid (by norm_num) _ (by decide) false (by decide)

/-- C01_value_deriv_open_any. -/
example : (C01_exOpen.evaluate (1/1000) (1/3) 2 false).getD 1 0
    = if C01_exOpen.codeSkip (1/1000) (1/3) false then 0
      else dB (C01_exOpen.codeSide (1/1000) (1/3) false) C01_exOpen.kn (C01_exOpen.order - 1) 1 2
        (snap C01_exOpen (1/1000) (1/3)) :=
  C01_value_deriv_open_any C01_exOpen_valid rfl (by norm_num) _ (by decide) false (by decide)

/-- C01_value_deriv_side_irrelevant / C01_periodic_not_skipped_partial. -/
example (s : Side) : (C01_exPer.evaluate (1/1000) (6 - 1/2000) 1 true).getD 0 0
    = ∑ i ∈ (Finset.range C01_exPer.nAll).filter (fun i => i % C01_exPer.numFunctions = 0),
        dB s C01_exPer.kn (C01_exPer.order - 1) i 1 (C01_exPer.codePoint (1/1000) (6 - 1/2000) true) :=
  C01_value_deriv_side_irrelevant C01_exPer_valid (by norm_num) _ (by decide) true (by decide)
    (C01_periodic_not_skipped_partial C01_exPer_valid (by decide) C01_exPer_period _ _)
    (by rw [C01_exPer_codePoint_near_six]; exact C01_exPer_not_knot_near_three) s

/-- C01_skipped_zero / C01_codePoint_nonperiodic / C01_codeSkip_iff. -/
example : C01_exOpen.evaluate (1/1000) 4 1 true = Array.replicate C01_exOpen.numFunctions 0 :=
  C01_skipped_zero _ _ _ _ _ (by
    rw [C01_codeSkip_iff, C01_codePoint_nonperiodic rfl,
      snap_of_exact _ (by norm_num) C01_exOpen_exact_four, C01_exOpen_stop]
    right; left; norm_num)

/-- C01_codePoint_periodic_inside. -/
example : C01_exPer.codePoint (1/1000) 0 false = C01_exPer.stop := by
  have hs : snap C01_exPer (1/1000) 0 = 0 := snap_of_exact _ (by norm_num) C01_exPer_exact_zero
  rw [C01_codePoint_periodic_inside (by decide) _ _ _ (by rw [hs, C01_exPer_start])
    (by rw [hs, C01_exPer_stop]; norm_num), hs, C01_exPer_start, if_pos]
  norm_num

/-- C01_codePoint_periodic_mem. -/
example : C01_exPer.start ≤ C01_exPer.codePoint (1/1000) 17 true ∧
    C01_exPer.codePoint (1/1000) 17 true ≤ C01_exPer.stop :=
  C01_codePoint_periodic_mem C01_exPer_valid (by decide) _ _ _

/-- C01_depends_on_codePoint: `1/2` and `7/2` have the same effective point. -/
example : C01_exPer.evaluate (1/1000) (7/2) 1 true = C01_exPer.evaluate (1/1000) (1/2) 1 true := by
  apply C01_depends_on_codePoint
  have hs : snap C01_exPer (1/1000) (1/2) = 1/2 := snap_of_exact _ (by norm_num) C01_exPer_exact_half
  have hs' : snap C01_exPer (1/1000) (7/2) = 7/2 :=
    snap_of_exact _ (by norm_num) C01_exPer_exact_seven_halves
  rw [C01_codePoint_periodic_outside (by decide) _ _ _ (by rw [hs', C01_exPer_stop]; norm_num), hs',
    C01_codePoint_periodic_inside (by decide) _ _ _ (by rw [hs, C01_exPer_start]; norm_num)
      (by rw [hs, C01_exPer_stop]; norm_num), hs,
    show (7 : ℚ) / 2 = 1/2 + 3 by norm_num, C01_exPer_pmod _ (by norm_num) (by norm_num)]
  simp [C01_exPer_start]

/-- C01_start_from_left. -/
example : C01_exOpen.evaluate (1/1000) C01_exOpen.start 0 false
    = Array.replicate C01_exOpen.numFunctions 0 :=
  C01_start_from_left C01_exOpen_valid rfl (by norm_num) 0

/-- C01_outside. -/
example : C01_exOpen.evaluate (1/1000) 4 1 true = Array.replicate C01_exOpen.numFunctions 0 :=
  C01_outside rfl _ _ (Or.inr (by
    rw [snap_of_exact _ (by norm_num) C01_exOpen_exact_four, C01_exOpen_stop]; norm_num)) 1 true

/-- C01_high_derivative_zero / C01_high_derivative_zero_spec. -/
example : C01_exOpen.evaluate (1/1000) (1/2) 3 true
    = Array.replicate C01_exOpen.numFunctions 0 :=
  C01_high_derivative_zero C01_exOpen (1/1000) (1/2) (by decide) true

example : dB .right C01_exOpen.kn 2 1 3 (1/2) = 0 :=
  C01_high_derivative_zero_spec C01_exOpen (by decide) .right (1/2) (d := 3) (by decide) 1

/-- C01_nonneg_any (every real parameter). -/
example : 0 ≤ (C01_exPer.evaluate (1/1000) (6 - 1/2000) 0 false).getD 1 0 :=
  C01_nonneg_any C01_exPer_valid (by norm_num) _ false 1

/-- C01_partition_of_unity_any / C01_partition_of_unity_periodic_all_partial. -/
example : ∑ c ∈ Finset.range C01_exPer.numFunctions,
    (C01_exPer.evaluate (1/1000) (6 - 1/2000) 0 true).getD c 0
      = if C01_exPer.codeSkip (1/1000) (6 - 1/2000) true then 0 else 1 :=
  C01_partition_of_unity_any C01_exPer_valid (by norm_num) _ true

example : ∑ c ∈ Finset.range C01_exPer.numFunctions,
    (C01_exPer.evaluate (1/1000) (6 - 1/2000) 0 true).getD c 0 = 1 :=
  C01_partition_of_unity_periodic_all_partial C01_exPer_valid (by decide) (by norm_num)
    C01_exPer_period _ true

/-- C01_value_deriv_periodic_all_partial. -/
example : (C01_exPer.evaluate (1/1000) (6 - 1/2000) 1 false).getD 2 0
    = ∑ i ∈ (Finset.range C01_exPer.nAll).filter (fun i => i % C01_exPer.numFunctions = 2),
        dB (C01_exPer.codeSide (1/1000) (6 - 1/2000) false) C01_exPer.kn (C01_exPer.order - 1) i 1
          (C01_exPer.codePoint (1/1000) (6 - 1/2000) false) :=
  C01_value_deriv_periodic_all_partial C01_exPer_valid (by decide) (by norm_num) C01_exPer_period _
    (by decide) false (by decide)

/-- C01_evaluate_snap / C01_snap_knot_or_far. -/
example : C01_exPer.evaluate (1/1000) (1 + 1/2000) 1 true
    = C01_exPer.evaluate (1/1000) (snap C01_exPer (1/1000) (1 + 1/2000)) 1 true :=
  C01_evaluate_snap C01_exPer_valid (by norm_num) _ 1 true

example : (∃ k, k < C01_exPer.knots.size ∧ snap C01_exPer (1/1000) (1 + 1/2000) = C01_exPer.kn k) ∨
    (snap C01_exPer (1/1000) (1 + 1/2000) = 1 + 1/2000 ∧
      ∀ i, i < C01_exPer.knots.size → 1/1000 ≤ |C01_exPer.kn i - (1 + 1/2000)|) :=
  C01_snap_knot_or_far C01_exPer_valid _ _

/-- C01_sparse_eq_dense (translated `.pyx`, two parameters) / C01_sparse_eq_dense_model. -/
example : ∃ data indices indptr,
    Splipy.Generated.Pyx.evaluate 9 C01_exOpen.knots C01_exOpen.order
        (Splipy.Generated.Pyx.snap 9 C01_exOpen.knots #[1/2, 3] (1/1000)).t C01_exOpen.periodic
        (1/1000) 1 true
      = ((data, indices, indptr), ((#[1/2, 3] : Array ℚ).size, C01_exOpen.numFunctions)) ∧
    ∀ i, i < (#[1/2, 3] : Array ℚ).size →
      csrRow data indices indptr C01_exOpen.numFunctions i
        = C01_exOpen.evaluate (1/1000) (Splipy.Pyx.aget #[1/2, 3] i) 1 true :=
  C01_sparse_eq_dense C01_exOpen_valid (by norm_num) (by decide) true (by decide) _

example : (C01_exOpen.evaluateSparse (1/1000) (1/2) 1 true).toDense C01_exOpen.numFunctions
    = C01_exOpen.evaluate (1/1000) (1/2) 1 true :=
  C01_sparse_eq_dense_model C01_exOpen (1/1000) (1/2) (by decide) true

/-! ### Part 2 (`_partial` theorems) -/

/-- C01_value_deriv_open_partial: interior point, first derivative. -/
example : (C01_exOpen.evaluate (1/1000) (1/2) 1 true).getD 2 0
    = dB (effSide C01_exOpen (1/2) true) C01_exOpen.kn 2 2 1 (1/2) :=
  C01_value_deriv_open_partial C01_exOpen_valid rfl (by norm_num) C01_exOpen_exact_half
    (by rw [C01_exOpen_start]; norm_num) (by rw [C01_exOpen_stop]; norm_num)
    (by simp) (by decide) (by decide)

/-- C01_value_deriv_open_partial: the domain end, requested from the right (evaluated from the
left). -/
example : (C01_exOpen.evaluate (1/1000) 3 0 true).getD 5 0
    = dB (effSide C01_exOpen 3 true) C01_exOpen.kn 2 5 0 3 :=
  C01_value_deriv_open_partial C01_exOpen_valid rfl (by norm_num) C01_exOpen_exact_stop
    (by rw [C01_exOpen_start]; norm_num) (by rw [C01_exOpen_stop])
    (by simp) (by decide) (by decide)

/-- C01_value_deriv_periodic_partial: the seam from the left. -/
example : (C01_exPer.evaluate (1/1000) 0 1 false).getD 3 0
    = ∑ i ∈ (Finset.range C01_exPer.nAll).filter (fun i => i % C01_exPer.numFunctions = 3),
        dB (periodicEff C01_exPer 0 false).2 C01_exPer.kn 2 i 1 (periodicEff C01_exPer 0 false).1 :=
  C01_value_deriv_periodic_partial C01_exPer_valid (by decide) (by norm_num) C01_exPer_exact_zero
    (by rw [C01_exPer_start]) (by rw [C01_exPer_stop]; norm_num) false (by decide) (by decide)

/-- C01_value_deriv_periodic_any_real_partial. -/
example : (C01_exPer.evaluate (1/1000) (7/2) 0 true).getD 0 0
    = ∑ i ∈ (Finset.range C01_exPer.nAll).filter (fun i => i % C01_exPer.numFunctions = 0),
        dB (periodicEff C01_exPer (C01_exPer.wrap (7/2)) true).2 C01_exPer.kn 2 i 0
          (periodicEff C01_exPer (C01_exPer.wrap (7/2)) true).1 :=
  C01_value_deriv_periodic_any_real_partial C01_exPer_valid (by decide) (by norm_num)
    C01_exPer_exact_seven_halves (by rw [C01_exPer_wrap]; exact C01_exPer_exact_half) true
    (by decide) (by decide)

/-- C01_nonneg_partial (non-periodic and periodic). -/
example : 0 ≤ (C01_exOpen.evaluate (1/1000) (1/2) 0 true).getD 1 0 :=
  C01_nonneg_partial C01_exOpen_valid (by norm_num) C01_exOpen_exact_half
    (fun h => absurd h (by decide)) true 1

example : 0 ≤ (C01_exPer.evaluate (1/1000) (7/2) 0 false).getD 1 0 :=
  C01_nonneg_partial C01_exPer_valid (by norm_num) C01_exPer_exact_seven_halves
    (fun _ => by rw [C01_exPer_wrap]; exact C01_exPer_exact_half) false 1

/-- C01_partition_of_unity_partial (non-periodic, and periodic at the seam from the left). -/
example : ∑ c ∈ Finset.range C01_exOpen.numFunctions,
    (C01_exOpen.evaluate (1/1000) (1/2) 0 false).getD c 0 = 1 :=
  C01_partition_of_unity_partial C01_exOpen_valid (by norm_num) C01_exOpen_exact_half
    (by rw [C01_exOpen_start]; norm_num) (by rw [C01_exOpen_stop]; norm_num) false
    (fun _ h => by rw [C01_exOpen_start] at h; norm_num at h)

example : ∑ c ∈ Finset.range C01_exPer.numFunctions,
    (C01_exPer.evaluate (1/1000) 0 0 false).getD c 0 = 1 :=
  C01_partition_of_unity_partial C01_exPer_valid (by norm_num) C01_exPer_exact_zero
    (by rw [C01_exPer_start]) (by rw [C01_exPer_stop]; norm_num) false
    (fun h => absurd h (by decide))

/-- C01_partition_of_unity_periodic_any_real_partial. -/
example : ∑ c ∈ Finset.range C01_exPer.numFunctions,
    (C01_exPer.evaluate (1/1000) (7/2) 0 true).getD c 0 = 1 :=
  C01_partition_of_unity_periodic_any_real_partial C01_exPer_valid (by decide) (by norm_num)
    C01_exPer_exact_seven_halves (by rw [C01_exPer_wrap]; exact C01_exPer_exact_half) true

/-- C01_evaluate_snap_partial. -/
example : C01_exOpen.evaluate (1/1000) (1/3) 1 true
    = C01_exOpen.evaluate (1/1000) (snap C01_exOpen (1/1000) (1/3)) 1 true ∧
      C01_exOpen.ExactAt (1/1000) (snap C01_exOpen (1/1000) (1/3)) :=
  C01_evaluate_snap_partial C01_exOpen_valid (by norm_num) C01_exOpen_separated (1/3) 1 true

/-- C01_periodic_any_real_partial. -/
example : C01_exPer.evaluate (1/1000) (1/2 + (1 : ℤ) * (C01_exPer.stop - C01_exPer.start)) 1 true
    = C01_exPer.evaluate (1/1000) (1/2) 1 true :=
  C01_periodic_any_real_partial C01_exPer_valid (by decide) (by norm_num) 1 C01_exPer_exact_half
    (by rw [C01_exPer_stop, C01_exPer_start]; norm_num; exact C01_exPer_exact_seven_halves)
    (by rw [C01_exPer_stop]; norm_num) (by rw [C01_exPer_stop, C01_exPer_start]; norm_num) 1 true

theorem C01_exPer_snap_shift_half :
    snap C01_exPer (1/1000) (1/2 + ((1 : ℤ) : ℚ) * (C01_exPer.stop - C01_exPer.start))
      = 1/2 + ((1 : ℤ) : ℚ) * (C01_exPer.stop - C01_exPer.start) := by
  apply snap_of_exact _ (by norm_num)
  rw [C01_exPer_stop, C01_exPer_start]; norm_num; exact C01_exPer_exact_seven_halves

theorem C01_exPer_snap_shift_stop :
    snap C01_exPer (1/1000) (C01_exPer.stop + ((1 : ℤ) : ℚ) * (C01_exPer.stop - C01_exPer.start))
      = C01_exPer.stop + ((1 : ℤ) : ℚ) * (C01_exPer.stop - C01_exPer.start) := by
  apply snap_of_exact _ (by norm_num)
  rw [C01_exPer_stop, C01_exPer_start]; norm_num; exact C01_exPer_exact_six

theorem C01_exPer_snap_stop : snap C01_exPer (1/1000) C01_exPer.stop = C01_exPer.stop := by
  apply snap_of_exact _ (by norm_num)
  rw [C01_exPer_stop]; exact C01_exPer_exact_three

/-- C01_periodic_shift_partial, case (a): neither parameter is the domain end. -/
example : C01_exPer.evaluate (1/1000) (1/2 + (1 : ℤ) * (C01_exPer.stop - C01_exPer.start)) 1 true
    = C01_exPer.evaluate (1/1000) (1/2) 1 true :=
  C01_periodic_shift_partial C01_exPer_valid (by decide) (by norm_num) 1
    (snap_of_exact _ (by norm_num) C01_exPer_exact_half) C01_exPer_snap_shift_half 1 true
    (Or.inl ⟨by rw [C01_exPer_stop]; norm_num, by rw [C01_exPer_stop, C01_exPer_start]; norm_num⟩)

/-- C01_periodic_shift_partial, case (b): the domain end, left limit, first derivative. -/
example : C01_exPer.evaluate (1/1000)
      (C01_exPer.stop + (1 : ℤ) * (C01_exPer.stop - C01_exPer.start)) 1 false
    = C01_exPer.evaluate (1/1000) C01_exPer.stop 1 false :=
  C01_periodic_shift_partial C01_exPer_valid (by decide) (by norm_num) 1
    C01_exPer_snap_stop C01_exPer_snap_shift_stop 1 false
    (Or.inr (Or.inl ⟨rfl, by rw [C01_exPer_stop, C01_exPer_start]; norm_num⟩))

/-- C01_periodic_shift_partial, case (c): the domain end, values, right limit (seam continuity). -/
example : C01_exPer.evaluate (1/1000)
      (C01_exPer.stop + (1 : ℤ) * (C01_exPer.stop - C01_exPer.start)) 0 true
    = C01_exPer.evaluate (1/1000) C01_exPer.stop 0 true :=
  C01_periodic_shift_partial C01_exPer_valid (by decide) (by norm_num) 1
    C01_exPer_snap_stop C01_exPer_snap_shift_stop 0 true
    (Or.inr (Or.inr ⟨rfl, C01_exPer_seamSimple,
      by rw [C01_exPer_start]; exact C01_exPer_exact_zero,
      by rw [C01_exPer_stop]; exact C01_exPer_exact_three⟩))
