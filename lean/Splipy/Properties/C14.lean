import Splipy.Lemmas.C14Grid
import Splipy.Lemmas.C14Proj
import Splipy.Lemmas.C14Cubic
import Splipy.Lemmas.C14Spec
import Splipy.Lemmas.C14Through
import Splipy.Lemmas.C14LsqGrid
import Splipy.Lemmas.C14Loft
import Splipy.Lemmas.C14LoftOk
import Splipy.Lemmas.C14Bezier
import Splipy.Lemmas.C14Lsq
import Splipy.Lemmas.C14LsqGrid2
import Splipy.Lemmas.C14Free
import Splipy.Lemmas.C14Energy
import Splipy.Lemmas.C14Clamped
import Splipy.Lemmas.C14Hermite
import Splipy.Lemmas.C14Periodic
import Splipy.Lemmas.C14PerUniform
import Splipy.Lemmas.C08Seam
import Mathlib.Data.Rat.Floor
import Mathlib.Tactic.IntervalCases
import Mathlib.Tactic.NormNum

/-!
# C14 — interpolating and fitting factories reproduce their data

Statements about the executable model `Splipy.Interp.*` (Model/Interp.lean), which the
correspondence run ties to `curve_factory / surface_factory / volume_factory`.
-/

open Splipy Splipy.Interp Finset

variable {K : Type} [Field K] [LinearOrder K] [FloorRing K]

omit [FloorRing K] in
/-- **Solve is correct** (L14 core).  Whenever the model's linear solve (used for `np.linalg.solve`,
`inv`, `spsolve`, `lstsq`) returns `X`, then `A·X = B` — as arrays and entry by entry.
The model's solve is the exact Gauss–Jordan `Mat.solve` followed by an exact certificate check, so
this holds unconditionally for every solve the model performs. -/
theorem C14_solve_correct (A B X : Mat K) (h : solveC A B = .ok X) :
    Mat.mul A X = B ∧
    ∀ i j, i < A.nrows → j < X.ncols → ∑ l ∈ range X.nrows, A.get i l * X.get l j = B.get i j :=
  ⟨(solveC_ok h).2, fun i j hi hj => solveC_entries h i j hi hj⟩

/-- **Curve interpolation reproduces its data.**  If `curve_factory.interpolate(x, basis, t)` (model)
returns control points `c`, then with `ts` the given parameters (or the Greville points) the system
was square and `Σ_l N_l(ts_i) · c_l = x_i` for every data index `i` and component `j`, where
`N_l(ts_i)` is `Basis.evaluate` — i.e. the returned curve evaluated at `ts_i` is `x_i`.  The result
has one row per basis function and exactly the columns of the data (`c.ncols = x.ncols`, so the
quantifier over `j` is not vacuous), with uniform rows when the data rows are uniform. -/
theorem C14_interpolate_curve (b : Basis K) (tol : K) (t : Option (List K)) (x c : Mat K)
    (h : interpolateCurve b tol t x = .ok c) :
    ∃ ts, paramsOrGreville b t = .ok ts ∧ ts.length = b.numFunctions ∧ x.size = ts.length ∧
      (∀ i < ts.length, ∀ j < c.ncols,
        ∑ l ∈ range b.numFunctions, (b.evaluate tol (ts.getD i 0) 0 true).getD l 0 * c.get l j = x.get i j) ∧
      c.size = b.numFunctions ∧ c.ncols = x.ncols ∧
      ∀ m, (∀ i, i < x.size → (x.getD i #[]).size = m) → ∀ l, l < c.size → (c.getD l #[]).size = m := by
  have hd := interpolateCurve_dims b tol t x c h
  unfold interpolateCurve at h
  simp only [bind, Except.bind] at h
  split at h
  · exact absurd h (by simp)
  · rename_i ts hts
    refine ⟨ts, hts, ?_⟩
    split at h
    · exact absurd h (by simp [throw, throwThe, MonadExceptOf.throw])
    · rename_i hc
      rw [size_colloc] at hc
      have h1 : ts.length = b.numFunctions := by omega
      have h2 : x.size = ts.length := by omega
      refine ⟨h1, h2, fun i hi j hj => ?_, hd⟩
      have hX := solveC_entries h i j (by unfold Mat.nrows; rw [size_colloc]; exact hi) hj
      have hrows : c.nrows = b.numFunctions := by
        have := (solveC_ok h).1
        unfold Mat.nrows
        rw [this]
        unfold Mat.ncols
        rw [row_colloc b tol ts 0 0 (by omega), size_evaluate_c14]
      rw [hrows] at hX
      rw [← hX]
      apply sum_congr rfl
      intro l _
      rw [get_colloc b tol ts 0 i l hi]

/-- **Surface interpolation reproduces its grid, for arbitrary NON-SQUARE shapes and both input
layouts** (L11 + L14).  If the loop of `surface_factory.interpolate` (model) returns the control net
`cp` (layout `n_u × n_v × dim`), then evaluating the tensor-product spline on the parameter grid —
`applyAxis N_u 0 (applyAxis N_v 1 cp)`, which is `SplineObject.evaluate` — gives back the (reshaped)
input: `result(u_i, v_j) = x[i][j]` for every `i < n_u`, `j < n_v` and component `k`. -/
theorem C14_interpolate_surface (bu bv : Basis K) (tol : K) (u : Option (List (List K))) (tu tv : List K)
    (x cp : Tensor K)
    (hp : gridParams [bu, bv] u = .ok [tu, tv]) (htu : tu ≠ []) (htv : tv ≠ [])
    (hx : x.shape.length = 2 ∨ x.shape.length = 3)
    (h : interpolateGridCore [bu, bv] tol u x = .ok cp) :
    ∃ (x' : Tensor K) (d : ℕ), gridInput [bu, bv] x = .ok x' ∧ x'.data = x.data ∧
      x'.shape = [tu.length, tv.length, d] ∧ cp.shape = [tu.length, tv.length, d] ∧
      cp.data.size = tu.length * tv.length * d ∧
      tu.length = bu.numFunctions ∧ tv.length = bv.numFunctions ∧
      ∀ i < tu.length, ∀ j < tv.length, ∀ k < d,
        (Tensor.applyAxis (colloc bu tol tu 0) (Tensor.applyAxis (colloc bv tol tv 0) cp 1) 0).entry3 tv.length d i j k
          = x'.entry3 tv.length d i j k := by
  unfold interpolateGridCore at h
  simp only [bind, Except.bind, hp] at h
  split at h
  · exact absurd h (by simp)
  · rename_i x' hx'
    obtain ⟨hdata, A, B, C, hsh⟩ := gridInput_surface bu bv x x' hx hx'
    simp only [List.zip_cons_cons, List.zip_nil_right, List.map_cons, List.map_nil, List.reverse_cons,
      List.reverse_nil, List.nil_append, List.cons_append, List.mapM_cons, List.mapM_nil, bind, Except.bind,
      pure, Except.pure, List.length_cons, List.length_nil] at h
    split at h
    · exact absurd h (by simp)
    · rename_i invs hinvs
      split at hinvs
      · exact absurd hinvs (by simp)
      · rename_i iv hiv
        split at hinvs
        · exact absurd hinvs (by simp)
        · rename_i tail htail
          split at htail
          · exact absurd htail (by simp)
          · rename_i iu hiu
            have : tail = [iu] := by cases htail; rfl
            subst this
            have : invs = [iv, iu] := by cases hinvs; rfl
            subst this
            exact interpolate_surface_aux bu bv tol tu tv x x' cp iu iv A B C htu htv hx' hdata hsh hiu hiv h

/-- **Volume interpolation reproduces its grid, for arbitrary non-cubic shapes and both input layouts.**
If the loop of `volume_factory.interpolate` (model) returns `cp` (layout `n_u × n_v × n_w × dim`) then
`applyAxis N_u 0 (applyAxis N_v 1 (applyAxis N_w 2 cp))` — the evaluation on the parameter grid — is
the (reshaped) input: `result(u_i, v_j, w_k) = x[i][j][k]`. -/
theorem C14_interpolate_volume (bu bv bw : Basis K) (tol : K) (u : Option (List (List K)))
    (tu tv tw : List K) (x cp : Tensor K)
    (hp : gridParams [bu, bv, bw] u = .ok [tu, tv, tw]) (htu : tu ≠ []) (htv : tv ≠ []) (htw : tw ≠ [])
    (hx : x.shape.length = 2 ∨ x.shape.length = 4)
    (h : interpolateGridCore [bu, bv, bw] tol u x = .ok cp) :
    ∃ (x' : Tensor K) (d : ℕ), gridInput [bu, bv, bw] x = .ok x' ∧ x'.data = x.data ∧
      x'.shape = [tu.length, tv.length, tw.length, d] ∧ cp.shape = [tu.length, tv.length, tw.length, d] ∧
      cp.data.size = tu.length * tv.length * tw.length * d ∧
      tu.length = bu.numFunctions ∧ tv.length = bv.numFunctions ∧ tw.length = bw.numFunctions ∧
      ∀ i < tu.length, ∀ j < tv.length, ∀ k < tw.length, ∀ l < d,
        (Tensor.applyAxis (colloc bu tol tu 0) (Tensor.applyAxis (colloc bv tol tv 0)
            (Tensor.applyAxis (colloc bw tol tw 0) cp 2) 1) 0).entry4 tv.length tw.length d i j k l
          = x'.entry4 tv.length tw.length d i j k l := by
  unfold interpolateGridCore at h
  simp only [bind, Except.bind, hp] at h
  split at h
  · exact absurd h (by simp)
  · rename_i x' hx'
    obtain ⟨hdata, A, B, C, D, hsh⟩ := gridInput_volume bu bv bw x x' hx hx'
    simp only [List.zip_cons_cons, List.zip_nil_right, List.map_cons, List.map_nil, List.reverse_cons,
      List.reverse_nil, List.nil_append, List.cons_append, List.mapM_cons, List.mapM_nil, bind, Except.bind,
      pure, Except.pure, List.length_cons, List.length_nil] at h
    split at h
    · exact absurd h (by simp)
    · rename_i invs hinvs
      split at hinvs
      · exact absurd hinvs (by simp)
      · rename_i iw hiw
        split at hinvs
        · exact absurd hinvs (by simp)
        · rename_i tail htail
          split at htail
          · exact absurd htail (by simp)
          · rename_i iv hiv
            split at htail
            · exact absurd htail (by simp)
            · rename_i tail2 htail2
              split at htail2
              · exact absurd htail2 (by simp)
              · rename_i iu hiu
                have : tail2 = [iu] := by cases htail2; rfl
                subst this
                have : tail = [iv, iu] := by cases htail; rfl
                subst this
                have : invs = [iw, iv, iu] := by cases hinvs; rfl
                subst this
                exact interpolate_volume_aux bu bv bw tol tu tv tw x x' cp iu iv iw A B C D htu htv htw hx' hdata hsh
                  hiu hiv hiw h

/-- **The transposes between factory and constructor cancel (surfaces).**
`cp.transpose(1,0,2).reshape((n_u·n_v, dim))` followed by the constructor's `reshape(order='F')`
returns the control net unchanged: the full `surface_factory.interpolate` (model `interpolateGrid`)
equals its linear-algebra core, so `C14_interpolate_surface` is a statement about the control net of
the returned `Surface`. -/
theorem C14_through_constructor_surface (bu bv : Basis K) (tol : K) (u : Option (List (List K)))
    (tu tv : List K) (x cp : Tensor K)
    (hp : gridParams [bu, bv] u = .ok [tu, tv]) (htu : tu ≠ []) (htv : tv ≠ [])
    (hx : x.shape.length = 2 ∨ x.shape.length = 3)
    (h : interpolateGridCore [bu, bv] tol u x = .ok cp) :
    interpolateGrid [bu, bv] tol u x = .ok cp := by
  obtain ⟨x', d, _, _, _, hsh, hsz, _⟩ := C14_interpolate_surface bu bv tol u tu tv x cp hp htu htv hx h
  obtain ⟨r, hr, rsh, rsz, rent⟩ := throughConstructor3 cp hsh
  have : r = cp := tensor_ext3 cp r hsh rsh hsz rsz rent
  subst this
  unfold interpolateGrid
  simp only [bind, Except.bind, h, List.length_cons, List.length_nil]
  exact hr

/-- The same for volumes (`cp.transpose(2,1,0,3)` and the `order='F'` reshape cancel). -/
theorem C14_through_constructor_volume (bu bv bw : Basis K) (tol : K) (u : Option (List (List K)))
    (tu tv tw : List K) (x cp : Tensor K)
    (hp : gridParams [bu, bv, bw] u = .ok [tu, tv, tw]) (htu : tu ≠ []) (htv : tv ≠ []) (htw : tw ≠ [])
    (hx : x.shape.length = 2 ∨ x.shape.length = 4)
    (h : interpolateGridCore [bu, bv, bw] tol u x = .ok cp) :
    interpolateGrid [bu, bv, bw] tol u x = .ok cp := by
  obtain ⟨x', d, _, _, _, hsh, hsz, _⟩ :=
    C14_interpolate_volume bu bv bw tol u tu tv tw x cp hp htu htv htw hx h
  obtain ⟨r, hr, rsh, rsz, rent⟩ := throughConstructor4 cp hsh
  have : r = cp := tensor_ext4 cp r hsh rsh hsz rsz rent
  subst this
  unfold interpolateGrid
  simp only [bind, Except.bind, h, List.length_cons, List.length_nil]
  exact hr

/-- **Interpolation is a projection.**  If the data are sampled from a spline of the target space,
`x_i = Σ_l N_l(ts_i) · c0_l`, and the collocation matrix is invertible (the model computes its inverse),
then `curve_factory.interpolate` returns exactly the control points `c0`. -/
theorem C14_projection (b : Basis K) (tol : K) (t : Option (List K)) (ts : List K) (x c Ni : Mat K)
    (c0 : ℕ → ℕ → K)
    (hts : paramsOrGreville b t = .ok ts) (hne : ts ≠ [])
    (hinv : invC (colloc b tol ts 0) = .ok Ni)
    (hx : ∀ i < ts.length, ∀ j, x.get i j =
            ∑ l ∈ range b.numFunctions, (b.evaluate tol (ts.getD i 0) 0 true).getD l 0 * c0 l j)
    (h : interpolateCurve b tol t x = .ok c) :
    (∀ l < b.numFunctions, ∀ j < c.ncols, c.get l j = c0 l j) ∧
      c.size = b.numFunctions ∧ c.ncols = x.ncols := by
  have hd := interpolateCurve_dims b tol t x c h
  refine ⟨?_, hd.1, hd.2.1⟩
  unfold interpolateCurve at h
  simp only [bind, Except.bind, hts] at h
  split at h
  · exact absurd h (by simp [throw, throwThe, MonadExceptOf.throw])
  · rename_i hc
    have hN : (colloc b tol ts 0).size = ts.length := size_colloc _ _ _ _
    rw [hN] at hc
    have hn : ts.length = b.numFunctions := by omega
    have hpos : 0 < ts.length := List.length_pos_of_ne_nil hne
    intro l hl j hj
    have := solve_unique c0 hinv h j hj (by rw [hN]; exact hpos)
      (fun i hi => by
        rw [hN] at hi ⊢
        rw [hx i hi j, hn]
        exact sum_congr rfl (fun l _ => by rw [get_colloc b tol ts 0 i l hi]))
    exact this l (by rw [hN, hn]; exact hl)

/-- **Least-squares fitting is a projection.**  If the (possibly over-determined) data are sampled
from a spline of the target space and the normal matrix `NᵀN` is invertible, then
`least_square_fit` returns exactly that spline's control points. -/
theorem C14_projection_least_squares (b : Basis K) (tol : K) (ts : List K) (x c Gi : Mat K)
    (c0 : ℕ → ℕ → K) (hne : ts ≠ [])
    (hinv : invC (Mat.mul (Mat.transpose (colloc b tol ts 0)) (colloc b tol ts 0)) = .ok Gi)
    (hx : ∀ i < ts.length, ∀ j, x.get i j =
            ∑ l ∈ range b.numFunctions, (b.evaluate tol (ts.getD i 0) 0 true).getD l 0 * c0 l j)
    (h : leastSquareCurve b tol ts x = .ok c) :
    (∀ l < b.numFunctions, ∀ j < c.ncols, c.get l j = c0 l j) ∧
      (0 < b.numFunctions → c.size = b.numFunctions ∧ c.ncols = x.ncols) := by
  refine ⟨?_, fun hn => leastSquareCurve_dims b tol ts x c hne hn h⟩
  unfold leastSquareCurve at h
  simp only [bind, Except.bind] at h
  split at h
  · exact absurd h (by simp [throw, throwThe, MonadExceptOf.throw])
  · rename_i hc
    set N := colloc b tol ts 0 with hNdef
    have hN : N.size = ts.length := size_colloc _ _ _ _
    have hpos : 0 < ts.length := List.length_pos_of_ne_nil hne
    have hcols : N.ncols = b.numFunctions := by
      unfold Mat.ncols
      rw [hNdef, row_colloc b tol ts 0 0 hpos, size_evaluate_c14]
    have hxr : x.nrows = N.nrows := by
      unfold Mat.nrows
      by_contra hne'
      exact hc (by simpa using hne')
    have hG : (Mat.mul (Mat.transpose N) N).size = b.numFunctions := by
      have := Mat.nrows_mul_c14 (Mat.transpose N) N
      unfold Mat.nrows at this
      rw [this]
      have := Mat.nrows_transpose_c14 N
      unfold Mat.nrows at this
      rw [this, hcols]
    intro l hl j hj
    have hGpos : 0 < (Mat.mul (Mat.transpose N) N).size := by rw [hG]; omega
    have hxc : c.ncols = x.ncols := by
      have h1 := Mat.row_size_mul_c14 (Mat.mul (Mat.transpose N) N) c 0 hGpos
      rw [(solveC_ok h).2] at h1
      have h2 := Mat.row_size_mul_c14 (Mat.transpose N) x 0 (by rw [Mat.nrows_transpose_c14, hcols]; omega)
      rw [← h1, h2]
    have := solve_unique c0 hinv h j hj hGpos
      (fun i hi => by
        rw [hG] at hi ⊢
        rw [get_normal_rhs N x i j (by rw [hcols]; exact hi) (by rw [← hxc]; exact hj) hxr]
        have e1 : ∀ r ∈ range N.nrows, N.get r i * x.get r j
            = ∑ l ∈ range b.numFunctions, N.get r i * N.get r l * c0 l j := by
          intro r hr
          have hr' : r < ts.length := by rw [← hN]; exact mem_range.mp hr
          rw [hx r hr' j, mul_sum]
          exact sum_congr rfl (fun l _ => by rw [hNdef, get_colloc b tol ts 0 r l hr']; ring)
        rw [sum_congr rfl e1, sum_comm]
        apply sum_congr rfl
        intro l' hl'
        rw [get_normal N i l' (by rw [hcols]; exact hi) (by rw [hcols]; exact mem_range.mp hl'), sum_mul])
    exact this l (by rw [hG]; exact hl)

omit [FloorRing K] in
/-- Both accepted input layouts of `least_square_fit` (flat matrix `(m_u·m_v) × dim` or tensor
`m_u × m_v × dim`) give the same `m_u × m_v × dim` array with the same flat data. -/
theorem C14_gridInputLsq_layouts (tu tv : List K) (x : Tensor K) (d : ℕ)
    (hx : x.shape = [tu.length * tv.length, d] ∨ x.shape = [tu.length, tv.length, d]) :
    gridInputLsq [tu, tv] x = .ok { shape := [tu.length, tv.length, d], data := x.data } := by
  unfold gridInputLsq
  rcases hx with h | h
  · rw [h]
    simp only [List.length_cons, List.length_nil, if_true, List.map_cons, List.map_nil, Interp.reshape,
      List.getLastD, List.getLast, List.cons_append, List.nil_append]
    have : Tensor.prod [tu.length, tv.length, d] = Tensor.prod x.shape := by
      rw [h]; simp only [Tensor.prod, List.foldl]; ring
    rw [if_neg (by rw [this]; simp)]
  · rw [h]
    simp only [List.length_cons, List.length_nil]
    rw [if_neg (by decide)]
    congr 1
    rcases x with ⟨sh, dat⟩
    simp only at h
    subst h
    rfl

/-- **Least-squares fitting on a surface grid is a projection** (non-square, over-determined): if the
data are sampled from a tensor-product spline of the target space,
`x[i][j] = Σ_a Σ_b N_a(u_i) M_b(v_j) c0[a][b]`, and the two normal matrices are invertible, then the
two loops of `surface_factory.least_square_fit` return exactly `c0` (shape `n_u × n_v × dim`). -/
theorem C14_projection_least_squares_surface (bu bv : Basis K) (tol : K) (tu tv : List K)
    (x x' cp : Tensor K) (d : ℕ) (c0 : ℕ → ℕ → ℕ → K) (Giu Giv : Mat K)
    (htu : tu ≠ []) (htv : tv ≠ [])
    (hx' : gridInputLsq [tu, tv] x = .ok x') (hsh : x'.shape = [tu.length, tv.length, d])
    (hGu : invC (Mat.mul (Mat.transpose (colloc bu tol tu 0)) (colloc bu tol tu 0)) = .ok Giu)
    (hGv : invC (Mat.mul (Mat.transpose (colloc bv tol tv 0)) (colloc bv tol tv 0)) = .ok Giv)
    (hdata : ∀ i < tu.length, ∀ j < tv.length, ∀ k < d,
      x'.entry3 tv.length d i j k
        = ∑ a ∈ range bu.numFunctions, (bu.evaluate tol (tu.getD i 0) 0 true).getD a 0 *
            ∑ b ∈ range bv.numFunctions, (bv.evaluate tol (tv.getD j 0) 0 true).getD b 0 * c0 a b k)
    (h : leastSquareGridCore [bu, bv] tol [tu, tv] x = .ok cp) :
    cp.shape = [bu.numFunctions, bv.numFunctions, d] ∧
    ∀ a < bu.numFunctions, ∀ b < bv.numFunctions, ∀ k < d,
      cp.entry3 bv.numFunctions d a b k = c0 a b k := by
  apply leastSquareSurface_projection bu bv tol tu tv x x' cp d c0 Giu Giv htu htv hx' hsh hGu hGv _ h
  intro i hi j hj k hk
  rw [hdata i hi j hj k hk]
  apply sum_congr rfl
  intro a _
  rw [get_colloc bu tol tu 0 i a hi]
  congr 1
  exact sum_congr rfl (fun b _ => by rw [get_colloc bv tol tv 0 j b hj])

/-- **Lofting passes through every section, in order** — CONDITIONAL form (the success of the model is a
hypothesis; it covers periodic section bases too; `C14_loft_curves_partial` below removes the hypothesis for
non-periodic clamped section bases) — partial: CURVE sections that are already on
one common basis (`make_splines_identical` is property C12 and runs before this model function), and
`n ≥ 3` sections (for `n = 2` the code takes the `edge_curves` path, which is not modelled here).
If `surface_factory.loft` (model) returns the lofting basis `bL` and the control net `cp`
(`m × n × ncomp`, AFTER the transposes of factory and constructor), then interpolating in the lofting
direction at the `i`-th lofting parameter `v_i` gives back the `i`-th section's control net:
`Σ_j N^L_j(v_i) · cp[a][j] = sec_i[a]` — hence the surface restricted to `v = v_i` is section `i`.
The cumulative centre distances `dist` are computed by `loftFull` (`cumsum`). -/
theorem C14_loft_curves_if_ok_partial (b1 bL : Basis K) (tol : K) (secs : List (Tensor K)) (dist v : List K)
    (m nc : ℕ) (cp : Tensor K) (hm : 0 < m) (hm1 : m = b1.numFunctions) (hn3 : 3 ≤ secs.length)
    (hsecs : ∀ s ∈ secs, s.shape = [m, nc])
    (hlb : loftBasis tol secs.length dist = .ok (bL, v)) (hv : v.length = secs.length)
    (h : loft [b1] tol secs dist = .ok (bL, cp)) :
    cp.shape = [m, secs.length, nc] ∧
    ∀ i < secs.length, ∀ a < m, ∀ c < nc,
      ∑ j ∈ range secs.length, (bL.evaluate tol (v.getD i 0) 0 true).getD j 0 * cp.entry3 secs.length nc a j c
        = (secs.getD i default).entry2 nc a c := by
  have hn : 0 < secs.length := by omega
  unfold loft at h
  simp only [bind, Except.bind, pure, Except.pure, hlb, List.mapM_cons, List.mapM_nil, List.length_cons,
    List.length_nil] at h
  split at h
  · exact absurd h (by simp)
  · rename_i us hus
    split at hus
    · exact absurd hus (by simp)
    · rename_i g1 hg1
      have hus' : us = [g1] := by cases hus; rfl
      subst hus'
      simp only [List.zip_cons_cons, List.zip_nil_right, List.map_cons, List.map_nil, List.cons_append,
        List.nil_append, List.reverse_cons, List.reverse_nil, Nat.zero_add, Nat.reduceAdd] at h
      split at h
      · exact absurd h (by simp)
      · rename_i invs hinvs
        simp only [List.mapM_cons, List.mapM_nil, bind, Except.bind, pure, Except.pure] at hinvs
        split at hinvs
        · exact absurd hinvs (by simp)
        · rename_i iL hiL
          split at hinvs
          · exact absurd hinvs (by simp)
          · rename_i tail htail
            split at htail
            · exact absurd htail (by simp)
            · rename_i iu hiu
              have : tail = [iu] := by cases htail; rfl
              subst this
              have : invs = [iL, iu] := by cases hinvs; rfl
              subst this
              split at h
              · exact absurd h (by simp)
              · rename_i pts hpts
                split at h
                · exact absurd h (by simp)
                · rename_i cp0 hcp0
                  split at h
                  · exact absurd h (by simp)
                  · rename_i cp1 hcp1
                    have hcpe : cp1 = cp := by
                      simp only [Except.ok.injEq, Prod.mk.injEq] at h; exact h.2
                    subst hcpe
                    have hg1l : g1.length = m := by
                      unfold Except.map at hg1
                      split at hg1
                      · exact absurd hg1 (by simp)
                      · rename_i ga hga
                        have : g1 = ga.toList := by cases hg1; rfl
                        rw [this, hm1, Array.length_toList]
                        exact greville_size b1 ga hga
                    obtain ⟨r1, r2⟩ := loft_curves_aux b1 bL tol secs pts g1 v m nc iu iL _ cp0 cp1 hm hg1l hn hv
                      hsecs hiu hiL hpts rfl hcp0 hcp1
                    refine ⟨r1, fun i hi a ha c hc => ?_⟩
                    rw [← r2 i hi a ha c hc]
                    exact sum_congr rfl (fun j _ => by rw [get_colloc bL tol v 0 i j (by omega)])

/-- **Volume lofting passes through every SURFACE section, in order** — CONDITIONAL form (success of the
model is a hypothesis; `C14_loft_surfaces_partial` removes it for non-periodic clamped section bases) —
partial: sections already on
common bases `b1`, `b2` (after `make_splines_identical`, property C12), `n ≥ 3` sections.  If
`volume_factory.loft` (model) returns `(bL, cp)` with `cp` the `m₁ × m₂ × n × ncomp` control net after the
transposes, then `Σ_j N^L_j(w_i) · cp[a][b][j] = sec_i[a][b]`: the volume restricted to `w = w_i` is
section `i`. -/
theorem C14_loft_surfaces_if_ok_partial (b1 b2 bL : Basis K) (tol : K) (secs : List (Tensor K)) (dist v : List K)
    (m1 m2 nc : ℕ) (cp : Tensor K) (hm1 : 0 < m1) (hm2 : 0 < m2)
    (hb1 : m1 = b1.numFunctions) (hb2 : m2 = b2.numFunctions) (hn3 : 3 ≤ secs.length)
    (hsecs : ∀ s ∈ secs, s.shape = [m1, m2, nc])
    (hlb : loftBasis tol secs.length dist = .ok (bL, v)) (hv : v.length = secs.length)
    (h : loft [b1, b2] tol secs dist = .ok (bL, cp)) :
    cp.shape = [m1, m2, secs.length, nc] ∧
    ∀ i < secs.length, ∀ a < m1, ∀ b < m2, ∀ c < nc,
      ∑ j ∈ range secs.length, (bL.evaluate tol (v.getD i 0) 0 true).getD j 0 * cp.entry4 m2 secs.length nc a b j c
        = (secs.getD i default).entry3 m2 nc a b c := by
  have hn : 0 < secs.length := by omega
  unfold loft at h
  simp only [bind, Except.bind, pure, Except.pure, hlb, List.mapM_cons, List.mapM_nil, List.length_cons,
    List.length_nil] at h
  split at h
  · exact absurd h (by simp)
  · rename_i us hus
    split at hus
    · exact absurd hus (by simp)
    · rename_i g1 hg1
      split at hus
      · exact absurd hus (by simp)
      · rename_i tl htl
        split at htl
        · exact absurd htl (by simp)
        · rename_i g2 hg2
          have htl' : tl = [g2] := by cases htl; rfl
          subst htl'
          have hus' : us = [g1, g2] := by cases hus; rfl
          subst hus'
          simp only [List.zip_cons_cons, List.zip_nil_right, List.map_cons, List.map_nil, List.cons_append,
            List.nil_append, List.reverse_cons, List.reverse_nil, Nat.zero_add, Nat.reduceAdd] at h
          split at h
          · exact absurd h (by simp)
          · rename_i invs hinvs
            simp only [List.mapM_cons, List.mapM_nil, bind, Except.bind, pure, Except.pure] at hinvs
            split at hinvs
            · exact absurd hinvs (by simp)
            · rename_i iL hiL
              split at hinvs
              · exact absurd hinvs (by simp)
              · rename_i tail htail
                split at htail
                · exact absurd htail (by simp)
                · rename_i i2 hi2
                  split at htail
                  · exact absurd htail (by simp)
                  · rename_i tail2 htail2
                    split at htail2
                    · exact absurd htail2 (by simp)
                    · rename_i i1 hi1
                      have : tail2 = [i1] := by cases htail2; rfl
                      subst this
                      have : tail = [i2, i1] := by cases htail; rfl
                      subst this
                      have : invs = [iL, i2, i1] := by cases hinvs; rfl
                      subst this
                      split at h
                      · exact absurd h (by simp)
                      · rename_i pts hpts
                        split at h
                        · exact absurd h (by simp)
                        · rename_i cp0 hcp0
                          split at h
                          · exact absurd h (by simp)
                          · rename_i cp1 hcp1
                            have hcpe : cp1 = cp := by
                              simp only [Except.ok.injEq, Prod.mk.injEq] at h; exact h.2
                            subst hcpe
                            have glen : ∀ (bb : Basis K) (g : List K) (mm : ℕ), mm = bb.numFunctions →
                                Except.map Array.toList bb.greville = .ok g → g.length = mm := by
                              intro bb g mm hmm hg
                              unfold Except.map at hg
                              split at hg
                              · exact absurd hg (by simp)
                              · rename_i ga hga
                                have : g = ga.toList := by cases hg; rfl
                                rw [this, hmm, Array.length_toList]
                                exact greville_size bb ga hga
                            obtain ⟨r1, r2⟩ := loft_surfaces_aux b1 b2 bL tol secs pts g1 g2 v m1 m2 nc i1 i2 iL _ cp0 cp1
                              hm1 hm2 (glen b1 g1 m1 hb1 hg1) (glen b2 g2 m2 hb2 hg2) hn hv hsecs hi1 hi2 hiL hpts rfl hcp0 hcp1
                            refine ⟨r1, fun i hi a ha b hb c hc => ?_⟩
                            rw [← r2 i hi a ha b hb c hc]
                            exact sum_congr rfl (fun j _ => by rw [get_colloc bL tol v 0 i j (by omega)])

/-- **`bezier`**: the result has the requested order (3 or 4), is non-periodic, has exactly as many
basis functions as control points, its knot vector is the SORTED rearrangement of
`list(range(n+1))·(p−1) + [0, n]` (every interior integer `p−1` times — C⁰ joints — the two ends `p`
times), and the control points are the input points (`relative=False`) resp. their running sums
(`relative=True`: `cps[0] = pts[0]`, `cps[i+1] = cps[i] + pts[i+1]`).  (That the curve is the Bézier
curve of each group of `p` control points is checked by the de Casteljau oracle.) -/
theorem C14_bezier (tol : K) (pts : Mat K) (quadratic relative : Bool) (b : Basis K) (cps : Mat K)
    (h : bezier tol pts quadratic relative = .ok (b, cps)) :
    b.order = (if quadratic then 3 else 4) ∧ b.periodic = -1 ∧ b.numFunctions = cps.size ∧
    b.knots.toList.Perm (bezierKnotList (if quadratic then 3 else 4)
        ((pts.size - 1) / ((if quadratic then 3 else 4) - 1))) ∧
    b.knots.toList.Pairwise (· ≤ ·) ∧
    (relative = false → cps = pts) ∧
    (relative = true → 0 < pts.size → cps.size = pts.size ∧ cps.getD 0 #[] = pts.getD 0 #[] ∧
      ∀ i, i + 1 < pts.size → cps.getD (i + 1) #[] = rowAdd (cps.getD i #[]) (pts.getD (i + 1) #[])) := by
  obtain ⟨sp1, sp2⟩ := sortK_spec (bezierKnotList (K := K) (if quadratic then 3 else 4)
    ((pts.size - 1) / ((if quadratic then 3 else 4) - 1)))
  unfold bezier at h
  cases relative with
  | false =>
    simp only [bind, Except.bind, pure, Except.pure, Bool.false_eq_true, if_false] at h
    split at h
    · exact absurd h (by simp)
    · rename_i b' hb
      obtain ⟨ho, hk, hper, _⟩ := Basis.mk?_ok_c14 _ _ _ _ _ hb
      rw [Basis.cummax_of_pairwise _ sp2] at hk
      split at h
      · exact absurd h (by simp [throw, throwThe, MonadExceptOf.throw])
      · rename_i hsz
        simp only [Except.ok.injEq, Prod.mk.injEq] at h
        obtain ⟨hb', hcps⟩ := h
        subst hb'
        refine ⟨ho, by rw [hper]; rfl, by rw [← hcps]; omega, by rw [hk]; simpa using sp1,
          by rw [hk]; simpa using sp2, fun _ => hcps.symm, fun hr => absurd hr (by simp)⟩
  | true =>
    simp only [bind, Except.bind, pure, Except.pure, if_true] at h
    split at h
    · exact absurd h (by simp)
    · rename_i b' hb
      obtain ⟨ho, hk, hper, _⟩ := Basis.mk?_ok_c14 _ _ _ _ _ hb
      rw [Basis.cummax_of_pairwise _ sp2] at hk
      split at h
      · exact absurd h (by simp [throw, throwThe, MonadExceptOf.throw])
      · rename_i hsz
        simp only [Except.ok.injEq, Prod.mk.injEq] at h
        obtain ⟨hb', hcps⟩ := h
        subst hb'
        refine ⟨ho, by rw [hper]; rfl, by rw [← hcps]; omega, by rw [hk]; simpa using sp1,
          by rw [hk]; simpa using sp2, fun hr => absurd hr (by simp), fun _ hpos => ?_⟩
        rw [← hcps]
        have hinit : 0 < (pts.extract 0 1).size := by simp; omega
        obtain ⟨f1, f2, f3⟩ := foldl_push_spec (fun prev row => rowAdd prev row) (#[] : Array K)
          (pts.toList.drop 1) (pts.extract 0 1) hinit
        have hs1 : (pts.extract 0 1).size = 1 := by simp; omega
        rw [hs1] at f1 f2 f3
        have hlen : (pts.toList.drop 1).length = pts.size - 1 := by simp
        refine ⟨by rw [f1, hlen]; omega, ?_, fun i hi => ?_⟩
        · rw [f2 0 (by omega)]
          simp [Array.getD, hpos]
        · have := f3 i (by rw [hlen]; omega)
          rw [show 1 + i = i + 1 by omega, show i + 1 - 1 = i by omega] at this
          rw [this]
          congr 1
          simp [List.getD_eq_getElem?_getD, Array.getD, hi]

omit [Field K] [LinearOrder K] [FloorRing K] in
private theorem getD_extract_c14 {α : Type} (a : Array α) (s len j : ℕ) (d : α) (hj : j < len) :
    (a.extract s (s + len)).getD j d = a.getD (s + j) d := by
  rw [Array.getD_eq_getD_getElem?, Array.getD_eq_getD_getElem?, Array.getElem?_extract]
  have : j < min (s + len) a.size - s ↔ s + j < a.size := by omega
  by_cases h : s + j < a.size
  · simp [h, this.mpr h]
  · have h' : ¬ j < min (s + len) a.size - s := fun x => h (this.mp x)
    simp [h, h']

/-- **`Curve.rebuild(p, n)` interpolates the original curve at the Greville points of the new basis.**
The returned basis has order `p`; with `t` its Greville points and `xs = self.evaluate(t)` (the model's
`Obj.evaluate`, for which C02 gives the specification value), the returned control points satisfy
`Σ_l N_l(t_i) · cp_l = xs_i` for every `i` and component `j`. -/
theorem C14_rebuild (o : Obj K) (tol : K) (p n : ℕ) (b2 : Basis K) (cp : Mat K)
    (h : rebuild o tol p n = .ok (b2, cp)) :
    b2.order = p ∧ b2.periodic = -1 ∧
    ∃ (t : Array K) (xs : Tensor K), b2.greville = .ok t ∧ o.evaluate tol [t.toList] true = .ok xs ∧
      t.size = b2.numFunctions ∧ (0 < t.size → cp.size = b2.numFunctions ∧
        cp.ncols = min (xs.shape.getLastD 1) xs.data.size) ∧
      ∀ i < t.size, ∀ j < cp.ncols, j < xs.shape.getLastD 1 →
        ∑ l ∈ range b2.numFunctions, (b2.evaluate tol (t.toList.getD i 0) 0 true).getD l 0 * cp.get l j
          = xs.get (i * xs.shape.getLastD 1 + j) := by
  unfold rebuild at h
  simp only [bind, Except.bind, pure, Except.pure] at h
  split at h
  · exact absurd h (by simp)
  · rename_i b hb
    obtain ⟨ho, _, hper, _⟩ := Basis.mk?_ok_c14 _ _ _ _ _ hb
    split at h
    · exact absurd h (by simp [throw, throwThe, MonadExceptOf.throw])
    · split at h
      · exact absurd h (by simp)
      · rename_i t ht
        split at h
        · exact absurd h (by simp)
        · rename_i xs hxs
          split at h
          · exact absurd h (by simp [throw, throwThe, MonadExceptOf.throw])
          · rename_i hsq
            split at h
            · exact absurd h (by simp)
            · rename_i cp' hsolve
              simp only [Except.ok.injEq, Prod.mk.injEq] at h
              obtain ⟨hb2, hcp⟩ := h
              subst hcp
              rw [hb2] at ht hsq hsolve
              rw [← hb2]
              refine ⟨ho, by rw [hper]; rfl, ?_⟩
              rw [hb2]
              have hts : t.size = b2.numFunctions := greville_size b2 t ht
              have hN : (colloc b2 tol t.toList 0).size = t.size := by rw [size_colloc]; simp
              have hdims : 0 < t.size → cp'.size = b2.numFunctions ∧
                  cp'.ncols = min (xs.shape.getLastD 1) xs.data.size := by
                intro hpos
                have hpos' : 0 < t.toList.length := by simpa using hpos
                obtain ⟨d1, d2⟩ := solveC_dims hsolve
                refine ⟨?_, ?_⟩
                · rw [d1]; unfold Mat.ncols
                  rw [row_colloc b2 tol t.toList 0 0 hpos', size_evaluate_c14]
                · rw [d2 (by unfold Mat.nrows; rw [hN]; exact hpos)]
                  unfold Mat.ncols
                  rw [getD_ofFn_c14 _ _ _ _ hpos]
                  simp
              refine ⟨t, xs, ht, hxs, hts, hdims, fun i hi j hj hjd => ?_⟩
              have hpos : 0 < t.toList.length := by simp; omega
              have hrows : cp'.nrows = b2.numFunctions := by
                have := (solveC_ok hsolve).1
                unfold Mat.nrows; rw [this]
                unfold Mat.ncols
                rw [row_colloc b2 tol t.toList 0 0 hpos, size_evaluate_c14]
              have := solveC_entries hsolve i j (by unfold Mat.nrows; rw [hN]; exact hi) hj
              rw [hrows] at this
              have e : Mat.get (Array.ofFn (n := t.size) (fun i : Fin t.size =>
                  xs.data.extract (i.val * xs.shape.getLastD 1) (i.val * xs.shape.getLastD 1 + xs.shape.getLastD 1))) i j
                  = xs.get (i * xs.shape.getLastD 1 + j) := by
                unfold Mat.get Tensor.get
                rw [getD_ofFn_c14 _ _ _ _ hi]
                exact getD_extract_c14 _ _ _ _ _ hjd
              rw [e] at this
              rw [← this]
              exact sum_congr rfl (fun l _ => by
                rw [get_colloc b2 tol t.toList 0 i l (by simp; exact hi)])

/-- **`cubic_curve`: the assembled system is square for every boundary type** (rows vs unknowns as a
function of the number `n` of parameters).  Unknowns: `len(knot) − 4 − (periodic+1)` with
`len(knot) = n+6` (`−2` for `FREE`, `+(n−2)` for `HERMITE`), `periodic = 2` only for `PERIODIC`;
rows: `n` interpolation rows (`n−1` for `PERIODIC`) plus `0 / 2 / n / 0 / 2 / 1+1` end rows for
`FREE / NATURAL / HERMITE / PERIODIC / TANGENT / TANGENTNATURAL`. -/
theorem C14_cubic_square (bd : ℕ) (tol rt atl : K) (x : Mat K) (t : List K) (tg : Option (Mat K))
    (basis : Basis K) (N rhs : Mat K)
    (hbd : bd = bFREE ∨ bd = bNATURAL ∨ bd = bHERMITE ∨ bd = bPERIODIC ∨ bd = bTANGENT ∨ bd = bTANGENTNATURAL)
    (h : cubicSystem bd tol rt atl x t tg = .ok (basis, N, rhs)) :
    N.size = basis.numFunctions := by
  obtain ⟨_, knot, eN, eR, hknot, hb, he, hN, _⟩ := cubicSystem_ok bd tol rt atl x t tg basis N rhs h
  obtain ⟨ho, hk, hp, h8⟩ := Basis.mk?_ok_c14 _ _ _ _ _ hb
  have hlen := cubicKnots_length bd t knot hknot
  have hks : basis.knots.size = knot.length := by rw [hk]; simp
  rw [List.size_toArray] at h8
  unfold Basis.numFunctions
  rw [hks, ho, hp, hN, Array.size_append, size_colloc]
  rcases hbd with hF | hNat | hH | hP | hT | hTN
  · subst hF
    obtain ⟨e1, _⟩ := cubicExtra_FREE _ _ _ _ _ _ _ he
    simp [bFREE, bPERIODIC, bHERMITE, e1] at hlen ⊢
    omega
  · subst hNat
    obtain ⟨e1, _⟩ := cubicExtra_NATURAL _ _ _ _ _ _ _ he
    simp [bFREE, bPERIODIC, bHERMITE, bNATURAL, e1, size_colloc] at hlen ⊢
    omega
  · subst hH
    obtain ⟨g, _, e1, _⟩ := cubicExtra_HERMITE _ _ _ _ _ _ _ he
    simp [bFREE, bPERIODIC, bHERMITE, e1, size_colloc] at hlen ⊢
    omega
  · subst hP
    obtain ⟨e1, _⟩ := cubicExtra_PERIODIC _ _ _ _ _ _ _ he
    simp [bFREE, bPERIODIC, bHERMITE, e1] at hlen ⊢
    omega
  · subst hT
    obtain ⟨g, _, e1, _⟩ := cubicExtra_TANGENT _ _ _ _ _ _ _ he
    simp [bFREE, bPERIODIC, bHERMITE, bTANGENT, e1, size_colloc] at hlen ⊢
    omega
  · subst hTN
    obtain ⟨g, _, e1, _⟩ := cubicExtra_TANGENTNATURAL _ _ _ _ _ _ _ he
    simp [bFREE, bPERIODIC, bHERMITE, bTANGENTNATURAL, e1, size_colloc] at hlen ⊢
    omega

/-- **`cubic_curve` interpolates and satisfies its end rows** (every boundary type).  With
`t'`/`x'` the parameters/points actually interpolated (`PERIODIC`: input closed if necessary, the
duplicate seam point dropped) and `(eN, eR) = cubicExtra …` the end-condition rows of the boundary
type with their right-hand sides: the system is square, the returned control points `cp` satisfy
`Σ_l N_l(t'_i)·cp_l = x'_i` for every data index, and `eN·cp = eR` (the end rows; their meaning per
type is `C14_cubic_TANGENT / _NATURAL / _HERMITE / _TANGENTNATURAL`; `FREE` and `PERIODIC` have none —
their conditions live in the knot vector: `cubicKnots`, `basis.periodic = 2`). -/
theorem C14_cubic_boundary (bd : ℕ) (tol rt atl : K) (x : Mat K) (t : List K) (tg : Option (Mat K))
    (basis : Basis K) (cp : Mat K) (h : cubicCurve bd tol rt atl x t tg = .ok (basis, cp)) :
    ∃ eN eR,
      cubicExtra bd basis tol (if bd = bPERIODIC then t.dropLast else t)
        (((if bd = bPERIODIC then (cubicClose bd rt atl x).pop else cubicClose bd rt atl x).getD 0 #[]).size) tg
          = .ok (eN, eR) ∧
      basis.order = 4 ∧ basis.periodic = (if bd = bPERIODIC then 2 else -1) ∧
      (if bd = bPERIODIC then t.dropLast else t).length + eN.size = basis.numFunctions ∧
      (if bd = bPERIODIC then (cubicClose bd rt atl x).pop else cubicClose bd rt atl x).size
        = (if bd = bPERIODIC then t.dropLast else t).length ∧
      eR.size = eN.size ∧
      (∀ i < (if bd = bPERIODIC then t.dropLast else t).length, ∀ j < cp.ncols,
        ∑ l ∈ range basis.numFunctions,
          (basis.evaluate tol ((if bd = bPERIODIC then t.dropLast else t).getD i 0) 0 true).getD l 0 * cp.get l j
          = Mat.get (if bd = bPERIODIC then (cubicClose bd rt atl x).pop else cubicClose bd rt atl x) i j) ∧
      (∀ i < eN.size, ∀ j < cp.ncols,
        ∑ l ∈ range basis.numFunctions, eN.get i l * cp.get l j = eR.get i j) ∧
      cp.size = basis.numFunctions ∧
      cp.ncols = ((if bd = bPERIODIC then (cubicClose bd rt atl x).pop else cubicClose bd rt atl x).getD 0 #[]).size := by
  unfold cubicCurve at h
  simp only [bind, Except.bind, pure, Except.pure] at h
  split at h
  · exact absurd h (by simp)
  · rename_i sys hsys
    obtain ⟨b, N, rhs⟩ := sys
    simp only at h
    split at h
    · exact absurd h (by simp [throw, throwThe, MonadExceptOf.throw])
    · rename_i hchk
      split at h
      · exact absurd h (by simp)
      · rename_i cp' hsolve
        simp only [Except.ok.injEq, Prod.mk.injEq] at h
        obtain ⟨hb, hcp⟩ := h
        subst hb hcp
        obtain ⟨hlen, knot, eN, eR, hknot, hmk, he, hN, hR⟩ := cubicSystem_ok bd tol rt atl x t tg b N rhs hsys
        obtain ⟨ho, hk, hp, h8⟩ := Basis.mk?_ok_c14 _ _ _ _ _ hmk
        have hkl := cubicKnots_length bd t knot hknot
        rw [List.size_toArray] at h8
        have hn2 : 2 ≤ t.length := by
          by_cases hF : bd = bFREE
          · simp [hF, bFREE, bHERMITE] at hkl; omega
          · by_cases hH : bd = bHERMITE
            · simp [hH, bFREE, bHERMITE] at hkl; omega
            · simp [hF, hH] at hkl; omega
        set t' := (if bd = bPERIODIC then t.dropLast else t) with ht'
        set x' := (if bd = bPERIODIC then (cubicClose bd rt atl x).pop else cubicClose bd rt atl x) with hx'
        have hNs : N.size = t'.length + eN.size := by rw [hN, Array.size_append, size_colloc]
        have hRs : rhs.size = x'.size + eR.size := by rw [hR, Array.size_append]
        have hxs : x'.size = t'.length := by
          rw [hx', ht']
          split
          · simp [← hlen]
          · exact hlen.symm
        have hnf : t'.length + eN.size = b.numFunctions := by omega
        have hpos : 0 < t'.length := by
          rw [ht']
          split
          · simp only [List.length_dropLast]; omega
          · omega
        have hcprows : cp'.nrows = b.numFunctions := by
          have := (solveC_ok hsolve).1
          unfold Mat.nrows; rw [this]
          unfold Mat.ncols
          have : N.getD 0 #[] = (colloc b tol t' 0).getD 0 #[] := by
            rw [hN]
            simp [Array.getD, size_colloc, hpos, Array.getElem_append_left]
          rw [this, row_colloc b tol t' 0 0 hpos, size_evaluate_c14]
        have hper : b.periodic = (if bd = bPERIODIC then 2 else -1) := by
          rw [hp]; split <;> simp
        have hccols : cp'.ncols = (x'.getD 0 #[]).size := by
          rw [(solveC_dims hsolve).2 (by unfold Mat.nrows; omega), hR]
          unfold Mat.ncols
          congr 1
          simp [Array.getD, hxs, hpos, Array.getElem_append_left]
        refine ⟨eN, eR, he, ho, hper, hnf, hxs, by omega, fun i hi j hj => ?_, fun i hi j hj => ?_, hcprows, hccols⟩
        · have := solveC_entries hsolve i j (by unfold Mat.nrows; omega) hj
          rw [hcprows, hR, Mat.get_append_left_c14 _ _ _ _ (by omega)] at this
          rw [← this]
          apply sum_congr rfl
          intro l _
          rw [hN, Mat.get_append_left_c14 _ _ _ _ (by rw [size_colloc]; exact hi), get_colloc b tol t' 0 i l hi]
        · have := solveC_entries hsolve (t'.length + i) j (by unfold Mat.nrows; omega) hj
          rw [hcprows, hR] at this
          have e2 : Mat.get (x' ++ eR) (t'.length + i) j = eR.get i j := by
            rw [← hxs]; exact Mat.get_append_right_c14 _ _ _ _
          rw [e2] at this
          rw [← this]
          apply sum_congr rfl
          intro l _
          rw [hN]
          have : Mat.get (colloc b tol t' 0 ++ eN) (t'.length + i) l = eN.get i l := by
            have := Mat.get_append_right_c14 (colloc b tol t' 0) eN i l
            rw [size_colloc] at this
            exact this
          rw [this]

/-- **`cubic_curve(x, FREE, t)` needs no solvability hypothesis**: for EVERY parameter sequence
`t₀ < t₁ < … < t_{n−1}` (`n ≥ 4`, consecutive values at least the knot tolerance apart) and any
`n × m` data the not-a-knot system is solvable (the data parameters are nested in the supports of
the not-a-knot basis: Schoenberg–Whitney), the model SUCCEEDS with the basis `freeBasis` (knots
`t₀⁴, t₂ … t_{n−3}, t_{n−1}⁴`), the result is `n × m`, and the spline of the specification
`Σ_l cp_l B_l` passes through every point: `splineVal … t_i = x_i`. -/
theorem C14_cubic_FREE_exists [IsStrictOrderedRing K] (a b c d : K) (mid : List K) (tol rt atl : K)
    (htol : 0 < tol)
    (hgap : (a :: b :: (mid ++ [c, d])).Pairwise (fun u w => u + tol ≤ w))
    (x : Mat K) (m : ℕ) (hxs : x.size = mid.length + 4 ∧ ∀ i, i < mid.length + 4 → (x.getD i #[]).size = m)
    (tg : Option (Mat K)) :
    ∃ cp, cubicCurve bFREE tol rt atl x (a :: b :: (mid ++ [c, d])) tg = .ok (freeBasis a d mid, cp) ∧
      cp.size = mid.length + 4 ∧ (∀ l, l < mid.length + 4 → (cp.getD l #[]).size = m) ∧
      ∀ i < mid.length + 4, ∀ j < m,
        splineVal (effSide (freeBasis a d mid) ((a :: b :: (mid ++ [c, d])).getD i 0) true)
          (freeBasis a d mid).kn 3 (mid.length + 4) (fun l => cp.get l j)
          ((a :: b :: (mid ++ [c, d])).getD i 0) = x.get i j := by
  have hlen : (a :: b :: (mid ++ [c, d])).length = mid.length + 4 := by simp
  have hgap' : ∀ i j, i < j → j < mid.length + 4 →
      (a :: b :: (mid ++ [c, d])).getD i 0 + tol ≤ (a :: b :: (mid ++ [c, d])).getD j 0 := by
    intro i j hij hj
    have hi : i < (a :: b :: (mid ++ [c, d])).length := by omega
    have hj' : j < (a :: b :: (mid ++ [c, d])).length := by omega
    have := List.pairwise_iff_getElem.mp hgap i j hi hj' hij
    rw [List.getD_eq_getElem?_getD, List.getD_eq_getElem?_getD, List.getElem?_eq_getElem hi,
      List.getElem?_eq_getElem hj']
    exact this
  obtain ⟨cp, hcp, sh1, sh2⟩ := cubicCurve_FREE_ok a b c d mid tol rt atl htol hgap' x m hxs tg
  refine ⟨cp, hcp, sh1, sh2, fun i hi j hj => ?_⟩
  obtain ⟨eN, eR, _, _, _, _, _, _, hint, _, _, _⟩ := C14_cubic_boundary _ _ _ _ _ _ _ _ _ hcp
  have hne : bFREE ≠ bPERIODIC := by decide
  simp only [hne, if_false] at hint
  have hcols : cp.ncols = m := sh2 0 (by omega)
  have h1 := hint i (by rw [hlen]; exact hi) j (by rw [hcols]; exact hj)
  have hx : Mat.get (cubicClose bFREE rt atl x) i j = x.get i j := by unfold cubicClose; simp [hne]
  rw [hx] at h1
  rw [← h1]
  have hv := freeBasis_valid a b c d mid tol hgap' htol
  have hnf := freeBasis_numFunctions a d mid
  have hdom := nested_in_domain (b := freeBasis a d mid) rfl _
    (by rw [hnf]; exact free_nested a b c d mid tol hgap' htol) i (by rw [hnf]; exact hi)
  unfold splineVal
  rw [hnf]
  apply sum_congr rfl
  intro l hl
  rw [evaluate_inside_right hv rfl htol (free_exact a b c d mid tol hgap' htol i hi) hdom.1 hdom.2
    (by rw [hnf]; exact mem_range.mp hl), mul_comm]
  rfl

/-- Dimensions of the result of a non-periodic `cubic_curve`: one row per basis function and the
columns of the data (so the quantifiers over `j < cp.ncols` below are not vacuous). -/
theorem C14_cubic_dims (bd : ℕ) (hbd : bd ≠ bPERIODIC) (tol rt atl : K) (x : Mat K) (t : List K)
    (tg : Option (Mat K)) (basis : Basis K) (cp : Mat K)
    (h : cubicCurve bd tol rt atl x t tg = .ok (basis, cp)) :
    cp.size = basis.numFunctions ∧ cp.ncols = x.ncols := by
  obtain ⟨_, _, _, _, _, _, _, _, _, _, hcsz, hccols⟩ := C14_cubic_boundary _ _ _ _ _ _ _ _ _ h
  refine ⟨hcsz, ?_⟩
  rw [hccols]
  simp only [hbd, if_false]
  unfold cubicClose Mat.ncols
  simp [hbd]

omit [LinearOrder K] [FloorRing K] in
private theorem get_zero_rows (m dim i j : ℕ) :
    Mat.get (Array.replicate m (Array.replicate dim (0 : K))) i j = 0 := by
  unfold Mat.get
  by_cases hi : i < m
  · by_cases hj : j < dim
    · simp [Array.getD, hi, hj]
    · simp [Array.getD, hi, hj]
  · simp [Array.getD, hi]

/-- `TANGENT`: the first derivative of the result at the first and last parameter equals the two
prescribed tangents (rows `Basis.evaluate … d = 1`). -/
theorem C14_cubic_TANGENT (tol rt atl : K) (x : Mat K) (t : List K) (tg : Option (Mat K))
    (basis : Basis K) (cp : Mat K) (h : cubicCurve bTANGENT tol rt atl x t tg = .ok (basis, cp)) :
    ∃ g, tg = some g ∧ g.size = 2 ∧ cp.size = basis.numFunctions ∧ cp.ncols = x.ncols ∧ ∀ j < cp.ncols,
      (∑ l ∈ range basis.numFunctions, (basis.evaluate tol (t.headD 0) 1 true).getD l 0 * cp.get l j = g.get 0 j) ∧
      (∑ l ∈ range basis.numFunctions, (basis.evaluate tol (t.getLastD 0) 1 true).getD l 0 * cp.get l j = g.get 1 j) := by
  obtain ⟨dm1, dm2⟩ := C14_cubic_dims bTANGENT (by decide) tol rt atl x t tg basis cp h
  obtain ⟨eN, eR, he, _, _, _, _, hsz, _, hrows, hcsz, hccols⟩ := C14_cubic_boundary _ _ _ _ _ _ _ _ _ h
  have hne : bTANGENT ≠ bPERIODIC := by decide
  simp only [hne, if_false] at he
  obtain ⟨g, hg, hN, hR⟩ := cubicExtra_TANGENT _ _ _ _ _ _ _ he
  subst hN hR
  refine ⟨_, hg, by rw [hsz, size_colloc]; rfl, dm1, dm2, fun j hj => ⟨?_, ?_⟩⟩
  · have := hrows 0 (by rw [size_colloc]; simp) j hj
    refine (sum_congr rfl (fun l _ => ?_)).trans this
    · ( rw [get_colloc _ _ _ _ 0 l (by simp)]; simp)
  · have := hrows 1 (by rw [size_colloc]; simp) j hj
    refine (sum_congr rfl (fun l _ => ?_)).trans this
    · ( rw [get_colloc _ _ _ _ 1 l (by simp)]; simp)

/-- `NATURAL`: the second derivative of the result vanishes at both ends (rows `Basis.evaluate … d = 2`). -/
theorem C14_cubic_NATURAL (tol rt atl : K) (x : Mat K) (t : List K) (tg : Option (Mat K))
    (basis : Basis K) (cp : Mat K) (h : cubicCurve bNATURAL tol rt atl x t tg = .ok (basis, cp)) :
    cp.size = basis.numFunctions ∧ cp.ncols = x.ncols ∧ ∀ j < cp.ncols,
      (∑ l ∈ range basis.numFunctions, (basis.evaluate tol (t.headD 0) 2 true).getD l 0 * cp.get l j = 0) ∧
      (∑ l ∈ range basis.numFunctions, (basis.evaluate tol (t.getLastD 0) 2 true).getD l 0 * cp.get l j = 0) := by
  obtain ⟨dm1, dm2⟩ := C14_cubic_dims bNATURAL (by decide) tol rt atl x t tg basis cp h
  obtain ⟨eN, eR, he, _, _, _, _, _, _, hrows, hcsz, hccols⟩ := C14_cubic_boundary _ _ _ _ _ _ _ _ _ h
  have hne : bNATURAL ≠ bPERIODIC := by decide
  simp only [hne, if_false] at he
  obtain ⟨hN, hR⟩ := cubicExtra_NATURAL _ _ _ _ _ _ _ he
  rw [Array.empty_append] at hN hR
  subst hN hR
  refine ⟨dm1, dm2, fun j hj => ⟨?_, ?_⟩⟩
  · have := hrows 0 (by rw [size_colloc]; simp) j hj
    rw [get_zero_rows] at this
    refine (sum_congr rfl (fun l _ => ?_)).trans this
    · ( rw [get_colloc _ _ _ _ 0 l (by simp)]; simp)
  · have := hrows 1 (by rw [size_colloc]; simp) j hj
    rw [get_zero_rows] at this
    refine (sum_congr rfl (fun l _ => ?_)).trans this
    · ( rw [get_colloc _ _ _ _ 1 l (by simp)]; simp)

/-- **`cubic_curve(x, NATURAL, t)` needs no solvability hypothesis**: for EVERY parameter sequence
`t₀ < … < t_{n−1}` (`n ≥ 2`, consecutive values at least the knot tolerance apart) and any `n × m`
data the `(n+2) × (n+2)` system is solvable and the model SUCCEEDS with the basis `natBasis` (knots
`t₀⁴, t₁ … t_{n−2}, t_{n−1}⁴`).  Uniqueness of the natural spline is the (purely algebraic) energy
argument `Interp.natural_unique`.  The result is `(n+2) × m`; the spline of the specification
`Σ_l cp_l B_l` passes through every point and its SECOND DERIVATIVE (`splineDeriv … 2`, one-sided from
inside the domain) VANISHES at both ends. -/
theorem C14_cubic_NATURAL_exists [IsStrictOrderedRing K] (a d : K) (mid : List K) (tol rt atl : K)
    (htol : 0 < tol)
    (hgap : (a :: (mid ++ [d])).Pairwise (fun u w => u + tol ≤ w))
    (x : Mat K) (m : ℕ) (hxs : x.size = mid.length + 2 ∧ ∀ i, i < mid.length + 2 → (x.getD i #[]).size = m)
    (tg : Option (Mat K)) :
    ∃ cp, cubicCurve bNATURAL tol rt atl x (a :: (mid ++ [d])) tg = .ok (natBasis a d mid, cp) ∧
      cp.size = mid.length + 4 ∧ (∀ l, l < mid.length + 4 → (cp.getD l #[]).size = m) ∧
      (∀ i < mid.length + 2, ∀ j < m,
        splineVal (effSide (natBasis a d mid) ((a :: (mid ++ [d])).getD i 0) true)
          (natBasis a d mid).kn 3 (mid.length + 4) (fun l => cp.get l j)
          ((a :: (mid ++ [d])).getD i 0) = x.get i j) ∧
      (∀ j < m,
        splineDeriv .right (natBasis a d mid).kn 3 (mid.length + 4) (fun l => cp.get l j) 2 a = 0 ∧
        splineDeriv .left (natBasis a d mid).kn 3 (mid.length + 4) (fun l => cp.get l j) 2 d = 0) := by
  have hlen : (a :: (mid ++ [d])).length = mid.length + 2 := by simp
  have hgap' : ∀ i j, i < j → j < mid.length + 2 →
      (a :: (mid ++ [d])).getD i 0 + tol ≤ (a :: (mid ++ [d])).getD j 0 := by
    intro i j hij hj
    have hi : i < (a :: (mid ++ [d])).length := by omega
    have hj' : j < (a :: (mid ++ [d])).length := by omega
    have := List.pairwise_iff_getElem.mp hgap i j hi hj' hij
    rw [List.getD_eq_getElem?_getD, List.getD_eq_getElem?_getD, List.getElem?_eq_getElem hi,
      List.getElem?_eq_getElem hj']
    exact this
  obtain ⟨cp, hcp, sh1, sh2⟩ := cubicCurve_NATURAL_ok_of_unique a d mid tol rt atl htol hgap'
    (natural_unique a d mid tol htol hgap') x m hxs tg
  have hv := natBasis_valid a d mid tol hgap' htol
  have hnf := natBasis_numFunctions a d mid
  have hcols : cp.ncols = m := sh2 0 (by omega)
  have hex := nat_exact a d mid tol hgap' htol
  have hdom := nat_in_domain a d mid tol hgap' htol
  have hstart := nat_start a d mid tol hgap' htol
  have hstop := nat_stop a d mid tol hgap' htol
  have hlt : a < d := by have := hv.start_lt_stop; rw [hstart, hstop] at this; exact this
  refine ⟨cp, hcp, sh1, sh2, fun i hi j hj => ?_, fun j hj => ?_⟩
  · obtain ⟨eN, eR, _, _, _, _, _, _, hint, _, _, _⟩ := C14_cubic_boundary _ _ _ _ _ _ _ _ _ hcp
    have hne : bNATURAL ≠ bPERIODIC := by decide
    simp only [hne, if_false] at hint
    have h1 := hint i (by rw [hlen]; exact hi) j (by rw [hcols]; exact hj)
    have hx : Mat.get (cubicClose bNATURAL rt atl x) i j = x.get i j := by unfold cubicClose; simp [hne]
    rw [hx] at h1
    rw [← h1]
    unfold splineVal
    rw [hnf]
    apply sum_congr rfl
    intro l hl
    rw [evaluate_inside_right hv rfl htol (hex i hi) (hdom i hi).1 (hdom i hi).2
      (by rw [hnf]; exact mem_range.mp hl), mul_comm]
    rfl
  · have hrows := (C14_cubic_NATURAL tol rt atl x (a :: (mid ++ [d])) tg _ cp hcp).2.2 j (by rw [hcols]; exact hj)
    have h1 : (a :: (mid ++ [d])).headD 0 = a := rfl
    have h2 : (a :: (mid ++ [d])).getLastD 0 = d := by simp [List.getLastD]
    rw [h1, h2, hnf] at hrows
    have hexa : (natBasis a d mid).ExactAt tol a := by have := hex 0 (by omega); simpa using this
    have hexd : (natBasis a d mid).ExactAt tol d := by
      have := hex (mid.length + 1) (by omega)
      have e : (a :: (mid ++ [d])).getD (mid.length + 1) 0 = d := by
        simp [List.getD_eq_getElem?_getD, List.getElem?_append_right]
      rw [e] at this; exact this
    have hsa : effSide (natBasis a d mid) a true = .right := by
      unfold effSide; rw [hstop, if_neg (ne_of_lt hlt)]; rfl
    have hsd : effSide (natBasis a d mid) d true = .left := by
      unfold effSide; rw [hstop, if_pos rfl]
    constructor
    · rw [← hrows.1]
      unfold splineDeriv
      apply sum_congr rfl
      intro l hl
      rw [C01_value_deriv_open hv rfl htol hexa (by rw [hstart]) (by rw [hstop]; exact hlt.le) (by simp)
        (by show 2 < 4; omega) (by rw [hnf]; exact mem_range.mp hl), hsa, mul_comm]
      rfl
    · rw [← hrows.2]
      unfold splineDeriv
      apply sum_congr rfl
      intro l hl
      rw [C01_value_deriv_open hv rfl htol hexd (by rw [hstart]; exact hlt.le) (by rw [hstop]) (by simp)
        (by show 2 < 4; omega) (by rw [hnf]; exact mem_range.mp hl), hsd, mul_comm]
      rfl

/-- `HERMITE`: the first derivative of the result at EVERY data parameter equals the prescribed tangent. -/
theorem C14_cubic_HERMITE (tol rt atl : K) (x : Mat K) (t : List K) (tg : Option (Mat K))
    (basis : Basis K) (cp : Mat K) (h : cubicCurve bHERMITE tol rt atl x t tg = .ok (basis, cp)) :
    ∃ g, tg = some g ∧ g.size = t.length ∧ cp.size = basis.numFunctions ∧ cp.ncols = x.ncols ∧
      ∀ i < t.length, ∀ j < cp.ncols,
      ∑ l ∈ range basis.numFunctions, (basis.evaluate tol (t.getD i 0) 1 true).getD l 0 * cp.get l j = g.get i j := by
  obtain ⟨dm1, dm2⟩ := C14_cubic_dims bHERMITE (by decide) tol rt atl x t tg basis cp h
  obtain ⟨eN, eR, he, _, _, _, _, hsz, _, hrows, hcsz, hccols⟩ := C14_cubic_boundary _ _ _ _ _ _ _ _ _ h
  have hne : bHERMITE ≠ bPERIODIC := by decide
  simp only [hne, if_false] at he
  obtain ⟨g, hg, hN, hR⟩ := cubicExtra_HERMITE _ _ _ _ _ _ _ he
  subst hN hR
  refine ⟨_, hg, by rw [hsz, size_colloc], dm1, dm2, fun i hi j hj => ?_⟩
  have := hrows i (by rw [size_colloc]; exact hi) j hj
  refine (sum_congr rfl (fun l _ => ?_)).trans this
  · ( rw [get_colloc _ _ _ _ i l hi])

/-- `TANGENTNATURAL`: prescribed first derivative at the start, vanishing second derivative at the end. -/
theorem C14_cubic_TANGENTNATURAL (tol rt atl : K) (x : Mat K) (t : List K) (tg : Option (Mat K))
    (basis : Basis K) (cp : Mat K) (h : cubicCurve bTANGENTNATURAL tol rt atl x t tg = .ok (basis, cp)) :
    ∃ g, tg = some g ∧ g.size = 1 ∧ cp.size = basis.numFunctions ∧ cp.ncols = x.ncols ∧ ∀ j < cp.ncols,
      (∑ l ∈ range basis.numFunctions, (basis.evaluate tol (t.headD 0) 1 true).getD l 0 * cp.get l j = g.get 0 j) ∧
      (∑ l ∈ range basis.numFunctions, (basis.evaluate tol (t.getLastD 0) 2 true).getD l 0 * cp.get l j = 0) := by
  obtain ⟨dm1, dm2⟩ := C14_cubic_dims bTANGENTNATURAL (by decide) tol rt atl x t tg basis cp h
  obtain ⟨eN, eR, he, _, _, _, _, hsz, _, hrows, hcsz, hccols⟩ := C14_cubic_boundary _ _ _ _ _ _ _ _ _ h
  have hne : bTANGENTNATURAL ≠ bPERIODIC := by decide
  simp only [hne, if_false] at he
  obtain ⟨g, hg, hN, hR⟩ := cubicExtra_TANGENTNATURAL _ _ _ _ _ _ _ he
  subst hN hR
  have hg1 : g.size = 1 := by
    simp only [Array.size_append, size_colloc, Array.size_replicate, List.length_cons, List.length_nil] at hsz
    omega
  refine ⟨_, hg, hg1, dm1, dm2, fun j hj => ⟨?_, ?_⟩⟩
  · have := hrows 0 (by rw [Array.size_append, size_colloc]; simp) j hj
    rw [Mat.get_append_left_c14 _ _ _ _ (by rw [hg1]; exact Nat.zero_lt_one)] at this
    refine (sum_congr rfl (fun l _ => ?_)).trans this
    · (
      rw [Mat.get_append_left_c14 _ _ _ _ (by rw [size_colloc]; simp), get_colloc _ _ _ _ 0 l (by simp)]; simp)
  · have := hrows 1 (by rw [Array.size_append, size_colloc, size_colloc]; simp) j hj
    have e : ∀ d : ℕ, Mat.get (g ++ Array.replicate 1 (Array.replicate d (0 : K))) 1 j = 0 := by
      intro d
      have := Mat.get_append_right_c14 g (Array.replicate 1 (Array.replicate d (0 : K))) 0 j
      rw [hg1] at this
      rw [this, get_zero_rows]
    rw [e] at this
    refine (sum_congr rfl (fun l _ => ?_)).trans this
    · (
      have := Mat.get_append_right_c14 (colloc basis tol [t.headD 0] 1) (colloc basis tol [t.getLastD 0] 2) 0 l
      rw [size_colloc] at this
      have e1 : [t.headD 0].length + 0 = 1 := rfl
      rw [e1] at this
      rw [this, get_colloc _ _ _ _ 0 l (by simp)]; simp)

/-- `FREE` (not-a-knot): the second and the second-to-last data parameter are NOT knots of the result
— the knot vector is `t₀⁴, t₂ … t_{n−3}, t_{n−1}⁴` — so the cubic pieces on either side of them are one
polynomial and every derivative (in particular the third) is continuous there. -/
theorem C14_cubic_FREE_knots (a b c d : K) (mid : List K) :
    cubicKnots bFREE (a :: b :: (mid ++ [c, d])) = .ok ([a, a, a, a] ++ mid ++ [d, d, d, d]) :=
  cubicKnots_FREE a b c d mid

/-! ## The raw Gauss–Jordan model, the specification `B`, and Schoenberg–Whitney -/

section Spec
variable [IsStrictOrderedRing K]

omit [FloorRing K] [IsStrictOrderedRing K] in
/-- **The certificate never fails**: on a square system with a well-shaped right-hand side the
certified solve used by every C14 model function IS the raw Gauss–Jordan model `Mat.solve` of
`np.linalg.solve` (proved sound and complete in Lemmas/SolveSound.lean), and `invC` is `Mat.inv`.
Hence all C14 theorems are statements about `Mat.solve`. -/
theorem C14_solve_is_gauss_jordan (A B : Mat K) (n m : ℕ)
    (hA : A.size = n ∧ ∀ i, i < n → (A.getD i #[]).size = n)
    (hB : B.size = n ∧ ∀ i, i < n → (B.getD i #[]).size = m) :
    solveC A B = Mat.solve A B ∧ invC A = Mat.inv A :=
  ⟨solveC_eq_solve A B n m hA hB, invC_eq_inv A n hA⟩

/-- **Curve interpolation in specification terms.**  For a valid basis (periodic or not) and every
admissible parameter `t_i` (exact w.r.t. the knot tolerance; in the domain if non-periodic), the
returned coefficients satisfy `Σ_l N_l(t_i) · c_l = x_i`, where `N_l = Basis.specRow` is the
Cox–de Boor B-spline of the specification (the sum of the wrapped images for a periodic basis). -/
theorem C14_interpolate_curve_spec {b : Basis K} (hv : b.Valid) {tol : K} (htol : 0 < tol)
    (t : Option (List K)) (x c : Mat K) (h : interpolateCurve b tol t x = .ok c) :
    ∃ ts, paramsOrGreville b t = .ok ts ∧ ts.length = b.numFunctions ∧ x.size = ts.length ∧
      (∀ i < ts.length, b.Admissible tol (ts.getD i 0) → ∀ j < c.ncols,
        ∑ l ∈ range b.numFunctions, b.specRow (ts.getD i 0) l * c.get l j = x.get i j) ∧
      c.size = b.numFunctions ∧ c.ncols = x.ncols ∧
      ∀ m, (∀ i, i < x.size → (x.getD i #[]).size = m) → ∀ l, l < c.size → (c.getD l #[]).size = m := by
  obtain ⟨ts, h1, h2, h3, h4, hd⟩ := C14_interpolate_curve b tol t x c h
  refine ⟨ts, h1, h2, h3, fun i hi hadm j hj => ?_, hd⟩
  rw [← h4 i hi j hj]
  exact sum_congr rfl (fun l hl => by
    rw [evaluate_getD_eq_specRow_c14 hv htol hadm (mem_range.mp hl)])

/-- Non-periodic case spelled out with `splineVal`: the spline `Σ_l c_l B_l` of the specification
takes the value `x_i` at `t_i` (right-continuous `B`, the limit from inside at the domain end). -/
theorem C14_interpolate_curve_splineVal {b : Basis K} (hv : b.Valid) (hper : b.periodic = -1)
    {tol : K} (htol : 0 < tol) (t : Option (List K)) (x c : Mat K)
    (h : interpolateCurve b tol t x = .ok c) :
    ∃ ts, paramsOrGreville b t = .ok ts ∧ ts.length = b.numFunctions ∧ x.size = ts.length ∧
      (∀ i < ts.length, b.ExactAt tol (ts.getD i 0) → b.start ≤ ts.getD i 0 → ts.getD i 0 ≤ b.stop →
        ∀ j < c.ncols,
          splineVal (effSide b (ts.getD i 0) true) b.kn (b.order - 1) b.numFunctions
            (fun l => c.get l j) (ts.getD i 0) = x.get i j) ∧
      c.size = b.numFunctions ∧ c.ncols = x.ncols ∧
      ∀ m, (∀ i, i < x.size → (x.getD i #[]).size = m) → ∀ l, l < c.size → (c.getD l #[]).size = m := by
  obtain ⟨ts, h1, h2, h3, h4, hd⟩ := C14_interpolate_curve_spec hv htol t x c h
  refine ⟨ts, h1, h2, h3, fun i hi hex hlo hhi j hj => ?_, hd⟩
  have hadm : b.Admissible tol (ts.getD i 0) :=
    ⟨hex, fun _ => ⟨hlo, hhi⟩, fun h0 => by rw [hper] at h0; exact absurd h0 (by decide)⟩
  rw [← h4 i hi hadm j hj]
  unfold splineVal
  exact sum_congr rfl (fun l _ => by rw [Basis.specRow_nonperiodic hper, mul_comm])

/-- **Rows are one-sided derivatives of the result** (bridge for the `cubic_curve` end rows).  For a
valid non-periodic basis, an exact parameter `t` of the domain and `d < order`, the row sum
`Σ_l N_l^{(d)}(t) · c_l` formed with the model's `Basis.evaluate … d` IS the `d`-th one-sided derivative
`splineDeriv` of the spline `Σ_l c_l B_l` of the specification at `t` (from the right, at the domain end
from the left) — C01.  Composed with `C14_cubic_TANGENT / _HERMITE / _TANGENTNATURAL / _NATURAL` the end
rows say: the first derivative of the result equals the prescribed tangent, the second derivative
vanishes. -/
theorem C14_row_is_splineDeriv {b : Basis K} (hv : b.Valid) (hper : b.periodic = -1) {tol t : K}
    (htol : 0 < tol) (hex : b.ExactAt tol t) (h1 : b.start ≤ t) (h2 : t ≤ b.stop) {d : ℕ} (hd : d < b.order)
    (c : ℕ → K) :
    ∑ l ∈ range b.numFunctions, (b.evaluate tol t d true).getD l 0 * c l
      = splineDeriv (effSide b t true) b.kn (b.order - 1) b.numFunctions c d t := by
  unfold splineDeriv
  apply sum_congr rfl
  intro l hl
  rw [C01_value_deriv_open hv hper htol hex h1 h2 (by simp) hd (mem_range.mp hl), mul_comm]

/-- **Closed `C²` seam of `cubic_curve(…, PERIODIC)` — in the model's own wrapped evaluation.**  For every
closed parameter list `t₀ < … < t_N` (`N ≥ 3`, i.e. at least four entries as the code requires; gaps
≥ tol): if the model returns `(basis, cp)` then `basis` is `perBasis t` (order 4, `periodic = 2`, knots
`t` extended by three wrapped knots on each side), its domain is `[t₀, t_N]`, and for every derivative
order `d ≤ 2` the RESULT CURVE's `SplineObject.derivative` (`Obj.derivativeGeneric`) at the end `t_N`
(from either side) and at the start `t₀` from below returns exactly what it returns at `t₀` from above:
value, tangent and curvature are continuous across the seam.  (The identification of the periodic
continuation with the wrapped evaluation is `derivativeGeneric_seam`, C08.) -/
theorem C14_cubic_PERIODIC_seam (tol rt atl : K) (htol : 0 < tol) (x : Mat K) (t : List K)
    (h4 : 4 ≤ t.length) (hgap : t.Pairwise (fun u w => u + tol ≤ w))
    (tg : Option (Mat K)) (basis : Basis K) (cp : Mat K)
    (h : cubicCurve bPERIODIC tol rt atl x t tg = .ok (basis, cp)) (d : ℕ) (hd : d ≤ 2) (a tensor : Bool) :
    basis = perBasis t ∧ basis.order = 4 ∧ basis.periodic = 2 ∧
    basis.start = t.getD 0 0 ∧ basis.stop = t.getD (t.length - 1) 0 ∧
    (curveOf basis cp).derivativeGeneric tol [[t.getD (t.length - 1) 0]] [d] [a] tensor
        = (curveOf basis cp).derivativeGeneric tol [[t.getD 0 0]] [d] [true] tensor ∧
    (curveOf basis cp).derivativeGeneric tol [[t.getD 0 0]] [d] [false] tensor
        = (curveOf basis cp).derivativeGeneric tol [[t.getD 0 0]] [d] [true] tensor := by
  have hgap' : ∀ i j, i < j → j < t.length → t.getD i 0 + tol ≤ t.getD j 0 := by
    intro i j hij hj
    have := List.pairwise_iff_getElem.mp hgap i j (by omega) hj hij
    simpa [List.getD_eq_getElem?_getD, List.getElem?_eq_getElem, hj, (by omega : i < t.length)] using this
  obtain ⟨r1, r2, r3, r4, r5⟩ := cubicCurve_PERIODIC_seam tol rt atl htol x t h4 hgap' tg basis cp h d hd a tensor
  exact ⟨r1, by rw [r1]; rfl, by rw [r1]; rfl, r2, r3, r4, r5⟩

/-- **`cubic_curve(x, PERIODIC, t)` on UNIFORM parameters needs no solvability hypothesis** (partial:
uniform parameters `t_k = s + k·h`, `k = 0 … M+3`, `tol ≤ h`, only; for non-uniform parameters the
periodic collocation matrix is not diagonally dominant in general and solvability stays a hypothesis of
`C14_cubic_PERIODIC_seam` / `C14_cubic_boundary`).  `x'` is the input after the model's closing step
(`cubicClose`: the first point appended if the input is not closed), `(M+4) × m`.  Then the model
SUCCEEDS with `perBasis t`, the control net is `(M+3) × m`, the interpolation rows hold at every
`t_i` (`i ≤ M+2`; the duplicate seam point is dropped), and the result is `C²` across the seam. -/
theorem C14_cubic_PERIODIC_uniform_exists_partial (tol rt atl : K) (htol : 0 < tol) (s h : K) (hh : 0 < h)
    (htolh : tol ≤ h) (t : List K) (M : ℕ) (hlen : t.length = M + 4)
    (hu : ∀ k, k < M + 4 → t.getD k 0 = s + h * (k : K)) (x : Mat K) (m : ℕ)
    (hxs : (cubicClose bPERIODIC rt atl x).size = M + 4 ∧
      ∀ i, i < M + 4 → ((cubicClose bPERIODIC rt atl x).getD i #[]).size = m)
    (tg : Option (Mat K)) :
    ∃ cp, cubicCurve bPERIODIC tol rt atl x t tg = .ok (perBasis t, cp) ∧
      cp.size = M + 3 ∧ (∀ i, i < M + 3 → (cp.getD i #[]).size = m) ∧
      (∀ i < M + 3, ∀ j < m,
        ∑ l ∈ range (M + 3), ((perBasis t).evaluate tol (t.getD i 0) 0 true).getD l 0 * cp.get l j
          = (cubicClose bPERIODIC rt atl x).get i j) ∧
      ∀ d ≤ 2, ∀ a tensor : Bool,
        (curveOf (perBasis t) cp).derivativeGeneric tol [[t.getD (t.length - 1) 0]] [d] [a] tensor
          = (curveOf (perBasis t) cp).derivativeGeneric tol [[t.getD 0 0]] [d] [true] tensor ∧
        (curveOf (perBasis t) cp).derivativeGeneric tol [[t.getD 0 0]] [d] [false] tensor
          = (curveOf (perBasis t) cp).derivativeGeneric tol [[t.getD 0 0]] [d] [true] tensor := by
  obtain ⟨hgap, cp, hcp, s1, s2⟩ := cubicCurve_PERIODIC_uniform_ok tol rt atl htol s h hh htolh t M hlen hu x m hxs tg
  refine ⟨cp, hcp, s1, s2, ?_, fun d hd a tensor => ?_⟩
  · obtain ⟨eN, eR, _, _, _, _, _, _, hint, _, _, hcols⟩ := C14_cubic_boundary _ _ _ _ _ _ _ _ _ hcp
    simp only [if_true] at hint hcols
    have hnf : (perBasis t).numFunctions = M + 3 := by rw [perBasis_numFunctions, hlen]; rfl
    have hpop0 : ((cubicClose bPERIODIC rt atl x).pop.getD 0 #[]).size = m := by
      have h1 : 0 < (cubicClose bPERIODIC rt atl x).size := by rw [hxs.1]; omega
      have h2 : 0 < (cubicClose bPERIODIC rt atl x).size - 1 := by rw [hxs.1]; omega
      have : (cubicClose bPERIODIC rt atl x).pop.getD 0 #[] = (cubicClose bPERIODIC rt atl x).getD 0 #[] := by
        simp [Array.getD, h1, h2, Array.getElem_pop]
      rw [this]; exact hxs.2 0 (by omega)
    intro i hi j hj
    have := hint i (by rw [List.length_dropLast, hlen]; omega) j (by rw [hcols, hpop0]; exact hj)
    rw [hnf] at this
    have e1 : t.dropLast.getD i 0 = t.getD i 0 := by
      simp only [List.getD_eq_getElem?_getD]
      rw [List.getElem?_dropLast, if_pos (by rw [hlen]; omega)]
    rw [e1] at this
    rw [this]
    have h1 : i < (cubicClose bPERIODIC rt atl x).size := by rw [hxs.1]; omega
    have h2 : i < (cubicClose bPERIODIC rt atl x).size - 1 := by rw [hxs.1]; omega
    simp [Mat.get, Array.getD, h1, h2, Array.getElem_pop]
  · obtain ⟨_, _, _, r4, r5⟩ := cubicCurve_PERIODIC_seam tol rt atl htol x t (by omega) hgap tg _ cp hcp d hd a tensor
    exact ⟨r4, r5⟩

/-- **The returned curve object evaluates to the data** (through C02): `Curve(basis, cp)` evaluated by
the model's `SplineObject.evaluate` at the interpolation parameters gives back `x`. -/
theorem C14_interpolate_curve_evaluate {b : Basis K} (hv : b.Valid) {tol : K} (htol : 0 < tol)
    (t : Option (List K)) (x c : Mat K) (h : interpolateCurve b tol t x = .ok c) :
    ∃ ts, paramsOrGreville b t = .ok ts ∧
      ((∀ u ∈ ts, b.Admissible tol u) → ts ≠ [] →
        ∃ res, (curveOf b c).evaluate tol [ts] true = .ok res ∧ res.shape = [ts.length, x.ncols] ∧
          ∀ i < ts.length, ∀ j < x.ncols, res.get (i * x.ncols + j) = x.get i j) := by
  obtain ⟨ts, h1, h2, h3, h4, _, hcols, _⟩ := C14_interpolate_curve_spec hv htol t x c h
  rw [← hcols]
  refine ⟨ts, h1, fun hadm hne => ?_⟩
  have hcsize : c.size = b.numFunctions := by
    unfold interpolateCurve at h
    simp only [bind, Except.bind, h1] at h
    split at h
    · exact absurd h (by simp [throw, throwThe, MonadExceptOf.throw])
    · have := (solveC_ok h).1
      rw [this]
      unfold Mat.ncols
      rw [row_colloc b tol ts 0 0 (List.length_pos_of_ne_nil hne), size_evaluate_c14]
  obtain ⟨res, r1, r2, _, r4⟩ := Obj.evaluate1_spec_nonrational (o := curveOf b c) (b1 := b) rfl hv
    (nc := c.ncols) (by unfold curveOf matTensor; rw [hcsize]) rfl htol hadm (fun _ => hne)
  refine ⟨res, r1, r2, fun i hi j hj => ?_⟩
  rw [r4 i j hi hj, ← h4 i hi (hadm _ (by simp [List.getD_eq_getElem?_getD, hi])) j hj]
  apply sum_congr rfl
  intro l hl
  congr 1
  unfold curveOf
  simp only
  rw [get_matTensor c c.size c.ncols l j (by rw [hcsize]; exact mem_range.mp hl) hj]

/-- **Surface interpolation in specification terms.**  With valid bases and admissible grid
parameters, the control net returned by the loop of `surface_factory.interpolate` satisfies
`Σ_a Σ_b N_a(u_i) · M_b(v_j) · cp[a][b] = x[i][j]` with `N`, `M` the B-splines of the specification
(`Basis.specRow`, C01/C02) — for arbitrary non-square shapes and both input layouts. -/
theorem C14_interpolate_surface_spec {bu bv : Basis K} (hvu : bu.Valid) (hvv : bv.Valid) {tol : K}
    (htol : 0 < tol) (u : Option (List (List K))) (tu tv : List K) (x cp : Tensor K)
    (hp : gridParams [bu, bv] u = .ok [tu, tv]) (htu : tu ≠ []) (htv : tv ≠ [])
    (hx : x.shape.length = 2 ∨ x.shape.length = 3)
    (hau : ∀ i < tu.length, bu.Admissible tol (tu.getD i 0))
    (hav : ∀ j < tv.length, bv.Admissible tol (tv.getD j 0))
    (h : interpolateGridCore [bu, bv] tol u x = .ok cp) :
    ∃ (x' : Tensor K) (d : ℕ), gridInput [bu, bv] x = .ok x' ∧ x'.data = x.data ∧
      x'.shape = [tu.length, tv.length, d] ∧ cp.shape = [bu.numFunctions, bv.numFunctions, d] ∧
      ∀ i < tu.length, ∀ j < tv.length, ∀ k < d,
        ∑ a ∈ range bu.numFunctions, bu.specRow (tu.getD i 0) a *
          ∑ b ∈ range bv.numFunctions, bv.specRow (tv.getD j 0) b * cp.entry3 bv.numFunctions d a b k
          = x'.entry3 tv.length d i j k := by
  obtain ⟨x', d, h1, h2, h3, h4, _, h5, h6, h7⟩ := C14_interpolate_surface bu bv tol u tu tv x cp hp htu htv hx h
  refine ⟨x', d, h1, h2, h3, by rw [h4, h5, h6], fun i hi j hj k hk => ?_⟩
  rw [← h7 i hi j hj k hk]
  have hNu : (colloc bu tol tu 0).size = tu.length := size_colloc _ _ _ _
  have hNv : (colloc bv tol tv 0).size = tv.length := size_colloc _ _ _ _
  obtain ⟨hs1, he1⟩ := Tensor.applyAxis3_1_c14 (colloc bv tol tv 0) cp h4
  rw [hNv] at hs1 he1
  obtain ⟨_, he0⟩ := Tensor.applyAxis3_0_c14 (colloc bu tol tu 0) _ hs1
  rw [hNu] at he0
  rw [he0 i hi j hj k hk, ← h5]
  apply sum_congr rfl
  intro a ha
  rw [get_colloc bu tol tu 0 i a hi, evaluate_getD_eq_specRow_c14 hvu htol (hau i hi) (by rw [← h5]; exact mem_range.mp ha),
    he1 a (mem_range.mp ha) j hj k hk, ← h6]
  congr 1
  apply sum_congr rfl
  intro b hb
  rw [get_colloc bv tol tv 0 j b hj, evaluate_getD_eq_specRow_c14 hvv htol (hav j hj) (by rw [← h6]; exact mem_range.mp hb)]

/-- **The returned `Surface` evaluates to the data** (through C02): the model's
`SplineObject.evaluate` of `Surface(b_u, b_v, cp)` on the parameter grid gives back `x[i][j]`. -/
theorem C14_interpolate_surface_evaluate {bu bv : Basis K} (hvu : bu.Valid) (hvv : bv.Valid) {tol : K}
    (htol : 0 < tol) (u : Option (List (List K))) (tu tv : List K) (x cp : Tensor K)
    (hp : gridParams [bu, bv] u = .ok [tu, tv]) (htu : tu ≠ []) (htv : tv ≠ [])
    (hx : x.shape.length = 2 ∨ x.shape.length = 3)
    (hau : ∀ t ∈ tu, bu.Admissible tol t) (hav : ∀ t ∈ tv, bv.Admissible tol t)
    (h : interpolateGridCore [bu, bv] tol u x = .ok cp)
    (hneA1 : bu.periodic < 0 → tu ≠ [] := by (first | assumption | (simp; done) | skip))
    (hneA2 : bv.periodic < 0 → tv ≠ [] := by (first | assumption | (simp; done) | skip)) :
    ∃ (x' : Tensor K) (d : ℕ) (res : Tensor K), gridInput [bu, bv] x = .ok x' ∧ x'.data = x.data ∧
      x'.shape = [tu.length, tv.length, d] ∧
      (gridOf [bu, bv] cp).evaluate tol [tu, tv] true = .ok res ∧ res.shape = [tu.length, tv.length, d] ∧
      ∀ i < tu.length, ∀ j < tv.length, ∀ k < d,
        res.get ((i * tv.length + j) * d + k) = x'.entry3 tv.length d i j k := by
  have hau' : ∀ i < tu.length, bu.Admissible tol (tu.getD i 0) := fun i hi =>
    hau _ (by rw [List.getD_eq_getElem?_getD, List.getElem?_eq_getElem hi]; exact List.getElem_mem _)
  have hav' : ∀ j < tv.length, bv.Admissible tol (tv.getD j 0) := fun j hj =>
    hav _ (by rw [List.getD_eq_getElem?_getD, List.getElem?_eq_getElem hj]; exact List.getElem_mem _)
  obtain ⟨x', d, h1, h2, h3, h4, h5⟩ := C14_interpolate_surface_spec hvu hvv htol u tu tv x cp hp htu htv hx hau' hav' h
  obtain ⟨res, r1, r2, _, r4⟩ := Obj.evaluate2_spec_nonrational (o := gridOf [bu, bv] cp) (b1 := bu) (b2 := bv) rfl
    hvu hvv (nc := d) h4 rfl htol hau hav
  refine ⟨x', d, res, h1, h2, h3, r1, r2, fun i hi j hj k hk => ?_⟩
  rw [r4 i j k hi hj hk, ← h5 i hi j hj k hk]
  apply sum_congr rfl
  intro a _
  rw [mul_sum]
  apply sum_congr rfl
  intro b _
  unfold gridOf Tensor.entry3
  ring

/-- **Volume interpolation in specification terms**: `Σ_a Σ_b Σ_c N_a(u_i) M_b(v_j) L_c(w_k) · cp[a][b][c]
= x[i][j][k]` with the B-splines of the specification, for valid bases and admissible parameters. -/
theorem C14_interpolate_volume_spec {bu bv bw : Basis K} (hvu : bu.Valid) (hvv : bv.Valid) (hvw : bw.Valid)
    {tol : K} (htol : 0 < tol) (u : Option (List (List K))) (tu tv tw : List K) (x cp : Tensor K)
    (hp : gridParams [bu, bv, bw] u = .ok [tu, tv, tw]) (htu : tu ≠ []) (htv : tv ≠ []) (htw : tw ≠ [])
    (hx : x.shape.length = 2 ∨ x.shape.length = 4)
    (hau : ∀ i < tu.length, bu.Admissible tol (tu.getD i 0))
    (hav : ∀ j < tv.length, bv.Admissible tol (tv.getD j 0))
    (haw : ∀ k < tw.length, bw.Admissible tol (tw.getD k 0))
    (h : interpolateGridCore [bu, bv, bw] tol u x = .ok cp) :
    ∃ (x' : Tensor K) (d : ℕ), gridInput [bu, bv, bw] x = .ok x' ∧ x'.data = x.data ∧
      x'.shape = [tu.length, tv.length, tw.length, d] ∧
      cp.shape = [bu.numFunctions, bv.numFunctions, bw.numFunctions, d] ∧
      ∀ i < tu.length, ∀ j < tv.length, ∀ k < tw.length, ∀ l < d,
        ∑ a ∈ range bu.numFunctions, bu.specRow (tu.getD i 0) a *
          ∑ b ∈ range bv.numFunctions, bv.specRow (tv.getD j 0) b *
            ∑ c ∈ range bw.numFunctions, bw.specRow (tw.getD k 0) c *
              cp.entry4 bv.numFunctions bw.numFunctions d a b c l
          = x'.entry4 tv.length tw.length d i j k l := by
  obtain ⟨x', d, h1, h2, h3, h4, _, h5, h6, h7, h8⟩ :=
    C14_interpolate_volume bu bv bw tol u tu tv tw x cp hp htu htv htw hx h
  refine ⟨x', d, h1, h2, h3, by rw [h4, h5, h6, h7], fun i hi j hj k hk l hl => ?_⟩
  rw [← h8 i hi j hj k hk l hl]
  have hNu : (colloc bu tol tu 0).size = tu.length := size_colloc _ _ _ _
  have hNv : (colloc bv tol tv 0).size = tv.length := size_colloc _ _ _ _
  have hNw : (colloc bw tol tw 0).size = tw.length := size_colloc _ _ _ _
  obtain ⟨hs2, he2⟩ := Tensor.applyAxis4_2 (colloc bw tol tw 0) cp h4
  rw [hNw] at hs2 he2
  obtain ⟨hs1, he1⟩ := Tensor.applyAxis4_1 (colloc bv tol tv 0) _ hs2
  rw [hNv] at hs1 he1
  obtain ⟨_, he0⟩ := Tensor.applyAxis4_0 (colloc bu tol tu 0) _ hs1
  rw [hNu] at he0
  rw [he0 i hi j hj k hk l hl, ← h5]
  apply sum_congr rfl
  intro a ha
  rw [get_colloc bu tol tu 0 i a hi,
    evaluate_getD_eq_specRow_c14 hvu htol (hau i hi) (by rw [← h5]; exact mem_range.mp ha),
    he1 a (mem_range.mp ha) j hj k hk l hl, ← h6]
  congr 1
  apply sum_congr rfl
  intro b hb
  rw [get_colloc bv tol tv 0 j b hj,
    evaluate_getD_eq_specRow_c14 hvv htol (hav j hj) (by rw [← h6]; exact mem_range.mp hb),
    he2 a (mem_range.mp ha) b (mem_range.mp hb) k hk l hl, ← h7]
  congr 1
  apply sum_congr rfl
  intro c hc
  rw [get_colloc bw tol tw 0 k c hk,
    evaluate_getD_eq_specRow_c14 hvw htol (haw k hk) (by rw [← h7]; exact mem_range.mp hc)]

/-- **The returned `Volume` evaluates to the data** (through C02). -/
theorem C14_interpolate_volume_evaluate {bu bv bw : Basis K} (hvu : bu.Valid) (hvv : bv.Valid)
    (hvw : bw.Valid) {tol : K} (htol : 0 < tol) (u : Option (List (List K))) (tu tv tw : List K)
    (x cp : Tensor K)
    (hp : gridParams [bu, bv, bw] u = .ok [tu, tv, tw]) (htu : tu ≠ []) (htv : tv ≠ []) (htw : tw ≠ [])
    (hx : x.shape.length = 2 ∨ x.shape.length = 4)
    (hau : ∀ t ∈ tu, bu.Admissible tol t) (hav : ∀ t ∈ tv, bv.Admissible tol t)
    (haw : ∀ t ∈ tw, bw.Admissible tol t)
    (h : interpolateGridCore [bu, bv, bw] tol u x = .ok cp)
    (hneA1 : bu.periodic < 0 → tu ≠ [] := by (first | assumption | (simp; done) | skip))
    (hneA2 : bv.periodic < 0 → tv ≠ [] := by (first | assumption | (simp; done) | skip))
    (hneA3 : bw.periodic < 0 → tw ≠ [] := by (first | assumption | (simp; done) | skip)) :
    ∃ (x' : Tensor K) (d : ℕ) (res : Tensor K), gridInput [bu, bv, bw] x = .ok x' ∧ x'.data = x.data ∧
      x'.shape = [tu.length, tv.length, tw.length, d] ∧
      (gridOf [bu, bv, bw] cp).evaluate tol [tu, tv, tw] true = .ok res ∧
      res.shape = [tu.length, tv.length, tw.length, d] ∧
      ∀ i < tu.length, ∀ j < tv.length, ∀ k < tw.length, ∀ l < d,
        res.get (((i * tv.length + j) * tw.length + k) * d + l) = x'.entry4 tv.length tw.length d i j k l := by
  have mem : ∀ (l : List K) (i : ℕ), i < l.length → l.getD i 0 ∈ l := fun l i hi => by
    rw [List.getD_eq_getElem?_getD, List.getElem?_eq_getElem hi]; exact List.getElem_mem _
  obtain ⟨x', d, h1, h2, h3, h4, h5⟩ := C14_interpolate_volume_spec hvu hvv hvw htol u tu tv tw x cp hp htu htv htw hx
    (fun i hi => hau _ (mem tu i hi)) (fun j hj => hav _ (mem tv j hj)) (fun k hk => haw _ (mem tw k hk)) h
  obtain ⟨res, r1, r2, _, r4⟩ := Obj.evaluate3_spec_nonrational (o := gridOf [bu, bv, bw] cp)
    (b1 := bu) (b2 := bv) (b3 := bw) rfl hvu hvv hvw (nc := d) h4 rfl htol hau hav haw
  refine ⟨x', d, res, h1, h2, h3, r1, r2, fun i hi j hj k hk l hl => ?_⟩
  rw [r4 i j k l hi hj hk hl, ← h5 i hi j hj k hk l hl]
  apply sum_congr rfl
  intro a _
  rw [mul_sum]
  apply sum_congr rfl
  intro b _
  rw [mul_sum, mul_sum]
  apply sum_congr rfl
  intro c _
  unfold gridOf Tensor.entry4
  ring

/-- **No solvability hypothesis (Schoenberg–Whitney), user parameters.**  Valid clamped non-periodic
basis of order `p ≥ 2` with interior knot multiplicities `≤ p−1`; `n` exact, strictly increasing
parameters nested with the supports, `τ_l < t_l < τ_{l+p}` (`GenNested`), where each END may
alternatively be pinned: `t₀ = start` (`p0`), `t_{n−1} = end` (`p1`) — so parameters shifted inward
from the ends are covered as well as the Greville-like ones; an `n × m` data matrix.  Then `curve_factory.interpolate` SUCCEEDS and the
resulting spline of the specification passes through every point. -/
theorem C14_interpolate_curve_nested {b : Basis K} (hv : b.Valid) (hper : b.periodic = -1)
    (hp : 2 ≤ b.order) (hc0 : b.kn 0 = b.kn (b.order - 1))
    (hc1 : b.kn b.numFunctions = b.kn (b.numFunctions + (b.order - 1)))
    (hmult : ∀ i, 1 ≤ i → i < b.numFunctions → b.kn i < b.kn (i + (b.order - 1)))
    {tol : K} (htol : 0 < tol) (ts : List K) (hlen : ts.length = b.numFunctions) (p0 p1 : Bool)
    (hx : GenNested b.kn (b.order - 1) b.numFunctions (fun l => ts.getD l 0) p0 p1)
    (hex : ∀ l, l < b.numFunctions → b.ExactAt tol (ts.getD l 0))
    (x : Mat K) (m : ℕ) (hxs : x.size = b.numFunctions ∧ ∀ i, i < b.numFunctions → (x.getD i #[]).size = m) :
    ∃ c, interpolateCurve b tol (some ts) x = .ok c ∧
      c.size = b.numFunctions ∧ (∀ l, l < b.numFunctions → (c.getD l #[]).size = m) ∧
      ∀ i < b.numFunctions, ∀ j < m,
        splineVal (effSide b (ts.getD i 0) true) b.kn (b.order - 1) b.numFunctions
          (fun l => c.get l j) (ts.getD i 0) = x.get i j := by
  obtain ⟨c, hc⟩ := interpolateCurve_ok_of_gen_nested hv hper hp hc0 hc1 hmult htol ts hlen p0 p1 hx hex x m hxs
  obtain ⟨ts', e1, _, _, e4, dsz, dcols, drows⟩ := C14_interpolate_curve_splineVal hv hper htol (some ts) x c hc
  have : ts' = ts := by unfold paramsOrGreville at e1; cases e1; rfl
  subst this
  have hnpos : 0 < b.numFunctions := by
    have := hv.order_le_nAll
    have := Basis.numFunctions_of_nonperiodic hper
    omega
  have hxc : x.ncols = m := hxs.2 0 hnpos
  refine ⟨c, hc, dsz, fun l hl => drows m (fun i hi => hxs.2 i (by omega)) l (by omega), fun i hi j hj => ?_⟩
  obtain ⟨d1, d2, _⟩ := gen_nested_in_domain hv hper hc0 hc1 _ p0 p1 hx i hi
  exact e4 i (by omega) (hex i hi) d1 d2 j (by rw [dcols, hxc]; exact hj)

/-- **No solvability hypothesis, default Greville parameters.**  For a valid clamped non-periodic
basis of order ≥ 2 with continuous splines (interior multiplicities ≤ p−1) whose Greville points are
exact w.r.t. the knot tolerance, `curve_factory.interpolate(x, basis)` SUCCEEDS and the resulting
spline passes through `x_i` at the `i`-th Greville abscissa. -/
theorem C14_interpolate_curve_greville {b : Basis K} (hv : b.Valid) (hper : b.periodic = -1)
    (hp : 2 ≤ b.order) (hc0 : b.kn 0 = b.kn (b.order - 1))
    (hc1 : b.kn b.numFunctions = b.kn (b.numFunctions + (b.order - 1)))
    (hmult : ∀ i, 1 ≤ i → i < b.numFunctions → b.kn i < b.kn (i + (b.order - 1)))
    {tol : K} (htol : 0 < tol)
    (hex : ∀ l, l < b.numFunctions → b.ExactAt tol (grevilleAbscissa b.kn (b.order - 1) l))
    (x : Mat K) (m : ℕ) (hxs : x.size = b.numFunctions ∧ ∀ i, i < b.numFunctions → (x.getD i #[]).size = m) :
    ∃ c, interpolateCurve b tol none x = .ok c ∧
      c.size = b.numFunctions ∧ (∀ l, l < b.numFunctions → (c.getD l #[]).size = m) ∧
      ∀ i < b.numFunctions, ∀ j < m,
        splineVal (effSide b (grevilleAbscissa b.kn (b.order - 1) i) true) b.kn (b.order - 1) b.numFunctions
          (fun l => c.get l j) (grevilleAbscissa b.kn (b.order - 1) i) = x.get i j := by
  have hg := sw_greville_eq b hp
  set pts := Array.ofFn (n := b.numFunctions) (fun i => grevilleAbscissa b.kn (b.order - 1) i.val) with hpts
  have hτ : Monotone b.kn := hv.kn_mono
  have hn : b.order - 1 + 1 ≤ b.numFunctions := by
    have := hv.order_le_nAll
    have := Basis.numFunctions_of_nonperiodic hper
    omega
  have hlen : pts.toList.length = b.numFunctions := by rw [hpts]; simp
  have hget : ∀ l, l < b.numFunctions → pts.toList.getD l 0 = grevilleAbscissa b.kn (b.order - 1) l := by
    intro l hl
    rw [hpts]
    simp [List.getD_eq_getElem?_getD, hl]
  have hG := greville_nestedPts b.kn hτ (b.order - 1) b.numFunctions (by omega) hn hc0 hc1 hmult
  have hx : NestedPts b.kn (b.order - 1) b.numFunctions (fun l => pts.toList.getD l 0) :=
    NestedPts.congr_c14 (by omega) hG hget
  obtain ⟨c, hc, hs1, hs2, hval⟩ := C14_interpolate_curve_nested hv hper hp hc0 hc1 hmult htol pts.toList hlen
    true true (Interp.NestedPts.toGen hx) (fun l hl => by rw [hget l hl]; exact hex l hl) x m hxs
  refine ⟨c, by rw [interpolateCurve_none b tol x pts hg]; exact hc, hs1, hs2, fun i hi j hj => ?_⟩
  have := hval i hi j hj
  rw [hget i hi] at this
  exact this

/-- **`least_square_fit` needs no solvability hypothesis.**  Valid clamped non-periodic basis of order
`p ≥ 2` with continuous splines; `m ≥ n` sample points `ts` that CONTAIN (at positions
`idx 0, …, idx (n−1)`) exact nested collocation points in the sense of Schoenberg–Whitney
(`GenNested`: increasing, `τ_l < t_{idx l} < τ_{l+p}`, each end alternatively pinned to the domain
start/end); any
`m × dim` data.  Then the collocation matrix has full column rank, `NᵀN` is invertible
(`xᵀNᵀNx = Σ (Nx)ᵢ²` over an ordered field), and the model's Gauss–Jordan solve of the normal
equations SUCCEEDS. -/
theorem C14_lsq_exists {b : Basis K} (hv : b.Valid) (hper : b.periodic = -1)
    (hp : 2 ≤ b.order) (hc0 : b.kn 0 = b.kn (b.order - 1))
    (hc1 : b.kn b.numFunctions = b.kn (b.numFunctions + (b.order - 1)))
    (hmult : ∀ i, 1 ≤ i → i < b.numFunctions → b.kn i < b.kn (i + (b.order - 1)))
    {tol : K} (htol : 0 < tol) (ts : List K) (idx : ℕ → ℕ) (p0 p1 : Bool)
    (hidx : ∀ l, l < b.numFunctions → idx l < ts.length)
    (hx : GenNested b.kn (b.order - 1) b.numFunctions (fun l => ts.getD (idx l) 0) p0 p1)
    (hex : ∀ l, l < b.numFunctions → b.ExactAt tol (ts.getD (idx l) 0))
    (x : Mat K) (m : ℕ) (hxs : x.size = ts.length ∧ ∀ i, i < ts.length → (x.getD i #[]).size = m) :
    ∃ c, leastSquareCurve b tol ts x = .ok c :=
  leastSquareCurve_ok hv hper hp hc0 hc1 hmult htol ts idx p0 p1 hidx hx hex x m hxs

/-- **Least squares reproduces splines of the space — no solvability hypothesis.**  Under the
hypotheses of `C14_lsq_exists`, if the data are sampled from a spline of the target space,
`x_i = Σ_l N_l(ts_i) · c0_l`, then `least_square_fit` succeeds and returns exactly `c0`. -/
theorem C14_lsq_reproduces {b : Basis K} (hv : b.Valid) (hper : b.periodic = -1)
    (hp : 2 ≤ b.order) (hc0 : b.kn 0 = b.kn (b.order - 1))
    (hc1 : b.kn b.numFunctions = b.kn (b.numFunctions + (b.order - 1)))
    (hmult : ∀ i, 1 ≤ i → i < b.numFunctions → b.kn i < b.kn (i + (b.order - 1)))
    {tol : K} (htol : 0 < tol) (ts : List K) (idx : ℕ → ℕ) (p0 p1 : Bool)
    (hidx : ∀ l, l < b.numFunctions → idx l < ts.length)
    (hx : GenNested b.kn (b.order - 1) b.numFunctions (fun l => ts.getD (idx l) 0) p0 p1)
    (hex : ∀ l, l < b.numFunctions → b.ExactAt tol (ts.getD (idx l) 0))
    (x : Mat K) (m : ℕ) (hxs : x.size = ts.length ∧ ∀ i, i < ts.length → (x.getD i #[]).size = m)
    (c0 : ℕ → ℕ → K)
    (hdata : ∀ i < ts.length, ∀ j, x.get i j =
      ∑ l ∈ range b.numFunctions, (b.evaluate tol (ts.getD i 0) 0 true).getD l 0 * c0 l j) :
    ∃ c, leastSquareCurve b tol ts x = .ok c ∧ c.size = b.numFunctions ∧ c.ncols = m ∧
      ∀ l < b.numFunctions, ∀ j < m, c.get l j = c0 l j := by
  obtain ⟨c, hc⟩ := leastSquareCurve_ok hv hper hp hc0 hc1 hmult htol ts idx p0 p1 hidx hx hex x m hxs
  obtain ⟨_, _, Gi, hGi⟩ := normal_invC_ok hv hper hp hc0 hc1 hmult htol ts idx p0 p1 hidx hx hex
  have hn : 0 < b.numFunctions := by
    have := hv.order_le_nAll
    have := Basis.numFunctions_of_nonperiodic hper
    omega
  have hne : ts ≠ [] := by
    intro h0
    have := hidx 0 hn
    rw [h0] at this
    simp at this
  obtain ⟨p1, p2⟩ := C14_projection_least_squares b tol ts x c Gi c0 hne hGi hdata hc
  obtain ⟨q1, q2⟩ := p2 hn
  have hxm : x.ncols = m := hxs.2 0 (by
    rcases Nat.eq_zero_or_pos ts.length with h0 | h0
    · exact absurd (List.eq_nil_of_length_eq_zero h0) hne
    · exact h0)
  exact ⟨c, hc, q1, by rw [q2, hxm], fun l hl j hj => p1 l hl j (by rw [q2, hxm]; exact hj)⟩

/-- **`surface_factory.least_square_fit` needs no solvability hypothesis and reproduces the space.**
Both bases valid, clamped, non-periodic of order ≥ 2 with continuous splines; the sample lists `tu`, `tv`
CONTAIN (at positions `iu l`, `iv l`) exact nested points (Schoenberg–Whitney, `GenNested`).  Then for any
data of shape `|tu| × |tv| × d` (after the model's `gridInputLsq`) the two normal-equation loops
SUCCEED; if moreover the data are sampled from a tensor-product spline of the target space the result
has shape `n_u × n_v × d` and equals its coefficients `c0`. -/
theorem C14_lsq_surface_exists {bu bv : Basis K}
    (hvu : bu.Valid) (hperu : bu.periodic = -1) (hpu : 2 ≤ bu.order)
    (hc0u : bu.kn 0 = bu.kn (bu.order - 1))
    (hc1u : bu.kn bu.numFunctions = bu.kn (bu.numFunctions + (bu.order - 1)))
    (hmultu : ∀ i, 1 ≤ i → i < bu.numFunctions → bu.kn i < bu.kn (i + (bu.order - 1)))
    (hvv : bv.Valid) (hperv : bv.periodic = -1) (hpv : 2 ≤ bv.order)
    (hc0v : bv.kn 0 = bv.kn (bv.order - 1))
    (hc1v : bv.kn bv.numFunctions = bv.kn (bv.numFunctions + (bv.order - 1)))
    (hmultv : ∀ i, 1 ≤ i → i < bv.numFunctions → bv.kn i < bv.kn (i + (bv.order - 1)))
    {tol : K} (htol : 0 < tol) (tu tv : List K) (iu iv : ℕ → ℕ) (p0u p1u p0v p1v : Bool)
    (hiu : ∀ l, l < bu.numFunctions → iu l < tu.length)
    (hxu : GenNested bu.kn (bu.order - 1) bu.numFunctions (fun l => tu.getD (iu l) 0) p0u p1u)
    (hexu : ∀ l, l < bu.numFunctions → bu.ExactAt tol (tu.getD (iu l) 0))
    (hiv : ∀ l, l < bv.numFunctions → iv l < tv.length)
    (hxv : GenNested bv.kn (bv.order - 1) bv.numFunctions (fun l => tv.getD (iv l) 0) p0v p1v)
    (hexv : ∀ l, l < bv.numFunctions → bv.ExactAt tol (tv.getD (iv l) 0))
    (x x' : Tensor K) (d : ℕ)
    (hx' : gridInputLsq [tu, tv] x = .ok x') (hsh : x'.shape = [tu.length, tv.length, d]) :
    ∃ cp, leastSquareGridCore [bu, bv] tol [tu, tv] x = .ok cp ∧
      ∀ c0 : ℕ → ℕ → ℕ → K,
        (∀ i < tu.length, ∀ j < tv.length, ∀ k < d,
          x'.entry3 tv.length d i j k
            = ∑ a ∈ range bu.numFunctions, (bu.evaluate tol (tu.getD i 0) 0 true).getD a 0 *
                ∑ b ∈ range bv.numFunctions, (bv.evaluate tol (tv.getD j 0) 0 true).getD b 0 * c0 a b k) →
        cp.shape = [bu.numFunctions, bv.numFunctions, d] ∧
        ∀ a < bu.numFunctions, ∀ b < bv.numFunctions, ∀ k < d,
          cp.entry3 bv.numFunctions d a b k = c0 a b k := by
  obtain ⟨cp, Giu, Giv, hcp, hGu, hGv⟩ := leastSquareSurface_ok hvu hperu hpu hc0u hc1u hmultu
    hvv hperv hpv hc0v hc1v hmultv htol tu tv iu iv p0u p1u p0v p1v hiu hxu hexu hiv hxv hexv x x' d hx' hsh
  have hnu : 0 < bu.numFunctions := by
    have := hvu.order_le_nAll
    have := Basis.numFunctions_of_nonperiodic hperu
    omega
  have hnv : 0 < bv.numFunctions := by
    have := hvv.order_le_nAll
    have := Basis.numFunctions_of_nonperiodic hperv
    omega
  have htu : tu ≠ [] := by
    intro h0; have := hiu 0 hnu; rw [h0] at this; simp at this
  have htv : tv ≠ [] := by
    intro h0; have := hiv 0 hnv; rw [h0] at this; simp at this
  exact ⟨cp, hcp, fun c0 hdata =>
    C14_projection_least_squares_surface bu bv tol tu tv x x' cp d c0 Giu Giv htu htv hx' hsh hGu hGv hdata hcp⟩

/-- **Lofting SUCCEEDS and passes through every section — no solvability hypothesis** (partial only in
the family covered: `n ≥ 3` CURVE sections already on one common basis (after `make_splines_identical`,
property C12) that is non-periodic, clamped, of order ≥ 2 with continuous splines and distinct knots
`≥ 2(p−1)·tol` apart; missing: `n = 2` (`edge_curves` path) and PERIODIC section bases, for which
`C14_loft_curves_if_ok_partial` still needs the success of the solves as a hypothesis).
If consecutive section centres are at least `tol` apart (`cdists_i ≥ tol`; `4·tol ≤ 1`), then
`surface_factory.loft` (model `loftFull`, which cumulates the centre distances itself) returns a lofting
basis `bL` (for `n ≥ 4`: the cubic FREE interpolation basis on the cumulated distances `v`; for `n = 3`
the quadratic Bézier basis with `v` its Greville points) and a control net of shape `m × n × ncomp` with
`Σ_j N^L_j(v_i) · cp[a][j] = sec_i[a]` for every section `i`.  Solvability: Schoenberg–Whitney in both
directions. -/
theorem C14_loft_curves_partial {b1 : Basis K} (hv1 : b1.Valid) (hper1 : b1.periodic = -1) (hp1 : 2 ≤ b1.order)
    (hc01 : b1.kn 0 = b1.kn (b1.order - 1))
    (hc11 : b1.kn b1.numFunctions = b1.kn (b1.numFunctions + (b1.order - 1)))
    (hmult1 : ∀ i, 1 ≤ i → i < b1.numFunctions → b1.kn i < b1.kn (i + (b1.order - 1)))
    {tol : K} (htol : 0 < tol) (h4 : 4 * tol ≤ 1)
    (hgap1 : ∀ i j, b1.kn i < b1.kn j → b1.kn i + 2 * ((b1.order - 1 : ℕ) : K) * tol ≤ b1.kn j)
    (secs : List (Tensor K)) (cdists : List K) (m nc : ℕ) (hm1 : m = b1.numFunctions)
    (hn3 : 3 ≤ secs.length) (hlen : cdists.length + 1 = secs.length) (hc : ∀ c ∈ cdists, tol ≤ c)
    (hsecs : ∀ s ∈ secs, s.shape = [m, nc]) :
    ∃ bL v cp, loftFull [b1] tol secs cdists = .ok (bL, cp) ∧
      loftBasis tol secs.length (cumsum 0 cdists) = .ok (bL, v) ∧ v.length = secs.length ∧
      (4 ≤ secs.length → v = cumsum 0 cdists) ∧
      cp.shape = [m, secs.length, nc] ∧
      ∀ i < secs.length, ∀ a < m, ∀ c < nc,
        ∑ j ∈ range secs.length, (bL.evaluate tol (v.getD i 0) 0 true).getD j 0 * cp.entry3 secs.length nc a j c
          = (secs.getD i default).entry2 nc a c := by
  have hm : 0 < m := by
    have := hv1.order_le_nAll
    have := Basis.numFunctions_of_nonperiodic hper1
    omega
  have hdl : (cumsum 0 cdists).length = secs.length := by rw [cumsum_length, hlen]
  have hbasis : ∃ bL v iL, loftBasis tol secs.length (cumsum 0 cdists) = .ok (bL, v) ∧ v.length = secs.length ∧
      (4 ≤ secs.length → v = cumsum 0 cdists) ∧ invC (colloc bL tol v 0) = .ok iL := by
    by_cases h3 : secs.length = 3
    · obtain ⟨v, iL, h1, h2, h3'⟩ := loftBasis_three_ok tol htol h4 (cumsum 0 cdists)
      exact ⟨loftB3, v, iL, by rw [h3]; exact h1, by rw [h2, h3], fun h => by omega, h3'⟩
    · obtain ⟨bL, iL, h1, h2⟩ := loftBasis_free_ok tol htol (cumsum 0 cdists) (by rw [hdl]; omega)
        (cumsum_gap tol htol.le cdists hc)
      rw [hdl] at h1
      exact ⟨bL, _, iL, h1, hdl, fun _ => rfl, h2⟩
  obtain ⟨bL, v, iL, hlb, hvl, hv4, hiL⟩ := hbasis
  obtain ⟨cp, hcp⟩ := loft_curves_ok hv1 hper1 hp1 hc01 hc11 hmult1 htol hgap1 bL v iL secs (cumsum 0 cdists) m nc
    hm1 (by omega) hsecs hlb hvl hiL
  obtain ⟨r1, r2⟩ := C14_loft_curves_if_ok_partial b1 bL tol secs (cumsum 0 cdists) v m nc cp hm hm1 hn3 hsecs hlb hvl hcp
  exact ⟨bL, v, cp, hcp, hlb, hvl, hv4, r1, r2⟩

/-- **Volume lofting SUCCEEDS and passes through every SURFACE section — no solvability hypothesis**
(partial in the same sense as `C14_loft_curves_partial`: `n ≥ 3` sections on common non-periodic clamped
continuous bases `b1`, `b2`; `n = 2` and periodic section bases are missing). -/
theorem C14_loft_surfaces_partial {b1 b2 : Basis K}
    (hv1 : b1.Valid) (hper1 : b1.periodic = -1) (hp1 : 2 ≤ b1.order)
    (hc01 : b1.kn 0 = b1.kn (b1.order - 1))
    (hc11 : b1.kn b1.numFunctions = b1.kn (b1.numFunctions + (b1.order - 1)))
    (hmult1 : ∀ i, 1 ≤ i → i < b1.numFunctions → b1.kn i < b1.kn (i + (b1.order - 1)))
    (hv2 : b2.Valid) (hper2 : b2.periodic = -1) (hp2 : 2 ≤ b2.order)
    (hc02 : b2.kn 0 = b2.kn (b2.order - 1))
    (hc12 : b2.kn b2.numFunctions = b2.kn (b2.numFunctions + (b2.order - 1)))
    (hmult2 : ∀ i, 1 ≤ i → i < b2.numFunctions → b2.kn i < b2.kn (i + (b2.order - 1)))
    {tol : K} (htol : 0 < tol) (h4 : 4 * tol ≤ 1)
    (hgap1 : ∀ i j, b1.kn i < b1.kn j → b1.kn i + 2 * ((b1.order - 1 : ℕ) : K) * tol ≤ b1.kn j)
    (hgap2 : ∀ i j, b2.kn i < b2.kn j → b2.kn i + 2 * ((b2.order - 1 : ℕ) : K) * tol ≤ b2.kn j)
    (secs : List (Tensor K)) (cdists : List K) (m1 m2 nc : ℕ)
    (hm1 : m1 = b1.numFunctions) (hm2 : m2 = b2.numFunctions)
    (hn3 : 3 ≤ secs.length) (hlen : cdists.length + 1 = secs.length) (hc : ∀ c ∈ cdists, tol ≤ c)
    (hsecs : ∀ s ∈ secs, s.shape = [m1, m2, nc]) :
    ∃ bL v cp, loftFull [b1, b2] tol secs cdists = .ok (bL, cp) ∧
      loftBasis tol secs.length (cumsum 0 cdists) = .ok (bL, v) ∧ v.length = secs.length ∧
      (4 ≤ secs.length → v = cumsum 0 cdists) ∧
      cp.shape = [m1, m2, secs.length, nc] ∧
      ∀ i < secs.length, ∀ a < m1, ∀ b < m2, ∀ c < nc,
        ∑ j ∈ range secs.length, (bL.evaluate tol (v.getD i 0) 0 true).getD j 0 * cp.entry4 m2 secs.length nc a b j c
          = (secs.getD i default).entry3 m2 nc a b c := by
  have hpos : ∀ {b : Basis K}, b.Valid → b.periodic = -1 → 0 < b.numFunctions := by
    intro b hv hper
    have := hv.order_le_nAll
    have := Basis.numFunctions_of_nonperiodic hper
    have := hv.order_pos
    omega
  have hm1' : 0 < m1 := by rw [hm1]; exact hpos hv1 hper1
  have hm2' : 0 < m2 := by rw [hm2]; exact hpos hv2 hper2
  have hdl : (cumsum 0 cdists).length = secs.length := by rw [cumsum_length, hlen]
  have hbasis : ∃ bL v iL, loftBasis tol secs.length (cumsum 0 cdists) = .ok (bL, v) ∧ v.length = secs.length ∧
      (4 ≤ secs.length → v = cumsum 0 cdists) ∧ invC (colloc bL tol v 0) = .ok iL := by
    by_cases h3 : secs.length = 3
    · obtain ⟨v, iL, h1, h2, h3'⟩ := loftBasis_three_ok tol htol h4 (cumsum 0 cdists)
      exact ⟨loftB3, v, iL, by rw [h3]; exact h1, by rw [h2, h3], fun h => by omega, h3'⟩
    · obtain ⟨bL, iL, h1, h2⟩ := loftBasis_free_ok tol htol (cumsum 0 cdists) (by rw [hdl]; omega)
        (cumsum_gap tol htol.le cdists hc)
      rw [hdl] at h1
      exact ⟨bL, _, iL, h1, hdl, fun _ => rfl, h2⟩
  obtain ⟨bL, v, iL, hlb, hvl, hv4, hiL⟩ := hbasis
  obtain ⟨cp, hcp⟩ := loft_surfaces_ok hv1 hper1 hp1 hc01 hc11 hmult1 hv2 hper2 hp2 hc02 hc12 hmult2 htol hgap1 hgap2
    bL v iL secs (cumsum 0 cdists) m1 m2 nc hm1 hm2 (by omega) hsecs hlb hvl hiL
  obtain ⟨r1, r2⟩ := C14_loft_surfaces_if_ok_partial b1 b2 bL tol secs (cumsum 0 cdists) v m1 m2 nc cp hm1' hm2'
    hm1 hm2 hn3 hsecs hlb hvl hcp
  exact ⟨bL, v, cp, hcp, hlb, hvl, hv4, r1, r2⟩

/-- Default Greville parameters without the exactness assumption: if distinct knots are at least
`2(p−1)·tol` apart (so that `snap` cannot destroy the nesting), interpolation SUCCEEDS. -/
theorem C14_interpolate_curve_greville_succeeds {b : Basis K} (hv : b.Valid) (hper : b.periodic = -1)
    (hp : 2 ≤ b.order) (hc0 : b.kn 0 = b.kn (b.order - 1))
    (hc1 : b.kn b.numFunctions = b.kn (b.numFunctions + (b.order - 1)))
    (hmult : ∀ i, 1 ≤ i → i < b.numFunctions → b.kn i < b.kn (i + (b.order - 1)))
    {tol : K} (htol : 0 < tol)
    (hgap : ∀ i j, b.kn i < b.kn j → b.kn i + 2 * ((b.order - 1 : ℕ) : K) * tol ≤ b.kn j)
    (x : Mat K) (m : ℕ) (hxs : x.size = b.numFunctions ∧ ∀ i, i < b.numFunctions → (x.getD i #[]).size = m) :
    ∃ c, interpolateCurve b tol none x = .ok c :=
  interpolateCurve_ok_greville hv hper hp hc0 hc1 hmult htol hgap x m hxs

/-- **`cubic_curve(x, TANGENT, t, tangents)` needs no solvability hypothesis**: for EVERY parameter
sequence `t₀ < … < t_{n−1}` (`n ≥ 2`, gaps ≥ tol), any `n × m` data and any two prescribed end tangents
(`2 × m`) the model SUCCEEDS (energy argument: the boundary term `s'·s''` vanishes because `s'` is
prescribed at both ends); the spline of the specification interpolates every point and its FIRST
DERIVATIVE at the start (from the right) and at the end (from the left) equals the prescribed tangents. -/
theorem C14_cubic_TANGENT_exists [IsStrictOrderedRing K] (a d : K) (mid : List K) (tol rt atl : K)
    (htol : 0 < tol)
    (hgap : (a :: (mid ++ [d])).Pairwise (fun u w => u + tol ≤ w))
    (x : Mat K) (m : ℕ) (hxs : x.size = mid.length + 2 ∧ ∀ i, i < mid.length + 2 → (x.getD i #[]).size = m)
    (g : Mat K) (hg : g.size = 2 ∧ ∀ i, i < 2 → (g.getD i #[]).size = m) :
    ∃ cp, cubicCurve bTANGENT tol rt atl x (a :: (mid ++ [d])) (some g) = .ok (natBasis a d mid, cp) ∧
      cp.size = mid.length + 4 ∧ (∀ l, l < mid.length + 4 → (cp.getD l #[]).size = m) ∧
      (∀ i < mid.length + 2, ∀ j < m,
        splineVal (effSide (natBasis a d mid) ((a :: (mid ++ [d])).getD i 0) true)
          (natBasis a d mid).kn 3 (mid.length + 4) (fun l => cp.get l j)
          ((a :: (mid ++ [d])).getD i 0) = x.get i j) ∧
      (∀ j < m,
        splineDeriv .right (natBasis a d mid).kn 3 (mid.length + 4) (fun l => cp.get l j) 1 a = g.get 0 j ∧
        splineDeriv .left (natBasis a d mid).kn 3 (mid.length + 4) (fun l => cp.get l j) 1 d = g.get 1 j) := by
  have hlen : (a :: (mid ++ [d])).length = mid.length + 2 := by simp
  have hgap' : ∀ i j, i < j → j < mid.length + 2 →
      (a :: (mid ++ [d])).getD i 0 + tol ≤ (a :: (mid ++ [d])).getD j 0 := by
    intro i j hij hj
    have hi : i < (a :: (mid ++ [d])).length := by omega
    have hj' : j < (a :: (mid ++ [d])).length := by omega
    have := List.pairwise_iff_getElem.mp hgap i j hi hj' hij
    rw [List.getD_eq_getElem?_getD, List.getD_eq_getElem?_getD, List.getElem?_eq_getElem hi,
      List.getElem?_eq_getElem hj']
    exact this
  obtain ⟨cp, hcp, sh1, sh2⟩ := cubicCurve_TANGENT_ok a d mid tol rt atl htol hgap' x m hxs g hg
  have hne : bTANGENT ≠ bPERIODIC := by decide
  have hv := natBasis_valid a d mid tol hgap' htol
  have hnf := natBasis_numFunctions a d mid
  have hcols : cp.ncols = m := sh2 0 (by omega)
  have hex := nat_exact a d mid tol hgap' htol
  have hdom := nat_in_domain a d mid tol hgap' htol
  have hstart := nat_start a d mid tol hgap' htol
  have hstop := nat_stop a d mid tol hgap' htol
  have hlt : a < d := by have := hv.start_lt_stop; rw [hstart, hstop] at this; exact this
  have hexa : (natBasis a d mid).ExactAt tol a := by have := hex 0 (by omega); simpa using this
  have hexd : (natBasis a d mid).ExactAt tol d := by
    have := hex (mid.length + 1) (by omega)
    have e : (a :: (mid ++ [d])).getD (mid.length + 1) 0 = d := by
      simp [List.getD_eq_getElem?_getD, List.getElem?_append_right]
    rw [e] at this; exact this
  have hsa : effSide (natBasis a d mid) a true = .right := by
    unfold effSide; rw [hstop, if_neg (ne_of_lt hlt)]; rfl
  have hsd : effSide (natBasis a d mid) d true = .left := by
    unfold effSide; rw [hstop, if_pos rfl]
  have h1 : (a :: (mid ++ [d])).headD 0 = a := rfl
  have h2 : (a :: (mid ++ [d])).getLastD 0 = d := by simp [List.getLastD]
  have hinterp : ∀ i < mid.length + 2, ∀ j < m,
      splineVal (effSide (natBasis a d mid) ((a :: (mid ++ [d])).getD i 0) true)
        (natBasis a d mid).kn 3 (mid.length + 4) (fun l => cp.get l j)
        ((a :: (mid ++ [d])).getD i 0) = x.get i j := by
    intro i hi j hj
    obtain ⟨eN, eR, _, _, _, _, _, _, hint, _, _, _⟩ := C14_cubic_boundary _ _ _ _ _ _ _ _ _ hcp
    simp only [hne, if_false] at hint
    have hh := hint i (by rw [hlen]; exact hi) j (by rw [hcols]; exact hj)
    have hx : Mat.get (cubicClose bTANGENT rt atl x) i j = x.get i j := by unfold cubicClose; simp [hne]
    rw [hx] at hh
    rw [← hh]
    unfold splineVal
    rw [hnf]
    apply sum_congr rfl
    intro l hl
    rw [evaluate_inside_right hv rfl htol (hex i hi) (hdom i hi).1 (hdom i hi).2
      (by rw [hnf]; exact mem_range.mp hl), mul_comm]
    rfl
  have hbridgeA : ∀ (e : ℕ) (he : e < 4) (j : ℕ),
      ∑ l ∈ range (mid.length + 4), ((natBasis a d mid).evaluate tol a e true).getD l 0 * cp.get l j
        = splineDeriv .right (natBasis a d mid).kn 3 (mid.length + 4) (fun l => cp.get l j) e a := by
    intro e he j
    have := C14_row_is_splineDeriv hv rfl htol hexa (by rw [hstart]) (by rw [hstop]; exact hlt.le)
      (show e < (natBasis a d mid).order from he) (fun l => cp.get l j)
    rw [hnf, hsa] at this
    exact this
  have hbridgeD : ∀ (e : ℕ) (he : e < 4) (j : ℕ),
      ∑ l ∈ range (mid.length + 4), ((natBasis a d mid).evaluate tol d e true).getD l 0 * cp.get l j
        = splineDeriv .left (natBasis a d mid).kn 3 (mid.length + 4) (fun l => cp.get l j) e d := by
    intro e he j
    have := C14_row_is_splineDeriv hv rfl htol hexd (by rw [hstart]; exact hlt.le) (by rw [hstop])
      (show e < (natBasis a d mid).order from he) (fun l => cp.get l j)
    rw [hnf, hsd] at this
    exact this
  refine ⟨cp, hcp, sh1, sh2, hinterp, fun j hj => ?_⟩
  obtain ⟨g', hg', _, _, _, hrows⟩ := C14_cubic_TANGENT tol rt atl x (a :: (mid ++ [d])) (some g) _ cp hcp
  have : g' = g := by cases hg'; rfl
  subst this
  have := hrows j (by rw [hcols]; exact hj)
  rw [h1, h2, hnf] at this
  exact ⟨by rw [← hbridgeA 1 (by omega) j]; exact this.1, by rw [← hbridgeD 1 (by omega) j]; exact this.2⟩

/-- **`cubic_curve(x, HERMITE, t, tangents)` needs no solvability hypothesis**: for EVERY parameter
sequence `t₀ < … < t_{n−1}` (`n ≥ 2`, gaps ≥ tol), any `n × m` points and any `n × m` prescribed
derivatives the model SUCCEEDS with the basis `hermBasis` (knots `t₀⁴, t₁², …, t_{n−2}², t_{n−1}⁴`,
`2n` functions; the sorted knot list is computed by the model's `sortK`).  Uniqueness is local: on
every span the cubic piece has value and derivative zero at both ends (`C¹` at the double knots).  The
spline of the specification interpolates every point and its FIRST DERIVATIVE at every `t_i` (one-sided
from the right, at the last parameter from the left; the spline is `C¹` so the side is immaterial)
equals the prescribed `g_i`. -/
theorem C14_cubic_HERMITE_exists [IsStrictOrderedRing K] (a d : K) (mid : List K) (tol rt atl : K)
    (htol : 0 < tol)
    (hgap : (a :: (mid ++ [d])).Pairwise (fun u w => u + tol ≤ w))
    (x : Mat K) (m : ℕ) (hxs : x.size = mid.length + 2 ∧ ∀ i, i < mid.length + 2 → (x.getD i #[]).size = m)
    (g : Mat K) (hg : g.size = mid.length + 2 ∧ ∀ i, i < mid.length + 2 → (g.getD i #[]).size = m) :
    ∃ cp, cubicCurve bHERMITE tol rt atl x (a :: (mid ++ [d])) (some g) = .ok (hermBasis a d mid, cp) ∧
      cp.size = 2 * mid.length + 4 ∧ (∀ l, l < 2 * mid.length + 4 → (cp.getD l #[]).size = m) ∧
      ∀ i < mid.length + 2, ∀ j < m,
        splineVal (effSide (hermBasis a d mid) ((a :: (mid ++ [d])).getD i 0) true)
          (hermBasis a d mid).kn 3 (2 * mid.length + 4) (fun l => cp.get l j)
          ((a :: (mid ++ [d])).getD i 0) = x.get i j ∧
        splineDeriv (effSide (hermBasis a d mid) ((a :: (mid ++ [d])).getD i 0) true)
          (hermBasis a d mid).kn 3 (2 * mid.length + 4) (fun l => cp.get l j) 1
          ((a :: (mid ++ [d])).getD i 0) = g.get i j := by
  have hlen : (a :: (mid ++ [d])).length = mid.length + 2 := by simp
  have hgap' : ∀ i j, i < j → j < mid.length + 2 →
      (a :: (mid ++ [d])).getD i 0 + tol ≤ (a :: (mid ++ [d])).getD j 0 := by
    intro i j hij hj
    have hi : i < (a :: (mid ++ [d])).length := by omega
    have hj' : j < (a :: (mid ++ [d])).length := by omega
    have := List.pairwise_iff_getElem.mp hgap i j hi hj' hij
    rw [List.getD_eq_getElem?_getD, List.getD_eq_getElem?_getD, List.getElem?_eq_getElem hi,
      List.getElem?_eq_getElem hj']
    exact this
  obtain ⟨cp, hcp, sh1, sh2⟩ := cubicCurve_HERMITE_ok a d mid tol rt atl htol hgap' x m hxs g hg
  have hne : bHERMITE ≠ bPERIODIC := by decide
  have hv := hermBasis_valid a d mid tol hgap' htol
  have hnf := hermBasis_numFunctions a d mid
  have hcols : cp.ncols = m := sh2 0 (by omega)
  have hex := herm_exact a d mid tol hgap' htol
  have hdom := herm_in_domain a d mid tol hgap' htol
  refine ⟨cp, hcp, sh1, sh2, fun i hi j hj => ⟨?_, ?_⟩⟩
  · obtain ⟨eN, eR, _, _, _, _, _, _, hint, _, _, _⟩ := C14_cubic_boundary _ _ _ _ _ _ _ _ _ hcp
    simp only [hne, if_false] at hint
    have hh := hint i (by rw [hlen]; exact hi) j (by rw [hcols]; exact hj)
    have hx : Mat.get (cubicClose bHERMITE rt atl x) i j = x.get i j := by unfold cubicClose; simp [hne]
    rw [hx] at hh
    rw [← hh]
    unfold splineVal
    rw [hnf]
    apply sum_congr rfl
    intro l hl
    rw [evaluate_inside_right hv rfl htol (hex i hi) (hdom i hi).1 (hdom i hi).2
      (by rw [hnf]; exact mem_range.mp hl), mul_comm]
    rfl
  · obtain ⟨g', hg', _, _, _, hrows⟩ := C14_cubic_HERMITE tol rt atl x (a :: (mid ++ [d])) (some g) _ cp hcp
    have : g' = g := by cases hg'; rfl
    subst this
    have := hrows i (by rw [hlen]; exact hi) j (by rw [hcols]; exact hj)
    rw [← this]
    have hb := C14_row_is_splineDeriv hv rfl htol (hex i hi) (hdom i hi).1 (hdom i hi).2
      (show 1 < (hermBasis a d mid).order by show 1 < 4; omega) (fun l => cp.get l j)
    rw [hnf] at hb ⊢
    exact hb.symm

/-- **`cubic_curve(x, TANGENTNATURAL, t, tangent)` needs no solvability hypothesis**: as above with the
first derivative prescribed at the start and the second derivative vanishing at the end. -/
theorem C14_cubic_TANGENTNATURAL_exists [IsStrictOrderedRing K] (a d : K) (mid : List K) (tol rt atl : K)
    (htol : 0 < tol)
    (hgap : (a :: (mid ++ [d])).Pairwise (fun u w => u + tol ≤ w))
    (x : Mat K) (m : ℕ) (hxs : x.size = mid.length + 2 ∧ ∀ i, i < mid.length + 2 → (x.getD i #[]).size = m)
    (g : Mat K) (hg : g.size = 1 ∧ ∀ i, i < 1 → (g.getD i #[]).size = m) :
    ∃ cp, cubicCurve bTANGENTNATURAL tol rt atl x (a :: (mid ++ [d])) (some g) = .ok (natBasis a d mid, cp) ∧
      cp.size = mid.length + 4 ∧ (∀ l, l < mid.length + 4 → (cp.getD l #[]).size = m) ∧
      (∀ i < mid.length + 2, ∀ j < m,
        splineVal (effSide (natBasis a d mid) ((a :: (mid ++ [d])).getD i 0) true)
          (natBasis a d mid).kn 3 (mid.length + 4) (fun l => cp.get l j)
          ((a :: (mid ++ [d])).getD i 0) = x.get i j) ∧
      (∀ j < m,
        splineDeriv .right (natBasis a d mid).kn 3 (mid.length + 4) (fun l => cp.get l j) 1 a = g.get 0 j ∧
        splineDeriv .left (natBasis a d mid).kn 3 (mid.length + 4) (fun l => cp.get l j) 2 d = 0) := by
  have hlen : (a :: (mid ++ [d])).length = mid.length + 2 := by simp
  have hgap' : ∀ i j, i < j → j < mid.length + 2 →
      (a :: (mid ++ [d])).getD i 0 + tol ≤ (a :: (mid ++ [d])).getD j 0 := by
    intro i j hij hj
    have hi : i < (a :: (mid ++ [d])).length := by omega
    have hj' : j < (a :: (mid ++ [d])).length := by omega
    have := List.pairwise_iff_getElem.mp hgap i j hi hj' hij
    rw [List.getD_eq_getElem?_getD, List.getD_eq_getElem?_getD, List.getElem?_eq_getElem hi,
      List.getElem?_eq_getElem hj']
    exact this
  obtain ⟨cp, hcp, sh1, sh2⟩ := cubicCurve_TANGENTNATURAL_ok a d mid tol rt atl htol hgap' x m hxs g hg
  have hne : bTANGENTNATURAL ≠ bPERIODIC := by decide
  have hv := natBasis_valid a d mid tol hgap' htol
  have hnf := natBasis_numFunctions a d mid
  have hcols : cp.ncols = m := sh2 0 (by omega)
  have hex := nat_exact a d mid tol hgap' htol
  have hdom := nat_in_domain a d mid tol hgap' htol
  have hstart := nat_start a d mid tol hgap' htol
  have hstop := nat_stop a d mid tol hgap' htol
  have hlt : a < d := by have := hv.start_lt_stop; rw [hstart, hstop] at this; exact this
  have hexa : (natBasis a d mid).ExactAt tol a := by have := hex 0 (by omega); simpa using this
  have hexd : (natBasis a d mid).ExactAt tol d := by
    have := hex (mid.length + 1) (by omega)
    have e : (a :: (mid ++ [d])).getD (mid.length + 1) 0 = d := by
      simp [List.getD_eq_getElem?_getD, List.getElem?_append_right]
    rw [e] at this; exact this
  have hsa : effSide (natBasis a d mid) a true = .right := by
    unfold effSide; rw [hstop, if_neg (ne_of_lt hlt)]; rfl
  have hsd : effSide (natBasis a d mid) d true = .left := by
    unfold effSide; rw [hstop, if_pos rfl]
  have h1 : (a :: (mid ++ [d])).headD 0 = a := rfl
  have h2 : (a :: (mid ++ [d])).getLastD 0 = d := by simp [List.getLastD]
  have hinterp : ∀ i < mid.length + 2, ∀ j < m,
      splineVal (effSide (natBasis a d mid) ((a :: (mid ++ [d])).getD i 0) true)
        (natBasis a d mid).kn 3 (mid.length + 4) (fun l => cp.get l j)
        ((a :: (mid ++ [d])).getD i 0) = x.get i j := by
    intro i hi j hj
    obtain ⟨eN, eR, _, _, _, _, _, _, hint, _, _, _⟩ := C14_cubic_boundary _ _ _ _ _ _ _ _ _ hcp
    simp only [hne, if_false] at hint
    have hh := hint i (by rw [hlen]; exact hi) j (by rw [hcols]; exact hj)
    have hx : Mat.get (cubicClose bTANGENTNATURAL rt atl x) i j = x.get i j := by unfold cubicClose; simp [hne]
    rw [hx] at hh
    rw [← hh]
    unfold splineVal
    rw [hnf]
    apply sum_congr rfl
    intro l hl
    rw [evaluate_inside_right hv rfl htol (hex i hi) (hdom i hi).1 (hdom i hi).2
      (by rw [hnf]; exact mem_range.mp hl), mul_comm]
    rfl
  have hbridgeA : ∀ (e : ℕ) (he : e < 4) (j : ℕ),
      ∑ l ∈ range (mid.length + 4), ((natBasis a d mid).evaluate tol a e true).getD l 0 * cp.get l j
        = splineDeriv .right (natBasis a d mid).kn 3 (mid.length + 4) (fun l => cp.get l j) e a := by
    intro e he j
    have := C14_row_is_splineDeriv hv rfl htol hexa (by rw [hstart]) (by rw [hstop]; exact hlt.le)
      (show e < (natBasis a d mid).order from he) (fun l => cp.get l j)
    rw [hnf, hsa] at this
    exact this
  have hbridgeD : ∀ (e : ℕ) (he : e < 4) (j : ℕ),
      ∑ l ∈ range (mid.length + 4), ((natBasis a d mid).evaluate tol d e true).getD l 0 * cp.get l j
        = splineDeriv .left (natBasis a d mid).kn 3 (mid.length + 4) (fun l => cp.get l j) e d := by
    intro e he j
    have := C14_row_is_splineDeriv hv rfl htol hexd (by rw [hstart]; exact hlt.le) (by rw [hstop])
      (show e < (natBasis a d mid).order from he) (fun l => cp.get l j)
    rw [hnf, hsd] at this
    exact this
  refine ⟨cp, hcp, sh1, sh2, hinterp, fun j hj => ?_⟩
  obtain ⟨g', hg', _, _, _, hrows⟩ := C14_cubic_TANGENTNATURAL tol rt atl x (a :: (mid ++ [d])) (some g) _ cp hcp
  have : g' = g := by cases hg'; rfl
  subst this
  have := hrows j (by rw [hcols]; exact hj)
  rw [h1, h2, hnf] at this
  exact ⟨by rw [← hbridgeA 1 (by omega) j]; exact this.1, by rw [← hbridgeD 2 (by omega) j]; exact this.2⟩

/-- **No solvability hypothesis for surfaces at the default Greville parameters.**  For two valid
clamped continuous non-periodic bases of order ≥ 2 (knot gaps ≥ `2(p−1)·tol`) and a grid of the right
size in either layout, `surface_factory.interpolate(x, bases)` SUCCEEDS, and the returned control
net is the one of the linear-algebra core — to which `C14_interpolate_surface(_spec)` applies. -/
theorem C14_interpolate_surface_greville_succeeds {bu bv : Basis K}
    (hvu : bu.Valid) (hperu : bu.periodic = -1) (hpu : 2 ≤ bu.order)
    (hc0u : bu.kn 0 = bu.kn (bu.order - 1))
    (hc1u : bu.kn bu.numFunctions = bu.kn (bu.numFunctions + (bu.order - 1)))
    (hmultu : ∀ i, 1 ≤ i → i < bu.numFunctions → bu.kn i < bu.kn (i + (bu.order - 1)))
    (hvv : bv.Valid) (hperv : bv.periodic = -1) (hpv : 2 ≤ bv.order)
    (hc0v : bv.kn 0 = bv.kn (bv.order - 1))
    (hc1v : bv.kn bv.numFunctions = bv.kn (bv.numFunctions + (bv.order - 1)))
    (hmultv : ∀ i, 1 ≤ i → i < bv.numFunctions → bv.kn i < bv.kn (i + (bv.order - 1)))
    {tol : K} (htol : 0 < tol)
    (hgapu : ∀ i j, bu.kn i < bu.kn j → bu.kn i + 2 * ((bu.order - 1 : ℕ) : K) * tol ≤ bu.kn j)
    (hgapv : ∀ i j, bv.kn i < bv.kn j → bv.kn i + 2 * ((bv.order - 1 : ℕ) : K) * tol ≤ bv.kn j)
    (x : Tensor K) (d : ℕ)
    (hx : x.shape = [bu.numFunctions * bv.numFunctions, d] ∨ x.shape = [bu.numFunctions, bv.numFunctions, d]) :
    ∃ cp, interpolateGrid [bu, bv] tol none x = .ok cp ∧ interpolateGridCore [bu, bv] tol none x = .ok cp :=
  interpolateGrid_ok_greville_surface hvu hperu hpu hc0u hc1u hmultu hvv hperv hpv hc0v hc1v hmultv htol
    hgapu hgapv x d hx

/-- **No solvability hypothesis for volumes at the default Greville parameters** (three valid clamped
continuous non-periodic bases, knot gaps ≥ `2(p−1)·tol`, either input layout): `volume_factory.interpolate`
SUCCEEDS and returns the control net of its linear-algebra core (`C14_interpolate_volume(_spec)`). -/
theorem C14_interpolate_volume_greville_succeeds {bu bv bw : Basis K}
    (hvu : bu.Valid) (hperu : bu.periodic = -1) (hpu : 2 ≤ bu.order)
    (hc0u : bu.kn 0 = bu.kn (bu.order - 1))
    (hc1u : bu.kn bu.numFunctions = bu.kn (bu.numFunctions + (bu.order - 1)))
    (hmultu : ∀ i, 1 ≤ i → i < bu.numFunctions → bu.kn i < bu.kn (i + (bu.order - 1)))
    (hvv : bv.Valid) (hperv : bv.periodic = -1) (hpv : 2 ≤ bv.order)
    (hc0v : bv.kn 0 = bv.kn (bv.order - 1))
    (hc1v : bv.kn bv.numFunctions = bv.kn (bv.numFunctions + (bv.order - 1)))
    (hmultv : ∀ i, 1 ≤ i → i < bv.numFunctions → bv.kn i < bv.kn (i + (bv.order - 1)))
    (hvw : bw.Valid) (hperw : bw.periodic = -1) (hpw : 2 ≤ bw.order)
    (hc0w : bw.kn 0 = bw.kn (bw.order - 1))
    (hc1w : bw.kn bw.numFunctions = bw.kn (bw.numFunctions + (bw.order - 1)))
    (hmultw : ∀ i, 1 ≤ i → i < bw.numFunctions → bw.kn i < bw.kn (i + (bw.order - 1)))
    {tol : K} (htol : 0 < tol)
    (hgapu : ∀ i j, bu.kn i < bu.kn j → bu.kn i + 2 * ((bu.order - 1 : ℕ) : K) * tol ≤ bu.kn j)
    (hgapv : ∀ i j, bv.kn i < bv.kn j → bv.kn i + 2 * ((bv.order - 1 : ℕ) : K) * tol ≤ bv.kn j)
    (hgapw : ∀ i j, bw.kn i < bw.kn j → bw.kn i + 2 * ((bw.order - 1 : ℕ) : K) * tol ≤ bw.kn j)
    (x : Tensor K) (d : ℕ)
    (hx : x.shape = [bu.numFunctions * bv.numFunctions * bw.numFunctions, d] ∨
          x.shape = [bu.numFunctions, bv.numFunctions, bw.numFunctions, d]) :
    ∃ cp, interpolateGrid [bu, bv, bw] tol none x = .ok cp ∧ interpolateGridCore [bu, bv, bw] tol none x = .ok cp :=
  interpolateGrid_ok_greville_volume hvu hperu hpu hc0u hc1u hmultu hvv hperv hpv hc0v hc1v hmultv
    hvw hperw hpw hc0w hc1w hmultw htol hgapu hgapv hgapw x d hx

/-- **Periodic interpolation, dominant diagonal** (partial: a sufficient condition, not all
non-singular periodic collocation problems).  For a valid periodic basis and `n` exact parameters
(wrapped images exact) the collocation matrix is row-stochastic (C01: non-negative, rows sum to one);
if each diagonal entry `N_i(t_i)` exceeds `1/2` it is strictly diagonally dominant, hence injective
(Levy–Desplanques), and `curve_factory.interpolate` SUCCEEDS.
Missing for the full periodic case: parameters whose matrix is non-singular without a dominant
diagonal (needs a periodic total-positivity / Schoenberg–Whitney argument). -/
theorem C14_interpolate_periodic_partial {b : Basis K} (hv : b.Valid) (hper : 0 ≤ b.periodic)
    {tol : K} (htol : 0 < tol) (ts : List K) (hlen : ts.length = b.numFunctions)
    (hex : ∀ i < b.numFunctions, b.ExactAt tol (ts.getD i 0))
    (hexw : ∀ i < b.numFunctions, b.ExactAt tol (b.wrap (ts.getD i 0)))
    (hdiag : ∀ i < b.numFunctions, 1 / 2 < (b.evaluate tol (ts.getD i 0) 0 true).getD i 0)
    (x : Mat K) (m : ℕ) (hxs : x.size = b.numFunctions ∧ ∀ i, i < b.numFunctions → (x.getD i #[]).size = m) :
    ∃ c, interpolateCurve b tol (some ts) x = .ok c :=
  interpolateCurve_ok_of_diag hv hper htol ts hlen hex hexw hdiag x m hxs

/-- **Periodic interpolation on uniform knots at the Greville points** (partial: cubic, `C²`, i.e.
`order = 4`, `periodic = 2`).  Knots `s0 + h·i`, knot spacing `h ≥ tol`, any number `n ≥ 1` of basis
functions, any `n × dim` data: the Greville points are knots (the first one wraps around the seam), the
collocation matrix is the circulant `(1/6, 2/3, 1/6)` (for `n ≤ 2` with coinciding wrapped images),
its diagonal is `≥ 2/3`, and `curve_factory.interpolate(x, basis)` SUCCEEDS — no solvability
hypothesis.  Missing: the uniform quadratic (`3/4` at the midpoints) and linear cases, lower
continuity, and non-uniform periodic knot vectors. -/
theorem C14_interpolate_periodic_uniform_cubic_partial {b : Basis K} (hv : b.Valid)
    (hord : b.order = 4) (hper : b.periodic = 2) (s0 h : K) (hh : 0 < h)
    (hkn : ∀ i, i < b.knots.size → b.kn i = s0 + h * (i : K))
    {tol : K} (htol : 0 < tol) (htolh : tol ≤ h)
    (x : Mat K) (m : ℕ) (hxs : x.size = b.numFunctions ∧ ∀ i, i < b.numFunctions → (x.getD i #[]).size = m) :
    ∃ c, interpolateCurve b tol none x = .ok c :=
  interpolateCurve_ok_uniform_periodic_cubic hv hord hper s0 h hh hkn htol htolh x m hxs

end Spec

/-! ## Non-vacuity: the hypotheses are satisfiable (small rational data, evaluated by the kernel) -/

section NonVacuity

private def isOk {α : Type} : PyM α → Bool
  | .ok _ => true
  | .error _ => false

private theorem exists_of_isOk {α : Type} {r : PyM α} (h : isOk r = true) : ∃ a, r = .ok a := by
  cases r with
  | ok a => exact ⟨a, rfl⟩
  | error e => exact absurd h (by simp [isOk])

private def tolQ : ℚ := 1 / 10000000000
/-- quadratic, one interior knot: 4 functions -/
private def bq : Basis ℚ := { order := 3, knots := #[0, 0, 0, 1, 2, 2, 2], periodic := -1 }
/-- linear: 2 functions -/
private def bl : Basis ℚ := { order := 2, knots := #[0, 0, 1, 1], periodic := -1 }
private def pts4 : Mat ℚ := #[#[0, 0], #[1, 2], #[3, 1], #[4, 0]]
private def pts3 : Mat ℚ := #[#[0, 0], #[1, 2], #[3, 1]]

-- C14_solve_correct
example : solveC (#[#[2, 1], #[1, 3]] : Mat ℚ) #[#[1], #[2]] = .ok #[#[1/5], #[3/5]] := by decide +kernel

-- C14_interpolate_curve / C14_projection (default Greville parameters)
example : interpolateCurve bq tolQ none pts4 = .ok #[#[0, 0], #[1, 3], #[3, 1], #[4, 0]] := by decide +kernel
example : paramsOrGreville bq none = .ok [0, 1/2, 3/2, 2] := by decide +kernel
example : ∃ Ni, invC (colloc bq tolQ [0, 1/2, 3/2, 2] 0) = .ok Ni := exists_of_isOk (by decide +kernel)

-- C14_projection_least_squares (3 points, 2 unknowns; data sampled from c0 = (0, 2))
example : leastSquareCurve bl tolQ [0, 1/2, 1] #[#[0], #[1], #[2]] = .ok #[#[0], #[2]] := by decide +kernel
example : ∃ Gi, invC (Mat.mul (Mat.transpose (colloc bl tolQ [0, 1/2, 1] 0)) (colloc bl tolQ [0, 1/2, 1] 0)) = .ok Gi :=
  exists_of_isOk (by decide +kernel)

-- C14_interpolate_surface: a NON-SQUARE 4 × 2 grid, flat and tensor layout
example : gridParams [bq, bl] none = .ok [[0, 1/2, 3/2, 2], [0, 1]] := by decide +kernel
example : ∃ cp, interpolateGridCore [bq, bl] tolQ none { shape := [8, 1], data := #[1, 2, 3, 4, 5, 6, 7, 8] } = .ok cp :=
  exists_of_isOk (by decide +kernel)
example : ∃ cp, interpolateGridCore [bq, bl] tolQ none { shape := [4, 2, 1], data := #[1, 2, 3, 4, 5, 6, 7, 8] } = .ok cp :=
  exists_of_isOk (by decide +kernel)

-- C14_interpolate_volume: a 2 × 4 × 2 grid, flat layout
example : gridParams [bl, bq, bl] none = .ok [[0, 1], [0, 1/2, 3/2, 2], [0, 1]] := by decide +kernel
example : ∃ cp, interpolateGridCore [bl, bq, bl] tolQ none
    { shape := [16, 1], data := #[1, 2, 3, 4, 5, 6, 7, 8, 8, 7, 6, 5, 4, 3, 2, 0] } = .ok cp :=
  exists_of_isOk (by decide +kernel)

-- C14_cubic_boundary and its corollaries: every boundary type
example : ∃ r, cubicCurve bFREE tolQ 0 (1/100000000) pts4 [0, 1, 2, 3] none = .ok r :=
  exists_of_isOk (by decide +kernel)
example : ∃ r, cubicCurve bNATURAL tolQ 0 (1/100000000) pts4 [0, 1, 2, 3] none = .ok r :=
  exists_of_isOk (by decide +kernel)
example : ∃ r, cubicCurve bHERMITE tolQ 0 (1/100000000) pts3 [0, 1, 2] (some #[#[1, 0], #[0, 1], #[1, 1]]) = .ok r :=
  exists_of_isOk (by decide +kernel)
example : ∃ r, cubicCurve bPERIODIC tolQ 0 (1/100000000) pts4 [0, 1, 2, 3, 4] none = .ok r :=
  exists_of_isOk (by decide +kernel)
example : ∃ r, cubicCurve bTANGENT tolQ 0 (1/100000000) pts3 [0, 1, 2] (some #[#[1, 0], #[0, 1]]) = .ok r :=
  exists_of_isOk (by decide +kernel)
example : ∃ r, cubicCurve bTANGENTNATURAL tolQ 0 (1/100000000) pts3 [0, 1, 2] (some #[#[1, 0]]) = .ok r :=
  exists_of_isOk (by decide +kernel)

-- C14_interpolate_curve_greville / _nested / _spec: every hypothesis of the Schoenberg–Whitney form
-- holds for the quadratic example basis, so interpolation at its Greville points provably succeeds
private theorem bq_valid : bq.Valid where
  order_pos := by decide
  size_ge := by decide
  sorted := by
    intro i hi
    have hi' : i + 1 < 7 := hi
    have hi'' : i < 6 := by omega
    interval_cases i <;> norm_num [Basis.kn, bq]
  periodic_ge := by decide
  periodic_le := by decide
  start_lt_stop := by norm_num [Basis.start, Basis.stop, Basis.kn, bq]
  ghosts := fun h => absurd h (by decide)

example : ∃ c, interpolateCurve bq tolQ none pts4 = .ok c ∧
    c.size = bq.numFunctions ∧ (∀ l, l < bq.numFunctions → (c.getD l #[]).size = 2) ∧
    ∀ i < bq.numFunctions, ∀ j < 2,
      splineVal (effSide bq (grevilleAbscissa bq.kn (bq.order - 1) i) true) bq.kn (bq.order - 1) bq.numFunctions
        (fun l => c.get l j) (grevilleAbscissa bq.kn (bq.order - 1) i) = pts4.get i j := by
  have hn : bq.numFunctions = 4 := by decide
  apply C14_interpolate_curve_greville bq_valid (by decide) (by decide)
    (by norm_num [Basis.kn, bq]) (by rw [hn]; norm_num [Basis.kn, bq])
    (by
      intro i h1 h2
      rw [hn] at h2
      interval_cases i <;> norm_num [Basis.kn, bq])
    (by norm_num [tolQ]) _ pts4 2
  · refine ⟨by rw [hn]; rfl, fun i hi => ?_⟩
    rw [hn] at hi
    interval_cases i <;> rfl
  · intro l hl i hi
    rw [hn] at hl
    have hi' : i < 7 := hi
    interval_cases l <;> interval_cases i <;>
      norm_num [grevilleAbscissa, grevilleSum, Finset.sum_range_succ, Basis.kn, bq, tolQ, abs_of_nonneg, abs_of_neg]

-- C14_lsq_exists / C14_lsq_reproduces: three sample points 0, 1/2, 1 for the linear basis; the nested
-- subsequence is (0, 1)
private theorem bl_valid : bl.Valid where
  order_pos := by decide
  size_ge := by decide
  sorted := by
    intro i hi
    have hi' : i + 1 < 4 := hi
    have hi'' : i < 3 := by omega
    interval_cases i <;> norm_num [Basis.kn, bl]
  periodic_ge := by decide
  periodic_le := by decide
  start_lt_stop := by norm_num [Basis.start, Basis.stop, Basis.kn, bl]
  ghosts := fun h => absurd h (by decide)

example : ∃ c, leastSquareCurve bl tolQ [0, 1/2, 1] #[#[0], #[1], #[2]] = .ok c := by
  have hn : bl.numFunctions = 2 := by decide
  apply C14_lsq_exists bl_valid (by decide) (by decide) (by norm_num [Basis.kn, bl])
    (by rw [hn]; norm_num [Basis.kn, bl])
    (by
      intro i h1 h2
      rw [hn] at h2
      interval_cases i; norm_num [Basis.kn, bl])
    (by norm_num [tolQ]) [0, 1/2, 1] (fun l => 2 * l) true true _ _ _ #[#[0], #[1], #[2]] 1
  · refine ⟨rfl, fun i hi => ?_⟩
    have hi' : i < 3 := hi
    interval_cases i <;> rfl
  · intro l hl
    rw [hn] at hl
    interval_cases l <;> simp
  · rw [hn]
    exact { first := by norm_num [Basis.kn, bl], last := by norm_num [Basis.kn, bl],
            lt_succ := fun l hl => by (have : l = 0 := by omega); subst this; norm_num,
            nest := fun l h1 h2 => by omega }
  · intro l hl i hi
    rw [hn] at hl
    have hi' : i < 4 := hi
    interval_cases l <;> interval_cases i <;> norm_num [Basis.kn, bl, tolQ]

-- C14_cubic_FREE_exists: five strictly increasing parameters
example :=
  C14_cubic_FREE_exists (K := ℚ) 0 1 3 7 [5/2] tolQ 0 (1/100000000) (by norm_num [tolQ])
    (by norm_num [tolQ]) #[#[0, 0], #[1, 2], #[3, 1], #[4, 0], #[5, 5]] 2
    ⟨rfl, fun i hi => by (have hi' : i < 5 := hi); interval_cases i <;> rfl⟩ none

-- C14_cubic_NATURAL_exists: four strictly increasing parameters
example :=
  C14_cubic_NATURAL_exists (K := ℚ) 0 7 [1, 5/2] tolQ 0 (1/100000000) (by norm_num [tolQ])
    (by norm_num [tolQ]) #[#[0, 0], #[1, 2], #[3, 1], #[4, 0]] 2
    ⟨rfl, fun i hi => by (have hi' : i < 4 := hi); interval_cases i <;> rfl⟩ none

-- C14_interpolate_periodic_uniform_cubic_partial: uniform C² periodic cubic basis with 4 functions
private def bper : Basis ℚ := { order := 4, knots := #[-3, -2, -1, 0, 1, 2, 3, 4, 5, 6, 7], periodic := 2 }

private theorem bper_valid : bper.Valid where
  order_pos := by decide
  size_ge := by decide
  sorted := by
    intro i hi
    have hi' : i + 1 < 11 := hi
    have hi'' : i < 10 := by omega
    interval_cases i <;> norm_num [Basis.kn, bper]
  periodic_ge := by decide
  periodic_le := by decide
  start_lt_stop := by norm_num [Basis.start, Basis.stop, Basis.kn, bper]
  ghosts := by
    intro _ i hi
    have hn : bper.numFunctions = 4 := by decide
    rw [hn] at hi ⊢
    have hi' : i + 4 < 11 := hi
    have hi'' : i < 7 := by omega
    interval_cases i <;>
      norm_num [Basis.start, Basis.stop, Basis.kn, bper]

example : ∃ c, interpolateCurve bper tolQ none pts4 = .ok c := by
  have hn : bper.numFunctions = 4 := by decide
  apply C14_interpolate_periodic_uniform_cubic_partial bper_valid rfl rfl (-3) 1 (by norm_num)
    (by
      intro i hi
      have hi' : i < 11 := hi
      interval_cases i <;> norm_num [Basis.kn, bper])
    (by norm_num [tolQ]) (by norm_num [tolQ]) pts4 2
  refine ⟨by rw [hn]; rfl, fun i hi => ?_⟩
  rw [hn] at hi
  interval_cases i <;> rfl

-- C14_interpolate_curve_nested with BOTH ENDS SHIFTED INWARD (open nesting, `p0 = p1 = false`)
example : ∃ c, interpolateCurve bq tolQ (some [1/8, 1/2, 3/2, 15/8]) pts4 = .ok c ∧
    c.size = bq.numFunctions ∧ (∀ l, l < bq.numFunctions → (c.getD l #[]).size = 2) ∧
    ∀ i < bq.numFunctions, ∀ j < 2,
      splineVal (effSide bq (([1/8, 1/2, 3/2, 15/8] : List ℚ).getD i 0) true) bq.kn (bq.order - 1) bq.numFunctions
        (fun l => c.get l j) (([1/8, 1/2, 3/2, 15/8] : List ℚ).getD i 0) = pts4.get i j := by
  have hn : bq.numFunctions = 4 := by decide
  apply C14_interpolate_curve_nested bq_valid (by decide) (by decide)
    (by norm_num [Basis.kn, bq]) (by rw [hn]; norm_num [Basis.kn, bq])
    (by
      intro i h1 h2
      rw [hn] at h2
      interval_cases i <;> norm_num [Basis.kn, bq])
    (by norm_num [tolQ]) [1/8, 1/2, 3/2, 15/8] (by rw [hn]; rfl) false false _ _ pts4 2
  · refine ⟨by rw [hn]; rfl, fun i hi => ?_⟩
    rw [hn] at hi
    interval_cases i <;> rfl
  · rw [hn]
    exact { first := by norm_num [Basis.kn, bq], last := by norm_num [Basis.kn, bq],
            lt_succ := fun l hl => by (have : l < 3 := by omega); interval_cases l <;> norm_num,
            nest := fun l h1 h2 => by (have : l < 3 := by omega); interval_cases l <;> norm_num [Basis.kn, bq] }
  · intro l hl i hi
    rw [hn] at hl
    have hi' : i < 7 := hi
    interval_cases l <;> interval_cases i <;> norm_num [Basis.kn, bq, tolQ, abs_of_nonneg, abs_of_neg]

-- C14_cubic_TANGENT_exists / C14_cubic_TANGENTNATURAL_exists
example :=
  C14_cubic_TANGENT_exists (K := ℚ) 0 7 [1, 5/2] tolQ 0 (1/100000000) (by norm_num [tolQ])
    (by norm_num [tolQ]) #[#[0, 0], #[1, 2], #[3, 1], #[4, 0]] 2
    ⟨rfl, fun i hi => by (have hi' : i < 4 := hi); interval_cases i <;> rfl⟩ #[#[1, 0], #[0, 1]]
    ⟨rfl, fun i hi => by interval_cases i <;> rfl⟩
example :=
  C14_cubic_TANGENTNATURAL_exists (K := ℚ) 0 7 [1, 5/2] tolQ 0 (1/100000000) (by norm_num [tolQ])
    (by norm_num [tolQ]) #[#[0, 0], #[1, 2], #[3, 1], #[4, 0]] 2
    ⟨rfl, fun i hi => by (have hi' : i < 4 := hi); interval_cases i <;> rfl⟩ #[#[1, 0]]
    ⟨rfl, fun i hi => by interval_cases i; rfl⟩

-- C14_cubic_HERMITE_exists: four strictly increasing parameters, four prescribed derivatives
example :=
  C14_cubic_HERMITE_exists (K := ℚ) 0 7 [1, 5/2] tolQ 0 (1/100000000) (by norm_num [tolQ])
    (by norm_num [tolQ]) #[#[0, 0], #[1, 2], #[3, 1], #[4, 0]] 2
    ⟨rfl, fun i hi => by (have hi' : i < 4 := hi); interval_cases i <;> rfl⟩
    #[#[1, 0], #[0, 1], #[1, 1], #[0, -1]]
    ⟨rfl, fun i hi => by (have hi' : i < 4 := hi); interval_cases i <;> rfl⟩

-- C14_cubic_PERIODIC_uniform_exists_partial (and the seam statement): t = 0,1,2,3,4, four points that
-- the model closes itself
example :=
  C14_cubic_PERIODIC_uniform_exists_partial (K := ℚ) tolQ 0 (1/100000000) (by norm_num [tolQ]) 0 1 (by norm_num)
    (by norm_num [tolQ]) [0, 1, 2, 3, 4] 1 rfl
    (fun k hk => by (have hk' : k < 5 := hk); interval_cases k <;> norm_num) pts4 2
    (by decide +kernel) none

-- C14_lsq_surface_exists: 3 × 2 samples for the bilinear space
example : ∃ cp, leastSquareGridCore [bl, bl] tolQ [[0, 1/2, 1], [0, 1]]
    { shape := [3, 2, 1], data := #[0, 1, 1, 2, 2, 3] } = .ok cp := by
  have hn : bl.numFunctions = 2 := by decide
  have hN : ∀ (ts : List ℚ) (idx : ℕ → ℕ), ts.getD (idx 0) 0 = 0 → ts.getD (idx 1) 0 = 1 →
      GenNested bl.kn (bl.order - 1) bl.numFunctions (fun l => ts.getD (idx l) 0) true true := by
    intro ts idx h0 h1
    rw [hn]
    exact { first := by simp only [if_true]; rw [h0]; norm_num [Basis.kn, bl],
            last := by simp only [if_true]; rw [h1]; norm_num [Basis.kn, bl],
            lt_succ := fun l hl => by
              have : l = 0 := by omega
              subst this
              show ts.getD (idx 0) 0 < ts.getD (idx 1) 0
              rw [h0, h1]; norm_num,
            nest := fun l h1 h2 => by omega }
  have hE : ∀ u : ℚ, u = 0 ∨ u = 1 → bl.ExactAt tolQ u := by
    intro u hu i hi
    have hi' : i < 4 := hi
    rcases hu with rfl | rfl <;> interval_cases i <;> norm_num [Basis.kn, bl, tolQ]
  have hclamp0 : bl.kn 0 = bl.kn (bl.order - 1) := by norm_num [Basis.kn, bl]
  have hclamp1 : bl.kn bl.numFunctions = bl.kn (bl.numFunctions + (bl.order - 1)) := by
    rw [hn]; norm_num [Basis.kn, bl]
  have hmult : ∀ i, 1 ≤ i → i < bl.numFunctions → bl.kn i < bl.kn (i + (bl.order - 1)) := by
    intro i h1 h2
    rw [hn] at h2
    interval_cases i; norm_num [Basis.kn, bl]
  obtain ⟨cp, hcp, _⟩ := C14_lsq_surface_exists bl_valid (by decide) (by decide) hclamp0 hclamp1 hmult
    bl_valid (by decide) (by decide) hclamp0 hclamp1 hmult (tol := tolQ) (by norm_num [tolQ])
    [0, 1/2, 1] [0, 1] (fun l => 2 * l) (fun l => l) true true true true
    (by intro l hl; rw [hn] at hl; interval_cases l <;> simp)
    (hN _ _ (by simp) (by simp))
    (by intro l hl; rw [hn] at hl; interval_cases l <;> [exact hE _ (Or.inl (by simp)); exact hE _ (Or.inr (by simp))])
    (by intro l hl; rw [hn] at hl; interval_cases l <;> simp)
    (hN _ _ (by simp) (by simp))
    (by intro l hl; rw [hn] at hl; interval_cases l <;> [exact hE _ (Or.inl (by simp)); exact hE _ (Or.inr (by simp))])
    { shape := [3, 2, 1], data := #[0, 1, 1, 2, 2, 3] } { shape := [3, 2, 1], data := #[0, 1, 1, 2, 2, 3] } 1
    (C14_gridInputLsq_layouts [0, 1/2, 1] [0, 1] _ 1 (Or.inr rfl)) rfl
  exact ⟨cp, hcp⟩

-- C14_loft_curves_partial / C14_loft_surfaces_partial: four linear sections, unit centre distances
example :=
  C14_loft_curves_partial (K := ℚ) bl_valid (by decide) (by decide) (by norm_num [Basis.kn, bl])
    (by norm_num [Basis.kn, bl, Basis.numFunctions])
    (by
      intro i h1 h2
      have h2' : i < 2 := h2
      interval_cases i; norm_num [Basis.kn, bl])
    (tol := tolQ) (by norm_num [tolQ]) (by norm_num [tolQ])
    (by
      intro i j hij
      have h01 : ∀ k, bl.kn k = 0 ∨ bl.kn k = 1 := by
        intro k
        by_cases hk : k < 4
        · interval_cases k <;> norm_num [Basis.kn, bl]
        · right; simp [Basis.kn, bl, Array.getD, hk]
      rcases h01 i with h1 | h1 <;> rcases h01 j with h2 | h2 <;> rw [h1, h2] at hij ⊢ <;>
        first | (norm_num at hij; done) | norm_num [tolQ, bl])
    [{ shape := [2, 1], data := #[0, 1] }, { shape := [2, 1], data := #[1, 2] },
     { shape := [2, 1], data := #[2, 4] }, { shape := [2, 1], data := #[3, 3] }]
    [1, 1, 1] 2 1 (by decide) (by decide) (by decide) (by norm_num [tolQ])
    (by intro s hs; simp at hs; rcases hs with rfl | rfl | rfl | rfl <;> rfl)

end NonVacuity
