import Splipy.Lemmas.C08Seam
import Splipy.Lemmas.C08Merge
import Splipy.Lemmas.C08Periodicity
import Splipy.Lemmas.C08Knots
import Splipy.Lemmas.C08LowerEval
import Splipy.Lemmas.C08RoundTrip
import Splipy.Lemmas.C08SeamDeriv
import Splipy.Lemmas.C07Mult
import Splipy.Lemmas.C10Ctor
import Splipy.Lemmas.EvalRow
import Mathlib.Data.Rat.Floor
import Mathlib.Tactic.NormNum
import Mathlib.Tactic.IntervalCases

/-!
# Property C08: periodic objects are genuinely periodic and convert losslessly

Specification-level statements use the infinite periodic continuation of a periodic basis:
`τ (i + n) = τ i + T` (`n = num_functions`, `T = end - start`, the ghost-knot condition of
`Basis.Valid`), `c (i + n) = c i` (the wrap `i % n` of the control-point index), degree `q = p-1`,
`N = n_all = n + k + 1` functions summed by the code, start `τ q`, end `τ q + T`.
-/

open Splipy

variable {K : Type} [Field K] [LinearOrder K] [IsStrictOrderedRing K]

/-- **Periodicity of the evaluated map** (grid evaluation `tensor=True`).  `params'` differs from
`params` only by whole multiples of the period in directions whose basis is a valid periodic basis
(`ZipShift`: same bases; pointwise `t' = t`, or `t' = t + m·T` with both parameters exact for the
knot tolerance and different from the domain end).  Then `evaluate` returns the same result (value
or `ValueError`).  Lift of `C01_periodic_any_real` (`evaluate_add_int_mul`) through the tensor
contraction of `Obj.evaluate`.

The domain end `stop` itself is admitted as soon as the seam has multiplicity `< p`
(`Basis.SeamSimple`, i.e. continuity `≥ 0` really holds) and `start`, `stop` are exact: the value row
at `stop` (a left limit) equals the value row at `start` (`evaluate_stop_eq_start`, from
`C08_seam_smooth` with `d = 0` on the periodic continuation of the knots).

`_partial`: only because the parameters must be exact for the tolerance (a knot, or at least `tol`
away from every knot) — the code snaps other parameters to knots, which is not shift invariant. -/
theorem C08_periodicity_partial [FloorRing K] (o : Obj K) {tol : K} (htol : 0 < tol)
    (params params' : List (List K))
    (h : ZipShift tol (List.zip o.bases.toList params) (List.zip o.bases.toList params')) :
    o.evaluate tol params' true = o.evaluate tol params true := by
  rw [Obj.evaluate_tensor_eq, Obj.evaluate_tensor_eq, domainBad_congr h, matsOf_congr htol h]

/-- **Seam smoothness, specification level** (infinite periodic knot sequence).  If the seam `τ q`
has multiplicity at most `m = p - 1 - k` (no `m+1` knots equal to it), every derivative of order
`d ≤ k` (`d + m ≤ q`) of the periodic spline taken at the END of the domain from BELOW equals the one
taken at the START from ABOVE (order `0` = the value: the map is continuous across the seam).  Kernel
lemma L9 + periodic shift of the B-splines.

`hper` speaks about a genuinely periodic INFINITE sequence; the knot accessor `Basis.kn` of the model
(constant beyond the array) does not satisfy it.  The instantiation for the model is
`C08_seam_rows` / `C08_seam_derivative` below: there `τ` is the periodic continuation `Basis.ext` of
the knot array (`Lemmas/C07Roll.lean`: `ext_mono`, `ext_add`, `ext_eq`), and the statement is about
what `Basis.evaluate` and `Obj.derivativeGeneric` return, for every `d ≤ k`. -/
theorem C08_seam_smooth (τ : ℕ → K) (hτ : Monotone τ) (n : ℕ) (T : K) (hT : 0 < T)
    (hper : ∀ i, τ (i + n) = τ i + T) (c : ℕ → K) (hc : ∀ i, c (i + n) = c i)
    (q m d N : ℕ) (hd : d + m ≤ q) (hm : ∀ j, τ j = τ q → τ (j + m) ≠ τ q)
    (hN : τ q + T ≤ τ N) (hnN : n ≤ N) :
    splineDeriv .left τ q N c d (τ q + T) = splineDeriv .right τ q N c d (τ q) :=
  periodic_seam_smooth τ hτ n T hper c hc q m d N hT hd hm hN hnN

/-- **Seam smoothness of the evaluated basis rows** (`BSplineBasis.evaluate`, every derivative order
the seam allows).  `b` a valid periodic basis of order `p`, at most `m` of its knots equal `start`
(`Basis.SeamMultLe`; the declared continuity `k` corresponds to `m = p - 1 - k`,
`C08_seam_rows_declared`), `d + m ≤ p - 1`, `start` and `stop` exact for the tolerance.  Then the
derivative row of order `d` at the domain END (from below, `from_right=False`; `from_right=True` gives
the same row because the code takes the left limit at `end`) and the row at `start` from BELOW are both
equal to the row at `start` from ABOVE. -/
theorem C08_seam_rows [FloorRing K] {b : Basis K} (hv : b.Valid) (hper : 0 ≤ b.periodic) {m d : ℕ}
    (hmult : b.SeamMultLe m) (hd : d + m ≤ b.order - 1)
    {tol : K} (htol : 0 < tol) (hex0 : b.ExactAt tol b.start) (hex1 : b.ExactAt tol b.stop) :
    b.evaluate tol b.stop d false = b.evaluate tol b.start d true ∧
    b.evaluate tol b.stop d true = b.evaluate tol b.start d true ∧
    b.evaluate tol b.start d false = b.evaluate tol b.start d true :=
  ⟨evaluate_stop_eq_start_deriv hv hper hmult hd htol hex0 hex1 false,
    evaluate_stop_eq_start_deriv hv hper hmult hd htol hex0 hex1 true,
    evaluate_start_left_eq_right_deriv hv hper hmult hd htol hex0⟩

/-- The same for the DECLARED continuity: `periodic = k`, seam multiplicity at most `p - 1 - k`
(what `make_periodic(k)` and the factories build), every `0 ≤ d ≤ k`. -/
theorem C08_seam_rows_declared [FloorRing K] {b : Basis K} (hv : b.Valid) (k : ℕ)
    (hk : b.periodic = (k : Int)) (hmult : b.SeamMultLe (b.order - 1 - k)) {d : ℕ} (hd : d ≤ k)
    {tol : K} (htol : 0 < tol) (hex0 : b.ExactAt tol b.start) (hex1 : b.ExactAt tol b.stop) :
    b.evaluate tol b.stop d false = b.evaluate tol b.start d true := by
  have hper : 0 ≤ b.periodic := by omega
  have hkle := Basis.per_k_le hv hper
  exact evaluate_stop_eq_start_deriv hv hper hmult (by omega) htol hex0 hex1 false

/-- **Seam smoothness of periodic curves — `SplineObject.derivative`** (`Obj.derivativeGeneric`,
rational or not, `tensor` either way).  Curve over a valid periodic basis `b` as in `C08_seam_rows`.
Then `derivative(end, d, above)` (either side) and `derivative(start, d, above=False)` return exactly
what `derivative(start, d, above=True)` returns: derivatives up to the order the seam allows agree
across the seam (for rational curves the quotient rule of order `≤ 1`, and the same `RuntimeError`
beyond). -/
theorem C08_seam_derivative [FloorRing K] (o : Obj K) {b : Basis K} (hb : o.bases = #[b])
    (hv : b.Valid) (hper : 0 ≤ b.periodic) {m d : ℕ} (hmult : b.SeamMultLe m)
    (hd : d + m ≤ b.order - 1) {tol : K} (htol : 0 < tol) (hex0 : b.ExactAt tol b.start)
    (hex1 : b.ExactAt tol b.stop) (a tensor : Bool) :
    o.derivativeGeneric tol [[b.stop]] [d] [a] tensor
        = o.derivativeGeneric tol [[b.start]] [d] [true] tensor ∧
      o.derivativeGeneric tol [[b.start]] [d] [false] tensor
        = o.derivativeGeneric tol [[b.start]] [d] [true] tensor :=
  derivativeGeneric_seam o hb hv hper hmult hd htol hex0 hex1 a tensor

/-- **`lower_periodic(k')` — the model's `Obj.lowerPeriodic`** (curves, surfaces, volumes;
fibre-wise).  `dir` ANY valid periodic direction (order `p`, continuity `k`, `n ≥ 1` functions — no
lower bound `n ≥ p + k`, no assumption on the seam multiplicity), control net with `n` rows along
`dir`.  For EVERY `k'` with `-1 ≤ k' ≤ k` the call succeeds and returns an object `o'` whose basis
along `dir` is a VALID basis of CONTINUITY `k'` (for `k' = -1`: a valid non-periodic basis) of the same
order, start and end, with `n + (k - k')` functions (the seam multiplicity grew by `k - k'`), the
other bases and `rational` untouched — and THE WRAPPED SPLINE OF EVERY FIBRE IS UNCHANGED: `wsum`
(value and all derivatives, both sides) at every `t` of the domain.  (`wsum … nAll m c` with
`nAll = m` is the ordinary `splineDeriv`, which is the case `k' = -1`.)
Proof: every round is a periodic insertion of `start` (`C04.insertKnots_fibres_periodic_all`: direct
algorithm or cover branch; the new knot `p` is `start` by the array description around the insertion
index, `Lemmas/C07PerWindow.lean`) followed by `roll(1)` / `np.roll(cps, -1)` (shifted periodic
sequences, `Lemmas/C07Roll.lean`), dropping the function that leaves the window; induction over the
rounds (`Lemmas/C08Lower.lean`, `LowerCore`). -/
theorem C08_lower_periodic [FloorRing K] (o : Obj K) (dir : ℕ) (hdir : dir < o.bases.size)
    (hax : dir < o.cps.shape.length) (hv : (o.basis dir).Valid) (k : ℕ)
    (hk : (o.basis dir).periodic = (k : Int))
    (hshape : o.cps.shape.getD dir 0 = (o.basis dir).numFunctions)
    (k' : Int) (h1 : -1 ≤ k') (h2 : k' ≤ k) :
    ∃ o', o.lowerPeriodic k' dir = .ok o' ∧
      (o'.basis dir).Valid ∧ (o'.basis dir).periodic = k' ∧
      (o'.basis dir).order = (o.basis dir).order ∧
      (o'.basis dir).numFunctions = (o.basis dir).numFunctions + ((k : Int) - k').toNat ∧
      (o'.basis dir).start = (o.basis dir).start ∧ (o'.basis dir).stop = (o.basis dir).stop ∧
      (∀ d, d ≠ dir → o'.basis d = o.basis d) ∧ o'.rational = o.rational ∧
      o'.cps.shape = o.cps.shape.set dir ((o.basis dir).numFunctions + ((k : Int) - k').toNat) ∧
      ∀ a i, a < C04.outerN o dir → i < C04.innerN o dir → ∀ (s : Side) (d : ℕ) (t : K),
        s.mem (o.basis dir).start (o.basis dir).stop t →
        C04.wsum s (o'.basis dir).kn ((o.basis dir).order - 1) (o'.basis dir).nAll
            (o'.basis dir).numFunctions (C04.fibre o' dir a i) d t
          = C04.wsum s (o.basis dir).kn ((o.basis dir).order - 1) (o.basis dir).nAll
            (o.basis dir).numFunctions (C04.fibre o dir a i) d t := by
  obtain ⟨o', hl, hI⟩ := lowerPeriodic_spec_all o dir hdir hax hv k hk hshape k' h1 h2
  refine ⟨o', hl, hI.valid, ?_, hI.order_eq, hI.num_eq, hI.start_eq, hI.stop_eq, hI.other,
    hI.rational_eq, hI.shape_eq, fun a i ha hi s d t ht => ?_⟩
  · rw [hI.periodic_eq, hk]; omega
  · rw [hI.nAll_eq, hI.num_eq]; exact hI.same a i ha hi s d t ht

/-- Older guarded form of `C08_lower_periodic`, kept for the files that call it (C12): the
hypotheses `hguard` (`n ≥ p + k`) and `hseam` (`start < knots[p]`) are NOT used. -/
theorem C08_lower_periodic_partial [FloorRing K] (o : Obj K) (dir : ℕ) (hdir : dir < o.bases.size)
    (hax : dir < o.cps.shape.length) (hv : (o.basis dir).Valid) (k : ℕ)
    (hk : (o.basis dir).periodic = (k : Int))
    (_hguard : (o.basis dir).order + k ≤ (o.basis dir).numFunctions)
    (hshape : o.cps.shape.getD dir 0 = (o.basis dir).numFunctions)
    (_hseam : (o.basis dir).start < (o.basis dir).kn (o.basis dir).order)
    (k' : Int) (h1 : -1 ≤ k') (h2 : k' ≤ k) :
    ∃ o', o.lowerPeriodic k' dir = .ok o' ∧
      (o'.basis dir).Valid ∧ (o'.basis dir).periodic = k' ∧
      (o'.basis dir).order = (o.basis dir).order ∧
      (o'.basis dir).numFunctions = (o.basis dir).numFunctions + ((k : Int) - k').toNat ∧
      (o'.basis dir).start = (o.basis dir).start ∧ (o'.basis dir).stop = (o.basis dir).stop ∧
      (∀ d, d ≠ dir → o'.basis d = o.basis d) ∧ o'.rational = o.rational ∧
      o'.cps.shape = o.cps.shape.set dir ((o.basis dir).numFunctions + ((k : Int) - k').toNat) ∧
      ∀ a i, a < C04.outerN o dir → i < C04.innerN o dir → ∀ (s : Side) (d : ℕ) (t : K),
        s.mem (o.basis dir).start (o.basis dir).stop t →
        C04.wsum s (o'.basis dir).kn ((o.basis dir).order - 1) (o'.basis dir).nAll
            (o'.basis dir).numFunctions (C04.fibre o' dir a i) d t
          = C04.wsum s (o.basis dir).kn ((o.basis dir).order - 1) (o.basis dir).nAll
            (o.basis dir).numFunctions (C04.fibre o dir a i) d t :=
  C08_lower_periodic o dir hdir hax hv k hk hshape k' h1 h2

/-- Raising the periodicity is rejected with `ValueError`. -/
theorem C08_lower_periodic_raise [FloorRing K] (o : Obj K) (dir : ℕ) (k' : Int)
    (h : (o.basis dir).periodic < k') : o.lowerPeriodic k' dir = .error .value :=
  lowerPeriodic_raise o dir k' h

/-- **`lower_periodic` on curves and the real evaluator.**  Curve (rational or not) over ANY valid
periodic basis `b1` (no guard `n ≥ p + k`, no seam hypothesis); `-1 ≤ k' ≤ k`; `tol > 0`; parameters
`us` admissible for `b1` (tolerance comparisons exact at `u` and at the wrapped point) and — when the
result is non-periodic, `k' = -1` — inside `[start, end]` and not the empty list (for which the
non-periodic result raises `ValueError` while the periodic original returns an empty array).  Then
`lower_periodic(k')` succeeds and `o'.evaluate tol [us] = o.evaluate tol [us]` (the same tensor)
provided the parameters are admissible for the new basis too.  Via `Lemmas/BridgeTransfer.lean`
(`transfer_curve`) and `C04.specRow_sum_periodic`.
`_partial`: curves and admissible (tolerance-exact) parameters only; surfaces/volumes are covered
fibre-wise by `C08_lower_periodic`. -/
theorem C08_lower_periodic_curve_partial [FloorRing K] {o : Obj K} {b1 : Basis K}
    (hb : o.bases = #[b1]) (hv1 : b1.Valid) (k : ℕ) (hk : b1.periodic = (k : Int)) {nc : ℕ}
    (hs : o.cps.shape = [b1.numFunctions, nc]) (hnc : o.rational = true → 1 ≤ nc)
    (k' : Int) (h1 : -1 ≤ k') (h2 : k' ≤ k)
    {tol : K} (htol : 0 < tol) {us : List K} (hus : ∀ u ∈ us, b1.Admissible tol u)
    (hdom : k' = -1 → ∀ u ∈ us, b1.start ≤ u ∧ u ≤ b1.stop) (hne : k' = -1 → us ≠ []) :
    ∃ o', o.lowerPeriodic k' 0 = .ok o' ∧ (o'.basis 0).Valid ∧ (o'.basis 0).periodic = k' ∧
      ((∀ u ∈ us, (o'.basis 0).Admissible tol u) →
        o'.evaluate tol [us] true = o.evaluate tol [us] true) := by
  obtain ⟨o', hl, hI, he⟩ :=
    lowerPeriodic_evaluate_curve hb hv1 k hk hs hnc k' h1 h2 htol hus hdom hne
  have hb0 : o.basis 0 = b1 := by simp [Obj.basis, hb]
  refine ⟨o', hl, hI.valid, ?_, he⟩
  rw [hI.periodic_eq, hb0, hk]; omega

/-- **Opening at the seam — the model's `split(start, dir)`** (any continuity `k`; curves,
surfaces, volumes).  `dir` a valid periodic direction under the guard `n ≥ p + k`, control net with
`n` rows along `dir`, and the seam separated from its neighbour knots by more than the tolerance
(`kn k < start - tol`, `start + tol ≤ kn p`: then `continuity(start) = k` exactly and `k + 1` copies
of `start` are inserted).  `split` returns a single object `op` whose basis along `dir` is
`openAtSeam` of the periodic basis (`p` copies of `start`, the interior knots, `p` copies of `end`),
the other bases untouched, `n + k + 1` rows along `dir`, and **rows `k … n` of the opened net are the
periodic rows `r mod n`** — the hypothesis `hOpen` of the merge lemma, now proved.
Proof: explicit induction over the `k + 1` insertions of `start` (`Lemmas/C08Open.lean`: knots
`seamKn`, the insertion matrix keeps row `0` and copies row `r - j` into every row `r ≥ k + j`), then
`roll(k+1)` / `np.roll(cps, -(k+1))`.

`_partial`: the guard `n ≥ p + k` and the tolerance separation.  The guard is kept HERE because the
proof reads the explicit insertion matrix and repaired knot vector of the direct algorithm, which the
cover branch of `insert_knot` (fewer than `p + k` functions) does not provide; the guard-free
statement about `split(start)` — success, valid open basis on `[start, end]`, the SAME MAP — is
`C08_open_at_seam_map_partial`. -/
theorem C08_open_at_seam_partial [FloorRing K] (o : Obj K) (dir : ℕ) (hdir : dir < o.bases.size)
    (hax : dir < o.cps.shape.length) (hv : (o.basis dir).Valid) (k : ℕ)
    (hk : (o.basis dir).periodic = (k : Int))
    (hguard : (o.basis dir).order + k ≤ (o.basis dir).numFunctions)
    (hshape : o.cps.shape.getD dir 0 = (o.basis dir).numFunctions) {tol : K} (htol : 0 < tol)
    (htolL : (o.basis dir).kn k < (o.basis dir).start - tol)
    (htolR : (o.basis dir).start + tol ≤ (o.basis dir).kn (o.basis dir).order) :
    ∃ op, o.split tol [(o.basis dir).start] dir = .ok (.single op) ∧
      op.basis dir = (o.basis dir).openAtSeam ∧
      (∀ d, d ≠ dir → op.basis d = o.basis d) ∧ op.rational = o.rational ∧
      op.cps.shape = o.cps.shape.set dir ((o.basis dir).numFunctions + (k + 1)) ∧
      (∀ a i, a < C04.outerN o dir → i < C04.innerN o dir → ∀ r, k ≤ r →
        r ≤ (o.basis dir).numFunctions →
        C04.fibre op dir a i r = C04.fibre o dir a i (r % (o.basis dir).numFunctions)) := by
  obtain ⟨op, h1, h2, h3, h4, h5, _, _, _, h9⟩ :=
    open_at_seam o dir hdir hax hv k hk hguard hshape htol htolL htolR
  exact ⟨op, h1, h2, h3, h4, h5, h9⟩

/-- **Opening at the seam, every valid periodic direction: `split(start, dir)` returns the same map
on an open basis.**  No lower bound on the number of functions.  `dir` a valid periodic direction,
control net with `n` rows along `dir`, no knot other than copies of `start` within the tolerance of
`start` (`hexR`, `hexL`).  Then `split(start, dir)` returns a SINGLE object `op` whose basis along
`dir` is a valid NON-periodic basis of the same order on `[start, end]` with `n + m` functions (`m`
the number of inserted copies), the other bases and `rational` untouched, `n + m` rows along `dir`,
and every control-net fibre of `op` evaluates at every `t` of `[start, end]` (both one-sided versions)
to the wrapped-image sum `wsum` of the periodic original: the opened object is the same map.
(`C07_split_periodic_partial` at `x0 = start`.)
Weaker than `C08_open_at_seam_partial` in that the knot vector and the control points of `op` are not
given explicitly.  `_partial`: `hexR`/`hexL` (the tolerance comparisons of `continuity` are exact). -/
theorem C08_open_at_seam_map_partial [FloorRing K] (o : Obj K) (dir : ℕ) (hdir : dir < o.bases.size)
    (hax : dir < o.cps.shape.length) (hv : (o.basis dir).Valid) (k : ℕ)
    (hk : (o.basis dir).periodic = (k : Int))
    (hshape : o.cps.shape.getD dir 0 = (o.basis dir).numFunctions) {tol : K} (htol : 0 < tol)
    (hexR : ∀ i, i < (o.basis dir).knots.size →
      (o.basis dir).kn i ≤ (o.basis dir).start ∨ (o.basis dir).start + tol ≤ (o.basis dir).kn i)
    (hexL : ∀ i, i < (o.basis dir).knots.size →
      (o.basis dir).kn i < (o.basis dir).start - tol ∨ (o.basis dir).start ≤ (o.basis dir).kn i) :
    ∃ op m, o.split tol [(o.basis dir).start] dir = .ok (.single op) ∧
      (op.basis dir).Valid ∧ (op.basis dir).periodic = -1 ∧
      (op.basis dir).order = (o.basis dir).order ∧
      (op.basis dir).numFunctions = (o.basis dir).numFunctions + m ∧
      (op.basis dir).start = (o.basis dir).start ∧ (op.basis dir).stop = (o.basis dir).stop ∧
      (∀ d, d ≠ dir → op.basis d = o.basis d) ∧ op.rational = o.rational ∧
      op.cps.shape = o.cps.shape.set dir ((o.basis dir).numFunctions + m) ∧
      ∀ a i, a < C04.outerN o dir → i < C04.innerN o dir → ∀ (s : Side) (t : K),
        s.mem (o.basis dir).start (o.basis dir).stop t →
        splineVal s (op.basis dir).kn ((o.basis dir).order - 1) ((o.basis dir).numFunctions + m)
            (C04.fibre op dir a i) t
          = C04.wsum s (o.basis dir).kn ((o.basis dir).order - 1) (o.basis dir).nAll
              (o.basis dir).numFunctions (C04.fibre o dir a i) 0 t := by
  have hx : (o.basis dir).start ≤ (o.basis dir).start ∧ (o.basis dir).start < (o.basis dir).stop :=
    ⟨le_refl _, hv.start_lt_stop⟩
  obtain ⟨op, m, h1, h2, h3, h4, h5, h6, h7, h8, h9, h10, h11⟩ :=
    split_periodic_single_all o dir hdir hax hv k hk hshape tol (o.basis dir).start hx
      (hMult_of_exact_all o dir hdir hv k hk hshape htol hx hexR hexL)
  have hT : (o.basis dir).start + ((o.basis dir).stop - (o.basis dir).start) = (o.basis dir).stop := by
    ring
  rw [hT] at h7 h11
  refine ⟨op, m, h1, h2, h3, h4, h5, h6, h7, h8, h9, h10, fun a i ha hi s t ht => ?_⟩
  exact (h11 a i ha hi s t ht).1 ((Side.mem_iff s _ _ t).1 ht).2

/-- **Round trip for continuity `k ≤ 1` — the model's `make_periodic(split(o, start), k)`.**
Under the hypotheses of `C08_open_at_seam_partial` and `k ≤ 1` the round trip succeeds and returns an
object with the SAME bases (in particular the same periodic knot vector, `C08_make_periodic_knots`),
the same `rational` flag, the same control-net shape and the SAME control points, entry by entry; if
the control-point array of `o` has the length its shape demands, the result IS `o`.
(`hOpen` of the earlier version is discharged by `C08_open_at_seam_partial`; for `k ≥ 2` the statement
is false, `C08_roundtrip_fails_k2`.)

`_partial`: guard `n ≥ p + k` and tolerance separation of the seam, as above.  The guard is NOT an
artefact of the proof here: below it `make_periodic` of the short open object `split(start)` returns
fails or returns other control points (known finding `make-periodic-short-direction`; a one-function
example is evaluated in `C08_roundtrip_fails_small`). -/
theorem C08_roundtrip_k_le_1_partial [FloorRing K] (o : Obj K) (dir : ℕ) (hdir : dir < o.bases.size)
    (hax : dir < o.cps.shape.length) (hv : (o.basis dir).Valid) (k : ℕ) (hk1 : k ≤ 1)
    (hk : (o.basis dir).periodic = (k : Int))
    (hguard : (o.basis dir).order + k ≤ (o.basis dir).numFunctions)
    (hshape : o.cps.shape.getD dir 0 = (o.basis dir).numFunctions) {tol : K} (htol : 0 < tol)
    (htolL : (o.basis dir).kn k < (o.basis dir).start - tol)
    (htolR : (o.basis dir).start + tol ≤ (o.basis dir).kn (o.basis dir).order) :
    ∃ o', o.roundTrip tol k dir = .ok o' ∧ o'.bases = o.bases ∧ o'.rational = o.rational ∧
      o'.cps.shape = o.cps.shape ∧
      (∀ a r i, a < C04.outerN o dir → r < (o.basis dir).numFunctions → i < C04.innerN o dir →
        o'.cps.at3 dir a r i = o.cps.at3 dir a r i) ∧
      (o.cps.data.size = Tensor.prod o.cps.shape → o' = o) := by
  obtain ⟨o', h1, h2, h3, h4, h5, h6⟩ :=
    roundTrip_k_le_1 o dir hdir hax hv k hk1 hk hguard hshape htol htolL htolR
  refine ⟨o', h1, h2, h3, h4, h6, fun hd => ?_⟩
  have hcps : o'.cps = o.cps := by
    apply Tensor.ext_at3 o.cps o'.cps dir hax h4 hd h5
    intro a r i ha hr hi
    apply h6 a r i ha _ hi
    have : (Tensor.split3 o.cps.shape dir).2.1 = (o.basis dir).numFunctions := by
      rw [← hshape]
      simp only [Tensor.split3, List.getD_eq_getElem?_getD, List.getElem?_eq_getElem hax]
      rfl
    rw [← this]; exact hr
  cases o with
  | mk ob oc orat =>
    cases o' with
    | mk ob' oc' orat' =>
      simp only at h2 h3 hcps
      rw [h2, h3, hcps]

/-- The merge step alone: if rows `k … n` of the opened net are the periodic rows (`hOpen`, provided
by `C08_open_at_seam_partial`), the merge of `make_periodic(k)` with `k ≤ 1` — weights `[1/2]` resp.
`[0, 1]` — returns exactly the periodic net. -/
theorem C08_merge_k_le_1 [FloorRing K] (cps : Tensor K) (dir n k : ℕ) (hk : k ≤ 1)
    (hn : 1 ≤ n) (hax : dir < cps.shape.length) (hrows : cps.shape.getD dir 0 = n + k + 1)
    (c : ℕ → ℕ → ℕ → K)
    (hOpen : ∀ a r i, k ≤ r → r ≤ n → cps.at3 dir a r i = c a (r % n) i)
    (a r i : ℕ) (hr : r < n) (hi : i < (Tensor.split3 cps.shape dir).2.2)
    (ha : a < (Tensor.split3 cps.shape dir).1) :
    (Obj.mergeCps cps dir k).at3 dir a r i = c a r i :=
  Obj.mergeCps_k_le_1 cps dir n k hk hn hax hrows c a r i (fun r' h1 h2 => hOpen a r' i h1 h2) hr hi ha

/-- **Round trip, knot half.**  `b` a valid periodic basis with at least `p - 1` functions,
`b.openAtSeam` its knot vector opened at the seam (`p` copies of `start`, the interior knots, `p`
copies of `end`: what `split(start)` returns, cf. `C08_exK2_openAtSeam`).  Then
`BSplineBasis.make_periodic(k)` with the original continuity builds exactly the knot vector of `b`,
and the constructor accepts it: the result is `b` itself (order, knots, periodicity). -/
theorem C08_make_periodic_knots {b : Basis K} (hv : b.Valid) (hper : 0 ≤ b.periodic)
    (hn : b.order ≤ b.numFunctions + 1) (tol : K) (htol : 0 ≤ tol) :
    (b.openAtSeam).makePeriodicKnots b.periodic.toNat = b.knots ∧
    (b.openAtSeam).makePeriodic tol b.periodic.toNat = .ok b :=
  ⟨Basis.makePeriodicKnots_openAtSeam hv hper hn, Basis.makePeriodic_openAtSeam hv hper hn tol htol⟩

/-! ## The round trip fails for continuity `k ≥ 2` -/

/-- Uniform periodic cubic (`p = 4`, `k = 2`, knots `-3 … 9`, six control points `i²`). -/
def C08_exK2 : Obj ℚ :=
  { bases := #[⟨4, #[-3, -2, -1, 0, 1, 2, 3, 4, 5, 6, 7, 8, 9], 2⟩],
    cps := { shape := [6, 1], data := #[0, 1, 4, 9, 16, 25] }, rational := false }

/-- What `split` at the seam returns for it. -/
def C08_exK2_open : Obj ℚ :=
  { bases := #[⟨4, #[0, 0, 0, 0, 1, 2, 3, 4, 5, 6, 6, 6, 6], -1⟩],
    cps := { shape := [9, 1], data := #[4/3, 2, 4, 9, 16, 25, 0, 2/3, 4/3] }, rational := false }

/-- The model of `split` opens `C08_exK2` at its seam into `C08_exK2_open`. -/
theorem C08_exK2_split :
    (match C08_exK2.split (1 / 10 ^ 10) [0] 0 with
      | .ok (.single o) => (o.cps.shape, o.cps.data.toList, (o.basis 0).order,
                            (o.basis 0).knots.toList, (o.basis 0).periodic)
      | _ => ([], [], 0, [], 0))
    = ([9, 1], [4/3, 2, 4, 9, 16, 25, 0, 2/3, 4/3], 4, [0, 0, 0, 0, 1, 2, 3, 4, 5, 6, 6, 6, 6], -1) := by
  decide +kernel

/-- The knot vector `split` produces is `openAtSeam` of the periodic basis. -/
theorem C08_exK2_openAtSeam :
    ((C08_exK2.basis 0).openAtSeam.knots.toList, (C08_exK2.basis 0).openAtSeam.order,
      (C08_exK2.basis 0).openAtSeam.periodic)
    = ((C08_exK2_open.basis 0).knots.toList, (C08_exK2_open.basis 0).order,
      (C08_exK2_open.basis 0).periodic) := by
  decide +kernel

/-- **`make_periodic(split(c, start), k) ≠ c` for `k = 2`**, already on uniform knots: the executable
model of the code (weights `linspace(0, 1, 3) = [0, 1/2, 1]`) returns the ORIGINAL knot vector and
periodicity, but the control points `[0, 4/3, 4, 9, 16, 25]` instead of `[0, 1, 4, 9, 16, 25]`:
the middle weight `1/2` averages two NEW control points of the refined curve
(`1/2·2 + 1/2·2/3 = 4/3`), whereas the periodic control point is `1`.  Replayed on the real code
by the C08 oracle (class `make-periodic-weights-continuity>=2`). -/
theorem C08_roundtrip_fails_k2 :
    (match C08_exK2.roundTrip (1 / 10 ^ 10) 2 0 with
      | .ok o => (o.cps.data.toList, (o.basis 0).knots.toList, (o.basis 0).periodic)
      | .error _ => ([], [], 7))
      = ([0, 4/3, 4, 9, 16, 25], [-3, -2, -1, 0, 1, 2, 3, 4, 5, 6, 7, 8, 9], 2)
    ∧ C08_exK2.cps.data.toList = [0, 1, 4, 9, 16, 25] := by
  constructor <;> decide +kernel

/-- The same round trip is exact for `k = 1` (quadratic, non-uniform knots). -/
def C08_exK1 : Obj ℚ :=
  { bases := #[⟨3, #[-3, -2, 0, 1, 3, 4, 6, 7, 9], 1⟩],
    cps := { shape := [4, 2], data := #[0, 1, 4, -2, 9, 5, -3, 7] }, rational := false }

theorem C08_roundtrip_ok_k1 :
    (match C08_exK1.roundTrip (1 / 10 ^ 10) 1 0 with
      | .ok o => (o.cps.shape, o.cps.data.toList, (o.basis 0).knots.toList, (o.basis 0).periodic)
      | .error _ => ([], [], [], 7))
      = (C08_exK1.cps.shape, C08_exK1.cps.data.toList, (C08_exK1.basis 0).knots.toList,
          (C08_exK1.basis 0).periodic) := by
  decide +kernel

/-- Lowering `C08_exK2` to a non-periodic curve: the model returns an open cubic on one period. -/
theorem C08_exK2_lower :
    (match C08_exK2.lowerPeriodic (-1) 0 with
      | .ok o => ((o.basis 0).knots.toList, (o.basis 0).periodic, o.cps.shape)
      | .error _ => ([], 7, []))
      = ([0, 0, 0, 0, 1, 2, 3, 4, 5, 6, 6, 6, 6], -1, [9, 1]) := by
  decide +kernel

/-! ## Non-vacuity of the specification-level hypotheses -/

/-- Uniform integer knots, `n = 4`, `T = 4`, `q = 2`, seam multiplicity `m = 1` (`k = 1`):
all hypotheses of `C08_seam_smooth` (`d ≤ 1`, `N = 6`). -/
example : ∃ (τ : ℕ → ℚ) (c : ℕ → ℚ), Monotone τ ∧ (∀ i, τ (i + 4) = τ i + 4) ∧ (∀ i, c (i + 4) = c i)
    ∧ (∀ j, τ j = τ 2 → τ (j + 1) ≠ τ 2) ∧ τ 2 + 4 ≤ τ 6 := by
  refine ⟨fun j => (j : ℚ), fun i => ((i % 4 : ℕ) : ℚ), ?_, ?_, ?_, ?_, ?_⟩
  · intro a b hab
    show ((a : ℕ) : ℚ) ≤ (b : ℚ)
    exact_mod_cast hab
  · intro i
    show (((i + 4 : ℕ)) : ℚ) = (i : ℚ) + 4
    push_cast; ring
  · intro i
    show (((i + 4) % 4 : ℕ) : ℚ) = ((i % 4 : ℕ) : ℚ)
    have : (i + 4) % 4 = i % 4 := by omega
    rw [this]
  · intro j hj
    show (((j + 1 : ℕ)) : ℚ) ≠ ((2 : ℕ) : ℚ)
    have hj' : ((j : ℕ) : ℚ) = ((2 : ℕ) : ℚ) := hj
    have : j = 2 := by exact_mod_cast hj'
    subst this
    norm_num
  · norm_num

/-- Periodic quadratic basis (continuity 0) used for the non-vacuity of `C08_periodicity_partial`. -/
def C08_exPer : Basis ℚ := ⟨3, #[-1, 0, 0, 1, 2, 3, 3, 4], 0⟩

theorem C08_exPer_valid : C08_exPer.Valid where
  order_pos := by decide
  size_ge := by decide
  sorted := by
    intro i hi
    have hi' : i + 1 < 8 := hi
    have hi'' : i < 7 := by omega
    interval_cases i <;> norm_num [Basis.kn, C08_exPer]
  periodic_ge := by decide
  periodic_le := by decide
  start_lt_stop := by norm_num [Basis.start, Basis.stop, Basis.kn, C08_exPer]
  ghosts := by
    intro _ i hi
    have hi' : i + 4 < 8 := hi
    have hi'' : i < 4 := by omega
    interval_cases i <;>
      norm_num [Basis.start, Basis.stop, Basis.kn, Basis.numFunctions, C08_exPer]


/-- `1/2` and `1/2 + 2·3` are related by `PeriodShift` for `C08_exPer` (period 3), so the
hypothesis of `C08_periodicity_partial` is satisfiable with a genuine shift. -/
example : C08_exPer.PeriodShift (1/1000) (1/2) (13/2) := by
  refine Or.inr ⟨C08_exPer_valid, by decide, ?_, ?_, Or.inl ⟨?_, ?_⟩, 2, ?_⟩
  · intro i hi
    have hi' : i < 8 := hi
    interval_cases i <;> norm_num [Basis.kn, C08_exPer, abs_of_nonneg, abs_of_neg]
  · intro i hi
    have hi' : i < 8 := hi
    interval_cases i <;> norm_num [Basis.kn, C08_exPer, abs_of_nonneg, abs_of_neg]
  · norm_num [Basis.stop, Basis.kn, C08_exPer]
  · norm_num [Basis.stop, Basis.kn, C08_exPer]
  · norm_num [Basis.start, Basis.stop, Basis.kn, C08_exPer]

/-- The seam alternative: the domain end `3` itself and `3 + 3 = 6` (which wraps to `start`). -/
example : C08_exPer.PeriodShift (1/1000) 3 6 := by
  have ex : ∀ t : ℚ, t ∈ ({0, 3, 6} : Set ℚ) → C08_exPer.ExactAt (1/1000) t := by
    intro t ht i hi
    have hi' : i < 8 := hi
    rcases ht with rfl | rfl | rfl <;> interval_cases i <;>
      norm_num [Basis.kn, C08_exPer, abs_of_nonneg, abs_of_neg]
  have hst : C08_exPer.start = 0 := by norm_num [Basis.start, Basis.kn, C08_exPer]
  have hsp : C08_exPer.stop = 3 := by norm_num [Basis.stop, Basis.kn, C08_exPer]
  refine Or.inr ⟨C08_exPer_valid, by decide, ex 3 (by simp), ex 6 (by simp), Or.inr ⟨?_, ?_, ?_⟩, 1, ?_⟩
  · intro j hj h0
    have hj' : j + 2 < 8 := hj
    have hj'' : j < 6 := by omega
    rw [hst] at h0 ⊢
    interval_cases j
    all_goals first | (norm_num [Basis.kn, C08_exPer] at h0; done) | norm_num [Basis.kn, C08_exPer]
  · rw [hst]; exact ex 0 (by simp)
  · rw [hsp]; exact ex 3 (by simp)
  · rw [hst, hsp]; norm_num

/-- `C08_exPer` has `n = 4 ≥ p - 1 = 2` functions: the hypotheses of `C08_make_periodic_knots` hold. -/
example : C08_exPer.order ≤ C08_exPer.numFunctions + 1 ∧ 0 ≤ C08_exPer.periodic := by decide

/-- Guard and seam hypothesis of `C08_lower_periodic_partial` hold for `C08_exPer`
(`p = 3`, `k = 0`, `n = 4`; the knot after the three leading ones is `1 > start = 0`). -/
example : C08_exPer.order + 0 ≤ C08_exPer.numFunctions ∧
    C08_exPer.start < C08_exPer.kn C08_exPer.order := by
  constructor
  · decide
  · norm_num [Basis.start, Basis.kn, C08_exPer]

/-- Guard and tolerance separation of `C08_open_at_seam_partial` / `C08_roundtrip_k_le_1_partial`
hold for the basis of `C08_exK1` (`p = 3`, `k = 1`, `n = 4`, `tol = 10⁻¹⁰`); its round trip is
evaluated by the kernel in `C08_roundtrip_ok_k1`. -/
example : (C08_exK1.basis 0).order + 1 ≤ (C08_exK1.basis 0).numFunctions ∧
    (C08_exK1.basis 0).kn 1 < (C08_exK1.basis 0).start - 1 / 10 ^ 10 ∧
    (C08_exK1.basis 0).start + 1 / 10 ^ 10 ≤ (C08_exK1.basis 0).kn (C08_exK1.basis 0).order := by
  refine ⟨by decide, ?_, ?_⟩ <;>
    norm_num [Obj.basis, C08_exK1, Basis.start, Basis.kn]

/-- Every hypothesis of `C08_seam_rows` / `C08_seam_derivative` for the basis of `C08_exK1`
(`p = 3`, `k = 1`, seam `0` of multiplicity `1 = p - 1 - k`, `tol = 10⁻¹⁰`), `d ≤ 1`. -/
theorem C08_exK1_seam :
    (C08_exK1.basis 0).Valid ∧ 0 ≤ (C08_exK1.basis 0).periodic ∧ (C08_exK1.basis 0).SeamMultLe 1 ∧
    (C08_exK1.basis 0).ExactAt (1 / 10 ^ 10) (C08_exK1.basis 0).start ∧
    (C08_exK1.basis 0).ExactAt (1 / 10 ^ 10) (C08_exK1.basis 0).stop := by
  have hst : (C08_exK1.basis 0).start = 0 := by norm_num [Obj.basis, C08_exK1, Basis.start, Basis.kn]
  have hsp : (C08_exK1.basis 0).stop = 6 := by norm_num [Obj.basis, C08_exK1, Basis.stop, Basis.kn]
  refine ⟨(Basis.validB_iff _).1 (by decide +kernel), by decide, ?_, ?_, ?_⟩
  · intro j hj h0
    have hj' : j + 1 < 9 := hj
    have hj'' : j < 8 := by omega
    rw [hst] at h0 ⊢
    interval_cases j
    all_goals first
      | (norm_num [Obj.basis, C08_exK1, Basis.kn] at h0; done)
      | norm_num [Obj.basis, C08_exK1, Basis.kn]
  · rw [hst]
    intro i hi
    have hi' : i < 9 := hi
    interval_cases i <;> norm_num [Obj.basis, C08_exK1, Basis.kn, abs_of_nonneg, abs_of_neg]
  · rw [hsp]
    intro i hi
    have hi' : i < 9 := hi
    interval_cases i <;> norm_num [Obj.basis, C08_exK1, Basis.kn, abs_of_nonneg, abs_of_neg]

example (a tensor : Bool) :
    C08_exK1.derivativeGeneric (1 / 10 ^ 10) [[(C08_exK1.basis 0).stop]] [1] [a] tensor
      = C08_exK1.derivativeGeneric (1 / 10 ^ 10) [[(C08_exK1.basis 0).start]] [1] [true] tensor :=
  (C08_seam_derivative C08_exK1 (b := C08_exK1.basis 0) rfl C08_exK1_seam.1 C08_exK1_seam.2.1
    C08_exK1_seam.2.2.1 (d := 1) (by decide) (by norm_num) C08_exK1_seam.2.2.2.1
    C08_exK1_seam.2.2.2.2 a tensor).1

/-- The kernel evaluates both sides: first derivative at the seam of `C08_exK1`, from below at the
end `6` and from above at the start `0`. -/
theorem C08_exK1_seam_eval :
    (match C08_exK1.derivativeGeneric (1 / 10 ^ 10) [[6]] [1] [false] true,
        C08_exK1.derivativeGeneric (1 / 10 ^ 10) [[0]] [1] [true] true with
      | .ok r, .ok r' => (r.data.toList, r'.data.toList)
      | _, _ => ([], [1]))
    = ([8/3, -2], [8/3, -2]) := by
  decide +kernel

/-! ## Small periodic bases (fewer than `p + k` functions: the cover branch of `insert_knot`) -/

/-- One control point: `p = 3`, `k = 1`, `n = 1 < p + k = 4`. -/
def C08_exSmall : Obj ℚ :=
  { bases := #[⟨3, #[-1/2, -1/4, 0, 1/4, 1/2, 3/4], 1⟩],
    cps := { shape := [1, 2], data := #[1, 2] }, rational := false }

theorem C08_exSmall_valid : (C08_exSmall.basis 0).Valid := (Basis.validB_iff _).1 (by decide +kernel)

/-- `C08_lower_periodic` applies to it (every hypothesis instantiated) … -/
example : ∃ o', C08_exSmall.lowerPeriodic (-1) 0 = .ok o' ∧ (o'.basis 0).Valid ∧
    (o'.basis 0).periodic = -1 := by
  obtain ⟨o', h1, h2, h3, _⟩ := C08_lower_periodic C08_exSmall 0 (by decide) (by decide)
    C08_exSmall_valid 1 (by decide) (by decide) (-1) (by norm_num) (by norm_num)
  exact ⟨o', h1, h2, h3⟩

/-- … and the kernel evaluates the model: the constant curve on the open knot vector. -/
theorem C08_exSmall_lower :
    (match C08_exSmall.lowerPeriodic (-1) 0 with
      | .ok o => ((o.basis 0).knots.toList, (o.basis 0).periodic, o.cps.shape, o.cps.data.toList)
      | .error _ => ([], 7, [], []))
      = ([0, 0, 0, 1/4, 1/4, 1/4], -1, [3, 2], [1, 2, 1, 2, 1, 2]) := by
  decide +kernel

/-- `C08_open_at_seam_map_partial` applies to it (`tol = 10⁻¹⁰`). -/
example : ∃ op, C08_exSmall.split (1 / 10 ^ 10) [(C08_exSmall.basis 0).start] 0 = .ok (.single op) ∧
    (op.basis 0).Valid ∧ (op.basis 0).periodic = -1 := by
  have hst : (C08_exSmall.basis 0).start = 0 := by norm_num [Obj.basis, C08_exSmall, Basis.start, Basis.kn]
  obtain ⟨op, m, h1, h2, h3, _⟩ := C08_open_at_seam_map_partial C08_exSmall 0 (by decide) (by decide)
    C08_exSmall_valid 1 (by decide) (by decide) (tol := 1 / 10 ^ 10) (by norm_num)
    (by
      intro i hi
      have hi' : i < 6 := hi
      rw [hst]
      interval_cases i <;> norm_num [Obj.basis, C08_exSmall, Basis.kn])
    (by
      intro i hi
      have hi' : i < 6 := hi
      rw [hst]
      interval_cases i <;> norm_num [Obj.basis, C08_exSmall, Basis.kn])
  exact ⟨op, h1, h2, h3⟩

/-- **The round trip fails below the guard**: `split(start)` of the one-function curve succeeds (it is
the open curve of `C08_exSmall_lower`), but `make_periodic(1)` of that short object is rejected by the
constructor (`ValueError`, too few knots) — model and code agree (finding class
`make-periodic-short-direction`). -/
theorem C08_roundtrip_fails_small :
    (match C08_exSmall.roundTrip (1 / 10 ^ 10) 1 0 with
      | .ok _ => some PyErr.other
      | .error e => some e) = some PyErr.value := by
  decide +kernel

/-- Two functions (`n = 2 < p + k = 4`): here the round trip still reproduces the object — the guard
of `C08_roundtrip_k_le_1_partial` is sufficient, not sharp. -/
def C08_exSmall2 : Obj ℚ :=
  { bases := #[⟨3, #[-2, -1, 0, 1, 2, 3, 4], 1⟩],
    cps := { shape := [2, 2], data := #[1, 2, 3, -1] }, rational := false }

theorem C08_roundtrip_ok_small2 :
    (match C08_exSmall2.roundTrip (1 / 10 ^ 10) 1 0 with
      | .ok o => (o.cps.shape, o.cps.data.toList, (o.basis 0).knots.toList, (o.basis 0).periodic)
      | .error _ => ([], [], [], 7))
      = (C08_exSmall2.cps.shape, C08_exSmall2.cps.data.toList, (C08_exSmall2.basis 0).knots.toList,
          (C08_exSmall2.basis 0).periodic) := by
  decide +kernel
