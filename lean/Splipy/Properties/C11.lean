import Splipy.Lemmas.C11Run

/-!
# Property C11 — non-in-place operations neither modify nor alias their operands

These are **full statements about the heap model** `Splipy.Heap` (buffers, basis records, objects;
`Splipy/Model/Heap.lean`), unbounded over histories.

* The contracts `query | fresh | inPlace | procedure | procedureAll` are given a relational
  semantics by what a transition may DO (`InPlaceStep`, `FreshStep`, `QueryStep`: allocate cells,
  overwrite only cells owned by the receiver, reference only owned or freshly allocated cells).
  Well-formedness of the resulting heap is **proved** from that (`C11_wellformed_preserved`), it is
  not part of the relations.
* Operations are executed literally by `exec` on contract-agnostic descriptions `RawOp` that receive
  the operand references and CAN alias operand cells, write through operands and return views.
  The theorems hold for operations that respect their contract (`RawOp.respects c`, decidable);
  `C11_contract_violations_are_expressible_and_break_it` shows that they fail for operations that
  do not — they are not true by construction of the model.

PREMISE (not proved here): that a given Python operation behaves as its contract says.  It is
(a) validated dynamically by the correspondence run of `./check C11` for every operation × operand
class (real write set, real sharing graph, returns-receiver flag, isolation experiment) and
(b) checked against an effect summary inferred from the current source
(`C11_contracts_consistent_with_source`, `Splipy/Generated/C11Obligations.lean`); the table's
totality over the public API is re-proved from the live source on every run
(`C11_contract_table_total`).  For that reason the property as a whole is reported as *partial*.
-/

open Splipy.Heap

/-- **Well-formedness is a consequence, not an assumption.**  A transition that only does what the
in-place contract (resp. the fresh/query contract) allows leads from a well-formed heap to a
well-formed heap. -/
theorem C11_wellformed_preserved :
    (∀ (h h' : Heap) (i : Nat), WF h → InPlaceStep h h' i → WF h') ∧
    (∀ (h h' : Heap), WF h → FreshStep h h' → WF h') ∧
    (∀ (h h' : Heap), WF h → QueryStep h h' → WF h') :=
  ⟨fun _ _ _ w st => st.wf w, fun _ _ w st => st.wf w, fun _ _ w st => st.fresh.wf w⟩

/-- **Separation invariant.**  "The heap is well formed and distinct live top-level objects own
disjoint sets of buffers and disjoint sets of basis records" (`Invariant h = WF h ∧ Sep h`)
(1) holds initially, (2) is preserved by every contract-respecting transition, hence (3) holds after
every finite history of such transitions; (4) it is preserved by `exec` for every operation all of
whose actions conform (whatever it writes, builds or returns), hence (5) along every history of
operations that respect their contracts. -/
theorem C11_separation_invariant :
    Invariant Heap.empty ∧
    (∀ h h', Invariant h → ContractStep h h' → Invariant h') ∧
    (∀ h, Reachable h → Invariant h) ∧
    (∀ (h : Heap) (op : RawOp), Invariant h → op.conforming = true → Invariant (exec h op).1) ∧
    (∀ (h : Heap) (hist : List (Contract × RawOp)), Invariant h →
        (∀ e ∈ hist, e.2.respects e.1 = true) → Invariant (run h hist)) :=
  ⟨inv_empty, fun _ _ hi st => st.inv hi, fun _ r => r.inv, fun _ _ hi hc => exec_inv hi hc,
   fun _ _ hi hr => run_inv hi hr⟩

/-- **Isolation.**  Under the invariant:
(a) a transition under the in-place contract with receiver `i` leaves every other live object
    `j ≠ i` the same object with the same observation (`controlpoints`, every basis'
    `knots`/`order`/`periodic`, `dimension`, `rational`);
(b) a `fresh` or `query` transition leaves **every** pre-existing object the same;
(c) after `exec` of an operation that respects contract `c`, and (d) after a history of such
    operations, a handle that is not a receiver allowed by the contract(s) — none for
    `query`/`fresh`, the first operand for `inPlace`/`procedure`, the operands for `procedureAll` —
    is the same object with the same observation. -/
theorem C11_isolation :
    (∀ (h h' : Heap) (i j : Nat) (b : Obj), WF h → Sep h → InPlaceStep h h' i → j ≠ i →
        h.objs[j]? = some b → h'.objs[j]? = some b ∧ observe h' b = observe h b) ∧
    (∀ (h h' : Heap) (j : Nat) (b : Obj), WF h → (FreshStep h h' ∨ QueryStep h h') →
        h.objs[j]? = some b → h'.objs[j]? = some b ∧ observe h' b = observe h b) ∧
    (∀ (h : Heap) (c : Contract) (op : RawOp) (j : Nat), Invariant h → op.respects c = true →
        j ∉ op.receivers c → Same h (exec h op).1 j) ∧
    (∀ (h : Heap) (hist : List (Contract × RawOp)) (j : Nat), Invariant h →
        (∀ e ∈ hist, e.2.respects e.1 = true) → (∀ e ∈ hist, j ∉ e.2.receivers e.1) →
        Same h (run h hist) j) := by
  refine ⟨?_, ?_, fun h c op j hi hr hj => exec_same hi hr hj, fun h hist j hi hr hj => run_same hi hr hj⟩
  · intro h h' i j b w s st hji hb
    obtain ⟨h1, h2, _⟩ := st.isolation w s hji hb
    exact ⟨h1, h2⟩
  · intro h h' j b w st hb
    rcases st with st | st
    · obtain ⟨h1, h2, _⟩ := st.isolation w hb; exact ⟨h1, h2⟩
    · obtain ⟨h1, h2, _⟩ := st.fresh.isolation w hb; exact ⟨h1, h2⟩

/-- **What is returned.**  An operation that respects
* `inPlace` returns exactly its receiver (the first operand reference);
* `procedure` / `procedureAll` returns nothing;
* `fresh` returns nothing, or only handles that did not exist before, or an array that no live
  object owns;
* `query` returns nothing, a scalar, or an array that no live object owns. -/
theorem C11_inplace_returns_receiver :
    (∀ (h : Heap) (op : RawOp), op.respects .inPlace = true →
        ∃ r rest, op.args = r :: rest ∧ (exec h op).2 = .handles [r]) ∧
    (∀ (h : Heap) (op : RawOp), (op.respects .procedure = true ∨ op.respects .procedureAll = true) →
        (exec h op).2 = .none) ∧
    (∀ (h : Heap) (op : RawOp), Invariant h → op.respects .fresh = true →
        (exec h op).2 = .none ∨
        (∃ hs, (exec h op).2 = .handles hs ∧ ∀ k ∈ hs, h.objs.length ≤ k) ∨
        (∃ id, (exec h op).2 = .buffer id ∧ bufferSharers (exec h op).1 id = [])) ∧
    (∀ (h : Heap) (op : RawOp), Invariant h → op.respects .query = true →
        (exec h op).2 = .none ∨ (exec h op).2 = .scalar ∨
        (∃ id, (exec h op).2 = .buffer id ∧ bufferSharers (exec h op).1 id = [])) := by
  refine ⟨?_, ?_, ?_, ?_⟩
  · intro h op hr
    simp only [RawOp.respects, Bool.and_eq_true, Bool.not_eq_true', beq_iff_eq] at hr
    have hret : op.ret = .receiver := hr.2.2
    have hargs : op.args.isEmpty = false := hr.2.1.2
    cases ha : op.args with
    | nil => simp [ha] at hargs
    | cons r rest =>
      refine ⟨r, rest, rfl, ?_⟩
      rw [exec_snd, hret, ha]
  · intro h op hr
    have hret : op.ret = .none := by
      rcases hr with hr | hr <;>
        · simp only [RawOp.respects, Bool.and_eq_true, beq_iff_eq] at hr
          exact hr.2.2
    rw [exec_snd, hret]
  · intro h op hi hr
    have hw := respects_no_writes (Or.inr rfl) hr
    have hc := respects_conforming hr
    have hc' := hc
    simp only [RawOp.conforming, Bool.and_eq_true] at hc'
    have i2 := buildObjs_inv (applyWrites_inv hi hc'.1) hc'.2
    simp only [RawOp.respects, Bool.and_eq_true] at hr
    cases hret : op.ret with
    | none => left; rw [exec_snd, hret]
    | newObjects =>
      right; left
      refine ⟨_, by rw [exec_snd, hret], ?_⟩
      intro k hk
      simp only [List.mem_range'] at hk
      obtain ⟨i, _, rfl⟩ := hk
      simp only [hw, applyWrites, List.foldl_nil]; omega
    | newBuffer d =>
      right; right
      refine ⟨_, by rw [exec_snd, hret], ?_⟩
      have : (exec h op).1 = allocBuf (buildObjs (applyWrites h op.writes) op.news) d := by
        rw [exec_fst, hret]
      rw [this]
      exact bufferSharers_allocBuf i2.1 d
    | scalar => rw [hret] at hr; simp at hr
    | bufferOf _ => rw [hret] at hr; simp at hr
    | receiver => rw [hret] at hr; simp at hr
  · intro h op hi hr
    have hc := respects_conforming hr
    have hc' := hc
    simp only [RawOp.conforming, Bool.and_eq_true] at hc'
    have i2 := buildObjs_inv (applyWrites_inv hi hc'.1) hc'.2
    simp only [RawOp.respects, Bool.and_eq_true] at hr
    cases hret : op.ret with
    | none => left; rw [exec_snd, hret]
    | scalar => right; left; rw [exec_snd, hret]
    | newBuffer d =>
      right; right
      refine ⟨_, by rw [exec_snd, hret], ?_⟩
      have : (exec h op).1 = allocBuf (buildObjs (applyWrites h op.writes) op.news) d := by
        rw [exec_fst, hret]
      rw [this]
      exact bufferSharers_allocBuf i2.1 d
    | newObjects => rw [hret] at hr; simp at hr
    | bufferOf _ => rw [hret] at hr; simp at hr
    | receiver => rw [hret] at hr; simp at hr

/-- **The predicted observables.**  After every history of operations that respect their contracts,
started from a heap satisfying the invariant, the sharing graph over live handles has no edge; and
the write set of every operation that respects its contract is within the receivers the contract
allows (empty for `query`/`fresh`). -/
theorem C11_predicted_observables :
    (∀ (h : Heap) (hist : List (Contract × RawOp)), Invariant h →
        (∀ e ∈ hist, e.2.respects e.1 = true) → sharingEdges (run h hist) = []) ∧
    (∀ (h : Heap) (c : Contract) (op : RawOp), Invariant h → op.respects c = true →
        ∀ j ∈ writeSet h (exec h op).1, j ∈ op.receivers c) :=
  ⟨fun _ _ hi hr => sharingEdges_nil_of_sep (run_inv hi hr).2,
   fun _ _ _ hi hr => writeSet_subset_receivers hi hr⟩

/-! ## A concrete history, and the refutations -/

namespace C11Examples

def curveSpec : ObjSpec := { bases := [⟨3, -1, [0, 0, 0, 1, 1, 1]⟩], cps := [1, 2, 3], dimension := 2, rational := false }
def surfSpec : ObjSpec :=
  { bases := [⟨2, -1, [0, 0, 1, 1]⟩, ⟨3, 0, [-1, 0, 1, 2, 3]⟩], cps := [5, 6, 7, 8], dimension := 3, rational := true }

/-- two constructors, `surface.swap()`-like in-place step, `curve.clone()`, `curve.evaluate()`,
    `curve.append(clone)`-like in-place step with a second operand. -/
def history : List (Contract × RawOp) :=
  [ (.fresh, { args := [], writes := [], news := [(curveSpec, []), (surfSpec, [])], ret := .newObjects }),
    (.inPlace, { args := [1], writes := [(1, [.prim (.swapBases 0 1), .prim (.rebindCps [8, 7, 6, 5]), .prim (.setRec 0 2 (-1) none)])],
                 news := [], ret := .receiver }),
    (.fresh, { args := [0], writes := [], news := [(curveSpec, [])], ret := .newObjects }),
    (.query, { args := [0], writes := [], news := [], ret := .newBuffer [9, 9] }),
    (.inPlace, { args := [0, 2], writes := [(0, [.prim (.writeCps [4, 4, 4]), .prim (.writeKnots 0 [0, 0, 0, 2, 2, 2]),
                                                .prim (.rebindBasis 0 4 (-1) [0, 0, 0, 0, 1, 1, 1, 1])])],
                 news := [], ret := .receiver }) ]

def before : Heap := run Heap.empty (history.take 4)
def heap : Heap := run Heap.empty history

example : ∀ e ∈ history, e.2.respects e.1 = true := by decide
/-- The invariant's hypotheses are satisfiable by a non-trivial heap (three live objects, ten
    buffers, five basis records) — checked by evaluation, independently of the theorem … -/
example : heap.objs.length = 3 ∧ wfB heap = true ∧ sepB heap = true := by decide
example : Invariant heap := ⟨wfB_sound (by decide), sepB_sound (by decide)⟩
/-- … and it is what the theorem says. -/
example : Invariant heap := C11_separation_invariant.2.2.2.2 _ history C11_separation_invariant.1 (by decide)
/-- The in-place step really writes: the receiver's observation changes, while the clone made before
    (handle 2, the second operand) and the surface (handle 1) observe the same. -/
example : observeAt heap 0 ≠ observeAt before 0 ∧ observeAt heap 2 = observeAt before 2
    ∧ observeAt heap 1 = observeAt before 1 := by decide
example : sharingEdges heap = [] ∧ writeSet before heap = [0] := by decide

/-! ### Operations that VIOLATE their contract (the defects this check found in the library, in
model form).  `exec` performs them just the same. -/

/-- `section()` in its old point case: a "fresh" object whose control points are a VIEW of the
    operand's buffer. -/
def viewResult : RawOp := { args := [0], writes := [], news := [(curveSpec, [.aliasCps 0])], ret := .newObjects }
/-- the infix operators starting from `copy.copy(self)` (seeded change C11_1): the result shares
    the operand's basis record. -/
def sharedBasis : RawOp := { args := [0], writes := [], news := [(curveSpec, [.aliasBasis 0 0 0])], ret := .newObjects }
/-- `volume_factory.extrude` before it was repaired: a "fresh" operation that writes through its operand. -/
def writesOperand : RawOp := { args := [0], writes := [(0, [.prim (.setScalars 3 false), .prim (.rebindCps [1, 2, 3, 0])])],
                                news := [(surfSpec, [])], ret := .newObjects }
/-- a "query" that returns a view of the operand's control points. -/
def returnsView : RawOp := { args := [0], writes := [], news := [], ret := .bufferOf 0 }
/-- `SplineModel.add` / `Curve.append` keeping the other operand's cells: an in-place operation whose
    receiver 2 ends up referencing the control points of operand 0. -/
def retainsOperand : RawOp := { args := [2, 0], writes := [(2, [.aliasCps 0])], news := [], ret := .receiver }

end C11Examples

open C11Examples in
/-- **The theorems are not true by construction of the model.**  Operations that do NOT respect
their contract are expressible, `exec` performs them, and from a heap that satisfies the invariant
they
(1) break separation (a result that is a view of, or shares a basis record with, its operand; an
    in-place receiver that retains another operand's buffer) — visible in the sharing graph —
    after which a write through the operand IS observed through the result;
(2) change the observation of an operand of a "fresh" operation (while the invariant survives:
    separation alone does not imply isolation, the write permission of the contract does);
(3) hand out an array that a live object owns. -/
theorem C11_contract_violations_are_expressible_and_break_it :
    Invariant heap ∧
    -- (1) aliasing results / receivers
    (viewResult.respects .fresh = false ∧ ¬ Sep (exec heap viewResult).1 ∧
      sharingEdges (exec heap viewResult).1 = [(0, 3)] ∧
      observeAt (applyPrim (exec heap viewResult).1 0 (.writeCps [0, 0, 0])) 3 ≠ observeAt (exec heap viewResult).1 3) ∧
    (sharedBasis.respects .fresh = false ∧ ¬ Sep (exec heap sharedBasis).1 ∧
      sharingEdges (exec heap sharedBasis).1 = [(0, 3)]) ∧
    (retainsOperand.respects .inPlace = false ∧ ¬ Sep (exec heap retainsOperand).1 ∧
      sharingEdges (exec heap retainsOperand).1 = [(0, 2)]) ∧
    -- (2) a "fresh" operation writing through its operand
    (writesOperand.respects .fresh = false ∧ Invariant (exec heap writesOperand).1 ∧
      observeAt (exec heap writesOperand).1 0 ≠ observeAt heap 0 ∧ writeSet heap (exec heap writesOperand).1 = [0]) ∧
    -- (3) a "query" returning a view
    (returnsView.respects .query = false ∧ (exec heap returnsView).2 = .buffer 1 ∧
      bufferSharers (exec heap returnsView).1 1 = [0]) := by
  have notSep : ∀ g : Heap, sepB g = false → wfB g = true → ¬ Sep g := by
    intro g hb _ hs
    have : sharingEdges g = [] := sharingEdges_nil_of_sep hs
    -- sepB g = false means some pair shares state; then sharingEdges is non-empty
    have hcontra : sepB g = true := by
      simp only [sepB, List.all_eq_true, List.mem_range]
      intro i hi j hj
      by_cases hij : i = j
      · simp [hij]
      · cases ha : g.objs[i]? with
        | none => simp
        | some a =>
          cases hbj : g.objs[j]? with
          | none => simp
          | some b => simp [sharesState_false_of_sep hs hij ha hbj]
    rw [hb] at hcontra; exact Bool.noConfusion hcontra
  refine ⟨⟨wfB_sound (by decide), sepB_sound (by decide)⟩, ⟨by decide, notSep _ (by decide) (by decide), by decide, by decide⟩,
    ⟨by decide, notSep _ (by decide) (by decide), by decide⟩, ⟨by decide, notSep _ (by decide) (by decide), by decide⟩,
    ⟨by decide, ⟨wfB_sound (by decide), sepB_sound (by decide)⟩, by decide, by decide⟩, ⟨by decide, by decide, by decide⟩⟩
