import Splipy.Lemmas.C11Run

/-!
# Property C11 — non-in-place operations neither modify nor alias their operands

These are **full statements about the heap model** `Splipy.Heap` (buffers, basis records, objects;
`Splipy/Model/Heap.lean`), unbounded over histories.  The link to the Python library is the
*contract table*: each public operation is assigned one of the contracts
`query | fresh | inPlace | procedure | procedureAll`, and the theorems below hold for **every**
transition allowed by these contracts (`InPlaceStep`, `FreshStep`, `QueryStep`) and for every
executable step/history of the model (`step`, `run`), for arbitrary payloads.

PREMISE (not proved here, validated dynamically): that a given Python operation behaves as its
contract says.  The correspondence run of `./check C11` measures, for every operation × operand
class, the real write set (bit-for-bit snapshots), the real sharing graph (`numpy.shares_memory`,
`is`) and the returns-receiver flag and compares them with what this model predicts for the
contract; the table's totality over the public API is re-proved from the live source on every run
(`Splipy/Generated/C11Obligations.lean`, theorem `C11_contract_table_total`).  For that reason the
property as a whole is reported as *partial*: the theorems are complete for the model, the
per-operation premises are tested, not derived from the Python source.
-/

open Splipy.Heap

/-- **Separation invariant.**  "The heap is well formed and distinct live top-level objects own
disjoint sets of buffers and disjoint sets of basis records" (`Invariant h = WF h ∧ Sep h`)
(1) holds initially, (2) is preserved by every contract-respecting transition, hence
(3) holds after every finite history of such transitions, and (4) in particular after every
history of the executable model, from any heap satisfying it, whatever the payloads. -/
theorem C11_separation_invariant :
    Invariant Heap.empty ∧
    (∀ h h', Invariant h → ContractStep h h' → Invariant h') ∧
    (∀ h, Reachable h → Invariant h) ∧
    (∀ h (ops : List Op), Invariant h → Invariant (run h ops)) :=
  ⟨inv_empty, fun _ _ hi st => st.inv hi, fun _ r => r.inv, fun _ ops hi => run_inv hi ops⟩

/-- **Isolation.**  Under the invariant:
(a) a transition under the in-place contract with receiver `i` (any sequence of writes through
    `i`) leaves every other live object `j ≠ i` the same object with the same observation
    (`controlpoints`, every basis' `knots`/`order`/`periodic`, `dimension`, `rational`);
(b) a `fresh` or `query` transition leaves **every** pre-existing object the same, with the same
    observation;
(c) the same for the executable model: after any step, and after any history, a handle that is
    not a receiver of (any of) the operation(s) is the same object with the same observation. -/
theorem C11_isolation :
    (∀ (h h' : Heap) (i j : Nat) (b : Obj), WF h → Sep h → InPlaceStep h h' i → j ≠ i →
        h.objs[j]? = some b → h'.objs[j]? = some b ∧ observe h' b = observe h b) ∧
    (∀ (h h' : Heap) (j : Nat) (b : Obj), WF h → (FreshStep h h' ∨ QueryStep h h') →
        h.objs[j]? = some b → h'.objs[j]? = some b ∧ observe h' b = observe h b) ∧
    (∀ (h : Heap) (op : Op) (j : Nat), Invariant h → j ∉ op.receivers → Same h (step h op).1 j) ∧
    (∀ (h : Heap) (ops : List Op) (j : Nat), Invariant h → (∀ op ∈ ops, j ∉ op.receivers) →
        Same h (run h ops) j) := by
  refine ⟨?_, ?_, fun h op j hi hj => step_same hi op hj, fun h ops j hi hj => run_same hi ops hj⟩
  · intro h h' i j b w s st hji hb
    obtain ⟨h1, h2, _⟩ := st.isolation w s hji hb
    exact ⟨h1, h2⟩
  · intro h h' j b w st hb
    rcases st with st | st
    · obtain ⟨h1, h2, _⟩ := st.isolation w hb; exact ⟨h1, h2⟩
    · obtain ⟨h1, h2, _⟩ := (st.fresh w).isolation w hb; exact ⟨h1, h2⟩

/-- **In-place operations return their receiver; the others return nothing that existed.**
An `inPlace` step returns exactly the receiver's handle; a `procedure`/`procedureAll` step returns
nothing; a `fresh` step returns only handles that did not exist before; a `query` step returns a
scalar or a buffer id that did not exist before. -/
theorem C11_inplace_returns_receiver :
    (∀ h recv others prog, (step h (.inPlace recv others prog true)).2 = .handles [recv]) ∧
    (∀ h recv others prog, (step h (.inPlace recv others prog false)).2 = .none) ∧
    (∀ h progs, (step h (.inPlaceAll progs)).2 = .none) ∧
    (∀ h args news, ∃ hs, (step h (.fresh args news)).2 = .handles hs ∧ ∀ k ∈ hs, h.objs.length ≤ k) ∧
    (∀ h args d, (step h (.query args (some d))).2 = .buffer h.bufs.length) ∧
    (∀ h args, (step h (.query args none)).2 = .scalar) := by
  refine ⟨fun _ _ _ _ => rfl, fun _ _ _ _ => rfl, fun _ _ => rfl, ?_, fun _ _ _ => rfl, fun _ _ => rfl⟩
  intro h args news
  refine ⟨_, rfl, ?_⟩
  intro k hk
  simp only [List.mem_range'] at hk
  obtain ⟨i, _, rfl⟩ := hk
  omega

/-- **The predicted observables.**  After every history of the executable model started from a
heap satisfying the invariant: the sharing graph over live handles has no edge; the write set of
every step is within the receivers of the operation (empty for `query`/`fresh`); the array returned
by a `query` step is owned by no live object. -/
theorem C11_predicted_observables :
    (∀ (h : Heap) (ops : List Op), Invariant h → sharingEdges (run h ops) = []) ∧
    (∀ (h : Heap) (op : Op), Invariant h → ∀ j ∈ writeSet h (step h op).1, j ∈ op.receivers) ∧
    (∀ (h : Heap) (args : List Nat) (d : List Int), Invariant h →
        bufferSharers (step h (.query args (some d))).1 h.bufs.length = []) :=
  ⟨fun _ ops hi => sharingEdges_nil_of_sep (run_inv hi ops).2,
   fun _ op hi => writeSet_subset_receivers hi op,
   fun _ _ d hi => bufferSharers_allocBuf hi.1 d⟩

/-! ## Non-vacuity: a concrete history, and what goes wrong without the contracts -/

namespace C11Examples

def curveSpec : ObjSpec := { bases := [⟨3, -1, [0, 0, 0, 1, 1, 1]⟩], cps := [1, 2, 3], dimension := 2, rational := false }
def surfSpec : ObjSpec :=
  { bases := [⟨2, -1, [0, 0, 1, 1]⟩, ⟨3, 0, [-1, 0, 1, 2, 3]⟩], cps := [5, 6, 7, 8], dimension := 3, rational := true }

/-- curve, surface, `surface.swap()`-like in-place step, `curve.clone()`-like fresh step,
    `curve.evaluate()`-like query, in-place on the curve. -/
def history : List Op :=
  [ .fresh [] [curveSpec, surfSpec],
    .inPlace 1 [] [.swapBases 0 1, .rebindCps [8, 7, 6, 5], .setRec 0 2 (-1) none] true,
    .fresh [0] [curveSpec],
    .query [0] (some [9, 9]),
    .inPlace 0 [2] [.writeCps [4, 4, 4], .writeKnots 0 [0, 0, 0, 2, 2, 2], .rebindBasis 0 4 (-1) [0, 0, 0, 0, 1, 1, 1, 1]] true ]

def heap : Heap := run Heap.empty history

/-- The invariant's hypotheses are satisfiable by a non-trivial heap: three live objects,
    ten buffers, five basis records — checked by evaluation, independently of the theorem. -/
example : heap.objs.length = 3 ∧ wfB heap = true ∧ sepB heap = true := by decide
example : Invariant heap := ⟨wfB_sound (by decide), sepB_sound (by decide)⟩
/-- … and it is what the theorem says. -/
example : Invariant heap := C11_separation_invariant.2.2.2 _ history C11_separation_invariant.1

/-- The in-place steps really write: the receiver's observation changes … -/
example : observeAt heap 0 ≠ observeAt (run Heap.empty (history.take 4)) 0 := by decide
/-- … while the clone made before (handle 2) and the surface (handle 1) observe the same. -/
example : observeAt heap 2 = observeAt (run Heap.empty (history.take 4)) 2
    ∧ observeAt heap 1 = observeAt (run Heap.empty (history.take 4)) 1 := by decide
example : sharingEdges heap = [] ∧ writeSet (run Heap.empty (history.take 4)) heap = [0] := by decide

/-- A step that violates the contracts — handing out a *view* of the operand's control points, the
    unfixed shape of `section()`'s point case (repaired in the library since) — breaks the invariant, shows up in the sharing graph, and
    then a write through the operand IS observed through the result: the premise matters. -/
def aliased : Heap := aliasView heap 0
example : sepB aliased = false ∧ sharingEdges aliased = [(0, 3)] := by decide
example : ¬ Sep aliased := by
  intro s
  have h0 : aliased.objs[0]? = some ⟨[4], 1, 2, false⟩ := by decide
  have h3 : aliased.objs[3]? = some ⟨[], 1, 2, false⟩ := by decide
  exact (s 0 3 _ _ (by decide) h0 h3).1 1 (by decide) (by decide)
example : observeAt (applyPrim aliased 0 (.writeCps [0, 0, 0])) 3 ≠ observeAt aliased 3 := by decide

end C11Examples
