import Mathlib.Tactic.IntervalCases
import Mathlib.Tactic.LinearCombination
import Splipy.Lemmas.C03Dispatch
import Splipy.Lemmas.C03Nonrational
import Splipy.Properties.C01

/-!
# C03 — derivatives are the true partial derivatives of the evaluated map

Model: `Obj.derivativeCall` (dispatch of `Curve.derivative` / `Surface.derivative` on top of
`derivativeGeneric`, `curveDerivativeRational`, `surfaceDerivativeRational`), `Obj.getDerivativeSpline`,
`Obj.tangentRaw`.  Helper lemmas: `Lemmas/C03*.lean`, `Lemmas/QuotientRule.lean`.
-/

open Splipy Splipy.Dispatch

variable {K : Type} [Field K] [LinearOrder K] [FloorRing K]

/-! ## Non-rational objects -/

section nonrational
variable [IsStrictOrderedRing K]

/-- The points of one direction of a call are "good": exact w.r.t. the knot tolerance (a knot or at least
`tol` away from every knot — automatic after snapping when distinct knots are `tol` apart,
`C01_evaluate_snap`), inside the domain, and not the start of a non-periodic direction approached from the
left (there the code returns the zero row, `C01_start_from_left`). -/
def C03_GoodPoints (b : Basis K) (tol : K) (ts : List K) (a : Bool) : Prop :=
  ∀ k, k < ts.length →
    b.ExactAt tol (ts.getD k 0) ∧ b.start ≤ ts.getD k 0 ∧ ts.getD k 0 ≤ b.stop ∧
      (b.periodic = -1 → ¬ (ts.getD k 0 = b.start ∧ a = false))

/-- C01 for the rows of one direction: every entry of `basis.evaluate(t_k, d, side)` is the specification
value `Basis.rowSpec` — the one-sided `d`-th derivative `dB` of the B-spline (non-periodic), the sum of its
wrapped images (periodic) — for EVERY derivative order (orders ≥ the spline order give zero on both sides). -/
theorem C03_rows {b : Basis K} (hv : b.Valid) {tol : K} (htol : 0 < tol) (ts : List K) (d : ℕ) (a : Bool)
    (hpts : C03_GoodPoints b tol ts a) :
    RowsAre b tol ts d a (fun k j => b.rowSpec (ts.getD k 0) a d j) := by
  intro k hk j hj
  obtain ⟨hex, h1, h2, hnot⟩ := hpts k hk
  show (b.evaluate tol (ts.getD k 0) d a).getD j 0 = b.rowSpec (ts.getD k 0) a d j
  unfold Basis.rowSpec
  by_cases hd : d < b.order
  · by_cases hper : b.periodic < 0
    · have hper' : b.periodic = -1 := by have := hv.periodic_ge; omega
      rw [if_pos hper]
      exact C01_value_deriv_open hv hper' htol hex h1 h2 (hnot hper') hd hj
    · rw [if_neg hper]
      exact C01_value_deriv_periodic hv (by omega) htol hex h1 h2 a hd hj
  · have hd' : b.order ≤ d := by omega
    rw [C01_high_derivative_zero b tol _ hd' a]
    have hz : (Array.replicate b.numFunctions (0 : K)).getD j 0 = 0 := by
      unfold Array.getD; split <;> simp
    rw [hz]
    by_cases hper : b.periodic < 0
    · rw [if_pos hper, C01_high_derivative_zero_spec b hv.order_pos _ _ hd']
    · rw [if_neg hper]
      symm
      apply Finset.sum_eq_zero
      intro i _
      exact C01_high_derivative_zero_spec b hv.order_pos _ _ hd' i

/-- **Curves, non-rational** (open or periodic basis).  `derivative(t, d, above)` is
`Σ_j rowSpec_j · P_j`: the `d`-th one-sided derivative of the evaluated map.
PARTIAL only in: tensor-grid form (for a curve `tensor=False` is the same computation), parameters
satisfying `C03_GoodPoints` (snapped, in the domain). -/
theorem C03_nonrational_curve_partial (o : Obj K) (b : Basis K) (hb : o.bases.toList = [b]) (n nc : ℕ)
    (hs : o.cps.shape = [n, nc]) (hn : n = b.numFunctions) (hvb : b.Valid) (tol : K) (htol : 0 < tol)
    (ts ts' : List K) (d : ℕ) (a : Bool) (r : Tensor K) (hr : o.rational = false)
    (hv : o.validateDomain tol [ts] = .ok [ts'])
    (h : o.derivativeGeneric tol [ts] [d] [a] true = .ok r)
    (hpts : C03_GoodPoints b tol ts' a) :
    ∀ k, k < ts'.length → ∀ c, c < nc →
      r.get (k * nc + c) =
        (Finset.range n).sum (fun j => b.rowSpec (ts'.getD k 0) a d j * o.cps.get (j * nc + c)) :=
  Obj.derivative_nonrational_curve o b hb n nc hs hn tol ts ts' d a r hr hv h _
    (C03_rows hvb htol ts' d a hpts)

/-- Non-periodic curve: the sum of `C03_nonrational_curve_partial` is the specification's
`splineDeriv` (side forced to `left` at the end of the domain). -/
theorem C03_nonrational_curve_open (b : Basis K) (hper : b.periodic = -1) (n : ℕ) (P : ℕ → K)
    (t : K) (a : Bool) (d : ℕ) :
    (Finset.range n).sum (fun j => b.rowSpec t a d j * P j) =
      splineDeriv (effSide b t a) b.kn (b.order - 1) n P d t := by
  unfold splineDeriv Basis.rowSpec
  have hlt : b.periodic < 0 := by rw [hper]; decide
  simp only [if_pos hlt]
  apply Finset.sum_congr rfl
  intro j _
  ring

omit [FloorRing K] in
/-- Regrouping wrapped images: `Σ_{j<n} (Σ_{i<N, i ≡ j} f i) P_j = Σ_{i<N} f i · P_{i mod n}`. -/
theorem C03_sum_wrapped (f : ℕ → K) (P : ℕ → K) (n N : ℕ) (hn : 0 < n) :
    (Finset.range n).sum (fun j => ((Finset.range N).filter (fun i => i % n = j)).sum f * P j) =
      (Finset.range N).sum (fun i => f i * P (i % n)) := by
  have h1 : ∀ j ∈ Finset.range n,
      ((Finset.range N).filter (fun i => i % n = j)).sum f * P j =
        (Finset.range N).sum (fun i => if i % n = j then f i * P (i % n) else 0) := by
    intro j _
    rw [Finset.sum_mul, Finset.sum_filter]
    apply Finset.sum_congr rfl
    intro i _
    by_cases h : i % n = j
    · rw [if_pos h, if_pos h, h]
    · rw [if_neg h, if_neg h]
  rw [Finset.sum_congr rfl h1, Finset.sum_comm]
  apply Finset.sum_congr rfl
  intro i _
  rw [Finset.sum_ite_eq, if_pos (Finset.mem_range.mpr (Nat.mod_lt _ hn))]

/-- Periodic curve: the sum of `C03_nonrational_curve_partial` is the derivative of the UNWRAPPED spline
over all `nAll` functions with the wrapped control points `P (i % n)`, at the effective point/side
(the left limit at the seam `start` is the left limit at `stop`). -/
theorem C03_nonrational_curve_periodic (b : Basis K) (hper : 0 ≤ b.periodic) (hn : 0 < b.numFunctions)
    (P : ℕ → K) (t : K) (a : Bool) (d : ℕ) :
    (Finset.range b.numFunctions).sum (fun j => b.rowSpec t a d j * P j) =
      splineDeriv (periodicEff b t a).2 b.kn (b.order - 1) b.nAll (fun i => P (i % b.numFunctions)) d
        (periodicEff b t a).1 := by
  unfold splineDeriv Basis.rowSpec
  have hlt : ¬ b.periodic < 0 := by omega
  simp only [if_neg hlt]
  rw [C03_sum_wrapped _ P b.numFunctions b.nAll hn]
  apply Finset.sum_congr rfl
  intro i _
  ring

/-- **Surfaces, non-rational** (each direction open or periodic), tensor grid: the mixed partial
`Σ_{ij} rowSpec¹_i(u) rowSpec²_j(v) P_{ij}` with per-direction derivative orders and sides.
PARTIAL only in: tensor-grid form, `C03_GoodPoints` parameters. -/
theorem C03_nonrational_surface_partial (o : Obj K) (b1 b2 : Basis K) (hb : o.bases.toList = [b1, b2])
    (n1 n2 nc : ℕ) (hs : o.cps.shape = [n1, n2, nc]) (hn1 : n1 = b1.numFunctions) (hn2 : n2 = b2.numFunctions)
    (hv1 : b1.Valid) (hv2 : b2.Valid) (tol : K) (htol : 0 < tol)
    (us vs us' vs' : List K) (d1 d2 : ℕ) (a1 a2 : Bool) (r : Tensor K) (hr : o.rational = false)
    (hv : o.validateDomain tol [us, vs] = .ok [us', vs'])
    (h : o.derivativeGeneric tol [us, vs] [d1, d2] [a1, a2] true = .ok r)
    (hpu : C03_GoodPoints b1 tol us' a1) (hpv : C03_GoodPoints b2 tol vs' a2) :
    ∀ k1, k1 < us'.length → ∀ k2, k2 < vs'.length → ∀ c, c < nc →
      r.get ((k1 * vs'.length + k2) * nc + c) =
        (Finset.range n1).sum (fun i => b1.rowSpec (us'.getD k1 0) a1 d1 i *
          (Finset.range n2).sum (fun j => b2.rowSpec (vs'.getD k2 0) a2 d2 j *
            o.cps.get ((i * n2 + j) * nc + c))) :=
  Obj.derivative_nonrational_surface o b1 b2 hb n1 n2 nc hs hn1 hn2 tol us vs us' vs' d1 d2 a1 a2 r hr hv h
    _ _ (C03_rows hv1 htol us' d1 a1 hpu) (C03_rows hv2 htol vs' d2 a2 hpv)

/-- **Volumes, non-rational**, tensor grid (same reading). -/
theorem C03_nonrational_volume_partial (o : Obj K) (b1 b2 b3 : Basis K)
    (hb : o.bases.toList = [b1, b2, b3])
    (n1 n2 n3 nc : ℕ) (hs : o.cps.shape = [n1, n2, n3, nc]) (hn1 : n1 = b1.numFunctions)
    (hn2 : n2 = b2.numFunctions) (hn3 : n3 = b3.numFunctions)
    (hv1 : b1.Valid) (hv2 : b2.Valid) (hv3 : b3.Valid) (tol : K) (htol : 0 < tol)
    (us vs ws us' vs' ws' : List K) (d1 d2 d3 : ℕ) (a1 a2 a3 : Bool) (r : Tensor K)
    (hr : o.rational = false)
    (hv : o.validateDomain tol [us, vs, ws] = .ok [us', vs', ws'])
    (h : o.derivativeGeneric tol [us, vs, ws] [d1, d2, d3] [a1, a2, a3] true = .ok r)
    (hpu : C03_GoodPoints b1 tol us' a1) (hpv : C03_GoodPoints b2 tol vs' a2)
    (hpw : C03_GoodPoints b3 tol ws' a3) :
    ∀ k1, k1 < us'.length → ∀ k2, k2 < vs'.length → ∀ k3, k3 < ws'.length → ∀ c, c < nc →
      r.get (((k1 * vs'.length + k2) * ws'.length + k3) * nc + c) =
        (Finset.range n1).sum (fun i => b1.rowSpec (us'.getD k1 0) a1 d1 i *
          (Finset.range n2).sum (fun j => b2.rowSpec (vs'.getD k2 0) a2 d2 j *
            (Finset.range n3).sum (fun k => b3.rowSpec (ws'.getD k3 0) a3 d3 k *
              o.cps.get (((i * n2 + j) * n3 + k) * nc + c)))) :=
  Obj.derivative_nonrational_volume o b1 b2 b3 hb n1 n2 n3 nc hs hn1 hn2 hn3 tol us vs ws us' vs' ws'
    d1 d2 d3 a1 a2 a3 r hr hv h _ _ _ (C03_rows hv1 htol us' d1 a1 hpu) (C03_rows hv2 htol vs' d2 a2 hpv)
    (C03_rows hv3 htol ws' d3 a3 hpw)

end nonrational

/-- The derivative of a non-rational object (any parametric dimension, `tensor` either way) is by
definition the contraction of the control net with the per-direction `Basis.evaluate(·, d_k, side_k)`
matrices. -/
theorem C03_nonrational_is_contraction (o : Obj K) (tol : K) (params : List (List K)) (derivs : List ℕ)
    (above : List Bool) (tensor : Bool) (r : Tensor K) (hr : o.rational = false)
    (h : o.derivativeGeneric tol params derivs above tensor = .ok r) :
    ∃ ps, o.validateDomain tol params = .ok ps ∧ r = o.homJet tol ps derivs above tensor :=
  Obj.derivativeGeneric_nonrational o tol params derivs above tensor r hr h

/-! ## Rational objects -/

/-- **Order zero** (`derivative(…, d=0)` / `d=(0,…,0)` on a rational object, every parametric dimension,
`tensor` either way): the returned entry is the homogeneous coordinate divided by the weight, both taken
from the requested sides — the point itself (`x₀` whenever `n = x₀·W`, `W ≠ 0`). -/
theorem C03_rational_order_zero (o : Obj K) (tol : K) (params : List (List K)) (derivs : List ℕ)
    (above : List Bool) (tensor : Bool) (r : Tensor K) (hr : o.rational = true) (h0 : derivs.sum = 0)
    (h : o.derivativeGeneric tol params derivs above tensor = .ok r) :
    ∃ ps, o.validateDomain tol params = .ok ps ∧
      ∀ pI c, c < o.dimension → pI < (o.homJet tol ps derivs above tensor).size / o.ncomp →
        ∀ x0 : K,
          let N := o.homJet tol ps derivs above tensor
          N.get (pI * o.ncomp + o.dimension) ≠ 0 →
          N.get (pI * o.ncomp + c) = x0 * N.get (pI * o.ncomp + o.dimension) →
          r.get (pI * o.dimension + c) = x0 := by
  obtain ⟨ps, hps, hget⟩ := Obj.derivativeGeneric_rational_zero_get o tol params derivs above tensor r hr h0 h
  refine ⟨ps, hps, ?_⟩
  intro pI c hc hpI x0 N hW hn
  rw [hget pI c hc hpI]
  show N.get (pI * o.ncomp + c) / N.get (pI * o.ncomp + o.dimension) = x0
  rw [hn]
  field_simp

/-- **Generic quotient-rule branch** (`SplineObject.derivative`, rational, total order 1, every parametric
dimension, `tensor` either way).  A successful call of non-zero order has total order exactly 1, and wherever
the homogeneous jets `N = Σ Π B · P` (order 0) and `D = Σ Π dB · P` (the requested order) — BOTH from the
requested sides — satisfy the Leibniz relations of `n = x·W` at a point, the returned entry is the jet
component `x₁` of the quotient. -/
theorem C03_rational_first (o : Obj K) (tol : K) (params : List (List K)) (derivs : List ℕ)
    (above : List Bool) (tensor : Bool) (r : Tensor K) (hr : o.rational = true) (hne : derivs.sum ≠ 0)
    (h : o.derivativeGeneric tol params derivs above tensor = .ok r) :
    derivs.sum = 1 ∧ ∃ ps, o.validateDomain tol params = .ok ps ∧
      ∀ pI c, c < o.dimension → pI < (o.homJet tol ps derivs above tensor).size / o.ncomp →
        ∀ x0 x1 : K,
          let N := o.homJet tol ps (above.map fun _ => 0) above tensor
          let D := o.homJet tol ps derivs above tensor
          N.get (pI * o.ncomp + o.dimension) ≠ 0 →
          N.get (pI * o.ncomp + c) = x0 * N.get (pI * o.ncomp + o.dimension) →
          D.get (pI * o.ncomp + c) =
            x1 * N.get (pI * o.ncomp + o.dimension) + x0 * D.get (pI * o.ncomp + o.dimension) →
          r.get (pI * o.dimension + c) = x1 := by
  obtain ⟨hsum, ps, hps, hget⟩ := Obj.derivativeGeneric_rational_get o tol params derivs above tensor r hr hne h
  refine ⟨hsum, ps, hps, ?_⟩
  intro pI c hc hpI x0 x1 N D hW h0 h1
  rw [hget pI c hc hpI]
  exact RatDeriv.first_correct hW h0 h1

/-- **Unsupported rational orders raise**: for a rational object the generic method never returns
numbers for total order > 1 … -/
theorem C03_rational_refuses (o : Obj K) (tol : K) (params : List (List K)) (derivs : List ℕ)
    (above : List Bool) (tensor : Bool) (hr : o.rational = true) (hd : 1 < derivs.sum) (r : Tensor K) :
    o.derivativeGeneric tol params derivs above tensor ≠ .ok r :=
  Obj.derivativeGeneric_rational_refuses o tol params derivs above tensor hr hd r

/-- … and when the parameters are valid the error is `RuntimeError`. -/
theorem C03_rational_refuses_runtime (o : Obj K) (tol : K) (params : List (List K)) (derivs : List ℕ)
    (above : List Bool) (tensor : Bool) (hr : o.rational = true) (hd : 1 < derivs.sum)
    (ps : List (List K)) (hps : o.validateDomain tol params = .ok ps)
    (ht : tensor = true ∨ (params.map List.length).eraseDups.length = 1) :
    o.derivativeGeneric tol params derivs above tensor = .error .runtime :=
  Obj.derivativeGeneric_rational_runtime o tol params derivs above tensor hr hd ps hps ht

/-- **`Curve.derivative`, rational, d = 2 and d = 3.**  With the homogeneous jets
`J_k = basis.evaluate(t, k, side) @ controlpoints`, ALL from the requested side (`J_0` included): wherever
they satisfy the Leibniz relations of `n = x·W` up to order `d`, the returned entry is `x_d`. -/
theorem C03_rational_curve_2_3 (o : Obj K) (tol : K) (ts : List K) (above : Bool) (pI c : ℕ)
    (hc : c < o.dimension) (hpI : pI < ts.length) (x0 x1 x2 x3 : K) :
    let n (k : ℕ) := (o.curveJet tol ts k above).get (pI * o.ncomp + c)
    let W (k : ℕ) := (o.curveJet tol ts k above).get (pI * o.ncomp + o.dimension)
    W 0 ≠ 0 → n 0 = x0 * W 0 → n 1 = x1 * W 0 + x0 * W 1 →
    n 2 = x2 * W 0 + 2 * x1 * W 1 + x0 * W 2 →
    ((o.curveDerivativeRational tol ts 2 above).get (pI * o.dimension + c) = x2) ∧
    (n 3 = x3 * W 0 + 3 * x2 * W 1 + 3 * x1 * W 2 + x0 * W 3 →
      (o.curveDerivativeRational tol ts 3 above).get (pI * o.dimension + c) = x3) := by
  intro n W hW h0 h1 h2
  constructor
  · rw [Obj.curveDerivativeRational_get_two o tol ts above pI c hc hpI]
    exact RatDeriv.curveD2_correct hW h0 h1 h2
  · intro h3
    rw [Obj.curveDerivativeRational_get_three o tol ts above pI c hc hpI]
    exact RatDeriv.curveD3_correct hW h0 h1 h2 h3

/-- **`Surface.derivative`, rational, total order 2 and 3** (tensor grid; per-direction sides `frU`, `frV`).
The call succeeds, and wherever the ten homogeneous jets of numerator component and weight satisfy the
Leibniz relations of `n = x·W` (`SurfLeibniz`), the returned entry is the mixed partial `x_{du,dv}` of the
quotient. -/
theorem C03_rational_surface_2_3 (o : Obj K) (tol : K) (us vs : List K) (du dv : ℕ) (frU frV : Bool)
    (h2 : 2 ≤ du + dv) (h3 : du + dv ≤ 3) :
    ∃ r, o.surfaceDerivativeRational tol us vs du dv frU frV true = .ok r ∧
      ∀ pI c, c < o.dimension → pI < us.length * vs.length → ∀ x : RatDeriv.SurfJet K,
        (o.surfJetAt tol us vs frU frV pI o.dimension).f00 ≠ 0 →
        RatDeriv.SurfLeibniz (o.surfJetAt tol us vs frU frV pI c) x (o.surfJetAt tol us vs frU frV pI o.dimension) →
        r.get (pI * o.dimension + c) = x.get du dv := by
  obtain ⟨r, hr, hget⟩ := Obj.surfaceDerivativeRational_get o tol us vs du dv frU frV h2 h3
  refine ⟨r, hr, ?_⟩
  intro pI c hc hpI x hW hL
  exact RatDeriv.surfD_correct hW hL du dv _ (hget pI c hc hpI)

/-! ## Dispatch -/

/-- **Dispatch, curves.**  Let `f` be a dispatch function (in the check: the table translated from the
current source of `Curve.derivative`) that is sound at the call (`f rational d = expected rational idx`,
discharged for the generated table by `Generated.C03Obligations` through `soundOn_spec`).  Then the call
computes the proved closed form of its multi-index — from the side `above` (or `above[0]` for a sequence;
IndexError for an empty one) — when the object is rational of order 2–3, and the generic method on that
multi-index otherwise (which refuses rational orders > 1, `C03_rational_refuses`). -/
theorem C03_dispatch_curve (f : Bool → DSpec → Outcome) (o : Obj K) (tol : K) (ts : List K) (d : DSpec)
    (idx : List ℕ) (above : ASpec) (tensor : Bool) (hm : meaning 1 d = some idx)
    (hf : f o.rational d = expected o.rational idx) :
    o.curveDerivativeWith f tol ts d above tensor =
      if o.rational = true ∧ 2 ≤ idx.sum ∧ idx.sum ≤ 3 then
        (match above.selfOrHead with
         | none => .error .index
         | some a => .ok (o.curveDerivativeRational tol ts (idx.getD 0 0) a))
      else o.derivativeGeneric tol [ts] idx (above.norm 1) tensor := by
  have hlen : ∃ n, idx = [n] := by
    cases d with
    | int n => exact ⟨n, by simpa [meaning] using hm.symm⟩
    | tup l =>
      simp only [meaning] at hm
      split at hm
      · rename_i hl
        injection hm with hm; subst hm
        match l, hl with
        | [n], _ => exact ⟨n, rfl⟩
      · exact absurd hm (by simp)
    | lst l =>
      simp only [meaning] at hm
      split at hm
      · rename_i hl
        injection hm with hm; subst hm
        match l, hl with
        | [n], _ => exact ⟨n, rfl⟩
      · exact absurd hm (by simp)
  obtain ⟨n, rfl⟩ := hlen
  unfold Obj.curveDerivativeWith
  rw [hf]
  unfold expected
  have hsum : [n].sum = n := by simp
  rw [hsum]
  by_cases hc : o.rational = true ∧ 2 ≤ n ∧ n ≤ 3
  · rw [if_pos hc]
    obtain ⟨h1, h2, h3⟩ := hc
    simp only [h1, h2, h3, decide_true, Bool.and_self, if_true, List.getD_cons_zero]
    cases above.selfOrHead <;> rfl
  · rw [if_neg hc]
    have : (o.rational && decide (2 ≤ n) && decide (n ≤ 3)) = false := by
      rw [Bool.eq_false_iff]
      intro h
      apply hc
      simpa [Bool.and_eq_true, and_assoc] using h
    rw [this]
    simp

/-- **Dispatch, surfaces** (same reading as `C03_dispatch_curve`; sides `above[0]`, `above[1]` of the
normalised `above`; the `ValueError` is `einsum` rejecting `tensor=False` with different numbers of `u` and `v`). -/
theorem C03_dispatch_surface (f : Bool → DSpec → Outcome) (o : Obj K) (tol : K) (us vs : List K)
    (d : DSpec) (idx : List ℕ) (above : ASpec) (tensor : Bool) (hm : meaning 2 d = some idx)
    (hf : f o.rational d = expected o.rational idx) :
    o.surfaceDerivativeWith f tol us vs d above tensor =
      if o.rational = true ∧ 2 ≤ idx.sum ∧ idx.sum ≤ 3 then
        (match above.norm 2 with
         | fu :: fv :: _ =>
           if !tensor ∧ us.length ≠ vs.length then .error .value
           else o.surfaceDerivativeRational tol us vs (idx.getD 0 0) (idx.getD 1 0) fu fv tensor
         | _ => .error .index)
      else o.derivativeGeneric tol [us, vs] idx (above.norm 2) tensor := by
  have hlen : ∃ a b, idx = [a, b] := by
    cases d with
    | int n => exact ⟨n, n, by simpa [meaning, List.replicate] using hm.symm⟩
    | tup l =>
      simp only [meaning] at hm
      split at hm
      · rename_i hl
        injection hm with hm; subst hm
        match l, hl with
        | [a, b], _ => exact ⟨a, b, rfl⟩
      · exact absurd hm (by simp)
    | lst l =>
      simp only [meaning] at hm
      split at hm
      · rename_i hl
        injection hm with hm; subst hm
        match l, hl with
        | [a, b], _ => exact ⟨a, b, rfl⟩
      · exact absurd hm (by simp)
  obtain ⟨a, b, rfl⟩ := hlen
  unfold Obj.surfaceDerivativeWith
  simp only [ASpec.norm_idem]
  rw [hf]
  unfold expected
  have hsum : [a, b].sum = a + b := by simp
  rw [hsum]
  by_cases hc : o.rational = true ∧ 2 ≤ a + b ∧ a + b ≤ 3
  · rw [if_pos hc]
    obtain ⟨h1, h2, h3⟩ := hc
    simp only [h1, h2, h3, decide_true, Bool.and_self, if_true]
    rcases above.norm 2 with _ | ⟨fu, _ | ⟨fv, tl⟩⟩ <;> rfl
  · rw [if_neg hc]
    have : (o.rational && decide (2 ≤ a + b) && decide (a + b ≤ 3)) = false := by
      rw [Bool.eq_false_iff]
      intro h
      apply hc
      simpa [Bool.and_eq_true, and_assoc] using h
    rw [this]
    simp

/-- **Dispatch: unsupported orders raise.**  Under a sound dispatch a rational curve or surface asked for
a total order above 3 never returns numbers. -/
theorem C03_dispatch_unsupported_raises (f : Bool → DSpec → Outcome) (o : Obj K) (tol : K) (us vs : List K)
    (d : DSpec) (idx : List ℕ) (above : ASpec) (tensor : Bool) (hr : o.rational = true)
    (hbig : 3 < idx.sum) (r : Tensor K) :
    (meaning 1 d = some idx → f o.rational d = expected o.rational idx →
      o.curveDerivativeWith f tol us d above tensor ≠ .ok r) ∧
    (meaning 2 d = some idx → f o.rational d = expected o.rational idx →
      o.surfaceDerivativeWith f tol us vs d above tensor ≠ .ok r) := by
  constructor
  · intro hm hf
    rw [C03_dispatch_curve f o tol us d idx above tensor hm hf, if_neg (by omega)]
    exact Obj.derivativeGeneric_rational_refuses o tol _ idx _ tensor hr (by omega) r
  · intro hm hf
    rw [C03_dispatch_surface f o tol us vs d idx above tensor hm hf, if_neg (by omega)]
    exact Obj.derivativeGeneric_rational_refuses o tol _ idx _ tensor hr (by omega) r

/-- **C03_dispatch** (source-derived form).  `fc`, `fs` are the dispatch functions of `Curve.derivative` and
`Surface.derivative` — in the check they are `Generated.C03.curveTable.outcome` / `surfaceTable.outcome`,
translated from the current source on every run — and `soundOn … = true` are exactly the generated
obligations `C03_dispatch_{curve,surface}_sound_{int,tuple,list}` (decided by evaluation over all spellings
with entries ≤ 5 resp. ≤ 4).  Conclusion: for every such spelling of every multi-index the call computes the
closed form PROVED for that multi-index (`C03_rational_curve_2_3`, `C03_rational_surface_2_3`) when the object
is rational of total order 2–3, and otherwise the generic method on that multi-index (`C03_nonrational_*`,
`C03_rational_order_zero`, `C03_rational_first`; rational total order > 1 raises, `C03_rational_refuses`). -/
theorem C03_dispatch (fc fs : Bool → DSpec → Outcome) (dsc dss : List DSpec)
    (hc : soundOn fc 1 dsc = true) (hs : soundOn fs 2 dss = true)
    (o : Obj K) (tol : K) (us vs : List K) (d : DSpec) (idx : List ℕ) (above : ASpec) (tensor : Bool) :
    (d ∈ dsc → meaning 1 d = some idx →
      o.curveDerivativeWith fc tol us d above tensor =
        if o.rational = true ∧ 2 ≤ idx.sum ∧ idx.sum ≤ 3 then
          (match above.selfOrHead with
           | none => .error .index
           | some a => .ok (o.curveDerivativeRational tol us (idx.getD 0 0) a))
        else o.derivativeGeneric tol [us] idx (above.norm 1) tensor) ∧
    (d ∈ dss → meaning 2 d = some idx →
      o.surfaceDerivativeWith fs tol us vs d above tensor =
        if o.rational = true ∧ 2 ≤ idx.sum ∧ idx.sum ≤ 3 then
          (match above.norm 2 with
           | fu :: fv :: _ =>
             if !tensor ∧ us.length ≠ vs.length then .error .value
             else o.surfaceDerivativeRational tol us vs (idx.getD 0 0) (idx.getD 1 0) fu fv tensor
           | _ => .error .index)
        else o.derivativeGeneric tol [us, vs] idx (above.norm 2) tensor) := by
  constructor
  · intro hd hm
    exact C03_dispatch_curve fc o tol us d idx above tensor hm (soundOn_spec hc hd hm o.rational)
  · intro hd hm
    exact C03_dispatch_surface fs o tol us vs d idx above tensor hm (soundOn_spec hs hd hm o.rational)

/-- **The dispatch of `Curve.derivative` is sound for every spelling** (int, one-element tuple or list). -/
theorem C03_dispatch_pinned_curve (r : Bool) (d : DSpec) (idx : List ℕ) (hm : meaning 1 d = some idx) :
    curveOutcome r d = expected r idx := by
  have key : ∀ n : ℕ, (if (!r || decide (n < 2) || decide (n > 3)) = true then Outcome.generic [n]
      else Outcome.closed [n]) = expected r [n] := by
    intro n
    unfold expected
    cases r <;> by_cases h2 : n < 2 <;> by_cases h3 : n > 3 <;> simp [h2, h3] <;> omega
  cases d with
  | int n =>
    have : idx = [n] := by simpa [meaning] using hm.symm
    subst this
    simpa [curveOutcome, DSpec.isSingleton, DSpec.items, DSpec.ensureListlike] using key n
  | tup l =>
    simp only [meaning] at hm
    split at hm
    · rename_i hl
      injection hm with hm; subst hm
      match l, hl with
      | [n], _ => simpa [curveOutcome, DSpec.isSingleton, DSpec.head?, DSpec.items, DSpec.ensureListlike] using key n
    · exact absurd hm (by simp)
  | lst l =>
    simp only [meaning] at hm
    split at hm
    · rename_i hl
      injection hm with hm; subst hm
      match l, hl with
      | [n], _ => simpa [curveOutcome, DSpec.isSingleton, DSpec.head?, DSpec.items, DSpec.ensureListlike] using key n
    · exact absurd hm (by simp)

/-- The dispatch of `Surface.derivative` on a two-element tuple. -/
theorem C03_dispatch_pinned_surface_tuple (r : Bool) (a b : ℕ) :
    surfaceOutcome r (.tup [a, b]) = expected r [a, b] := by
  cases r
  · simp [surfaceOutcome, expected, DSpec.ensureListlike, DSpec.items, DSpec.toTuple]
  · by_cases h : 2 ≤ a + b ∧ a + b ≤ 3
    · obtain ⟨h2, h3⟩ := h
      have ha : a ≤ 3 := by omega
      have hb : b ≤ 3 := by omega
      interval_cases a <;> interval_cases b <;> first | omega | decide
    · have he : (decide (2 ≤ a + b) && decide (a + b ≤ 3)) = false := by
        rw [Bool.eq_false_iff]
        intro hh
        rw [Bool.and_eq_true, decide_eq_true_eq, decide_eq_true_eq] at hh
        exact h hh
      simp [surfaceOutcome, expected, DSpec.ensureListlike, DSpec.items, DSpec.toTuple, he]
      intro h1 h2
      exact absurd ⟨by omega, h2⟩ h

/-- **The dispatch of `Surface.derivative` is sound for every spelling** of `d` — int (replicated), tuple,
list — since `derivs = tuple(ensure_listlike(d, pardim))` (commit cd5762c). -/
theorem C03_dispatch_pinned_surface (r : Bool) (d : DSpec) (idx : List ℕ) (hm : meaning 2 d = some idx) :
    surfaceOutcome r d = expected r idx := by
  cases d with
  | int n =>
    have : idx = [n, n] := by simpa [meaning, List.replicate] using hm.symm
    subst this
    have e : surfaceOutcome r (.int n) = surfaceOutcome r (.tup [n, n]) := rfl
    rw [e]; exact C03_dispatch_pinned_surface_tuple r n n
  | tup l =>
    simp only [meaning] at hm
    split at hm
    · rename_i hl
      injection hm with hm; subst hm
      match l, hl with
      | [a, b], _ => exact C03_dispatch_pinned_surface_tuple r a b
    · exact absurd hm (by simp)
  | lst l =>
    simp only [meaning] at hm
    split at hm
    · rename_i hl
      injection hm with hm; subst hm
      match l, hl with
      | [a, b], _ =>
        have e : surfaceOutcome r (.lst [a, b]) = surfaceOutcome r (.tup [a, b]) := rfl
        rw [e]; exact C03_dispatch_pinned_surface_tuple r a b
    · exact absurd hm (by simp)

/-- The shape of the repaired defect (before cd5762c `derivs` stayed a list, and a list never equals a tuple
literal): the un-fixed dispatch sends `d=[2,0]` and `d=1` of a rational surface to the zero-initialised array. -/
example : surfaceOutcomeUnfixed true (.lst [2, 0]) = .zeros ∧ expected true [2, 0] = .closed [2, 0] := by decide
example : surfaceOutcomeUnfixed true (.int 1) = .zeros ∧ expected true [1, 1] = .closed [1, 1] := by decide
example : surfaceOutcome true (.lst [2, 0]) = .closed [2, 0] ∧ surfaceOutcome true (.int 1) = .closed [1, 1] := by decide

/-- What the executable model (`Obj.derivativeCall`, run by the correspondence check) computes for a curve,
for EVERY documented spelling of `d`: the proved closed form for rational order 2–3, else the generic method. -/
theorem C03_derivativeCall_curve (o : Obj K) (tol : K) (ts : List K) (d : DSpec) (idx : List ℕ)
    (above : ASpec) (tensor : Bool) (hm : meaning 1 d = some idx) :
    o.derivativeCall tol [ts] d above tensor =
      if o.rational = true ∧ 2 ≤ idx.sum ∧ idx.sum ≤ 3 then
        (match above.selfOrHead with
         | none => .error .index
         | some a => .ok (o.curveDerivativeRational tol ts (idx.getD 0 0) a))
      else o.derivativeGeneric tol [ts] idx (above.norm 1) tensor :=
  C03_dispatch_curve curveOutcome o tol ts d idx above tensor hm (C03_dispatch_pinned_curve o.rational d idx hm)

/-- Same for a surface, for EVERY documented spelling of `d` (int, tuple, list). -/
theorem C03_derivativeCall_surface (o : Obj K) (tol : K) (us vs : List K) (d : DSpec) (idx : List ℕ)
    (above : ASpec) (tensor : Bool) (hm : meaning 2 d = some idx) :
    o.derivativeCall tol [us, vs] d above tensor =
      if o.rational = true ∧ 2 ≤ idx.sum ∧ idx.sum ≤ 3 then
        (match above.norm 2 with
         | fu :: fv :: _ =>
           if !tensor ∧ us.length ≠ vs.length then .error .value
           else o.surfaceDerivativeRational tol us vs (idx.getD 0 0) (idx.getD 1 0) fu fv tensor
         | _ => .error .index)
      else o.derivativeGeneric tol [us, vs] idx (above.norm 2) tensor :=
  C03_dispatch_surface surfaceOutcome o tol us vs d idx above tensor hm
    (C03_dispatch_pinned_surface o.rational d idx hm)

/-- Per-direction sides: with `above` a bool `b` the closed forms use `(b, b)`, with a pair `[a₁, a₂]` they use
`(a₁, a₂)` — the property's "one-sided limit selected by `above`" per direction. -/
theorem C03_above_sides (b a1 a2 : Bool) :
    (ASpec.bool b).norm 2 = [b, b] ∧ (ASpec.seq [a1, a2]).norm 2 = [a1, a2] ∧
    (ASpec.bool b).selfOrHead = some b ∧ (ASpec.seq [a1]).selfOrHead = some a1 := by
  refine ⟨rfl, rfl, rfl, rfl⟩

/-! ## Derivative spline -/

/-- **Derivative spline (non-rational, any direction, clamped ends).**  For coefficients `c` (one line of
the control net along the differentiated direction) the spline on `τ[1:]` of one degree less with
coefficients `(q+1)(c_{j+1} − c_j)/(τ_{j+q+2} − τ_{j+1})` evaluates, at EVERY `t` and for both sides, to the
first derivative of the original. -/
theorem C03_derivative_spline {K : Type} [Field K] [LinearOrder K] (s : Side) (τ : ℕ → K) (q N : ℕ)
    (c : ℕ → K) (t : K) (h0 : τ (q+1) = τ 0) (hN : τ (N+1+q+1) = τ (N+1)) :
    splineDeriv s τ (q+1) (N+1) c 1 t = splineVal s (shiftKnots τ) q N (dsplineCoef τ q c) t :=
  splineDeriv_one_eq_splineVal_clamped s τ q N c t h0 hN

/-- Same for any non-decreasing knot vector (non-open ends, unwrapped periodic) for parameters in the
domain, and for all higher derivatives: the `e`-th derivative of the derivative spline is the `(e+1)`-th
derivative of the original whenever the two boundary terms vanish. -/
theorem C03_derivative_spline_domain {K : Type} [Field K] [LinearOrder K] [IsStrictOrderedRing K]
    (s : Side) (τ : ℕ → K) (hτ : Monotone τ) (q N : ℕ) (c : ℕ → K) (t : K)
    (ht : match s with
          | .right => τ (q+1) ≤ t ∧ t < τ (N+1)
          | .left => τ (q+1) < t ∧ t ≤ τ (N+1)) :
    splineDeriv s τ (q+1) (N+1) c 1 t = splineVal s (shiftKnots τ) q N (dsplineCoef τ q c) t :=
  splineDeriv_one_eq_splineVal_domain s τ hτ q N c t ht

theorem C03_derivative_spline_higher {K : Type} [Field K] [LinearOrder K] (s : Side) (τ : ℕ → K)
    (q N e : ℕ) (c : ℕ → K) (t : K)
    (h0 : τ (q+1) = τ 0 ∨ dB s τ q 0 e t = 0)
    (hN : τ (N+1+q+1) = τ (N+1) ∨ dB s τ q (N+1) e t = 0) :
    splineDeriv s τ (q+1) (N+1) c (e+1) t = splineDeriv s (shiftKnots τ) q N (dsplineCoef τ q c) e t :=
  splineDeriv_succ_eq s τ q N e c t h0 hN

/-- **Periodic variant** (`C[i,(i+1) % n]`): wrapped control points `P (i % n)` over the unwrapped functions,
ghost knots repeating with period `T`. -/
theorem C03_derivative_spline_periodic {K : Type} [Field K] [LinearOrder K] [IsStrictOrderedRing K]
    (s : Side) (τ : ℕ → K) (hτ : Monotone τ) (q N n : ℕ) (T : K) (P : ℕ → K) (t : K)
    (hper : ∀ i, i + n ≤ N + q + 2 → τ (i + n) = τ i + T)
    (ht : match s with
          | .right => τ (q+1) ≤ t ∧ t < τ (N+1)
          | .left => τ (q+1) < t ∧ t ≤ τ (N+1)) :
    splineDeriv s τ (q+1) (N+1) (fun i => P (i % n)) 1 t =
      splineVal s (shiftKnots τ) q N (fun j => dsplineCoefPeriodic τ q n P (j % n)) t :=
  splineDeriv_one_eq_splineVal_periodic s τ hτ q N n T P t hper ht

/-- **The model's `get_derivative_spline` builds exactly that spline**: new order `p−1`, knots `knots[1:-1]`
(so `kn j = τ_{j+1}`), periodicity `k−1`, control net = the difference matrix applied along the direction, and
each row of the difference matrix computes `p(v_{j+1} − v_j)/(τ_{j+p+1} − τ_{j+1})`
(`v_{(j+1) % n}` for periodic directions). -/
theorem C03_derivative_spline_model (o o' : Obj K) (tol : K) (dir : ℕ)
    (h : o.getDerivativeSpline tol dir = .ok o') :
    o.rational = false ∧ dir < o.pardim ∧ o'.rational = false ∧
    o'.cps = Tensor.applyAxis (Obj.derivativeMatrix (o.basis dir) (o.cps.shape.getD dir 0)) o.cps dir ∧
    (∃ nb : Basis K, o'.bases = o.bases.set! dir nb ∧ nb.order = (o.basis dir).order - 1 ∧
      nb.periodic = max ((o.basis dir).periodic - 1) (-1) ∧
      ∀ j, j + 2 < (o.basis dir).knots.size → nb.kn j = shiftKnots (o.basis dir).kn j) ∧
    (∀ (n j : ℕ) (v : ℕ → K), (o.basis dir).periodic < 0 → j + 1 < n →
      (List.range n).foldl (fun acc i => acc +
          ((Obj.derivativeMatrix (o.basis dir) n).getD j #[]).getD i 0 * v i) 0
        = Obj.dsCoef (o.basis dir) j * (v (j + 1) - v j)) ∧
    (∀ (n j : ℕ) (v : ℕ → K), ¬ (o.basis dir).periodic < 0 → j < n → 2 ≤ n →
      (List.range n).foldl (fun acc i => acc +
          ((Obj.derivativeMatrix (o.basis dir) n).getD j #[]).getD i 0 * v i) 0
        = Obj.dsCoef (o.basis dir) j * (v ((j + 1) % n) - v j)) := by
  obtain ⟨h1, h2, h3, h4, nb, h5, h6, h7, h8⟩ := getDerivativeSpline_ok o o' tol dir h
  refine ⟨h1, h2, h3, h4, ⟨nb, h5, h6, h8, ?_⟩, ?_, ?_⟩
  · intro j hj
    exact extract_kn (o.basis dir) nb h7 j hj
  · intro n j v hper hj
    exact derivativeMatrix_row (o.basis dir) n j hper hj v
  · intro n j v hper hj hn
    exact derivativeMatrix_row_periodic (o.basis dir) n j hper hj hn v

/-! ## Tangents -/

/-- **The tangent is the first derivative** (before the division by the speed): for curves and surfaces
the call made by `tangent` always reaches the generic method with the unit multi-index and the
per-direction sides — for rational objects too (total order 1: first-order quotient rule,
`C03_rational_first`). -/
theorem C03_tangent_is_first_derivative (o : Obj K) (tol : K) (us vs : List K) (above : ASpec) (tensor : Bool) :
    (o.pardim = 1 → o.tangentRaw tol [us] 0 above tensor =
        o.derivativeGeneric tol [us] [1] (above.norm 1) tensor) ∧
    (o.pardim = 2 → o.tangentRaw tol [us, vs] 0 above tensor =
        o.derivativeGeneric tol [us, vs] [1, 0] (above.norm 2) tensor) ∧
    (o.pardim = 2 → o.tangentRaw tol [us, vs] 1 above tensor =
        o.derivativeGeneric tol [us, vs] [0, 1] (above.norm 2) tensor) := by
  refine ⟨?_, ?_, ?_⟩
  · intro hp
    unfold Obj.tangentRaw Obj.derivativeCall
    rw [hp]
    have : ∀ r, curveOutcome r (.lst [1]) = .generic [1] := by decide
    simp [Obj.curveDerivativeWith, List.range, List.range.loop, this, ASpec.norm_idem]
  · intro hp
    unfold Obj.tangentRaw Obj.derivativeCall
    rw [hp]
    have : ∀ r, surfaceOutcome r (.lst [1, 0]) = .generic [1, 0] := by decide
    simp [Obj.surfaceDerivativeWith, List.range, List.range.loop, this, ASpec.norm_idem]
  · intro hp
    unfold Obj.tangentRaw Obj.derivativeCall
    rw [hp]
    have : ∀ r, surfaceOutcome r (.lst [0, 1]) = .generic [0, 1] := by decide
    simp [Obj.surfaceDerivativeWith, List.range, List.range.loop, this, ASpec.norm_idem]

/-- **Normalisation algebra** used by `tangent` / `normal` (stated with `s² = ‖v‖²`, no square roots):
dividing a vector by `s` with `s² = ‖v‖²`, `s ≠ 0` gives a unit vector; the cross product of two rescaled
vectors is the rescaled cross product (so `normal` = normalised `∂u × ∂v`, and the model's un-normalised
vectors determine the same directions). -/
theorem C03_tangent_normal_algebra {K : Type} [Field K] (a1 a2 a3 b1 b2 b3 s1 s2 : K)
    (h1 : s1 ≠ 0) (h2 : s2 ≠ 0) :
    (s1 * s1 = a1*a1 + a2*a2 + a3*a3 → (a1/s1)*(a1/s1) + (a2/s1)*(a2/s1) + (a3/s1)*(a3/s1) = 1) ∧
    ((a2/s1)*(b3/s2) - (a3/s1)*(b2/s2) = (a2*b3 - a3*b2)/(s1*s2)) ∧
    ((a3/s1)*(b1/s2) - (a1/s1)*(b3/s2) = (a3*b1 - a1*b3)/(s1*s2)) ∧
    ((a1/s1)*(b2/s2) - (a2/s1)*(b1/s2) = (a1*b2 - a2*b1)/(s1*s2)) := by
  refine ⟨?_, ?_, ?_, ?_⟩
  · intro h
    field_simp
    linear_combination -h
  · field_simp
  · field_simp
  · field_simp

/-! ## The hypotheses are satisfiable -/

/-- Leibniz relations of first order: whenever `W ≠ 0` a (unique) quotient jet exists. -/
example (n0 n1 W W1 : ℚ) (hW : W ≠ 0) : ∃ x0 x1 : ℚ, n0 = x0 * W ∧ n1 = x1 * W + x0 * W1 :=
  ⟨n0 / W, (n1 - n0 / W * W1) / W, by field_simp, by field_simp; ring⟩

/-- … of second order. -/
example (n0 n1 n2 W W1 W2 : ℚ) (hW : W ≠ 0) :
    ∃ x0 x1 x2 : ℚ, n0 = x0 * W ∧ n1 = x1 * W + x0 * W1 ∧ n2 = x2 * W + 2 * x1 * W1 + x0 * W2 :=
  ⟨n0 / W, (n1 - n0 / W * W1) / W, (n2 - 2 * ((n1 - n0 / W * W1) / W) * W1 - n0 / W * W2) / W,
    by field_simp, by field_simp; ring, by field_simp; ring⟩

/-- Clamped quadratic knot vector `[0,0,0,1,1,1]` (q = 1, N = 2) satisfies the end conditions of
`C03_derivative_spline`. -/
example : let τ : ℕ → ℚ := fun i => if i < 3 then 0 else 1
    τ (1 + 1) = τ 0 ∧ τ (2 + 1 + 1 + 1) = τ (2 + 1) := by
  simp

/-- Sound dispatch functions exist: the curve and the surface dispatch on all their spellings. -/
example : soundOn curveOutcome 1 (ints 5 ++ tuples 1 5 ++ lists 1 5) = true := by decide
example : soundOn surfaceOutcome 2 (ints 4 ++ tuples 2 4 ++ lists 2 4) = true := by decide

/-- `C03_GoodPoints` is satisfiable (the open example basis of C01, `t = 1/2`, from the right). -/
example : C03_GoodPoints (K := ℚ) C01_exOpen (1/1000) [1/2] true := by
  intro k hk
  have hk0 : k = 0 := by simpa using hk
  subst hk0
  refine ⟨by simpa using C01_exOpen_exact_half, ?_, ?_, ?_⟩
  · rw [C01_exOpen_start]; norm_num
  · rw [C01_exOpen_stop]; norm_num
  · intro _ h; exact absurd h.2 (by decide)
