import Mathlib.Tactic.IntervalCases
import Mathlib.Tactic.LinearCombination
import Splipy.Lemmas.C03Dispatch
import Splipy.Lemmas.C03Nonrational
import Splipy.Properties.C01
import Splipy.Properties.C02
import Splipy.Lemmas.C03Real
import Splipy.Lemmas.C03RealModel
import Splipy.Lemmas.C03DerivSplineObj
import Splipy.Lemmas.C03DerivSplineExist
import Splipy.Lemmas.Smooth
import Splipy.Lemmas.C03Frame
import Mathlib.Analysis.Real.Sqrt
import Mathlib.Algebra.Order.Archimedean.Real.Basic

/-!
# C03 — derivatives are the true partial derivatives of the evaluated map

Model: `Obj.derivativeCall` (dispatch of `Curve.derivative` / `Surface.derivative` on top of
`derivativeGeneric`, `curveDerivativeRational`, `surfaceDerivativeRational`), `Obj.getDerivativeSpline`,
`Obj.tangentRaw`.  Helper lemmas: `Lemmas/C03*.lean`, `Lemmas/QuotientRule.lean`.
-/

open Splipy Splipy.Dispatch

variable {K : Type} [Field K] [LinearOrder K] [FloorRing K]

/-! ## Non-rational objects -/

section nonrational
variable [IsStrictOrderedRing K]

/-- **C01 for derivative rows.**  For a valid basis and an admissible parameter (`Basis.Admissible`: exact
w.r.t. the knot tolerance, inside the domain of a non-periodic basis, wrapped point exact for a periodic one)
the number the code uses for function `j`, derivative order `d`, side `a` is the specification value
`Basis.rowSpec`: the one-sided `d`-th derivative `dB` of the B-spline (non-periodic; the zero row at the domain
start approached from the left), the sum of its wrapped images (periodic, any real parameter) — for EVERY
derivative order (orders ≥ the spline order give zero on both sides). -/
theorem C03_row_is_spec {b : Basis K} (hv : b.Valid) {tol u : K} (htol : 0 < tol)
    (h : b.Admissible tol u) (d : ℕ) (a : Bool) {j : ℕ} (hj : j < b.numFunctions) :
    b.drowVal tol u d a j = b.rowSpec u a d j :=
  Basis.drowVal_eq_rowSpec hv htol h d a hj

/-- **Curves, non-rational** (open or periodic basis, `tensor` either way, every derivative order, either
side).  `derivative(us, d, above, tensor)` succeeds and entry `(i, c)` is `Σ_j rowSpec_j(uᵢ) · P_j[c]`: the
`d`-th one-sided derivative of the evaluated map (`C03_nonrational_curve_open` / `_periodic` spell the sum
out as the specification's `splineDeriv`). -/
theorem C03_nonrational_curve {o : Obj K} {b1 : Basis K} (hb : o.bases = #[b1]) (hv1 : b1.Valid)
    {nc : ℕ} (hs : o.cps.shape = [b1.numFunctions, nc]) (hr : o.rational = false) {tol : K}
    (htol : 0 < tol) {us : List K} (hus : ∀ u ∈ us, b1.Admissible tol u) (d : ℕ) (a : Bool)
    (tensor : Bool)
    (hne1 : b1.periodic < 0 → us ≠ [] := by (first | assumption | (simp; done) | skip)) :
    ∃ res, o.derivativeGeneric tol [us] [d] [a] tensor = .ok res ∧
      ∀ i c, i < us.length → c < nc →
        res.get (i * nc + c) =
          ∑ j ∈ Finset.range b1.numFunctions,
            b1.rowSpec (us.getD i 0) a d j * o.cps.get (j * nc + c) := by
  obtain ⟨res, hres, hget⟩ := Obj.derivative1_nonrational hb hs hr tol us d a tensor
    (Obj.not_outOfDomain1 hb hv1 htol hus)
  refine ⟨res, hres, fun i c hi hc => ?_⟩
  rw [hget i c hi hc]
  exact Finset.sum_congr rfl (fun j hj => by
    rw [C03_row_is_spec hv1 htol (hus _ (getD_mem_of_lt us hi 0)) d a (Finset.mem_range.mp hj)])

/-- **Surfaces, non-rational** (each direction open or periodic; per-direction derivative orders and sides):
on the tensor grid entry `(i₁, i₂, c)` is the mixed partial
`Σ_{j₁ j₂} rowSpec¹_{j₁}(u_{i₁}) · rowSpec²_{j₂}(v_{i₂}) · P_{j₁ j₂}[c]`; with `tensor=False` (equally many `u`
and `v`) entry `(i, c)` is the same sum at the pair `(uᵢ, vᵢ)`. -/
theorem C03_nonrational_surface {o : Obj K} {b1 b2 : Basis K} (hb : o.bases = #[b1, b2])
    (hv1 : b1.Valid) (hv2 : b2.Valid) {nc : ℕ}
    (hs : o.cps.shape = [b1.numFunctions, b2.numFunctions, nc]) (hr : o.rational = false) {tol : K}
    (htol : 0 < tol) {us vs : List K} (hus : ∀ u ∈ us, b1.Admissible tol u)
    (hvs : ∀ v ∈ vs, b2.Admissible tol v) (d1 d2 : ℕ) (a1 a2 : Bool)
    (hne1 : b1.periodic < 0 → us ≠ [] := by (first | assumption | (simp; done) | skip))
    (hne2 : b2.periodic < 0 → vs ≠ [] := by (first | assumption | (simp; done) | skip)) :
    (∃ res, o.derivativeGeneric tol [us, vs] [d1, d2] [a1, a2] true = .ok res ∧
      ∀ i1 i2 c, i1 < us.length → i2 < vs.length → c < nc →
        res.get ((i1 * vs.length + i2) * nc + c) =
          ∑ j1 ∈ Finset.range b1.numFunctions, ∑ j2 ∈ Finset.range b2.numFunctions,
            b1.rowSpec (us.getD i1 0) a1 d1 j1 * b2.rowSpec (vs.getD i2 0) a2 d2 j2
              * o.cps.get ((j1 * b2.numFunctions + j2) * nc + c)) ∧
    (vs.length = us.length →
      ∃ res, o.derivativeGeneric tol [us, vs] [d1, d2] [a1, a2] false = .ok res ∧
        ∀ i c, i < us.length → c < nc →
          res.get (i * nc + c) =
            ∑ j1 ∈ Finset.range b1.numFunctions, ∑ j2 ∈ Finset.range b2.numFunctions,
              b1.rowSpec (us.getD i 0) a1 d1 j1 * b2.rowSpec (vs.getD i 0) a2 d2 j2
                * o.cps.get ((j1 * b2.numFunctions + j2) * nc + c)) := by
  have hdom := Obj.not_outOfDomain2 hb hv1 hv2 htol hus hvs
  constructor
  · obtain ⟨res, hres, hget⟩ := Obj.derivative2_nonrational_grid hb hs hr tol us vs d1 d2 a1 a2 hdom
    refine ⟨res, hres, fun i1 i2 c h1 h2 hc => ?_⟩
    rw [hget i1 i2 c h1 h2 hc]
    exact Finset.sum_congr rfl (fun j1 hj1 => Finset.sum_congr rfl (fun j2 hj2 => by
      rw [C03_row_is_spec hv1 htol (hus _ (getD_mem_of_lt us h1 0)) d1 a1 (Finset.mem_range.mp hj1),
        C03_row_is_spec hv2 htol (hvs _ (getD_mem_of_lt vs h2 0)) d2 a2 (Finset.mem_range.mp hj2)]))
  · intro hlen
    obtain ⟨res, hres, hget⟩ :=
      Obj.derivative2_nonrational_pointwise hb hs hr tol us vs d1 d2 a1 a2 hlen hdom
    refine ⟨res, hres, fun i c hi hc => ?_⟩
    rw [hget i c hi hc]
    exact Finset.sum_congr rfl (fun j1 hj1 => Finset.sum_congr rfl (fun j2 hj2 => by
      rw [C03_row_is_spec hv1 htol (hus _ (getD_mem_of_lt us hi 0)) d1 a1 (Finset.mem_range.mp hj1),
        C03_row_is_spec hv2 htol (hvs _ (getD_mem_of_lt vs (by omega) 0)) d2 a2
          (Finset.mem_range.mp hj2)]))

/-- **Volumes, non-rational** (same reading as for surfaces). -/
theorem C03_nonrational_volume {o : Obj K} {b1 b2 b3 : Basis K} (hb : o.bases = #[b1, b2, b3])
    (hv1 : b1.Valid) (hv2 : b2.Valid) (hv3 : b3.Valid) {nc : ℕ}
    (hs : o.cps.shape = [b1.numFunctions, b2.numFunctions, b3.numFunctions, nc])
    (hr : o.rational = false) {tol : K} (htol : 0 < tol) {us vs ws : List K}
    (hus : ∀ u ∈ us, b1.Admissible tol u) (hvs : ∀ v ∈ vs, b2.Admissible tol v)
    (hws : ∀ w ∈ ws, b3.Admissible tol w) (d1 d2 d3 : ℕ) (a1 a2 a3 : Bool)
    (hne1 : b1.periodic < 0 → us ≠ [] := by (first | assumption | (simp; done) | skip))
    (hne2 : b2.periodic < 0 → vs ≠ [] := by (first | assumption | (simp; done) | skip))
    (hne3 : b3.periodic < 0 → ws ≠ [] := by (first | assumption | (simp; done) | skip)) :
    (∃ res, o.derivativeGeneric tol [us, vs, ws] [d1, d2, d3] [a1, a2, a3] true = .ok res ∧
      ∀ i1 i2 i3 c, i1 < us.length → i2 < vs.length → i3 < ws.length → c < nc →
        res.get (((i1 * vs.length + i2) * ws.length + i3) * nc + c) =
          ∑ j1 ∈ Finset.range b1.numFunctions, ∑ j2 ∈ Finset.range b2.numFunctions,
            ∑ j3 ∈ Finset.range b3.numFunctions,
              b1.rowSpec (us.getD i1 0) a1 d1 j1 * b2.rowSpec (vs.getD i2 0) a2 d2 j2
                * b3.rowSpec (ws.getD i3 0) a3 d3 j3
                * o.cps.get (((j1 * b2.numFunctions + j2) * b3.numFunctions + j3) * nc + c)) ∧
    (vs.length = us.length → ws.length = us.length →
      ∃ res, o.derivativeGeneric tol [us, vs, ws] [d1, d2, d3] [a1, a2, a3] false = .ok res ∧
        ∀ i c, i < us.length → c < nc →
          res.get (i * nc + c) =
            ∑ j1 ∈ Finset.range b1.numFunctions, ∑ j2 ∈ Finset.range b2.numFunctions,
              ∑ j3 ∈ Finset.range b3.numFunctions,
                b1.rowSpec (us.getD i 0) a1 d1 j1 * b2.rowSpec (vs.getD i 0) a2 d2 j2
                  * b3.rowSpec (ws.getD i 0) a3 d3 j3
                  * o.cps.get (((j1 * b2.numFunctions + j2) * b3.numFunctions + j3) * nc + c)) := by
  have hdom := Obj.not_outOfDomain3 hb hv1 hv2 hv3 htol hus hvs hws
  constructor
  · obtain ⟨res, hres, hget⟩ :=
      Obj.derivative3_nonrational_grid hb hs hr tol us vs ws d1 d2 d3 a1 a2 a3 hdom
    refine ⟨res, hres, fun i1 i2 i3 c h1 h2 h3 hc => ?_⟩
    rw [hget i1 i2 i3 c h1 h2 h3 hc]
    exact Finset.sum_congr rfl (fun j1 hj1 => Finset.sum_congr rfl (fun j2 hj2 =>
      Finset.sum_congr rfl (fun j3 hj3 => by
        rw [C03_row_is_spec hv1 htol (hus _ (getD_mem_of_lt us h1 0)) d1 a1 (Finset.mem_range.mp hj1),
          C03_row_is_spec hv2 htol (hvs _ (getD_mem_of_lt vs h2 0)) d2 a2 (Finset.mem_range.mp hj2),
          C03_row_is_spec hv3 htol (hws _ (getD_mem_of_lt ws h3 0)) d3 a3 (Finset.mem_range.mp hj3)])))
  · intro hlen2 hlen3
    obtain ⟨res, hres, hget⟩ :=
      Obj.derivative3_nonrational_pointwise hb hs hr tol us vs ws d1 d2 d3 a1 a2 a3 hlen2 hlen3 hdom
    refine ⟨res, hres, fun i c hi hc => ?_⟩
    rw [hget i c hi hc]
    exact Finset.sum_congr rfl (fun j1 hj1 => Finset.sum_congr rfl (fun j2 hj2 =>
      Finset.sum_congr rfl (fun j3 hj3 => by
        rw [C03_row_is_spec hv1 htol (hus _ (getD_mem_of_lt us hi 0)) d1 a1 (Finset.mem_range.mp hj1),
          C03_row_is_spec hv2 htol (hvs _ (getD_mem_of_lt vs (by omega) 0)) d2 a2
            (Finset.mem_range.mp hj2),
          C03_row_is_spec hv3 htol (hws _ (getD_mem_of_lt ws (by omega) 0)) d3 a3
            (Finset.mem_range.mp hj3)])))

/-- Non-periodic curve: the sum of `C03_nonrational_curve` is the specification's `splineDeriv` (side forced
to `left` at the end of the domain); at the start approached from the left it is `0`. -/
theorem C03_nonrational_curve_open (b : Basis K) (hper : b.periodic = -1) (n : ℕ) (P : ℕ → K)
    (t : K) (a : Bool) (d : ℕ) :
    (Finset.range n).sum (fun j => b.rowSpec t a d j * P j) =
      if t = b.start ∧ a = false then 0
      else splineDeriv (effSide b t a) b.kn (b.order - 1) n P d t := by
  unfold splineDeriv Basis.rowSpec
  have hlt : b.periodic < 0 := by rw [hper]; decide
  simp only [if_pos hlt]
  by_cases hsl : t = b.start ∧ a = false
  · simp only [if_pos hsl, zero_mul, Finset.sum_const_zero]
  · simp only [if_neg hsl]
    apply Finset.sum_congr rfl
    intro j _
    ring

omit [FloorRing K] in
/-- Regrouping wrapped images: `Σ_{j<n} (Σ_{i<N, i ≡ j} f i) P_j = Σ_{i<N} f i · P_{i mod n}`. -/
theorem C03_sum_wrapped (f : ℕ → K) (P : ℕ → K) (n N : ℕ) (hn : 0 < n) :
    (Finset.range n).sum (fun j => ((Finset.range N).filter (fun i => i % n = j)).sum f * P j) =
      (Finset.range N).sum (fun i => f i * P (i % n)) := by
  have h1 : ∀ j ∈ Finset.range n,
      ((Finset.range N).filter (fun i => i % n = j)).sum f * P j =
        (Finset.range N).sum (fun i => if i % n = j then f i * P (i % n) else 0) := by
    intro j _
    rw [Finset.sum_mul, Finset.sum_filter]
    apply Finset.sum_congr rfl
    intro i _
    by_cases h : i % n = j
    · rw [if_pos h, if_pos h, h]
    · rw [if_neg h, if_neg h]
  rw [Finset.sum_congr rfl h1, Finset.sum_comm]
  apply Finset.sum_congr rfl
  intro i _
  rw [Finset.sum_ite_eq, if_pos (Finset.mem_range.mpr (Nat.mod_lt _ hn))]

/-- Periodic curve, ANY real parameter: the sum of `C03_nonrational_curve` is the derivative of the UNWRAPPED
spline over all `nAll` functions with the wrapped control points `P (i % n)`, at the wrapped parameter with the
effective point/side of the seam (the left limit at `start` is the left limit at `stop`). -/
theorem C03_nonrational_curve_periodic (b : Basis K) (hper : 0 ≤ b.periodic) (hn : 0 < b.numFunctions)
    (P : ℕ → K) (t : K) (a : Bool) (d : ℕ) :
    (Finset.range b.numFunctions).sum (fun j => b.rowSpec t a d j * P j) =
      splineDeriv (periodicEff b (b.wrap t) a).2 b.kn (b.order - 1) b.nAll (fun i => P (i % b.numFunctions)) d
        (periodicEff b (b.wrap t) a).1 := by
  unfold splineDeriv Basis.rowSpec
  have hlt : ¬ b.periodic < 0 := by omega
  simp only [if_neg hlt]
  rw [C03_sum_wrapped _ P b.numFunctions b.nAll hn]
  apply Finset.sum_congr rfl
  intro i _
  ring

/-! ### Arbitrary (non-exact) parameters: snapping -/

/-- `derivative` sees its parameters only through their lengths and `_validate_domain`. -/
theorem C03_derivative_congr (o : Obj K) (tol : K) (p p' : List (List K)) (derivs : List ℕ)
    (above : List Bool) (tensor : Bool) (hlen : p'.map List.length = p.map List.length)
    (hval : o.validateDomain tol p' = o.validateDomain tol p) :
    o.derivativeGeneric tol p' derivs above tensor = o.derivativeGeneric tol p derivs above tensor := by
  unfold Obj.derivativeGeneric
  rw [hlen, hval]

/-- Curves, separated knots (distinct knot values at least `tol` apart — every sensible knot vector with the
default `1e-10`): `derivative` at ANY parameters is `derivative` at the snapped parameters (rational or not,
every `d`, `above`, `tensor`; errors included). -/
theorem C03_derivative_snap_curve {o : Obj K} {b1 : Basis K} (hb : o.bases = #[b1]) (hv1 : b1.Valid)
    {tol : K} (htol : 0 < tol) (hs1 : b1.Separated tol) (us : List K) (derivs : List ℕ)
    (above : List Bool) (tensor : Bool) :
    o.derivativeGeneric tol [us] derivs above tensor =
      o.derivativeGeneric tol [us.map (snap b1 tol)] derivs above tensor := by
  symm
  apply C03_derivative_congr _ _ _ _ _ _ _ (by simp)
  have hdomiff : o.OutOfDomain tol [us.map (snap b1 tol)] ↔ o.OutOfDomain tol [us] := by
    rw [Obj.outOfDomain1_iff hb, Obj.outOfDomain1_iff hb, exists_mem_map_snap hv1 htol hs1]
    simp only [List.map_eq_nil_iff]
  by_cases h2 : o.OutOfDomain tol [us]
  · rw [o.validateDomain_error tol _ h2, o.validateDomain_error tol _ (hdomiff.mpr h2)]
  · rw [o.validateDomain_ok tol _ h2, o.validateDomain_ok tol _ (fun h => h2 (hdomiff.mp h))]
    simp [Obj.snapParams, hb, map_snap_snap hv1 htol hs1]

/-- … surfaces … -/
theorem C03_derivative_snap_surface {o : Obj K} {b1 b2 : Basis K} (hb : o.bases = #[b1, b2])
    (hv1 : b1.Valid) (hv2 : b2.Valid) {tol : K} (htol : 0 < tol) (hs1 : b1.Separated tol)
    (hs2 : b2.Separated tol) (us vs : List K) (derivs : List ℕ) (above : List Bool) (tensor : Bool) :
    o.derivativeGeneric tol [us, vs] derivs above tensor =
      o.derivativeGeneric tol [us.map (snap b1 tol), vs.map (snap b2 tol)] derivs above tensor := by
  symm
  apply C03_derivative_congr _ _ _ _ _ _ _ (by simp)
  have hdomiff : o.OutOfDomain tol [us.map (snap b1 tol), vs.map (snap b2 tol)]
      ↔ o.OutOfDomain tol [us, vs] := by
    rw [Obj.outOfDomain2_iff hb, Obj.outOfDomain2_iff hb, exists_mem_map_snap hv1 htol hs1,
      exists_mem_map_snap hv2 htol hs2]
    simp only [List.map_eq_nil_iff]
  by_cases h2 : o.OutOfDomain tol [us, vs]
  · rw [o.validateDomain_error tol _ h2, o.validateDomain_error tol _ (hdomiff.mpr h2)]
  · rw [o.validateDomain_ok tol _ h2, o.validateDomain_ok tol _ (fun h => h2 (hdomiff.mp h))]
    simp [Obj.snapParams, hb, map_snap_snap hv1 htol hs1, map_snap_snap hv2 htol hs2]

/-- … volumes. -/
theorem C03_derivative_snap_volume {o : Obj K} {b1 b2 b3 : Basis K} (hb : o.bases = #[b1, b2, b3])
    (hv1 : b1.Valid) (hv2 : b2.Valid) (hv3 : b3.Valid) {tol : K} (htol : 0 < tol)
    (hs1 : b1.Separated tol) (hs2 : b2.Separated tol) (hs3 : b3.Separated tol)
    (us vs ws : List K) (derivs : List ℕ) (above : List Bool) (tensor : Bool) :
    o.derivativeGeneric tol [us, vs, ws] derivs above tensor =
      o.derivativeGeneric tol [us.map (snap b1 tol), vs.map (snap b2 tol), ws.map (snap b3 tol)]
        derivs above tensor := by
  symm
  apply C03_derivative_congr _ _ _ _ _ _ _ (by simp)
  have hdomiff : o.OutOfDomain tol [us.map (snap b1 tol), vs.map (snap b2 tol), ws.map (snap b3 tol)]
      ↔ o.OutOfDomain tol [us, vs, ws] := by
    rw [Obj.outOfDomain3_iff hb, Obj.outOfDomain3_iff hb, exists_mem_map_snap hv1 htol hs1,
      exists_mem_map_snap hv2 htol hs2, exists_mem_map_snap hv3 htol hs3]
    simp only [List.map_eq_nil_iff]
  by_cases h2 : o.OutOfDomain tol [us, vs, ws]
  · rw [o.validateDomain_error tol _ h2, o.validateDomain_error tol _ (hdomiff.mpr h2)]
  · rw [o.validateDomain_ok tol _ h2, o.validateDomain_ok tol _ (fun h => h2 (hdomiff.mp h))]
    simp [Obj.snapParams, hb, map_snap_snap hv1 htol hs1, map_snap_snap hv2 htol hs2,
      map_snap_snap hv3 htol hs3]

/-- Non-periodic direction, separated knots: if no snapped parameter leaves the domain, every snapped
parameter is admissible (so the theorems above apply to `us.map (snap b tol)`; `C02_snapped_admissible`). -/
theorem C03_snapped_admissible {b : Basis K} (hv : b.Valid) (hper : b.periodic = -1) {tol : K}
    (hsep : b.Separated tol) {us : List K}
    (hin : ¬ ∃ t ∈ us, snap b tol t < b.start ∨ b.stop < snap b tol t) :
    ∀ u ∈ us.map (snap b tol), b.Admissible tol u := by
  intro u hu
  obtain ⟨t, ht, rfl⟩ := List.mem_map.mp hu
  have h : ¬ (snap b tol t < b.start ∨ b.stop < snap b tol t) := fun hh => hin ⟨t, ht, hh⟩
  rw [not_or, not_lt, not_lt] at h
  exact C02_snapped_admissible hv hper hsep h.1 h.2

/-- **Curves, non-rational, arbitrary parameters** (non-periodic basis with separated knots; the ONLY
hypothesis on the parameters is the property's own: inside the domain after snapping).  Entry `(i, c)` is the
`d`-th one-sided derivative sum at the snapped parameter. -/
theorem C03_nonrational_curve_any {o : Obj K} {b1 : Basis K} (hb : o.bases = #[b1]) (hv1 : b1.Valid)
    (hp1 : b1.periodic = -1) {nc : ℕ} (hs : o.cps.shape = [b1.numFunctions, nc])
    (hr : o.rational = false) {tol : K} (htol : 0 < tol) (hs1 : b1.Separated tol) (us : List K)
    (hdom : ¬ o.OutOfDomain tol [us]) (d : ℕ) (a : Bool) (tensor : Bool) :
    ∃ res, o.derivativeGeneric tol [us] [d] [a] tensor = .ok res ∧
      ∀ i c, i < us.length → c < nc →
        res.get (i * nc + c) =
          ∑ j ∈ Finset.range b1.numFunctions,
            b1.rowSpec (snap b1 tol (us.getD i 0)) a d j * o.cps.get (j * nc + c) := by
  rw [Obj.outOfDomain1_iff hb] at hdom
  have hadm := C03_snapped_admissible hv1 hp1 hs1 (fun h => hdom ⟨by rw [hp1]; decide, Or.inr h⟩)
  obtain ⟨res, hres, hget⟩ := C03_nonrational_curve hb hv1 hs hr htol hadm d a tensor
    (fun hp h => hdom ⟨hp, Or.inl (List.map_eq_nil_iff.mp h)⟩)
  rw [← C03_derivative_snap_curve hb hv1 htol hs1] at hres
  refine ⟨res, hres, fun i c hi hc => ?_⟩
  have := hget i c (by rw [List.length_map]; exact hi) hc
  rw [this]
  have e : (us.map (snap b1 tol)).getD i 0 = snap b1 tol (us.getD i 0) := by
    simp [List.getD_eq_getElem?_getD, hi]
  rw [e]

/-- **Surfaces, non-rational, arbitrary parameters** (non-periodic bases with separated knots; parameters
inside the domain after snapping), grid and pointwise form. -/
theorem C03_nonrational_surface_any {o : Obj K} {b1 b2 : Basis K} (hb : o.bases = #[b1, b2])
    (hv1 : b1.Valid) (hv2 : b2.Valid) (hp1 : b1.periodic = -1) (hp2 : b2.periodic = -1) {nc : ℕ}
    (hs : o.cps.shape = [b1.numFunctions, b2.numFunctions, nc]) (hr : o.rational = false) {tol : K}
    (htol : 0 < tol) (hs1 : b1.Separated tol) (hs2 : b2.Separated tol) (us vs : List K)
    (hdom : ¬ o.OutOfDomain tol [us, vs]) (d1 d2 : ℕ) (a1 a2 : Bool) :
    (∃ res, o.derivativeGeneric tol [us, vs] [d1, d2] [a1, a2] true = .ok res ∧
      ∀ i1 i2 c, i1 < us.length → i2 < vs.length → c < nc →
        res.get ((i1 * vs.length + i2) * nc + c) =
          ∑ j1 ∈ Finset.range b1.numFunctions, ∑ j2 ∈ Finset.range b2.numFunctions,
            b1.rowSpec (snap b1 tol (us.getD i1 0)) a1 d1 j1
              * b2.rowSpec (snap b2 tol (vs.getD i2 0)) a2 d2 j2
              * o.cps.get ((j1 * b2.numFunctions + j2) * nc + c)) ∧
    (vs.length = us.length →
      ∃ res, o.derivativeGeneric tol [us, vs] [d1, d2] [a1, a2] false = .ok res ∧
        ∀ i c, i < us.length → c < nc →
          res.get (i * nc + c) =
            ∑ j1 ∈ Finset.range b1.numFunctions, ∑ j2 ∈ Finset.range b2.numFunctions,
              b1.rowSpec (snap b1 tol (us.getD i 0)) a1 d1 j1
                * b2.rowSpec (snap b2 tol (vs.getD i 0)) a2 d2 j2
                * o.cps.get ((j1 * b2.numFunctions + j2) * nc + c)) := by
  rw [Obj.outOfDomain2_iff hb, not_or] at hdom
  have hadm1 := C03_snapped_admissible hv1 hp1 hs1 (fun h => hdom.1 ⟨by rw [hp1]; decide, Or.inr h⟩)
  have hadm2 := C03_snapped_admissible hv2 hp2 hs2 (fun h => hdom.2 ⟨by rw [hp2]; decide, Or.inr h⟩)
  obtain ⟨hg, hpw⟩ := C03_nonrational_surface hb hv1 hv2 hs hr htol hadm1 hadm2 d1 d2 a1 a2
    (fun hp h => hdom.1 ⟨hp, Or.inl (List.map_eq_nil_iff.mp h)⟩)
    (fun hp h => hdom.2 ⟨hp, Or.inl (List.map_eq_nil_iff.mp h)⟩)
  have e1 : ∀ i, i < us.length → (us.map (snap b1 tol)).getD i 0 = snap b1 tol (us.getD i 0) := by
    intro i hi; simp [List.getD_eq_getElem?_getD, hi]
  have e2 : ∀ i, i < vs.length → (vs.map (snap b2 tol)).getD i 0 = snap b2 tol (vs.getD i 0) := by
    intro i hi; simp [List.getD_eq_getElem?_getD, hi]
  constructor
  · obtain ⟨res, hres, hget⟩ := hg
    rw [← C03_derivative_snap_surface hb hv1 hv2 htol hs1 hs2] at hres
    refine ⟨res, hres, fun i1 i2 c h1 h2 hc => ?_⟩
    have := hget i1 i2 c (by rw [List.length_map]; exact h1) (by rw [List.length_map]; exact h2) hc
    rw [List.length_map] at this
    rw [this, e1 i1 h1, e2 i2 h2]
  · intro hlen
    obtain ⟨res, hres, hget⟩ := hpw (by rw [List.length_map, List.length_map]; exact hlen)
    rw [← C03_derivative_snap_surface hb hv1 hv2 htol hs1 hs2] at hres
    refine ⟨res, hres, fun i c hi hc => ?_⟩
    have := hget i c (by rw [List.length_map]; exact hi) hc
    rw [this, e1 i hi, e2 i (by omega)]

/-- **Volumes, non-rational, arbitrary parameters** (non-periodic bases with separated knots), grid form and
pointwise form. -/
theorem C03_nonrational_volume_any {o : Obj K} {b1 b2 b3 : Basis K} (hb : o.bases = #[b1, b2, b3])
    (hv1 : b1.Valid) (hv2 : b2.Valid) (hv3 : b3.Valid) (hp1 : b1.periodic = -1)
    (hp2 : b2.periodic = -1) (hp3 : b3.periodic = -1) {nc : ℕ}
    (hs : o.cps.shape = [b1.numFunctions, b2.numFunctions, b3.numFunctions, nc])
    (hr : o.rational = false) {tol : K} (htol : 0 < tol) (hs1 : b1.Separated tol)
    (hs2 : b2.Separated tol) (hs3 : b3.Separated tol) (us vs ws : List K)
    (hdom : ¬ o.OutOfDomain tol [us, vs, ws]) (d1 d2 d3 : ℕ) (a1 a2 a3 : Bool) :
    (∃ res, o.derivativeGeneric tol [us, vs, ws] [d1, d2, d3] [a1, a2, a3] true = .ok res ∧
      ∀ i1 i2 i3 c, i1 < us.length → i2 < vs.length → i3 < ws.length → c < nc →
        res.get (((i1 * vs.length + i2) * ws.length + i3) * nc + c) =
          ∑ j1 ∈ Finset.range b1.numFunctions, ∑ j2 ∈ Finset.range b2.numFunctions,
            ∑ j3 ∈ Finset.range b3.numFunctions,
              b1.rowSpec (snap b1 tol (us.getD i1 0)) a1 d1 j1
                * b2.rowSpec (snap b2 tol (vs.getD i2 0)) a2 d2 j2
                * b3.rowSpec (snap b3 tol (ws.getD i3 0)) a3 d3 j3
                * o.cps.get (((j1 * b2.numFunctions + j2) * b3.numFunctions + j3) * nc + c)) ∧
    (vs.length = us.length → ws.length = us.length →
      ∃ res, o.derivativeGeneric tol [us, vs, ws] [d1, d2, d3] [a1, a2, a3] false = .ok res ∧
        ∀ i c, i < us.length → c < nc →
          res.get (i * nc + c) =
            ∑ j1 ∈ Finset.range b1.numFunctions, ∑ j2 ∈ Finset.range b2.numFunctions,
              ∑ j3 ∈ Finset.range b3.numFunctions,
                b1.rowSpec (snap b1 tol (us.getD i 0)) a1 d1 j1
                  * b2.rowSpec (snap b2 tol (vs.getD i 0)) a2 d2 j2
                  * b3.rowSpec (snap b3 tol (ws.getD i 0)) a3 d3 j3
                  * o.cps.get (((j1 * b2.numFunctions + j2) * b3.numFunctions + j3) * nc + c)) := by
  rw [Obj.outOfDomain3_iff hb, not_or, not_or] at hdom
  have hadm1 := C03_snapped_admissible hv1 hp1 hs1 (fun h => hdom.1 ⟨by rw [hp1]; decide, Or.inr h⟩)
  have hadm2 := C03_snapped_admissible hv2 hp2 hs2 (fun h => hdom.2.1 ⟨by rw [hp2]; decide, Or.inr h⟩)
  have hadm3 := C03_snapped_admissible hv3 hp3 hs3 (fun h => hdom.2.2 ⟨by rw [hp3]; decide, Or.inr h⟩)
  obtain ⟨hg, hpw⟩ :=
    C03_nonrational_volume hb hv1 hv2 hv3 hs hr htol hadm1 hadm2 hadm3 d1 d2 d3 a1 a2 a3
      (fun hp h => hdom.1 ⟨hp, Or.inl (List.map_eq_nil_iff.mp h)⟩)
      (fun hp h => hdom.2.1 ⟨hp, Or.inl (List.map_eq_nil_iff.mp h)⟩)
      (fun hp h => hdom.2.2 ⟨hp, Or.inl (List.map_eq_nil_iff.mp h)⟩)
  have e1 : ∀ i, i < us.length → (us.map (snap b1 tol)).getD i 0 = snap b1 tol (us.getD i 0) := by
    intro i hi; simp [List.getD_eq_getElem?_getD, hi]
  have e2 : ∀ i, i < vs.length → (vs.map (snap b2 tol)).getD i 0 = snap b2 tol (vs.getD i 0) := by
    intro i hi; simp [List.getD_eq_getElem?_getD, hi]
  have e3 : ∀ i, i < ws.length → (ws.map (snap b3 tol)).getD i 0 = snap b3 tol (ws.getD i 0) := by
    intro i hi; simp [List.getD_eq_getElem?_getD, hi]
  constructor
  · obtain ⟨res, hres, hget⟩ := hg
    rw [← C03_derivative_snap_volume hb hv1 hv2 hv3 htol hs1 hs2 hs3] at hres
    refine ⟨res, hres, fun i1 i2 i3 c h1 h2 h3 hc => ?_⟩
    have := hget i1 i2 i3 c (by rw [List.length_map]; exact h1) (by rw [List.length_map]; exact h2)
      (by rw [List.length_map]; exact h3) hc
    rw [List.length_map, List.length_map] at this
    rw [this, e1 i1 h1, e2 i2 h2, e3 i3 h3]
  · intro hlen2 hlen3
    obtain ⟨res, hres, hget⟩ := hpw (by rw [List.length_map, List.length_map]; exact hlen2)
      (by rw [List.length_map, List.length_map]; exact hlen3)
    rw [← C03_derivative_snap_volume hb hv1 hv2 hv3 htol hs1 hs2 hs3] at hres
    refine ⟨res, hres, fun i c hi hc => ?_⟩
    have := hget i c (by rw [List.length_map]; exact hi) hc
    rw [this, e1 i hi, e2 i (by omega), e3 i (by omega)]

end nonrational

/-- The derivative of a non-rational object (any parametric dimension, `tensor` either way) is by
definition the contraction of the control net with the per-direction `Basis.evaluate(·, d_k, side_k)`
matrices. -/
theorem C03_nonrational_is_contraction (o : Obj K) (tol : K) (params : List (List K)) (derivs : List ℕ)
    (above : List Bool) (tensor : Bool) (r : Tensor K) (hr : o.rational = false)
    (h : o.derivativeGeneric tol params derivs above tensor = .ok r) :
    ∃ ps, o.validateDomain tol params = .ok ps ∧ r = o.homJet tol ps derivs above tensor :=
  Obj.derivativeGeneric_nonrational o tol params derivs above tensor r hr h

/-! ## Rational objects -/

/-- **Order zero** (`derivative(…, d=0)` / `d=(0,…,0)` on a rational object, every parametric dimension,
`tensor` either way): the returned entry is the homogeneous coordinate divided by the weight, both taken
from the requested sides — the point itself (`x₀` whenever `n = x₀·W`, `W ≠ 0`). -/
theorem C03_rational_order_zero (o : Obj K) (tol : K) (params : List (List K)) (derivs : List ℕ)
    (above : List Bool) (tensor : Bool) (r : Tensor K) (hr : o.rational = true) (h0 : derivs.sum = 0)
    (h : o.derivativeGeneric tol params derivs above tensor = .ok r) :
    ∃ ps, o.validateDomain tol params = .ok ps ∧
      ∀ pI c, c < o.dimension → pI < (o.homJet tol ps derivs above tensor).size / o.ncomp →
        ∀ x0 : K,
          let N := o.homJet tol ps derivs above tensor
          N.get (pI * o.ncomp + o.dimension) ≠ 0 →
          N.get (pI * o.ncomp + c) = x0 * N.get (pI * o.ncomp + o.dimension) →
          r.get (pI * o.dimension + c) = x0 := by
  obtain ⟨ps, hps, hget⟩ := Obj.derivativeGeneric_rational_zero_get o tol params derivs above tensor r hr h0 h
  refine ⟨ps, hps, ?_⟩
  intro pI c hc hpI x0 N hW hn
  rw [hget pI c hc hpI]
  show N.get (pI * o.ncomp + c) / N.get (pI * o.ncomp + o.dimension) = x0
  rw [hn]
  field_simp

/-- **Generic quotient-rule branch** (`SplineObject.derivative`, rational, total order 1, every parametric
dimension, `tensor` either way).  A successful call of non-zero order has total order exactly 1, and wherever
the homogeneous jets `N = Σ Π B · P` (order 0) and `D = Σ Π dB · P` (the requested order) — BOTH from the
requested sides — satisfy the Leibniz relations of `n = x·W` at a point, the returned entry is the jet
component `x₁` of the quotient. -/
theorem C03_rational_first (o : Obj K) (tol : K) (params : List (List K)) (derivs : List ℕ)
    (above : List Bool) (tensor : Bool) (r : Tensor K) (hr : o.rational = true) (hne : derivs.sum ≠ 0)
    (h : o.derivativeGeneric tol params derivs above tensor = .ok r) :
    derivs.sum = 1 ∧ ∃ ps, o.validateDomain tol params = .ok ps ∧
      ∀ pI c, c < o.dimension → pI < (o.homJet tol ps derivs above tensor).size / o.ncomp →
        ∀ x0 x1 : K,
          let N := o.homJet tol ps (above.map fun _ => 0) above tensor
          let D := o.homJet tol ps derivs above tensor
          N.get (pI * o.ncomp + o.dimension) ≠ 0 →
          N.get (pI * o.ncomp + c) = x0 * N.get (pI * o.ncomp + o.dimension) →
          D.get (pI * o.ncomp + c) =
            x1 * N.get (pI * o.ncomp + o.dimension) + x0 * D.get (pI * o.ncomp + o.dimension) →
          r.get (pI * o.dimension + c) = x1 := by
  obtain ⟨hsum, ps, hps, hget⟩ := Obj.derivativeGeneric_rational_get o tol params derivs above tensor r hr hne h
  refine ⟨hsum, ps, hps, ?_⟩
  intro pI c hc hpI x0 x1 N D hW h0 h1
  rw [hget pI c hc hpI]
  exact RatDeriv.first_correct hW h0 h1

/-- **Unsupported rational orders raise**: for a rational object the generic method never returns
numbers for total order > 1 … -/
theorem C03_rational_refuses (o : Obj K) (tol : K) (params : List (List K)) (derivs : List ℕ)
    (above : List Bool) (tensor : Bool) (hr : o.rational = true) (hd : 1 < derivs.sum) (r : Tensor K) :
    o.derivativeGeneric tol params derivs above tensor ≠ .ok r :=
  Obj.derivativeGeneric_rational_refuses o tol params derivs above tensor hr hd r

/-- … and when the parameters are valid the error is `RuntimeError`. -/
theorem C03_rational_refuses_runtime (o : Obj K) (tol : K) (params : List (List K)) (derivs : List ℕ)
    (above : List Bool) (tensor : Bool) (hr : o.rational = true) (hd : 1 < derivs.sum)
    (ps : List (List K)) (hps : o.validateDomain tol params = .ok ps)
    (ht : tensor = true ∨ (params.map List.length).eraseDups.length = 1) :
    o.derivativeGeneric tol params derivs above tensor = .error .runtime :=
  Obj.derivativeGeneric_rational_runtime o tol params derivs above tensor hr hd ps hps ht

/-- **`Curve.derivative`, rational, d = 2 and d = 3.**  With the homogeneous jets
`J_k = basis.evaluate(t, k, side) @ controlpoints`, ALL from the requested side (`J_0` included): wherever
they satisfy the Leibniz relations of `n = x·W` up to order `d`, the returned entry is `x_d`. -/
theorem C03_rational_curve_2_3 (o : Obj K) (tol : K) (ts : List K) (above : Bool) (pI c : ℕ)
    (hc : c < o.dimension) (hpI : pI < ts.length) (x0 x1 x2 x3 : K) :
    let n (k : ℕ) := (o.curveJet tol ts k above).get (pI * o.ncomp + c)
    let W (k : ℕ) := (o.curveJet tol ts k above).get (pI * o.ncomp + o.dimension)
    W 0 ≠ 0 → n 0 = x0 * W 0 → n 1 = x1 * W 0 + x0 * W 1 →
    n 2 = x2 * W 0 + 2 * x1 * W 1 + x0 * W 2 →
    ((o.curveDerivativeRational tol ts 2 above).get (pI * o.dimension + c) = x2) ∧
    (n 3 = x3 * W 0 + 3 * x2 * W 1 + 3 * x1 * W 2 + x0 * W 3 →
      (o.curveDerivativeRational tol ts 3 above).get (pI * o.dimension + c) = x3) := by
  intro n W hW h0 h1 h2
  constructor
  · rw [Obj.curveDerivativeRational_get_two o tol ts above pI c hc hpI]
    exact RatDeriv.curveD2_correct hW h0 h1 h2
  · intro h3
    rw [Obj.curveDerivativeRational_get_three o tol ts above pI c hc hpI]
    exact RatDeriv.curveD3_correct hW h0 h1 h2 h3

/-- **`Surface.derivative`, rational, total order 2 and 3** (tensor grid; per-direction sides `frU`, `frV`).
The call succeeds, and wherever the ten homogeneous jets of numerator component and weight satisfy the
Leibniz relations of `n = x·W` (`SurfLeibniz`), the returned entry is the mixed partial `x_{du,dv}` of the
quotient. -/
theorem C03_rational_surface_2_3 (o : Obj K) (tol : K) (us vs : List K) (du dv : ℕ) (frU frV : Bool)
    (h2 : 2 ≤ du + dv) (h3 : du + dv ≤ 3) :
    ∃ r, o.surfaceDerivativeRational tol us vs du dv frU frV true = .ok r ∧
      ∀ pI c, c < o.dimension → pI < us.length * vs.length → ∀ x : RatDeriv.SurfJet K,
        (o.surfJetAt tol us vs frU frV pI o.dimension).f00 ≠ 0 →
        RatDeriv.SurfLeibniz (o.surfJetAt tol us vs frU frV pI c) x (o.surfJetAt tol us vs frU frV pI o.dimension) →
        r.get (pI * o.dimension + c) = x.get du dv := by
  obtain ⟨r, hr, hget⟩ := Obj.surfaceDerivativeRational_get o tol us vs du dv frU frV h2 h3
  refine ⟨r, hr, ?_⟩
  intro pI c hc hpI x hW hL
  exact RatDeriv.surfD_correct hW hL du dv _ (hget pI c hc hpI)

/-! ## Rational curves over ℝ: `derivative(d)` IS the d-th one-sided derivative of the evaluated map -/

section real

/-- Every admissible parameter of a valid non-periodic basis (except the start approached from the left)
lies in a non-empty knot span on the side `effSide` selects. -/
theorem C03_exists_span {b : Basis ℝ} (hv : b.Valid) {t : ℝ} (h1 : b.start ≤ t) (h2 : t ≤ b.stop)
    (a : Bool) (hnot : ¬ (t = b.start ∧ a = false)) :
    ∃ μ, (effSide b t a).mem (b.kn μ) (b.kn (μ+1)) t := by
  have hlt := hv.start_lt_stop
  have hm : (effSide b t a).mem (b.kn (b.order - 1)) (b.kn b.nAll) t := by
    rw [← b.start_eq, ← b.stop_eq]
    unfold effSide
    by_cases hs : t = b.stop
    · rw [if_pos hs]; exact ⟨by rw [hs]; exact hlt, h2⟩
    · rw [if_neg hs]
      cases a
      · have hne : t ≠ b.start := fun h => hnot ⟨h, rfl⟩
        exact ⟨lt_of_le_of_ne h1 (Ne.symm hne), h2⟩
      · exact ⟨h1, lt_of_le_of_ne h2 hs⟩
  obtain ⟨μ, -, -, h⟩ := exists_span _ b.kn hv.kn_mono _ _ t hm
  exact ⟨μ, h⟩

/-- **The evaluated map is the quotient of the specification sums** (any ordered field): for a rational curve
on a valid non-periodic basis and an admissible `t`, `evaluate(t)[c] = n₀(t)/W₀(t)` with the sums taken from the
side `effSide b t true` (right-continuous, the limit from inside at the domain end) — the function whose
one-sided derivatives `C03_rational_curve_real` computes (for `above=True` and `t₀ ≠ end` the sides agree on
`[t₀, end)`). -/
theorem C03_evaluated_map_curve [IsStrictOrderedRing K] {o : Obj K} {b : Basis K} (hb : o.bases = #[b])
    (hv : b.Valid) (hper : b.periodic = -1) {dim : ℕ} (hs : o.cps.shape = [b.numFunctions, dim + 1])
    (hr : o.rational = true) {tol : K} (htol : 0 < tol) (t : K) (hadm : b.Admissible tol t) {c : ℕ}
    (hc : c < dim) :
    ∃ r, o.evaluate tol [[t]] true = .ok r ∧
      r.get c =
        splineDeriv (effSide b t true) b.kn (b.order - 1) b.numFunctions
            (fun j => o.cps.get (j * (dim + 1) + c)) 0 t /
          splineDeriv (effSide b t true) b.kn (b.order - 1) b.numFunctions
            (fun j => o.cps.get (j * (dim + 1) + dim)) 0 t := by
  have hus : ∀ u ∈ [t], b.Admissible tol u := by intro u h; simp at h; rw [h]; exact hadm
  obtain ⟨r, hr1, -, -, hget⟩ := Obj.evaluate1_grid_rational hb hs hr tol [t]
    (Obj.not_outOfDomain1 hb hv htol hus)
  refine ⟨r, hr1, ?_⟩
  have h := hget 0 c (by simp) hc
  simp only [Nat.zero_mul, Nat.zero_add, List.getD_cons_zero] at h
  rw [h]
  unfold splineDeriv
  congr 1 <;>
  · apply Finset.sum_congr rfl
    intro j hj
    rw [Basis.rowVal_eq_specRow hv htol hadm (Finset.mem_range.mp hj),
      Basis.specRow_nonperiodic hper, dB_zero]
    ring

/-- **Rational curve over ℝ, end to end.**  `o` a rational curve on a valid non-periodic basis, `t₀` an
admissible parameter (not the domain start approached from the left), `s = effSide b t₀ a` the side selected by
`above`, and for component `c`
`n_k(t) = Σ_j P_j[c]·dB(j,k)(t)`, `W_k(t) = Σ_j w_j·dB(j,k)(t)` the specification's derivative sums of numerator
and weight (so `x(t) = n₀(t)/W₀(t)` is the evaluated map of `C02_rational_curve`, taken from the side `s`).
If `W₀(t₀) ≠ 0` (true for positive weights) then, with `HasDerivWithinAt` on `[t₀,∞)` resp. `(-∞,t₀]`:
1. `derivative(t₀, d=1, above)` (generic quotient rule) is the one-sided derivative of `x` at `t₀`;
2. `derivative(t₀, d=2, above)` (closed form) is the one-sided derivative at `t₀` of `x' = first(n₀,n₁,W₀,W₁)`;
3. `derivative(t₀, d=3, above)` is the one-sided derivative at `t₀` of `x'' = curveD2(n₀,n₁,n₂,W₀,W₁,W₂)`;
and (`C03_quotient_chain`) `x'`, `x''` are the one-sided derivatives of `x`, `x'` at EVERY point of a knot span
where `W₀ ≠ 0` — so the three values are the first, second and third one-sided derivatives of the evaluated map.
No Leibniz hypothesis is left: the jets are derivatives by `hasDerivWithinAt_splineDeriv` (L3 over ℝ). -/
theorem C03_rational_curve_real {o : Obj ℝ} {b : Basis ℝ} (hb : o.bases = #[b]) (hv : b.Valid)
    (hper : b.periodic = -1) {dim : ℕ} (hs : o.cps.shape = [b.numFunctions, dim + 1])
    (hr : o.rational = true) {tol : ℝ} (htol : 0 < tol) (t0 : ℝ) (hadm : b.Admissible tol t0)
    (a : Bool) (hnot : ¬ (t0 = b.start ∧ a = false)) {c : ℕ} (hc : c < dim) :
    let s := effSide b t0 a
    let nJ : ℕ → ℝ → ℝ := fun k t =>
      splineDeriv s b.kn (b.order - 1) b.numFunctions (fun j => o.cps.get (j * (dim + 1) + c)) k t
    let WJ : ℕ → ℝ → ℝ := fun k t =>
      splineDeriv s b.kn (b.order - 1) b.numFunctions (fun j => o.cps.get (j * (dim + 1) + dim)) k t
    WJ 0 t0 ≠ 0 →
    (∃ r, o.derivativeGeneric tol [[t0]] [1] [a] true = .ok r ∧
      HasDerivWithinAt (fun t => nJ 0 t / WJ 0 t) (r.get c) (sideSet s t0) t0) ∧
    HasDerivWithinAt (fun t => RatDeriv.first (nJ 0 t) (nJ 1 t) (WJ 0 t) (WJ 1 t))
      ((o.curveDerivativeRational tol [t0] 2 a).get c) (sideSet s t0) t0 ∧
    HasDerivWithinAt (fun t => RatDeriv.curveD2 (nJ 0 t) (nJ 1 t) (nJ 2 t) (WJ 0 t) (WJ 1 t) (WJ 2 t))
      ((o.curveDerivativeRational tol [t0] 3 a).get c) (sideSet s t0) t0 := by
  intro s nJ WJ hW
  obtain ⟨hnc, hdim⟩ := Obj.dimension_of_shape (o := o) (pre := [b.numFunctions]) (nc := dim + 1) hs
  have hdim' : o.dimension = dim := by rw [hdim, hr]; simp
  have hin := hadm.2.1 hper
  obtain ⟨μ, hμ⟩ := C03_exists_span hv hin.1 hin.2 a hnot
  have hdn : ∀ k, HasDerivWithinAt (nJ k) (nJ (k+1) t0) (sideSet s t0) t0 := fun k =>
    hasDerivWithinAt_splineDeriv s b.kn hv.kn_mono μ _ _ _ k t0 hμ
  have hdW : ∀ k, HasDerivWithinAt (WJ k) (WJ (k+1) t0) (sideSet s t0) t0 := fun k =>
    hasDerivWithinAt_splineDeriv s b.kn hv.kn_mono μ _ _ _ k t0 hμ
  have hadm' : b.Admissible tol ([t0].getD 0 0) := by simpa using hadm
  have hnot' : ¬ (([t0] : List ℝ).getD 0 0 = b.start ∧ a = false) := by simpa using hnot
  -- the jets of the closed forms
  have jn : ∀ k, (o.curveJet tol [t0] k a).get (0 * o.ncomp + c) = nJ k t0 := by
    intro k
    rw [hnc]
    have := Obj.curveJet_spec hb hv hper hs htol [t0] k a (i := 0) (c := c) (by simp) (by omega) hadm' hnot'
    simpa using this
  have jW : ∀ k, (o.curveJet tol [t0] k a).get (0 * o.ncomp + o.dimension) = WJ k t0 := by
    intro k
    rw [hnc, hdim']
    have := Obj.curveJet_spec hb hv hper hs htol [t0] k a (i := 0) (c := dim) (by simp) (by omega) hadm' hnot'
    simpa using this
  refine ⟨?_, ?_, ?_⟩
  · -- generic first-order quotient rule
    have hus : ∀ u ∈ [t0], b.Admissible tol u := by intro u hu; simp at hu; rw [hu]; exact hadm
    have hdom := Obj.not_outOfDomain1 hb hv htol hus
    have hval := o.validateDomain_ok tol [[t0]] hdom
    -- the call succeeds: it can only fail by the argument checks
    have hok : ∃ r, o.derivativeGeneric tol [[t0]] [1] [a] true = .ok r := by
      unfold Obj.derivativeGeneric
      rw [if_neg (by simp), hval]
      simp [hr]
    obtain ⟨r, hrr⟩ := hok
    refine ⟨r, hrr, ?_⟩
    obtain ⟨-, ps, hps, hget⟩ :=
      Obj.derivativeGeneric_rational_get o tol [[t0]] [1] [a] true r hr (by simp) hrr
    rw [hval] at hps
    injection hps with hps
    subst hps
    have hsz : 0 < (o.homJet tol (o.snapParams tol [[t0]]) [1] [a] true).size / o.ncomp := by
      rw [Obj.homJet1_size hb hs, hnc]; simp
    have h := hget 0 c (by rw [hdim']; exact hc) hsz
    have e0 : 0 * o.dimension + c = c := by simp
    rw [e0] at h
    rw [h]
    have k0c := Obj.homJet1_spec hb hv hper hs htol [t0] 0 a (i := 0) (c := c) (by simp) (by omega) hadm' hnot'
    have k1c := Obj.homJet1_spec hb hv hper hs htol [t0] 1 a (i := 0) (c := c) (by simp) (by omega) hadm' hnot'
    have k0w := Obj.homJet1_spec hb hv hper hs htol [t0] 0 a (i := 0) (c := dim) (by simp) (by omega) hadm' hnot'
    have k1w := Obj.homJet1_spec hb hv hper hs htol [t0] 1 a (i := 0) (c := dim) (by simp) (by omega) hadm' hnot'
    simp only [List.map_cons, List.map_nil, hnc, hdim', Nat.zero_mul, Nat.zero_add, List.getD_cons_zero]
      at k0c k1c k0w k1w ⊢
    rw [k0c, k1c, k0w, k1w]
    exact hasDerivWithinAt_quot1 (hdn 0) (hdW 0) hW
  · have h := Obj.curveDerivativeRational_get_two o tol [t0] a 0 c (by rw [hdim']; exact hc) (by simp)
    have e0 : 0 * o.dimension + c = c := by simp
    rw [e0] at h
    rw [h, jn 0, jn 1, jn 2, jW 0, jW 1, jW 2]
    exact hasDerivWithinAt_quot2 (hdn 0) (hdn 1) (hdW 0) (hdW 1) hW
  · have h := Obj.curveDerivativeRational_get_three o tol [t0] a 0 c (by rw [hdim']; exact hc) (by simp)
    have e0 : 0 * o.dimension + c = c := by simp
    rw [e0] at h
    rw [h, jn 0, jn 1, jn 2, jn 3, jW 0, jW 1, jW 2, jW 3]
    exact hasDerivWithinAt_quot3 (hdn 0) (hdn 1) (hdn 2) (hdW 0) (hdW 1) (hdW 2) hW

/-- **The quotient chain on a whole knot span** (specification level, any knots/coefficients): at every point
`t` of a non-empty span (on the side `s`) with non-zero weight sum, `first(n₀,n₁,W₀,W₁)` is the one-sided
derivative of `n₀/W₀`, `curveD2(…)` that of `first(…)`, `curveD3(…)` that of `curveD2(…)`. -/
theorem C03_quotient_chain (s : Side) (τ : ℕ → ℝ) (hτ : Monotone τ) (μ q n : ℕ) (Pc Pw : ℕ → ℝ) (t : ℝ)
    (h : s.mem (τ μ) (τ (μ+1)) t) :
    let nJ : ℕ → ℝ → ℝ := fun k x => splineDeriv s τ q n Pc k x
    let WJ : ℕ → ℝ → ℝ := fun k x => splineDeriv s τ q n Pw k x
    WJ 0 t ≠ 0 →
    HasDerivWithinAt (fun x => nJ 0 x / WJ 0 x)
      (RatDeriv.first (nJ 0 t) (nJ 1 t) (WJ 0 t) (WJ 1 t)) (sideSet s t) t ∧
    HasDerivWithinAt (fun x => RatDeriv.first (nJ 0 x) (nJ 1 x) (WJ 0 x) (WJ 1 x))
      (RatDeriv.curveD2 (nJ 0 t) (nJ 1 t) (nJ 2 t) (WJ 0 t) (WJ 1 t) (WJ 2 t)) (sideSet s t) t ∧
    HasDerivWithinAt (fun x => RatDeriv.curveD2 (nJ 0 x) (nJ 1 x) (nJ 2 x) (WJ 0 x) (WJ 1 x) (WJ 2 x))
      (RatDeriv.curveD3 (nJ 0 t) (nJ 1 t) (nJ 2 t) (nJ 3 t) (WJ 0 t) (WJ 1 t) (WJ 2 t) (WJ 3 t))
      (sideSet s t) t := by
  intro nJ WJ hW
  have hdn : ∀ k, HasDerivWithinAt (nJ k) (nJ (k+1) t) (sideSet s t) t := fun k =>
    hasDerivWithinAt_splineDeriv s τ hτ μ q n Pc k t h
  have hdW : ∀ k, HasDerivWithinAt (WJ k) (WJ (k+1) t) (sideSet s t) t := fun k =>
    hasDerivWithinAt_splineDeriv s τ hτ μ q n Pw k t h
  exact ⟨hasDerivWithinAt_quot1 (hdn 0) (hdW 0) hW,
    hasDerivWithinAt_quot2 (hdn 0) (hdn 1) (hdW 0) (hdW 1) hW,
    hasDerivWithinAt_quot3 (hdn 0) (hdn 1) (hdn 2) (hdW 0) (hdW 1) (hdW 2) hW⟩

/-- **Rational curve over ℝ: `derivative(d)` is the `d`-th iterated one-sided derivative of the evaluated map**,
`d = 1, 2, 3` (Mathlib's `iteratedDerivWithin` on `[t₀,∞)` for `above=True`, on `(-∞,t₀]` for `above=False`;
same setting as `C03_rational_curve_real`). -/
theorem C03_rational_curve_iterated {o : Obj ℝ} {b : Basis ℝ} (hb : o.bases = #[b]) (hv : b.Valid)
    (hper : b.periodic = -1) {dim : ℕ} (hs : o.cps.shape = [b.numFunctions, dim + 1])
    (hr : o.rational = true) {tol : ℝ} (htol : 0 < tol) (t0 : ℝ) (hadm : b.Admissible tol t0)
    (a : Bool) (hnot : ¬ (t0 = b.start ∧ a = false)) {c : ℕ} (hc : c < dim) :
    let s := effSide b t0 a
    let x : ℝ → ℝ := fun t =>
      splineDeriv s b.kn (b.order - 1) b.numFunctions (fun j => o.cps.get (j * (dim + 1) + c)) 0 t /
      splineDeriv s b.kn (b.order - 1) b.numFunctions (fun j => o.cps.get (j * (dim + 1) + dim)) 0 t
    splineDeriv s b.kn (b.order - 1) b.numFunctions (fun j => o.cps.get (j * (dim + 1) + dim)) 0 t0 ≠ 0 →
    (∃ r, o.derivativeGeneric tol [[t0]] [1] [a] true = .ok r ∧
      iteratedDerivWithin 1 x (sideSet s t0) t0 = r.get c) ∧
    iteratedDerivWithin 2 x (sideSet s t0) t0 = (o.curveDerivativeRational tol [t0] 2 a).get c ∧
    iteratedDerivWithin 3 x (sideSet s t0) t0 = (o.curveDerivativeRational tol [t0] 3 a).get c := by
  intro s x hW
  have hin := hadm.2.1 hper
  obtain ⟨μ, hμ⟩ := C03_exists_span hv hin.1 hin.2 a hnot
  have hU : UniqueDiffWithinAt ℝ (sideSet s t0) t0 := by
    unfold sideSet
    cases s
    · exact uniqueDiffOn_Ici t0 t0 Set.self_mem_Ici
    · exact uniqueDiffOn_Iic t0 t0 Set.self_mem_Iic
  obtain ⟨⟨r, hr1, hd1⟩, hd2, hd3⟩ :=
    C03_rational_curve_real hb hv hper hs hr htol t0 hadm a hnot hc hW
  obtain ⟨i1, i2, i3⟩ := iteratedDerivWithin_quotient s b.kn hv.kn_mono μ (b.order - 1) b.numFunctions
    (fun j => o.cps.get (j * (dim + 1) + c)) (fun j => o.cps.get (j * (dim + 1) + dim)) t0 hμ hW
  obtain ⟨q1, q2, q3⟩ := C03_quotient_chain s b.kn hv.kn_mono μ (b.order - 1) b.numFunctions
    (fun j => o.cps.get (j * (dim + 1) + c)) (fun j => o.cps.get (j * (dim + 1) + dim)) t0 hμ hW
  refine ⟨⟨r, hr1, ?_⟩, ?_, ?_⟩
  · rw [i1]; exact hU.eq_deriv _ q1 hd1
  · rw [i2]; exact hU.eq_deriv _ q2 hd2
  · rw [i3]; exact hU.eq_deriv _ q3 hd3

/-- **Rational curve over ℝ on ANY valid basis — periodic included.**  Same statement as
`C03_rational_curve_real`, with the rows read as ONE unwrapped spline: coefficients `P[i mod n]` over all `nAll`
functions (for a non-periodic basis `nAll = n`, nothing wraps), at the effective point/side
`(tₑ, s) = Basis.effPt b t₀ a` (non-periodic: `(t₀, effSide)`; periodic: the wrapped parameter, and the left limit at
the seam `start` is the left limit at `stop`).  `HasDerivWithinAt` and `iteratedDerivWithin` on `[tₑ,∞)` resp.
`(-∞,tₑ]`, orders 1 (generic quotient rule), 2 and 3 (closed forms). -/
theorem C03_rational_curve_real_any {o : Obj ℝ} {b : Basis ℝ} (hb : o.bases = #[b]) (hv : b.Valid)
    (hn : 0 < b.numFunctions) {dim : ℕ} (hs : o.cps.shape = [b.numFunctions, dim + 1])
    (hr : o.rational = true) {tol : ℝ} (htol : 0 < tol) (t0 : ℝ) (hadm : b.Admissible tol t0)
    (a : Bool) (hnot : b.periodic < 0 → ¬ (t0 = b.start ∧ a = false)) {c : ℕ} (hc : c < dim) :
    let s := (b.effPt t0 a).2
    let te := (b.effPt t0 a).1
    let nJ : ℕ → ℝ → ℝ := fun k t => splineDeriv s b.kn (b.order - 1) b.nAll
      (fun j => o.cps.get ((j % b.numFunctions) * (dim + 1) + c)) k t
    let WJ : ℕ → ℝ → ℝ := fun k t => splineDeriv s b.kn (b.order - 1) b.nAll
      (fun j => o.cps.get ((j % b.numFunctions) * (dim + 1) + dim)) k t
    let x : ℝ → ℝ := fun t => nJ 0 t / WJ 0 t
    WJ 0 te ≠ 0 →
    (∃ r, o.derivativeGeneric tol [[t0]] [1] [a] true = .ok r ∧
      HasDerivWithinAt x (r.get c) (sideSet s te) te ∧
      iteratedDerivWithin 1 x (sideSet s te) te = r.get c) ∧
    (HasDerivWithinAt (fun t => RatDeriv.first (nJ 0 t) (nJ 1 t) (WJ 0 t) (WJ 1 t))
        ((o.curveDerivativeRational tol [t0] 2 a).get c) (sideSet s te) te ∧
      iteratedDerivWithin 2 x (sideSet s te) te = (o.curveDerivativeRational tol [t0] 2 a).get c) ∧
    (HasDerivWithinAt (fun t => RatDeriv.curveD2 (nJ 0 t) (nJ 1 t) (nJ 2 t) (WJ 0 t) (WJ 1 t) (WJ 2 t))
        ((o.curveDerivativeRational tol [t0] 3 a).get c) (sideSet s te) te ∧
      iteratedDerivWithin 3 x (sideSet s te) te = (o.curveDerivativeRational tol [t0] 3 a).get c) := by
  intro s te nJ WJ x hW
  obtain ⟨hnc, hdim⟩ := Obj.dimension_of_shape (o := o) (pre := [b.numFunctions]) (nc := dim + 1) hs
  have hdim' : o.dimension = dim := by rw [hdim, hr]; simp
  have hmem := effPt_mem hv a (fun hp => hadm.2.1 (by have := hv.periodic_ge; omega)) hnot
  obtain ⟨μ, -, -, hμ⟩ := exists_span s b.kn hv.kn_mono _ _ te hmem
  obtain ⟨q1, q2, q3⟩ := C03_quotient_chain s b.kn hv.kn_mono μ (b.order - 1) b.nAll
    (fun j => o.cps.get ((j % b.numFunctions) * (dim + 1) + c))
    (fun j => o.cps.get ((j % b.numFunctions) * (dim + 1) + dim)) te hμ hW
  obtain ⟨i1, i2, i3⟩ := iteratedDerivWithin_quotient s b.kn hv.kn_mono μ (b.order - 1) b.nAll
    (fun j => o.cps.get ((j % b.numFunctions) * (dim + 1) + c))
    (fun j => o.cps.get ((j % b.numFunctions) * (dim + 1) + dim)) te hμ hW
  have hadm' : b.Admissible tol ([t0].getD 0 0) := by simpa using hadm
  have hnot' : b.periodic < 0 → ¬ (([t0] : List ℝ).getD 0 0 = b.start ∧ a = false) := by simpa using hnot
  have jn : ∀ k, (o.curveJet tol [t0] k a).get (0 * o.ncomp + c) = nJ k te := by
    intro k
    rw [hnc]
    have := Obj.curveJet_spec_any hb hv hn hs htol [t0] k a (i := 0) (c := c) (by simp) (by omega) hadm' hnot'
    simpa using this
  have jW : ∀ k, (o.curveJet tol [t0] k a).get (0 * o.ncomp + o.dimension) = WJ k te := by
    intro k
    rw [hnc, hdim']
    have := Obj.curveJet_spec_any hb hv hn hs htol [t0] k a (i := 0) (c := dim) (by simp) (by omega) hadm' hnot'
    simpa using this
  refine ⟨?_, ?_, ?_⟩
  · have hus : ∀ u ∈ [t0], b.Admissible tol u := by intro u hu; simp at hu; rw [hu]; exact hadm
    have hdom := Obj.not_outOfDomain1 hb hv htol hus
    have hval := o.validateDomain_ok tol [[t0]] hdom
    have hok : ∃ r, o.derivativeGeneric tol [[t0]] [1] [a] true = .ok r := by
      unfold Obj.derivativeGeneric
      rw [if_neg (by simp), hval]
      simp [hr]
    obtain ⟨r, hrr⟩ := hok
    obtain ⟨-, ps, hps, hget⟩ :=
      Obj.derivativeGeneric_rational_get o tol [[t0]] [1] [a] true r hr (by simp) hrr
    rw [hval] at hps
    injection hps with hps
    subst hps
    have hsz : 0 < (o.homJet tol (o.snapParams tol [[t0]]) [1] [a] true).size / o.ncomp := by
      rw [Obj.homJet1_size hb hs, hnc]; simp
    have h := hget 0 c (by rw [hdim']; exact hc) hsz
    have e0 : 0 * o.dimension + c = c := by simp
    rw [e0] at h
    have k0c := Obj.homJet1_spec_any hb hv hn hs htol [t0] 0 a (i := 0) (c := c) (by simp) (by omega) hadm' hnot'
    have k1c := Obj.homJet1_spec_any hb hv hn hs htol [t0] 1 a (i := 0) (c := c) (by simp) (by omega) hadm' hnot'
    have k0w := Obj.homJet1_spec_any hb hv hn hs htol [t0] 0 a (i := 0) (c := dim) (by simp) (by omega) hadm' hnot'
    have k1w := Obj.homJet1_spec_any hb hv hn hs htol [t0] 1 a (i := 0) (c := dim) (by simp) (by omega) hadm' hnot'
    simp only [List.map_cons, List.map_nil, hnc, hdim', Nat.zero_mul, Nat.zero_add, List.getD_cons_zero]
      at k0c k1c k0w k1w h
    rw [k0c, k1c, k0w, k1w] at h
    refine ⟨r, hrr, ?_, ?_⟩
    · rw [h]; exact q1
    · rw [h]; exact i1
  · have h := Obj.curveDerivativeRational_get_two o tol [t0] a 0 c (by rw [hdim']; exact hc) (by simp)
    have e0 : 0 * o.dimension + c = c := by simp
    rw [e0] at h
    rw [h, jn 0, jn 1, jn 2, jW 0, jW 1, jW 2]
    exact ⟨q2, i2⟩
  · have h := Obj.curveDerivativeRational_get_three o tol [t0] a 0 c (by rw [hdim']; exact hc) (by simp)
    have e0 : 0 * o.dimension + c = c := by simp
    rw [e0] at h
    rw [h, jn 0, jn 1, jn 2, jn 3, jW 0, jW 1, jW 2, jW 3]
    exact ⟨q3, i3⟩

/-- **Rational surface over ℝ, first-order partials.**  `o` a rational surface on valid bases, `(u₀, v₀)`
admissible.  For the `u`-partial (`d=(1,0)`): `b1` non-periodic, `u₀` not its start approached from the left;
`s = effSide b1 u₀ a₁`; with the `u`-coefficients (the `v`-direction already contracted at `v₀` from the side `a₂`)
`cN j₁ = Σ_{j₂} rowSpec²(v₀,a₂)_{j₂} P[j₁,j₂,c]`, `cW j₁ = Σ_{j₂} rowSpec²(v₀,a₂)_{j₂} w[j₁,j₂]`, the map
`u ↦ x(u, v₀) = (Σ cN·B(u)) / (Σ cW·B(u))` is the evaluated map along the line `v = v₀`, and
`derivative(u₀, v₀, d=(1,0), above=(a₁,a₂))` is its one-sided derivative at `u₀` (`HasDerivWithinAt`).
Symmetrically for the `v`-partial (`d=(0,1)`). -/
theorem C03_rational_surface_real {o : Obj ℝ} {b1 b2 : Basis ℝ} (hb : o.bases = #[b1, b2])
    (hv1 : b1.Valid) (hv2 : b2.Valid) {dim : ℕ}
    (hs : o.cps.shape = [b1.numFunctions, b2.numFunctions, dim + 1]) (hr : o.rational = true)
    {tol : ℝ} (htol : 0 < tol) (u0 v0 : ℝ) (hu : b1.Admissible tol u0) (hvv : b2.Admissible tol v0)
    (a1 a2 : Bool) {c : ℕ} (hc : c < dim) :
    (b1.periodic = -1 → ¬ (u0 = b1.start ∧ a1 = false) →
      let s := effSide b1 u0 a1
      let cf : ℕ → ℕ → ℝ := fun cc j1 => ∑ j2 ∈ Finset.range b2.numFunctions,
        b2.rowSpec v0 a2 0 j2 * o.cps.get ((j1 * b2.numFunctions + j2) * (dim + 1) + cc)
      let nJ : ℕ → ℝ → ℝ := fun k u => splineDeriv s b1.kn (b1.order - 1) b1.numFunctions (cf c) k u
      let WJ : ℕ → ℝ → ℝ := fun k u => splineDeriv s b1.kn (b1.order - 1) b1.numFunctions (cf dim) k u
      WJ 0 u0 ≠ 0 →
      ∃ r, o.derivativeGeneric tol [[u0], [v0]] [1, 0] [a1, a2] true = .ok r ∧
        HasDerivWithinAt (fun u => nJ 0 u / WJ 0 u) (r.get c) (sideSet s u0) u0) ∧
    (b2.periodic = -1 → ¬ (v0 = b2.start ∧ a2 = false) →
      let s := effSide b2 v0 a2
      let cf : ℕ → ℕ → ℝ := fun cc j2 => ∑ j1 ∈ Finset.range b1.numFunctions,
        b1.rowSpec u0 a1 0 j1 * o.cps.get ((j1 * b2.numFunctions + j2) * (dim + 1) + cc)
      let nJ : ℕ → ℝ → ℝ := fun k v => splineDeriv s b2.kn (b2.order - 1) b2.numFunctions (cf c) k v
      let WJ : ℕ → ℝ → ℝ := fun k v => splineDeriv s b2.kn (b2.order - 1) b2.numFunctions (cf dim) k v
      WJ 0 v0 ≠ 0 →
      ∃ r, o.derivativeGeneric tol [[u0], [v0]] [0, 1] [a1, a2] true = .ok r ∧
        HasDerivWithinAt (fun v => nJ 0 v / WJ 0 v) (r.get c) (sideSet s v0) v0) := by
  obtain ⟨hnc, hdim⟩ := Obj.dimension_of_shape (o := o) (pre := [b1.numFunctions, b2.numFunctions])
    (nc := dim + 1) hs
  have hdim' : o.dimension = dim := by rw [hdim, hr]; simp
  have hus : ∀ u ∈ [u0], b1.Admissible tol u := by intro u h; simp at h; rw [h]; exact hu
  have hvs : ∀ v ∈ [v0], b2.Admissible tol v := by intro v h; simp at h; rw [h]; exact hvv
  have hdom := Obj.not_outOfDomain2 hb hv1 hv2 htol hus hvs
  have hval := o.validateDomain_ok tol [[u0], [v0]] hdom
  have hu' : b1.Admissible tol ([u0].getD 0 0) := by simpa using hu
  have hv' : b2.Admissible tol ([v0].getD 0 0) := by simpa using hvv
  have hsz : ∀ d1 d2, 0 < (o.homJet tol (o.snapParams tol [[u0], [v0]]) [d1, d2] [a1, a2] true).size
      / o.ncomp := by
    intro d1 d2; rw [Obj.homJet2_size hb hs, hnc]; simp
  have hok : ∀ d1 d2, d1 + d2 = 1 →
      ∃ r, o.derivativeGeneric tol [[u0], [v0]] [d1, d2] [a1, a2] true = .ok r := by
    intro d1 d2 hd
    unfold Obj.derivativeGeneric
    rw [if_neg (by simp), hval]
    have h1 : ¬ [d1, d2].sum > 1 := by simp; omega
    have h0 : ¬ [d1, d2].sum = 0 := by simp; omega
    simp only [hr, if_true]
    rw [if_neg h1, if_neg h0]
    exact ⟨_, rfl⟩
  constructor
  · intro hper hnot s cf nJ WJ hW
    have hin := hu.2.1 hper
    obtain ⟨μ, hμ⟩ := C03_exists_span hv1 hin.1 hin.2 a1 hnot
    have hnot' : ¬ (([u0] : List ℝ).getD 0 0 = b1.start ∧ a1 = false) := by simpa using hnot
    obtain ⟨r, hrr⟩ := hok 1 0 rfl
    refine ⟨r, hrr, ?_⟩
    obtain ⟨-, ps, hps, hget⟩ :=
      Obj.derivativeGeneric_rational_get o tol [[u0], [v0]] [1, 0] [a1, a2] true r hr (by simp) hrr
    rw [hval] at hps
    injection hps with hps
    subst hps
    have h := hget 0 c (by rw [hdim']; exact hc) (hsz 1 0)
    have e0 : 0 * o.dimension + c = c := by simp
    rw [e0] at h
    rw [h]
    have k0c := Obj.homJet2_spec_u hb hv1 hv2 hper hs htol [u0] [v0] 0 0 a1 a2 (i1 := 0) (i2 := 0)
      (c := c) (by simp) (by simp) (by omega) hu' hv' hnot'
    have k1c := Obj.homJet2_spec_u hb hv1 hv2 hper hs htol [u0] [v0] 1 0 a1 a2 (i1 := 0) (i2 := 0)
      (c := c) (by simp) (by simp) (by omega) hu' hv' hnot'
    have k0w := Obj.homJet2_spec_u hb hv1 hv2 hper hs htol [u0] [v0] 0 0 a1 a2 (i1 := 0) (i2 := 0)
      (c := dim) (by simp) (by simp) (by omega) hu' hv' hnot'
    have k1w := Obj.homJet2_spec_u hb hv1 hv2 hper hs htol [u0] [v0] 1 0 a1 a2 (i1 := 0) (i2 := 0)
      (c := dim) (by simp) (by simp) (by omega) hu' hv' hnot'
    simp only [List.map_cons, List.map_nil, hnc, hdim', Nat.zero_mul, Nat.zero_add, List.getD_cons_zero,
      List.length_cons, List.length_nil] at k0c k1c k0w k1w ⊢
    rw [k0c, k1c, k0w, k1w]
    exact hasDerivWithinAt_quot1
      (hasDerivWithinAt_splineDeriv s b1.kn hv1.kn_mono μ _ _ _ 0 u0 hμ)
      (hasDerivWithinAt_splineDeriv s b1.kn hv1.kn_mono μ _ _ _ 0 u0 hμ) hW
  · intro hper hnot s cf nJ WJ hW
    have hin := hvv.2.1 hper
    obtain ⟨μ, hμ⟩ := C03_exists_span hv2 hin.1 hin.2 a2 hnot
    have hnot' : ¬ (([v0] : List ℝ).getD 0 0 = b2.start ∧ a2 = false) := by simpa using hnot
    obtain ⟨r, hrr⟩ := hok 0 1 rfl
    refine ⟨r, hrr, ?_⟩
    obtain ⟨-, ps, hps, hget⟩ :=
      Obj.derivativeGeneric_rational_get o tol [[u0], [v0]] [0, 1] [a1, a2] true r hr (by simp) hrr
    rw [hval] at hps
    injection hps with hps
    subst hps
    have h := hget 0 c (by rw [hdim']; exact hc) (hsz 0 1)
    have e0 : 0 * o.dimension + c = c := by simp
    rw [e0] at h
    rw [h]
    have k0c := Obj.homJet2_spec_v hb hv1 hv2 hper hs htol [u0] [v0] 0 0 a1 a2 (i1 := 0) (i2 := 0)
      (c := c) (by simp) (by simp) (by omega) hu' hv' hnot'
    have k1c := Obj.homJet2_spec_v hb hv1 hv2 hper hs htol [u0] [v0] 0 1 a1 a2 (i1 := 0) (i2 := 0)
      (c := c) (by simp) (by simp) (by omega) hu' hv' hnot'
    have k0w := Obj.homJet2_spec_v hb hv1 hv2 hper hs htol [u0] [v0] 0 0 a1 a2 (i1 := 0) (i2 := 0)
      (c := dim) (by simp) (by simp) (by omega) hu' hv' hnot'
    have k1w := Obj.homJet2_spec_v hb hv1 hv2 hper hs htol [u0] [v0] 0 1 a1 a2 (i1 := 0) (i2 := 0)
      (c := dim) (by simp) (by simp) (by omega) hu' hv' hnot'
    simp only [List.map_cons, List.map_nil, hnc, hdim', Nat.zero_mul, Nat.zero_add, List.getD_cons_zero,
      List.length_cons, List.length_nil] at k0c k1c k0w k1w ⊢
    rw [k0c, k1c, k0w, k1w]
    exact hasDerivWithinAt_quot1
      (hasDerivWithinAt_splineDeriv s b2.kn hv2.kn_mono μ _ _ _ 0 v0 hμ)
      (hasDerivWithinAt_splineDeriv s b2.kn hv2.kn_mono μ _ _ _ 0 v0 hμ) hW

/-- **Rational surface over ℝ: the closed forms of total order 2 and 3 are iterated one-variable derivatives —
no Leibniz hypothesis.**  `o` a rational surface on valid non-periodic bases, `(u₀, v₀)` admissible (not a domain
start approached from the left), sides `fu`, `fv`, `s₁ = effSide b1 u₀ fu`, `s₂ = effSide b2 v₀ fv`.  Write
`U a k cc (u) = Σ_{j₁} dB^{(a)}_{j₁}(u) · Σ_{j₂} rowSpec²(v₀, fv, k)_{j₂} P[j₁,j₂,cc]` (the `(a,k)` jet of homogeneous
component `cc` as a function of `u`, `v₀` fixed) and `V a k cc (v)` likewise as a function of `v` (`u₀` fixed);
`cc = c` numerator, `cc = dim` weight.  If the weight `U 0 0 dim u₀ ≠ 0`:
* `d = (2,0), (3,0)`: the model value is `iteratedDerivWithin 2` resp. `3` of `u ↦ U 0 0 c u / U 0 0 dim u = x(u, v₀)`;
* `d = (0,2), (0,3)`: likewise in `v` for `v ↦ x(u₀, v)`;
* `d = (1,1)`: the model value is the one-sided `v`-derivative at `v₀` of `v ↦ ∂_u x(u₀, v)` (`first` of the `V`-jets,
  which `C03_rational_surface_real` identifies with the `u`-partial);
* `d = (2,1)`: the `v`-derivative of `v ↦ ∂²_u x(u₀, v)` (`curveD2` of the `V`-jets);
* `d = (1,2)`: the `u`-derivative of `u ↦ ∂²_v x(u, v₀)` (`curveD2` of the `U`-jets in the `v`-orders).
All seven calls succeed (`tensor=True`). -/
theorem C03_rational_surface_closed_real {o : Obj ℝ} {b1 b2 : Basis ℝ} (hb : o.bases = #[b1, b2])
    (hv1 : b1.Valid) (hv2 : b2.Valid) (hp1 : b1.periodic = -1) (hp2 : b2.periodic = -1) {dim : ℕ}
    (hs : o.cps.shape = [b1.numFunctions, b2.numFunctions, dim + 1]) {tol : ℝ} (htol : 0 < tol)
    (u0 v0 : ℝ) (hu : b1.Admissible tol u0) (hvv : b2.Admissible tol v0) (fu fv : Bool)
    (hnu : ¬ (u0 = b1.start ∧ fu = false)) (hnv : ¬ (v0 = b2.start ∧ fv = false)) {c : ℕ} (hc : c < dim)
    (hr : o.rational = true) :
    let s1 := effSide b1 u0 fu
    let s2 := effSide b2 v0 fv
    let U : ℕ → ℕ → ℕ → ℝ → ℝ := fun a k cc u =>
      splineDeriv s1 b1.kn (b1.order - 1) b1.numFunctions
        (fun j1 => ∑ j2 ∈ Finset.range b2.numFunctions,
          b2.rowSpec v0 fv k j2 * o.cps.get ((j1 * b2.numFunctions + j2) * (dim + 1) + cc)) a u
    let V : ℕ → ℕ → ℕ → ℝ → ℝ := fun a k cc v =>
      splineDeriv s2 b2.kn (b2.order - 1) b2.numFunctions
        (fun j2 => ∑ j1 ∈ Finset.range b1.numFunctions,
          b1.rowSpec u0 fu a j1 * o.cps.get ((j1 * b2.numFunctions + j2) * (dim + 1) + cc)) k v
    let call := fun du dv => o.surfaceDerivativeRational tol [u0] [v0] du dv fu fv true
    U 0 0 dim u0 ≠ 0 →
    (∃ r, call 2 0 = .ok r ∧
      iteratedDerivWithin 2 (fun u => U 0 0 c u / U 0 0 dim u) (sideSet s1 u0) u0 = r.get c) ∧
    (∃ r, call 3 0 = .ok r ∧
      iteratedDerivWithin 3 (fun u => U 0 0 c u / U 0 0 dim u) (sideSet s1 u0) u0 = r.get c) ∧
    (∃ r, call 0 2 = .ok r ∧
      iteratedDerivWithin 2 (fun v => V 0 0 c v / V 0 0 dim v) (sideSet s2 v0) v0 = r.get c) ∧
    (∃ r, call 0 3 = .ok r ∧
      iteratedDerivWithin 3 (fun v => V 0 0 c v / V 0 0 dim v) (sideSet s2 v0) v0 = r.get c) ∧
    (∃ r, call 1 1 = .ok r ∧
      HasDerivWithinAt (fun v => RatDeriv.first (V 0 0 c v) (V 1 0 c v) (V 0 0 dim v) (V 1 0 dim v))
        (r.get c) (sideSet s2 v0) v0) ∧
    (∃ r, call 2 1 = .ok r ∧
      HasDerivWithinAt (fun v => RatDeriv.curveD2 (V 0 0 c v) (V 1 0 c v) (V 2 0 c v)
          (V 0 0 dim v) (V 1 0 dim v) (V 2 0 dim v)) (r.get c) (sideSet s2 v0) v0) ∧
    (∃ r, call 1 2 = .ok r ∧
      HasDerivWithinAt (fun u => RatDeriv.curveD2 (U 0 0 c u) (U 0 1 c u) (U 0 2 c u)
          (U 0 0 dim u) (U 0 1 dim u) (U 0 2 dim u)) (r.get c) (sideSet s1 u0) u0) := by
  intro s1 s2 U V call hW
  obtain ⟨hnco, hdim⟩ := Obj.dimension_of_shape (o := o) (pre := [b1.numFunctions, b2.numFunctions])
    (nc := dim + 1) hs
  have hdimo : o.dimension = dim := by rw [hdim, hr]; simp
  have hinu := hu.2.1 hp1
  have hinv := hvv.2.1 hp2
  obtain ⟨μ1, hμ1⟩ := C03_exists_span hv1 hinu.1 hinu.2 fu hnu
  obtain ⟨μ2, hμ2⟩ := C03_exists_span hv2 hinv.1 hinv.2 fv hnv
  have hu' : b1.Admissible tol ([u0].getD 0 0) := by simpa using hu
  have hv' : b2.Admissible tol ([v0].getD 0 0) := by simpa using hvv
  have hnu' : ¬ (([u0] : List ℝ).getD 0 0 = b1.start ∧ fu = false) := by simpa using hnu
  have hnv' : ¬ (([v0] : List ℝ).getD 0 0 = b2.start ∧ fv = false) := by simpa using hnv
  -- the jets of the closed-form section, as functions of `u` and of `v`
  have JU : ∀ a k cc, cc < dim + 1 →
      (o.surfJet tol [u0] [v0] fu fv a k).get (0 * o.ncomp + cc) = U a k cc u0 := by
    intro a k cc hcc
    have := Obj.surfJet_spec_u hb hv1 hv2 hp1 hs htol [u0] [v0] fu fv a k (i1 := 0) (i2 := 0) (cc := cc)
      (by simp) (by simp) hcc hu' hv' hnu'
    simpa [hnco] using this
  have JV : ∀ a k cc, cc < dim + 1 →
      (o.surfJet tol [u0] [v0] fu fv a k).get (0 * o.ncomp + cc) = V a k cc v0 := by
    intro a k cc hcc
    have := Obj.surfJet_spec_v hb hv1 hv2 hp2 hs htol [u0] [v0] fu fv a k (i1 := 0) (i2 := 0) (cc := cc)
      (by simp) (by simp) hcc hu' hv' hnv'
    simpa [hnco] using this
  have UV : ∀ a k cc, cc < dim + 1 → U a k cc u0 = V a k cc v0 := fun a k cc hcc =>
    (JU a k cc hcc).symm.trans (JV a k cc hcc)
  have dU : ∀ a k cc, HasDerivWithinAt (U a k cc) (U (a+1) k cc u0) (sideSet s1 u0) u0 := fun a k cc =>
    hasDerivWithinAt_splineDeriv s1 b1.kn hv1.kn_mono μ1 _ _ _ a u0 hμ1
  have dV : ∀ a k cc, HasDerivWithinAt (V a k cc) (V a (k+1) cc v0) (sideSet s2 v0) v0 := fun a k cc =>
    hasDerivWithinAt_splineDeriv s2 b2.kn hv2.kn_mono μ2 _ _ _ k v0 hμ2
  have hWV : V 0 0 dim v0 ≠ 0 := by rw [← UV 0 0 dim (by omega)]; exact hW
  -- the model entries
  have hent : ∀ du dv, 2 ≤ du + dv → du + dv ≤ 3 → ∃ r, call du dv = .ok r ∧
      RatDeriv.surfD (o.surfJetAt tol [u0] [v0] fu fv 0 c) (o.surfJetAt tol [u0] [v0] fu fv 0 o.dimension)
        du dv = some (r.get c) := by
    intro du dv h2 h3
    obtain ⟨r, hr1, hget⟩ := Obj.surfaceDerivativeRational_get o tol [u0] [v0] du dv fu fv h2 h3
    refine ⟨r, hr1, ?_⟩
    have := hget 0 c (by rw [hdimo]; exact hc) (by simp)
    simpa using this
  have fN : ∀ a k, ((o.surfJet tol [u0] [v0] fu fv a k).get (0 * o.ncomp + c)) = U a k c u0 :=
    fun a k => JU a k c (by omega)
  have fW : ∀ a k, ((o.surfJet tol [u0] [v0] fu fv a k).get (0 * o.ncomp + o.dimension)) = U a k dim u0 := by
    intro a k; rw [hdimo]; exact JU a k dim (by omega)
  obtain ⟨iu1, iu2, iu3⟩ := iteratedDerivWithin_quotient s1 b1.kn hv1.kn_mono μ1 (b1.order - 1)
    b1.numFunctions _ _ u0 hμ1 hW
  obtain ⟨iv1, iv2, iv3⟩ := iteratedDerivWithin_quotient s2 b2.kn hv2.kn_mono μ2 (b2.order - 1)
    b2.numFunctions _ _ v0 hμ2 hWV
  refine ⟨?_, ?_, ?_, ?_, ?_, ?_, ?_⟩
  · obtain ⟨r, hr1, he⟩ := hent 2 0 (by omega) (by omega)
    refine ⟨r, hr1, ?_⟩
    have : r.get c = RatDeriv.surfD20 (o.surfJetAt tol [u0] [v0] fu fv 0 c)
        (o.surfJetAt tol [u0] [v0] fu fv 0 o.dimension) := (Option.some.inj he).symm
    rw [this, surfD20_eq_curveD2, iu2]
    simp only [Obj.surfJetAt, fN, fW]
    rfl
  · obtain ⟨r, hr1, he⟩ := hent 3 0 (by omega) (by omega)
    refine ⟨r, hr1, ?_⟩
    have : r.get c = RatDeriv.surfD30 (o.surfJetAt tol [u0] [v0] fu fv 0 c)
        (o.surfJetAt tol [u0] [v0] fu fv 0 o.dimension) := (Option.some.inj he).symm
    rw [this, surfD30_eq_curveD3, iu3]
    simp only [Obj.surfJetAt, fN, fW]
    rfl
  · obtain ⟨r, hr1, he⟩ := hent 0 2 (by omega) (by omega)
    refine ⟨r, hr1, ?_⟩
    have : r.get c = RatDeriv.surfD02 (o.surfJetAt tol [u0] [v0] fu fv 0 c)
        (o.surfJetAt tol [u0] [v0] fu fv 0 o.dimension) := (Option.some.inj he).symm
    rw [this, surfD02_eq_curveD2, iv2]
    simp only [Obj.surfJetAt, fN, fW, UV _ _ _ (by omega : c < dim + 1), UV _ _ _ (by omega : dim < dim + 1)]
    rfl
  · obtain ⟨r, hr1, he⟩ := hent 0 3 (by omega) (by omega)
    refine ⟨r, hr1, ?_⟩
    have : r.get c = RatDeriv.surfD03 (o.surfJetAt tol [u0] [v0] fu fv 0 c)
        (o.surfJetAt tol [u0] [v0] fu fv 0 o.dimension) := (Option.some.inj he).symm
    rw [this, surfD03_eq_curveD3, iv3]
    simp only [Obj.surfJetAt, fN, fW, UV _ _ _ (by omega : c < dim + 1), UV _ _ _ (by omega : dim < dim + 1)]
    rfl
  · obtain ⟨r, hr1, he⟩ := hent 1 1 (by omega) (by omega)
    refine ⟨r, hr1, ?_⟩
    have : r.get c = RatDeriv.surfD11 (o.surfJetAt tol [u0] [v0] fu fv 0 c)
        (o.surfJetAt tol [u0] [v0] fu fv 0 o.dimension) := (Option.some.inj he).symm
    rw [this]
    refine hasDerivWithinAt_quot11 (n01 := V 0 1 c) (n11 := V 1 1 c) (W01 := V 0 1 dim) (W11 := V 1 1 dim)
      (dV 0 0 c) (dV 1 0 c) (dV 0 0 dim) (dV 1 0 dim) hWV _ _ ?_ ?_
    · simp only [Obj.surfJetAt, fN, UV _ _ _ (by omega : c < dim + 1)]
      simp
    · simp only [Obj.surfJetAt, fW, UV _ _ _ (by omega : dim < dim + 1)]
      simp
  · obtain ⟨r, hr1, he⟩ := hent 2 1 (by omega) (by omega)
    refine ⟨r, hr1, ?_⟩
    have : r.get c = RatDeriv.surfD21 (o.surfJetAt tol [u0] [v0] fu fv 0 c)
        (o.surfJetAt tol [u0] [v0] fu fv 0 o.dimension) := (Option.some.inj he).symm
    rw [this]
    refine hasDerivWithinAt_quot21 (n01 := V 0 1 c) (n11 := V 1 1 c) (n21 := V 2 1 c)
      (W01 := V 0 1 dim) (W11 := V 1 1 dim) (W21 := V 2 1 dim)
      (dV 0 0 c) (dV 1 0 c) (dV 2 0 c) (dV 0 0 dim) (dV 1 0 dim) (dV 2 0 dim) hWV _ _ ?_ ?_
    · simp only [Obj.surfJetAt, fN, UV _ _ _ (by omega : c < dim + 1)]
      simp
    · simp only [Obj.surfJetAt, fW, UV _ _ _ (by omega : dim < dim + 1)]
      simp
  · obtain ⟨r, hr1, he⟩ := hent 1 2 (by omega) (by omega)
    refine ⟨r, hr1, ?_⟩
    have : r.get c = RatDeriv.surfD12 (o.surfJetAt tol [u0] [v0] fu fv 0 c)
        (o.surfJetAt tol [u0] [v0] fu fv 0 o.dimension) := (Option.some.inj he).symm
    rw [this]
    refine hasDerivWithinAt_quot12 (m10 := U 1 0 c) (m11 := U 1 1 c) (m12 := U 1 2 c)
      (V10 := U 1 0 dim) (V11 := U 1 1 dim) (V12 := U 1 2 dim)
      (dU 0 0 c) (dU 0 1 c) (dU 0 2 c) (dU 0 0 dim) (dU 0 1 dim) (dU 0 2 dim) hW _ _ ?_ ?_
    · simp only [Obj.surfJetAt, fN]
      simp
    · simp only [Obj.surfJetAt, fW]
      simp

end real

/-! ## Dispatch -/

/-- **Dispatch, curves.**  Let `f` be a dispatch function (in the check: the table translated from the
current source of `Curve.derivative`) that is sound at the call (`f rational d = expected rational idx`,
discharged for the generated table by `Generated.C03Obligations` through `soundOn_spec`).  Then the call
computes the proved closed form of its multi-index — from the side `above` (or `above[0]` for a sequence;
IndexError for an empty one) — when the object is rational of order 2–3, and the generic method on that
multi-index otherwise (which refuses rational orders > 1, `C03_rational_refuses`). -/
theorem C03_dispatch_curve (f : Bool → DSpec → Outcome) (o : Obj K) (tol : K) (ts : List K) (d : DSpec)
    (idx : List ℕ) (above : ASpec) (tensor : Bool) (hm : meaning 1 d = some idx)
    (hf : f o.rational d = expected o.rational idx) :
    o.curveDerivativeWith f tol ts d above tensor =
      if o.rational = true ∧ 2 ≤ idx.sum ∧ idx.sum ≤ 3 then
        (match above.selfOrHead with
         | none => .error .index
         | some a => .ok (o.curveDerivativeRational tol ts (idx.getD 0 0) a))
      else o.derivativeGeneric tol [ts] idx (above.norm 1) tensor := by
  have hlen : ∃ n, idx = [n] := by
    cases d with
    | int n => exact ⟨n, by simpa [meaning] using hm.symm⟩
    | tup l =>
      simp only [meaning] at hm
      split at hm
      · rename_i hl
        injection hm with hm; subst hm
        match l, hl with
        | [n], _ => exact ⟨n, rfl⟩
      · exact absurd hm (by simp)
    | lst l =>
      simp only [meaning] at hm
      split at hm
      · rename_i hl
        injection hm with hm; subst hm
        match l, hl with
        | [n], _ => exact ⟨n, rfl⟩
      · exact absurd hm (by simp)
  obtain ⟨n, rfl⟩ := hlen
  unfold Obj.curveDerivativeWith
  rw [hf]
  unfold expected
  have hsum : [n].sum = n := by simp
  rw [hsum]
  by_cases hc : o.rational = true ∧ 2 ≤ n ∧ n ≤ 3
  · rw [if_pos hc]
    obtain ⟨h1, h2, h3⟩ := hc
    simp only [h1, h2, h3, decide_true, Bool.and_self, if_true, List.getD_cons_zero]
    cases above.selfOrHead <;> rfl
  · rw [if_neg hc]
    have : (o.rational && decide (2 ≤ n) && decide (n ≤ 3)) = false := by
      rw [Bool.eq_false_iff]
      intro h
      apply hc
      simpa [Bool.and_eq_true, and_assoc] using h
    rw [this]
    simp

/-- **Dispatch, surfaces** (same reading as `C03_dispatch_curve`; sides `above[0]`, `above[1]` of the
normalised `above`; the `ValueError` is `einsum` rejecting `tensor=False` with different numbers of `u` and `v`). -/
theorem C03_dispatch_surface (f : Bool → DSpec → Outcome) (o : Obj K) (tol : K) (us vs : List K)
    (d : DSpec) (idx : List ℕ) (above : ASpec) (tensor : Bool) (hm : meaning 2 d = some idx)
    (hf : f o.rational d = expected o.rational idx) :
    o.surfaceDerivativeWith f tol us vs d above tensor =
      if o.rational = true ∧ 2 ≤ idx.sum ∧ idx.sum ≤ 3 then
        (match above.norm 2 with
         | fu :: fv :: _ =>
           if !tensor ∧ us.length ≠ vs.length then .error .value
           else o.surfaceDerivativeRational tol us vs (idx.getD 0 0) (idx.getD 1 0) fu fv tensor
         | _ => .error .index)
      else o.derivativeGeneric tol [us, vs] idx (above.norm 2) tensor := by
  have hlen : ∃ a b, idx = [a, b] := by
    cases d with
    | int n => exact ⟨n, n, by simpa [meaning, List.replicate] using hm.symm⟩
    | tup l =>
      simp only [meaning] at hm
      split at hm
      · rename_i hl
        injection hm with hm; subst hm
        match l, hl with
        | [a, b], _ => exact ⟨a, b, rfl⟩
      · exact absurd hm (by simp)
    | lst l =>
      simp only [meaning] at hm
      split at hm
      · rename_i hl
        injection hm with hm; subst hm
        match l, hl with
        | [a, b], _ => exact ⟨a, b, rfl⟩
      · exact absurd hm (by simp)
  obtain ⟨a, b, rfl⟩ := hlen
  unfold Obj.surfaceDerivativeWith
  simp only [ASpec.norm_idem]
  rw [hf]
  unfold expected
  have hsum : [a, b].sum = a + b := by simp
  rw [hsum]
  by_cases hc : o.rational = true ∧ 2 ≤ a + b ∧ a + b ≤ 3
  · rw [if_pos hc]
    obtain ⟨h1, h2, h3⟩ := hc
    simp only [h1, h2, h3, decide_true, Bool.and_self, if_true]
    rcases above.norm 2 with _ | ⟨fu, _ | ⟨fv, tl⟩⟩ <;> rfl
  · rw [if_neg hc]
    have : (o.rational && decide (2 ≤ a + b) && decide (a + b ≤ 3)) = false := by
      rw [Bool.eq_false_iff]
      intro h
      apply hc
      simpa [Bool.and_eq_true, and_assoc] using h
    rw [this]
    simp

/-- **Dispatch: unsupported orders raise.**  Under a sound dispatch a rational curve or surface asked for
a total order above 3 never returns numbers. -/
theorem C03_dispatch_unsupported_raises (f : Bool → DSpec → Outcome) (o : Obj K) (tol : K) (us vs : List K)
    (d : DSpec) (idx : List ℕ) (above : ASpec) (tensor : Bool) (hr : o.rational = true)
    (hbig : 3 < idx.sum) (r : Tensor K) :
    (meaning 1 d = some idx → f o.rational d = expected o.rational idx →
      o.curveDerivativeWith f tol us d above tensor ≠ .ok r) ∧
    (meaning 2 d = some idx → f o.rational d = expected o.rational idx →
      o.surfaceDerivativeWith f tol us vs d above tensor ≠ .ok r) := by
  constructor
  · intro hm hf
    rw [C03_dispatch_curve f o tol us d idx above tensor hm hf, if_neg (by omega)]
    exact Obj.derivativeGeneric_rational_refuses o tol _ idx _ tensor hr (by omega) r
  · intro hm hf
    rw [C03_dispatch_surface f o tol us vs d idx above tensor hm hf, if_neg (by omega)]
    exact Obj.derivativeGeneric_rational_refuses o tol _ idx _ tensor hr (by omega) r

/-- **C03_dispatch** (source-derived form).  `fc`, `fs` are the dispatch functions of `Curve.derivative` and
`Surface.derivative` — in the check they are `Generated.C03.curveTable.outcome` / `surfaceTable.outcome`,
translated from the current source on every run — and `soundOn … = true` are exactly the generated
obligations `C03_dispatch_{curve,surface}_sound_{int,tuple,list}` (decided by evaluation over all spellings
with entries ≤ 5 resp. ≤ 4).  Conclusion: for every such spelling of every multi-index the call computes the
closed form PROVED for that multi-index (`C03_rational_curve_2_3`, `C03_rational_surface_2_3`) when the object
is rational of total order 2–3, and otherwise the generic method on that multi-index (`C03_nonrational_*`,
`C03_rational_order_zero`, `C03_rational_first`; rational total order > 1 raises, `C03_rational_refuses`). -/
theorem C03_dispatch (fc fs : Bool → DSpec → Outcome) (dsc dss : List DSpec)
    (hc : soundOn fc 1 dsc = true) (hs : soundOn fs 2 dss = true)
    (o : Obj K) (tol : K) (us vs : List K) (d : DSpec) (idx : List ℕ) (above : ASpec) (tensor : Bool) :
    (d ∈ dsc → meaning 1 d = some idx →
      o.curveDerivativeWith fc tol us d above tensor =
        if o.rational = true ∧ 2 ≤ idx.sum ∧ idx.sum ≤ 3 then
          (match above.selfOrHead with
           | none => .error .index
           | some a => .ok (o.curveDerivativeRational tol us (idx.getD 0 0) a))
        else o.derivativeGeneric tol [us] idx (above.norm 1) tensor) ∧
    (d ∈ dss → meaning 2 d = some idx →
      o.surfaceDerivativeWith fs tol us vs d above tensor =
        if o.rational = true ∧ 2 ≤ idx.sum ∧ idx.sum ≤ 3 then
          (match above.norm 2 with
           | fu :: fv :: _ =>
             if !tensor ∧ us.length ≠ vs.length then .error .value
             else o.surfaceDerivativeRational tol us vs (idx.getD 0 0) (idx.getD 1 0) fu fv tensor
           | _ => .error .index)
        else o.derivativeGeneric tol [us, vs] idx (above.norm 2) tensor) := by
  constructor
  · intro hd hm
    exact C03_dispatch_curve fc o tol us d idx above tensor hm (soundOn_spec hc hd hm o.rational)
  · intro hd hm
    exact C03_dispatch_surface fs o tol us vs d idx above tensor hm (soundOn_spec hs hd hm o.rational)

/-- **The dispatch of `Curve.derivative` is sound for every spelling** (int, one-element tuple or list). -/
theorem C03_dispatch_pinned_curve (r : Bool) (d : DSpec) (idx : List ℕ) (hm : meaning 1 d = some idx) :
    curveOutcome r d = expected r idx := by
  have key : ∀ n : ℕ, (if (!r || decide (n < 2) || decide (n > 3)) = true then Outcome.generic [n]
      else Outcome.closed [n]) = expected r [n] := by
    intro n
    unfold expected
    cases r <;> by_cases h2 : n < 2 <;> by_cases h3 : n > 3 <;> simp [h2, h3] <;> omega
  cases d with
  | int n =>
    have : idx = [n] := by simpa [meaning] using hm.symm
    subst this
    simpa [curveOutcome, DSpec.isSingleton, DSpec.items, DSpec.ensureListlike] using key n
  | tup l =>
    simp only [meaning] at hm
    split at hm
    · rename_i hl
      injection hm with hm; subst hm
      match l, hl with
      | [n], _ => simpa [curveOutcome, DSpec.isSingleton, DSpec.head?, DSpec.items, DSpec.ensureListlike] using key n
    · exact absurd hm (by simp)
  | lst l =>
    simp only [meaning] at hm
    split at hm
    · rename_i hl
      injection hm with hm; subst hm
      match l, hl with
      | [n], _ => simpa [curveOutcome, DSpec.isSingleton, DSpec.head?, DSpec.items, DSpec.ensureListlike] using key n
    · exact absurd hm (by simp)

/-- The dispatch of `Surface.derivative` on a two-element tuple. -/
theorem C03_dispatch_pinned_surface_tuple (r : Bool) (a b : ℕ) :
    surfaceOutcome r (.tup [a, b]) = expected r [a, b] := by
  cases r
  · simp [surfaceOutcome, expected, DSpec.ensureListlike, DSpec.items, DSpec.toTuple]
  · by_cases h : 2 ≤ a + b ∧ a + b ≤ 3
    · obtain ⟨h2, h3⟩ := h
      have ha : a ≤ 3 := by omega
      have hb : b ≤ 3 := by omega
      interval_cases a <;> interval_cases b <;> first | omega | decide
    · have he : (decide (2 ≤ a + b) && decide (a + b ≤ 3)) = false := by
        rw [Bool.eq_false_iff]
        intro hh
        rw [Bool.and_eq_true, decide_eq_true_eq, decide_eq_true_eq] at hh
        exact h hh
      simp [surfaceOutcome, expected, DSpec.ensureListlike, DSpec.items, DSpec.toTuple, he]
      intro h1 h2
      exact absurd ⟨by omega, h2⟩ h

/-- **The dispatch of `Surface.derivative` is sound for every spelling** of `d` — int (replicated), tuple,
list — since `derivs = tuple(ensure_listlike(d, pardim))` (commit cd5762c). -/
theorem C03_dispatch_pinned_surface (r : Bool) (d : DSpec) (idx : List ℕ) (hm : meaning 2 d = some idx) :
    surfaceOutcome r d = expected r idx := by
  cases d with
  | int n =>
    have : idx = [n, n] := by simpa [meaning, List.replicate] using hm.symm
    subst this
    have e : surfaceOutcome r (.int n) = surfaceOutcome r (.tup [n, n]) := rfl
    rw [e]; exact C03_dispatch_pinned_surface_tuple r n n
  | tup l =>
    simp only [meaning] at hm
    split at hm
    · rename_i hl
      injection hm with hm; subst hm
      match l, hl with
      | [a, b], _ => exact C03_dispatch_pinned_surface_tuple r a b
    · exact absurd hm (by simp)
  | lst l =>
    simp only [meaning] at hm
    split at hm
    · rename_i hl
      injection hm with hm; subst hm
      match l, hl with
      | [a, b], _ =>
        have e : surfaceOutcome r (.lst [a, b]) = surfaceOutcome r (.tup [a, b]) := rfl
        rw [e]; exact C03_dispatch_pinned_surface_tuple r a b
    · exact absurd hm (by simp)

/-- The shape of the repaired defect (before cd5762c `derivs` stayed a list, and a list never equals a tuple
literal): the un-fixed dispatch sends `d=[2,0]` and `d=1` of a rational surface to the zero-initialised array. -/
example : surfaceOutcomeUnfixed true (.lst [2, 0]) = .zeros ∧ expected true [2, 0] = .closed [2, 0] := by decide
example : surfaceOutcomeUnfixed true (.int 1) = .zeros ∧ expected true [1, 1] = .closed [1, 1] := by decide
example : surfaceOutcome true (.lst [2, 0]) = .closed [2, 0] ∧ surfaceOutcome true (.int 1) = .closed [1, 1] := by decide

/-- What the executable model (`Obj.derivativeCall`, run by the correspondence check) computes for a curve,
for EVERY documented spelling of `d`: the proved closed form for rational order 2–3, else the generic method. -/
theorem C03_derivativeCall_curve (o : Obj K) (tol : K) (ts : List K) (d : DSpec) (idx : List ℕ)
    (above : ASpec) (tensor : Bool) (hm : meaning 1 d = some idx) :
    o.derivativeCall tol [ts] d above tensor =
      if o.rational = true ∧ 2 ≤ idx.sum ∧ idx.sum ≤ 3 then
        (match above.selfOrHead with
         | none => .error .index
         | some a => .ok (o.curveDerivativeRational tol ts (idx.getD 0 0) a))
      else o.derivativeGeneric tol [ts] idx (above.norm 1) tensor :=
  C03_dispatch_curve curveOutcome o tol ts d idx above tensor hm (C03_dispatch_pinned_curve o.rational d idx hm)

/-- Same for a surface, for EVERY documented spelling of `d` (int, tuple, list). -/
theorem C03_derivativeCall_surface (o : Obj K) (tol : K) (us vs : List K) (d : DSpec) (idx : List ℕ)
    (above : ASpec) (tensor : Bool) (hm : meaning 2 d = some idx) :
    o.derivativeCall tol [us, vs] d above tensor =
      if o.rational = true ∧ 2 ≤ idx.sum ∧ idx.sum ≤ 3 then
        (match above.norm 2 with
         | fu :: fv :: _ =>
           if !tensor ∧ us.length ≠ vs.length then .error .value
           else o.surfaceDerivativeRational tol us vs (idx.getD 0 0) (idx.getD 1 0) fu fv tensor
         | _ => .error .index)
      else o.derivativeGeneric tol [us, vs] idx (above.norm 2) tensor :=
  C03_dispatch_surface surfaceOutcome o tol us vs d idx above tensor hm
    (C03_dispatch_pinned_surface o.rational d idx hm)

/-- Per-direction sides: with `above` a bool `b` the closed forms use `(b, b)`, with a pair `[a₁, a₂]` they use
`(a₁, a₂)` — the property's "one-sided limit selected by `above`" per direction. -/
theorem C03_above_sides (b a1 a2 : Bool) :
    (ASpec.bool b).norm 2 = [b, b] ∧ (ASpec.seq [a1, a2]).norm 2 = [a1, a2] ∧
    (ASpec.bool b).selfOrHead = some b ∧ (ASpec.seq [a1]).selfOrHead = some a1 := by
  refine ⟨rfl, rfl, rfl, rfl⟩

/-! ## Derivative spline -/

/-- **Derivative spline (non-rational, any direction, clamped ends).**  For coefficients `c` (one line of
the control net along the differentiated direction) the spline on `τ[1:]` of one degree less with
coefficients `(q+1)(c_{j+1} − c_j)/(τ_{j+q+2} − τ_{j+1})` evaluates, at EVERY `t` and for both sides, to the
first derivative of the original. -/
theorem C03_derivative_spline {K : Type} [Field K] [LinearOrder K] (s : Side) (τ : ℕ → K) (q N : ℕ)
    (c : ℕ → K) (t : K) (h0 : τ (q+1) = τ 0) (hN : τ (N+1+q+1) = τ (N+1)) :
    splineDeriv s τ (q+1) (N+1) c 1 t = splineVal s (shiftKnots τ) q N (dsplineCoef τ q c) t :=
  splineDeriv_one_eq_splineVal_clamped s τ q N c t h0 hN

/-- Same for any non-decreasing knot vector (non-open ends, unwrapped periodic) for parameters in the
domain, and for all higher derivatives: the `e`-th derivative of the derivative spline is the `(e+1)`-th
derivative of the original whenever the two boundary terms vanish. -/
theorem C03_derivative_spline_domain {K : Type} [Field K] [LinearOrder K] [IsStrictOrderedRing K]
    (s : Side) (τ : ℕ → K) (hτ : Monotone τ) (q N : ℕ) (c : ℕ → K) (t : K)
    (ht : match s with
          | .right => τ (q+1) ≤ t ∧ t < τ (N+1)
          | .left => τ (q+1) < t ∧ t ≤ τ (N+1)) :
    splineDeriv s τ (q+1) (N+1) c 1 t = splineVal s (shiftKnots τ) q N (dsplineCoef τ q c) t :=
  splineDeriv_one_eq_splineVal_domain s τ hτ q N c t ht

theorem C03_derivative_spline_higher {K : Type} [Field K] [LinearOrder K] (s : Side) (τ : ℕ → K)
    (q N e : ℕ) (c : ℕ → K) (t : K)
    (h0 : τ (q+1) = τ 0 ∨ dB s τ q 0 e t = 0)
    (hN : τ (N+1+q+1) = τ (N+1) ∨ dB s τ q (N+1) e t = 0) :
    splineDeriv s τ (q+1) (N+1) c (e+1) t = splineDeriv s (shiftKnots τ) q N (dsplineCoef τ q c) e t :=
  splineDeriv_succ_eq s τ q N e c t h0 hN

/-- **Periodic variant** (`C[i,(i+1) % n]`): wrapped control points `P (i % n)` over the unwrapped functions,
ghost knots repeating with period `T`. -/
theorem C03_derivative_spline_periodic {K : Type} [Field K] [LinearOrder K] [IsStrictOrderedRing K]
    (s : Side) (τ : ℕ → K) (hτ : Monotone τ) (q N n : ℕ) (T : K) (P : ℕ → K) (t : K)
    (hper : ∀ i, i + n ≤ N + q + 2 → τ (i + n) = τ i + T)
    (ht : match s with
          | .right => τ (q+1) ≤ t ∧ t < τ (N+1)
          | .left => τ (q+1) < t ∧ t ≤ τ (N+1)) :
    splineDeriv s τ (q+1) (N+1) (fun i => P (i % n)) 1 t =
      splineVal s (shiftKnots τ) q N (fun j => dsplineCoefPeriodic τ q n P (j % n)) t :=
  splineDeriv_one_eq_splineVal_periodic s τ hτ q N n T P t hper ht

/-- **The model's `get_derivative_spline` builds exactly that spline**: new order `p−1`, knots `knots[1:-1]`
(so `kn j = τ_{j+1}`; stated through the constructor's running maximum `Basis.cummax`, which is the identity for a
sorted — in particular every valid — knot vector: since the repair of the tolerance-inversion finding the constructor
stores `np.maximum.accumulate(knots)`), periodicity `k−1`, control net = the difference matrix applied along the direction, and
each row of the difference matrix computes `p(v_{j+1} − v_j)/(τ_{j+p+1} − τ_{j+1})`
(`v_{(j+1) % n}` for periodic directions). -/
theorem C03_derivative_spline_model (o o' : Obj K) (tol : K) (dir : ℕ)
    (h : o.getDerivativeSpline tol dir = .ok o') :
    o.rational = false ∧ dir < o.pardim ∧ o'.rational = false ∧
    o'.cps = Tensor.applyAxis (Obj.derivativeMatrix (o.basis dir) (o.cps.shape.getD dir 0)) o.cps dir ∧
    (∃ nb : Basis K, o'.bases = o.bases.set! dir nb ∧ nb.order = (o.basis dir).order - 1 ∧
      nb.periodic = max ((o.basis dir).periodic - 1) (-1) ∧
      nb.knots = Basis.cummax ((o.basis dir).knots.extract 1 ((o.basis dir).knots.size - 1)) ∧
      ((∀ i, i + 1 < (o.basis dir).knots.size → (o.basis dir).kn i ≤ (o.basis dir).kn (i + 1)) →
        ∀ j, j + 2 < (o.basis dir).knots.size → nb.kn j = shiftKnots (o.basis dir).kn j)) ∧
    (∀ (n j : ℕ) (v : ℕ → K), (o.basis dir).periodic < 0 → j + 1 < n →
      (List.range n).foldl (fun acc i => acc +
          ((Obj.derivativeMatrix (o.basis dir) n).getD j #[]).getD i 0 * v i) 0
        = Obj.dsCoef (o.basis dir) j * (v (j + 1) - v j)) ∧
    (∀ (n j : ℕ) (v : ℕ → K), ¬ (o.basis dir).periodic < 0 → j < n → 2 ≤ n →
      (List.range n).foldl (fun acc i => acc +
          ((Obj.derivativeMatrix (o.basis dir) n).getD j #[]).getD i 0 * v i) 0
        = Obj.dsCoef (o.basis dir) j * (v ((j + 1) % n) - v j)) := by
  obtain ⟨h1, h2, h3, h4, nb, h5, h6, h7, h8⟩ := getDerivativeSpline_ok o o' tol dir h
  refine ⟨h1, h2, h3, h4, ⟨nb, h5, h6, h8, h7, ?_⟩, ?_, ?_⟩
  · intro hsort j hj
    refine extract_kn (o.basis dir) nb ?_ j hj
    rw [h7, Basis.cummax_extract_of_sorted _ _ _ (Basis.sorted_getD_of_kn _ hsort)]
  · intro n j v hper hj
    exact derivativeMatrix_row (o.basis dir) n j hper hj v
  · intro n j v hper hj hn
    exact derivativeMatrix_row_periodic (o.basis dir) n j hper hj hn v

/-! ### Object level: `get_derivative_spline(dir).evaluate(u) = derivative(u, d=e_dir)` through the model evaluator

Every parametric dimension and EVERY direction.  The differentiated direction must be `Basis.DSplineReady`:
valid clamped non-periodic of order ≥ 2 (`τ_0 = τ_{p-1}`, `τ_n = τ_{n+p-1}`), or periodic (any continuity `k ≥ 0`)
with at least two basis functions (for one function the pinned code overwrites `C[0,0]`, listed finding).  The
other directions are arbitrary valid bases.  `get_derivative_spline(dir)` is PROVED to succeed
(`∃ o', … = .ok o'`); parameters: `Basis.DSplineOk` in the differentiated direction (admissible; inside the domain
when the direction is `C⁰`-periodic, whose derivative spline is no longer periodic), admissible elsewhere.  Grid
(`tensor=True`) and pointwise (`tensor=False`) form.  `evaluate` is the limit from above, so the statements are
for `above=True`; `C03_above_irrelevant_off_knots` shows that away from the knots `above=False` gives the same
rows. -/

section dsplineobj
variable [IsStrictOrderedRing K]

/-- **Curve.**  `get_derivative_spline(0)` succeeds and `o'.evaluate(us, tensor)` = `o.derivative(us, d=1, tensor)`
entry by entry (both through the MODEL functions). -/
theorem C03_derivative_spline_obj_curve {o : Obj K} {b : Basis K} (hb : o.bases = #[b]) (hv : b.Valid)
    (hready : b.DSplineReady) {nc : ℕ} (hs : o.cps.shape = [b.numFunctions, nc])
    (hr : o.rational = false) {tol : K} (htol : 0 < tol) :
    ∃ o', o.getDerivativeSpline tol 0 = .ok o' ∧
      ∀ us : List K, (∀ u ∈ us, b.DSplineOk tol u) → us ≠ [] → ∀ tensor : Bool,
        ∃ rv rd, o'.evaluate tol [us] tensor = .ok rv ∧
          o.derivativeGeneric tol [us] [1] [true] tensor = .ok rd ∧
          ∀ i c, i < us.length → c < nc → rv.get (i * nc + c) = rd.get (i * nc + c) := by
  obtain ⟨o', nb, hget, hO, hdir⟩ := Obj.exists_derivObj (o := o) (b := b) (dir := 0)
    (Obj.basis_zero hb) (by unfold Obj.pardim; rw [hs]; simp) (by rw [hs]; rfl) hr hv hready htol.le
  exact ⟨o', hget, fun us hus hne tensor =>
    Obj.derivSplineG_curve hb hv hs hr htol hdir hO hus tensor (fun _ => hne) (fun _ => hne)⟩

/-- **Surface, first direction**: `get_derivative_spline(0).evaluate(us, vs) = derivative(us, vs, d=(1,0))`, grid and
pointwise. -/
theorem C03_derivative_spline_obj_surface_u {o : Obj K} {b1 b2 : Basis K} (hb : o.bases = #[b1, b2])
    (hv1 : b1.Valid) (hv2 : b2.Valid) (hready : b1.DSplineReady) {nc : ℕ}
    (hs : o.cps.shape = [b1.numFunctions, b2.numFunctions, nc]) (hr : o.rational = false)
    {tol : K} (htol : 0 < tol) :
    ∃ o', o.getDerivativeSpline tol 0 = .ok o' ∧
      ∀ us vs : List K, (∀ u ∈ us, b1.DSplineOk tol u) → (∀ v ∈ vs, b2.Admissible tol v) →
        us ≠ [] → (b2.periodic < 0 → vs ≠ []) →
        (∃ rv rd, o'.evaluate tol [us, vs] true = .ok rv ∧
          o.derivativeGeneric tol [us, vs] [1, 0] [true, true] true = .ok rd ∧
          ∀ i1 i2 c, i1 < us.length → i2 < vs.length → c < nc →
            rv.get ((i1 * vs.length + i2) * nc + c) = rd.get ((i1 * vs.length + i2) * nc + c)) ∧
        (vs.length = us.length →
          ∃ rv rd, o'.evaluate tol [us, vs] false = .ok rv ∧
            o.derivativeGeneric tol [us, vs] [1, 0] [true, true] false = .ok rd ∧
            ∀ i c, i < us.length → c < nc → rv.get (i * nc + c) = rd.get (i * nc + c)) := by
  obtain ⟨o', nb, hget, hO, hdir⟩ := Obj.exists_derivObj (o := o) (b := b1) (dir := 0)
    (Obj.basis_two_zero hb) (by unfold Obj.pardim; rw [hs]; simp) (by rw [hs]; rfl) hr hv1 hready htol.le
  exact ⟨o', hget, fun us vs hus hvs hne1 hne2 =>
    Obj.derivSplineG_surface_u hb hv1 hv2 hs hr htol hdir hO hus hvs (fun _ => hne1) hne2 (fun _ => hne1)⟩

/-- **Surface, second direction**: `get_derivative_spline(1).evaluate(us, vs) = derivative(us, vs, d=(0,1))`. -/
theorem C03_derivative_spline_obj_surface_v {o : Obj K} {b1 b2 : Basis K} (hb : o.bases = #[b1, b2])
    (hv1 : b1.Valid) (hv2 : b2.Valid) (hready : b2.DSplineReady) {nc : ℕ}
    (hs : o.cps.shape = [b1.numFunctions, b2.numFunctions, nc]) (hr : o.rational = false)
    {tol : K} (htol : 0 < tol) :
    ∃ o', o.getDerivativeSpline tol 1 = .ok o' ∧
      ∀ us vs : List K, (∀ u ∈ us, b1.Admissible tol u) → (∀ v ∈ vs, b2.DSplineOk tol v) →
        (b1.periodic < 0 → us ≠ []) → vs ≠ [] →
        (∃ rv rd, o'.evaluate tol [us, vs] true = .ok rv ∧
          o.derivativeGeneric tol [us, vs] [0, 1] [true, true] true = .ok rd ∧
          ∀ i1 i2 c, i1 < us.length → i2 < vs.length → c < nc →
            rv.get ((i1 * vs.length + i2) * nc + c) = rd.get ((i1 * vs.length + i2) * nc + c)) ∧
        (vs.length = us.length →
          ∃ rv rd, o'.evaluate tol [us, vs] false = .ok rv ∧
            o.derivativeGeneric tol [us, vs] [0, 1] [true, true] false = .ok rd ∧
            ∀ i c, i < us.length → c < nc → rv.get (i * nc + c) = rd.get (i * nc + c)) := by
  obtain ⟨o', nb, hget, hO, hdir⟩ := Obj.exists_derivObj (o := o) (b := b2) (dir := 1)
    (Obj.basis_two_one hb) (by unfold Obj.pardim; rw [hs]; simp) (by rw [hs]; rfl) hr hv2 hready htol.le
  exact ⟨o', hget, fun us vs hus hvs hne1 hne2 =>
    Obj.derivSplineG_surface_v hb hv1 hv2 hs hr htol hdir hO hus hvs hne1 (fun _ => hne2) (fun _ => hne2)⟩

/-- **Volume, direction 0** (same reading as for surfaces). -/
theorem C03_derivative_spline_obj_volume_u {o : Obj K} {b1 b2 b3 : Basis K} (hb : o.bases = #[b1, b2, b3])
    (hv1 : b1.Valid) (hv2 : b2.Valid) (hv3 : b3.Valid) (hready : b1.DSplineReady) {nc : ℕ}
    (hs : o.cps.shape = [b1.numFunctions, b2.numFunctions, b3.numFunctions, nc]) (hr : o.rational = false)
    {tol : K} (htol : 0 < tol) :
    ∃ o', o.getDerivativeSpline tol 0 = .ok o' ∧
      ∀ us vs ws : List K, (∀ u ∈ us, b1.DSplineOk tol u) → (∀ v ∈ vs, b2.Admissible tol v) →
        (∀ w ∈ ws, b3.Admissible tol w) →
        us ≠ [] → (b2.periodic < 0 → vs ≠ []) → (b3.periodic < 0 → ws ≠ []) →
        (∃ rv rd, o'.evaluate tol [us, vs, ws] true = .ok rv ∧
          o.derivativeGeneric tol [us, vs, ws] [1, 0, 0] [true, true, true] true = .ok rd ∧
          ∀ i1 i2 i3 c, i1 < us.length → i2 < vs.length → i3 < ws.length → c < nc →
            rv.get (((i1 * vs.length + i2) * ws.length + i3) * nc + c) =
              rd.get (((i1 * vs.length + i2) * ws.length + i3) * nc + c)) ∧
        (vs.length = us.length → ws.length = us.length →
          ∃ rv rd, o'.evaluate tol [us, vs, ws] false = .ok rv ∧
            o.derivativeGeneric tol [us, vs, ws] [1, 0, 0] [true, true, true] false = .ok rd ∧
            ∀ i c, i < us.length → c < nc → rv.get (i * nc + c) = rd.get (i * nc + c)) := by
  obtain ⟨o', nb, hget, hO, hdir⟩ := Obj.exists_derivObj (o := o) (b := b1) (dir := 0)
    (by unfold Obj.basis; rw [hb]; rfl) (by unfold Obj.pardim; rw [hs]; simp) (by rw [hs]; rfl) hr
    hv1 hready htol.le
  exact ⟨o', hget, fun us vs ws hus hvs hws hne1 hne2 hne3 =>
    Obj.derivSplineG_volume_u hb hv1 hv2 hv3 hs hr htol hdir hO hus hvs hws
      (fun _ => hne1) hne2 hne3 (fun _ => hne1)⟩

/-- **Volume, direction 1** (same reading as for surfaces). -/
theorem C03_derivative_spline_obj_volume_v {o : Obj K} {b1 b2 b3 : Basis K} (hb : o.bases = #[b1, b2, b3])
    (hv1 : b1.Valid) (hv2 : b2.Valid) (hv3 : b3.Valid) (hready : b2.DSplineReady) {nc : ℕ}
    (hs : o.cps.shape = [b1.numFunctions, b2.numFunctions, b3.numFunctions, nc]) (hr : o.rational = false)
    {tol : K} (htol : 0 < tol) :
    ∃ o', o.getDerivativeSpline tol 1 = .ok o' ∧
      ∀ us vs ws : List K, (∀ u ∈ us, b1.Admissible tol u) → (∀ v ∈ vs, b2.DSplineOk tol v) →
        (∀ w ∈ ws, b3.Admissible tol w) →
        (b1.periodic < 0 → us ≠ []) → vs ≠ [] → (b3.periodic < 0 → ws ≠ []) →
        (∃ rv rd, o'.evaluate tol [us, vs, ws] true = .ok rv ∧
          o.derivativeGeneric tol [us, vs, ws] [0, 1, 0] [true, true, true] true = .ok rd ∧
          ∀ i1 i2 i3 c, i1 < us.length → i2 < vs.length → i3 < ws.length → c < nc →
            rv.get (((i1 * vs.length + i2) * ws.length + i3) * nc + c) =
              rd.get (((i1 * vs.length + i2) * ws.length + i3) * nc + c)) ∧
        (vs.length = us.length → ws.length = us.length →
          ∃ rv rd, o'.evaluate tol [us, vs, ws] false = .ok rv ∧
            o.derivativeGeneric tol [us, vs, ws] [0, 1, 0] [true, true, true] false = .ok rd ∧
            ∀ i c, i < us.length → c < nc → rv.get (i * nc + c) = rd.get (i * nc + c)) := by
  obtain ⟨o', nb, hget, hO, hdir⟩ := Obj.exists_derivObj (o := o) (b := b2) (dir := 1)
    (by unfold Obj.basis; rw [hb]; rfl) (by unfold Obj.pardim; rw [hs]; simp) (by rw [hs]; rfl) hr
    hv2 hready htol.le
  exact ⟨o', hget, fun us vs ws hus hvs hws hne1 hne2 hne3 =>
    Obj.derivSplineG_volume_v hb hv1 hv2 hv3 hs hr htol hdir hO hus hvs hws
      hne1 (fun _ => hne2) hne3 (fun _ => hne2)⟩

/-- **Volume, direction 2** (same reading as for surfaces). -/
theorem C03_derivative_spline_obj_volume_w {o : Obj K} {b1 b2 b3 : Basis K} (hb : o.bases = #[b1, b2, b3])
    (hv1 : b1.Valid) (hv2 : b2.Valid) (hv3 : b3.Valid) (hready : b3.DSplineReady) {nc : ℕ}
    (hs : o.cps.shape = [b1.numFunctions, b2.numFunctions, b3.numFunctions, nc]) (hr : o.rational = false)
    {tol : K} (htol : 0 < tol) :
    ∃ o', o.getDerivativeSpline tol 2 = .ok o' ∧
      ∀ us vs ws : List K, (∀ u ∈ us, b1.Admissible tol u) → (∀ v ∈ vs, b2.Admissible tol v) →
        (∀ w ∈ ws, b3.DSplineOk tol w) →
        (b1.periodic < 0 → us ≠ []) → (b2.periodic < 0 → vs ≠ []) → ws ≠ [] →
        (∃ rv rd, o'.evaluate tol [us, vs, ws] true = .ok rv ∧
          o.derivativeGeneric tol [us, vs, ws] [0, 0, 1] [true, true, true] true = .ok rd ∧
          ∀ i1 i2 i3 c, i1 < us.length → i2 < vs.length → i3 < ws.length → c < nc →
            rv.get (((i1 * vs.length + i2) * ws.length + i3) * nc + c) =
              rd.get (((i1 * vs.length + i2) * ws.length + i3) * nc + c)) ∧
        (vs.length = us.length → ws.length = us.length →
          ∃ rv rd, o'.evaluate tol [us, vs, ws] false = .ok rv ∧
            o.derivativeGeneric tol [us, vs, ws] [0, 0, 1] [true, true, true] false = .ok rd ∧
            ∀ i c, i < us.length → c < nc → rv.get (i * nc + c) = rd.get (i * nc + c)) := by
  obtain ⟨o', nb, hget, hO, hdir⟩ := Obj.exists_derivObj (o := o) (b := b3) (dir := 2)
    (by unfold Obj.basis; rw [hb]; rfl) (by unfold Obj.pardim; rw [hs]; simp) (by rw [hs]; rfl) hr
    hv3 hready htol.le
  exact ⟨o', hget, fun us vs ws hus hvs hws hne1 hne2 hne3 =>
    Obj.derivSplineG_volume_w hb hv1 hv2 hv3 hs hr htol hdir hO hus hvs hws
      hne1 hne2 (fun _ => hne3) (fun _ => hne3)⟩

/-- The derivative basis of a valid non-periodic basis of order ≥ 2 is valid, has one function less, the same
domain, and keeps admissible parameters admissible; for a periodic basis with ≥ 2 functions it is valid with the
SAME number of functions, domain and wrap (continuity `k-1`). -/
theorem C03_derivative_basis_valid {b nb : Basis K} (hv : b.Valid) :
    (IsDerivBasis b nb → b.periodic = -1 → 2 ≤ b.order →
      nb.Valid ∧ nb.numFunctions = b.numFunctions - 1 ∧ nb.start = b.start ∧ nb.stop = b.stop ∧
        ∀ tol u, b.Admissible tol u → nb.Admissible tol u) ∧
    (IsDerivBasisP b nb → 0 ≤ b.periodic → 2 ≤ b.numFunctions →
      nb.Valid ∧ nb.numFunctions = b.numFunctions ∧ nb.start = b.start ∧ nb.stop = b.stop ∧
        ∀ tol u, b.DSplineOk tol u → nb.Admissible tol u) :=
  ⟨fun h hper hp => ⟨h.valid hv hp, h.numFunctions hper hp hv, h.start_eq hv hp, h.stop_eq hv hp,
      fun _ _ hu => h.admissible hv hper hp hu⟩,
    fun h hper hn => ⟨h.valid hv hper hn, h.numFunctions hv hper hn, h.start_eq hv hper hn,
      h.stop_eq hv hper hn, fun _ _ hu => h.admissible hv hper hn hu⟩⟩

/-- **`above` is irrelevant away from the knots**: at a parameter that is not a knot value (of a non-periodic
basis; the wrapped parameter for a periodic one) the specification rows for `above=False` and `above=True`
coincide for every derivative order — so there all the statements above hold for `above=False` as well. -/
theorem C03_above_irrelevant_off_knots {b : Basis K} (hv : b.Valid) (u : K) (d j : ℕ) :
    (b.periodic < 0 → (∀ i, b.kn i ≠ u) → b.rowSpec u false d j = b.rowSpec u true d j) ∧
    (¬ b.periodic < 0 → (∀ i, b.kn i ≠ b.wrap u) → b.rowSpec u false d j = b.rowSpec u true d j) := by
  constructor
  · intro hper hk
    have h1 : u ≠ b.start := fun h => hk (b.order - 1) (by rw [← b.start_eq]; exact h.symm)
    have h2 : u ≠ b.stop := fun h => hk b.nAll (by rw [← b.stop_eq]; exact h.symm)
    unfold Basis.rowSpec
    rw [if_pos hper, if_pos hper, if_neg (fun h => h1 h.1), if_neg (fun h => h1 h.1)]
    unfold effSide
    rw [if_neg h2, if_neg h2]
    simp only [Bool.false_eq_true, if_false, if_true]
    exact dB_left_eq_right_of_not_knot b.kn hv.kn_mono u _ j d hk
  · intro hper hk
    have h1 : b.wrap u ≠ b.start := fun h => hk (b.order - 1) (by rw [← b.start_eq]; exact h.symm)
    have h2 : b.wrap u ≠ b.stop := fun h => hk b.nAll (by rw [← b.stop_eq]; exact h.symm)
    unfold Basis.rowSpec
    rw [if_neg hper, if_neg hper]
    apply Finset.sum_congr rfl
    intro i _
    unfold periodicEff
    rw [if_neg (fun h => h1 h.1), if_neg (fun h => h1 h.1)]
    unfold effSide
    simp only [if_neg h2, Bool.false_eq_true, if_false, if_true]
    exact dB_left_eq_right_of_not_knot b.kn hv.kn_mono (b.wrap u) _ i d hk

end dsplineobj

/-! ## Tangents -/

/-- **The tangent is the first derivative** (before the division by the speed): for curves and surfaces
the call made by `tangent` always reaches the generic method with the unit multi-index and the
per-direction sides — for rational objects too (total order 1: first-order quotient rule,
`C03_rational_first`). -/
theorem C03_tangent_is_first_derivative (o : Obj K) (tol : K) (us vs : List K) (above : ASpec) (tensor : Bool) :
    (o.pardim = 1 → o.tangentRaw tol [us] 0 above tensor =
        o.derivativeGeneric tol [us] [1] (above.norm 1) tensor) ∧
    (o.pardim = 2 → o.tangentRaw tol [us, vs] 0 above tensor =
        o.derivativeGeneric tol [us, vs] [1, 0] (above.norm 2) tensor) ∧
    (o.pardim = 2 → o.tangentRaw tol [us, vs] 1 above tensor =
        o.derivativeGeneric tol [us, vs] [0, 1] (above.norm 2) tensor) := by
  refine ⟨?_, ?_, ?_⟩
  · intro hp
    unfold Obj.tangentRaw Obj.derivativeCall
    rw [hp]
    have : ∀ r, curveOutcome r (.lst [1]) = .generic [1] := by decide
    simp [Obj.curveDerivativeWith, List.range, List.range.loop, this, ASpec.norm_idem]
  · intro hp
    unfold Obj.tangentRaw Obj.derivativeCall
    rw [hp]
    have : ∀ r, surfaceOutcome r (.lst [1, 0]) = .generic [1, 0] := by decide
    simp [Obj.surfaceDerivativeWith, List.range, List.range.loop, this, ASpec.norm_idem]
  · intro hp
    unfold Obj.tangentRaw Obj.derivativeCall
    rw [hp]
    have : ∀ r, surfaceOutcome r (.lst [0, 1]) = .generic [0, 1] := by decide
    simp [Obj.surfaceDerivativeWith, List.range, List.range.loop, this, ASpec.norm_idem]

/-! ### The normalised frame: `tangent`, `Surface.normal`, `Curve.binormal`, `Curve.normal`

`Obj.tangentUnit / surfaceNormalUnit / curveBinormalUnit / curveNormalUnit sq` mirror the Python methods including
the divisions by `np.linalg.norm`, with the square root as a parameter `sq` (`IsSqrt sq`: the positive square root on
positive numbers — `Real.sqrt`, or the float one up to rounding).  The driver ops `c03_tangent`, `c03_snormal`,
`c03_binormal`, `c03_cnormal` send the UN-normalised vector `R` together with `Tensor.normSqRows R`, and the harness
compares the implementation with `R / √normsq`, i.e. with `Tensor.normalizeRows √ R`.  The theorems below show that
this is what the normalised model computes, row by row (3 components; rows with non-zero norm). -/

section frame
variable [IsStrictOrderedRing K]

/-- **`tangent`**: each returned field is the un-normalised field (`= derivative(d = e_dir)`,
`C03_tangent_is_first_derivative`) with every row divided by a positive `s` with `s² = ‖v‖²`; the rows are unit
vectors; and the number the driver sends as squared norm is `‖v‖²`. -/
theorem C03_tangent_unit {sq : K → K} (hsq : IsSqrt sq) (o : Obj K) (tol : K) (params : List (List K))
    (dir : Option ℕ) (above : ASpec) (tensor : Bool) (ts : List (Tensor K))
    (h : o.tangent tol params dir above tensor = .ok ts) :
    o.tangentUnit sq tol params dir above tensor = .ok (ts.map (Tensor.normalizeRows sq)) ∧
    ∀ v ∈ ts, v.shape.getLastD 1 = 3 → ∀ pI, pI < v.size / 3 → 0 < v.nsq3 pI →
      (Tensor.normSqRows v).getD pI 0 = v.nsq3 pI ∧
      ∃ s, 0 < s ∧ s * s = v.nsq3 pI ∧
        (∀ c, c < 3 → (Tensor.normalizeRows sq v).row3 pI c = v.row3 pI c / s) ∧
        (Tensor.normalizeRows sq v).nsq3 pI = 1 := by
  constructor
  · unfold Obj.tangentUnit; rw [h]; rfl
  · intro v _ h3 pI hp hn
    exact ⟨Tensor.normSqRows_getD3 v h3 hp, Tensor.normalizeRows_unit hsq v h3 hp hn⟩

/-- **`Surface.normal`** (`dimension = 3`): the code normalises the two tangents, takes the cross product and
normalises again; row by row this is the normalised cross product `R = ∂u × ∂v` of the UN-normalised tangents, which
is what `c03_snormal` sends (`surfaceNormalRaw`) — whenever the three norms are non-zero. -/
theorem C03_surface_normal_unit {sq : K → K} (hsq : IsSqrt sq) (o : Obj K) (tol : K) (us vs : List K)
    (above : ASpec) (tensor : Bool) (hd : o.dimension = 3)
    (hlen : ¬ ((!tensor) = true ∧ us.length ≠ vs.length)) (du dv : Tensor K)
    (h : o.tangent tol [us, vs] none above tensor = .ok [du, dv])
    (hsh : dv.shape = du.shape) (h3 : du.shape.getLastD 1 = 3) :
    o.surfaceNormalRaw tol us vs above tensor = .ok (Tensor.crossRows du dv) ∧
    o.surfaceNormalUnit sq tol us vs above tensor =
      .ok (Tensor.normalizeRows sq (Tensor.crossRows (Tensor.normalizeRows sq du) (Tensor.normalizeRows sq dv))) ∧
    ∀ pI c, pI < du.size / 3 → c < 3 → 0 < du.nsq3 pI → 0 < dv.nsq3 pI →
      0 < (Tensor.crossRows du dv).nsq3 pI →
      (Tensor.normalizeRows sq (Tensor.crossRows (Tensor.normalizeRows sq du)
          (Tensor.normalizeRows sq dv))).row3 pI c =
        (Tensor.crossRows du dv).row3 pI c / sq ((Tensor.crossRows du dv).nsq3 pI) ∧
      (Tensor.normSqRows (Tensor.crossRows du dv)).getD pI 0 = (Tensor.crossRows du dv).nsq3 pI := by
  refine ⟨?_, ?_, ?_⟩
  · unfold Obj.surfaceNormalRaw
    rw [if_neg hlen, if_neg (by rw [hd]; decide), if_pos hd, h]
    rfl
  · unfold Obj.surfaceNormalUnit Obj.tangentUnit
    rw [if_neg hlen, if_pos hd, h]
    rfl
  · intro pI c hp hc hnu hnv hnx
    have hpx : pI < (Tensor.crossRows du dv).size / 3 := by
      rw [Tensor.size_of_shape_eq (Tensor.crossRows_shape _ _)]; exact hp
    refine ⟨?_, Tensor.normSqRows_getD3 _ (by rw [Tensor.crossRows_shape]; exact h3) hpx⟩
    rw [Tensor.normalize_cross_normalized hsq du dv hsh h3 hp hc hnu hnv hnx,
      Tensor.normalizeRows_row3 sq _ (by rw [Tensor.crossRows_shape]; exact h3) hpx hc]

/-- **`Curve.binormal`** is by definition the normalised `dx × ddx` (`curveBinormalRaw`, what `c03_binormal`
sends), so its rows are unit vectors, positive multiples of the raw rows. -/
theorem C03_curve_binormal_unit {sq : K → K} (hsq : IsSqrt sq) (o : Obj K) (tol : K) (ts : List K)
    (above : ASpec) (b : Tensor K) (h : o.curveBinormalRaw tol ts above = .ok b) :
    o.curveBinormalUnit sq tol ts above = .ok (Tensor.normalizeRows sq b) ∧
    (b.shape.getLastD 1 = 3 → ∀ pI, pI < b.size / 3 → 0 < b.nsq3 pI →
      ∃ s, 0 < s ∧ s * s = b.nsq3 pI ∧
        (∀ c, c < 3 → (Tensor.normalizeRows sq b).row3 pI c = b.row3 pI c / s) ∧
        (Tensor.normalizeRows sq b).nsq3 pI = 1) := by
  constructor
  · unfold Obj.curveBinormalUnit; rw [h]; rfl
  · intro h3 pI hp hn
    exact Tensor.normalizeRows_unit hsq b h3 hp hn

/-- **`Curve.normal`** = `np.cross(B, T)` of the normalised binormal and tangent.  With `v` the un-normalised
tangent and `b = v × a` the un-normalised binormal, row by row it is the normalised `b × v`, which is what
`c03_cnormal` sends (`curveNormalRaw`) divided by the square root of the squared norm sent along (Lagrange:
`‖b × v‖ = ‖b‖‖v‖` because `b ⟂ v`). -/
theorem C03_curve_normal_unit {sq : K → K} (hsq : IsSqrt sq) (o : Obj K) (tol : K) (ts : List K)
    (above : ASpec) (hd : o.dimension = 3) (v a : Tensor K)
    (hv : o.tangent tol [ts] none above true = .ok [v])
    (hb : o.curveBinormalRaw tol ts above = .ok (Tensor.crossRows v a))
    (hsh : a.shape = v.shape) (h3 : v.shape.getLastD 1 = 3) :
    o.curveNormalRaw tol ts above = .ok (Tensor.crossRows (Tensor.crossRows v a) v) ∧
    o.curveNormalUnit sq tol ts above =
      .ok (Tensor.crossRows (Tensor.normalizeRows sq (Tensor.crossRows v a)) (Tensor.normalizeRows sq v)) ∧
    ∀ pI c, pI < v.size / 3 → c < 3 → 0 < v.nsq3 pI → 0 < (Tensor.crossRows v a).nsq3 pI →
      (Tensor.crossRows (Tensor.normalizeRows sq (Tensor.crossRows v a))
          (Tensor.normalizeRows sq v)).row3 pI c =
        (Tensor.crossRows (Tensor.crossRows v a) v).row3 pI c /
          sq ((Tensor.crossRows (Tensor.crossRows v a) v).nsq3 pI) := by
  refine ⟨?_, ?_, ?_⟩
  · unfold Obj.curveNormalRaw
    rw [if_neg (by rw [hd]; decide), hv, hb]
    rfl
  · unfold Obj.curveNormalUnit Obj.tangentUnit Obj.curveBinormalUnit
    rw [if_neg (by rw [hd]; decide), hv, hb]
    rfl
  · intro pI c hp hc hnv hnb
    have hpb : pI < (Tensor.crossRows (Tensor.crossRows v a) v).size / 3 := by
      rw [Tensor.size_of_shape_eq (Tensor.crossRows_shape _ _),
        Tensor.size_of_shape_eq (Tensor.crossRows_shape _ _)]; exact hp
    rw [Tensor.cross_normalized_binormal_tangent hsq v a hsh h3 hp hc hnv hnb,
      Tensor.normalizeRows_row3 sq _ (by rw [Tensor.crossRows_shape, Tensor.crossRows_shape]; exact h3) hpb hc]

/-- The un-normalised binormal the model computes IS `v × a'` with `v` the un-normalised tangent
(`derivative(d=1)`) and `a'` the acceleration with the code's replacement of a vanishing one — the hypothesis `hb`
of `C03_curve_normal_unit`. -/
theorem C03_curve_binormal_raw (o : Obj K) (tol : K) (ts : List K) (above : ASpec) (hd : o.dimension = 3)
    (hp : o.pardim = 1) (v a : Tensor K)
    (hv : o.tangent tol [ts] none above true = .ok [v])
    (ha : o.derivativeCall tol [ts] (.int 2) above true = .ok a) :
    o.curveBinormalRaw tol ts above = .ok (Tensor.crossRows v (Obj.fixedAcc v a ts.length)) := by
  have h1 : o.derivativeCall tol [ts] (.int 1) above true = .ok v := by
    have ht := (C03_tangent_is_first_derivative o tol ts ts above true).1 hp
    have hc := C03_derivativeCall_curve o tol ts (.int 1) [1] above true (by simp [meaning])
    rw [if_neg (by simp)] at hc
    rw [hc, ← ht]
    unfold Obj.tangent at hv
    simp only [hp, if_true] at hv
    rw [if_neg (by omega)] at hv
    cases hq : o.tangentRaw tol [ts] 0 above true with
    | error e => rw [hq] at hv; cases hv
    | ok w =>
      rw [hq] at hv
      have : [w] = [v] := by simpa [bind, Except.bind, pure, Except.pure] using hv
      rw [List.cons.injEq] at this
      rw [this.1]
  unfold Obj.curveBinormalRaw
  rw [if_neg (by rw [hd]; decide), h1, ha]
  rfl

end frame

/-- **Normalisation algebra** used by `tangent` / `normal` (stated with `s² = ‖v‖²`, no square roots):
dividing a vector by `s` with `s² = ‖v‖²`, `s ≠ 0` gives a unit vector; the cross product of two rescaled
vectors is the rescaled cross product (so `normal` = normalised `∂u × ∂v`, and the model's un-normalised
vectors determine the same directions). -/
theorem C03_tangent_normal_algebra {K : Type} [Field K] (a1 a2 a3 b1 b2 b3 s1 s2 : K)
    (h1 : s1 ≠ 0) (h2 : s2 ≠ 0) :
    (s1 * s1 = a1*a1 + a2*a2 + a3*a3 → (a1/s1)*(a1/s1) + (a2/s1)*(a2/s1) + (a3/s1)*(a3/s1) = 1) ∧
    ((a2/s1)*(b3/s2) - (a3/s1)*(b2/s2) = (a2*b3 - a3*b2)/(s1*s2)) ∧
    ((a3/s1)*(b1/s2) - (a1/s1)*(b3/s2) = (a3*b1 - a1*b3)/(s1*s2)) ∧
    ((a1/s1)*(b2/s2) - (a2/s1)*(b1/s2) = (a1*b2 - a2*b1)/(s1*s2)) := by
  refine ⟨?_, ?_, ?_, ?_⟩
  · intro h
    field_simp
    linear_combination -h
  · field_simp
  · field_simp
  · field_simp

/-! ## The hypotheses are satisfiable -/

/-- Leibniz relations of first order: whenever `W ≠ 0` a (unique) quotient jet exists. -/
example (n0 n1 W W1 : ℚ) (hW : W ≠ 0) : ∃ x0 x1 : ℚ, n0 = x0 * W ∧ n1 = x1 * W + x0 * W1 :=
  ⟨n0 / W, (n1 - n0 / W * W1) / W, by field_simp, by field_simp; ring⟩

/-- … of second order. -/
example (n0 n1 n2 W W1 W2 : ℚ) (hW : W ≠ 0) :
    ∃ x0 x1 x2 : ℚ, n0 = x0 * W ∧ n1 = x1 * W + x0 * W1 ∧ n2 = x2 * W + 2 * x1 * W1 + x0 * W2 :=
  ⟨n0 / W, (n1 - n0 / W * W1) / W, (n2 - 2 * ((n1 - n0 / W * W1) / W) * W1 - n0 / W * W2) / W,
    by field_simp, by field_simp; ring, by field_simp; ring⟩

/-- Clamped quadratic knot vector `[0,0,0,1,1,1]` (q = 1, N = 2) satisfies the end conditions of
`C03_derivative_spline`. -/
example : let τ : ℕ → ℚ := fun i => if i < 3 then 0 else 1
    τ (1 + 1) = τ 0 ∧ τ (2 + 1 + 1 + 1) = τ (2 + 1) := by
  simp

/-- Sound dispatch functions exist: the curve and the surface dispatch on all their spellings. -/
example : soundOn curveOutcome 1 (ints 5 ++ tuples 1 5 ++ lists 1 5) = true := by decide
example : soundOn surfaceOutcome 2 (ints 4 ++ tuples 2 4 ++ lists 2 4) = true := by decide

/-- The clamped-end hypotheses of `C03_derivative_spline_obj_*` hold for the linear basis `[0,0,1,1]` of C02. -/
example : C02_exLin.kn (C02_exLin.order - 1) = C02_exLin.kn 0 ∧
    C02_exLin.kn (C02_exLin.nAll + C02_exLin.order - 1) = C02_exLin.kn C02_exLin.nAll ∧
    2 ≤ C02_exLin.order ∧ C02_exLin.periodic = -1 := by
  refine ⟨?_, ?_, ?_, ?_⟩ <;> norm_num [Basis.kn, Basis.nAll, C02_exLin]

/-! ### Instances of the object-level derivative-spline theorems (concrete objects of C01 / C02) -/

/-- The clamped quadratic basis `[0,0,0,1,2,2,3,3,3]` and the linear basis `[0,0,1,1]` are ready. -/
theorem C03_exOpen_ready : C01_exOpen.DSplineReady := by
  left
  refine ⟨rfl, by decide, ?_, ?_⟩ <;> norm_num [Basis.kn, Basis.nAll, C01_exOpen]

theorem C03_exLin_ready : C02_exLin.DSplineReady := by
  left
  refine ⟨rfl, by decide, ?_, ?_⟩ <;> norm_num [Basis.kn, Basis.nAll, C02_exLin]

/-- The `C⁰`-periodic quadratic basis `[-1,0,0,1,2,3,3,4]` (4 functions) is ready. -/
theorem C03_exPer_ready : C01_exPer.DSplineReady := by
  right
  exact ⟨by decide, by decide⟩

/-- Curve (`C02_exCurve`, 6 control points): `get_derivative_spline(0)` succeeds and agrees with `derivative`
at `[1/2, 3]`, grid and pointwise. -/
example : ∃ o', C02_exCurve.getDerivativeSpline (1/1000) 0 = .ok o' ∧
    ∀ tensor, ∃ rv rd, o'.evaluate (1/1000) [[1/2, 3]] tensor = .ok rv ∧
      C02_exCurve.derivativeGeneric (1/1000) [[1/2, 3]] [1] [true] tensor = .ok rd ∧
      ∀ i c, i < 2 → c < 2 → rv.get (i * 2 + c) = rd.get (i * 2 + c) := by
  obtain ⟨o', h1, h2⟩ := C03_derivative_spline_obj_curve (o := C02_exCurve) rfl C01_exOpen_valid
    C03_exOpen_ready (nc := 2) rfl rfl (tol := 1/1000) (by norm_num)
  exact ⟨o', h1, fun tensor =>
    h2 [1/2, 3] (fun u hu => ⟨C02_exOpen_adm u hu, fun h => absurd h (by decide)⟩) (by simp) tensor⟩

/-- Periodic curve (`C02_exCurvePer`, `C⁰` seam): the derivative spline is no longer periodic and agrees with
`derivative` at `1/2`. -/
example : ∃ o', C02_exCurvePer.getDerivativeSpline (1/1000) 0 = .ok o' ∧
    ∃ rv rd, o'.evaluate (1/1000) [[1/2]] true = .ok rv ∧
      C02_exCurvePer.derivativeGeneric (1/1000) [[1/2]] [1] [true] true = .ok rd ∧
      ∀ i c, i < 1 → c < 2 → rv.get (i * 2 + c) = rd.get (i * 2 + c) := by
  obtain ⟨o', h1, h2⟩ := C03_derivative_spline_obj_curve (o := C02_exCurvePer) rfl C01_exPer_valid
    C03_exPer_ready (nc := 2) rfl rfl (tol := 1/1000) (by norm_num)
  refine ⟨o', h1, h2 [1/2] ?_ (by simp) true⟩
  intro u hu
  simp only [List.mem_cons, List.not_mem_nil, or_false] at hu
  subst hu
  refine ⟨⟨C01_exPer_exact_half, fun h => absurd h (by decide), fun _ => ?_⟩, fun _ => ?_⟩
  · rw [Basis.wrap_of_mem _ (by rw [C01_exPer_start]; norm_num) (by rw [C01_exPer_stop]; norm_num)]
    exact C01_exPer_exact_half
  · rw [C01_exPer_start, C01_exPer_stop]; norm_num

/-- Surface (`C02_exSurf`), both directions, grid and pointwise. -/
example := C03_derivative_spline_obj_surface_u (o := C02_exSurf) rfl C02_exLin_valid C02_exLin_valid
  C03_exLin_ready (nc := 3) rfl rfl (tol := 1/1000) (by norm_num)

example : ∃ o', C02_exSurf.getDerivativeSpline (1/1000) 1 = .ok o' ∧
    ∃ rv rd, o'.evaluate (1/1000) [[1/2, 1], [1/2, 1]] false = .ok rv ∧
      C02_exSurf.derivativeGeneric (1/1000) [[1/2, 1], [1/2, 1]] [0, 1] [true, true] false = .ok rd ∧
      ∀ i c, i < 2 → c < 3 → rv.get (i * 3 + c) = rd.get (i * 3 + c) := by
  obtain ⟨o', h1, h2⟩ := C03_derivative_spline_obj_surface_v (o := C02_exSurf) rfl C02_exLin_valid
    C02_exLin_valid C03_exLin_ready (nc := 3) rfl rfl (tol := 1/1000) (by norm_num)
  exact ⟨o', h1, (h2 [1/2, 1] [1/2, 1] C02_exLin_adm
    (fun v hv => ⟨C02_exLin_adm v hv, fun h => absurd h (by decide)⟩) (by simp) (by simp)).2 rfl⟩

/-- Volume (`C02_exVol`), third direction. -/
example : ∃ o', C02_exVol.getDerivativeSpline (1/1000) 2 = .ok o' ∧
    ∃ rv rd, o'.evaluate (1/1000) [[1/2, 1], [1/2], [1/2, 1]] true = .ok rv ∧
      C02_exVol.derivativeGeneric (1/1000) [[1/2, 1], [1/2], [1/2, 1]] [0, 0, 1] [true, true, true] true
        = .ok rd ∧
      ∀ i1 i2 i3 c, i1 < 2 → i2 < 1 → i3 < 2 → c < 1 →
        rv.get (((i1 * 1 + i2) * 2 + i3) * 1 + c) = rd.get (((i1 * 1 + i2) * 2 + i3) * 1 + c) := by
  obtain ⟨o', h1, h2⟩ := C03_derivative_spline_obj_volume_w (o := C02_exVol) rfl C02_exLin_valid
    C02_exLin_valid C02_exLin_valid C03_exLin_ready (nc := 1) rfl rfl (tol := 1/1000) (by norm_num)
  exact ⟨o', h1, (h2 [1/2, 1] [1/2] [1/2, 1] C02_exLin_adm
    (fun v hv => C02_exLin_adm v (by simp at hv ⊢; left; exact hv))
    (fun w hw => ⟨C02_exLin_adm w hw, fun h => absurd h (by decide)⟩) (by simp) (by simp) (by simp)).1⟩

/-! ### An instance of the real-analysis theorems: a concrete rational curve over ℝ -/

/-- Linear basis `[0,0,1,1]` over ℝ. -/
noncomputable def C03_exLinR : Basis ℝ := ⟨2, #[0, 0, 1, 1], -1⟩

/-- Rational line segment over ℝ: control points `(0,0)` (weight 1) and `(1,1)` (weight 2), stored premultiplied. -/
noncomputable def C03_exCurveRatR : Obj ℝ := ⟨#[C03_exLinR], ⟨[2, 3], #[0, 0, 1, 2, 2, 2]⟩, true⟩

theorem C03_exLinR_valid : C03_exLinR.Valid where
  order_pos := by decide
  size_ge := by decide
  sorted := by
    intro i hi
    have hi' : i + 1 < 4 := hi
    have hi'' : i < 3 := by omega
    interval_cases i <;> norm_num [Basis.kn, C03_exLinR]
  periodic_ge := by decide
  periodic_le := by decide
  start_lt_stop := by norm_num [Basis.start, Basis.stop, Basis.kn, C03_exLinR]
  ghosts := fun h => absurd h (by decide)

theorem C03_exLinR_adm : C03_exLinR.Admissible (1/1000) (1/2) := by
  refine ⟨?_, fun _ => ?_, fun h => absurd h (by decide)⟩
  · intro i hi
    have hi' : i < 4 := hi
    interval_cases i <;> norm_num [Basis.kn, C03_exLinR, abs_of_nonneg, abs_of_neg]
  · norm_num [Basis.start, Basis.stop, Basis.kn, C03_exLinR]

/-- `C03_rational_curve_real` / `_iterated` / `_real_any` apply to the concrete curve at `t₀ = 1/2` from the right:
`derivative(1/2, d)` for `d = 1,2,3` ARE the first three right derivatives of `t ↦ (2t)/(1+t)` (component 0). -/
example :
    let x : ℝ → ℝ := fun t =>
      splineDeriv (effSide C03_exLinR (1/2) true) C03_exLinR.kn 1 2
        (fun j => C03_exCurveRatR.cps.get (j * 3 + 0)) 0 t /
      splineDeriv (effSide C03_exLinR (1/2) true) C03_exLinR.kn 1 2
        (fun j => C03_exCurveRatR.cps.get (j * 3 + 2)) 0 t
    (∃ r, C03_exCurveRatR.derivativeGeneric (1/1000) [[1/2]] [1] [true] true = .ok r ∧
      iteratedDerivWithin 1 x (sideSet (effSide C03_exLinR (1/2) true) (1/2)) (1/2) = r.get 0) ∧
    iteratedDerivWithin 2 x (sideSet (effSide C03_exLinR (1/2) true) (1/2)) (1/2) =
      (C03_exCurveRatR.curveDerivativeRational (1/1000) [1/2] 2 true).get 0 ∧
    iteratedDerivWithin 3 x (sideSet (effSide C03_exLinR (1/2) true) (1/2)) (1/2) =
      (C03_exCurveRatR.curveDerivativeRational (1/1000) [1/2] 3 true).get 0 := by
  have hW : splineDeriv (effSide C03_exLinR (1/2) true) C03_exLinR.kn (C03_exLinR.order - 1)
      C03_exLinR.numFunctions (fun j => C03_exCurveRatR.cps.get (j * (2 + 1) + 2)) 0 (1/2) ≠ 0 := by
    have hs : effSide C03_exLinR (1/2) true = .right := by
      unfold effSide
      rw [if_neg (by norm_num [Basis.stop, Basis.kn, C03_exLinR])]
      rfl
    rw [hs]
    norm_num [splineDeriv, dB, B, ind, Basis.kn, Basis.numFunctions, C03_exLinR, C03_exCurveRatR,
      Tensor.get, Finset.sum_range_succ]
  exact C03_rational_curve_iterated (o := C03_exCurveRatR) rfl C03_exLinR_valid rfl (dim := 2) rfl rfl
    (tol := 1/1000) (by norm_num) (1/2) C03_exLinR_adm true (by simp) (c := 0) (by norm_num) hW

/-- The square-root parameter of the frame theorems is satisfiable: `Real.sqrt` is the positive square root. -/
example : IsSqrt Real.sqrt := fun x hx => ⟨Real.sqrt_pos.mpr hx, Real.mul_self_sqrt hx.le⟩

/-- … and `C03_surface_normal_unit` applies over ℝ with it. -/
example (o : Obj ℝ) := C03_surface_normal_unit (sq := Real.sqrt)
  (fun x hx => ⟨Real.sqrt_pos.mpr hx, Real.mul_self_sqrt hx.le⟩) o
