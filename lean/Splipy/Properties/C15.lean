import Splipy.Model.Sections
import Splipy.Lemmas.C15
import Splipy.Lemmas.C15Coons
import Splipy.Lemmas.C15Loop
import Splipy.Lemmas.C15Section
import Splipy.Lemmas.C15CpcEval
import Splipy.Lemmas.C15Tri
import Splipy.Lemmas.C15Factory
import Splipy.Lemmas.C15Ruled
import Splipy.Lemmas.C15CoonsModel
import Splipy.Lemmas.C15CoonsEdges
import Splipy.Lemmas.C15SurfaceEdges
import Splipy.Lemmas.C15Volume
import Splipy.Lemmas.C15EdgeCurves4
import Splipy.Lemmas.C15EdgePackage
import Splipy.Lemmas.C15FacePackage
import Splipy.Generated.C15
import Mathlib.Tactic.NormNum
import Mathlib.Tactic.IntervalCases
import Mathlib.Data.Rat.Floor

/-!
# Property C15: boundary extraction and boundary-filling constructions agree with evaluation

Spec level: `B`, `splineVal` (`Spec/BSpline.lean`); `tval` is the tensor-product sum over a list of
directions (one homogeneous component of an object; for a rational object the evaluated point is the
quotient of two such values, so every identity below passes to it); `secNet` is the control net of a
section (index `0` / `n-1` in the fixed directions).  Model level: `Sections.sections`,
`Sections.loopOrder`, … are the executable models of the Python functions of the same name
(`Model/Sections.lean`), tied to the code by the correspondence run of `harness/props/C15.py`.

Summary
* `C15_section_clamped`            every one of the `3^pardim` selectors `{None,0,-1}^pardim`, any pardim;
* `C15_sections_enumeration` …     the table `sections(src,tgt)` (documented orders, counts, inverses);
* `C15_coons`, `C15_coons_net`, `C15_coons_net_eval`  Coons patch (function, net, net = function);
* `C15_loop_reorder` …             the re-ordering search of four-curve `edge_curves`;
* `C15_ruled`, `C15_extrude`       two-curve / two-face filling and extrusion;
* `C15_edge_surfaces_6`            trilinear transfinite interpolation of six faces;
* `C15_section_model`, `C15_ruled_model`, `C15_extrude_model`  the same about the executable model
                                   (numpy slicing `takeAxis` ↔ `secNet`, `stack2` ↔ ruled net);
* `C15_const_par_curve_partial` (+ `_eval_u/_eval_v`)  constant-parameter curves of the model, complete for
                                   non-periodic cut directions;
* `C15_edge_surfaces_6_net`, `C15_edge_surfaces_6_net_eval`  six faces at control-net level (about the
                                   spec-level net `triNet`, not about `Obj.edgeSurfaces`);
* theorems that mention the factory models of `Model/Sections.lean`:
  - `edge_curves` (2): `C15_edge_curves_2_partial` (any interval, map level with the re-parametrisation),
    `C15_edge_curves_2_boundary_partial` (`[0,1]`, `section` / `const_par_curve` / `Obj.evaluate`);
  - `coons_patch`: `C15_coons_patch_sum_partial`, `C15_coons_patch_formula_partial`, `C15_coons_patch_partial`,
    `C15_coons_patch_boundary_partial`, `C15_coons_patch_mixed_boundary_partial` (opposite pairs on different
    bases; `section` / `const_par_curve` / `Obj.evaluate`: `C15.EdgeAgrees`);
  - `edge_curves` (4): `C15_edge_curves_4_search` (labels), `C15_edge_curves_4_partial`,
    `C15_edge_curves_4_boundary_partial`, `C15_edge_curves_4_mixed_boundary_partial` (directed loop),
    `C15_edge_curves_4_reordered_partial` (any order / orientation, object level);
  - `edge_surfaces` (2): `C15_edge_surfaces_2_partial`, `C15_edge_surfaces_2_evaluate_partial`,
    `C15_edge_surfaces_2_boundary_partial` (`C15.FaceAgrees`);
  - `edge_surfaces` (6): `C15_edge_surfaces_6_formula_partial` (the model succeeds; transfinite-interpolation formula),
    `C15_edge_surfaces_6_partial` (the six faces: `section` / `Obj.evaluate`), `C15_edge_surfaces_6_rational`;
  - arity: `C15_edge_curves_arity`, `C15_edge_surfaces_arity`;
* `C15_translated_*`               the utilities re-translated from the Python AST equal the hand model.
-/

open Splipy Splipy.Sections

variable {K : Type} [Field K] [LinearOrder K] [IsStrictOrderedRing K]

/-! ## 1. Sections of clamped directions -/

/-- Curve / fibre level, start: a spline on a basis clamped at the start
    (`τ 0 = … = τ q < τ (q+1)`, `q+1` = order) takes the value of its first coefficient at the
    start of the domain (limit from inside). -/
theorem C15_section_clamped_start (τ : ℕ → K) (hτ : Monotone τ) (q n : ℕ) (hn : 1 ≤ n)
    (c : ℕ → K) (h : τ 0 = τ q) (hlt : τ q < τ (q+1)) :
    splineVal .right τ q n c (τ q) = c 0 :=
  c15_clamped_start τ hτ q n hn c h hlt

/-- Curve / fibre level, end: clamped at the end (`τ (n-1) < τ n = … = τ (n+q)`), the value at the
    end of the domain (limit from inside) is the last coefficient. -/
theorem C15_section_clamped_end (τ : ℕ → K) (hτ : Monotone τ) (q n : ℕ) (hn : q + 1 ≤ n)
    (c : ℕ → K) (h : τ n = τ (n+q)) (hlt : τ (n-1) < τ n) :
    splineVal .left τ q n c (τ n) = c (n-1) :=
  c15_clamped_end τ hτ q n hn c h hlt

/-- Object level, any parametric dimension and every selector in `{None, 0, -1}^pardim`: if each
    fixed direction is clamped at the selected end, the object evaluated on that boundary (fixed
    directions at `start()` resp. `end()`, free directions at arbitrary parameters and sides `ps`)
    equals the section — the tensor-product spline over the free directions whose net is the
    sliced control net `secNet` (index `0` / `n-1`).  Corners, edges and faces are the cases with
    0, 1, 2 free directions; keyword and positional forms produce the same selector list
    (`check_section`, compared with the code by the correspondence run). -/
theorem C15_section_clamped (ds : List (Dir K × BSel)) (hc : SelClamped ds) (ps : List (Side × K))
    (c : List ℕ → K) :
    tval (fullArgs ds ps) c = tval (secArgs ds ps) (secNet ds c) :=
  c15_tval_section ds hc ps c

/-- Rational objects: numerator component `c` and weight component `w` both restrict, hence so does
    the projected point. -/
theorem C15_section_clamped_rational (ds : List (Dir K × BSel)) (hc : SelClamped ds)
    (ps : List (Side × K)) (c w : List ℕ → K) :
    tval (fullArgs ds ps) c / tval (fullArgs ds ps) w
      = tval (secArgs ds ps) (secNet ds c) / tval (secArgs ds ps) (secNet ds w) := by
  rw [c15_tval_section ds hc ps c, c15_tval_section ds hc ps w]

/-- Non-vacuity: the `umax` edge of a surface whose two directions are the linear basis. -/
example : SelClamped [((linDir : Dir ℚ), BSel.hi), (linDir, BSel.free)] :=
  ⟨linDir_clampedHi, trivial⟩

/-- … and what the theorem says for it: the value at `(1, v)` is the spline over `v` with the
    second row of the net. -/
example (c : List ℕ → ℚ) (s : Side) (v : ℚ) :
    tval [(linDir, .left, 1), (linDir, s, v)] c = tval [(linDir, s, v)] (fun idx => c (1 :: idx)) := by
  have h := C15_section_clamped [((linDir : Dir ℚ), BSel.hi), (linDir, BSel.free)]
    ⟨linDir_clampedHi, trivial⟩ [(s, v)] c
  have e : secNet [((linDir : Dir ℚ), BSel.hi), (linDir, BSel.free)] c = fun idx => c (1 :: idx) := by
    funext idx; cases idx <;> rfl
  rw [e] at h
  simpa [fullArgs, secArgs, linDir_hi] using h

/-! ## 2. The table of sections -/

/-- `sections(src_dim, tgt_dim)` is exactly the documented order: `Surface.edges` = umin, umax, vmin,
    vmax; `Volume.faces` = umin, umax, vmin, vmax, wmin, wmax; `Volume.edges` = the twelve edges in
    the order of its docstring; corners with the *first* direction varying fastest (`corners('C')`). -/
theorem C15_sections_enumeration :
    sections 1 0 = [[some 0], [some (-1)]]
    ∧ sections 2 1 = [[some 0, none], [some (-1), none], [none, some 0], [none, some (-1)]]
    ∧ sections 2 0 = [[some 0, some 0], [some (-1), some 0], [some 0, some (-1)], [some (-1), some (-1)]]
    ∧ sections 3 2 = [[some 0, none, none], [some (-1), none, none], [none, some 0, none],
                      [none, some (-1), none], [none, none, some 0], [none, none, some (-1)]]
    ∧ sections 3 1 = [[some 0, some 0, none], [some (-1), some 0, none], [some 0, some (-1), none],
                      [some (-1), some (-1), none],
                      [some 0, none, some 0], [some (-1), none, some 0], [some 0, none, some (-1)],
                      [some (-1), none, some (-1)],
                      [none, some 0, some 0], [none, some (-1), some 0], [none, some 0, some (-1)],
                      [none, some (-1), some (-1)]]
    ∧ sections 3 0 = [[some 0, some 0, some 0], [some (-1), some 0, some 0], [some 0, some (-1), some 0],
                      [some (-1), some (-1), some 0], [some 0, some 0, some (-1)],
                      [some (-1), some 0, some (-1)], [some 0, some (-1), some (-1)],
                      [some (-1), some (-1), some (-1)]]
    ∧ (∀ d : Fin 4, sections d d = [List.replicate d none]) := by
  decide

/-- Count `C(src,tgt)·2^(src-tgt)`, no duplicates, every entry has `src` selectors of which `tgt`
    are free — for every `tgt ≤ src ≤ 3`. -/
theorem C15_sections_count : ∀ src : Fin 4, ∀ tgt : Fin 4, tgt ≤ src →
    (sections src tgt).length = Nat.choose src tgt * 2 ^ (src.val - tgt.val)
    ∧ (sections src tgt).Nodup
    ∧ ∀ s ∈ sections src tgt, s.length = src.val ∧ (s.filter Option.isNone).length = tgt.val := by
  decide

/-- `section_from_index ∘ section_to_index = id` and conversely, on the whole table. -/
theorem C15_section_index_roundtrip : ∀ src : Fin 4, ∀ tgt : Fin 4, tgt ≤ src →
    (∀ s ∈ sections src tgt, (sectionToIndex s).bind (sectionFromIndex src tgt) = some s)
    ∧ ∀ i : Fin 13, i.val < (sections src tgt).length →
        (sectionFromIndex src tgt i).bind sectionToIndex = some i.val := by
  decide

/-- The `3^pardim` selectors: each of them is in exactly one table `sections(pardim, k)` and
    `section_to_index` finds it (pardim ≤ 3). -/
theorem C15_all_selectors_indexed :
    ∀ a b c : Fin 3,
      let sel : Fin 3 → Sel := fun x => if x = 0 then none else if x = 1 then some 0 else some (-1)
      (sectionToIndex [sel a]).isSome ∧ (sectionToIndex [sel a, sel b]).isSome
      ∧ (sectionToIndex [sel a, sel b, sel c]).isSome := by
  decide

/-! ## 3. Coons patch -/

section Coons

variable {R V : Type} [CommRing R] [AddCommGroup V] [Module R V]

/-- Function level (values in any module, e.g. homogeneous coordinates): with matching corners the
    bilinearly blended map `coonsMap = (1-v) b + v t + (1-u) l + u r - bilinear(corners)` restricts to
    the four inputs on the four sides of the unit square. -/
theorem C15_coons (b t l r : R → V) (h00 : l 0 = b 0) (h10 : r 0 = b 1) (h01 : l 1 = t 0)
    (h11 : r 1 = t 1) (u v : R) :
    coonsMap b t l r u 0 = b u ∧ coonsMap b t l r u 1 = t u
    ∧ coonsMap b t l r 0 v = l v ∧ coonsMap b t l r 1 v = r v :=
  ⟨c15_coonsMap_v0 b t l r h00 h10 u, c15_coonsMap_v1 b t l r h01 h11 u,
   c15_coonsMap_u0 b t l r v, c15_coonsMap_u1 b t l r v⟩

/-- Control-net level (identical bases): if the blending abscissae are `0` and `1` at the ends
    (Greville abscissae of open bases on `[0,1]`, `C15_greville_clamped`) and the corner control
    points match, the boundary rows and columns of the Coons net are the four input nets. -/
theorem C15_coons_net (ξ η : ℕ → R) (n m : ℕ) (b t l r : ℕ → V)
    (hξ0 : ξ 0 = 0) (hξ1 : ξ (n-1) = 1) (hη0 : η 0 = 0) (hη1 : η (m-1) = 1)
    (h00 : l 0 = b 0) (h10 : r 0 = b (n-1)) (h01 : l (m-1) = t 0) (h11 : r (m-1) = t (n-1))
    (i j : ℕ) :
    coonsNet ξ η n b t l r i 0 = b i ∧ coonsNet ξ η n b t l r i (m-1) = t i
    ∧ coonsNet ξ η n b t l r 0 j = l j ∧ coonsNet ξ η n b t l r (n-1) j = r j :=
  ⟨c15_coonsNet_j0 ξ η n b t l r hη0 h00 h10 i, c15_coonsNet_jlast ξ η n m b t l r hη1 h01 h11 i,
   c15_coonsNet_i0 ξ η n b t l r hξ0 j, c15_coonsNet_ilast ξ η n b t l r hξ1 j⟩

/-- Rational inputs.  `coons_patch` blends *homogeneous* control points, so `C15_coons_net` applies
    with `V` = homogeneous space and needs the corner control points to agree **including their
    weights**.  PARTIAL: the property asks for geometric agreement of the corners only; curves whose
    corner weights differ (same geometry) are outside this theorem, and indeed the pinned code
    rejects them in `edge_curves` (homogeneous end-point test) or returns a wrong boundary when
    `coons_patch` is called directly. -/
theorem C15_coons_rational_partial (ξ η : ℕ → R) (n m : ℕ) (b t l r : ℕ → V × R)
    (hξ0 : ξ 0 = 0) (hξ1 : ξ (n-1) = 1) (hη0 : η 0 = 0) (hη1 : η (m-1) = 1)
    (h00 : l 0 = b 0) (h10 : r 0 = b (n-1)) (h01 : l (m-1) = t 0) (h11 : r (m-1) = t (n-1))
    (i j : ℕ) :
    coonsNet ξ η n b t l r i 0 = b i ∧ coonsNet ξ η n b t l r i (m-1) = t i
    ∧ coonsNet ξ η n b t l r 0 j = l j ∧ coonsNet ξ η n b t l r (n-1) j = r j :=
  C15_coons_net ξ η n m b t l r hξ0 hξ1 hη0 hη1 h00 h10 h01 h11 i j

end Coons

/-- The Greville abscissae of an open basis on `[0,1]` end in `0` and `1`. -/
theorem C15_greville_clamped (τ : ℕ → K) (hτ : Monotone τ) (q n : ℕ) (hq : 1 ≤ q) (hn : 1 ≤ n)
    (h0 : τ 0 = τ q) (h1 : τ n = τ (n+q)) (hs : τ q = 0) (he : τ n = 1) :
    grevilleAbscissa τ q 0 = 0 ∧ grevilleAbscissa τ q (n-1) = 1 := by
  rw [c15_greville_clamped_start τ hτ q hq h0, c15_greville_clamped_end τ hτ q n hq hn h1]
  exact ⟨hs, he⟩

/-- The net formula *is* the Coons blend: the tensor-product spline whose control net is
    `coonsNet` with the Greville abscissae of the two bases evaluates, at every `(u,v)` of the
    domain, to the Coons blend `(1-v) b(u) + v t(u) + (1-u) l(v) + u r(v) - bilinear(corners)` of the
    four boundary splines (per homogeneous component; `coonsMap` with the corner values `b 0`,
    `b (n-1)`, `t 0`, `t (n-1)`, which are `b(0), b(1), t(0), t(1)` by `C15_section_clamped_*`).
    Together with `C15_coons` this gives the boundary restriction of the Coons surface at every parameter, and it
    is the justification of the model's Greville formula (the code reaches the same net through
    `make_splines_identical`, i.e. degree elevation and knot insertion of the linear blends). -/
theorem C15_coons_net_eval (s1 s2 : Side) (τ1 τ2 : ℕ → K) (h1 : Monotone τ1) (h2 : Monotone τ2)
    (q1 q2 μ1 μ2 n m : ℕ) (hq1 : 1 ≤ q1) (hq2 : 1 ≤ q2) (hμ1 : q1 ≤ μ1) (hμ2 : q2 ≤ μ2)
    (hn : μ1 < n) (hm : μ2 < m) (u v : K)
    (hu : s1.mem (τ1 μ1) (τ1 (μ1+1)) u) (hv : s2.mem (τ2 μ2) (τ2 (μ2+1)) v)
    (b t l r : ℕ → K) :
    splineVal s1 τ1 q1 n (fun i => splineVal s2 τ2 q2 m
        (coonsNet (grevilleAbscissa τ1 q1) (grevilleAbscissa τ2 q2) n b t l r i) v) u
      = (1 - v) * splineVal s1 τ1 q1 n b u + v * splineVal s1 τ1 q1 n t u
        + (1 - u) * splineVal s2 τ2 q2 m l v + u * splineVal s2 τ2 q2 m r v
        - ((1 - u) * (1 - v) * b 0 + u * (1 - v) * b (n-1) + (1 - u) * v * t 0 + u * v * t (n-1)) :=
  c15_coonsNet_eval s1 s2 τ1 τ2 h1 h2 q1 q2 μ1 μ2 n m hq1 hq2 hμ1 hμ2 hn hm u v hu hv b t l r

/-! ## 4. The loop re-ordering search of four-curve `edge_curves` -/

/-- Every closed loop of four curves, given in any of the `4!` orders and with any of the `2^4`
    reversal patterns (this includes all rotations), is accepted by the search; the first curve is
    kept as given and the result is the directed loop through it. -/
theorem C15_loop_reorder :
    ∀ a b c d : Fin 4, [a, b, c, d].Nodup → ∀ flips ∈ C15_allFlips,
      C15_accepted (C15_arrange [a, b, c, d] flips) = true := by
  decide

/-- What an accepted search result is, generic in the curve type: if the three steps after the first
    curve succeed with the list `l`, then `l` has three entries and `first, l₀, l₁, l₂` is a chain —
    every entry starts (as returned, i.e. after a possible reversal, given `hrev`) where its
    predecessor ends.  Nothing is claimed here about *which* input curves the entries are (that is
    `C15_loop_reorder` on labels and `C15_loop_reorder_objects` on curves), and the code does not
    re-test that the fourth curve closes the loop. -/
theorem C15_loop_reorder_chain {C α : Type} (close : α → α → Bool) (startp endp : C → α)
    (rev : C → C) (hrev : ∀ c, startp (rev c) = endp c) (first : C) (rest l : List C)
    (h : loopGo close startp endp rev 3 first rest = .ok l) :
    l.length = 3 ∧ IsChainFrom close startp endp first l :=
  loopGo_ok close startp endp rev hrev 3 first rest l h

/-- Rejection: the only exception the search raises is `RuntimeError`, and it is raised as soon as
    the current end point is matched by neither end of any remaining curve. -/
theorem C15_loop_reorder_rejects {C α : Type} (close : α → α → Bool) (startp endp : C → α)
    (rev : C → C) (k : ℕ) (cur : C) (rest : List C) :
    (∀ e, loopGo close startp endp rev k cur rest = .error e → e = .runtime)
    ∧ ((∀ c ∈ rest, close (endp cur) (startp c) = false ∧ close (endp cur) (endp c) = false) →
        loopGo close startp endp rev (k+1) cur rest = .error .runtime) :=
  ⟨fun e h => loopGo_error close startp endp rev k cur rest e h,
   loopGo_no_continuation close startp endp rev k cur rest⟩

/-- Non-vacuity of the rejection: three curves that do not touch the end of the first one. -/
example : C15_search [(0, 1), (2, 3), (3, 2), (2, 0)] = .error .runtime := by decide

/-- An *open* chain is accepted (the closing test `c3[-1] == c0[0]` is not repeated after the search);
    the property makes no claim for such input. -/
example : C15_search [(0, 1), (1, 2), (2, 3), (3, 3)] = .ok [(0, 1), (1, 2), (2, 3), (3, 3)] := by decide

/-! ## 5. Ruled objects and extrusion -/

/-- `edge_curves(c1, c2)` / `edge_surfaces(s1, s2)` / `extrude`: an object whose last direction is
    the linear basis `BSplineBasis(2)` and whose control net is `c`: its min section (`v = 0`, resp.
    `w = 0`) is the object with net `c[…,0]`, its max section the one with net `c[…,1]` — for any
    number of leading directions, any parameters and sides. -/
theorem C15_ruled (args : List (Dir K × Side × K)) (c : List ℕ → K) :
    tval (args ++ [((linDir : Dir K), Side.right, 0)]) c = tval args (fun idx => c (idx ++ [0]))
    ∧ tval (args ++ [((linDir : Dir K), Side.left, 1)]) c = tval args (fun idx => c (idx ++ [1])) :=
  ⟨c15_tval_append_lin_lo args c, c15_tval_append_lin_hi args c⟩

/-- Between the two sections a ruled curve→surface is the linear interpolant of its two rows. -/
theorem C15_ruled_interior (s : Side) (D : Dir K) (u v : K) (h0 : 0 ≤ v) (h1 : v < 1)
    (c : List ℕ → K) :
    tval [(D, s, u), (linDir, .right, v)] c
      = (1 - v) * splineVal s D.τ D.q D.n (fun i => c [i, 0]) u
        + v * splineVal s D.τ D.q D.n (fun i => c [i, 1]) u := by
  simp only [tval, linDir]
  have e : (fun i => splineVal Side.right linKnots 1 2 (fun j => c [i, j]) v)
      = fun i => (1 - v) * c [i, 0] + v * c [i, 1] := by
    funext i
    exact c15_lin_splineVal (fun j => c [i, j]) v h0 h1
  rw [e, c15_splineVal_add, c15_splineVal_smul, c15_splineVal_smul]

/-- `extrude(obj, amount)`: the control net is `obj` in the first layer and `obj + amount·w` in the
    second (`w` = weights; `translate` adds `amount` times the weight to the homogeneous
    coordinates; `w = 1` for non-rational objects).  Hence the min section is `obj` and the max
    section is `obj + amount·W` in homogeneous coordinates, i.e. the profile moved by `amount`. -/
theorem C15_extrude (args : List (Dir K × Side × K)) (c base w : List ℕ → K) (d : K)
    (h0 : ∀ idx, c (idx ++ [0]) = base idx) (h1 : ∀ idx, c (idx ++ [1]) = base idx + d * w idx) :
    tval (args ++ [((linDir : Dir K), Side.right, 0)]) c = tval args base
    ∧ tval (args ++ [((linDir : Dir K), Side.left, 1)]) c = tval args base + d * tval args w := by
  rw [c15_tval_append_lin_lo, c15_tval_append_lin_hi]
  simp only [h0, h1]
  exact ⟨trivial, c15_tval_add_smul args base w d⟩

/-- … and after the projective division: the max section is the profile translated by the amount. -/
theorem C15_extrude_projected (args : List (Dir K × Side × K)) (c base w : List ℕ → K) (d : K)
    (h0 : ∀ idx, c (idx ++ [0]) = base idx) (h1 : ∀ idx, c (idx ++ [1]) = base idx + d * w idx)
    (hw : tval args w ≠ 0) :
    tval (args ++ [((linDir : Dir K), Side.left, 1)]) c / tval args w = tval args base / tval args w + d := by
  rw [(C15_extrude args c base w d h0 h1).2]
  field_simp

/-! ## 6. Six faces -/

section Faces

variable {R V : Type} [CommRing R] [AddCommGroup V] [Module R V]

/-- Function level: for six faces with compatible edges the trilinear transfinite interpolant that
    `edge_surfaces` assembles (`vol1 + vol2 + vol3 + vol4 − the three edge volumes`) restricts to
    the six inputs on the six sides of the unit cube. -/
theorem C15_edge_surfaces_6 {f0 f1 g0 g1 h0 h1 : R → R → V}
    (hc : FacesCompatible f0 f1 g0 g1 h0 h1) (u v w : R) :
    triMap f0 f1 g0 g1 h0 h1 0 v w = f0 v w ∧ triMap f0 f1 g0 g1 h0 h1 1 v w = f1 v w
    ∧ triMap f0 f1 g0 g1 h0 h1 u 0 w = g0 u w ∧ triMap f0 f1 g0 g1 h0 h1 u 1 w = g1 u w
    ∧ triMap f0 f1 g0 g1 h0 h1 u v 0 = h0 u v ∧ triMap f0 f1 g0 g1 h0 h1 u v 1 = h1 u v :=
  ⟨c15_triMap_u0 hc v w, c15_triMap_u1 hc v w, c15_triMap_v0 hc u w, c15_triMap_v1 hc u w,
   c15_triMap_w0 hc u v, c15_triMap_w1 hc u v⟩

/-- Non-vacuity: the faces of any trivariate map are compatible. -/
example (F : R → R → R → V) :
    FacesCompatible (fun v w => F 0 v w) (fun v w => F 1 v w) (fun u w => F u 0 w)
      (fun u w => F u 1 w) (fun u v => F u v 0) (fun u v => F u v 1) := by
  constructor <;> intro _ <;> rfl

end Faces

/-! ## 7. Constant-parameter curves -/

/-- Interpolation at an interior knot of multiplicity `q` on its own (no insertion needed when the
    knot already has that multiplicity). -/
theorem C15_interpolation_at_C0_knot (s : Side) (τ : ℕ → K) (hτ : Monotone τ) (q j : ℕ) (hq : 1 ≤ q)
    (heq : τ (j+1) = τ (j+q)) (hlo : τ j < τ (j+1)) (hhi : τ (j+q) < τ (j+q+1)) :
    B s τ q j (τ (j+1)) = 1 :=
  c15_B_eq_one_at_C0_knot s τ hτ q j hq heq hlo hhi

/-- Non-vacuity of the knot pattern: knots `0,0,0,1,1,2,2,2,…` (degree 2, the double knot `1`). -/
example : ∃ τ : ℕ → ℚ, Monotone τ ∧ τ (2+1) = τ (2+2) ∧ τ 2 < τ (2+1) ∧ τ (2+2) < τ (2+2+1) := by
  refine ⟨fun i => if i < 3 then 0 else if i < 5 then 1 else 2, ?_, ?_, ?_, ?_⟩
  · apply monotone_nat_of_le_succ
    intro k
    show (if k < 3 then (0:ℚ) else if k < 5 then 1 else 2)
        ≤ (if k + 1 < 3 then (0:ℚ) else if k + 1 < 5 then 1 else 2)
    split_ifs <;> first | omega | norm_num
  all_goals norm_num

/-! ## 8. The model's `section` computes the section net (numpy slicing ↔ `secNet`) -/

set_option linter.unusedSectionVars false

section Model

variable [FloorRing K]

open Tensor C04 C15

/-- **`C15_section_clamped` as a theorem about the executable model.**  Object `o` with control net
    of shape `dims ++ [nc]` (`dims` = the `n` of the directions `ds`), boundary selector per
    direction (`None`/`0`/`-1`, python form `selOf ds`), every fixed direction clamped at the
    selected end.  Then `Obj.sectionSel` (the model of `SplineObject.section` after
    `check_section`) succeeds; it returns the class chosen by the number of free directions (or the
    bare point) with control net `cps'` on the free axes; and for every homogeneous component `c` the
    tensor-product spline of `o` evaluated on the boundary equals the tensor-product spline of the
    returned net over the free directions. -/
theorem C15_section_model (o : Obj K) (ds : List (Dir K × BSel)) (nc : ℕ)
    (hshape : o.cps.shape = dimsOf ds ++ [nc]) (hcl : SelClamped ds) (unwrap : Bool)
    (ps : List (Side × K)) :
    ∃ cps' : Tensor K,
      cps'.shape = freeDims (idxOf ds) (dimsOf ds) ++ [nc] ∧
      o.sectionSel (selOf ds) unwrap =
        .ok (if !(Obj.freeBases o.bases.toList (selOf ds)).isEmpty ∨ !unwrap then
            .obj (Obj.className (Obj.freeBases o.bases.toList (selOf ds)).length)
              { bases := (Obj.freeBases o.bases.toList (selOf ds)).toArray, cps := cps',
                rational := o.rational }
          else .point cps'.data) ∧
      ∀ c, c < nc →
        tval (fullArgs ds ps) (fun full => o.cps.getIdx (full ++ [c]))
          = tval (secArgs ds ps) (fun is => cps'.getIdx (is ++ [c])) := by
  have hp : FixedPos ds := by
    clear hshape
    induction ds with
    | nil => trivial
    | cons d r ih =>
      obtain ⟨D, sel⟩ := d
      cases sel with
      | free => exact ih hcl
      | lo => exact ⟨hcl.1.2.1, ih hcl.2⟩
      | hi => exact ⟨by have := hcl.1.2.1; omega, ih hcl.2⟩
  obtain ⟨cps', h1, h2, h3⟩ := sectionSel_boundary o ds nc hshape hp unwrap
  refine ⟨cps', h1, h3, fun c hc => ?_⟩
  rw [C15_section_clamped ds hcl ps]
  apply tval_congr
  intro idx hidx
  rw [secArgs_dims] at hidx
  exact (h2 idx c hidx hc).symm

/-- The control net of a ruled / extruded object of the model (`Obj.stack2`, used by `Obj.ruled` and
    `Obj.extrude`): entry `[…, j, c]` is entry `[…, c]` of the first (`j = 0`) or second (`j = 1`)
    input net — the hypothesis of `C15_ruled` / `C15_extrude` for `net c idx = cps[idx ++ [c]]`. -/
theorem C15_ruled_model (a b : Tensor K) (A : List ℕ) (nc : ℕ) (hs : a.shape = A ++ [nc])
    (hsb : b.shape = A ++ [nc]) (ia : List ℕ) (c : ℕ) (hia : InRange ia A) (hc : c < nc) :
    (Obj.stack2 a b).shape = A ++ [2, nc] ∧
    (Obj.stack2 a b).getIdx ((ia ++ [0]) ++ [c]) = a.getIdx (ia ++ [c]) ∧
    (Obj.stack2 a b).getIdx ((ia ++ [1]) ++ [c]) = b.getIdx (ia ++ [c]) := by
  refine ⟨stack2_shape a b A nc hs, ?_, ?_⟩
  · have := stack2_getIdx a b A nc hs hsb ia 0 c hia (by omega) hc
    simpa using this
  · have := stack2_getIdx a b A nc hs hsb ia 1 c hia (by omega) hc
    simpa using this

/-- `Obj.extrude` (model of `surface_factory.extrude` / `volume_factory.extrude`): the result is
    the profile (lifted to 3-D) in layer 0 and the translated profile in layer 1, on the profile's
    bases plus `BSplineBasis(2)`.  (`translate` adds `amount·w` to the homogeneous coordinates:
    property C09.) -/
theorem C15_extrude_model (o : Obj K) (amount : List K) (h3 : amount.length = 3) :
    o.extrude amount = .ok (Obj.mk ((o.setDimension 3).bases.push Obj.linearBasis)
      (Obj.stack2 (o.setDimension 3).cps ((o.setDimension 3).translate amount).cps)
      (o.setDimension 3).rational) := by
  unfold Obj.extrude
  simp [h3]

/-! ## 8b. The four-curve branch of `Obj.edgeCurves`: the search on curves is the search on labels -/

/-- Labels of the two end control points of a curve. -/
def C15_endLabels (lab : Array K → Fin 4) (c : Obj K) : LCurve :=
  (lab (Obj.cpRow c 0), lab (Obj.cpRow c (-1)))

/-- **Transfer of `C15_loop_reorder` to the model's search on objects.**  Four curve objects
    (`CurveLike`: one non-periodic basis, `n × nc` control array); `E` is a set containing their
    homogeneous end control points, `lab` labels it with the four corners so that two end points are
    `allclose` exactly when their labels agree; the labelled input is one of the `4!·2⁴` arrangements
    of the directed loop (`C15_arrange`).  Then the model's
    `loopOrder (allclose rtol atol) (·[0]) (·[-1]) reverse` — the closing test and the re-ordering
    search of `edge_curves` — succeeds, its result is, label for label, the result of the search on
    labels, and that result is accepted (`C15_accepted`: the first curve is kept as given and the four
    curves form the directed closed loop through it).  Reversal of a non-periodic curve exchanges its
    end control points (`C15.reverse_curveLike`), so no hypothesis about `reverse` is needed. -/
theorem C15_loop_reorder_objects (rtol atol : K) (nc : ℕ) (cs : List (Obj K)) (lab : Array K → Fin 4)
    (E : Array K → Prop)
    (hcs : ∀ c ∈ cs, (∃ n, CurveLike c n nc) ∧ E (Obj.cpRow c 0) ∧ E (Obj.cpRow c (-1)))
    (hlab : ∀ x y, E x → E y → Obj.allclose rtol atol x y = (lab x == lab y))
    (a b c d : Fin 4) (hnd : [a, b, c, d].Nodup) (flips : List Bool) (hf : flips ∈ C15_allFlips)
    (harr : cs.map (C15_endLabels lab) = C15_arrange [a, b, c, d] flips) :
    ∃ l, loopOrder (Obj.allclose rtol atol) (fun c => Obj.cpRow c 0) (fun c => Obj.cpRow c (-1))
          (fun c => c.reverse 0) cs = .ok l
      ∧ C15_search (cs.map (C15_endLabels lab)) = .ok (l.map (C15_endLabels lab))
      ∧ C15_accepted (cs.map (C15_endLabels lab)) = true := by
  have hsim : Simulates (Obj.allclose rtol atol) (fun c : Obj K => Obj.cpRow c 0)
      (fun c => Obj.cpRow c (-1)) (fun c => c.reverse 0) (fun (x y : Fin 4) => x == y) Prod.fst Prod.snd
      Prod.swap (C15_endLabels lab) lab
      (fun c => (∃ n, CurveLike c n nc) ∧ E (Obj.cpRow c 0) ∧ E (Obj.cpRow c (-1))) := by
    refine ⟨fun _ _ => rfl, fun _ _ => rfl, ?_, ?_, ?_, ?_⟩
    · rintro c ⟨⟨n, hc⟩, _, _⟩
      obtain ⟨_, h1, h2⟩ := reverse_curveLike c n nc hc
      simp only [C15_endLabels, h1, h2, Prod.swap]
    · rintro c ⟨⟨n, hc⟩, e1, e2⟩
      obtain ⟨h0, h1, h2⟩ := reverse_curveLike c n nc hc
      exact ⟨⟨n, h0⟩, by rw [h1]; exact e2, by rw [h2]; exact e1⟩
    · rintro c d ⟨_, _, ec⟩ ⟨_, ed, _⟩
      exact hlab _ _ ec ed
    · rintro c d ⟨_, _, ec⟩ ⟨_, _, ed⟩
      exact hlab _ _ ec ed
  have htr := loopOrder_transfer hsim cs hcs
  have hacc : C15_accepted (cs.map (C15_endLabels lab)) = true := by
    rw [harr]; exact C15_loop_reorder a b c d hnd flips hf
  have hs : ∃ L, C15_search (cs.map (C15_endLabels lab)) = .ok L := by
    unfold C15_accepted at hacc
    cases h : C15_search (cs.map (C15_endLabels lab)) with
    | error e => rw [h] at hacc; simp at hacc
    | ok L => exact ⟨L, rfl⟩
  obtain ⟨L, hL⟩ := hs
  have hL' := hL
  unfold C15_search at hL'
  rw [← htr] at hL'
  cases hl : loopOrder (Obj.allclose rtol atol) (fun c => Obj.cpRow c 0) (fun c => Obj.cpRow c (-1))
      (fun c => c.reverse 0) cs with
  | error e => rw [hl] at hL'; simp [Except.map] at hL'
  | ok l =>
    rw [hl] at hL'
    simp only [Except.map, Except.ok.injEq] at hL'
    exact ⟨l, rfl, by rw [hL, hL'], hacc⟩

/-- **`Obj.edgeCurves` with four curves reduces to `Obj.coonsPatch` on the directed loop.**  If the
    four curves, after the pairwise `make_splines_compatible` (`compatAll`), satisfy the hypotheses of
    `C15_loop_reorder_objects` (any of the `4!·2⁴` orders / reversal patterns of a loop whose shared
    end control points are `allclose` — incl. their weights), then `edge_curves(c1,c2,c3,c4)` is
    `coons_patch(l0,l1,l2,l3)` where `l0 = c1` as given (after compatibility) and `l0,…,l3` is the
    directed closed loop (label-wise) made of the inputs or their reversals. -/
theorem C15_edge_curves_4_search (tol rtol atol : K) (nc : ℕ) (c1 c2 c3 c4 : Obj K)
    (lab : Array K → Fin 4) (E : Array K → Prop)
    (hcs : ∀ c ∈ (Obj.compatAll [c1, c2, c3, c4].toArray).toList,
      (∃ n, CurveLike c n nc) ∧ E (Obj.cpRow c 0) ∧ E (Obj.cpRow c (-1)))
    (hlab : ∀ x y, E x → E y → Obj.allclose rtol atol x y = (lab x == lab y))
    (a b c d : Fin 4) (hnd : [a, b, c, d].Nodup) (flips : List Bool) (hf : flips ∈ C15_allFlips)
    (harr : (Obj.compatAll [c1, c2, c3, c4].toArray).toList.map (C15_endLabels lab) = C15_arrange [a, b, c, d] flips) :
    ∃ l0 l1 l2 l3,
      Obj.edgeCurves tol [c1, c2, c3, c4] rtol atol = Obj.coonsPatch tol l0 l1 l2 l3
      ∧ (Obj.compatAll [c1, c2, c3, c4].toArray).toList.head? = some l0
      ∧ C15_search ((Obj.compatAll [c1, c2, c3, c4].toArray).toList.map (C15_endLabels lab))
          = .ok ([l0, l1, l2, l3].map (C15_endLabels lab))
      ∧ C15_accepted ((Obj.compatAll [c1, c2, c3, c4].toArray).toList.map (C15_endLabels lab)) = true := by
  have key := edgeCurves_four tol rtol atol c1 c2 c3 c4
  generalize (Obj.compatAll [c1, c2, c3, c4].toArray).toList = cs at hcs harr key ⊢
  obtain ⟨l, h1, h2, h3⟩ := C15_loop_reorder_objects rtol atol nc cs lab E hcs hlab a b c d hnd flips hf harr
  obtain ⟨k0, k1, k2, k3, hk, _⟩ := C15_accepted_ok h3 h2
  have hlen : l.length = 4 := by
    have := congrArg List.length hk
    simpa using this
  have hhead := loopOrder_head _ _ _ _ cs l h1
  match l, hlen with
  | [l0, l1, l2, l3], _ =>
    exact ⟨l0, l1, l2, l3, key l0 l1 l2 l3 h1, by rw [← hhead]; rfl, h2, h3⟩

/-! ## 8c. `edge_curves(c1, c2)`: the ruled surface has the two inputs as its `v`-sections -/

open C06 C12 Obj Basis in
/-- **`Obj.edgeCurves` with two curves — different orders, knots, rationality and dimension allowed.**
    `s = make_splines_compatible(c1, c2)`; `a` = the pair after `reparam`; the hypotheses are those of
    `C12_open_curves` (clamped bases of orders `p₁, p₂ ≥ 2` over common end knots, interior entries `L` =
    (value, multiplicity in curve 1, in curve 2), continuous curves, distinct knots more than
    `2(p-1)·tol` apart), plus well-formedness of the inputs.  Then
    * the model of `edge_curves(c1, c2)` succeeds with a surface `srf` on (common basis) × `BSplineBasis(2)`;
    * the model's `section` of `srf` at `v = 0` / `v = -1` returns `Curve`s on the common basis with
      control nets `cA`, `cB`;
    * **those two sections are the two inputs as maps**: for every homogeneous component, side and
      parameter `u`, the `v = 0` section evaluated at `(u - start₁)/(end₁ - start₁)` is input 1 (after
      `make_splines_compatible`, which only pads coordinates / appends unit weights, `C12_compatible`)
      evaluated at `u`, and likewise the `v = -1` section and input 2.
    Guards that remain: non-periodic clamped curves of order ≥ 2 with tolerance-separated knots
    (the family of `C12_open_curves`); periodic inputs are not covered. -/
theorem C15_edge_curves_2_partial (tol : K) (htol : 0 < tol) (p1 p2 : ℕ) (hp1 : 2 ≤ p1) (hp2 : 2 ≤ p2)
    (x0 xl : K) (L : List (K × ℕ × ℕ)) (hm : ∀ e ∈ L, e.2.1 ≤ p1 - 1 ∧ e.2.2 ≤ p2 - 1)
    (hgap : Splipy.Separated (2 * ((max p1 p2 - 1 : ℕ) : K) * tol) (clampedU x0 xl (L.map (·.1))))
    (c1 c2 : Obj K) (h1 : c1.WF) (h2 : c2.WF) (a : Obj K × Obj K)
    (hw1 : C06.WF (makeCompatible c1 c2).1 1) (hw2 : C06.WF (makeCompatible c1 c2).2 1)
    (hper1 : ((makeCompatible c1 c2).1.basis 0).periodic = -1)
    (hper2 : ((makeCompatible c1 c2).2.basis 0).periodic = -1)
    (ha : stageReparam (makeCompatible c1 c2) 0 = .ok a)
    (hb1 : a.1.basis 0 = openBasis p1 (clampedU x0 xl (L.map (·.1))) (clampedM p1 (L.map (·.2.1))))
    (hb2 : a.2.basis 0 = openBasis p2 (clampedU x0 xl (L.map (·.1))) (clampedM p2 (L.map (·.2.2))))
    (rtol atol : K) (unwrap : Bool) :
    ∃ (B : Basis K) (srf : Obj K) (cA cB : Tensor K) (rat : Bool),
      Obj.edgeCurves tol [c1, c2] rtol atol = .ok srf
      ∧ srf.bases = #[B, linearBasis]
      ∧ B = openBasis (max p1 p2) (clampedU x0 xl (L.map (·.1)))
          (clampedM (max p1 p2) (L.map (fun e =>
            max (raisedMult (max p1 p2 - p1) e.2.1) (raisedMult (max p1 p2 - p2) e.2.2))))
      ∧ srf.sectionSel [none, some 0] unwrap = .ok (.obj "Curve" { bases := #[B], cps := cA, rational := rat })
      ∧ srf.sectionSel [none, some (-1)] unwrap = .ok (.obj "Curve" { bases := #[B], cps := cB, rational := rat })
      ∧ ∀ comp, comp < (makeCompatible c1 c2).1.ncomp → ∀ (sd : Side) (u : K),
          splineVal sd B.kn (B.order - 1) B.numFunctions
              (fun j => cA.get (j * (makeCompatible c1 c2).1.ncomp + comp))
              ((u - ((makeCompatible c1 c2).1.basis 0).start)
                / (((makeCompatible c1 c2).1.basis 0).stop - ((makeCompatible c1 c2).1.basis 0).start))
            = splineVal sd ((makeCompatible c1 c2).1.basis 0).kn (((makeCompatible c1 c2).1.basis 0).order - 1)
                ((makeCompatible c1 c2).1.basis 0).numFunctions
                (fun j => (makeCompatible c1 c2).1.cps.get (j * (makeCompatible c1 c2).1.ncomp + comp)) u
          ∧ splineVal sd B.kn (B.order - 1) B.numFunctions
              (fun j => cB.get (j * (makeCompatible c1 c2).1.ncomp + comp))
              ((u - ((makeCompatible c1 c2).2.basis 0).start)
                / (((makeCompatible c1 c2).2.basis 0).stop - ((makeCompatible c1 c2).2.basis 0).start))
            = splineVal sd ((makeCompatible c1 c2).2.basis 0).kn (((makeCompatible c1 c2).2.basis 0).order - 1)
                ((makeCompatible c1 c2).2.basis 0).numFunctions
                (fun j => (makeCompatible c1 c2).2.cps.get (j * (makeCompatible c1 c2).1.ncomp + comp)) u := by
  obtain ⟨r, hr, hB, hBB, hre1, hre2, hwr1, hwr2, hsh, _⟩ :=
    ruled_curves tol htol p1 p2 hp1 hp2 x0 xl L hm hgap c1 c2 h1 h2 a hw1 hw2 ha hb1 hb2
  obtain ⟨cA, sA, shA, eA⟩ := ruled_section r.1 r.2 hwr1 hsh false unwrap
  obtain ⟨cB, sB, shB, eB⟩ := ruled_section r.1 r.2 hwr1 hsh true unwrap
  have hnc1 : r.1.ncomp = (makeCompatible c1 c2).1.ncomp := hre1.ncomp
  have hnc2 : r.2.ncomp = (makeCompatible c1 c2).2.ncomp := hre2.ncomp
  have hncc : (makeCompatible c1 c2).2.ncomp = (makeCompatible c1 c2).1.ncomp := (makeCompatible_ncomp h1 h2).symm
  have hperB : (r.1.basis 0).periodic = -1 := by
    rw [hB]; rfl
  have hperB2 : (r.2.basis 0).periodic = -1 := by
    rw [hBB]; exact hperB
  refine ⟨r.1.basis 0, _, cA, cB, r.1.rational, hr, ?_, hB, by simpa using sA, by simpa using sB, ?_⟩
  · show r.1.bases.push linearBasis = _
    have := bases_of_size_one hwr1.size
    apply Array.ext'
    rw [Array.toList_push, this]
    rfl
  · intro comp hc sd u
    constructor
    · have e := hre1.eval comp hc (fun _ => sd) (fun _ => u)
      rw [toTP_eval_curve hwr1 hperB, toTP_eval_curve hw1 hper1] at e
      simp only [Function.update_self] at e
      rw [← e, hnc1]
      apply C04.splineVal_congr
      intro j hj
      have := eA j comp hj (by rw [hnc1]; exact hc)
      simpa [hnc1] using this
    · have hc2 : comp < (makeCompatible c1 c2).2.ncomp := by rw [hncc]; exact hc
      have e := hre2.eval comp hc2 (fun _ => sd) (fun _ => u)
      rw [toTP_eval_curve hwr2 hperB2, toTP_eval_curve hw2 hper2] at e
      simp only [Function.update_self] at e
      have hb2' : r.2.basis 0 = r.1.basis 0 := hBB
      rw [hncc] at e
      rw [← e, hb2', hnc2, hncc]
      apply C04.splineVal_congr
      intro j hj
      have := eB j comp hj (by rw [hnc1]; exact hc)
      simpa [hnc1] using this

/-! ## 8d. `coons_patch` through `make_splines_identical`: the model's result is `S1 + S2 - S3` -/

open C06 C12 Obj Basis in
/-- **`Obj.coonsPatch` (the statement-by-statement model of `coons_patch`) on the family "opposite
    curves share an open basis on `[0,1]`".**  Guards (`_partial`): `bottom` and `T = top.reverse()` are
    well-formed curves on `unitBasis p₁ U₁ M₁` (clamped on `[0,1]`, order `p₁ ≥ 2`, interior knots `U₁` with
    multiplicities `1 ≤ m ≤ p₁-1`, distinct knots more than `2(p₁-1)·tol` apart: `UnitKnots`),
    `Lf = left.reverse()` and `right` on `unitBasis p₂ U₂ M₂`; all four have the same rationality `rat`
    and the same number `nc` of homogeneous components.  (Different orders / knots within a pair are
    `C15_edge_curves_2_partial`'s family; combining the two is not done here.)
    Conclusions, with no hypothesis about any called method:
    * `edge_curves(bottom, T)` and `edge_curves(Lf, right)` succeed (`rb`, `rl`: the made-identical
      copies, same maps as the inputs, `SameMap`);
    * the corner surface `s3` is built from `bottom[0], bottom[-1], T[0], T[-1]`;
    * all three `make_splines_identical` calls and both `+=`/`-=` succeed: `coonsPatch … = .ok s`;
    * `s` is a well-formed surface on `unitBasis p₁ U₁ M₁ × unitBasis p₂ U₂ M₂` (`UnitSurf`);
    * **the evaluated map of `s` is `S1 + S2 - S3`** in every homogeneous component, at every
      parameter pair and choice of sides, where `S1` = the ruled surface between `rb.1`, `rb.2`,
      `S2` = the swapped ruled surface between `rl.1`, `rl.2`, `S3` = the corner surface: degree
      elevation and knot insertion (C05, C04 via C12) keep the maps and `+=`/`-=` add them. -/
theorem C15_coons_patch_sum_partial (tol : K) (htol : 0 < tol) {p1 p2 : ℕ} {U1 U2 : List K} {M1 M2 : List ℕ}
    (k1 : UnitKnots tol p1 U1 M1) (k2 : UnitKnots tol p2 U2 M2) (rat : Bool) (nc : ℕ)
    (bottom right top left : Obj K)
    (hB : UnitCurve bottom p1 U1 M1 rat nc) (hT : UnitCurve (top.reverse 0) p1 U1 M1 rat nc)
    (hL : UnitCurve (left.reverse 0) p2 U2 M2 rat nc) (hR : UnitCurve right p2 U2 M2 rat nc)
    (oB : bottom.WF) (oT : (top.reverse 0).WF) (oL : (left.reverse 0).WF) (oR : right.WF) :
    ∃ (rb rl : Obj K × Obj K) (s3 s : Obj K),
      (SameMap 1 bottom rb.1 ∧ SameMap 1 (top.reverse 0) rb.2
        ∧ SameMap 1 (left.reverse 0) rl.1 ∧ SameMap 1 right rl.2)
      ∧ Obj.fromCorners 2 [Obj.cpRow bottom 0, Obj.cpRow bottom (-1), Obj.cpRow (top.reverse 0) 0,
            Obj.cpRow (top.reverse 0) (-1)] rat = .ok s3
      ∧ Obj.coonsPatch tol bottom right top left = .ok s
      ∧ UnitSurf s p1 p2 U1 U2 M1 M2 rat nc
      ∧ ∀ comp, comp < nc → ∀ (sd : Fin 2 → Side) (u : Fin 2 → K),
          (toTP s 2 comp).eval sd u
            = (toTP (ruledObj rb.1 rb.2) 2 comp).eval sd u
              + (toTP ((ruledObj rl.1 rl.2).swap 0 1) 2 comp).eval sd u
              - (toTP s3 2 comp).eval sd u := by
  obtain ⟨rb, rl, s3, s, h1, _, _, h4, _, h6, h7, h8⟩ :=
    coonsPatch_unit tol htol k1 k2 rat nc bottom right top left hB hT hL hR oB oT oL oR
  exact ⟨rb, rl, s3, s, h1, h4, h6, h7, h8⟩

/-! ## 8e. `coons_patch`: the Coons formula of the model and its four edges -/

open C06 C12 Obj Basis in
/-- **The Coons formula for `Obj.coonsPatch`** (family of `C15_coons_patch_sum_partial`: opposite curves
    share a clamped basis on `[0,1]`, `UnitKnots`; same rationality and number of components).  The
    model succeeds with a surface `s` on `unitBasis p₁ U₁ M₁ × unitBasis p₂ U₂ M₂` and, in every
    homogeneous component, at **every** parameter pair and choice of sides,
    `s(u,v) = β₀(v)·bottom(u) + β₁(v)·T(u) + β₀(u)·Lf(v) + β₁(u)·right(v) - Σᵢⱼ βᵢ(u) βⱼ(v) Pᵢⱼ`
    where `β₀, β₁` are the two B-splines of `BSplineBasis(2)` (`C15.beta`), `T = top.reverse()`,
    `Lf = left.reverse()` and `P = (bottom[0], bottom[-1]; T[0], T[-1])` are the corner control points
    `coons_patch` reads.  No hypothesis about any called method; no hypothesis about the corners.
    Guard that remains (`_partial`): within each opposite pair the two curves have the *same* open
    basis on `[0,1]` (order ≥ 2, continuous, tolerance-separated knots). -/
theorem C15_coons_patch_formula_partial (tol : K) (htol : 0 < tol) {p1 p2 : ℕ} {U1 U2 : List K} {M1 M2 : List ℕ}
    (k1 : UnitKnots tol p1 U1 M1) (k2 : UnitKnots tol p2 U2 M2) (rat : Bool) (nc : ℕ)
    (bottom right top left : Obj K)
    (hB : UnitCurve bottom p1 U1 M1 rat nc) (hT : UnitCurve (top.reverse 0) p1 U1 M1 rat nc)
    (hL : UnitCurve (left.reverse 0) p2 U2 M2 rat nc) (hR : UnitCurve right p2 U2 M2 rat nc)
    (oB : bottom.WF) (oT : (top.reverse 0).WF) (oL : (left.reverse 0).WF) (oR : right.WF) :
    ∃ s : Obj K, Obj.coonsPatch tol bottom right top left = .ok s
      ∧ UnitSurf s p1 p2 U1 U2 M1 M2 rat nc
      ∧ ∀ comp, comp < nc → ∀ (sd : Fin 2 → Side) (u : Fin 2 → K),
          (toTP s 2 comp).eval sd u
            = beta (sd 1) 0 (u 1) * (toTP bottom 1 comp).eval (fun _ => sd 0) (fun _ => u 0)
              + beta (sd 1) 1 (u 1) * (toTP (top.reverse 0) 1 comp).eval (fun _ => sd 0) (fun _ => u 0)
              + (beta (sd 0) 0 (u 0) * (toTP (left.reverse 0) 1 comp).eval (fun _ => sd 1) (fun _ => u 1)
                + beta (sd 0) 1 (u 0) * (toTP right 1 comp).eval (fun _ => sd 1) (fun _ => u 1))
              - ((Obj.cpRow bottom 0).getD comp 0 * (beta (sd 0) 0 (u 0) * beta (sd 1) 0 (u 1))
                + (Obj.cpRow bottom (-1)).getD comp 0 * (beta (sd 0) 1 (u 0) * beta (sd 1) 0 (u 1))
                + (Obj.cpRow (top.reverse 0) 0).getD comp 0 * (beta (sd 0) 0 (u 0) * beta (sd 1) 1 (u 1))
                + (Obj.cpRow (top.reverse 0) (-1)).getD comp 0 * (beta (sd 0) 1 (u 0) * beta (sd 1) 1 (u 1))) :=
  coonsPatch_formula tol htol k1 k2 rat nc bottom right top left hB hT hL hR oB oT oL oR

/-- The blending weights of the formula at the two ends: `β₀ = 1, β₁ = 0` at `0` (from the right) and
    `β₀ = 0, β₁ = 1` at `1` (from the left). -/
theorem C15_beta_ends :
    beta (K := K) .right 0 0 = 1 ∧ beta (K := K) .right 1 0 = 0
      ∧ beta (K := K) .left 0 1 = 0 ∧ beta (K := K) .left 1 1 = 1 := by
  have l0 := beta_lo (K := K) 0
  have l1 := beta_lo (K := K) 1
  have r0 := beta_hi (K := K) 0
  have r1 := beta_hi (K := K) 1
  simp only [if_true, one_ne_zero, if_false, zero_ne_one] at l0 l1 r0 r1
  exact ⟨l0, l1, r0, r1⟩

open C06 C12 Obj Basis in
/-- **`coons_patch`: the four edges of the model's result are the four input curves.**
    Family and guards as in `C15_coons_patch_formula_partial` (that is what makes this `_partial`),
    plus: the corner control points agree exactly (`Lf[0] = bottom[0]`, `right[0] = bottom[-1]`,
    `Lf[-1] = T[0]`, `right[-1] = T[-1]`, homogeneous rows incl. weights; `T = top.reverse()`,
    `Lf = left.reverse()` — for a directed loop `bottom → right → top → left` these are the four
    shared corners).  Then
    * `Obj.coonsPatch tol bottom right top left = .ok s`, `s` a well-formed surface on
      `unitBasis p₁ U₁ M₁ × unitBasis p₂ U₂ M₂`;
    * the model's `section` of `s` with selectors `(None,0)`, `(None,-1)`, `(0,None)`, `(-1,None)` returns
      four `Curve`s `eB, eT, eL, eR` of the family;
    * **`eB, eT, eL, eR` are the same maps as `bottom`, `T`, `Lf`, `right`** (`SameMap`: every homogeneous
      component, every side, every parameter);
    * the same at the level of the surface's own evaluated map on `v = 0` (from the right), `v = 1`
      (from the left), `u = 0`, `u = 1`.
    The `u = 0` / `u = 1` edges do not use the corner hypotheses (`C15.coonsPatch_edges`).
    Not covered: evaluation through `Obj.evaluate` (the statement is about the homogeneous component
    maps `C06.toTP`, the level of C06/C12); periodic curves; pairs on different bases. -/
theorem C15_coons_patch_partial (tol : K) (htol : 0 < tol) {p1 p2 : ℕ} {U1 U2 : List K} {M1 M2 : List ℕ}
    (k1 : UnitKnots tol p1 U1 M1) (k2 : UnitKnots tol p2 U2 M2) (rat : Bool) (nc : ℕ)
    (bottom right top left : Obj K)
    (hB : UnitCurve bottom p1 U1 M1 rat nc) (hT : UnitCurve (top.reverse 0) p1 U1 M1 rat nc)
    (hL : UnitCurve (left.reverse 0) p2 U2 M2 rat nc) (hR : UnitCurve right p2 U2 M2 rat nc)
    (oB : bottom.WF) (oT : (top.reverse 0).WF) (oL : (left.reverse 0).WF) (oR : right.WF)
    (c00 : Obj.cpRow (left.reverse 0) 0 = Obj.cpRow bottom 0)
    (c10 : Obj.cpRow right 0 = Obj.cpRow bottom (-1))
    (c01 : Obj.cpRow (left.reverse 0) (-1) = Obj.cpRow (top.reverse 0) 0)
    (c11 : Obj.cpRow right (-1) = Obj.cpRow (top.reverse 0) (-1)) (unwrap : Bool) :
    ∃ s eB eT eL eR : Obj K,
      Obj.coonsPatch tol bottom right top left = .ok s
      ∧ UnitSurf s p1 p2 U1 U2 M1 M2 rat nc
      ∧ s.sectionSel [none, some 0] unwrap = .ok (.obj "Curve" eB)
      ∧ s.sectionSel [none, some (-1)] unwrap = .ok (.obj "Curve" eT)
      ∧ s.sectionSel [some 0, none] unwrap = .ok (.obj "Curve" eL)
      ∧ s.sectionSel [some (-1), none] unwrap = .ok (.obj "Curve" eR)
      ∧ UnitCurve eB p1 U1 M1 rat nc ∧ UnitCurve eT p1 U1 M1 rat nc
      ∧ UnitCurve eL p2 U2 M2 rat nc ∧ UnitCurve eR p2 U2 M2 rat nc
      ∧ SameMap 1 bottom eB ∧ SameMap 1 (top.reverse 0) eT ∧ SameMap 1 (left.reverse 0) eL ∧ SameMap 1 right eR
      ∧ ∀ comp, comp < nc → ∀ (sd : Side) (t : K),
          (toTP s 2 comp).eval ![sd, .right] ![t, 0] = (toTP bottom 1 comp).eval (fun _ => sd) (fun _ => t)
          ∧ (toTP s 2 comp).eval ![sd, .left] ![t, 1] = (toTP (top.reverse 0) 1 comp).eval (fun _ => sd) (fun _ => t)
          ∧ (toTP s 2 comp).eval ![.right, sd] ![0, t] = (toTP (left.reverse 0) 1 comp).eval (fun _ => sd) (fun _ => t)
          ∧ (toTP s 2 comp).eval ![.left, sd] ![1, t] = (toTP right 1 comp).eval (fun _ => sd) (fun _ => t) := by
  obtain ⟨s, hcall, SS, hed⟩ := coonsPatch_edges tol htol k1 k2 rat nc bottom right top left hB hT hL hR oB oT oL oR
  obtain ⟨e0, e1, f0, f1, s0, s1, t0, t1, ue0, ue1, uf0, uf1, hev⟩ := SS.edge_sections htol k1 k2 unwrap
  have key : ∀ comp, comp < nc → ∀ (sd : Side) (t : K),
      (toTP s 2 comp).eval ![sd, .right] ![t, 0] = (toTP bottom 1 comp).eval (fun _ => sd) (fun _ => t)
      ∧ (toTP s 2 comp).eval ![sd, .left] ![t, 1] = (toTP (top.reverse 0) 1 comp).eval (fun _ => sd) (fun _ => t)
      ∧ (toTP s 2 comp).eval ![.right, sd] ![0, t] = (toTP (left.reverse 0) 1 comp).eval (fun _ => sd) (fun _ => t)
      ∧ (toTP s 2 comp).eval ![.left, sd] ![1, t] = (toTP right 1 comp).eval (fun _ => sd) (fun _ => t) := by
    intro comp hc sd t
    obtain ⟨a, b, c, d⟩ := hed comp hc sd t
    exact ⟨c c00 c10, d c01 c11, a, b⟩
  refine ⟨s, e0, e1, f0, f1, hcall, SS, s0, s1, t0, t1, ue0, ue1, uf0, uf1, ?_, ?_, ?_, ?_, key⟩
  · apply sameMap_curve_of (ue0.ncomp.trans hB.ncomp.symm)
    intro comp hc sd t
    rw [hB.ncomp] at hc
    rw [(hev comp hc sd t).1, (key comp hc sd t).1]
  · apply sameMap_curve_of (ue1.ncomp.trans hT.ncomp.symm)
    intro comp hc sd t
    rw [hT.ncomp] at hc
    rw [(hev comp hc sd t).2.1, (key comp hc sd t).2.1]
  · apply sameMap_curve_of (uf0.ncomp.trans hL.ncomp.symm)
    intro comp hc sd t
    rw [hL.ncomp] at hc
    rw [(hev comp hc sd t).2.2.1, (key comp hc sd t).2.2.1]
  · apply sameMap_curve_of (uf1.ncomp.trans hR.ncomp.symm)
    intro comp hc sd t
    rw [hR.ncomp] at hc
    rw [(hev comp hc sd t).2.2.2, (key comp hc sd t).2.2.2]

open C06 C12 Obj Basis in
/-- **`edge_curves(bottom, right, top, left)` on a directed loop: the four edges of the result are the
    four inputs.**  The four curves are given in loop direction with *equal* consecutive end control
    points (`bottom[-1] = right[0]`, `right[-1] = top[0]`, `top[-1] = left[0]`, `left[-1] = bottom[0]`),
    tolerances `rtol, atol ≥ 0`; family of `C15_coons_patch_partial` (`bottom`, `top.reverse()` on one
    clamped basis on `[0,1]`, `left.reverse()`, `right` on another, same rationality and number of
    components); `top`, `left` are curve-like (one non-periodic basis, `n × nc` net).  Then the model of
    `edge_curves`: `make_splines_compatible` changes nothing, the closing test accepts, nothing is
    re-ordered, and the result `s = coons_patch(bottom, right, top, left)` has the four inputs as its
    edge sections and edge maps (conclusions of `C15_coons_patch_partial`).
    Other orders / reversal patterns of the input: `C15_edge_curves_4_search` (label level) — the
    object-level identification of the re-ordered curves is not done, which together with the family is
    what makes this `_partial`. -/
theorem C15_edge_curves_4_partial (tol : K) (htol : 0 < tol) (rtol atol : K) (hr : 0 ≤ rtol) (ha : 0 ≤ atol)
    {p1 p2 : ℕ} {U1 U2 : List K} {M1 M2 : List ℕ}
    (k1 : UnitKnots tol p1 U1 M1) (k2 : UnitKnots tol p2 U2 M2) (rat : Bool) (nc : ℕ)
    (bottom right top left : Obj K)
    (hB : UnitCurve bottom p1 U1 M1 rat nc) (hT : UnitCurve (top.reverse 0) p1 U1 M1 rat nc)
    (hL : UnitCurve (left.reverse 0) p2 U2 M2 rat nc) (hR : UnitCurve right p2 U2 M2 rat nc)
    (oB : bottom.WF) (oT : (top.reverse 0).WF) (oL : (left.reverse 0).WF) (oR : right.WF)
    (nT nL : ℕ) (cT : CurveLike top nT nc) (cL : CurveLike left nL nc)
    (e12 : Obj.cpRow bottom (-1) = Obj.cpRow right 0) (e23 : Obj.cpRow right (-1) = Obj.cpRow top 0)
    (e34 : Obj.cpRow top (-1) = Obj.cpRow left 0) (e41 : Obj.cpRow left (-1) = Obj.cpRow bottom 0)
    (unwrap : Bool) :
    ∃ s eB eT eL eR : Obj K,
      Obj.edgeCurves tol [bottom, right, top, left] rtol atol = .ok s
      ∧ UnitSurf s p1 p2 U1 U2 M1 M2 rat nc
      ∧ s.sectionSel [none, some 0] unwrap = .ok (.obj "Curve" eB)
      ∧ s.sectionSel [none, some (-1)] unwrap = .ok (.obj "Curve" eT)
      ∧ s.sectionSel [some 0, none] unwrap = .ok (.obj "Curve" eL)
      ∧ s.sectionSel [some (-1), none] unwrap = .ok (.obj "Curve" eR)
      ∧ SameMap 1 bottom eB ∧ SameMap 1 (top.reverse 0) eT ∧ SameMap 1 (left.reverse 0) eL ∧ SameMap 1 right eR := by
  have hTr : top.rational = rat := hT.rational
  have hLr : left.rational = rat := hL.rational
  have hTn : top.ncomp = nc := by unfold Obj.ncomp; rw [cT.shape]; rfl
  have hLn : left.ncomp = nc := by unfold Obj.ncomp; rw [cL.shape]; rfl
  have hall : ∀ a ∈ [bottom, right, top, left], a.rational = rat ∧ a.ncomp = nc := by
    intro a ha
    simp only [List.mem_cons, List.not_mem_nil, or_false] at ha
    rcases ha with rfl | rfl | rfl | rfl
    · exact ⟨hB.rational, hB.ncomp⟩
    · exact ⟨hR.rational, hR.ncomp⟩
    · exact ⟨hTr, hTn⟩
    · exact ⟨hLr, hLn⟩
  have hcompat : ∀ a ∈ [bottom, right, top, left], ∀ b ∈ [bottom, right, top, left],
      a.rational = b.rational ∧ a.dimension = b.dimension := by
    intro a ha b hb
    obtain ⟨a1, a2⟩ := hall a ha
    obtain ⟨b1, b2⟩ := hall b hb
    exact ⟨a1.trans b1.symm, dimension_eq_of (a1.trans b1.symm) (a2.trans b2.symm)⟩
  obtain ⟨_, rT0, rT1⟩ := reverse_curveLike top nT nc cT
  obtain ⟨_, rL0, rL1⟩ := reverse_curveLike left nL nc cL
  obtain ⟨s, eB, eT, eL, eR, h1, h2, h3, h4, h5, h6, _, _, _, _, m1, m2, m3, m4, _⟩ :=
    C15_coons_patch_partial tol htol k1 k2 rat nc bottom right top left hB hT hL hR oB oT oL oR
      (rL0.trans e41) e12.symm (rL1.trans (e34.symm.trans rT0.symm)) (e23.trans rT1.symm) unwrap
  refine ⟨s, eB, eT, eL, eR, ?_, h2, h3, h4, h5, h6, m1, m2, m3, m4⟩
  rw [edgeCurves_directed tol rtol atol hr ha bottom right top left hcompat e12 e23 e34 e41]
  exact h1

open C06 C12 Obj Basis in
/-- **`coons_patch` with opposite pairs on DIFFERENT bases: boundary extraction and evaluation of the result
    agree with the four inputs — at the level of `Obj.evaluate`, `Obj.sectionSel` and `Obj.constParCurve`.**
    Family (`_partial`): all four curves live on `[0,1]`, clamped, non-periodic, orders `≥ 2`.  Within each
    opposite pair the two curves are written in *common-entry form*, the form `C12_open_curves` needs:
    `bottom` on `unitBasis pB U₁ MB`, `T = top.reverse()` on `unitBasis pT U₁ MT` over one list `U₁` of interior
    values (multiplicity lists with entries `≤ order - 1`, `0` = value absent), likewise `Lf = left.reverse()`,
    `right` over `U₂`; the union bases `B₁ = unitBasis (max pB pT) U₁ (unionMult …)`, `B₂` satisfy `UnitKnots`
    (every listed value is a knot of at least one curve of the pair, continuity, distinct knots more than
    `2(p-1)·tol` apart, `p` the larger order).  Same rationality `rat`, same number `nc` of homogeneous
    components.  Corner rows (homogeneous, incl. weights) agree exactly.
    Conclusion: `Obj.coonsPatch tol bottom right top left = .ok s`, `s` on `B₁ × B₂`, and for each of the four
    edges `C15.EdgeAgrees` (fields `sec`, `cpc`, `ev`):
    * `s.sectionSel (None,0) / (None,-1) / (0,None) / (-1,None)` returns a `Curve` on `B₁` / `B₂` that is the same
      map as `bottom` / `T` / `Lf` / `right` **and** `Obj.evaluate` of that curve returns the same array as
      `Obj.evaluate` of the input on every non-empty parameter list admissible for both bases;
    * `s.constParCurve tol 0 / 1` in direction `1` (`v`) resp. `0` (`u`) returns a curve with the same two
      properties;
    * `s.evaluate tol [us, [0]]`, `[us, [1]]`, `[[0], vs]`, `[[1], vs]` return the same numbers (`data`) as
      `bottom / T / Lf / right .evaluate tol [us]` (the shapes differ by the singleton axis).
    `Obj.evaluate` is the model of `SplineObject.evaluate` (snap, basis matrices, contraction, rational
    division; C02), so for rational inputs these are statements about the projected points.
    "Admissible" (`Basis.Admissible`): in the domain and a knot or at least `tol` away from every knot.
    Not covered: inputs not on `[0,1]` (then `make_splines_identical` re-parametrises: `C12` `Rescaled`),
    periodic inputs, corners that only agree up to `allclose`. -/
theorem C15_coons_patch_mixed_boundary_partial (tol : K) (htol : 0 < tol) {pB pT pL pR : ℕ} {U1 U2 : List K}
    {MB MT ML MR : List ℕ} (hpo : 2 ≤ pB ∧ 2 ≤ pT ∧ 2 ≤ pL ∧ 2 ≤ pR)
    (hlen : MB.length = U1.length ∧ MT.length = U1.length ∧ ML.length = U2.length ∧ MR.length = U2.length)
    (hmu : (∀ x ∈ MB, x ≤ pB - 1) ∧ (∀ x ∈ MT, x ≤ pT - 1) ∧ (∀ x ∈ ML, x ≤ pL - 1) ∧ (∀ x ∈ MR, x ≤ pR - 1))
    (k1 : UnitKnots tol (max pB pT) U1 (unionMult pB pT MB MT))
    (k2 : UnitKnots tol (max pL pR) U2 (unionMult pL pR ML MR)) (rat : Bool) (nc : ℕ)
    (bottom right top left : Obj K)
    (hB : UnitCurve bottom pB U1 MB rat nc) (hT : UnitCurve (top.reverse 0) pT U1 MT rat nc)
    (hL : UnitCurve (left.reverse 0) pL U2 ML rat nc) (hR : UnitCurve right pR U2 MR rat nc)
    (oB : bottom.WF) (oT : (top.reverse 0).WF) (oL : (left.reverse 0).WF) (oR : right.WF)
    (c00 : Obj.cpRow (left.reverse 0) 0 = Obj.cpRow bottom 0)
    (c10 : Obj.cpRow right 0 = Obj.cpRow bottom (-1))
    (c01 : Obj.cpRow (left.reverse 0) (-1) = Obj.cpRow (top.reverse 0) 0)
    (c11 : Obj.cpRow right (-1) = Obj.cpRow (top.reverse 0) (-1)) (unwrap : Bool) :
    ∃ s : Obj K,
      Obj.coonsPatch tol bottom right top left = .ok s
      ∧ UnitSurf s (max pB pT) (max pL pR) U1 U2 (unionMult pB pT MB MT) (unionMult pL pR ML MR) rat nc
      ∧ EdgeAgrees tol s bottom (unitBasis (max pB pT) U1 (unionMult pB pT MB MT)) (unitBasis pB U1 MB)
          [none, some 0] (.inl 1) 0 (fun us => [us, [0]]) unwrap
      ∧ EdgeAgrees tol s (top.reverse 0) (unitBasis (max pB pT) U1 (unionMult pB pT MB MT)) (unitBasis pT U1 MT)
          [none, some (-1)] (.inl 1) 1 (fun us => [us, [1]]) unwrap
      ∧ EdgeAgrees tol s (left.reverse 0) (unitBasis (max pL pR) U2 (unionMult pL pR ML MR)) (unitBasis pL U2 ML)
          [some 0, none] (.inl 0) 0 (fun vs => [[0], vs]) unwrap
      ∧ EdgeAgrees tol s right (unitBasis (max pL pR) U2 (unionMult pL pR ML MR)) (unitBasis pR U2 MR)
          [some (-1), none] (.inl 0) 1 (fun vs => [[1], vs]) unwrap := by
  obtain ⟨s, hcall, SS, hed⟩ := coonsPatch_edges_mixed tol htol hpo hlen hmu rfl rfl rfl rfl k1 k2 rat nc
    bottom right top left hB hT hL hR oB oT oL oR
  have eB := SS.edge_v_agrees htol k1.hp k1.hlen k2 bottom hpo.1 hlen.1 hB oB false
    (by intro comp hc sd t; simpa using (hed comp hc sd t).2.2.1 c00 c10) unwrap
  have eT := SS.edge_v_agrees htol k1.hp k1.hlen k2 (top.reverse 0) hpo.2.1 hlen.2.1 hT oT true
    (by intro comp hc sd t; simpa using (hed comp hc sd t).2.2.2 c01 c11) unwrap
  have eL := SS.edge_u_agrees htol k1 k2.hp k2.hlen (left.reverse 0) hpo.2.2.1 hlen.2.2.1 hL oL false
    (by intro comp hc sd t; simpa using (hed comp hc sd t).1) unwrap
  have eR := SS.edge_u_agrees htol k1 k2.hp k2.hlen right hpo.2.2.2 hlen.2.2.2 hR oR true
    (by intro comp hc sd t; simpa using (hed comp hc sd t).2.1) unwrap
  simp only [Bool.false_eq_true, if_false, if_true] at eB eT eL eR
  exact ⟨s, hcall, SS, eB, eT, eL, eR⟩

open C06 C12 Obj Basis in
/-- `C15_coons_patch_mixed_boundary_partial` when the two curves of each opposite pair share their basis
    (the family of `C15_coons_patch_partial`). -/
theorem C15_coons_patch_boundary_partial (tol : K) (htol : 0 < tol) {p1 p2 : ℕ} {U1 U2 : List K} {M1 M2 : List ℕ}
    (k1 : UnitKnots tol p1 U1 M1) (k2 : UnitKnots tol p2 U2 M2) (rat : Bool) (nc : ℕ)
    (bottom right top left : Obj K)
    (hB : UnitCurve bottom p1 U1 M1 rat nc) (hT : UnitCurve (top.reverse 0) p1 U1 M1 rat nc)
    (hL : UnitCurve (left.reverse 0) p2 U2 M2 rat nc) (hR : UnitCurve right p2 U2 M2 rat nc)
    (oB : bottom.WF) (oT : (top.reverse 0).WF) (oL : (left.reverse 0).WF) (oR : right.WF)
    (c00 : Obj.cpRow (left.reverse 0) 0 = Obj.cpRow bottom 0)
    (c10 : Obj.cpRow right 0 = Obj.cpRow bottom (-1))
    (c01 : Obj.cpRow (left.reverse 0) (-1) = Obj.cpRow (top.reverse 0) 0)
    (c11 : Obj.cpRow right (-1) = Obj.cpRow (top.reverse 0) (-1)) (unwrap : Bool) :
    ∃ s : Obj K,
      Obj.coonsPatch tol bottom right top left = .ok s
      ∧ EdgeAgrees tol s bottom (unitBasis p1 U1 M1) (unitBasis p1 U1 M1) [none, some 0] (.inl 1) 0
          (fun us => [us, [0]]) unwrap
      ∧ EdgeAgrees tol s (top.reverse 0) (unitBasis p1 U1 M1) (unitBasis p1 U1 M1) [none, some (-1)] (.inl 1) 1
          (fun us => [us, [1]]) unwrap
      ∧ EdgeAgrees tol s (left.reverse 0) (unitBasis p2 U2 M2) (unitBasis p2 U2 M2) [some 0, none] (.inl 0) 0
          (fun vs => [[0], vs]) unwrap
      ∧ EdgeAgrees tol s right (unitBasis p2 U2 M2) (unitBasis p2 U2 M2) [some (-1), none] (.inl 0) 1
          (fun vs => [[1], vs]) unwrap := by
  have e1 : max p1 p1 = p1 := max_self p1
  have e2 : max p2 p2 = p2 := max_self p2
  have u1 := unionMult_self p1 M1
  have u2 := unionMult_self p2 M2
  obtain ⟨s, h1, _, h3⟩ := C15_coons_patch_mixed_boundary_partial tol htol (pB := p1) (pT := p1) (pL := p2) (pR := p2)
    (MB := M1) (MT := M1) (ML := M2) (MR := M2) ⟨k1.hp, k1.hp, k2.hp, k2.hp⟩ ⟨k1.hlen, k1.hlen, k2.hlen, k2.hlen⟩
    ⟨fun x hx => (k1.hm x hx).2, fun x hx => (k1.hm x hx).2, fun x hx => (k2.hm x hx).2, fun x hx => (k2.hm x hx).2⟩
    (by rw [e1, u1]; exact k1) (by rw [e2, u2]; exact k2) rat nc bottom right top left hB hT hL hR oB oT oL oR
    c00 c10 c01 c11 unwrap
  rw [e1, e2, u1, u2] at h3
  exact ⟨s, h1, h3⟩

open C06 C12 Obj Basis in
/-- **`edge_curves(bottom, right, top, left)` on a directed loop, at the level of `Obj.evaluate` /
    `section` / `const_par_curve`**: hypotheses of `C15_edge_curves_4_partial`; the result of the model's
    `edge_curves` has the four inputs as its four edges in all three senses of `C15.EdgeAgrees`
    (see `C15_coons_patch_boundary_partial`). -/
theorem C15_edge_curves_4_boundary_partial (tol : K) (htol : 0 < tol) (rtol atol : K) (hr : 0 ≤ rtol) (ha : 0 ≤ atol)
    {p1 p2 : ℕ} {U1 U2 : List K} {M1 M2 : List ℕ}
    (k1 : UnitKnots tol p1 U1 M1) (k2 : UnitKnots tol p2 U2 M2) (rat : Bool) (nc : ℕ)
    (bottom right top left : Obj K)
    (hB : UnitCurve bottom p1 U1 M1 rat nc) (hT : UnitCurve (top.reverse 0) p1 U1 M1 rat nc)
    (hL : UnitCurve (left.reverse 0) p2 U2 M2 rat nc) (hR : UnitCurve right p2 U2 M2 rat nc)
    (oB : bottom.WF) (oT : (top.reverse 0).WF) (oL : (left.reverse 0).WF) (oR : right.WF)
    (nT nL : ℕ) (cT : CurveLike top nT nc) (cL : CurveLike left nL nc)
    (e12 : Obj.cpRow bottom (-1) = Obj.cpRow right 0) (e23 : Obj.cpRow right (-1) = Obj.cpRow top 0)
    (e34 : Obj.cpRow top (-1) = Obj.cpRow left 0) (e41 : Obj.cpRow left (-1) = Obj.cpRow bottom 0)
    (unwrap : Bool) :
    ∃ s : Obj K,
      Obj.edgeCurves tol [bottom, right, top, left] rtol atol = .ok s
      ∧ EdgeAgrees tol s bottom (unitBasis p1 U1 M1) (unitBasis p1 U1 M1) [none, some 0] (.inl 1) 0
          (fun us => [us, [0]]) unwrap
      ∧ EdgeAgrees tol s (top.reverse 0) (unitBasis p1 U1 M1) (unitBasis p1 U1 M1) [none, some (-1)] (.inl 1) 1
          (fun us => [us, [1]]) unwrap
      ∧ EdgeAgrees tol s (left.reverse 0) (unitBasis p2 U2 M2) (unitBasis p2 U2 M2) [some 0, none] (.inl 0) 0
          (fun vs => [[0], vs]) unwrap
      ∧ EdgeAgrees tol s right (unitBasis p2 U2 M2) (unitBasis p2 U2 M2) [some (-1), none] (.inl 0) 1
          (fun vs => [[1], vs]) unwrap := by
  have hTr : top.rational = rat := hT.rational
  have hLr : left.rational = rat := hL.rational
  have hTn : top.ncomp = nc := by unfold Obj.ncomp; rw [cT.shape]; rfl
  have hLn : left.ncomp = nc := by unfold Obj.ncomp; rw [cL.shape]; rfl
  have hall : ∀ a ∈ [bottom, right, top, left], a.rational = rat ∧ a.ncomp = nc := by
    intro a ha
    simp only [List.mem_cons, List.not_mem_nil, or_false] at ha
    rcases ha with rfl | rfl | rfl | rfl
    · exact ⟨hB.rational, hB.ncomp⟩
    · exact ⟨hR.rational, hR.ncomp⟩
    · exact ⟨hTr, hTn⟩
    · exact ⟨hLr, hLn⟩
  have hcompat : ∀ a ∈ [bottom, right, top, left], ∀ b ∈ [bottom, right, top, left],
      a.rational = b.rational ∧ a.dimension = b.dimension := by
    intro a ha b hb
    obtain ⟨a1, a2⟩ := hall a ha
    obtain ⟨b1, b2⟩ := hall b hb
    exact ⟨a1.trans b1.symm, dimension_eq_of (a1.trans b1.symm) (a2.trans b2.symm)⟩
  obtain ⟨_, rT0, rT1⟩ := reverse_curveLike top nT nc cT
  obtain ⟨_, rL0, rL1⟩ := reverse_curveLike left nL nc cL
  obtain ⟨s, h1, h2⟩ := C15_coons_patch_boundary_partial tol htol k1 k2 rat nc bottom right top left hB hT hL hR
    oB oT oL oR (rL0.trans e41) e12.symm (rL1.trans (e34.symm.trans rT0.symm)) (e23.trans rT1.symm) unwrap
  refine ⟨s, ?_, h2⟩
  rw [edgeCurves_directed tol rtol atol hr ha bottom right top left hcompat e12 e23 e34 e41]
  exact h1

open C06 C12 Obj Basis in
/-- **`edge_curves(bottom, right, top, left)` on a directed loop, opposite pairs on different bases**:
    family of `C15_coons_patch_mixed_boundary_partial`; the curves are given in loop direction with equal
    consecutive end control points, `rtol, atol ≥ 0`, `top`, `left` curve-like.  The model's `edge_curves`
    returns `s` whose four edges are the four inputs in all three senses of `C15.EdgeAgrees`. -/
theorem C15_edge_curves_4_mixed_boundary_partial (tol : K) (htol : 0 < tol) (rtol atol : K) (hr : 0 ≤ rtol)
    (ha : 0 ≤ atol) {pB pT pL pR : ℕ} {U1 U2 : List K}
    {MB MT ML MR : List ℕ} (hpo : 2 ≤ pB ∧ 2 ≤ pT ∧ 2 ≤ pL ∧ 2 ≤ pR)
    (hlen : MB.length = U1.length ∧ MT.length = U1.length ∧ ML.length = U2.length ∧ MR.length = U2.length)
    (hmu : (∀ x ∈ MB, x ≤ pB - 1) ∧ (∀ x ∈ MT, x ≤ pT - 1) ∧ (∀ x ∈ ML, x ≤ pL - 1) ∧ (∀ x ∈ MR, x ≤ pR - 1))
    (k1 : UnitKnots tol (max pB pT) U1 (unionMult pB pT MB MT))
    (k2 : UnitKnots tol (max pL pR) U2 (unionMult pL pR ML MR)) (rat : Bool) (nc : ℕ)
    (bottom right top left : Obj K)
    (hB : UnitCurve bottom pB U1 MB rat nc) (hT : UnitCurve (top.reverse 0) pT U1 MT rat nc)
    (hL : UnitCurve (left.reverse 0) pL U2 ML rat nc) (hR : UnitCurve right pR U2 MR rat nc)
    (oB : bottom.WF) (oT : (top.reverse 0).WF) (oL : (left.reverse 0).WF) (oR : right.WF)
    (nT nL : ℕ) (cT : CurveLike top nT nc) (cL : CurveLike left nL nc)
    (e12 : Obj.cpRow bottom (-1) = Obj.cpRow right 0) (e23 : Obj.cpRow right (-1) = Obj.cpRow top 0)
    (e34 : Obj.cpRow top (-1) = Obj.cpRow left 0) (e41 : Obj.cpRow left (-1) = Obj.cpRow bottom 0)
    (unwrap : Bool) :
    ∃ s : Obj K,
      Obj.edgeCurves tol [bottom, right, top, left] rtol atol = .ok s
      ∧ UnitSurf s (max pB pT) (max pL pR) U1 U2 (unionMult pB pT MB MT) (unionMult pL pR ML MR) rat nc
      ∧ EdgeAgrees tol s bottom (unitBasis (max pB pT) U1 (unionMult pB pT MB MT)) (unitBasis pB U1 MB)
          [none, some 0] (.inl 1) 0 (fun us => [us, [0]]) unwrap
      ∧ EdgeAgrees tol s (top.reverse 0) (unitBasis (max pB pT) U1 (unionMult pB pT MB MT)) (unitBasis pT U1 MT)
          [none, some (-1)] (.inl 1) 1 (fun us => [us, [1]]) unwrap
      ∧ EdgeAgrees tol s (left.reverse 0) (unitBasis (max pL pR) U2 (unionMult pL pR ML MR)) (unitBasis pL U2 ML)
          [some 0, none] (.inl 0) 0 (fun vs => [[0], vs]) unwrap
      ∧ EdgeAgrees tol s right (unitBasis (max pL pR) U2 (unionMult pL pR ML MR)) (unitBasis pR U2 MR)
          [some (-1), none] (.inl 0) 1 (fun vs => [[1], vs]) unwrap := by
  have hTr : top.rational = rat := hT.rational
  have hLr : left.rational = rat := hL.rational
  have hTn : top.ncomp = nc := by unfold Obj.ncomp; rw [cT.shape]; rfl
  have hLn : left.ncomp = nc := by unfold Obj.ncomp; rw [cL.shape]; rfl
  have hall : ∀ a ∈ [bottom, right, top, left], a.rational = rat ∧ a.ncomp = nc := by
    intro a ha
    simp only [List.mem_cons, List.not_mem_nil, or_false] at ha
    rcases ha with rfl | rfl | rfl | rfl
    · exact ⟨hB.rational, hB.ncomp⟩
    · exact ⟨hR.rational, hR.ncomp⟩
    · exact ⟨hTr, hTn⟩
    · exact ⟨hLr, hLn⟩
  have hcompat : ∀ a ∈ [bottom, right, top, left], ∀ b ∈ [bottom, right, top, left],
      a.rational = b.rational ∧ a.dimension = b.dimension := by
    intro a ha b hb
    obtain ⟨a1, a2⟩ := hall a ha
    obtain ⟨b1, b2⟩ := hall b hb
    exact ⟨a1.trans b1.symm, dimension_eq_of (a1.trans b1.symm) (a2.trans b2.symm)⟩
  obtain ⟨_, rT0, rT1⟩ := reverse_curveLike top nT nc cT
  obtain ⟨_, rL0, rL1⟩ := reverse_curveLike left nL nc cL
  obtain ⟨s, h1, h2⟩ := C15_coons_patch_mixed_boundary_partial tol htol hpo hlen hmu k1 k2 rat nc bottom right top left
    hB hT hL hR oB oT oL oR (rL0.trans e41) e12.symm (rL1.trans (e34.symm.trans rT0.symm)) (e23.trans rT1.symm) unwrap
  refine ⟨s, ?_, h2⟩
  rw [edgeCurves_directed tol rtol atol hr ha bottom right top left hcompat e12 e23 e34 e41]
  exact h1

open C06 C12 Obj Basis in
/-- **`edge_curves` with four curves given in ANY order and orientation, at object level.**
    Hypotheses: the four curves have the same rationality and dimension (so the pairwise
    `make_splines_compatible` is the identity); they are curve-like; `lab` labels their homogeneous end
    control points with the four corners such that two end points are `allclose` exactly when their labels
    agree; label-wise the input is one of the `4!·2⁴` arrangements of a directed loop (hypotheses of
    `C15_loop_reorder_objects`).  Then there are `l0 … l3` with
    * `edge_curves(c1,c2,c3,c4) = coons_patch(l0,l1,l2,l3)` (model equality);
    * `l0 = c1` is kept as given, and every other `l_i` **is** one of the input curves `c2,c3,c4` or its
      `reverse()` (object level: `C15.loopOrder_mem`);
    * label-wise `l0 … l3` is the directed closed loop found by the search on labels;
    * **if** `l0, l1, l2, l3` (as `bottom, right, top, left`) satisfy the hypotheses of
      `C15_coons_patch_mixed_boundary_partial` — in particular their corner control points agree *exactly*,
      which `allclose` alone does not give: that is a hypothesis here — **then** `edge_curves` returns `s`
      whose four edges are `l0`, `l2.reverse()`, `l3.reverse()`, `l1` in all three senses of `C15.EdgeAgrees`
      (`section`, `const_par_curve`, `evaluate`). -/
theorem C15_edge_curves_4_reordered_partial (tol : K) (htol : 0 < tol) (rtol atol : K) (nc : ℕ) (c1 c2 c3 c4 : Obj K)
    (lab : Array K → Fin 4) (E : Array K → Prop)
    (hcompat : ∀ a ∈ [c1, c2, c3, c4], ∀ b ∈ [c1, c2, c3, c4], a.rational = b.rational ∧ a.dimension = b.dimension)
    (hcs : ∀ c ∈ [c1, c2, c3, c4], (∃ n, CurveLike c n nc) ∧ E (Obj.cpRow c 0) ∧ E (Obj.cpRow c (-1)))
    (hlab : ∀ x y, E x → E y → Obj.allclose rtol atol x y = (lab x == lab y))
    (a b c d : Fin 4) (hnd : [a, b, c, d].Nodup) (flips : List Bool) (hf : flips ∈ C15_allFlips)
    (harr : [c1, c2, c3, c4].map (C15_endLabels lab) = C15_arrange [a, b, c, d] flips) :
    ∃ l0 l1 l2 l3 : Obj K,
      Obj.edgeCurves tol [c1, c2, c3, c4] rtol atol = Obj.coonsPatch tol l0 l1 l2 l3
      ∧ l0 = c1
      ∧ (∀ x ∈ [l1, l2, l3], x ∈ [c2, c3, c4] ∨ ∃ c ∈ [c2, c3, c4], x = c.reverse 0)
      ∧ C15_search ([c1, c2, c3, c4].map (C15_endLabels lab)) = .ok ([l0, l1, l2, l3].map (C15_endLabels lab))
      ∧ ∀ {pB pT pL pR : ℕ} {U1 U2 : List K} {MB MT ML MR : List ℕ} (rat : Bool) (unwrap : Bool),
          (2 ≤ pB ∧ 2 ≤ pT ∧ 2 ≤ pL ∧ 2 ≤ pR) →
          (MB.length = U1.length ∧ MT.length = U1.length ∧ ML.length = U2.length ∧ MR.length = U2.length) →
          ((∀ x ∈ MB, x ≤ pB - 1) ∧ (∀ x ∈ MT, x ≤ pT - 1) ∧ (∀ x ∈ ML, x ≤ pL - 1) ∧ (∀ x ∈ MR, x ≤ pR - 1)) →
          UnitKnots tol (max pB pT) U1 (unionMult pB pT MB MT) →
          UnitKnots tol (max pL pR) U2 (unionMult pL pR ML MR) →
          UnitCurve l0 pB U1 MB rat nc → UnitCurve (l2.reverse 0) pT U1 MT rat nc →
          UnitCurve (l3.reverse 0) pL U2 ML rat nc → UnitCurve l1 pR U2 MR rat nc →
          l0.WF → (l2.reverse 0).WF → (l3.reverse 0).WF → l1.WF →
          Obj.cpRow (l3.reverse 0) 0 = Obj.cpRow l0 0 → Obj.cpRow l1 0 = Obj.cpRow l0 (-1) →
          Obj.cpRow (l3.reverse 0) (-1) = Obj.cpRow (l2.reverse 0) 0 →
          Obj.cpRow l1 (-1) = Obj.cpRow (l2.reverse 0) (-1) →
          ∃ s : Obj K,
            Obj.edgeCurves tol [c1, c2, c3, c4] rtol atol = .ok s
            ∧ UnitSurf s (max pB pT) (max pL pR) U1 U2 (unionMult pB pT MB MT) (unionMult pL pR ML MR) rat nc
            ∧ EdgeAgrees tol s l0 (unitBasis (max pB pT) U1 (unionMult pB pT MB MT)) (unitBasis pB U1 MB)
                [none, some 0] (.inl 1) 0 (fun us => [us, [0]]) unwrap
            ∧ EdgeAgrees tol s (l2.reverse 0) (unitBasis (max pB pT) U1 (unionMult pB pT MB MT)) (unitBasis pT U1 MT)
                [none, some (-1)] (.inl 1) 1 (fun us => [us, [1]]) unwrap
            ∧ EdgeAgrees tol s (l3.reverse 0) (unitBasis (max pL pR) U2 (unionMult pL pR ML MR)) (unitBasis pL U2 ML)
                [some 0, none] (.inl 0) 0 (fun vs => [[0], vs]) unwrap
            ∧ EdgeAgrees tol s l1 (unitBasis (max pL pR) U2 (unionMult pL pR ML MR)) (unitBasis pR U2 MR)
                [some (-1), none] (.inl 0) 1 (fun vs => [[1], vs]) unwrap := by
  obtain ⟨l, h1, h2, h3⟩ := C15_loop_reorder_objects rtol atol nc [c1, c2, c3, c4] lab E hcs hlab a b c d hnd flips
    hf harr
  obtain ⟨k0, k1, k2, k3, hk, _⟩ := C15_accepted_ok h3 h2
  have hlen : l.length = 4 := by
    have := congrArg List.length hk
    simpa using this
  obtain ⟨t, ht, hmem⟩ := loopOrder_mem _ _ _ _ c1 [c2, c3, c4] l h1
  match l, hlen, t, ht with
  | [l0, l1, l2, l3], _, t, ht =>
    simp only [List.cons.injEq] at ht
    obtain ⟨rfl, rfl⟩ := ht
    have hcall : Obj.edgeCurves tol [l0, c2, c3, c4] rtol atol = Obj.coonsPatch tol l0 l1 l2 l3 := by
      apply edgeCurves_four
      rw [compatAll_four l0 c2 c3 c4 hcompat]
      exact h1
    refine ⟨l0, l1, l2, l3, hcall, rfl, hmem, h2, ?_⟩
    intro pB pT pL pR U1 U2 MB MT ML MR rat unwrap hpo hlen hmu k1 k2 hB hT hL hR oB oT oL oR c00 c10 c01 c11
    obtain ⟨s, g1, g2⟩ := C15_coons_patch_mixed_boundary_partial tol htol hpo hlen hmu k1 k2 rat nc l0 l1 l2 l3
      hB hT hL hR oB oT oL oR c00 c10 c01 c11 unwrap
    exact ⟨s, by rw [hcall]; exact g1, g2⟩

open C06 C12 Obj Basis in
/-- **`edge_curves(c1, c2)` at the level of `Obj.evaluate` / `section` / `const_par_curve`** (curves on
    `[0,1]`).  Family (`_partial`): `c1` on `unitBasis pa U Ma`, `c2` on `unitBasis pb U Mb` — clamped on
    `[0,1]`, orders `≥ 2`, common-entry form over one list `U` of interior values (multiplicities `≤ order - 1`,
    `0` = absent), distinct knots more than `2(p-1)·tol` apart (`p` the larger order); same rationality and
    number of components.  Then the model's `edge_curves(c1, c2)` returns a surface `srf` whose `v = 0` edge
    is `c1` and whose `v = 1` edge is `c2` in all three senses of `C15.EdgeAgrees`: the curve returned by
    `section(None, 0 / -1)`, the curve returned by `const_par_curve(0 / 1, 'v')`, and `srf.evaluate` on the
    edge, all agree with `c1` / `c2` under `Obj.evaluate` (same returned arrays / numbers), for parameters
    admissible for both the input's basis and the (refined, possibly degree-raised) union basis.
    Inputs on other intervals: `C15_edge_curves_2_partial` (map level, with the re-parametrisation). -/
theorem C15_edge_curves_2_boundary_partial (tol : K) (htol : 0 < tol) (rtol atol : K) {pa pb : ℕ} {U : List K}
    {Ma Mb : List ℕ} (hpa : 2 ≤ pa) (hpb : 2 ≤ pb) (hla : Ma.length = U.length) (hlb : Mb.length = U.length)
    (hma : ∀ x ∈ Ma, x ≤ pa - 1) (hmb : ∀ x ∈ Mb, x ≤ pb - 1)
    (hgap : Splipy.Separated (2 * ((max pa pb - 1 : ℕ) : K) * tol) (clampedU 0 1 U))
    {rat : Bool} {nc : ℕ} (c1 c2 : Obj K) (h1 : UnitCurve c1 pa U Ma rat nc) (h2 : UnitCurve c2 pb U Mb rat nc)
    (h1o : c1.WF) (h2o : c2.WF) (unwrap : Bool) :
    ∃ srf : Obj K,
      Obj.edgeCurves tol [c1, c2] rtol atol = .ok srf
      ∧ UnitSurf srf (max pa pb) 2 U [] (unionMult pa pb Ma Mb) [] rat nc
      ∧ EdgeAgrees tol srf c1 (unitBasis (max pa pb) U (unionMult pa pb Ma Mb)) (unitBasis pa U Ma)
          [none, some 0] (.inl 1) 0 (fun us => [us, [0]]) unwrap
      ∧ EdgeAgrees tol srf c2 (unitBasis (max pa pb) U (unionMult pa pb Ma Mb)) (unitBasis pb U Mb)
          [none, some (-1)] (.inl 1) 1 (fun us => [us, [1]]) unwrap := by
  obtain ⟨r, hr, u1, b2, w2, sh, n2, m1, m2⟩ := ruled_unit2 tol htol hpa hpb hla hlb hma hmb hgap c1 c2 h1 h2 h1o h2o
  have S : UnitSurf (ruledObj r.1 r.2) (max pa pb) 2 U [] (unionMult pa pb Ma Mb) [] rat nc := by
    have := ruledObj_unitSurf r.1 r.2 u1 sh ([] : List K)
    simpa using this
  have h2tol : (0 : K) + 2 * ((1 : ℕ) : K) * tol < 1 := by
    have := (separated_ends _ 0 1 U hgap).1
    have hq : (1 : K) ≤ ((max pa pb - 1 : ℕ) : K) := by
      have : 1 ≤ max pa pb - 1 := by have := le_max_left pa pb; omega
      exact_mod_cast this
    push_cast
    nlinarith
  have klin : UnitKnots tol 2 ([] : List K) [] := linear_unitKnots h2tol
  have hpm : 2 ≤ max pa pb := le_trans hpa (le_max_left _ _)
  have hlu : (unionMult pa pb Ma Mb).length = U.length := by
    unfold unionMult; rw [List.length_zipWith, hla, hlb, min_self]
  have hper : (r.1.basis 0).periodic = -1 := by rw [u1.basis]; rfl
  have hev : ∀ comp, comp < nc → ∀ (sd : Fin 2 → Side) (u : Fin 2 → K),
      (toTP (ruledObj r.1 r.2) 2 comp).eval sd u
        = beta (sd 1) 0 (u 1) * (toTP c1 1 comp).eval (fun _ => sd 0) (fun _ => u 0)
          + beta (sd 1) 1 (u 1) * (toTP c2 1 comp).eval (fun _ => sd 0) (fun _ => u 0) := by
    intro comp hc sd u
    rw [ruledObj_eval r.1 r.2 u1.wf w2 hper (b2.trans u1.basis.symm) sh comp (by rw [u1.ncomp]; exact hc),
      m1.eval comp (by rw [h1.ncomp]; exact hc), m2.eval comp (by rw [h2.ncomp]; exact hc)]
    rfl
  obtain ⟨l0, l1, r0, r1⟩ := C15_beta_ends (K := K)
  have e1 := S.edge_v_agrees htol hpm hlu klin c1 hpa hla h1 h1o false
    (by intro comp hc sd t
        simp only [Bool.false_eq_true, if_false]
        rw [hev comp hc]
        simp only [Matrix.cons_val_zero, Matrix.cons_val_one]
        rw [l0, l1]; ring) unwrap
  have e2 := S.edge_v_agrees htol hpm hlu klin c2 hpb hlb h2 h2o true
    (by intro comp hc sd t
        simp only [if_true]
        rw [hev comp hc]
        simp only [Matrix.cons_val_zero, Matrix.cons_val_one]
        rw [r0, r1]; ring) unwrap
  simp only [Bool.false_eq_true, if_false, if_true] at e1 e2
  refine ⟨ruledObj r.1 r.2, ?_, S, e1, e2⟩
  unfold Obj.edgeCurves
  exact hr

/-! ## 8f. `edge_surfaces(s1, s2)`: the ruled volume has the two inputs as its `w`-sections -/

open C06 C12 Obj Basis in
/-- **`Obj.edgeSurfaces` with two faces — different orders and knot multiplicities allowed.**
    Family (`_partial`): both faces are well-formed non-periodic surfaces on the unit square, clamped in
    both directions, written over common interior-value lists `U₀, U₁` (multiplicity lists `Ma·` for
    face 1, `Mb·` for face 2, entries `≤ order - 1`, `0` = value absent), of orders `≥ 2`, the same
    rationality and number of components, distinct knots more than `2(p-1)·tol` apart (`p` = the larger
    order of the direction).  Side conditions kept as hypotheses (`Nice`, only used when an order is
    actually raised): for the four input bases and the union basis of direction 0, the Greville
    collocation matrix is invertible and the guard of `raise_order` evaluates — both hold for every
    basis with `UnitKnots` (`C15.UnitKnots.nice`) and for `BSplineBasis(2)` (`C15.linear_nice`).
    Then, with no hypothesis about any called method,
    * `edge_surfaces(s1, s2)` of the model succeeds with a volume on `B₀ × B₁ × BSplineBasis(2)`, `B_d` =
      the union basis (larger order, raised multiplicities, `C12.raisedMult`);
    * the model's `section(None, None, 0)` / `section(None, None, -1)` of that volume return two
      well-formed `Surface`s `A`, `B` on `B₀ × B₁`;
    * **`A` is the same map as `s1` and `B` the same map as `s2`** (`SameMap 2`: every homogeneous
      component, all sides, all parameters). -/
theorem C15_edge_surfaces_2_partial (tol : K) (htol : 0 < tol) (pa0 pa1 pb0 pb1 : ℕ) (U0 U1 : List K)
    (Ma0 Ma1 Mb0 Mb1 : List ℕ) (rat : Bool) (nc : ℕ) (s1 s2 : Obj K)
    (h1 : UnitSurf s1 pa0 pa1 U0 U1 Ma0 Ma1 rat nc) (h2 : UnitSurf s2 pb0 pb1 U0 U1 Mb0 Mb1 rat nc)
    (hp : 2 ≤ pa0 ∧ 2 ≤ pa1 ∧ 2 ≤ pb0 ∧ 2 ≤ pb1)
    (hl : Ma0.length = U0.length ∧ Ma1.length = U1.length ∧ Mb0.length = U0.length ∧ Mb1.length = U1.length)
    (hm : (∀ x ∈ Ma0, x ≤ pa0 - 1) ∧ (∀ x ∈ Ma1, x ≤ pa1 - 1) ∧ (∀ x ∈ Mb0, x ≤ pb0 - 1) ∧ (∀ x ∈ Mb1, x ≤ pb1 - 1))
    (hg0 : Splipy.Separated (2 * ((max pa0 pb0 - 1 : ℕ) : K) * tol) (clampedU 0 1 U0))
    (hg1 : Splipy.Separated (2 * ((max pa1 pb1 - 1 : ℕ) : K) * tol) (clampedU 0 1 U1))
    (hn : Nice tol (s1.basis 0) ∧ Nice tol (s1.basis 1) ∧ Nice tol (s2.basis 0) ∧ Nice tol (s2.basis 1)
      ∧ Nice tol (unitBasis (max pa0 pb0) U0 (unionMult pa0 pb0 Ma0 Mb0))) (unwrap : Bool) :
    ∃ vol A B : Obj K,
      Obj.edgeSurfaces tol [s1, s2] = .ok vol
      ∧ vol.bases = #[unitBasis (max pa0 pb0) U0 (unionMult pa0 pb0 Ma0 Mb0),
                      unitBasis (max pa1 pb1) U1 (unionMult pa1 pb1 Ma1 Mb1), linearBasis]
      ∧ vol.rational = rat
      ∧ vol.sectionSel [none, none, some 0] unwrap = .ok (.obj "Surface" A)
      ∧ vol.sectionSel [none, none, some (-1)] unwrap = .ok (.obj "Surface" B)
      ∧ A.bases = #[unitBasis (max pa0 pb0) U0 (unionMult pa0 pb0 Ma0 Mb0),
                    unitBasis (max pa1 pb1) U1 (unionMult pa1 pb1 Ma1 Mb1)]
      ∧ B.bases = A.bases ∧ C06.WF A 2 ∧ C06.WF B 2
      ∧ SameMap 2 s1 A ∧ SameMap 2 s2 B ∧ A.rational = rat ∧ B.rational = rat := by
  obtain ⟨r, hr, R1, R2, sm1, sm2⟩ := identical_unitSurf tol htol pa0 pa1 pb0 pb1 U0 U1 Ma0 Ma1 Mb0 Mb1 rat nc
    s1 s2 h1 h2 hp hl hm hg0 hg1 hn
  have hsh : r.2.cps.shape = r.1.cps.shape := by rw [R1.shape, R2.shape]
  have hbb : ∀ d : Fin 2, r.2.basis d = r.1.basis d := fun d => by rw [R1.basis_fin d, R2.basis_fin d]
  obtain ⟨A, sA, bA, rA, wA, mA⟩ := ruled_section_surf r.1 r.2 R1.wf hbb hsh false unwrap
  obtain ⟨B, sB, bB, rB, wB, mB⟩ := ruled_section_surf r.1 r.2 R1.wf hbb hsh true unwrap
  simp only [Bool.false_eq_true, if_false, if_true] at sA sB mA mB
  have hcall : Obj.edgeSurfaces tol [s1, s2]
      = .ok { bases := r.1.bases.push linearBasis, cps := stack2 r.1.cps r.2.cps, rational := r.1.rational } := by
    unfold Obj.edgeSurfaces Obj.ruled
    simp only [hr]
    rw [if_neg (by simpa using hsh)]
  have hbl := bases_of_size_two R1.wf.size
  have hbs : r.1.bases = #[r.1.basis 0, r.1.basis 1] := by
    apply Array.ext'
    rw [hbl]
  refine ⟨_, A, B, hcall, ?_, R1.rational, sA, sB, ?_, by rw [bA, bB], wA, wB, sm1.trans mA, sm2.trans mB,
    rA.trans R1.rational, rB.trans R1.rational⟩
  · show r.1.bases.push linearBasis = _
    rw [hbs, R1.b0, R1.b1]
    rfl
  · rw [bA, R1.b0, R1.b1]

open C06 C12 Obj Basis in
/-- **`edge_surfaces(s1, s2)` at the level of `Obj.evaluate`**: hypotheses of `C15_edge_surfaces_2_partial`
    and `1 ≤ nc`.  The two `w`-sections `A`, `B` of the model's result evaluate (`Obj.evaluate`, tensor grid)
    to exactly the arrays of `s1`, `s2` on all non-empty parameter lists admissible for the bases of both the
    input and the section (the section lives on the union basis, which has more knots; "admissible" = in
    `[0,1]` and a knot or at least `tol` away from every knot). -/
theorem C15_edge_surfaces_2_evaluate_partial (tol : K) (htol : 0 < tol) (pa0 pa1 pb0 pb1 : ℕ) (U0 U1 : List K)
    (Ma0 Ma1 Mb0 Mb1 : List ℕ) (rat : Bool) (nc : ℕ) (hnc : 1 ≤ nc) (s1 s2 : Obj K)
    (h1 : UnitSurf s1 pa0 pa1 U0 U1 Ma0 Ma1 rat nc) (h2 : UnitSurf s2 pb0 pb1 U0 U1 Mb0 Mb1 rat nc)
    (hp : 2 ≤ pa0 ∧ 2 ≤ pa1 ∧ 2 ≤ pb0 ∧ 2 ≤ pb1)
    (hl : Ma0.length = U0.length ∧ Ma1.length = U1.length ∧ Mb0.length = U0.length ∧ Mb1.length = U1.length)
    (hm : (∀ x ∈ Ma0, x ≤ pa0 - 1) ∧ (∀ x ∈ Ma1, x ≤ pa1 - 1) ∧ (∀ x ∈ Mb0, x ≤ pb0 - 1) ∧ (∀ x ∈ Mb1, x ≤ pb1 - 1))
    (hg0 : Splipy.Separated (2 * ((max pa0 pb0 - 1 : ℕ) : K) * tol) (clampedU 0 1 U0))
    (hg1 : Splipy.Separated (2 * ((max pa1 pb1 - 1 : ℕ) : K) * tol) (clampedU 0 1 U1))
    (hn : Nice tol (s1.basis 0) ∧ Nice tol (s1.basis 1) ∧ Nice tol (s2.basis 0) ∧ Nice tol (s2.basis 1)
      ∧ Nice tol (unitBasis (max pa0 pb0) U0 (unionMult pa0 pb0 Ma0 Mb0))) (unwrap : Bool) :
    ∃ vol A B : Obj K,
      Obj.edgeSurfaces tol [s1, s2] = .ok vol
      ∧ vol.sectionSel [none, none, some 0] unwrap = .ok (.obj "Surface" A)
      ∧ vol.sectionSel [none, none, some (-1)] unwrap = .ok (.obj "Surface" B)
      ∧ ∀ us vs : List K, us ≠ [] → vs ≠ [] →
          (∀ u ∈ us, (unitBasis (max pa0 pb0) U0 (unionMult pa0 pb0 Ma0 Mb0)).Admissible tol u) →
          (∀ v ∈ vs, (unitBasis (max pa1 pb1) U1 (unionMult pa1 pb1 Ma1 Mb1)).Admissible tol v) →
          ((∀ u ∈ us, (unitBasis pa0 U0 Ma0).Admissible tol u) → (∀ v ∈ vs, (unitBasis pa1 U1 Ma1).Admissible tol v) →
            ∃ res, s1.evaluate tol [us, vs] true = .ok res ∧ A.evaluate tol [us, vs] true = .ok res)
          ∧ ((∀ u ∈ us, (unitBasis pb0 U0 Mb0).Admissible tol u) → (∀ v ∈ vs, (unitBasis pb1 U1 Mb1).Admissible tol v) →
            ∃ res, s2.evaluate tol [us, vs] true = .ok res ∧ B.evaluate tol [us, vs] true = .ok res) := by
  obtain ⟨vol, A, B, hcall, _, _, sA, sB, bA, bB, wA, wB, mA, mB, rA, rB⟩ :=
    C15_edge_surfaces_2_partial tol htol pa0 pa1 pb0 pb1 U0 U1 Ma0 Ma1 Mb0 Mb1 rat nc s1 s2 h1 h2 hp hl hm hg0 hg1
      hn unwrap
  obtain ⟨hpa0, hpa1, hpb0, hpb1⟩ := hp
  obtain ⟨hla0, hla1, hlb0, hlb1⟩ := hl
  have lu0 : (unionMult pa0 pb0 Ma0 Mb0).length = U0.length := by
    unfold unionMult; rw [List.length_zipWith, hla0, hlb0, min_self]
  have lu1 : (unionMult pa1 pb1 Ma1 Mb1).length = U1.length := by
    unfold unionMult; rw [List.length_zipWith, hla1, hlb1, min_self]
  have st := fun p (hp : 2 ≤ p) (U : List K) (M : List ℕ) (hl : M.length = U.length) =>
    (unitBasis_start_stop p hp U M hl).2
  have bA0 : A.basis 0 = unitBasis (max pa0 pb0) U0 (unionMult pa0 pb0 Ma0 Mb0) := by
    unfold Obj.basis; rw [bA]; rfl
  have bA1 : A.basis 1 = unitBasis (max pa1 pb1) U1 (unionMult pa1 pb1 Ma1 Mb1) := by
    unfold Obj.basis; rw [bA]; rfl
  have bB0 : B.basis 0 = unitBasis (max pa0 pb0) U0 (unionMult pa0 pb0 Ma0 Mb0) := by
    unfold Obj.basis; rw [bB, bA]; rfl
  have bB1 : B.basis 1 = unitBasis (max pa1 pb1) U1 (unionMult pa1 pb1 Ma1 Mb1) := by
    unfold Obj.basis; rw [bB, bA]; rfl
  have sU0 := st (max pa0 pb0) (le_trans hpa0 (le_max_left _ _)) U0 _ lu0
  have sU1 := st (max pa1 pb1) (le_trans hpa1 (le_max_left _ _)) U1 _ lu1
  refine ⟨vol, A, B, hcall, sA, sB, fun us vs hneu hnev huU hvU => ⟨fun hu hv => ?_, fun hu hv => ?_⟩⟩
  · obtain ⟨res, r1, r2, _⟩ := evaluate_eq_surface h1.wf wA (by rw [h1.b0]; rfl) (by rw [h1.b1]; rfl)
      (by rw [bA0]; rfl) (by rw [bA1]; rfl)
      (by rw [bA0, h1.b0, sU0, st pa0 hpa0 U0 Ma0 hla0]) (by rw [bA1, h1.b1, sU1, st pa1 hpa1 U1 Ma1 hla1])
      (rA.trans h1.rational.symm) (fun _ => by rw [h1.ncomp]; exact hnc) mA htol hneu hnev
      (by rw [h1.b0]; exact hu) (by rw [bA0]; exact huU) (by rw [h1.b1]; exact hv) (by rw [bA1]; exact hvU)
    exact ⟨res, r1, r2⟩
  · obtain ⟨res, r1, r2, _⟩ := evaluate_eq_surface h2.wf wB (by rw [h2.b0]; rfl) (by rw [h2.b1]; rfl)
      (by rw [bB0]; rfl) (by rw [bB1]; rfl)
      (by rw [bB0, h2.b0, sU0, st pb0 hpb0 U0 Mb0 hlb0]) (by rw [bB1, h2.b1, sU1, st pb1 hpb1 U1 Mb1 hlb1])
      (rB.trans h2.rational.symm) (fun _ => by rw [h2.ncomp]; exact hnc) mB htol hneu hnev
      (by rw [h2.b0]; exact hu) (by rw [bB0]; exact huU) (by rw [h2.b1]; exact hv) (by rw [bB1]; exact hvU)
    exact ⟨res, r1, r2⟩

open C06 C12 Obj Basis in
/-- **`edge_surfaces(s1, s2)`: the two `w`-faces of the result are the two inputs — `section`, `Obj.evaluate` of the
    sections, `Obj.evaluate` of the volume on `w = 0` / `w = 1`.**  Hypotheses of `C15_edge_surfaces_2_partial`
    (two faces on `[0,1]²` in common-entry form, orders and multiplicities may differ, `Nice` side conditions) and:
    the two union bases satisfy `UnitKnots` (every listed value is a knot of one of the two faces), `1 ≤ nc` for
    rational faces.  Then the model's `edge_surfaces(s1, s2)` returns `vol` on `B₀ × B₁ × BSplineBasis(2)` and
    `C15.FaceAgrees` holds for `(vol, s1, (None,None,0), [us, vs, [0]])` and `(vol, s2, (None,None,-1), [us, vs, [1]])`
    — except that `s1`, `s2` live on their own (coarser) bases, so the `evaluate` statements compare
    `vol`/its sections with the made-identical copies `r.1`, `r.2` of `s1`, `s2` (same maps as `s1`, `s2`:
    `SameMap 2`, and by `C15_edge_surfaces_2_evaluate_partial` the same `evaluate` arrays at parameters admissible
    for both bases). -/
theorem C15_edge_surfaces_2_boundary_partial (tol : K) (htol : 0 < tol) (pa0 pa1 pb0 pb1 : ℕ) (U0 U1 : List K)
    (Ma0 Ma1 Mb0 Mb1 : List ℕ) (rat : Bool) (nc : ℕ) (hnc : rat = true → 1 ≤ nc) (s1 s2 : Obj K)
    (h1 : UnitSurf s1 pa0 pa1 U0 U1 Ma0 Ma1 rat nc) (h2 : UnitSurf s2 pb0 pb1 U0 U1 Mb0 Mb1 rat nc)
    (hp : 2 ≤ pa0 ∧ 2 ≤ pa1 ∧ 2 ≤ pb0 ∧ 2 ≤ pb1)
    (hl : Ma0.length = U0.length ∧ Ma1.length = U1.length ∧ Mb0.length = U0.length ∧ Mb1.length = U1.length)
    (hm : (∀ x ∈ Ma0, x ≤ pa0 - 1) ∧ (∀ x ∈ Ma1, x ≤ pa1 - 1) ∧ (∀ x ∈ Mb0, x ≤ pb0 - 1) ∧ (∀ x ∈ Mb1, x ≤ pb1 - 1))
    (k0 : UnitKnots tol (max pa0 pb0) U0 (unionMult pa0 pb0 Ma0 Mb0))
    (k1 : UnitKnots tol (max pa1 pb1) U1 (unionMult pa1 pb1 Ma1 Mb1))
    (hn : Nice tol (s1.basis 0) ∧ Nice tol (s1.basis 1) ∧ Nice tol (s2.basis 0) ∧ Nice tol (s2.basis 1))
    (unwrap : Bool) :
    ∃ (r : Obj K × Obj K) (vol : Obj K),
      Obj.edgeSurfaces tol [s1, s2] = .ok vol
      ∧ SameMap 2 s1 r.1 ∧ SameMap 2 s2 r.2
      ∧ UnitSurf r.1 (max pa0 pb0) (max pa1 pb1) U0 U1 (unionMult pa0 pb0 Ma0 Mb0) (unionMult pa1 pb1 Ma1 Mb1) rat nc
      ∧ UnitSurf r.2 (max pa0 pb0) (max pa1 pb1) U0 U1 (unionMult pa0 pb0 Ma0 Mb0) (unionMult pa1 pb1 Ma1 Mb1) rat nc
      ∧ FaceAgrees tol vol r.1 (unitBasis (max pa0 pb0) U0 (unionMult pa0 pb0 Ma0 Mb0))
          (unitBasis (max pa1 pb1) U1 (unionMult pa1 pb1 Ma1 Mb1)) [none, none, some 0]
          (fun us vs => [us, vs, [0]]) unwrap
      ∧ FaceAgrees tol vol r.2 (unitBasis (max pa0 pb0) U0 (unionMult pa0 pb0 Ma0 Mb0))
          (unitBasis (max pa1 pb1) U1 (unionMult pa1 pb1 Ma1 Mb1)) [none, none, some (-1)]
          (fun us vs => [us, vs, [1]]) unwrap := by
  obtain ⟨n10, n11, n20, n21⟩ := hn
  obtain ⟨r, hr, R1, R2, sm1, sm2⟩ := identical_unitSurf tol htol pa0 pa1 pb0 pb1 U0 U1 Ma0 Ma1 Mb0 Mb1 rat nc
    s1 s2 h1 h2 hp hl hm k0.hgap k1.hgap ⟨n10, n11, n20, n21, k0.nice htol⟩
  have hsh : r.2.cps.shape = r.1.cps.shape := by rw [R1.shape, R2.shape]
  have hcall : Obj.edgeSurfaces tol [s1, s2] = .ok (ruledObj r.1 r.2) := by
    unfold Obj.edgeSurfaces Obj.ruled
    simp only [hr]
    rw [if_neg (by simpa using hsh)]
    rfl
  have klin : UnitKnots tol 2 ([] : List K) [] := linear_unitKnots (k0.two_tol htol)
  let P : Fin 3 → ℕ := ![max pa0 pb0, max pa1 pb1, 2]
  let UU : Fin 3 → List K := ![U0, U1, []]
  let MM : Fin 3 → List ℕ := ![unionMult pa0 pb0 Ma0 Mb0, unionMult pa1 pb1 Ma1 Mb1, []]
  have kk : ∀ d, UnitKnots tol (P d) (UU d) (MM d) := by
    apply fin3_cases
    · exact k0
    · exact k1
    · exact klin
  obtain ⟨w0, nn0⟩ := ruledObj_wf3 r.1 r.2 R1.wf hsh
  obtain ⟨e0, e1, e2⟩ := ruledObj_basis3 r.1 r.2 R1.wf.size
  have V : UnitVol (ruledObj r.1 r.2) P UU MM rat nc := by
    refine ⟨w0, ?_, R1.rational, nn0.trans R1.ncomp⟩
    apply fin3_cases
    · exact e0.trans R1.b0
    · exact e1.trans R1.b1
    · exact e2.trans linearBasis_unit
  have hev : ∀ comp, comp < nc → ∀ (sd : Fin 3 → Side) (u : Fin 3 → K),
      (toTP (ruledObj r.1 r.2) 3 comp).eval sd u
        = beta (sd 2) 0 (u 2) * (toTP r.1 2 comp).eval ![sd 0, sd 1] ![u 0, u 1]
          + beta (sd 2) 1 (u 2) * (toTP r.2 2 comp).eval ![sd 0, sd 1] ![u 0, u 1] := by
    intro comp hc sd u
    exact ruledObj_eval3 r.1 r.2 R1.wf R2.wf (by rw [R1.b0]; rfl) (by rw [R1.b1]; rfl) (by rw [R1.b0, R2.b0])
      (by rw [R1.b1, R2.b1]) hsh comp (by rw [R1.ncomp]; exact hc) sd u
  obtain ⟨l0, l1, r0, r1⟩ := C15_beta_ends (K := K)
  have f0 := V.face_w_agrees htol kk false r.1 R1 hnc
    (by intro comp hc s1' s2' x y
        rw [hev comp hc]
        simp only [sideOf, endOf, Bool.false_eq_true, if_false, Matrix.cons_val_zero, Matrix.cons_val_one,
          Matrix.cons_val_two, Matrix.tail_cons, Matrix.head_cons]
        rw [l0, l1]; ring) unwrap
  have f1 := V.face_w_agrees htol kk true r.2 R2 hnc
    (by intro comp hc s1' s2' x y
        rw [hev comp hc]
        simp only [sideOf, endOf, if_true, Matrix.cons_val_zero, Matrix.cons_val_one,
          Matrix.cons_val_two, Matrix.tail_cons, Matrix.head_cons]
        rw [r0, r1]; ring) unwrap
  simp only [endSel, endOf, Bool.false_eq_true, if_false, if_true] at f0 f1
  exact ⟨r, ruledObj r.1 r.2, hcall, sm1, sm2, R1, R2, f0, f1⟩

/-! ## 8f'. `edge_surfaces` with six faces: the model succeeds and its six faces are the six inputs -/

open C06 C12 Obj Basis in
/-- **Six-face `edge_surfaces` of the model: the transfinite-interpolation formula.**  Family (`_partial`): the six
    faces already live on common clamped bases on `[0,1]`: `umin, umax` on `B₁ × B₂`, `vmin, vmax` on `B₀ × B₂`,
    `wmin, wmax` on `B₀ × B₁`, `B_d = unitBasis (p d) (U d) (M d)` with `UnitKnots` (order `≥ 2`, continuous, knots
    more than `2(p-1)·tol` apart); non-rational; `nc` components.  No compatibility hypothesis.  Then
    `Obj.edgeSurfaces tol [umin, umax, vmin, vmax, wmin, wmax] = .ok vol`, `vol` a well-formed volume on
    `B₀ × B₁ × B₂`, and in every component, at every parameter triple and choice of sides,
    `vol(u,v,w) = Σ_a β_a(u) Fu_a(v,w) + Σ_b β_b(v) Fv_b(u,w) + Σ_c β_c(w) Fw_c(u,v) + Σ_abc β_a β_b β_c Fu_a(b,c)
                 - Σ_ab β_a(u) β_b(v) Fu_a(b,w) - Σ_bc β_b(v) β_c(w) Fv_b(u,c) - Σ_ac β_a(u) β_c(w) Fw_c(a,v)`
    (`a, b, c` range over the two ends `false`/`true` = `0`/`1`; `C15.bt` the two B-splines of `BSplineBasis(2)`;
    `C15.sum2 f = f false + f true`; `Fu_false = umin`, `Fu_true = umax`, …; an end argument means evaluation at
    `0` from the right resp. at `1` from the left).  The proof follows the model statement by statement: three
    ruled volumes, `corners(order='F')` and the trilinear volume, four swaps, nine `make_splines_identical`, three
    `+=`, the three edge volumes (`C15.edgeVolU/V/W`), three `-=`. -/
theorem C15_edge_surfaces_6_formula_partial (tol : K) (htol : 0 < tol) (p : Fin 3 → ℕ) (U : Fin 3 → List K)
    (M : Fin 3 → List ℕ) (k : ∀ d, UnitKnots tol (p d) (U d) (M d)) (nc : ℕ)
    (umin umax vmin vmax wmin wmax : Obj K)
    (hu0 : UnitSurf umin (p 1) (p 2) (U 1) (U 2) (M 1) (M 2) false nc)
    (hu1 : UnitSurf umax (p 1) (p 2) (U 1) (U 2) (M 1) (M 2) false nc)
    (hv0 : UnitSurf vmin (p 0) (p 2) (U 0) (U 2) (M 0) (M 2) false nc)
    (hv1 : UnitSurf vmax (p 0) (p 2) (U 0) (U 2) (M 0) (M 2) false nc)
    (hw0 : UnitSurf wmin (p 0) (p 1) (U 0) (U 1) (M 0) (M 1) false nc)
    (hw1 : UnitSurf wmax (p 0) (p 1) (U 0) (U 1) (M 0) (M 1) false nc) :
    ∃ vol : Obj K, Obj.edgeSurfaces tol [umin, umax, vmin, vmax, wmin, wmax] = .ok vol
      ∧ UnitVol vol p U M false nc
      ∧ ∀ comp, comp < nc → ∀ (sd : Fin 3 → Side) (u : Fin 3 → K),
          (toTP vol 3 comp).eval sd u
            = sum2 (fun a => bt (sd 0) a (u 0) * (toTP (if a then umax else umin) 2 comp).eval ![sd 1, sd 2] ![u 1, u 2])
              + sum2 (fun b => bt (sd 1) b (u 1) * (toTP (if b then vmax else vmin) 2 comp).eval ![sd 0, sd 2] ![u 0, u 2])
              + sum2 (fun c => bt (sd 2) c (u 2) * (toTP (if c then wmax else wmin) 2 comp).eval ![sd 0, sd 1] ![u 0, u 1])
              + sum2 (fun a => sum2 (fun b => sum2 (fun c => bt (sd 0) a (u 0) * bt (sd 1) b (u 1) * bt (sd 2) c (u 2)
                  * (toTP (if a then umax else umin) 2 comp).eval ![sideOf b, sideOf c] ![endOf b, endOf c])))
              - sum2 (fun a => sum2 (fun b => bt (sd 0) a (u 0) * bt (sd 1) b (u 1)
                  * (toTP (if a then umax else umin) 2 comp).eval ![sideOf b, sd 2] ![endOf b, u 2]))
              - sum2 (fun b => sum2 (fun c => bt (sd 1) b (u 1) * bt (sd 2) c (u 2)
                  * (toTP (if b then vmax else vmin) 2 comp).eval ![sd 0, sideOf c] ![u 0, endOf c]))
              - sum2 (fun a => sum2 (fun c => bt (sd 0) a (u 0) * bt (sd 2) c (u 2)
                  * (toTP (if c then wmax else wmin) 2 comp).eval ![sideOf a, sd 1] ![endOf a, u 1])) := by
  obtain ⟨vol, h1, h2, h3⟩ := edgeSurfaces6_formula tol htol p U M k nc umin umax vmin vmax wmin wmax
    hu0 hu1 hv0 hv1 hw0 hw1
  exact ⟨vol, h1, h2.congr (fun d => by simp [stdP]) (fun d => by simp [stdM]), h3⟩

open C06 C12 Obj Basis in
/-- **Six-face `edge_surfaces` of the model: the six faces of the result are the six inputs — `section`,
    `Obj.evaluate` of the sections, `Obj.evaluate` of the volume on its faces.**
    Family of `C15_edge_surfaces_6_formula_partial` plus `C15.FacesCompatible`: the twelve shared edges agree as
    maps (each edge read from its two faces: `uv`, `vw`, `uw`; for faces on common bases this is equality of the
    edge control rows).  These guards make it `_partial`.  Then `Obj.edgeSurfaces tol [umin, …, wmax] = .ok vol` and
    for each of the six faces `C15.FaceAgrees` holds:
    * `vol.sectionSel (0,None,None) / (-1,None,None) / (None,0,None) / (None,-1,None) / (None,None,0) /
      (None,None,-1)` returns a `Surface` on the face's two bases which is the **same map** as
      `umin / umax / vmin / vmax / wmin / wmax` (`SameMap 2`: all components, sides, parameters) **and**
      `Obj.evaluate` of that surface returns the same array as `Obj.evaluate` of the input on every non-empty
      admissible parameter grid;
    * `vol.evaluate tol [[0], vs, ws]`, `[[1], vs, ws]`, `[us, [0], ws]`, … return the same numbers (`data`) as the
      input face's `evaluate tol [vs, ws]`, ….
    Not covered: faces on different bases, rational faces (the real code refuses them: `C15_edge_surfaces_6_rational`),
    periodic faces. -/
theorem C15_edge_surfaces_6_partial (tol : K) (htol : 0 < tol) (p : Fin 3 → ℕ) (U : Fin 3 → List K)
    (M : Fin 3 → List ℕ) (k : ∀ d, UnitKnots tol (p d) (U d) (M d)) (nc : ℕ)
    (umin umax vmin vmax wmin wmax : Obj K)
    (hu0 : UnitSurf umin (p 1) (p 2) (U 1) (U 2) (M 1) (M 2) false nc)
    (hu1 : UnitSurf umax (p 1) (p 2) (U 1) (U 2) (M 1) (M 2) false nc)
    (hv0 : UnitSurf vmin (p 0) (p 2) (U 0) (U 2) (M 0) (M 2) false nc)
    (hv1 : UnitSurf vmax (p 0) (p 2) (U 0) (U 2) (M 0) (M 2) false nc)
    (hw0 : UnitSurf wmin (p 0) (p 1) (U 0) (U 1) (M 0) (M 1) false nc)
    (hw1 : UnitSurf wmax (p 0) (p 1) (U 0) (U 1) (M 0) (M 1) false nc)
    (hcompat : FacesCompatible nc umin umax vmin vmax wmin wmax) (unwrap : Bool) :
    ∃ vol : Obj K, Obj.edgeSurfaces tol [umin, umax, vmin, vmax, wmin, wmax] = .ok vol
      ∧ UnitVol vol p U M false nc
      ∧ FaceAgrees tol vol umin (unitBasis (p 1) (U 1) (M 1)) (unitBasis (p 2) (U 2) (M 2)) [some 0, none, none]
          (fun vs ws => [[0], vs, ws]) unwrap
      ∧ FaceAgrees tol vol umax (unitBasis (p 1) (U 1) (M 1)) (unitBasis (p 2) (U 2) (M 2)) [some (-1), none, none]
          (fun vs ws => [[1], vs, ws]) unwrap
      ∧ FaceAgrees tol vol vmin (unitBasis (p 0) (U 0) (M 0)) (unitBasis (p 2) (U 2) (M 2)) [none, some 0, none]
          (fun us ws => [us, [0], ws]) unwrap
      ∧ FaceAgrees tol vol vmax (unitBasis (p 0) (U 0) (M 0)) (unitBasis (p 2) (U 2) (M 2)) [none, some (-1), none]
          (fun us ws => [us, [1], ws]) unwrap
      ∧ FaceAgrees tol vol wmin (unitBasis (p 0) (U 0) (M 0)) (unitBasis (p 1) (U 1) (M 1)) [none, none, some 0]
          (fun us vs => [us, vs, [0]]) unwrap
      ∧ FaceAgrees tol vol wmax (unitBasis (p 0) (U 0) (M 0)) (unitBasis (p 1) (U 1) (M 1)) [none, none, some (-1)]
          (fun us vs => [us, vs, [1]]) unwrap := by
  obtain ⟨vol, hcall, Svol, hf⟩ := edgeSurfaces6_faces tol htol p U M k nc umin umax vmin vmax wmin wmax
    hu0 hu1 hv0 hv1 hw0 hw1 hcompat
  have V : UnitVol vol p U M false nc := Svol.congr (fun d => by simp [stdP]) (fun d => by simp [stdM])
  have hpos : false = true → 1 ≤ nc := fun h => by cases h
  have a0 := V.face_u_agrees htol k false umin hu0 hpos
    (fun comp hc s1 s2 x y => by simpa using (hf comp hc false s1 s2 x y).1) unwrap
  have a1 := V.face_u_agrees htol k true umax hu1 hpos
    (fun comp hc s1 s2 x y => by simpa using (hf comp hc true s1 s2 x y).1) unwrap
  have b0 := V.face_v_agrees htol k false vmin hv0 hpos
    (fun comp hc s1 s2 x y => by simpa using (hf comp hc false s1 s2 x y).2.1) unwrap
  have b1 := V.face_v_agrees htol k true vmax hv1 hpos
    (fun comp hc s1 s2 x y => by simpa using (hf comp hc true s1 s2 x y).2.1) unwrap
  have c0 := V.face_w_agrees htol k false wmin hw0 hpos
    (fun comp hc s1 s2 x y => by simpa using (hf comp hc false s1 s2 x y).2.2) unwrap
  have c1 := V.face_w_agrees htol k true wmax hw1 hpos
    (fun comp hc s1 s2 x y => by simpa using (hf comp hc true s1 s2 x y).2.2) unwrap
  simp only [endSel, endOf, Bool.false_eq_true, if_false, if_true] at a0 a1 b0 b1 c0 c1
  exact ⟨vol, hcall, V, a0, a1, b0, b1, c0, c1⟩

/-! ## 8g. Arity and the rational guard of the factories -/

/-- `edge_curves` with a number of curves other than two or four: `ValueError`. -/
theorem C15_edge_curves_arity (tol rtol atol : K) (cs : List (Obj K)) (h2 : cs.length ≠ 2)
    (h4 : cs.length ≠ 4) : Obj.edgeCurves tol cs rtol atol = .error .value := by
  unfold Obj.edgeCurves
  match cs, h2, h4 with
  | [], _, _ => rfl
  | [_], _, _ => rfl
  | [_, _], h2, _ => exact absurd rfl h2
  | [_, _, _], _, _ => rfl
  | [_, _, _, _], _, h4 => exact absurd rfl h4
  | _ :: _ :: _ :: _ :: _ :: _, _, _ => rfl

/-- `edge_surfaces` with a number of faces other than two or six: `ValueError`. -/
theorem C15_edge_surfaces_arity (tol : K) (ss : List (Obj K)) (h2 : ss.length ≠ 2)
    (h6 : ss.length ≠ 6) : Obj.edgeSurfaces tol ss = .error .value := by
  unfold Obj.edgeSurfaces
  match ss, h2, h6 with
  | [], _, _ => rfl
  | [_], _, _ => rfl
  | [_, _], h2, _ => exact absurd rfl h2
  | [_, _, _], _, _ => rfl
  | [_, _, _, _], _, _ => rfl
  | [_, _, _, _, _], _, _ => rfl
  | [_, _, _, _, _, _], _, h6 => exact absurd rfl h6
  | _ :: _ :: _ :: _ :: _ :: _ :: _ :: _, _, _ => rfl

/-- `edge_surfaces` with six faces one of which is rational: `RuntimeError` (before anything else). -/
theorem C15_edge_surfaces_6_rational (tol : K) (a b c d e f : Obj K)
    (h : [a, b, c, d, e, f].any (·.rational) = true) :
    Obj.edgeSurfaces tol [a, b, c, d, e, f] = .error .runtime := by
  unfold Obj.edgeSurfaces
  simp only [h, if_true]
  rfl

/-! ## 9. `Surface.const_par_curve`, completely (non-periodic cut direction) -/

/-- Position of the parameter `x` in the cut direction's basis `b`, and the side from which the
    surface is evaluated: an interior parameter whose multiplicity is at most `p - 1` (any side), the
    start of a basis clamped there (from the right), the end of a basis clamped there (from the
    left). -/
def C15_CpcCase (b : Basis K) (x : K) (s : Side) : Prop :=
  (b.start < x ∧ x < b.stop ∧ b.bisectR x - b.bisectL x ≤ b.order - 1)
  ∨ (s = .right ∧ x = b.start ∧ b.kn 0 = b.kn (b.order - 1) ∧ b.kn (b.order - 1) < b.kn b.order)
  ∨ (s = .left ∧ x = b.stop ∧ b.kn b.numFunctions = b.kn (b.numFunctions + (b.order - 1))
      ∧ b.kn (b.numFunctions - 1) < b.kn b.numFunctions)

/-- **`const_par_curve` of the model, no assumption left about the loop, the multiplicity or the row.**
    `_partial`: the property quantifies over *all* parameter lines; this theorem covers a non-periodic
    cut direction at (i) an interior parameter whose multiplicity is below the order (at a knot of
    full multiplicity the surface is discontinuous across the line and the two one-sided curves
    differ), (ii) the start / end of a direction *clamped* there, and in every case a parameter that
    the knot tolerance separates from the other knots (`Separated`: so that `continuity` sees the exact
    multiplicity).  Not covered: periodic cut directions (there the pinned code is defective at the
    seam, see known findings), the ends of a non-clamped open direction, and parameters closer than
    `tol` to a knot without being equal to it.
    Setup (`CpcSetup`): `check_direction` resolves to `dir`, the basis of that direction is valid and
    non-periodic and matches the control net, `0 < tol` and the tolerance separates `x` from the other
    knots (`Separated`: each knot is `x`, `< x - tol` or `≥ x + tol`, so that `continuity(x)` sees the
    exact multiplicity).  Case (`C15_CpcCase`).  Then the call succeeds, the result is a curve on the
    other basis with the same `rational` flag, its control net is the surface net with axis `dir`
    removed, and every entry is the value at `x` (side `s`) of the fibre spline of the *original*
    surface along `dir` through that entry:
    the insertion loop is the chain of Boehm insertions of `C04_object`, it brings the multiplicity
    to `p - 1`, and `max(bisect_left - 1, 0)` is the interpolated row. -/
theorem C15_const_par_curve_partial (o : Obj K) (direction : Int ⊕ String) (dir : ℕ) (tol x : K) (s : Side)
    (h : CpcSetup o direction dir tol x) (hcase : C15_CpcCase (o.basis dir) x s) :
    ∃ crv, o.constParCurve tol x direction = .ok crv ∧ crv.bases = #[o.basis (1 - dir)] ∧
      crv.rational = o.rational ∧ crv.cps.shape = o.cps.shape.eraseIdx dir ∧
      ∀ a i, a < outerN o dir → i < innerN o dir →
        crv.cps.get (a * innerN o dir + i)
          = splineVal s (o.basis dir).kn ((o.basis dir).order - 1) (o.basis dir).numFunctions
              (fibre o dir a i) x := by
  rcases hcase with ⟨h1, h2, h3⟩ | ⟨rfl, h1, h2, h3⟩ | ⟨rfl, h1, h2, h3⟩
  · exact cpc_interior o direction dir tol x h ⟨h1, h2⟩ h3 s
  · exact cpc_start o direction dir tol x h h1 h2 h3
  · exact cpc_stop o direction dir tol x h h1 h2 h3

/-- Cut direction `u`: the returned curve evaluates — for any basis data, side and parameter in
    the `v` direction — to the surface sum `Σ_i Σ_k P[i,k,c] B_i(x) B_k(v)` at `(x, v)`, per homogeneous
    component `c` (hence to the surface point, also for rational surfaces). -/
theorem C15_const_par_curve_eval_u_partial (o : Obj K) (direction : Int ⊕ String) (tol x : K) (s : Side)
    (n0 n1 nc : ℕ) (hs : o.cps.shape = [n0, n1, nc]) (hn0 : n0 = (o.basis 0).numFunctions)
    (h : CpcSetup o direction 0 tol x) (hcase : C15_CpcCase (o.basis 0) x s) :
    ∃ crv, o.constParCurve tol x direction = .ok crv ∧ crv.bases = #[o.basis 1] ∧
      crv.rational = o.rational ∧ crv.cps.shape = [n1, nc] ∧
      ∀ c, c < nc → ∀ (s1 : Side) (τ1 : ℕ → K) (q1 : ℕ) (v : K),
        splineVal s1 τ1 q1 n1 (fun k => crv.cps.get (k * nc + c)) v
          = splineVal s (o.basis 0).kn ((o.basis 0).order - 1) n0
              (fun i => splineVal s1 τ1 q1 n1 (fun k => o.cps.get ((i * n1 + k) * nc + c)) v) x := by
  obtain ⟨crv, c1, c2, c3, c4, _, c6⟩ :=
    cpc_eval_dir0 o direction tol x s n0 n1 nc hs hn0 (C15_const_par_curve_partial o direction 0 tol x s h hcase)
  exact ⟨crv, c1, c2, c3, c4, c6⟩

/-- Cut direction `v`: the returned curve evaluates to the surface sum at `(u, x)`. -/
theorem C15_const_par_curve_eval_v_partial (o : Obj K) (direction : Int ⊕ String) (tol x : K) (s : Side)
    (n0 n1 nc : ℕ) (hs : o.cps.shape = [n0, n1, nc]) (hn1 : n1 = (o.basis 1).numFunctions)
    (h : CpcSetup o direction 1 tol x) (hcase : C15_CpcCase (o.basis 1) x s) :
    ∃ crv, o.constParCurve tol x direction = .ok crv ∧ crv.bases = #[o.basis 0] ∧
      crv.rational = o.rational ∧ crv.cps.shape = [n0, nc] ∧
      ∀ c, c < nc → ∀ (s0 : Side) (τ0 : ℕ → K) (q0 : ℕ) (u : K),
        splineVal s0 τ0 q0 n0 (fun i => crv.cps.get (i * nc + c)) u
          = splineVal s0 τ0 q0 n0
              (fun i => splineVal s (o.basis 1).kn ((o.basis 1).order - 1) n1
                (fun k => o.cps.get ((i * n1 + k) * nc + c)) x) u := by
  obtain ⟨crv, c1, c2, c3, c4, _, c6⟩ :=
    cpc_eval_dir1 o direction tol x s n0 n1 nc hs hn1 (C15_const_par_curve_partial o direction 1 tol x s h hcase)
  exact ⟨crv, c1, c2, c3, c4, c6⟩

/-! ### Non-vacuity: a concrete surface, cut at the interior knot `u = 1` -/

/-- Quadratic basis with a double interior knot (same as `C04_exOpen`). -/
def C15_exB : Basis ℚ := ⟨3, #[0, 0, 0, 1, 2, 2, 3, 3, 3], -1⟩

/-- A `6 × 2` surface in the plane over `C15_exB × BSplineBasis(2)`. -/
def C15_exSurf : Obj ℚ :=
  { bases := #[C15_exB, ⟨2, #[0, 0, 1, 1], -1⟩],
    cps := { shape := [6, 2, 2],
             data := #[0, 0, 0, 1, 1, 0, 1, 2, 2, 1, 2, 3, 3, 0, 3, 2, 4, 1, 4, 2, 5, 0, 5, 1] },
    rational := false }

theorem C15_exB_valid : C15_exB.Valid where
  order_pos := by decide
  size_ge := by decide
  sorted := by
    intro i hi
    have hi' : i + 1 < 9 := hi
    have hi'' : i < 8 := by omega
    interval_cases i <;> norm_num [Basis.kn, C15_exB]
  periodic_ge := by decide
  periodic_le := by decide
  start_lt_stop := by norm_num [Basis.start, Basis.stop, Basis.kn, C15_exB]
  ghosts := fun h => absurd h (by decide)

theorem C15_exSurf_setup : CpcSetup C15_exSurf (.inl 0) 0 (1/1000) 1 where
  hdirn := by decide
  hdir := by decide
  hax := by decide
  hv := C15_exB_valid
  hper := rfl
  hshape := by decide
  htol := by norm_num
  hsep := by
    intro i hi
    have hi' : i < 9 := hi
    show C15_exB.kn i = 1 ∨ C15_exB.kn i < 1 - 1/1000 ∨ 1 + 1/1000 ≤ C15_exB.kn i
    interval_cases i <;> norm_num [Basis.kn, C15_exB]

theorem C15_exSurf_case (s : Side) : C15_CpcCase (C15_exSurf.basis 0) 1 s := by
  left
  show C15_exB.start < 1 ∧ 1 < C15_exB.stop ∧ C15_exB.bisectR 1 - C15_exB.bisectL 1 ≤ C15_exB.order - 1
  have hm := C04.kn_mono C15_exB_valid.sorted
  have hL : C15_exB.bisectL 1 = 3 := by
    apply bisectLeft_unique C15_exB.kn hm 1 9 3 (by omega)
    · intro i hi
      interval_cases i <;> norm_num [Basis.kn, C15_exB]
    · intro i h1 h2
      interval_cases i <;> norm_num [Basis.kn, C15_exB]
  have hR : C15_exB.bisectR 1 = 4 := by
    apply bisectRight_unique C15_exB.kn hm 1 9 4 (by omega)
    · intro i hi
      interval_cases i <;> norm_num [Basis.kn, C15_exB]
    · intro i h1 h2
      interval_cases i <;> norm_num [Basis.kn, C15_exB]
  refine ⟨by norm_num [Basis.start, Basis.kn, C15_exB], by norm_num [Basis.stop, Basis.kn, C15_exB], ?_⟩
  rw [hL, hR]
  decide

/-- The same surface at the clamped start `u = 0` and at the clamped end `u = 3`. -/
theorem C15_exSurf_setup_at (x : ℚ) (hx : x = 0 ∨ x = 3) : CpcSetup C15_exSurf (.inl 0) 0 (1/1000) x where
  hdirn := by decide
  hdir := by decide
  hax := by decide
  hv := C15_exB_valid
  hper := rfl
  hshape := by decide
  htol := by norm_num
  hsep := by
    intro i hi
    have hi' : i < 9 := hi
    show C15_exB.kn i = x ∨ C15_exB.kn i < x - 1/1000 ∨ x + 1/1000 ≤ C15_exB.kn i
    rcases hx with rfl | rfl <;> interval_cases i <;> norm_num [Basis.kn, C15_exB]

/-- `C15_const_par_curve_partial` applies at the clamped start (value from the right). -/
example : ∃ crv, C15_exSurf.constParCurve (1/1000) 0 (.inl 0) = .ok crv ∧ crv.cps.shape = [2, 2] := by
  obtain ⟨crv, h1, _, _, h4, _⟩ :=
    C15_const_par_curve_partial C15_exSurf (.inl 0) 0 (1/1000) 0 .right (C15_exSurf_setup_at 0 (Or.inl rfl))
      (Or.inr (Or.inl ⟨rfl, by norm_num [Basis.start, Basis.kn, C15_exB, C15_exSurf, Obj.basis],
        by norm_num [Basis.kn, C15_exB, C15_exSurf, Obj.basis],
        by norm_num [Basis.kn, C15_exB, C15_exSurf, Obj.basis]⟩))
  exact ⟨crv, h1, h4⟩

/-- … and at the clamped end (value from the left). -/
example : ∃ crv, C15_exSurf.constParCurve (1/1000) 3 (.inl 0) = .ok crv ∧ crv.cps.shape = [2, 2] := by
  obtain ⟨crv, h1, _, _, h4, _⟩ :=
    C15_const_par_curve_partial C15_exSurf (.inl 0) 0 (1/1000) 3 .left (C15_exSurf_setup_at 3 (Or.inr rfl))
      (Or.inr (Or.inr ⟨rfl, by norm_num [Basis.stop, Basis.kn, C15_exB, C15_exSurf, Obj.basis],
        by norm_num [Basis.kn, Basis.numFunctions, C15_exB, C15_exSurf, Obj.basis],
        by norm_num [Basis.kn, Basis.numFunctions, C15_exB, C15_exSurf, Obj.basis]⟩))
  exact ⟨crv, h1, h4⟩

/-- `C15_const_par_curve_partial` applies: `const_par_curve(1, 0)` of the example succeeds with a `2 × 2` net. -/
example : ∃ crv, C15_exSurf.constParCurve (1/1000) 1 (.inl 0) = .ok crv ∧ crv.cps.shape = [2, 2] := by
  obtain ⟨crv, h1, _, _, h4, _⟩ :=
    C15_const_par_curve_partial C15_exSurf (.inl 0) 0 (1/1000) 1 .right C15_exSurf_setup (C15_exSurf_case _)
  exact ⟨crv, h1, h4⟩

end Model

/-! ## 10. Six faces at control-net level -/

/-- Control-net level, about the net formula `triNet` (not about `Obj.edgeSurfaces`, which reaches its
    net through `make_splines_identical`; see `C15_edge_surfaces_6_partial`): nets of sizes
    `nv × nw`, `nu × nw`, `nu × nv` (all `≥ 1`), blending abscissae `0`/`1` at the ends, compatible face
    nets (`NetsCompatible`: the twelve shared boundary rows agree on their index ranges).  Then the six
    boundary layers of `triNet` are the six input nets, entry by entry within the index ranges. -/
theorem C15_edge_surfaces_6_net (ξ η ζ : ℕ → K) (nu nv nw : ℕ) {f0 f1 g0 g1 h0 h1 : ℕ → ℕ → K}
    (hc : NetsCompatible nu nv nw f0 f1 g0 g1 h0 h1) (hu : 1 ≤ nu) (hv : 1 ≤ nv) (hw : 1 ≤ nw)
    (hξ0 : ξ 0 = 0) (hξ1 : ξ (nu-1) = 1) (hη0 : η 0 = 0) (hη1 : η (nv-1) = 1)
    (hζ0 : ζ 0 = 0) (hζ1 : ζ (nw-1) = 1) (i j k : ℕ) (hi : i < nu) (hj : j < nv) (hk : k < nw) :
    triNet ξ η ζ nu nv nw f0 f1 g0 g1 h0 h1 0 j k = f0 j k
    ∧ triNet ξ η ζ nu nv nw f0 f1 g0 g1 h0 h1 (nu-1) j k = f1 j k
    ∧ triNet ξ η ζ nu nv nw f0 f1 g0 g1 h0 h1 i 0 k = g0 i k
    ∧ triNet ξ η ζ nu nv nw f0 f1 g0 g1 h0 h1 i (nv-1) k = g1 i k
    ∧ triNet ξ η ζ nu nv nw f0 f1 g0 g1 h0 h1 i j 0 = h0 i j
    ∧ triNet ξ η ζ nu nv nw f0 f1 g0 g1 h0 h1 i j (nw-1) = h1 i j :=
  ⟨c15_triNet_i0 ξ η ζ nu nv nw hc hu hv hw hξ0 j k hj hk,
   c15_triNet_ilast ξ η ζ nu nv nw hc hu hv hw hξ1 j k hj hk,
   c15_triNet_j0 ξ η ζ nu nv nw hc hu hv hw hη0 i k hi hk,
   c15_triNet_jlast ξ η ζ nu nv nw hc hu hv hw hη1 i k hi hk,
   c15_triNet_k0 ξ η ζ nu nv nw hc hu hv hw hζ0 i j hi hj,
   c15_triNet_klast ξ η ζ nu nv nw hc hu hv hw hζ1 i j hi hj⟩

/-- The boundary layers of a real control array are compatible in the bounded sense: for a volume
    net `N` of shape `[nu, nv, nw, nc]` the six nets read off with `getIdx` satisfy `NetsCompatible`. -/
theorem C15_netsCompatible_of_tensor (N : Tensor K) (nu nv nw c : ℕ) :
    NetsCompatible nu nv nw (fun j k => N.getIdx [0, j, k, c]) (fun j k => N.getIdx [nu-1, j, k, c])
      (fun i k => N.getIdx [i, 0, k, c]) (fun i k => N.getIdx [i, nv-1, k, c])
      (fun i j => N.getIdx [i, j, 0, c]) (fun i j => N.getIdx [i, j, nw-1, c]) := by
  constructor <;> intro _ _ <;> rfl

/-- The net formula *is* the trilinear transfinite blend: the tensor-product spline whose control net
    is `triNet` with the Greville abscissae of the three bases evaluates, at every `(u,v,w)` of the
    domain, to `triMap` of the face splines — written out: faces `(1-u)F₀+uF₁+(1-v)G₀+vG₁+(1-w)H₀+wH₁`,
    plus the trilinear interpolant of the eight corner points, minus the three bilinear blends of the
    twelve edge splines (`w`-edges from `f`, `u`-edges from `g`, `v`-edges from `h`, as the code takes
    them).  This justifies the model's Greville formula for `edge_surfaces` (the code reaches the same
    net through `make_splines_identical` of the seven auxiliary volumes). -/
theorem C15_edge_surfaces_6_net_eval (s1 s2 s3 : Side) (τ1 τ2 τ3 : ℕ → K) (m1 : Monotone τ1)
    (m2 : Monotone τ2) (m3 : Monotone τ3) (q1 q2 q3 μ1 μ2 μ3 nu nv nw : ℕ)
    (hq1 : 1 ≤ q1) (hq2 : 1 ≤ q2) (hq3 : 1 ≤ q3) (hμ1 : q1 ≤ μ1) (hμ2 : q2 ≤ μ2) (hμ3 : q3 ≤ μ3)
    (hn1 : μ1 < nu) (hn2 : μ2 < nv) (hn3 : μ3 < nw) (u v w : K)
    (hu : s1.mem (τ1 μ1) (τ1 (μ1+1)) u) (hv : s2.mem (τ2 μ2) (τ2 (μ2+1)) v)
    (hw : s3.mem (τ3 μ3) (τ3 (μ3+1)) w) (f0 f1 g0 g1 h0 h1 : ℕ → ℕ → K) :
    splineVal s1 τ1 q1 nu (fun i => splineVal s2 τ2 q2 nv (fun j => splineVal s3 τ3 q3 nw
        (fun k => triNet (grevilleAbscissa τ1 q1) (grevilleAbscissa τ2 q2) (grevilleAbscissa τ3 q3)
          nu nv nw f0 f1 g0 g1 h0 h1 i j k) w) v) u
      = ((1 - u) * splineVal s2 τ2 q2 nv (fun j => splineVal s3 τ3 q3 nw (fun k => f0 j k) w) v
          + u * splineVal s2 τ2 q2 nv (fun j => splineVal s3 τ3 q3 nw (fun k => f1 j k) w) v)
        + ((1 - v) * splineVal s1 τ1 q1 nu (fun i => splineVal s3 τ3 q3 nw (fun k => g0 i k) w) u
          + v * splineVal s1 τ1 q1 nu (fun i => splineVal s3 τ3 q3 nw (fun k => g1 i k) w) u)
        + ((1 - w) * splineVal s1 τ1 q1 nu (fun i => splineVal s2 τ2 q2 nv (fun j => h0 i j) v) u
          + w * splineVal s1 τ1 q1 nu (fun i => splineVal s2 τ2 q2 nv (fun j => h1 i j) v) u)
        + ((1 - u) * (1 - v) * (1 - w) * f0 0 0 + (1 - u) * (1 - v) * w * f0 0 (nw-1)
            + (1 - u) * v * (1 - w) * f0 (nv-1) 0 + (1 - u) * v * w * f0 (nv-1) (nw-1)
            + u * (1 - v) * (1 - w) * f1 0 0 + u * (1 - v) * w * f1 0 (nw-1)
            + u * v * (1 - w) * f1 (nv-1) 0 + u * v * w * f1 (nv-1) (nw-1))
        - ((1 - u) * (1 - v) * splineVal s3 τ3 q3 nw (fun k => f0 0 k) w
            + (1 - u) * v * splineVal s3 τ3 q3 nw (fun k => f0 (nv-1) k) w
            + u * (1 - v) * splineVal s3 τ3 q3 nw (fun k => f1 0 k) w
            + u * v * splineVal s3 τ3 q3 nw (fun k => f1 (nv-1) k) w)
        - ((1 - v) * (1 - w) * splineVal s1 τ1 q1 nu (fun i => g0 i 0) u
            + (1 - v) * w * splineVal s1 τ1 q1 nu (fun i => g0 i (nw-1)) u
            + v * (1 - w) * splineVal s1 τ1 q1 nu (fun i => g1 i 0) u
            + v * w * splineVal s1 τ1 q1 nu (fun i => g1 i (nw-1)) u)
        - ((1 - u) * (1 - w) * splineVal s2 τ2 q2 nv (fun j => h0 0 j) v
            + (1 - u) * w * splineVal s2 τ2 q2 nv (fun j => h1 0 j) v
            + u * (1 - w) * splineVal s2 τ2 q2 nv (fun j => h0 (nu-1) j) v
            + u * w * splineVal s2 τ2 q2 nv (fun j => h1 (nu-1) j) v) :=
  c15_triNet_eval s1 s2 s3 τ1 τ2 τ3 q1 q2 q3 nu nv nw _ _ _ u v w
    (B_sum_range_eq_one s1 τ1 m1 q1 μ1 nu hμ1 hn1 u hu)
    (linear_precision_range s1 τ1 m1 q1 μ1 nu hq1 hμ1 hn1 u hu)
    (B_sum_range_eq_one s2 τ2 m2 q2 μ2 nv hμ2 hn2 v hv)
    (linear_precision_range s2 τ2 m2 q2 μ2 nv hq2 hμ2 hn2 v hv)
    (B_sum_range_eq_one s3 τ3 m3 q3 μ3 nw hμ3 hn3 w hw)
    (linear_precision_range s3 τ3 m3 q3 μ3 nw hq3 hμ3 hn3 w hw)
    f0 f1 g0 g1 h0 h1

/-- Non-vacuity: the boundary layers of any trivariate net are compatible. -/
example (nu nv nw : ℕ) (N : ℕ → ℕ → ℕ → ℚ) :
    NetsCompatible nu nv nw (fun j k => N 0 j k) (fun j k => N (nu-1) j k) (fun i k => N i 0 k)
      (fun i k => N i (nv-1) k) (fun i j => N i j 0) (fun i j => N i j (nw-1)) := by
  constructor <;> intro _ _ <;> rfl

/-! ## 11. Source-derived obligations: the translated utilities equal the hand model -/

section Translated

open Splipy.Generated

/-- Selector values used by the bounded checks: `None`, `0`, `-1` and an index outside the table. -/
def C15_selv : Fin 4 → Sel := fun x =>
  if x = 0 then none else if x = 1 then some 0 else if x = 2 then some (-1) else some 2

/-- `sections` as translated from the Python AST equals the hand model (incl. the `ValueError` for
    `tgt_dim > src_dim`), all `src_dim, tgt_dim ≤ 3`. -/
theorem C15_translated_sections :
    ∀ s t : Fin 4, C15.sections s.val t.val = sectionsPy s t := by decide

/-- `section_from_index` (translated) equals the hand model. -/
theorem C15_translated_section_from_index :
    ∀ s t : Fin 4, ∀ i : Fin 14, t ≤ s →
      C15.section_from_index s.val t.val i.val = .ok (sectionFromIndex s t i) := by decide

/-- `section_to_index` (translated) equals the hand model on all selector lists of length ≤ 3 over
    `{None, 0, -1, 2}`. -/
theorem C15_translated_section_to_index :
    ∀ a b c : Fin 4,
      C15.section_to_index [] = .ok ((sectionToIndex []).map (fun (n : ℕ) => (n : Int)))
      ∧ C15.section_to_index [C15_selv a]
          = .ok ((sectionToIndex [C15_selv a]).map (fun (n : ℕ) => (n : Int)))
      ∧ C15.section_to_index [C15_selv a, C15_selv b]
          = .ok ((sectionToIndex [C15_selv a, C15_selv b]).map (fun (n : ℕ) => (n : Int)))
      ∧ C15.section_to_index [C15_selv a, C15_selv b, C15_selv c]
          = .ok ((sectionToIndex [C15_selv a, C15_selv b, C15_selv c]).map (fun (n : ℕ) => (n : Int))) := by
  decide

/-- Keyword selectors `u=, v=, w=`: absent (`0`) or one of the values `C15_selv 0..2`. -/
def C15_kwS (u v w : Fin 4) : List (String × Sel) :=
  (if u = 0 then [] else [("u", C15_selv (u-1))]) ++ (if v = 0 then [] else [("v", C15_selv (v-1))])
    ++ (if w = 0 then [] else [("w", C15_selv (w-1))])

def C15_kwN (u v w : Fin 4) : List (ℕ × Sel) :=
  (if u = 0 then [] else [(0, C15_selv (u-1))]) ++ (if v = 0 then [] else [(1, C15_selv (v-1))])
    ++ (if w = 0 then [] else [(2, C15_selv (w-1))])

/-- `check_section` (translated; keyword dictionary as an association list) equals the hand model
    (`checkSection`, keywords as direction indices) — pardim ≤ 3, every combination of keyword
    selectors, positional lists of length ≤ 2 over `{None, 0, -1, 2}` (incl. the `IndexError` for a
    keyword beyond the selector list). -/
theorem C15_translated_check_section :
    ∀ p : Fin 4, ∀ u v w : Fin 4, ∀ a b : Fin 4,
      C15.check_section [] (C15_kwS u v w) p.val = checkSection p [] (C15_kwN u v w)
      ∧ C15.check_section [C15_selv a, C15_selv b] (C15_kwS u v w) p.val
          = checkSection p [C15_selv a, C15_selv b] (C15_kwN u v w) := by
  decide

/-- Positional lists of length 1 and 3. -/
theorem C15_translated_check_section_13 :
    ∀ p : Fin 4, ∀ u v w : Fin 3, ∀ a b c : Fin 3,
      C15.check_section [C15_selv a.castSucc] (C15_kwS u.castSucc v.castSucc w.castSucc) p.val
          = checkSection p [C15_selv a.castSucc] (C15_kwN u.castSucc v.castSucc w.castSucc)
      ∧ C15.check_section [C15_selv a.castSucc, C15_selv b.castSucc, C15_selv c.castSucc] (C15_kwS u.castSucc v.castSucc w.castSucc) p.val
          = checkSection p [C15_selv a.castSucc, C15_selv b.castSucc, C15_selv c.castSucc] (C15_kwN u.castSucc v.castSucc w.castSucc) := by
  decide

/-- Direction tokens used by the bounded check of `check_direction`. -/
def C15_toks : List (Int ⊕ String) :=
  [.inl 0, .inl 1, .inl 2, .inl 3, .inl (-1), .inr "u", .inr "U", .inr "v", .inr "V", .inr "w",
   .inr "W", .inr "x", .inr "", .inr "uv", .inr "0"]

/-- `check_direction` (translated) equals the hand model on the documented spellings and on invalid
    tokens, pardim ≤ 4. -/
theorem C15_translated_check_direction :
    ∀ t ∈ C15_toks, ∀ p : Fin 5,
      C15.check_direction t p.val = (Sections.checkDirection t p).map (fun (n : ℕ) => (n : Int)) := by
  decide

end Translated
