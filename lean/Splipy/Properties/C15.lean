import Splipy.Model.Sections
import Splipy.Lemmas.C15
import Splipy.Lemmas.C15Coons
import Splipy.Lemmas.C15Loop
import Splipy.Lemmas.C15Section
import Splipy.Lemmas.C15CpcEval
import Splipy.Lemmas.C15Tri
import Splipy.Generated.C15
import Mathlib.Tactic.NormNum
import Mathlib.Tactic.IntervalCases
import Mathlib.Data.Rat.Floor

/-!
# Property C15: boundary extraction and boundary-filling constructions agree with evaluation

Spec level: `B`, `splineVal` (`Spec/BSpline.lean`); `tval` is the tensor-product sum over a list of
directions (one homogeneous component of an object; for a rational object the evaluated point is the
quotient of two such values, so every identity below passes to it); `secNet` is the control net of a
section (index `0` / `n-1` in the fixed directions).  Model level: `Sections.sections`,
`Sections.loopOrder`, … are the executable models of the Python functions of the same name
(`Model/Sections.lean`), tied to the code by the correspondence run of `harness/props/C15.py`.

Summary
* `C15_section_clamped`            every one of the `3^pardim` selectors `{None,0,-1}^pardim`, any pardim;
* `C15_sections_enumeration` …     the table `sections(src,tgt)` (documented orders, counts, inverses);
* `C15_coons`, `C15_coons_net`, `C15_coons_net_eval`  Coons patch (function, net, net = function);
* `C15_loop_reorder` …             the re-ordering search of four-curve `edge_curves`;
* `C15_ruled`, `C15_extrude`       two-curve / two-face filling and extrusion;
* `C15_edge_surfaces_6`            trilinear transfinite interpolation of six faces;
* `C15_section_model`, `C15_ruled_model`, `C15_extrude_model`  the same about the executable model
                                   (numpy slicing `takeAxis` ↔ `secNet`, `stack2` ↔ ruled net);
* `C15_const_par_curve` (+ `_eval_u/_eval_v`)  constant-parameter curves of the model, complete for
                                   non-periodic cut directions;
* `C15_edge_surfaces_6_net`, `C15_edge_surfaces_6_net_eval`, `C15_model_tri_entry`  six faces at
                                   control-net level;
* `C15_translated_*`               the utilities re-translated from the Python AST equal the hand model.
-/

open Splipy Splipy.Sections

variable {K : Type} [Field K] [LinearOrder K] [IsStrictOrderedRing K]

/-! ## 1. Sections of clamped directions -/

/-- Curve / fibre level, start: a spline on a basis clamped at the start
    (`τ 0 = … = τ q < τ (q+1)`, `q+1` = order) takes the value of its first coefficient at the
    start of the domain (limit from inside). -/
theorem C15_section_clamped_start (τ : ℕ → K) (hτ : Monotone τ) (q n : ℕ) (hn : 1 ≤ n)
    (c : ℕ → K) (h : τ 0 = τ q) (hlt : τ q < τ (q+1)) :
    splineVal .right τ q n c (τ q) = c 0 :=
  c15_clamped_start τ hτ q n hn c h hlt

/-- Curve / fibre level, end: clamped at the end (`τ (n-1) < τ n = … = τ (n+q)`), the value at the
    end of the domain (limit from inside) is the last coefficient. -/
theorem C15_section_clamped_end (τ : ℕ → K) (hτ : Monotone τ) (q n : ℕ) (hn : q + 1 ≤ n)
    (c : ℕ → K) (h : τ n = τ (n+q)) (hlt : τ (n-1) < τ n) :
    splineVal .left τ q n c (τ n) = c (n-1) :=
  c15_clamped_end τ hτ q n hn c h hlt

/-- Object level, any parametric dimension and every selector in `{None, 0, -1}^pardim`: if each
    fixed direction is clamped at the selected end, the object evaluated on that boundary (fixed
    directions at `start()` resp. `end()`, free directions at arbitrary parameters and sides `ps`)
    equals the section — the tensor-product spline over the free directions whose net is the
    sliced control net `secNet` (index `0` / `n-1`).  Corners, edges and faces are the cases with
    0, 1, 2 free directions; keyword and positional forms produce the same selector list
    (`check_section`, compared with the code by the correspondence run). -/
theorem C15_section_clamped (ds : List (Dir K × BSel)) (hc : SelClamped ds) (ps : List (Side × K))
    (c : List ℕ → K) :
    tval (fullArgs ds ps) c = tval (secArgs ds ps) (secNet ds c) :=
  c15_tval_section ds hc ps c

/-- Rational objects: numerator component `c` and weight component `w` both restrict, hence so does
    the projected point. -/
theorem C15_section_clamped_rational (ds : List (Dir K × BSel)) (hc : SelClamped ds)
    (ps : List (Side × K)) (c w : List ℕ → K) :
    tval (fullArgs ds ps) c / tval (fullArgs ds ps) w
      = tval (secArgs ds ps) (secNet ds c) / tval (secArgs ds ps) (secNet ds w) := by
  rw [c15_tval_section ds hc ps c, c15_tval_section ds hc ps w]

/-- Non-vacuity: the `umax` edge of a surface whose two directions are the linear basis. -/
example : SelClamped [((linDir : Dir ℚ), BSel.hi), (linDir, BSel.free)] :=
  ⟨linDir_clampedHi, trivial⟩

/-- … and what the theorem says for it: the value at `(1, v)` is the spline over `v` with the
    second row of the net. -/
example (c : List ℕ → ℚ) (s : Side) (v : ℚ) :
    tval [(linDir, .left, 1), (linDir, s, v)] c = tval [(linDir, s, v)] (fun idx => c (1 :: idx)) := by
  have h := C15_section_clamped [((linDir : Dir ℚ), BSel.hi), (linDir, BSel.free)]
    ⟨linDir_clampedHi, trivial⟩ [(s, v)] c
  have e : secNet [((linDir : Dir ℚ), BSel.hi), (linDir, BSel.free)] c = fun idx => c (1 :: idx) := by
    funext idx; cases idx <;> rfl
  rw [e] at h
  simpa [fullArgs, secArgs, linDir_hi] using h

/-! ## 2. The table of sections -/

/-- `sections(src_dim, tgt_dim)` is exactly the documented order: `Surface.edges` = umin, umax, vmin,
    vmax; `Volume.faces` = umin, umax, vmin, vmax, wmin, wmax; `Volume.edges` = the twelve edges in
    the order of its docstring; corners with the *first* direction varying fastest (`corners('C')`). -/
theorem C15_sections_enumeration :
    sections 1 0 = [[some 0], [some (-1)]]
    ∧ sections 2 1 = [[some 0, none], [some (-1), none], [none, some 0], [none, some (-1)]]
    ∧ sections 2 0 = [[some 0, some 0], [some (-1), some 0], [some 0, some (-1)], [some (-1), some (-1)]]
    ∧ sections 3 2 = [[some 0, none, none], [some (-1), none, none], [none, some 0, none],
                      [none, some (-1), none], [none, none, some 0], [none, none, some (-1)]]
    ∧ sections 3 1 = [[some 0, some 0, none], [some (-1), some 0, none], [some 0, some (-1), none],
                      [some (-1), some (-1), none],
                      [some 0, none, some 0], [some (-1), none, some 0], [some 0, none, some (-1)],
                      [some (-1), none, some (-1)],
                      [none, some 0, some 0], [none, some (-1), some 0], [none, some 0, some (-1)],
                      [none, some (-1), some (-1)]]
    ∧ sections 3 0 = [[some 0, some 0, some 0], [some (-1), some 0, some 0], [some 0, some (-1), some 0],
                      [some (-1), some (-1), some 0], [some 0, some 0, some (-1)],
                      [some (-1), some 0, some (-1)], [some 0, some (-1), some (-1)],
                      [some (-1), some (-1), some (-1)]]
    ∧ (∀ d : Fin 4, sections d d = [List.replicate d none]) := by
  decide

/-- Count `C(src,tgt)·2^(src-tgt)`, no duplicates, every entry has `src` selectors of which `tgt`
    are free — for every `tgt ≤ src ≤ 3`. -/
theorem C15_sections_count : ∀ src : Fin 4, ∀ tgt : Fin 4, tgt ≤ src →
    (sections src tgt).length = Nat.choose src tgt * 2 ^ (src.val - tgt.val)
    ∧ (sections src tgt).Nodup
    ∧ ∀ s ∈ sections src tgt, s.length = src.val ∧ (s.filter Option.isNone).length = tgt.val := by
  decide

/-- `section_from_index ∘ section_to_index = id` and conversely, on the whole table. -/
theorem C15_section_index_roundtrip : ∀ src : Fin 4, ∀ tgt : Fin 4, tgt ≤ src →
    (∀ s ∈ sections src tgt, (sectionToIndex s).bind (sectionFromIndex src tgt) = some s)
    ∧ ∀ i : Fin 13, i.val < (sections src tgt).length →
        (sectionFromIndex src tgt i).bind sectionToIndex = some i.val := by
  decide

/-- The `3^pardim` selectors: each of them is in exactly one table `sections(pardim, k)` and
    `section_to_index` finds it (pardim ≤ 3). -/
theorem C15_all_selectors_indexed :
    ∀ a b c : Fin 3,
      let sel : Fin 3 → Sel := fun x => if x = 0 then none else if x = 1 then some 0 else some (-1)
      (sectionToIndex [sel a]).isSome ∧ (sectionToIndex [sel a, sel b]).isSome
      ∧ (sectionToIndex [sel a, sel b, sel c]).isSome := by
  decide

/-! ## 3. Coons patch -/

section Coons

variable {R V : Type} [CommRing R] [AddCommGroup V] [Module R V]

/-- Function level (values in any module, e.g. homogeneous coordinates): with matching corners the
    bilinearly blended map `coonsMap = (1-v) b + v t + (1-u) l + u r - bilinear(corners)` restricts to
    the four inputs on the four sides of the unit square. -/
theorem C15_coons (b t l r : R → V) (h00 : l 0 = b 0) (h10 : r 0 = b 1) (h01 : l 1 = t 0)
    (h11 : r 1 = t 1) (u v : R) :
    coonsMap b t l r u 0 = b u ∧ coonsMap b t l r u 1 = t u
    ∧ coonsMap b t l r 0 v = l v ∧ coonsMap b t l r 1 v = r v :=
  ⟨c15_coonsMap_v0 b t l r h00 h10 u, c15_coonsMap_v1 b t l r h01 h11 u,
   c15_coonsMap_u0 b t l r v, c15_coonsMap_u1 b t l r v⟩

/-- Control-net level (identical bases): if the blending abscissae are `0` and `1` at the ends
    (Greville abscissae of open bases on `[0,1]`, `C15_greville_clamped`) and the corner control
    points match, the boundary rows and columns of the Coons net are the four input nets. -/
theorem C15_coons_net (ξ η : ℕ → R) (n m : ℕ) (b t l r : ℕ → V)
    (hξ0 : ξ 0 = 0) (hξ1 : ξ (n-1) = 1) (hη0 : η 0 = 0) (hη1 : η (m-1) = 1)
    (h00 : l 0 = b 0) (h10 : r 0 = b (n-1)) (h01 : l (m-1) = t 0) (h11 : r (m-1) = t (n-1))
    (i j : ℕ) :
    coonsNet ξ η n b t l r i 0 = b i ∧ coonsNet ξ η n b t l r i (m-1) = t i
    ∧ coonsNet ξ η n b t l r 0 j = l j ∧ coonsNet ξ η n b t l r (n-1) j = r j :=
  ⟨c15_coonsNet_j0 ξ η n b t l r hη0 h00 h10 i, c15_coonsNet_jlast ξ η n m b t l r hη1 h01 h11 i,
   c15_coonsNet_i0 ξ η n b t l r hξ0 j, c15_coonsNet_ilast ξ η n b t l r hξ1 j⟩

/-- Rational inputs.  `coons_patch` blends *homogeneous* control points, so `C15_coons_net` applies
    with `V` = homogeneous space and needs the corner control points to agree **including their
    weights**.  PARTIAL: the property asks for geometric agreement of the corners only; curves whose
    corner weights differ (same geometry) are outside this theorem, and indeed the pinned code
    rejects them in `edge_curves` (homogeneous end-point test) or returns a wrong boundary when
    `coons_patch` is called directly. -/
theorem C15_coons_rational_partial (ξ η : ℕ → R) (n m : ℕ) (b t l r : ℕ → V × R)
    (hξ0 : ξ 0 = 0) (hξ1 : ξ (n-1) = 1) (hη0 : η 0 = 0) (hη1 : η (m-1) = 1)
    (h00 : l 0 = b 0) (h10 : r 0 = b (n-1)) (h01 : l (m-1) = t 0) (h11 : r (m-1) = t (n-1))
    (i j : ℕ) :
    coonsNet ξ η n b t l r i 0 = b i ∧ coonsNet ξ η n b t l r i (m-1) = t i
    ∧ coonsNet ξ η n b t l r 0 j = l j ∧ coonsNet ξ η n b t l r (n-1) j = r j :=
  C15_coons_net ξ η n m b t l r hξ0 hξ1 hη0 hη1 h00 h10 h01 h11 i j

end Coons

omit [LinearOrder K] [IsStrictOrderedRing K] in
/-- The entry formula of the executable model (`Obj.coonsEntry`, used by `Obj.coonsPatch`) is
    `coonsNet`. -/
theorem C15_model_coons_entry (ξ η : ℕ → K) (n : ℕ) (b t l r : ℕ → K) (i j : ℕ) :
    Obj.coonsEntry (ξ i) (η j) (b i) (t i) (l j) (r j) (b 0) (b (n-1)) (t 0) (t (n-1))
      = coonsNet ξ η n b t l r i j := by
  simp only [Obj.coonsEntry, coonsNet, smul_eq_mul]
  ring

/-- The Greville abscissae of an open basis on `[0,1]` end in `0` and `1`. -/
theorem C15_greville_clamped (τ : ℕ → K) (hτ : Monotone τ) (q n : ℕ) (hq : 1 ≤ q) (hn : 1 ≤ n)
    (h0 : τ 0 = τ q) (h1 : τ n = τ (n+q)) (hs : τ q = 0) (he : τ n = 1) :
    grevilleAbscissa τ q 0 = 0 ∧ grevilleAbscissa τ q (n-1) = 1 := by
  rw [c15_greville_clamped_start τ hτ q hq h0, c15_greville_clamped_end τ hτ q n hq hn h1]
  exact ⟨hs, he⟩

/-- The net formula *is* the Coons blend: the tensor-product spline whose control net is
    `coonsNet` with the Greville abscissae of the two bases evaluates, at every `(u,v)` of the
    domain, to the Coons blend `(1-v) b(u) + v t(u) + (1-u) l(v) + u r(v) - bilinear(corners)` of the
    four boundary splines (per homogeneous component; `coonsMap` with the corner values `b 0`,
    `b (n-1)`, `t 0`, `t (n-1)`, which are `b(0), b(1), t(0), t(1)` by `C15_section_clamped_*`).
    Together with `C15_coons` this gives the boundary restriction of the Coons surface at every parameter, and it
    is the justification of the model's Greville formula (the code reaches the same net through
    `make_splines_identical`, i.e. degree elevation and knot insertion of the linear blends). -/
theorem C15_coons_net_eval (s1 s2 : Side) (τ1 τ2 : ℕ → K) (h1 : Monotone τ1) (h2 : Monotone τ2)
    (q1 q2 μ1 μ2 n m : ℕ) (hq1 : 1 ≤ q1) (hq2 : 1 ≤ q2) (hμ1 : q1 ≤ μ1) (hμ2 : q2 ≤ μ2)
    (hn : μ1 < n) (hm : μ2 < m) (u v : K)
    (hu : s1.mem (τ1 μ1) (τ1 (μ1+1)) u) (hv : s2.mem (τ2 μ2) (τ2 (μ2+1)) v)
    (b t l r : ℕ → K) :
    splineVal s1 τ1 q1 n (fun i => splineVal s2 τ2 q2 m
        (coonsNet (grevilleAbscissa τ1 q1) (grevilleAbscissa τ2 q2) n b t l r i) v) u
      = (1 - v) * splineVal s1 τ1 q1 n b u + v * splineVal s1 τ1 q1 n t u
        + (1 - u) * splineVal s2 τ2 q2 m l v + u * splineVal s2 τ2 q2 m r v
        - ((1 - u) * (1 - v) * b 0 + u * (1 - v) * b (n-1) + (1 - u) * v * t 0 + u * v * t (n-1)) :=
  c15_coonsNet_eval s1 s2 τ1 τ2 h1 h2 q1 q2 μ1 μ2 n m hq1 hq2 hμ1 hμ2 hn hm u v hu hv b t l r

/-! ## 4. The loop re-ordering search of four-curve `edge_curves` -/

/-- Every closed loop of four curves, given in any of the `4!` orders and with any of the `2^4`
    reversal patterns (this includes all rotations), is accepted by the search; the first curve is
    kept as given and the result is the directed loop through it. -/
theorem C15_loop_reorder :
    ∀ a b c d : Fin 4, [a, b, c, d].Nodup → ∀ flips ∈ C15_allFlips,
      C15_accepted (C15_arrange [a, b, c, d] flips) = true := by
  decide

/-- Soundness of the search, generic in the curve type (so also for the executable model on real
    curves with `allclose` on the homogeneous end control points): whatever it accepts is the first
    curve followed by three curves, each an input curve or a reversed one, that continue the chain
    end-to-start.  (The code does not re-test that the fourth curve closes the loop.) -/
theorem C15_loop_reorder_chain {C α : Type} (close : α → α → Bool) (startp endp : C → α)
    (rev : C → C) (hrev : ∀ c, startp (rev c) = endp c) (first : C) (rest l : List C)
    (h : loopGo close startp endp rev 3 first rest = .ok l) :
    l.length = 3 ∧ IsChainFrom close startp endp first l :=
  loopGo_ok close startp endp rev hrev 3 first rest l h

/-- Rejection: the only exception the search raises is `RuntimeError`, and it is raised as soon as
    the current end point is matched by neither end of any remaining curve. -/
theorem C15_loop_reorder_rejects {C α : Type} (close : α → α → Bool) (startp endp : C → α)
    (rev : C → C) (k : ℕ) (cur : C) (rest : List C) :
    (∀ e, loopGo close startp endp rev k cur rest = .error e → e = .runtime)
    ∧ ((∀ c ∈ rest, close (endp cur) (startp c) = false ∧ close (endp cur) (endp c) = false) →
        loopGo close startp endp rev (k+1) cur rest = .error .runtime) :=
  ⟨fun e h => loopGo_error close startp endp rev k cur rest e h,
   loopGo_no_continuation close startp endp rev k cur rest⟩

/-- Non-vacuity of the rejection: three curves that do not touch the end of the first one. -/
example : C15_search [(0, 1), (2, 3), (3, 2), (2, 0)] = .error .runtime := by decide

/-- An *open* chain is accepted (the closing test `c3[-1] == c0[0]` is not repeated after the search);
    the property makes no claim for such input. -/
example : C15_search [(0, 1), (1, 2), (2, 3), (3, 3)] = .ok [(0, 1), (1, 2), (2, 3), (3, 3)] := by decide

/-! ## 5. Ruled objects and extrusion -/

/-- `edge_curves(c1, c2)` / `edge_surfaces(s1, s2)` / `extrude`: an object whose last direction is
    the linear basis `BSplineBasis(2)` and whose control net is `c`: its min section (`v = 0`, resp.
    `w = 0`) is the object with net `c[…,0]`, its max section the one with net `c[…,1]` — for any
    number of leading directions, any parameters and sides. -/
theorem C15_ruled (args : List (Dir K × Side × K)) (c : List ℕ → K) :
    tval (args ++ [((linDir : Dir K), Side.right, 0)]) c = tval args (fun idx => c (idx ++ [0]))
    ∧ tval (args ++ [((linDir : Dir K), Side.left, 1)]) c = tval args (fun idx => c (idx ++ [1])) :=
  ⟨c15_tval_append_lin_lo args c, c15_tval_append_lin_hi args c⟩

/-- Between the two sections a ruled curve→surface is the linear interpolant of its two rows. -/
theorem C15_ruled_interior (s : Side) (D : Dir K) (u v : K) (h0 : 0 ≤ v) (h1 : v < 1)
    (c : List ℕ → K) :
    tval [(D, s, u), (linDir, .right, v)] c
      = (1 - v) * splineVal s D.τ D.q D.n (fun i => c [i, 0]) u
        + v * splineVal s D.τ D.q D.n (fun i => c [i, 1]) u := by
  simp only [tval, linDir]
  have e : (fun i => splineVal Side.right linKnots 1 2 (fun j => c [i, j]) v)
      = fun i => (1 - v) * c [i, 0] + v * c [i, 1] := by
    funext i
    exact c15_lin_splineVal (fun j => c [i, j]) v h0 h1
  rw [e, c15_splineVal_add, c15_splineVal_smul, c15_splineVal_smul]

/-- `extrude(obj, amount)`: the control net is `obj` in the first layer and `obj + amount·w` in the
    second (`w` = weights; `translate` adds `amount` times the weight to the homogeneous
    coordinates; `w = 1` for non-rational objects).  Hence the min section is `obj` and the max
    section is `obj + amount·W` in homogeneous coordinates, i.e. the profile moved by `amount`. -/
theorem C15_extrude (args : List (Dir K × Side × K)) (c base w : List ℕ → K) (d : K)
    (h0 : ∀ idx, c (idx ++ [0]) = base idx) (h1 : ∀ idx, c (idx ++ [1]) = base idx + d * w idx) :
    tval (args ++ [((linDir : Dir K), Side.right, 0)]) c = tval args base
    ∧ tval (args ++ [((linDir : Dir K), Side.left, 1)]) c = tval args base + d * tval args w := by
  rw [c15_tval_append_lin_lo, c15_tval_append_lin_hi]
  simp only [h0, h1]
  exact ⟨trivial, c15_tval_add_smul args base w d⟩

/-- … and after the projective division: the max section is the profile translated by the amount. -/
theorem C15_extrude_projected (args : List (Dir K × Side × K)) (c base w : List ℕ → K) (d : K)
    (h0 : ∀ idx, c (idx ++ [0]) = base idx) (h1 : ∀ idx, c (idx ++ [1]) = base idx + d * w idx)
    (hw : tval args w ≠ 0) :
    tval (args ++ [((linDir : Dir K), Side.left, 1)]) c / tval args w = tval args base / tval args w + d := by
  rw [(C15_extrude args c base w d h0 h1).2]
  field_simp

/-! ## 6. Six faces -/

section Faces

variable {R V : Type} [CommRing R] [AddCommGroup V] [Module R V]

/-- Function level: for six faces with compatible edges the trilinear transfinite interpolant that
    `edge_surfaces` assembles (`vol1 + vol2 + vol3 + vol4 − the three edge volumes`) restricts to
    the six inputs on the six sides of the unit cube. -/
theorem C15_edge_surfaces_6 {f0 f1 g0 g1 h0 h1 : R → R → V}
    (hc : FacesCompatible f0 f1 g0 g1 h0 h1) (u v w : R) :
    triMap f0 f1 g0 g1 h0 h1 0 v w = f0 v w ∧ triMap f0 f1 g0 g1 h0 h1 1 v w = f1 v w
    ∧ triMap f0 f1 g0 g1 h0 h1 u 0 w = g0 u w ∧ triMap f0 f1 g0 g1 h0 h1 u 1 w = g1 u w
    ∧ triMap f0 f1 g0 g1 h0 h1 u v 0 = h0 u v ∧ triMap f0 f1 g0 g1 h0 h1 u v 1 = h1 u v :=
  ⟨c15_triMap_u0 hc v w, c15_triMap_u1 hc v w, c15_triMap_v0 hc u w, c15_triMap_v1 hc u w,
   c15_triMap_w0 hc u v, c15_triMap_w1 hc u v⟩

/-- Non-vacuity: the faces of any trivariate map are compatible. -/
example (F : R → R → R → V) :
    FacesCompatible (fun v w => F 0 v w) (fun v w => F 1 v w) (fun u w => F u 0 w)
      (fun u w => F u 1 w) (fun u v => F u v 0) (fun u v => F u v 1) := by
  constructor <;> intro _ <;> rfl

end Faces

/-! ## 7. Constant-parameter curves -/

/-- Interpolation at an interior knot of multiplicity `q` on its own (no insertion needed when the
    knot already has that multiplicity). -/
theorem C15_interpolation_at_C0_knot (s : Side) (τ : ℕ → K) (hτ : Monotone τ) (q j : ℕ) (hq : 1 ≤ q)
    (heq : τ (j+1) = τ (j+q)) (hlo : τ j < τ (j+1)) (hhi : τ (j+q) < τ (j+q+1)) :
    B s τ q j (τ (j+1)) = 1 :=
  c15_B_eq_one_at_C0_knot s τ hτ q j hq heq hlo hhi

/-- Non-vacuity of the knot pattern: knots `0,0,0,1,1,2,2,2,…` (degree 2, the double knot `1`). -/
example : ∃ τ : ℕ → ℚ, Monotone τ ∧ τ (2+1) = τ (2+2) ∧ τ 2 < τ (2+1) ∧ τ (2+2) < τ (2+2+1) := by
  refine ⟨fun i => if i < 3 then 0 else if i < 5 then 1 else 2, ?_, ?_, ?_, ?_⟩
  · apply monotone_nat_of_le_succ
    intro k
    show (if k < 3 then (0:ℚ) else if k < 5 then 1 else 2)
        ≤ (if k + 1 < 3 then (0:ℚ) else if k + 1 < 5 then 1 else 2)
    split_ifs <;> first | omega | norm_num
  all_goals norm_num

/-! ## 8. The model's `section` computes the section net (numpy slicing ↔ `secNet`) -/

set_option linter.unusedSectionVars false

section Model

variable [FloorRing K]

open Tensor C04 C15

/-- **`C15_section_clamped` as a theorem about the executable model.**  Object `o` with control net
    of shape `dims ++ [nc]` (`dims` = the `n` of the directions `ds`), boundary selector per
    direction (`None`/`0`/`-1`, python form `selOf ds`), every fixed direction clamped at the
    selected end.  Then `Obj.sectionSel` (the model of `SplineObject.section` after
    `check_section`) succeeds; it returns the class chosen by the number of free directions (or the
    bare point) with control net `cps'` on the free axes; and for every homogeneous component `c` the
    tensor-product spline of `o` evaluated on the boundary equals the tensor-product spline of the
    returned net over the free directions. -/
theorem C15_section_model (o : Obj K) (ds : List (Dir K × BSel)) (nc : ℕ)
    (hshape : o.cps.shape = dimsOf ds ++ [nc]) (hcl : SelClamped ds) (unwrap : Bool)
    (ps : List (Side × K)) :
    ∃ cps' : Tensor K,
      cps'.shape = freeDims (idxOf ds) (dimsOf ds) ++ [nc] ∧
      o.sectionSel (selOf ds) unwrap =
        .ok (if !(Obj.freeBases o.bases.toList (selOf ds)).isEmpty ∨ !unwrap then
            .obj (Obj.className (Obj.freeBases o.bases.toList (selOf ds)).length)
              { bases := (Obj.freeBases o.bases.toList (selOf ds)).toArray, cps := cps',
                rational := o.rational }
          else .point cps'.data) ∧
      ∀ c, c < nc →
        tval (fullArgs ds ps) (fun full => o.cps.getIdx (full ++ [c]))
          = tval (secArgs ds ps) (fun is => cps'.getIdx (is ++ [c])) := by
  have hp : FixedPos ds := by
    clear hshape
    induction ds with
    | nil => trivial
    | cons d r ih =>
      obtain ⟨D, sel⟩ := d
      cases sel with
      | free => exact ih hcl
      | lo => exact ⟨hcl.1.2.1, ih hcl.2⟩
      | hi => exact ⟨by have := hcl.1.2.1; omega, ih hcl.2⟩
  obtain ⟨cps', h1, h2, h3⟩ := sectionSel_boundary o ds nc hshape hp unwrap
  refine ⟨cps', h1, h3, fun c hc => ?_⟩
  rw [C15_section_clamped ds hcl ps]
  apply tval_congr
  intro idx hidx
  rw [secArgs_dims] at hidx
  exact (h2 idx c hidx hc).symm

/-- The control net of a ruled / extruded object of the model (`Obj.stack2`, used by `Obj.ruled` and
    `Obj.extrude`): entry `[…, j, c]` is entry `[…, c]` of the first (`j = 0`) or second (`j = 1`)
    input net — the hypothesis of `C15_ruled` / `C15_extrude` for `net c idx = cps[idx ++ [c]]`. -/
theorem C15_ruled_model (a b : Tensor K) (A : List ℕ) (nc : ℕ) (hs : a.shape = A ++ [nc])
    (hsb : b.shape = A ++ [nc]) (ia : List ℕ) (c : ℕ) (hia : InRange ia A) (hc : c < nc) :
    (Obj.stack2 a b).shape = A ++ [2, nc] ∧
    (Obj.stack2 a b).getIdx ((ia ++ [0]) ++ [c]) = a.getIdx (ia ++ [c]) ∧
    (Obj.stack2 a b).getIdx ((ia ++ [1]) ++ [c]) = b.getIdx (ia ++ [c]) := by
  refine ⟨stack2_shape a b A nc hs, ?_, ?_⟩
  · have := stack2_getIdx a b A nc hs hsb ia 0 c hia (by omega) hc
    simpa using this
  · have := stack2_getIdx a b A nc hs hsb ia 1 c hia (by omega) hc
    simpa using this

/-- `Obj.extrude` (model of `surface_factory.extrude` / `volume_factory.extrude`): the result is
    the profile (lifted to 3-D) in layer 0 and the translated profile in layer 1, on the profile's
    bases plus `BSplineBasis(2)`.  (`translate` adds `amount·w` to the homogeneous coordinates:
    property C09.) -/
theorem C15_extrude_model (o : Obj K) (amount : List K) (h3 : amount.length = 3) :
    o.extrude amount = .ok (Obj.mk ((o.setDimension 3).bases.push Obj.linearBasis)
      (Obj.stack2 (o.setDimension 3).cps ((o.setDimension 3).translate amount).cps)
      (o.setDimension 3).rational) := by
  unfold Obj.extrude
  simp [h3]

/-! ## 9. `Surface.const_par_curve`, completely (non-periodic cut direction) -/

/-- Position of the parameter `x` in the cut direction's basis `b`, and the side from which the
    surface is evaluated: an interior parameter whose multiplicity is at most `p - 1` (any side), the
    start of a basis clamped there (from the right), the end of a basis clamped there (from the
    left). -/
def C15_CpcCase (b : Basis K) (x : K) (s : Side) : Prop :=
  (b.start < x ∧ x < b.stop ∧ b.bisectR x - b.bisectL x ≤ b.order - 1)
  ∨ (s = .right ∧ x = b.start ∧ b.kn 0 = b.kn (b.order - 1) ∧ b.kn (b.order - 1) < b.kn b.order)
  ∨ (s = .left ∧ x = b.stop ∧ b.kn b.numFunctions = b.kn (b.numFunctions + (b.order - 1))
      ∧ b.kn (b.numFunctions - 1) < b.kn b.numFunctions)

/-- **`const_par_curve` of the model, no assumption left about the loop, the multiplicity or the row.**
    Setup (`CpcSetup`): `check_direction` resolves to `dir`, the basis of that direction is valid and
    non-periodic and matches the control net, `0 < tol` and the tolerance separates `x` from the other
    knots (`Separated`: each knot is `x`, `< x - tol` or `≥ x + tol`, so that `continuity(x)` sees the
    exact multiplicity).  Case (`C15_CpcCase`).  Then the call succeeds, the result is a curve on the
    other basis with the same `rational` flag, its control net is the surface net with axis `dir`
    removed, and every entry is the value at `x` (side `s`) of the fibre spline of the *original*
    surface along `dir` through that entry:
    the insertion loop is the chain of Boehm insertions of `C04_object`, it brings the multiplicity
    to `p - 1`, and `max(bisect_left - 1, 0)` is the interpolated row. -/
theorem C15_const_par_curve (o : Obj K) (direction : Int ⊕ String) (dir : ℕ) (tol x : K) (s : Side)
    (h : CpcSetup o direction dir tol x) (hcase : C15_CpcCase (o.basis dir) x s) :
    ∃ crv, o.constParCurve tol x direction = .ok crv ∧ crv.bases = #[o.basis (1 - dir)] ∧
      crv.rational = o.rational ∧ crv.cps.shape = o.cps.shape.eraseIdx dir ∧
      ∀ a i, a < outerN o dir → i < innerN o dir →
        crv.cps.get (a * innerN o dir + i)
          = splineVal s (o.basis dir).kn ((o.basis dir).order - 1) (o.basis dir).numFunctions
              (fibre o dir a i) x := by
  rcases hcase with ⟨h1, h2, h3⟩ | ⟨rfl, h1, h2, h3⟩ | ⟨rfl, h1, h2, h3⟩
  · exact cpc_interior o direction dir tol x h ⟨h1, h2⟩ h3 s
  · exact cpc_start o direction dir tol x h h1 h2 h3
  · exact cpc_stop o direction dir tol x h h1 h2 h3

/-- Cut direction `u`: the returned curve evaluates — for any basis data, side and parameter in
    the `v` direction — to the surface sum `Σ_i Σ_k P[i,k,c] B_i(x) B_k(v)` at `(x, v)`, per homogeneous
    component `c` (hence to the surface point, also for rational surfaces). -/
theorem C15_const_par_curve_eval_u (o : Obj K) (direction : Int ⊕ String) (tol x : K) (s : Side)
    (n0 n1 nc : ℕ) (hs : o.cps.shape = [n0, n1, nc]) (hn0 : n0 = (o.basis 0).numFunctions)
    (h : CpcSetup o direction 0 tol x) (hcase : C15_CpcCase (o.basis 0) x s) :
    ∃ crv, o.constParCurve tol x direction = .ok crv ∧ crv.bases = #[o.basis 1] ∧
      crv.rational = o.rational ∧ crv.cps.shape = [n1, nc] ∧
      ∀ c, c < nc → ∀ (s1 : Side) (τ1 : ℕ → K) (q1 : ℕ) (v : K),
        splineVal s1 τ1 q1 n1 (fun k => crv.cps.get (k * nc + c)) v
          = splineVal s (o.basis 0).kn ((o.basis 0).order - 1) n0
              (fun i => splineVal s1 τ1 q1 n1 (fun k => o.cps.get ((i * n1 + k) * nc + c)) v) x := by
  obtain ⟨crv, c1, c2, c3, c4, _, c6⟩ :=
    cpc_eval_dir0 o direction tol x s n0 n1 nc hs hn0 (C15_const_par_curve o direction 0 tol x s h hcase)
  exact ⟨crv, c1, c2, c3, c4, c6⟩

/-- Cut direction `v`: the returned curve evaluates to the surface sum at `(u, x)`. -/
theorem C15_const_par_curve_eval_v (o : Obj K) (direction : Int ⊕ String) (tol x : K) (s : Side)
    (n0 n1 nc : ℕ) (hs : o.cps.shape = [n0, n1, nc]) (hn1 : n1 = (o.basis 1).numFunctions)
    (h : CpcSetup o direction 1 tol x) (hcase : C15_CpcCase (o.basis 1) x s) :
    ∃ crv, o.constParCurve tol x direction = .ok crv ∧ crv.bases = #[o.basis 0] ∧
      crv.rational = o.rational ∧ crv.cps.shape = [n0, nc] ∧
      ∀ c, c < nc → ∀ (s0 : Side) (τ0 : ℕ → K) (q0 : ℕ) (u : K),
        splineVal s0 τ0 q0 n0 (fun i => crv.cps.get (i * nc + c)) u
          = splineVal s0 τ0 q0 n0
              (fun i => splineVal s (o.basis 1).kn ((o.basis 1).order - 1) n1
                (fun k => o.cps.get ((i * n1 + k) * nc + c)) x) u := by
  obtain ⟨crv, c1, c2, c3, c4, _, c6⟩ :=
    cpc_eval_dir1 o direction tol x s n0 n1 nc hs hn1 (C15_const_par_curve o direction 1 tol x s h hcase)
  exact ⟨crv, c1, c2, c3, c4, c6⟩

/-! ### Non-vacuity: a concrete surface, cut at the interior knot `u = 1` -/

/-- Quadratic basis with a double interior knot (same as `C04_exOpen`). -/
def C15_exB : Basis ℚ := ⟨3, #[0, 0, 0, 1, 2, 2, 3, 3, 3], -1⟩

/-- A `6 × 2` surface in the plane over `C15_exB × BSplineBasis(2)`. -/
def C15_exSurf : Obj ℚ :=
  { bases := #[C15_exB, ⟨2, #[0, 0, 1, 1], -1⟩],
    cps := { shape := [6, 2, 2],
             data := #[0, 0, 0, 1, 1, 0, 1, 2, 2, 1, 2, 3, 3, 0, 3, 2, 4, 1, 4, 2, 5, 0, 5, 1] },
    rational := false }

theorem C15_exB_valid : C15_exB.Valid where
  order_pos := by decide
  size_ge := by decide
  sorted := by
    intro i hi
    have hi' : i + 1 < 9 := hi
    have hi'' : i < 8 := by omega
    interval_cases i <;> norm_num [Basis.kn, C15_exB]
  periodic_ge := by decide
  periodic_le := by decide
  start_lt_stop := by norm_num [Basis.start, Basis.stop, Basis.kn, C15_exB]
  ghosts := fun h => absurd h (by decide)

theorem C15_exSurf_setup : CpcSetup C15_exSurf (.inl 0) 0 (1/1000) 1 where
  hdirn := by decide
  hdir := by decide
  hax := by decide
  hv := C15_exB_valid
  hper := rfl
  hshape := by decide
  htol := by norm_num
  hsep := by
    intro i hi
    have hi' : i < 9 := hi
    show C15_exB.kn i = 1 ∨ C15_exB.kn i < 1 - 1/1000 ∨ 1 + 1/1000 ≤ C15_exB.kn i
    interval_cases i <;> norm_num [Basis.kn, C15_exB]

theorem C15_exSurf_case (s : Side) : C15_CpcCase (C15_exSurf.basis 0) 1 s := by
  left
  show C15_exB.start < 1 ∧ 1 < C15_exB.stop ∧ C15_exB.bisectR 1 - C15_exB.bisectL 1 ≤ C15_exB.order - 1
  have hm := C04.kn_mono C15_exB_valid.sorted
  have hL : C15_exB.bisectL 1 = 3 := by
    apply bisectLeft_unique C15_exB.kn hm 1 9 3 (by omega)
    · intro i hi
      interval_cases i <;> norm_num [Basis.kn, C15_exB]
    · intro i h1 h2
      interval_cases i <;> norm_num [Basis.kn, C15_exB]
  have hR : C15_exB.bisectR 1 = 4 := by
    apply bisectRight_unique C15_exB.kn hm 1 9 4 (by omega)
    · intro i hi
      interval_cases i <;> norm_num [Basis.kn, C15_exB]
    · intro i h1 h2
      interval_cases i <;> norm_num [Basis.kn, C15_exB]
  refine ⟨by norm_num [Basis.start, Basis.kn, C15_exB], by norm_num [Basis.stop, Basis.kn, C15_exB], ?_⟩
  rw [hL, hR]
  decide

/-- `C15_const_par_curve` applies: `const_par_curve(1, 0)` of the example succeeds with a `2 × 2` net. -/
example : ∃ crv, C15_exSurf.constParCurve (1/1000) 1 (.inl 0) = .ok crv ∧ crv.cps.shape = [2, 2] := by
  obtain ⟨crv, h1, _, _, h4, _⟩ :=
    C15_const_par_curve C15_exSurf (.inl 0) 0 (1/1000) 1 .right C15_exSurf_setup (C15_exSurf_case _)
  exact ⟨crv, h1, h4⟩

end Model

/-! ## 10. Six faces at control-net level -/

section TriNet

variable [FloorRing K]

/-- The entry formula of the executable model (`Obj.triNetModel`, used by `Obj.edgeSurfaces`) is
    `triNet` when the blending abscissae are `0` and `1` at the ends (`C15_greville_clamped`). -/
theorem C15_model_tri_entry (ξ η ζ : ℕ → K) (nu nv nw : ℕ) (f0 f1 g0 g1 h0 h1 : ℕ → ℕ → K)
    (hξ0 : ξ 0 = 0) (hξ1 : ξ (nu-1) = 1) (hη0 : η 0 = 0) (hη1 : η (nv-1) = 1)
    (hζ0 : ζ 0 = 0) (hζ1 : ζ (nw-1) = 1) (i j k : ℕ) :
    Obj.triNetModel ξ η ζ nu nv nw f0 f1 g0 g1 h0 h1 i j k
      = triNet ξ η ζ nu nv nw f0 f1 g0 g1 h0 h1 i j k :=
  c15_triNetModel_eq ξ η ζ nu nv nw f0 f1 g0 g1 h0 h1 hξ0 hξ1 hη0 hη1 hζ0 hζ1 i j k

end TriNet

/-- Control-net level (identical bases): with blending abscissae `0`/`1` at the ends and compatible
    face nets (`NetsCompatible`: the twelve shared boundary rows agree) the six boundary layers of the
    volume net are the six input nets; with `C15_section_clamped` the six faces of the volume are the
    inputs. -/
theorem C15_edge_surfaces_6_net (ξ η ζ : ℕ → K) (nu nv nw : ℕ) {f0 f1 g0 g1 h0 h1 : ℕ → ℕ → K}
    (hc : NetsCompatible nu nv nw f0 f1 g0 g1 h0 h1)
    (hξ0 : ξ 0 = 0) (hξ1 : ξ (nu-1) = 1) (hη0 : η 0 = 0) (hη1 : η (nv-1) = 1)
    (hζ0 : ζ 0 = 0) (hζ1 : ζ (nw-1) = 1) (i j k : ℕ) :
    triNet ξ η ζ nu nv nw f0 f1 g0 g1 h0 h1 0 j k = f0 j k
    ∧ triNet ξ η ζ nu nv nw f0 f1 g0 g1 h0 h1 (nu-1) j k = f1 j k
    ∧ triNet ξ η ζ nu nv nw f0 f1 g0 g1 h0 h1 i 0 k = g0 i k
    ∧ triNet ξ η ζ nu nv nw f0 f1 g0 g1 h0 h1 i (nv-1) k = g1 i k
    ∧ triNet ξ η ζ nu nv nw f0 f1 g0 g1 h0 h1 i j 0 = h0 i j
    ∧ triNet ξ η ζ nu nv nw f0 f1 g0 g1 h0 h1 i j (nw-1) = h1 i j :=
  ⟨c15_triNet_i0 ξ η ζ nu nv nw hc hξ0 j k, c15_triNet_ilast ξ η ζ nu nv nw hc hξ1 j k,
   c15_triNet_j0 ξ η ζ nu nv nw hc hη0 i k, c15_triNet_jlast ξ η ζ nu nv nw hc hη1 i k,
   c15_triNet_k0 ξ η ζ nu nv nw hc hζ0 i j, c15_triNet_klast ξ η ζ nu nv nw hc hζ1 i j⟩

/-- The net formula *is* the trilinear transfinite blend: the tensor-product spline whose control net
    is `triNet` with the Greville abscissae of the three bases evaluates, at every `(u,v,w)` of the
    domain, to `triMap` of the face splines — written out: faces `(1-u)F₀+uF₁+(1-v)G₀+vG₁+(1-w)H₀+wH₁`,
    plus the trilinear interpolant of the eight corner points, minus the three bilinear blends of the
    twelve edge splines (`w`-edges from `f`, `u`-edges from `g`, `v`-edges from `h`, as the code takes
    them).  This justifies the model's Greville formula for `edge_surfaces` (the code reaches the same
    net through `make_splines_identical` of the seven auxiliary volumes). -/
theorem C15_edge_surfaces_6_net_eval (s1 s2 s3 : Side) (τ1 τ2 τ3 : ℕ → K) (m1 : Monotone τ1)
    (m2 : Monotone τ2) (m3 : Monotone τ3) (q1 q2 q3 μ1 μ2 μ3 nu nv nw : ℕ)
    (hq1 : 1 ≤ q1) (hq2 : 1 ≤ q2) (hq3 : 1 ≤ q3) (hμ1 : q1 ≤ μ1) (hμ2 : q2 ≤ μ2) (hμ3 : q3 ≤ μ3)
    (hn1 : μ1 < nu) (hn2 : μ2 < nv) (hn3 : μ3 < nw) (u v w : K)
    (hu : s1.mem (τ1 μ1) (τ1 (μ1+1)) u) (hv : s2.mem (τ2 μ2) (τ2 (μ2+1)) v)
    (hw : s3.mem (τ3 μ3) (τ3 (μ3+1)) w) (f0 f1 g0 g1 h0 h1 : ℕ → ℕ → K) :
    splineVal s1 τ1 q1 nu (fun i => splineVal s2 τ2 q2 nv (fun j => splineVal s3 τ3 q3 nw
        (fun k => triNet (grevilleAbscissa τ1 q1) (grevilleAbscissa τ2 q2) (grevilleAbscissa τ3 q3)
          nu nv nw f0 f1 g0 g1 h0 h1 i j k) w) v) u
      = ((1 - u) * splineVal s2 τ2 q2 nv (fun j => splineVal s3 τ3 q3 nw (fun k => f0 j k) w) v
          + u * splineVal s2 τ2 q2 nv (fun j => splineVal s3 τ3 q3 nw (fun k => f1 j k) w) v)
        + ((1 - v) * splineVal s1 τ1 q1 nu (fun i => splineVal s3 τ3 q3 nw (fun k => g0 i k) w) u
          + v * splineVal s1 τ1 q1 nu (fun i => splineVal s3 τ3 q3 nw (fun k => g1 i k) w) u)
        + ((1 - w) * splineVal s1 τ1 q1 nu (fun i => splineVal s2 τ2 q2 nv (fun j => h0 i j) v) u
          + w * splineVal s1 τ1 q1 nu (fun i => splineVal s2 τ2 q2 nv (fun j => h1 i j) v) u)
        + ((1 - u) * (1 - v) * (1 - w) * f0 0 0 + (1 - u) * (1 - v) * w * f0 0 (nw-1)
            + (1 - u) * v * (1 - w) * f0 (nv-1) 0 + (1 - u) * v * w * f0 (nv-1) (nw-1)
            + u * (1 - v) * (1 - w) * f1 0 0 + u * (1 - v) * w * f1 0 (nw-1)
            + u * v * (1 - w) * f1 (nv-1) 0 + u * v * w * f1 (nv-1) (nw-1))
        - ((1 - u) * (1 - v) * splineVal s3 τ3 q3 nw (fun k => f0 0 k) w
            + (1 - u) * v * splineVal s3 τ3 q3 nw (fun k => f0 (nv-1) k) w
            + u * (1 - v) * splineVal s3 τ3 q3 nw (fun k => f1 0 k) w
            + u * v * splineVal s3 τ3 q3 nw (fun k => f1 (nv-1) k) w)
        - ((1 - v) * (1 - w) * splineVal s1 τ1 q1 nu (fun i => g0 i 0) u
            + (1 - v) * w * splineVal s1 τ1 q1 nu (fun i => g0 i (nw-1)) u
            + v * (1 - w) * splineVal s1 τ1 q1 nu (fun i => g1 i 0) u
            + v * w * splineVal s1 τ1 q1 nu (fun i => g1 i (nw-1)) u)
        - ((1 - u) * (1 - w) * splineVal s2 τ2 q2 nv (fun j => h0 0 j) v
            + (1 - u) * w * splineVal s2 τ2 q2 nv (fun j => h1 0 j) v
            + u * (1 - w) * splineVal s2 τ2 q2 nv (fun j => h0 (nu-1) j) v
            + u * w * splineVal s2 τ2 q2 nv (fun j => h1 (nu-1) j) v) :=
  c15_triNet_eval s1 s2 s3 τ1 τ2 τ3 q1 q2 q3 nu nv nw _ _ _ u v w
    (B_sum_range_eq_one s1 τ1 m1 q1 μ1 nu hμ1 hn1 u hu)
    (linear_precision_range s1 τ1 m1 q1 μ1 nu hq1 hμ1 hn1 u hu)
    (B_sum_range_eq_one s2 τ2 m2 q2 μ2 nv hμ2 hn2 v hv)
    (linear_precision_range s2 τ2 m2 q2 μ2 nv hq2 hμ2 hn2 v hv)
    (B_sum_range_eq_one s3 τ3 m3 q3 μ3 nw hμ3 hn3 w hw)
    (linear_precision_range s3 τ3 m3 q3 μ3 nw hq3 hμ3 hn3 w hw)
    f0 f1 g0 g1 h0 h1

/-- Non-vacuity: the boundary layers of any trivariate net are compatible. -/
example (nu nv nw : ℕ) (N : ℕ → ℕ → ℕ → ℚ) :
    NetsCompatible nu nv nw (fun j k => N 0 j k) (fun j k => N (nu-1) j k) (fun i k => N i 0 k)
      (fun i k => N i (nv-1) k) (fun i j => N i j 0) (fun i j => N i j (nw-1)) := by
  constructor <;> intro _ <;> rfl

/-! ## 11. Source-derived obligations: the translated utilities equal the hand model -/

section Translated

open Splipy.Generated

/-- Selector values used by the bounded checks: `None`, `0`, `-1` and an index outside the table. -/
def C15_selv : Fin 4 → Sel := fun x =>
  if x = 0 then none else if x = 1 then some 0 else if x = 2 then some (-1) else some 2

/-- `sections` as translated from the Python AST equals the hand model (incl. the `ValueError` for
    `tgt_dim > src_dim`), all `src_dim, tgt_dim ≤ 3`. -/
theorem C15_translated_sections :
    ∀ s t : Fin 4, C15.sections s.val t.val = sectionsPy s t := by decide

/-- `section_from_index` (translated) equals the hand model. -/
theorem C15_translated_section_from_index :
    ∀ s t : Fin 4, ∀ i : Fin 14, t ≤ s →
      C15.section_from_index s.val t.val i.val = .ok (sectionFromIndex s t i) := by decide

/-- `section_to_index` (translated) equals the hand model on all selector lists of length ≤ 3 over
    `{None, 0, -1, 2}`. -/
theorem C15_translated_section_to_index :
    ∀ a b c : Fin 4,
      C15.section_to_index [] = .ok ((sectionToIndex []).map (fun (n : ℕ) => (n : Int)))
      ∧ C15.section_to_index [C15_selv a]
          = .ok ((sectionToIndex [C15_selv a]).map (fun (n : ℕ) => (n : Int)))
      ∧ C15.section_to_index [C15_selv a, C15_selv b]
          = .ok ((sectionToIndex [C15_selv a, C15_selv b]).map (fun (n : ℕ) => (n : Int)))
      ∧ C15.section_to_index [C15_selv a, C15_selv b, C15_selv c]
          = .ok ((sectionToIndex [C15_selv a, C15_selv b, C15_selv c]).map (fun (n : ℕ) => (n : Int))) := by
  decide

/-- Keyword selectors `u=, v=, w=`: absent (`0`) or one of the values `C15_selv 0..2`. -/
def C15_kwS (u v w : Fin 4) : List (String × Sel) :=
  (if u = 0 then [] else [("u", C15_selv (u-1))]) ++ (if v = 0 then [] else [("v", C15_selv (v-1))])
    ++ (if w = 0 then [] else [("w", C15_selv (w-1))])

def C15_kwN (u v w : Fin 4) : List (ℕ × Sel) :=
  (if u = 0 then [] else [(0, C15_selv (u-1))]) ++ (if v = 0 then [] else [(1, C15_selv (v-1))])
    ++ (if w = 0 then [] else [(2, C15_selv (w-1))])

/-- `check_section` (translated; keyword dictionary as an association list) equals the hand model
    (`checkSection`, keywords as direction indices) — pardim ≤ 3, every combination of keyword
    selectors, positional lists of length ≤ 2 over `{None, 0, -1, 2}` (incl. the `IndexError` for a
    keyword beyond the selector list). -/
theorem C15_translated_check_section :
    ∀ p : Fin 4, ∀ u v w : Fin 4, ∀ a b : Fin 4,
      C15.check_section [] (C15_kwS u v w) p.val = checkSection p [] (C15_kwN u v w)
      ∧ C15.check_section [C15_selv a, C15_selv b] (C15_kwS u v w) p.val
          = checkSection p [C15_selv a, C15_selv b] (C15_kwN u v w) := by
  decide

/-- Positional lists of length 1 and 3. -/
theorem C15_translated_check_section_13 :
    ∀ p : Fin 4, ∀ u v w : Fin 3, ∀ a b c : Fin 3,
      C15.check_section [C15_selv a.castSucc] (C15_kwS u.castSucc v.castSucc w.castSucc) p.val
          = checkSection p [C15_selv a.castSucc] (C15_kwN u.castSucc v.castSucc w.castSucc)
      ∧ C15.check_section [C15_selv a.castSucc, C15_selv b.castSucc, C15_selv c.castSucc] (C15_kwS u.castSucc v.castSucc w.castSucc) p.val
          = checkSection p [C15_selv a.castSucc, C15_selv b.castSucc, C15_selv c.castSucc] (C15_kwN u.castSucc v.castSucc w.castSucc) := by
  decide

/-- Direction tokens used by the bounded check of `check_direction`. -/
def C15_toks : List (Int ⊕ String) :=
  [.inl 0, .inl 1, .inl 2, .inl 3, .inl (-1), .inr "u", .inr "U", .inr "v", .inr "V", .inr "w",
   .inr "W", .inr "x", .inr "", .inr "uv", .inr "0"]

/-- `check_direction` (translated) equals the hand model on the documented spellings and on invalid
    tokens, pardim ≤ 4. -/
theorem C15_translated_check_direction :
    ∀ t ∈ C15_toks, ∀ p : Fin 5,
      C15.check_direction t p.val = (checkDirection t p).map (fun (n : ℕ) => (n : Int)) := by
  decide

end Translated
