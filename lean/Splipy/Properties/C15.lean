import Splipy.Model.Sections
import Splipy.Lemmas.C15
import Splipy.Lemmas.C15Coons
import Splipy.Lemmas.C15Loop
import Mathlib.Tactic.NormNum

/-!
# Property C15: boundary extraction and boundary-filling constructions agree with evaluation

Spec level: `B`, `splineVal` (`Spec/BSpline.lean`); `tval` is the tensor-product sum over a list of
directions (one homogeneous component of an object; for a rational object the evaluated point is the
quotient of two such values, so every identity below passes to it); `secNet` is the control net of a
section (index `0` / `n-1` in the fixed directions).  Model level: `Sections.sections`,
`Sections.loopOrder`, … are the executable models of the Python functions of the same name
(`Model/Sections.lean`), tied to the code by the correspondence run of `harness/props/C15.py`.

Summary
* `C15_section_clamped`            every one of the `3^pardim` selectors `{None,0,-1}^pardim`, any pardim;
* `C15_sections_enumeration` …     the table `sections(src,tgt)` (documented orders, counts, inverses);
* `C15_coons`, `C15_coons_net`, `C15_coons_net_eval`  Coons patch (function, net, net = function);
* `C15_loop_reorder` …             the re-ordering search of four-curve `edge_curves`;
* `C15_ruled`, `C15_extrude`       two-curve / two-face filling and extrusion;
* `C15_edge_surfaces_6`            trilinear transfinite interpolation of six faces;
* `C15_const_par_curve_partial`    constant-parameter curves.
-/

open Splipy Splipy.Sections

variable {K : Type} [Field K] [LinearOrder K] [IsStrictOrderedRing K]

/-! ## 1. Sections of clamped directions -/

/-- Curve / fibre level, start: a spline on a basis clamped at the start
    (`τ 0 = … = τ q < τ (q+1)`, `q+1` = order) takes the value of its first coefficient at the
    start of the domain (limit from inside). -/
theorem C15_section_clamped_start (τ : ℕ → K) (hτ : Monotone τ) (q n : ℕ) (hn : 1 ≤ n)
    (c : ℕ → K) (h : τ 0 = τ q) (hlt : τ q < τ (q+1)) :
    splineVal .right τ q n c (τ q) = c 0 :=
  c15_clamped_start τ hτ q n hn c h hlt

/-- Curve / fibre level, end: clamped at the end (`τ (n-1) < τ n = … = τ (n+q)`), the value at the
    end of the domain (limit from inside) is the last coefficient. -/
theorem C15_section_clamped_end (τ : ℕ → K) (hτ : Monotone τ) (q n : ℕ) (hn : q + 1 ≤ n)
    (c : ℕ → K) (h : τ n = τ (n+q)) (hlt : τ (n-1) < τ n) :
    splineVal .left τ q n c (τ n) = c (n-1) :=
  c15_clamped_end τ hτ q n hn c h hlt

/-- Object level, any parametric dimension and every selector in `{None, 0, -1}^pardim`: if each
    fixed direction is clamped at the selected end, the object evaluated on that boundary (fixed
    directions at `start()` resp. `end()`, free directions at arbitrary parameters and sides `ps`)
    equals the section — the tensor-product spline over the free directions whose net is the
    sliced control net `secNet` (index `0` / `n-1`).  Corners, edges and faces are the cases with
    0, 1, 2 free directions; keyword and positional forms produce the same selector list
    (`check_section`, compared with the code by the correspondence run). -/
theorem C15_section_clamped (ds : List (Dir K × BSel)) (hc : SelClamped ds) (ps : List (Side × K))
    (c : List ℕ → K) :
    tval (fullArgs ds ps) c = tval (secArgs ds ps) (secNet ds c) :=
  c15_tval_section ds hc ps c

/-- Rational objects: numerator component `c` and weight component `w` both restrict, hence so does
    the projected point. -/
theorem C15_section_clamped_rational (ds : List (Dir K × BSel)) (hc : SelClamped ds)
    (ps : List (Side × K)) (c w : List ℕ → K) :
    tval (fullArgs ds ps) c / tval (fullArgs ds ps) w
      = tval (secArgs ds ps) (secNet ds c) / tval (secArgs ds ps) (secNet ds w) := by
  rw [c15_tval_section ds hc ps c, c15_tval_section ds hc ps w]

/-- Non-vacuity: the `umax` edge of a surface whose two directions are the linear basis. -/
example : SelClamped [((linDir : Dir ℚ), BSel.hi), (linDir, BSel.free)] :=
  ⟨linDir_clampedHi, trivial⟩

/-- … and what the theorem says for it: the value at `(1, v)` is the spline over `v` with the
    second row of the net. -/
example (c : List ℕ → ℚ) (s : Side) (v : ℚ) :
    tval [(linDir, .left, 1), (linDir, s, v)] c = tval [(linDir, s, v)] (fun idx => c (1 :: idx)) := by
  have h := C15_section_clamped [((linDir : Dir ℚ), BSel.hi), (linDir, BSel.free)]
    ⟨linDir_clampedHi, trivial⟩ [(s, v)] c
  have e : secNet [((linDir : Dir ℚ), BSel.hi), (linDir, BSel.free)] c = fun idx => c (1 :: idx) := by
    funext idx; cases idx <;> rfl
  rw [e] at h
  simpa [fullArgs, secArgs, linDir_hi] using h

/-! ## 2. The table of sections -/

/-- `sections(src_dim, tgt_dim)` is exactly the documented order: `Surface.edges` = umin, umax, vmin,
    vmax; `Volume.faces` = umin, umax, vmin, vmax, wmin, wmax; `Volume.edges` = the twelve edges in
    the order of its docstring; corners with the *first* direction varying fastest (`corners('C')`). -/
theorem C15_sections_enumeration :
    sections 1 0 = [[some 0], [some (-1)]]
    ∧ sections 2 1 = [[some 0, none], [some (-1), none], [none, some 0], [none, some (-1)]]
    ∧ sections 2 0 = [[some 0, some 0], [some (-1), some 0], [some 0, some (-1)], [some (-1), some (-1)]]
    ∧ sections 3 2 = [[some 0, none, none], [some (-1), none, none], [none, some 0, none],
                      [none, some (-1), none], [none, none, some 0], [none, none, some (-1)]]
    ∧ sections 3 1 = [[some 0, some 0, none], [some (-1), some 0, none], [some 0, some (-1), none],
                      [some (-1), some (-1), none],
                      [some 0, none, some 0], [some (-1), none, some 0], [some 0, none, some (-1)],
                      [some (-1), none, some (-1)],
                      [none, some 0, some 0], [none, some (-1), some 0], [none, some 0, some (-1)],
                      [none, some (-1), some (-1)]]
    ∧ sections 3 0 = [[some 0, some 0, some 0], [some (-1), some 0, some 0], [some 0, some (-1), some 0],
                      [some (-1), some (-1), some 0], [some 0, some 0, some (-1)],
                      [some (-1), some 0, some (-1)], [some 0, some (-1), some (-1)],
                      [some (-1), some (-1), some (-1)]]
    ∧ (∀ d : Fin 4, sections d d = [List.replicate d none]) := by
  decide

/-- Count `C(src,tgt)·2^(src-tgt)`, no duplicates, every entry has `src` selectors of which `tgt`
    are free — for every `tgt ≤ src ≤ 3`. -/
theorem C15_sections_count : ∀ src : Fin 4, ∀ tgt : Fin 4, tgt ≤ src →
    (sections src tgt).length = Nat.choose src tgt * 2 ^ (src.val - tgt.val)
    ∧ (sections src tgt).Nodup
    ∧ ∀ s ∈ sections src tgt, s.length = src.val ∧ (s.filter Option.isNone).length = tgt.val := by
  decide

/-- `section_from_index ∘ section_to_index = id` and conversely, on the whole table. -/
theorem C15_section_index_roundtrip : ∀ src : Fin 4, ∀ tgt : Fin 4, tgt ≤ src →
    (∀ s ∈ sections src tgt, (sectionToIndex s).bind (sectionFromIndex src tgt) = some s)
    ∧ ∀ i : Fin 13, i.val < (sections src tgt).length →
        (sectionFromIndex src tgt i).bind sectionToIndex = some i.val := by
  decide

/-- The `3^pardim` selectors: each of them is in exactly one table `sections(pardim, k)` and
    `section_to_index` finds it (pardim ≤ 3). -/
theorem C15_all_selectors_indexed :
    ∀ a b c : Fin 3,
      let sel : Fin 3 → Sel := fun x => if x = 0 then none else if x = 1 then some 0 else some (-1)
      (sectionToIndex [sel a]).isSome ∧ (sectionToIndex [sel a, sel b]).isSome
      ∧ (sectionToIndex [sel a, sel b, sel c]).isSome := by
  decide

/-! ## 3. Coons patch -/

section Coons

variable {R V : Type} [CommRing R] [AddCommGroup V] [Module R V]

/-- Function level (values in any module, e.g. homogeneous coordinates): with matching corners the
    bilinearly blended map `coonsMap = (1-v) b + v t + (1-u) l + u r - bilinear(corners)` restricts to
    the four inputs on the four sides of the unit square. -/
theorem C15_coons (b t l r : R → V) (h00 : l 0 = b 0) (h10 : r 0 = b 1) (h01 : l 1 = t 0)
    (h11 : r 1 = t 1) (u v : R) :
    coonsMap b t l r u 0 = b u ∧ coonsMap b t l r u 1 = t u
    ∧ coonsMap b t l r 0 v = l v ∧ coonsMap b t l r 1 v = r v :=
  ⟨c15_coonsMap_v0 b t l r h00 h10 u, c15_coonsMap_v1 b t l r h01 h11 u,
   c15_coonsMap_u0 b t l r v, c15_coonsMap_u1 b t l r v⟩

/-- Control-net level (identical bases): if the blending abscissae are `0` and `1` at the ends
    (Greville abscissae of open bases on `[0,1]`, `C15_greville_clamped`) and the corner control
    points match, the boundary rows and columns of the Coons net are the four input nets. -/
theorem C15_coons_net (ξ η : ℕ → R) (n m : ℕ) (b t l r : ℕ → V)
    (hξ0 : ξ 0 = 0) (hξ1 : ξ (n-1) = 1) (hη0 : η 0 = 0) (hη1 : η (m-1) = 1)
    (h00 : l 0 = b 0) (h10 : r 0 = b (n-1)) (h01 : l (m-1) = t 0) (h11 : r (m-1) = t (n-1))
    (i j : ℕ) :
    coonsNet ξ η n b t l r i 0 = b i ∧ coonsNet ξ η n b t l r i (m-1) = t i
    ∧ coonsNet ξ η n b t l r 0 j = l j ∧ coonsNet ξ η n b t l r (n-1) j = r j :=
  ⟨c15_coonsNet_j0 ξ η n b t l r hη0 h00 h10 i, c15_coonsNet_jlast ξ η n m b t l r hη1 h01 h11 i,
   c15_coonsNet_i0 ξ η n b t l r hξ0 j, c15_coonsNet_ilast ξ η n b t l r hξ1 j⟩

/-- Rational inputs.  `coons_patch` blends *homogeneous* control points, so `C15_coons_net` applies
    with `V` = homogeneous space and needs the corner control points to agree **including their
    weights**.  PARTIAL: the property asks for geometric agreement of the corners only; curves whose
    corner weights differ (same geometry) are outside this theorem, and indeed the pinned code
    rejects them in `edge_curves` (homogeneous end-point test) or returns a wrong boundary when
    `coons_patch` is called directly. -/
theorem C15_coons_rational_partial (ξ η : ℕ → R) (n m : ℕ) (b t l r : ℕ → V × R)
    (hξ0 : ξ 0 = 0) (hξ1 : ξ (n-1) = 1) (hη0 : η 0 = 0) (hη1 : η (m-1) = 1)
    (h00 : l 0 = b 0) (h10 : r 0 = b (n-1)) (h01 : l (m-1) = t 0) (h11 : r (m-1) = t (n-1))
    (i j : ℕ) :
    coonsNet ξ η n b t l r i 0 = b i ∧ coonsNet ξ η n b t l r i (m-1) = t i
    ∧ coonsNet ξ η n b t l r 0 j = l j ∧ coonsNet ξ η n b t l r (n-1) j = r j :=
  C15_coons_net ξ η n m b t l r hξ0 hξ1 hη0 hη1 h00 h10 h01 h11 i j

end Coons

omit [LinearOrder K] [IsStrictOrderedRing K] in
/-- The entry formula of the executable model (`Obj.coonsEntry`, used by `Obj.coonsPatch`) is
    `coonsNet`. -/
theorem C15_model_coons_entry (ξ η : ℕ → K) (n : ℕ) (b t l r : ℕ → K) (i j : ℕ) :
    Obj.coonsEntry (ξ i) (η j) (b i) (t i) (l j) (r j) (b 0) (b (n-1)) (t 0) (t (n-1))
      = coonsNet ξ η n b t l r i j := by
  simp only [Obj.coonsEntry, coonsNet, smul_eq_mul]
  ring

/-- The Greville abscissae of an open basis on `[0,1]` end in `0` and `1`. -/
theorem C15_greville_clamped (τ : ℕ → K) (hτ : Monotone τ) (q n : ℕ) (hq : 1 ≤ q) (hn : 1 ≤ n)
    (h0 : τ 0 = τ q) (h1 : τ n = τ (n+q)) (hs : τ q = 0) (he : τ n = 1) :
    grevilleAbscissa τ q 0 = 0 ∧ grevilleAbscissa τ q (n-1) = 1 := by
  rw [c15_greville_clamped_start τ hτ q hq h0, c15_greville_clamped_end τ hτ q n hq hn h1]
  exact ⟨hs, he⟩

/-- The net formula *is* the Coons blend: the tensor-product spline whose control net is
    `coonsNet` with the Greville abscissae of the two bases evaluates, at every `(u,v)` of the
    domain, to the Coons blend `(1-v) b(u) + v t(u) + (1-u) l(v) + u r(v) - bilinear(corners)` of the
    four boundary splines (per homogeneous component; `coonsMap` with the corner values `b 0`,
    `b (n-1)`, `t 0`, `t (n-1)`, which are `b(0), b(1), t(0), t(1)` by `C15_section_clamped_*`).
    Together with `C15_coons` this gives the boundary restriction of the Coons surface at every parameter, and it
    is the justification of the model's Greville formula (the code reaches the same net through
    `make_splines_identical`, i.e. degree elevation and knot insertion of the linear blends). -/
theorem C15_coons_net_eval (s1 s2 : Side) (τ1 τ2 : ℕ → K) (h1 : Monotone τ1) (h2 : Monotone τ2)
    (q1 q2 μ1 μ2 n m : ℕ) (hq1 : 1 ≤ q1) (hq2 : 1 ≤ q2) (hμ1 : q1 ≤ μ1) (hμ2 : q2 ≤ μ2)
    (hn : μ1 < n) (hm : μ2 < m) (u v : K)
    (hu : s1.mem (τ1 μ1) (τ1 (μ1+1)) u) (hv : s2.mem (τ2 μ2) (τ2 (μ2+1)) v)
    (b t l r : ℕ → K) :
    splineVal s1 τ1 q1 n (fun i => splineVal s2 τ2 q2 m
        (coonsNet (grevilleAbscissa τ1 q1) (grevilleAbscissa τ2 q2) n b t l r i) v) u
      = (1 - v) * splineVal s1 τ1 q1 n b u + v * splineVal s1 τ1 q1 n t u
        + (1 - u) * splineVal s2 τ2 q2 m l v + u * splineVal s2 τ2 q2 m r v
        - ((1 - u) * (1 - v) * b 0 + u * (1 - v) * b (n-1) + (1 - u) * v * t 0 + u * v * t (n-1)) :=
  c15_coonsNet_eval s1 s2 τ1 τ2 h1 h2 q1 q2 μ1 μ2 n m hq1 hq2 hμ1 hμ2 hn hm u v hu hv b t l r

/-! ## 4. The loop re-ordering search of four-curve `edge_curves` -/

/-- Every closed loop of four curves, given in any of the `4!` orders and with any of the `2^4`
    reversal patterns (this includes all rotations), is accepted by the search; the first curve is
    kept as given and the result is the directed loop through it. -/
theorem C15_loop_reorder :
    ∀ a b c d : Fin 4, [a, b, c, d].Nodup → ∀ flips ∈ C15_allFlips,
      C15_accepted (C15_arrange [a, b, c, d] flips) = true := by
  decide

/-- Soundness of the search, generic in the curve type (so also for the executable model on real
    curves with `allclose` on the homogeneous end control points): whatever it accepts is the first
    curve followed by three curves, each an input curve or a reversed one, that continue the chain
    end-to-start.  (The code does not re-test that the fourth curve closes the loop.) -/
theorem C15_loop_reorder_chain {C α : Type} (close : α → α → Bool) (startp endp : C → α)
    (rev : C → C) (hrev : ∀ c, startp (rev c) = endp c) (first : C) (rest l : List C)
    (h : loopGo close startp endp rev 3 first rest = .ok l) :
    l.length = 3 ∧ IsChainFrom close startp endp first l :=
  loopGo_ok close startp endp rev hrev 3 first rest l h

/-- Rejection: the only exception the search raises is `RuntimeError`, and it is raised as soon as
    the current end point is matched by neither end of any remaining curve. -/
theorem C15_loop_reorder_rejects {C α : Type} (close : α → α → Bool) (startp endp : C → α)
    (rev : C → C) (k : ℕ) (cur : C) (rest : List C) :
    (∀ e, loopGo close startp endp rev k cur rest = .error e → e = .runtime)
    ∧ ((∀ c ∈ rest, close (endp cur) (startp c) = false ∧ close (endp cur) (endp c) = false) →
        loopGo close startp endp rev (k+1) cur rest = .error .runtime) :=
  ⟨fun e h => loopGo_error close startp endp rev k cur rest e h,
   loopGo_no_continuation close startp endp rev k cur rest⟩

/-- Non-vacuity of the rejection: three curves that do not touch the end of the first one. -/
example : C15_search [(0, 1), (2, 3), (3, 2), (2, 0)] = .error .runtime := by decide

/-- An *open* chain is accepted (the closing test `c3[-1] == c0[0]` is not repeated after the search);
    the property makes no claim for such input. -/
example : C15_search [(0, 1), (1, 2), (2, 3), (3, 3)] = .ok [(0, 1), (1, 2), (2, 3), (3, 3)] := by decide

/-! ## 5. Ruled objects and extrusion -/

/-- `edge_curves(c1, c2)` / `edge_surfaces(s1, s2)` / `extrude`: an object whose last direction is
    the linear basis `BSplineBasis(2)` and whose control net is `c`: its min section (`v = 0`, resp.
    `w = 0`) is the object with net `c[…,0]`, its max section the one with net `c[…,1]` — for any
    number of leading directions, any parameters and sides. -/
theorem C15_ruled (args : List (Dir K × Side × K)) (c : List ℕ → K) :
    tval (args ++ [((linDir : Dir K), Side.right, 0)]) c = tval args (fun idx => c (idx ++ [0]))
    ∧ tval (args ++ [((linDir : Dir K), Side.left, 1)]) c = tval args (fun idx => c (idx ++ [1])) :=
  ⟨c15_tval_append_lin_lo args c, c15_tval_append_lin_hi args c⟩

/-- Between the two sections a ruled curve→surface is the linear interpolant of its two rows. -/
theorem C15_ruled_interior (s : Side) (D : Dir K) (u v : K) (h0 : 0 ≤ v) (h1 : v < 1)
    (c : List ℕ → K) :
    tval [(D, s, u), (linDir, .right, v)] c
      = (1 - v) * splineVal s D.τ D.q D.n (fun i => c [i, 0]) u
        + v * splineVal s D.τ D.q D.n (fun i => c [i, 1]) u := by
  simp only [tval, linDir]
  have e : (fun i => splineVal Side.right linKnots 1 2 (fun j => c [i, j]) v)
      = fun i => (1 - v) * c [i, 0] + v * c [i, 1] := by
    funext i
    exact c15_lin_splineVal (fun j => c [i, j]) v h0 h1
  rw [e, c15_splineVal_add, c15_splineVal_smul, c15_splineVal_smul]

/-- `extrude(obj, amount)`: the control net is `obj` in the first layer and `obj + amount·w` in the
    second (`w` = weights; `translate` adds `amount` times the weight to the homogeneous
    coordinates; `w = 1` for non-rational objects).  Hence the min section is `obj` and the max
    section is `obj + amount·W` in homogeneous coordinates, i.e. the profile moved by `amount`. -/
theorem C15_extrude (args : List (Dir K × Side × K)) (c base w : List ℕ → K) (d : K)
    (h0 : ∀ idx, c (idx ++ [0]) = base idx) (h1 : ∀ idx, c (idx ++ [1]) = base idx + d * w idx) :
    tval (args ++ [((linDir : Dir K), Side.right, 0)]) c = tval args base
    ∧ tval (args ++ [((linDir : Dir K), Side.left, 1)]) c = tval args base + d * tval args w := by
  rw [c15_tval_append_lin_lo, c15_tval_append_lin_hi]
  simp only [h0, h1]
  exact ⟨trivial, c15_tval_add_smul args base w d⟩

/-- … and after the projective division: the max section is the profile translated by the amount. -/
theorem C15_extrude_projected (args : List (Dir K × Side × K)) (c base w : List ℕ → K) (d : K)
    (h0 : ∀ idx, c (idx ++ [0]) = base idx) (h1 : ∀ idx, c (idx ++ [1]) = base idx + d * w idx)
    (hw : tval args w ≠ 0) :
    tval (args ++ [((linDir : Dir K), Side.left, 1)]) c / tval args w = tval args base / tval args w + d := by
  rw [(C15_extrude args c base w d h0 h1).2]
  field_simp

/-! ## 6. Six faces -/

section Faces

variable {R V : Type} [CommRing R] [AddCommGroup V] [Module R V]

/-- Function level: for six faces with compatible edges the trilinear transfinite interpolant that
    `edge_surfaces` assembles (`vol1 + vol2 + vol3 + vol4 − the three edge volumes`) restricts to
    the six inputs on the six sides of the unit cube. -/
theorem C15_edge_surfaces_6 {f0 f1 g0 g1 h0 h1 : R → R → V}
    (hc : FacesCompatible f0 f1 g0 g1 h0 h1) (u v w : R) :
    triMap f0 f1 g0 g1 h0 h1 0 v w = f0 v w ∧ triMap f0 f1 g0 g1 h0 h1 1 v w = f1 v w
    ∧ triMap f0 f1 g0 g1 h0 h1 u 0 w = g0 u w ∧ triMap f0 f1 g0 g1 h0 h1 u 1 w = g1 u w
    ∧ triMap f0 f1 g0 g1 h0 h1 u v 0 = h0 u v ∧ triMap f0 f1 g0 g1 h0 h1 u v 1 = h1 u v :=
  ⟨c15_triMap_u0 hc v w, c15_triMap_u1 hc v w, c15_triMap_v0 hc u w, c15_triMap_v1 hc u w,
   c15_triMap_w0 hc u v, c15_triMap_w1 hc u v⟩

/-- Non-vacuity: the faces of any trivariate map are compatible. -/
example (F : R → R → R → V) :
    FacesCompatible (fun v w => F 0 v w) (fun v w => F 1 v w) (fun u w => F u 0 w)
      (fun u w => F u 1 w) (fun u v => F u v 0) (fun u v => F u v 1) := by
  constructor <;> intro _ <;> rfl

end Faces

/-! ## 7. Constant-parameter curves -/

/-- `Surface.const_par_curve(knot, direction)`, one fibre of the control net in that direction
    (coefficients `c`, knots `τ`, degree `q ≥ 1`).

    PARTIAL.  Assumed (not proved here, exercised by the correspondence run): (a) the matrix product
    accumulated by the loop `C = b.insert_knot(knot) @ C` acts on the fibre as a chain of Boehm
    insertions (`BoehmChain`; one step is `Lemmas/Boehm.lean: boehm_code`), (b) after the
    `min(continuity, p-1)` insertions the knot has multiplicity exactly `q` and
    `j = max(bisect_left(knots, knot) - 1, 0)` is the index just before its first copy, i.e.
    `τ' j < τ' (j+1) = … = τ' (j+q) < τ' (j+q+1)`, (c) the direction is not periodic.
    Proved: then the selected coefficient `c' j` is the value of the *original* spline at the knot,
    from the right and (for `q ≤ j`, true for interior knots) from the left.  The knot at a clamped
    start/end needs no insertion and is `C15_section_clamped_start/_end`. -/
theorem C15_const_par_curve_partial {q : ℕ} {τ : ℕ → K} {n : ℕ} {c : ℕ → K} {τ' : ℕ → K} {n' : ℕ}
    {c' : ℕ → K} (hchain : BoehmChain q τ n c τ' n' c') (hτ' : Monotone τ') (hq : 1 ≤ q) (j : ℕ)
    (hjn : j < n') (heq : τ' (j+1) = τ' (j+q)) (hlo : τ' j < τ' (j+1))
    (hhi : τ' (j+q) < τ' (j+q+1)) :
    c' j = splineVal .right τ q n c (τ' (j+1))
    ∧ (q ≤ j → c' j = splineVal .left τ q n c (τ' (j+1))) := by
  constructor
  · rw [c15_chain_splineVal hchain, c15_splineVal_at_C0_knot_right τ' hτ' q j n' c' hq hjn heq hlo hhi]
  · intro hqj
    rw [c15_chain_splineVal hchain,
      c15_splineVal_at_C0_knot_left τ' hτ' q j n' c' hq hqj hjn heq hlo hhi]

/-- Interpolation at an interior knot of multiplicity `q` on its own (no insertion needed when the
    knot already has that multiplicity). -/
theorem C15_interpolation_at_C0_knot (s : Side) (τ : ℕ → K) (hτ : Monotone τ) (q j : ℕ) (hq : 1 ≤ q)
    (heq : τ (j+1) = τ (j+q)) (hlo : τ j < τ (j+1)) (hhi : τ (j+q) < τ (j+q+1)) :
    B s τ q j (τ (j+1)) = 1 :=
  c15_B_eq_one_at_C0_knot s τ hτ q j hq heq hlo hhi

/-- Non-vacuity of the knot pattern: knots `0,0,0,1,1,2,2,2,…` (degree 2, the double knot `1`). -/
example : ∃ τ : ℕ → ℚ, Monotone τ ∧ τ (2+1) = τ (2+2) ∧ τ 2 < τ (2+1) ∧ τ (2+2) < τ (2+2+1) := by
  refine ⟨fun i => if i < 3 then 0 else if i < 5 then 1 else 2, ?_, ?_, ?_, ?_⟩
  · apply monotone_nat_of_le_succ
    intro k
    show (if k < 3 then (0:ℚ) else if k < 5 then 1 else 2)
        ≤ (if k + 1 < 3 then (0:ℚ) else if k + 1 < 5 then 1 else 2)
    split_ifs <;> first | omega | norm_num
  all_goals norm_num

/-- Non-vacuity of `BoehmChain`: one insertion of `1/2` into the linear basis. -/
example : BoehmChain 1 (linKnots : ℕ → ℚ) 2 (fun i => (i : ℚ)) (insertSeq linKnots 2 (1/2)) 3
    (boehmCoefGen linKnots 2 (1/2) 1 2 (fun i => (i : ℚ))) :=
  BoehmChain.step 2 (1/2) (BoehmChain.refl _ _ _) linKnots_mono (by norm_num)
    (by simp [linKnots]; norm_num)
